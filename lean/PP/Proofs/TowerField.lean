/-
C09: `Fq6` and `Fq12` are fields (for prime `q`), the model's `inverse` is the field inverse and
fails exactly on zero.

Mathematical content: `ξ = 1 + u` is neither a square nor a cube in `Fq2`
(`ξ^((q²-1)/2) ≠ 1`, `ξ^((q²-1)/3) ≠ 1`, kernel computations, together with `x^(q²-1) = 1`),
hence the norm form of `Fq6/Fq2` is anisotropic, and `v` is not a square in `Fq6`
(its norm down to `Fq2` is `ξ`).
-/
import Mathlib.FieldTheory.Finite.Basic
import PP.Proofs.Tower12

set_option linter.unusedSectionVars false

namespace PP

/-! ### square-and-multiply that the kernel can run, in any monoid -/

/-- `acc * b^e` by binary square-and-multiply; structural recursion on `fuel` -/
def fastPowAux {M : Type} [Mul M] : Nat → M → Nat → M → M
  | 0, _, _, acc => acc
  | fuel + 1, b, e, acc =>
    if e = 0 then acc
    else fastPowAux fuel (b * b) (e / 2) (if e % 2 = 1 then acc * b else acc)

theorem fastPowAux_eq {M : Type} [Monoid M] : ∀ (fuel : Nat) (b : M) (e : Nat) (acc : M),
    e < 2 ^ fuel → fastPowAux fuel b e acc = acc * b ^ e := by
  intro fuel
  induction fuel with
  | zero =>
    intro b e acc he
    have : e = 0 := by omega
    subst this; simp [fastPowAux]
  | succ n ih =>
    intro b e acc he
    unfold fastPowAux
    split
    · next h => subst h; simp
    · next h =>
      have he2 : e / 2 < 2 ^ n := by
        rw [Nat.div_lt_iff_lt_mul (by norm_num)]; rw [pow_succ] at he; omega
      rw [ih _ _ _ he2]
      split
      · next hodd =>
        have hdec : e = 2 * (e / 2) + 1 := by omega
        conv_rhs => rw [hdec]
        have hc : Commute b ((b * b) ^ (e / 2)) :=
          ((Commute.refl b).mul_right (Commute.refl b)).pow_right _
        rw [pow_succ, pow_mul, pow_two, mul_assoc, hc.eq]
      · next heven =>
        have hdec : e = 2 * (e / 2) := by omega
        conv_rhs => rw [hdec]
        rw [pow_mul, pow_two]

/-- `b^e` with 4096 bits of fuel -/
def fastPow {M : Type} [Mul M] [One M] (b : M) (e : Nat) : M := fastPowAux 4096 b e 1

theorem fastPow_eq {M : Type} [Monoid M] (b : M) (e : Nat) (he : e < 2 ^ 4096) :
    fastPow b e = b ^ e := by
  unfold fastPow; rw [fastPowAux_eq _ _ _ _ he, one_mul]

/-! ### cardinalities -/

namespace Zp
variable {p : Nat}

def equivFin : Zp p ≃ Fin p where
  toFun a := ⟨a.v, a.h⟩
  invFun a := ⟨a.1, a.2⟩
  left_inv _ := rfl
  right_inv _ := rfl

instance : Fintype (Zp p) := Fintype.ofEquiv (Fin p) equivFin.symm

theorem card : Fintype.card (Zp p) = p := by
  rw [Fintype.card_congr equivFin, Fintype.card_fin]

end Zp

namespace Fq2

def equivProd : Fq2 ≃ Fq × Fq where
  toFun a := (a.c0, a.c1)
  invFun a := ⟨a.1, a.2⟩
  left_inv _ := rfl
  right_inv _ := rfl

instance : Fintype Fq2 := Fintype.ofEquiv (Fq × Fq) equivProd.symm

theorem card : Fintype.card Fq2 = Gen.q * Gen.q := by
  rw [Fintype.card_congr equivProd, Fintype.card_prod, Zp.card]

end Fq2

namespace Fq2

/-! ### `ξ` is neither a square nor a cube in `Fq2` -/

theorem q_sq_sub_one_lt : Gen.q * Gen.q - 1 < 2 ^ 4096 := by decide +kernel
theorem three_dvd : 3 ∣ Gen.q * Gen.q - 1 := by decide +kernel
theorem two_dvd : 2 ∣ Gen.q * Gen.q - 1 := by decide +kernel

theorem xi_pow_third_fast : fastPow xi ((Gen.q * Gen.q - 1) / 3) ≠ 1 := by decide +kernel
theorem xi_pow_half_fast : fastPow xi ((Gen.q * Gen.q - 1) / 2) ≠ 1 := by decide +kernel

theorem xi_pow_third : xi ^ ((Gen.q * Gen.q - 1) / 3) ≠ 1 := by
  rw [← fastPow_eq _ _ (lt_of_le_of_lt (Nat.div_le_self _ _) q_sq_sub_one_lt)]
  exact xi_pow_third_fast

theorem xi_pow_half : xi ^ ((Gen.q * Gen.q - 1) / 2) ≠ 1 := by
  rw [← fastPow_eq _ _ (lt_of_le_of_lt (Nat.div_le_self _ _) q_sq_sub_one_lt)]
  exact xi_pow_half_fast

section Prime
variable [hq : Fact (Nat.Prime Gen.q)]

theorem pow_card_sub_one (x : Fq2) (hx : x ≠ 0) : x ^ (Gen.q * Gen.q - 1) = 1 := by
  have := FiniteField.pow_card_sub_one_eq_one x hx
  rwa [card] at this

theorem pow_card_sub_one' (x : Fq2) (hx : x ≠ 0) : x ^ (Gen.q ^ 2 - 1) = 1 := by
  rw [pow_two]; exact pow_card_sub_one x hx

theorem xi_ne_zero : xi ≠ 0 := fun h => by
  have : (1 : Fq) = 0 := congrArg Fq2.c0 h
  exact one_ne_zero this

/-- `ξ` is not a cube in `Fq2` -/
theorem xi_not_cube (c : Fq2) : c ^ 3 ≠ xi := by
  intro h
  have hc : c ≠ 0 := by rintro rfl; exact xi_ne_zero (by rw [← h]; simp)
  apply xi_pow_third
  obtain ⟨k, hk⟩ := three_dvd
  rw [← h, ← pow_mul, hk, Nat.mul_div_cancel_left _ (by norm_num), ← hk]
  exact pow_card_sub_one c hc

/-- `ξ` is not a square in `Fq2` -/
theorem xi_not_square (c : Fq2) : c ^ 2 ≠ xi := by
  intro h
  have hc : c ≠ 0 := by rintro rfl; exact xi_ne_zero (by rw [← h]; simp)
  apply xi_pow_half
  obtain ⟨k, hk⟩ := two_dvd
  rw [← h, ← pow_mul, hk, Nat.mul_div_cancel_left _ (by norm_num), ← hk]
  exact pow_card_sub_one c hc

end Prime
end Fq2

/-! ## `Fq6` -/

namespace Fq6
open Fq2 (xi)

/-- the adjugate `a' ` with `a · a' = N(a)`; its components are the `c0 c1 c2` of `Fq6.inverse` -/
def adj (a : Fq6) : Fq6 :=
  ⟨a.c0 * a.c0 - xi * (a.c1 * a.c2), xi * (a.c2 * a.c2) - a.c0 * a.c1, a.c1 * a.c1 - a.c0 * a.c2⟩

/-- the relative norm `Fq6 → Fq2`, `N(a) = a0³ + ξ a1³ + ξ² a2³ - 3 ξ a0 a1 a2`
    (this is `tmp1` of `Fq6.inverse`) -/
def norm (a : Fq6) : Fq2 :=
  a.c0 * (adj a).c0 + xi * (a.c2 * (adj a).c1 + a.c1 * (adj a).c2)

theorem norm_eq (a : Fq6) : norm a =
    a.c0 ^ 3 + xi * a.c1 ^ 3 + xi ^ 2 * a.c2 ^ 3 - 3 * xi * (a.c0 * a.c1 * a.c2) := by
  simp only [norm, adj]; ring

theorem mul_adj (a : Fq6) : a * adj a = ofFq2 (norm a) := by
  ext1
  · rw [mul_c0, ofFq2_c0]; simp only [norm, adj]; ring
  · rw [mul_c1, ofFq2_c1]; simp only [adj]; ring
  · rw [mul_c2, ofFq2_c2]; simp only [adj]; ring

theorem norm_mul (a b : Fq6) : norm (a * b) = norm a * norm b := by
  simp only [norm_eq, mul_c0, mul_c1, mul_c2]; ring

theorem norm_one : norm 1 = 1 := by simp [norm_eq]
theorem norm_zero : norm 0 = 0 := by simp [norm_eq]
theorem norm_v : norm v = xi := by simp [norm_eq, v]
theorem norm_ofFq2 (c : Fq2) : norm (ofFq2 c) = c ^ 3 := by simp [norm_eq]

attribute [local irreducible] Fq2.inverse in
/-- the pieces of the model's `inverse`, named -/
theorem inverse_unfold (a : Fq6) : inverse a =
    match Fq2.inverse (norm a) with
    | none => none
    | some t => some ⟨t * (adj a).c0, t * (adj a).c1, t * (adj a).c2⟩ := by
  have h0 : -(a.c2.mulByNonresidue * a.c1) + sq a.c0 = (adj a).c0 := by
    rw [Fq2.mulByNonresidue_eq, Fq2.sq_eq]; simp only [adj]; ring
  have h1 : (sq a.c2).mulByNonresidue - a.c0 * a.c1 = (adj a).c1 := by
    rw [Fq2.mulByNonresidue_eq, Fq2.sq_eq]; simp only [adj]; ring
  have h2 : sq a.c1 - a.c0 * a.c2 = (adj a).c2 := by
    rw [Fq2.sq_eq]; simp only [adj]
  have ht : (a.c2 * (adj a).c1 + a.c1 * (adj a).c2).mulByNonresidue + a.c0 * (adj a).c0
      = norm a := by
    rw [Fq2.mulByNonresidue_eq]; simp only [norm]; ring
  show (match Fq2.inverse
      ((a.c2 * ((sq a.c2).mulByNonresidue - a.c0 * a.c1)
        + a.c1 * (sq a.c1 - a.c0 * a.c2)).mulByNonresidue
        + a.c0 * (-(a.c2.mulByNonresidue * a.c1) + sq a.c0)) with
    | none => none
    | some t => some (⟨t * (-(a.c2.mulByNonresidue * a.c1) + sq a.c0),
        t * ((sq a.c2).mulByNonresidue - a.c0 * a.c1), t * (sq a.c1 - a.c0 * a.c2)⟩ : Fq6)) = _
  rw [h0, h1, h2, ht]

section Prime
variable [hq : Fact (Nat.Prime Gen.q)]

theorem cube_form_eq_zero {b0 b1 : Fq2} (h : b0 ^ 3 + xi * b1 ^ 3 = 0) : b0 = 0 ∧ b1 = 0 := by
  by_cases hb : b1 = 0
  · subst hb
    have : b0 ^ 3 = 0 := by simpa using h
    exact ⟨by simpa using this, rfl⟩
  · exfalso
    apply Fq2.xi_not_cube (-b0 / b1)
    field_simp
    linear_combination -h

/-- the norm form is anisotropic: this is "`X³ - ξ` is irreducible over `Fq2`" -/
theorem norm_eq_zero_iff (a : Fq6) : norm a = 0 ↔ a = 0 := by
  constructor
  · intro h
    -- `a · (a2 v - a1) = c1' - c2' v` has degree ≤ 1 in `v` and norm `0`
    have key : (adj a).c1 ^ 3 + xi * (-(adj a).c2) ^ 3 = 0 := by
      have : (adj a).c1 ^ 3 + xi * (-(adj a).c2) ^ 3
          = norm a * (xi * a.c2 ^ 3 - a.c1 ^ 3) := by
        simp only [norm_eq, adj]; ring
      rw [this, h, zero_mul]
    obtain ⟨e1, e2⟩ := cube_form_eq_zero key
    have e2 : a.c1 * a.c1 = a.c0 * a.c2 := by
      have : (adj a).c2 = 0 := by simpa using e2
      simp only [adj] at this; linear_combination this
    have e1 : xi * (a.c2 * a.c2) = a.c0 * a.c1 := by
      simp only [adj] at e1; linear_combination e1
    have h2 : a.c2 = 0 := by
      by_contra h2
      apply Fq2.xi_not_cube (a.c1 / a.c2)
      field_simp
      linear_combination a.c1 * e2 - a.c2 * e1
    have h1 : a.c1 = 0 := by
      rw [h2] at e2
      have : a.c1 * a.c1 = 0 := by simpa using e2
      simpa using this
    have h0 : a.c0 = 0 := by
      rw [norm_eq, h1, h2] at h
      have : a.c0 ^ 3 = 0 := by simpa using h
      simpa using this
    ext1 <;> simp [h0, h1, h2]
  · rintro rfl; exact norm_zero

theorem inverse_of_ne (a : Fq6) (h : a ≠ 0) :
    inverse a = some ⟨(norm a)⁻¹ * (adj a).c0, (norm a)⁻¹ * (adj a).c1, (norm a)⁻¹ * (adj a).c2⟩ := by
  have hn : norm a ≠ 0 := fun h0 => h ((norm_eq_zero_iff a).mp h0)
  rw [inverse_unfold, Fq2.inverse_eq_some _ hn]

theorem inverse_zero : inverse (0 : Fq6) = none := by
  rw [inverse_unfold, norm_zero, Fq2.inverse_zero]

/-- inversion fails exactly for zero -/
theorem inverse_eq_none_iff (a : Fq6) : inverse a = none ↔ a = 0 := by
  constructor
  · intro h
    by_contra h0
    rw [inverse_of_ne a h0] at h
    cases h
  · rintro rfl; exact inverse_zero

/-- whenever inversion succeeds the result is the inverse -/
theorem inverse_some_mul {a b : Fq6} (h : inverse a = some b) : a * b = 1 := by
  have h0 : a ≠ 0 := fun h0 => by rw [(inverse_eq_none_iff a).mpr h0] at h; cases h
  have hn : norm a ≠ 0 := fun hz => h0 ((norm_eq_zero_iff a).mp hz)
  rw [inverse_of_ne a h0] at h
  obtain rfl := Option.some.inj h
  have : (⟨(norm a)⁻¹ * (adj a).c0, (norm a)⁻¹ * (adj a).c1, (norm a)⁻¹ * (adj a).c2⟩ : Fq6)
      = ofFq2 (norm a)⁻¹ * adj a := by rw [ofFq2_mul]
  rw [this, mul_left_comm, mul_adj, ← map_mul, inv_mul_cancel₀ hn, map_one]

instance : Inv Fq6 := ⟨fun a => (inverse a).getD 0⟩
theorem inv_def (a : Fq6) : a⁻¹ = (inverse a).getD 0 := rfl

/-- integer powers (`zpowRec` spelled out so that its laws hold syntactically: the default
    `rfl` proofs make the unifier evaluate `inverse` on open terms) -/
def zpow (z : ℤ) (a : Fq6) : Fq6 :=
  match z with
  | Int.ofNat n => a ^ n
  | Int.negSucc n => (a ^ (n + 1))⁻¹

theorem zpow_ofNat (n : ℕ) (a : Fq6) : zpow (n : ℤ) a = a ^ n := rfl
theorem zpow_negSucc (n : ℕ) (a : Fq6) : zpow (Int.negSucc n) a = (a ^ (n + 1))⁻¹ := rfl
theorem zpow_neg' (n : ℕ) (a : Fq6) : zpow (Int.negSucc n) a = (zpow (n.succ : ℕ) a)⁻¹ := by
  rw [zpow_negSucc, zpow_ofNat]

instance instField : Field Fq6 where
  __ := instCommRing
  inv := Inv.inv
  zpow := zpow
  zpow_zero' a := pow_zero a
  zpow_succ' n a := pow_succ a n
  zpow_neg' := zpow_neg'
  exists_pair_ne := ⟨0, 1, fun h => by
    have : (0 : Fq2) = 1 := congrArg Fq6.c0 h
    exact zero_ne_one this⟩
  mul_inv_cancel a h := by
    rw [inv_def]
    have := inverse_of_ne a h
    exact inverse_some_mul (by rw [this]; rfl)
  inv_zero := by rw [inv_def, inverse_zero]; rfl
  nnqsmul := _
  nnqsmul_def := fun _ _ => rfl
  qsmul := _
  qsmul_def := fun _ _ => rfl

theorem inverse_eq_some (a : Fq6) (h : a ≠ 0) : inverse a = some a⁻¹ := by
  rw [inv_def, inverse_of_ne a h]; rfl

instance : LawfulFieldOps Fq6 where
  sq_eq := sq_eq
  dbl_eq := dbl_eq
  inv_zero := inverse_zero
  inv_ne := inverse_eq_some
  isZero_iff := isZero_iff

/-- `v` is not a square in `Fq6` (its norm `ξ` is not a square in `Fq2`) -/
theorem v_not_square (s : Fq6) : s ^ 2 ≠ v := by
  intro h
  apply Fq2.xi_not_square (norm s)
  rw [pow_two, ← norm_mul, ← pow_two, h, norm_v]

end Prime
end Fq6

/-! ## `Fq12` -/

namespace Fq12
open Fq6 (v)

/-- the relative norm `Fq12 → Fq6`, `c0² - v c1²` (this is `c0s` of `Fq12.inverse`) -/
def norm (a : Fq12) : Fq6 := a.c0 * a.c0 - v * (a.c1 * a.c1)

theorem mul_conjugate' (a : Fq12) : a * conjugate a = ofFq6 (norm a) := mul_conjugate a

theorem norm_mul (a b : Fq12) : norm (a * b) = norm a * norm b := by
  simp only [norm, mul_c0, mul_c1]; ring

theorem norm_zero : norm 0 = 0 := by simp [norm]
theorem norm_one : norm 1 = 1 := by simp [norm]

attribute [local irreducible] Fq6.inverse in
theorem inverse_unfold (a : Fq12) : inverse a =
    match Fq6.inverse (norm a) with
    | none => none
    | some t => some ⟨t * a.c0, -(t * a.c1)⟩ := by
  have hn : sq a.c0 - (sq a.c1).mulByNonresidue = norm a := by
    rw [Fq6.mulByNonresidue_eq, Fq6.sq_eq, Fq6.sq_eq]; simp only [norm]; ring
  show (match Fq6.inverse (sq a.c0 - (sq a.c1).mulByNonresidue) with
    | none => none
    | some t => some (⟨t * a.c0, -(t * a.c1)⟩ : Fq12)) = _
  rw [hn]

section Prime
variable [hq : Fact (Nat.Prime Gen.q)]

/-- the norm form is anisotropic: this is "`X² - v` is irreducible over `Fq6`" -/
theorem norm_eq_zero_iff (a : Fq12) : norm a = 0 ↔ a = 0 := by
  constructor
  · intro h
    simp only [norm] at h
    have h1 : a.c1 = 0 := by
      by_contra h1
      apply Fq6.v_not_square (a.c0 / a.c1)
      field_simp
      linear_combination h
    have h0 : a.c0 = 0 := by
      rw [h1] at h
      have : a.c0 * a.c0 = 0 := by simpa using h
      simpa using this
    ext1 <;> simp [h0, h1]
  · rintro rfl; exact norm_zero

theorem inverse_of_ne (a : Fq12) (h : a ≠ 0) :
    inverse a = some ⟨(norm a)⁻¹ * a.c0, -((norm a)⁻¹ * a.c1)⟩ := by
  have hn : norm a ≠ 0 := fun h0 => h ((norm_eq_zero_iff a).mp h0)
  rw [inverse_unfold, Fq6.inverse_eq_some _ hn]

theorem inverse_zero : inverse (0 : Fq12) = none := by
  rw [inverse_unfold, norm_zero, Fq6.inverse_zero]

/-- inversion fails exactly for zero -/
theorem inverse_eq_none_iff (a : Fq12) : inverse a = none ↔ a = 0 := by
  constructor
  · intro h
    by_contra h0
    rw [inverse_of_ne a h0] at h
    cases h
  · rintro rfl; exact inverse_zero

/-- whenever inversion succeeds the result is the inverse -/
theorem inverse_some_mul {a b : Fq12} (h : inverse a = some b) : a * b = 1 := by
  have h0 : a ≠ 0 := fun h0 => by rw [(inverse_eq_none_iff a).mpr h0] at h; cases h
  have hn : norm a ≠ 0 := fun hz => h0 ((norm_eq_zero_iff a).mp hz)
  rw [inverse_of_ne a h0] at h
  obtain rfl := Option.some.inj h
  have : (⟨(norm a)⁻¹ * a.c0, -((norm a)⁻¹ * a.c1)⟩ : Fq12)
      = ofFq6 (norm a)⁻¹ * conjugate a := by
    ext1
    · rw [mul_c0]; simp [conjugate_c0, conjugate_c1]
    · rw [mul_c1]; simp [conjugate_c0, conjugate_c1]
  rw [this, mul_left_comm, mul_conjugate', ← map_mul, inv_mul_cancel₀ hn, map_one]

instance : Inv Fq12 := ⟨fun a => (inverse a).getD 0⟩
theorem inv_def (a : Fq12) : a⁻¹ = (inverse a).getD 0 := rfl

/-- integer powers (`zpowRec` spelled out so that its laws hold syntactically: the default
    `rfl` proofs make the unifier evaluate `inverse` on open terms) -/
def zpow (z : ℤ) (a : Fq12) : Fq12 :=
  match z with
  | Int.ofNat n => a ^ n
  | Int.negSucc n => (a ^ (n + 1))⁻¹

theorem zpow_ofNat (n : ℕ) (a : Fq12) : zpow (n : ℤ) a = a ^ n := rfl
theorem zpow_negSucc (n : ℕ) (a : Fq12) : zpow (Int.negSucc n) a = (a ^ (n + 1))⁻¹ := rfl
theorem zpow_neg' (n : ℕ) (a : Fq12) : zpow (Int.negSucc n) a = (zpow (n.succ : ℕ) a)⁻¹ := by
  rw [zpow_negSucc, zpow_ofNat]

instance instField : Field Fq12 where
  __ := instCommRing
  inv := Inv.inv
  zpow := zpow
  zpow_zero' a := pow_zero a
  zpow_succ' n a := pow_succ a n
  zpow_neg' := zpow_neg'
  exists_pair_ne := ⟨0, 1, fun h => by
    have : (0 : Fq6) = 1 := congrArg Fq12.c0 h
    exact zero_ne_one this⟩
  mul_inv_cancel a h := by
    rw [inv_def]
    have := inverse_of_ne a h
    exact inverse_some_mul (by rw [this]; rfl)
  inv_zero := by rw [inv_def, inverse_zero]; rfl
  nnqsmul := _
  nnqsmul_def := fun _ _ => rfl
  qsmul := _
  qsmul_def := fun _ _ => rfl

theorem inverse_eq_some (a : Fq12) (h : a ≠ 0) : inverse a = some a⁻¹ := by
  rw [inv_def, inverse_of_ne a h]; rfl

instance : LawfulFieldOps Fq12 where
  sq_eq := sq_eq
  dbl_eq := dbl_eq
  inv_zero := inverse_zero
  inv_ne := inverse_eq_some
  isZero_iff := isZero_iff

end Prime
end Fq12

end PP
