/-
Limb-level Montgomery multiplication, part 3: the unrolled `square` (`genSquareProg n`):
off-diagonal triangle, doubling by shifts, diagonal -- computes `self²` exactly, for every limb
count `n ≥ 2` and ALL `u64` limb values; hence `square` computes `Mont.square`.
-/
import PP.Proofs.MontLimb2

namespace PP.MontLimb
open PP PP.Mont PP.Limbs

/-! ## 1. the integer identity `A² = 2·(off-diagonal) + (diagonal)` -/

/-- `Σ_{t<i} a_t·2^(64t) · Σ_{u>t} a_u·2^(64u)` -/
def offDiag (n : Nat) (a : Nat → Nat) : Nat → Nat
  | 0 => 0
  | i + 1 => offDiag n a i +
      a i * 2 ^ (64 * i) * (2 ^ (64 * (i + 1)) * wsum (fun j => a (i + 1 + j)) (n - 1 - i))

/-- `Σ_{t<i} a_t²·2^(128t)` -/
def sqsum (a : Nat → Nat) : Nat → Nat
  | 0 => 0
  | i + 1 => sqsum a i + a i * a i * 2 ^ (64 * (2 * i))

theorem square_split_aux (n : Nat) (a : Nat → Nat) (i : Nat) (hi : i ≤ n) :
    2 * offDiag n a i + sqsum a i + (2 ^ (64 * i) * wsum (fun j => a (i + j)) (n - i)) ^ 2
      = (wsum a n) ^ 2 := by
  induction i with
  | zero =>
    simp only [offDiag, sqsum, Nat.mul_zero, Nat.pow_zero, Nat.one_mul, Nat.zero_add, Nat.sub_zero]
  | succ i ih =>
    have ih := ih (by omega)
    rw [show n - i = (n - (i + 1)) + 1 by omega, wsum_succ'] at ih
    rw [← ih]
    have e : ∀ j, i + (1 + j) = i + 1 + j := fun j => by omega
    simp only [offDiag, sqsum, e, Nat.add_zero, show n - 1 - i = n - (i + 1) by omega]
    ring

theorem square_split (n : Nat) (a : Nat → Nat) (hn : 1 ≤ n) :
    2 * offDiag n a (n - 1) + sqsum a n = wsum a n * wsum a n := by
  have h := square_split_aux n a n (le_refl _)
  rw [Nat.sub_self, wsum_zero, Nat.mul_zero] at h
  have e : offDiag n a n = offDiag n a (n - 1) := by
    obtain ⟨k, rfl⟩ : ∃ k, n = k + 1 := ⟨n - 1, by omega⟩
    show offDiag (k + 1) a k + _ = offDiag (k + 1) a (k + 1 - 1)
    simp only [Nat.add_sub_cancel, Nat.sub_self, wsum_zero, Nat.mul_zero, Nat.add_zero]
  rw [e] at h
  rw [← Nat.pow_two, ← h]; ring

/-! ## 2. the off-diagonal rows -/

/-- row `i` (`n = i + 1 + d`): `(r_{2i+1} … r_{i+n}) := (r_{2i+1} … r_{i+n-1}) + self_i·(self_{i+1} … self_{n-1})` -/
theorem sqRow (P : Params) (i d : Nat) (s : State) (hs : s.OK) :
    ∃ s', runBody P (genSqRow (i + 1 + d) i) s = s' ∧ s'.OK ∧ s'.self = s.self ∧
      (∀ j, (j < 2 * i + 1 ∨ 2 * i + 1 + d < j) → s'.r j = s.r j) ∧
      wsum (fun j => s'.r (2 * i + 1 + j)) (d + 1)
        = (if i = 0 then 0 else wsum (fun j => s.r (2 * i + 1 + j)) d)
          + s.self i * wsum (fun j => s.self (i + 1 + j)) d := by
  refine ⟨_, rfl, ?_⟩
  unfold genSqRow
  rw [show i + 1 + d - 1 - i = d by omega, show i + (i + 1 + d) = 2 * i + 1 + d by omega]
  rw [runBody_append, runBody_append, runBody_singleton, runBody_singleton]
  have hs0 : (step P (.mov .carry (.lit 0)) s).OK := step_ok P _ hs
  obtain ⟨ok1, env1, fr1, sum1⟩ := macChain P (2 * i + 1) (i = 0) (.selfL i) (fun j => .selfL (i + 1 + j))
    (stable_selfL P i) (fun j => stable_selfL P _) _ hs0 d
  generalize runBody P ((List.range d).map (fun j =>
      Instr.mac (some (.r (2 * i + 1 + j))) (if i = 0 then .lit 0 else rr (2 * i + 1 + j)) (.selfL i)
        (.selfL (i + 1 + j)))) (step P (.mov .carry (.lit 0)) s) = s1 at ok1 env1 fr1 sum1
  refine ⟨step_ok P _ ok1, env1.2.2.1, ?_, ?_⟩
  · intro j hj
    show (if j = 2 * i + 1 + d then _ else s1.r j) = s.r j
    rw [if_neg (by omega)]
    exact fr1 j (by omega)
  · rw [wsum_succ]
    have e1 : wsum (fun j => (step P (.mov (.r (2 * i + 1 + d)) (.reg .carry)) s1).r (2 * i + 1 + j)) d
        = wsum (fun j => s1.r (2 * i + 1 + j)) d := by
      apply wsum_congr; intro j hj
      show (if 2 * i + 1 + j = 2 * i + 1 + d then _ else s1.r (2 * i + 1 + j)) = _
      rw [if_neg (by omega)]
    have e2 : (step P (.mov (.r (2 * i + 1 + d)) (.reg .carry)) s1).r (2 * i + 1 + d) = s1.carry := by
      show (if 2 * i + 1 + d = 2 * i + 1 + d then s1.carry else _) = _
      rw [if_pos rfl]
    rw [e1, e2, sum1]
    show _ + 0 % W64 = _
    simp only [W64_eq_pow, Nat.zero_mod, Nat.add_zero]
    rfl

/-- the first `i ≤ n-1` rows: `2^64·(r_1 … r_{n+i-1}) = offDiag i` -/
theorem sqRows (P : Params) (n : Nat) (s : State) (hs : s.OK) (i : Nat) (hi : i + 1 ≤ n) :
    ∃ s', runBody P ((List.range i).flatMap (genSqRow n)) s = s' ∧ s'.OK ∧ s'.self = s.self ∧
      (i ≠ 0 → 2 ^ 64 * wsum (fun j => s'.r (1 + j)) (n + i - 1) = offDiag n s.self i) := by
  induction i with
  | zero => exact ⟨s, rfl, hs, rfl, fun h => absurd rfl h⟩
  | succ i ih =>
    obtain ⟨s1, e1, ok1, self1, sum1⟩ := ih (by omega)
    obtain ⟨d, hd⟩ : ∃ d, n = i + 1 + d := ⟨n - (i + 1), by omega⟩
    obtain ⟨s2, e2, ok2, self2, fr2, sum2⟩ := sqRow P i d s1 ok1
    rw [← hd] at e2
    refine ⟨s2, ?_, ok2, self2.trans self1, fun _ => ?_⟩
    · rw [List.range_succ, List.flatMap_append, runBody_append, e1]
      simpa using e2
    · rw [self1] at sum2
      have hsplit : wsum (fun j => s2.r (1 + j)) (n + (i + 1) - 1)
          = wsum (fun j => s1.r (1 + j)) (2 * i) + 2 ^ (64 * (2 * i)) * wsum (fun j => s2.r (2 * i + 1 + j)) (d + 1) := by
        rw [show n + (i + 1) - 1 = 2 * i + (d + 1) by omega, wsum_add]
        congr 1
        · exact wsum_congr (fun j hj => fr2 _ (Or.inl (by omega)))
        · congr 1; exact wsum_congr (fun j _ => by congr 1; omega)
      rw [hsplit, sum2, offDiag, show n - 1 - i = d by omega]
      by_cases hi0 : i = 0
      · subst hi0; simp [offDiag]; ring
      · rw [if_neg hi0]
        have h1 := sum1 hi0
        rw [show n + i - 1 = 2 * i + d by omega, wsum_add] at h1
        have e3 : wsum (fun j => s1.r (1 + (2 * i + j))) d = wsum (fun j => s1.r (2 * i + 1 + j)) d :=
          wsum_congr (fun j _ => by congr 1; omega)
        rw [e3] at h1
        rw [← h1]
        rw [show 64 * (i + 1) = 64 * i + 64 by ring, pow_add, show 64 * (2 * i) = 64 * i + 64 * i by ring, pow_add]
        ring

theorem genSqRows_noCall (n m : Nat) : ∀ i ∈ (List.range m).flatMap (genSqRow n), isCall i = false := by
  intro i hi
  simp only [List.mem_flatMap, genSqRow, List.mem_append, List.mem_singleton, List.mem_map] at hi
  obtain ⟨_, _, (rfl | ⟨_, _, rfl⟩) | rfl⟩ := hi <;> rfl

/-! ## 3. doubling by shifts -/

theorem shl1_or_shr63 {x y : Nat} (hy : y < 2 ^ 64) :
    ((x <<< 1) % 2 ^ 64) ||| (y >>> 63) = 2 * x % 2 ^ 64 + y / 2 ^ 63 := by
  rw [Nat.shiftLeft_eq, Nat.shiftRight_eq_div_pow]
  have h1 : x * 2 ^ 1 % 2 ^ 64 = (x % 2 ^ 63) * 2 ^ 1 := by omega
  have h2 : y / 2 ^ 63 < 2 ^ 1 := by omega
  rw [h1, Nat.or_comm, or_eq_add_of_lt_of_mul h2]
  omega

theorem double_wsum (f g : Nat → Nat) (m : Nat) (hm : 1 ≤ m) (hf : ∀ j, f j < 2 ^ 64)
    (g0 : g 0 = 2 * f 0 % 2 ^ 64)
    (gj : ∀ j, 1 ≤ j → j < m → g j = 2 * f j % 2 ^ 64 + f (j - 1) / 2 ^ 63)
    (gm : g m = f (m - 1) / 2 ^ 63) :
    wsum g (m + 1) = 2 * wsum f m := by
  have aux : ∀ t, 1 ≤ t → t ≤ m → wsum g t + f (t - 1) / 2 ^ 63 * 2 ^ (64 * t) = 2 * wsum f t := by
    intro t ht
    induction t, ht using Nat.le_induction with
    | base =>
      intro _
      simp only [wsum_succ, wsum_zero, g0, Nat.sub_self, Nat.mul_zero, Nat.pow_zero, Nat.mul_one,
        Nat.zero_add]
      have := hf 0
      omega
    | succ t ht ih =>
      intro htm
      have ih := ih (by omega)
      rw [wsum_succ, wsum_succ, gj t ht (by omega), Nat.add_sub_cancel, pow64_succ]
      have e : 2 * f t % 2 ^ 64 + 2 ^ 64 * (f t / 2 ^ 63) = 2 * f t := by have := hf t; omega
      linear_combination ih + 2 ^ (64 * t) * e
  rw [wsum_succ, gm]
  exact aux m hm (le_refl _)

/-- the `shlOr` steps, from the top down: after `t` of them the registers `m-t+1 … m` are doubled -/
theorem sqDouble_steps (P : Params) (m : Nat) (s0 : State) (hs0 : s0.OK) (old : Nat → Nat)
    (hold : ∀ j, j ≤ m → s0.r j = old j) (t : Nat) (ht : t + 1 ≤ m) :
    ∃ s', runBody P ((List.range t).map (fun u =>
        Instr.shlOr (.r (m - u)) (rr (m - u)) 1 (rr (m - 1 - u)) 63)) s0 = s' ∧ s'.OK ∧
      s'.self = s0.self ∧
      ∀ j, s'.r j = if m - t < j ∧ j ≤ m then
          ((old j <<< 1) % 2 ^ 64) ||| (old (j - 1) >>> 63) else s0.r j := by
  induction t with
  | zero => exact ⟨s0, rfl, hs0, rfl, fun j => by rw [if_neg (by omega)]⟩
  | succ t ih =>
    obtain ⟨s1, e1, ok1, self1, r1⟩ := ih (by omega)
    refine ⟨_, rfl, ?_, ?_, ?_⟩
    · rw [List.range_succ, List.map_append, runBody_append, e1, List.map_singleton, runBody_singleton]
      exact step_ok P _ ok1
    · rw [List.range_succ, List.map_append, runBody_append, e1, List.map_singleton, runBody_singleton]
      exact self1
    · intro j
      rw [List.range_succ, List.map_append, runBody_append, e1, List.map_singleton, runBody_singleton]
      show (if j = m - t then ((s1.r (m - t) <<< 1) % W64) ||| (s1.r (m - 1 - t) >>> 63) else s1.r j) = _
      by_cases hj : j = m - t
      · subst hj
        rw [if_pos rfl, if_pos (by omega), r1, r1, if_neg (by omega), if_neg (by omega),
          hold _ (by omega), hold _ (by omega), W64_eq_pow, show m - 1 - t = m - t - 1 by omega]
      · rw [if_neg hj, r1]
        by_cases h2 : m - t < j ∧ j ≤ m
        · rw [if_pos h2, if_pos (by omega)]
        · rw [if_neg h2, if_neg (by omega)]

/-- `(r_1 … r_{2n-1}) := 2·(r_1 … r_{2n-2})` -/
theorem sqDouble (P : Params) (n : Nat) (hn : 2 ≤ n) (s : State) (hs : s.OK) :
    ∃ s', runBody P (genSqDouble n) s = s' ∧ s'.OK ∧ s'.self = s.self ∧
      wsum (fun j => s'.r (1 + j)) (2 * n - 1) = 2 * wsum (fun j => s.r (1 + j)) (2 * n - 2) := by
  obtain ⟨m, hm⟩ : ∃ m, 2 * n - 2 = m + 2 := ⟨2 * n - 4, by omega⟩
  unfold genSqDouble
  rw [show 2 * n - 1 = m + 3 by omega, show 2 * n - 3 = m + 1 by omega, hm]
  have efun : (fun t => Instr.shlOr (.r (m + 2 - t)) (rr (m + 2 - t)) 1 (rr (m + 1 - t)) 63)
      = (fun u => Instr.shlOr (.r (m + 2 - u)) (rr (m + 2 - u)) 1 (rr (m + 2 - 1 - u)) 63) := rfl
  rw [efun, runBody_append, runBody_append, runBody_singleton, runBody_singleton]
  set s0 := step P (.shr (.r (m + 3)) (rr (m + 2)) 63) s with hs0
  have ok0 : s0.OK := step_ok P _ hs
  have r0 : ∀ j, s0.r j = if j = m + 3 then s.r (m + 2) >>> 63 else s.r j := fun j => rfl
  obtain ⟨s1, e1, ok1, self1, r1⟩ := sqDouble_steps P (m + 2) s0 ok0 s.r
    (fun j hj => by rw [r0, if_neg (by omega)]) (m + 1) (by omega)
  rw [e1]
  refine ⟨_, rfl, step_ok P _ ok1, self1, ?_⟩
  have r2 : ∀ j, (step P (.shl (.r 1) (rr 1) 1) s1).r j
      = if j = 1 then (s1.r 1 <<< 1) % 2 ^ 64 else s1.r j := fun j => rfl
  rw [show m + 3 = (m + 2) + 1 by rfl]
  apply double_wsum _ _ (m + 2) (by omega) (fun j => hs.r _)
  · -- j = 0 : r_1
    rw [r2, if_pos rfl, r1, if_neg (by omega), r0, if_neg (by omega), Nat.shiftLeft_eq]
    congr 1; ring
  · intro j hj1 hj2
    rw [r2, if_neg (by omega), r1, if_pos (by omega), shl1_or_shr63 (hs.r _)]
    congr 3; omega
  · rw [r2, if_neg (by omega), r1, if_neg (by omega), r0, if_pos (by omega),
      Nat.shiftRight_eq_div_pow]
    congr 2; omega

/-! ## 4. the diagonal -/

theorem sqDiag_pairs (P : Params) (s0 : State) (hs0 : s0.OK) (hc : s0.carry = 0) (i : Nat) :
    ∃ s', runBody P ((List.range i).flatMap (fun i =>
        [Instr.mac (some (.r (2 * i))) (if i = 0 then .lit 0 else rr (2 * i)) (.selfL i) (.selfL i),
         Instr.adc (.r (2 * i + 1)) (rr (2 * i + 1)) (.lit 0)])) s0 = s' ∧ s'.OK ∧
      s'.self = s0.self ∧ (∀ j, 2 * i ≤ j → s'.r j = s0.r j) ∧
      wsum s'.r (2 * i) + s'.carry * 2 ^ (64 * (2 * i))
        = wsum (fun j => if j = 0 then 0 else s0.r j) (2 * i) + sqsum s0.self i := by
  induction i with
  | zero => exact ⟨s0, rfl, hs0, rfl, fun _ _ => rfl, by simp [sqsum, hc]⟩
  | succ i ih =>
    obtain ⟨s1, e1, ok1, self1, fr1, sum1⟩ := ih
    refine ⟨_, rfl, ?_⟩
    rw [List.range_succ, List.flatMap_append, runBody_append, e1]
    simp only [List.flatMap_cons, List.flatMap_nil, List.append_nil, runBody_cons, runBody_nil]
    -- the `mac`
    set acc := evalOpd P s1 (if i = 0 then .lit 0 else rr (2 * i)) with hacc
    have hacc_val : acc = if 2 * i = 0 then 0 else s0.r (2 * i) := by
      rw [hacc]
      by_cases hi : i = 0
      · subst hi; rfl
      · rw [if_neg hi, if_neg (by omega)]; exact fr1 _ (le_refl _)
    have hacc_lt : acc < 2 ^ 64 := evalOpd_lt P ok1 _
    have ar1 := mac_arith hacc_lt (ok1.self i) (ok1.self i) ok1.carry
    set s2 := step P (.mac (some (.r (2 * i))) (if i = 0 then .lit 0 else rr (2 * i)) (.selfL i) (.selfL i)) s1
      with hs2
    have ok2 : s2.OK := step_ok P _ ok1
    have r2 : ∀ j, s2.r j = if j = 2 * i then (acc + s1.self i * s1.self i + s1.carry) % 2 ^ 128 % 2 ^ 64
        else s1.r j := fun j => rfl
    have c2 : s2.carry = (acc + s1.self i * s1.self i + s1.carry) % 2 ^ 128 / 2 ^ 64 % 2 ^ 64 := rfl
    -- the `adc`
    have ar2 := adc_arith (ok2.r (2 * i + 1)) (by norm_num : (0 : Nat) % 2 ^ 64 < 2 ^ 64) ok2.carry
    set s3 := step P (.adc (.r (2 * i + 1)) (rr (2 * i + 1)) (.lit 0)) s2 with hs3
    have ok3 : s3.OK := step_ok P _ ok2
    have r3 : ∀ j, s3.r j = if j = 2 * i + 1 then (s2.r (2 * i + 1) + 0 % 2 ^ 64 + s2.carry) % 2 ^ 128 % 2 ^ 64
        else s2.r j := fun j => rfl
    have c3 : s3.carry = (s2.r (2 * i + 1) + 0 % 2 ^ 64 + s2.carry) % 2 ^ 128 / 2 ^ 64 % 2 ^ 64 := rfl
    refine ⟨ok3, self1, ?_, ?_⟩
    · intro j hj
      rw [r3, if_neg (by omega), r2, if_neg (by omega)]
      exact fr1 j (by omega)
    · have hr21 : s2.r (2 * i + 1) = s0.r (2 * i + 1) := by
        rw [r2, if_neg (by omega)]; exact fr1 _ (by omega)
      rw [hr21] at ar2 r3 c3
      rw [show 2 * (i + 1) = 2 * i + 1 + 1 by ring, wsum_succ, wsum_succ, wsum_succ, wsum_succ, sqsum]
      have w0 : wsum s3.r (2 * i) = wsum s1.r (2 * i) := by
        apply wsum_congr; intro j hj
        rw [r3, if_neg (by omega), r2, if_neg (by omega)]
      have v0 : s3.r (2 * i) = (acc + s1.self i * s1.self i + s1.carry) % 2 ^ 128 % 2 ^ 64 := by
        rw [r3, if_neg (by omega), r2, if_pos rfl]
      have v1 : s3.r (2 * i + 1) = (s0.r (2 * i + 1) + 0 % 2 ^ 64 + s2.carry) % 2 ^ 128 % 2 ^ 64 := by
        rw [r3, if_pos rfl]
      rw [w0, v0, v1, c3, if_neg (by omega : ¬ (2 * i + 1 = 0)), ← hacc_val]
      rw [c2] at ar2 ⊢
      rw [self1] at ar1 ar2 ⊢
      rw [show 64 * (2 * i + 1 + 1) = 64 * (2 * i) + 64 + 64 by ring, pow_add, pow_add,
        show 64 * (2 * i + 1) = 64 * (2 * i) + 64 by ring, pow_add]
      linear_combination sum1 + 2 ^ (64 * (2 * i)) * ar1 + (2 ^ (64 * (2 * i)) * 2 ^ 64) * ar2

/-- `(r_0 … r_{2n-1}) := (0, r_1 … r_{2n-1}) + Σ self_i²·2^(128 i)`, final carry included -/
theorem sqDiag (P : Params) (n : Nat) (s : State) (hs : s.OK) :
    ∃ s', runBody P (genSqDiag n) s = s' ∧ s'.OK ∧ s'.self = s.self ∧
      wsum s'.r (2 * n) + s'.carry * 2 ^ (64 * (2 * n))
        = 2 ^ 64 * wsum (fun j => s.r (1 + j)) (2 * n - 1) + sqsum s.self n := by
  unfold genSqDiag
  rw [runBody_append, runBody_singleton]
  have ok0 : (step P (.mov .carry (.lit 0)) s).OK := step_ok P _ hs
  obtain ⟨s1, e1, ok1, self1, _, sum1⟩ := sqDiag_pairs P _ ok0 rfl n
  refine ⟨s1, e1, ok1, self1, ?_⟩
  rw [sum1]
  congr 1
  by_cases hn : n = 0
  · subst hn; rfl
  · rw [show 2 * n = (2 * n - 1) + 1 by omega, wsum_succ']
    simp only [if_true, Nat.zero_add, Nat.add_sub_cancel]
    congr 1
    apply wsum_congr; intro j _
    rw [if_neg (by omega)]; rfl

theorem genSqDouble_noCall (n : Nat) : ∀ i ∈ genSqDouble n, isCall i = false := by
  intro i hi
  simp only [genSqDouble, List.mem_append, List.mem_singleton, List.mem_map] at hi
  obtain (rfl | ⟨_, _, rfl⟩) | rfl := hi <;> rfl

theorem genSqDiag_noCall (n : Nat) : ∀ i ∈ genSqDiag n, isCall i = false := by
  intro i hi
  simp only [genSqDiag, List.mem_append, List.mem_flatMap, List.mem_cons,
    List.not_mem_nil, or_false] at hi
  obtain rfl | ⟨_, _, rfl | rfl⟩ := hi <;> rfl

/-! ## 5. `square` -/

/-- `square` up to the call: the arguments passed to `mont_reduce` are the limbs of `self²` -/
theorem genSquare_run (P : Params) (n : Nat) (hn : 2 ≤ n) (mr : List Instr) (s : State) (hs : s.OK) :
    ∃ s', s'.OK ∧ run P mr (genSquareProg n) s = runBody P mr s' ∧
      wsum s'.r (2 * n) = wsum s.self n * wsum s.self n := by
  obtain ⟨s1, e1, ok1, self1, sum1⟩ := sqRows P n s hs (n - 1) (by omega)
  obtain ⟨s2, e2, ok2, self2, sum2⟩ := sqDouble P n hn s1 ok1
  obtain ⟨s3, e3, ok3, self3, sum3⟩ := sqDiag P n s2 ok2
  refine ⟨bindArgs P (callArgs n) s3, bindArgs_ok P _ ok3, ?_, ?_⟩
  · unfold genSquareProg
    have hnc : ∀ i ∈ (List.range (n - 1)).flatMap (genSqRow n) ++ genSqDouble n ++ genSqDiag n,
        isCall i = false := by
      intro i hi
      simp only [List.mem_append] at hi
      obtain (hi | hi) | hi := hi
      · exact genSqRows_noCall n _ i hi
      · exact genSqDouble_noCall n i hi
      · exact genSqDiag_noCall n i hi
    rw [run_append, run_eq_runBody P mr _ hnc, runBody_append, runBody_append, e1, e2, e3, run_call]
  · have hw : wsum (bindArgs P (callArgs n) s3).r (2 * n) = wsum s3.r (2 * n) :=
      wsum_congr (fun j hj => bindArgs_callArgs_r P n s3 hj)
    rw [hw]
    have h1 := sum1 (by omega)
    rw [show n + (n - 1) - 1 = 2 * n - 2 by omega] at h1
    rw [sum2, self2, self1] at sum3
    have hsq := square_split n s.self (by omega)
    -- `T + carry·2^(128 n) = A²`, both `T` and `A²` below `2^(128 n)`, so the carry is `0`
    have hT : wsum s3.r (2 * n) < 2 ^ (64 * (2 * n)) := wsum_lt (fun j _ => ok3.r j)
    have hA : wsum s.self n < 2 ^ (64 * n) := wsum_lt (fun j _ => hs.self j)
    have hAA : wsum s.self n * wsum s.self n < 2 ^ (64 * (2 * n)) := by
      rw [show 64 * (2 * n) = 64 * n + 64 * n by ring, pow_add]
      exact Nat.mul_lt_mul'' hA hA
    have htot : wsum s3.r (2 * n) + s3.carry * 2 ^ (64 * (2 * n)) = wsum s.self n * wsum s.self n := by
      rw [sum3, ← hsq, ← h1]; ring
    have hc : s3.carry = 0 := by
      by_contra hne
      have : 1 ≤ s3.carry := Nat.one_le_iff_ne_zero.2 hne
      have : 2 ^ (64 * (2 * n)) ≤ s3.carry * 2 ^ (64 * (2 * n)) := Nat.le_mul_of_pos_left _ this
      omega
    rw [hc] at htot
    simpa using htot

theorem genSquare_correct {P : Params} (h : P.WF) (hn : 2 ≤ P.limbs) {a : List Nat} (ha : LimbsOK a)
    (la : a.length = P.limbs) :
    limbsToNat (runSquare P (genSquareProg P.limbs) (genMontReduceProg P.limbs) a)
      = Mont.square P (limbsToNat a) := by
  unfold runSquare
  obtain ⟨s1, ok1, e1, sum1⟩ := genSquare_run P P.limbs hn (genMontReduceProg P.limbs) (initState a [])
    (initState_ok ha (by simp))
  rw [e1, genMontReduce_run h s1 ok1, sum1]
  show Mont.montReduce P (wsum (limbFn a) P.limbs * wsum (limbFn a) P.limbs) = _
  rw [← la, wsum_limbFn]
  rfl

end PP.MontLimb
