/-
C03, denominator elimination: the Miller function WITH the vertical lines
(`Ate.textbookMillerFull`) differs from the one without (`Ate.textbookMiller`) by a non-zero factor of
the subfield `Fq6`, for `P = (x_P, y_P)` with `x_P ≠ 0`; hence `reducedAteFull = reducedAte`.

* `vertical_eq`: `v_{ψ(T)}(P) = ofFq6 ⟨x_P, 0, -x_T/ξ⟩`; non-zero as soon as `x_P ≠ 0`.
* `full_agree`: invariant of the two textbook loops.
* `g1_x_ne_zero`: a finite point of `E(Fq)` killed by `r` has `x ≠ 0` (the points `(0, ±2)` have
  order 3).
-/
import PP.Proofs.Lines3
import PP.Proofs.Subgroup

namespace PP
namespace Lines

open Ate Miller WeierstrassCurve.Affine

/-! ## the verticals -/

theorem v_ne_zero : Fq6.v ≠ 0 := fun h => by
  have : (1 : Fq2) = 0 := congrArg Fq6.c1 h
  exact one_ne_zero this

theorem ofFq2_div_v (t : Fq2) : Fq6.ofFq2 t / Fq6.v = ⟨0, 0, t / Fq2.xi⟩ := by
  rw [div_eq_iff v_ne_zero]
  have : (⟨0, 0, t / Fq2.xi⟩ : Fq6) = Fq6.ofFq2 (t / Fq2.xi) * (Fq6.v * Fq6.v) := by
    rw [Fq6.v_mul_v, Fq6.ofFq2_mul]; simp
  rw [this, mul_assoc, Fq6.v_cube, ← map_mul, div_mul_cancel₀ _ Fq2.xi_ne_zero]

/-- the value at `P` of the vertical through `ψ(T)` is `x_P - (x_T/ξ) v² ∈ Fq6` -/
theorem vertical_eq (T : Fq2 × Fq2) (P : Fq × Fq) :
    verticalAt (untwist T) (embed P) = Fq12.ofFq6 ⟨Fq2.ofFq P.1, 0, -(T.1 / Fq2.xi)⟩ := by
  have h : verticalAt (untwist T) (embed P) =
      Fq12.ofFq6 (Fq6.ofFq2 (Fq2.ofFq P.1) - Fq6.ofFq2 T.1 / Fq6.v) := by
    simp only [verticalAt, embed, untwist, κ, ι, RingHom.comp_apply, map_sub, map_div₀,
      Fq12.w_pow_two]
  have e : Fq6.ofFq2 (Fq2.ofFq P.1) - (⟨0, 0, T.1 / Fq2.xi⟩ : Fq6) =
      ⟨Fq2.ofFq P.1, 0, -(T.1 / Fq2.xi)⟩ := by
    ext1 <;> simp
  rw [h, ofFq2_div_v, e]

theorem vertical_ne_zero (T : Fq2 × Fq2) (P : Fq × Fq) (hx : P.1 ≠ 0) :
    (⟨Fq2.ofFq P.1, 0, -(T.1 / Fq2.xi)⟩ : Fq6) ≠ 0 := fun h => by
  have h0 : Fq2.ofFq P.1 = 0 := congrArg Fq6.c0 h
  exact hx (Fq2.ofFq_injective (by rw [h0, map_zero]))

/-! ## the two textbook loops -/

/-- a non-zero element of `Fq6 ⊂ Fq12` -/
def InFq6 (d : Fq12) : Prop := ∃ a : Fq6, a ≠ 0 ∧ d = Fq12.ofFq6 a

theorem InFq6.one : InFq6 1 := ⟨1, one_ne_zero, (map_one _).symm⟩

theorem InFq6.mul {c d : Fq12} (hc : InFq6 c) (hd : InFq6 d) : InFq6 (c * d) := by
  obtain ⟨a, ha, rfl⟩ := hc
  obtain ⟨b, hb, rfl⟩ := hd
  exact ⟨a * b, mul_ne_zero ha hb, (map_mul _ _ _).symm⟩

theorem InFq6.sq {c : Fq12} (hc : InFq6 c) : InFq6 (c ^ 2) := by rw [pow_two]; exact hc.mul hc

theorem InFq6.ne_zero {c : Fq12} (hc : InFq6 c) : c ≠ 0 := by
  obtain ⟨a, ha, rfl⟩ := hc
  exact fun h => ha (Fq12.ofFq6_injective (by rw [h, map_zero]))

theorem InFq6.vertical (T : Fq2 × Fq2) (P : Fq × Fq) (hx : P.1 ≠ 0) :
    InFq6 (verticalAt (untwist T) (embed P)) :=
  ⟨_, vertical_ne_zero T P hx, vertical_eq T P⟩

theorem InFq6.fe {c : Fq12} (hc : InFq6 c) : finalExponentiation c = some 1 := by
  obtain ⟨a, ha, rfl⟩ := hc
  exact FinalExp.fe_ofFq6 ha

theorem InFq6.conjugate {c : Fq12} (hc : InFq6 c) : Fq12.conjugate c = c := by
  obtain ⟨a, ha, rfl⟩ := hc
  exact Fq12.conjugate_ofFq6 a

/-- **invariant**: the loop without verticals is the loop with verticals times a non-zero element of
    `Fq6`; the accumulators `T` coincide -/
theorem full_agree (P : Fq × Fq) (Q : Fq2 × Fq2) (hx : P.1 ≠ 0) (bs : List Bool) (F F' d : Fq12)
    (T : Fq2 × Fq2) (hd : InFq6 d) (hF : F = F' * d) :
    (bs.foldl (millerStep P Q) (F, T)).2 = (bs.foldl (millerStepFull P Q) (F', T)).2 ∧
      ∃ d', InFq6 d' ∧
        (bs.foldl (millerStep P Q) (F, T)).1 = (bs.foldl (millerStepFull P Q) (F', T)).1 * d' := by
  induction bs generalizing F F' d T with
  | nil =>
    simp only [List.foldl_nil, true_and]
    exact ⟨d, hd, hF⟩
  | cons b bs ih =>
    have hv1 := InFq6.vertical (affDouble T) P hx
    cases b with
    | false =>
      simp only [List.foldl_cons, millerStep, millerStepFull, Bool.false_eq_true, if_false]
      refine ih _ _ (d ^ 2 * verticalAt (untwist (affDouble T)) (embed P)) _
        (hd.sq.mul hv1) ?_
      have := hv1.ne_zero
      rw [hF]; field_simp
    | true =>
      have hv2 := InFq6.vertical (affAdd (affDouble T) Q) P hx
      simp only [List.foldl_cons, millerStep, millerStepFull, if_true]
      refine ih _ _ (d ^ 2 * verticalAt (untwist (affDouble T)) (embed P) *
        verticalAt (untwist (affAdd (affDouble T) Q)) (embed P)) _
        ((hd.sq.mul hv1).mul hv2) ?_
      have := hv1.ne_zero
      have := hv2.ne_zero
      rw [hF]; field_simp

/-- **denominator elimination**: `textbookMiller = textbookMillerFull · d`, `d ∈ Fq6ˣ` -/
theorem textbookMiller_eq_full (P : Fq × Fq) (Q : Fq2 × Fq2) (hx : P.1 ≠ 0) :
    ∃ d, InFq6 d ∧ textbookMiller P Q = textbookMillerFull P Q * d :=
  (full_agree P Q hx (bitsBelowTop Gen.BLS_X) 1 1 1 Q InFq6.one (by simp)).2

/-- the two reduced pairings coincide -/
theorem reducedAteFull_eq (P : Fq × Fq) (Q : Fq2 × Fq2) (hx : P.1 ≠ 0) :
    reducedAteFull P Q = reducedAte P Q := by
  obtain ⟨d, hd, h⟩ := textbookMiller_eq_full P Q hx
  have hd1 : d ^ finalExponent = 1 :=
    Option.some.inj ((FinalExp.fe_spec hd.ne_zero).symm.trans hd.fe)
  unfold reducedAte reducedAteFull
  rw [h, Fq12.conjugate_mul, hd.conjugate, mul_pow, hd1, mul_one]

/-! ## points of `E(Fq)` with `x = 0` have order 3 -/

/-- a finite point of `E(Fq)` killed by `r` has `x ≠ 0` -/
theorem g1_x_ne_zero {p : Aff Fq} (hp : Aff.OnCurve g1Codec.b p) (hpi : p.infinity = false)
    (hr : Gen.r • Aff.abs g1Codec.b p = 0) : p.x ≠ 0 := by
  intro hx
  have hy : p.y ≠ 0 := g1_y_ne_zero hp hpi
  have h2 : (2 : Fq) ≠ 0 := fq_two_ne_zero
  set S := Aff.abs g1Codec.b p with hS
  have hS' := Aff.abs_of_not_infinity hp hpi
  rw [← hS] at hS'
  have hne : p.y ≠ (W g1Codec.b).negY p.x p.y := by
    rw [W_negY]; intro e
    exact (mul_ne_zero h2 hy) (by linear_combination e)
  -- `2S = -S`
  have hdbl : S + S = -S := by
    rw [hS', Point.add_self_of_Y_ne hne, Point.neg_some, Point.some_eq_some]
    constructor
    · rw [W_addX, W_slope_self g1Codec.b p.x hy, hx]; simp
    · rw [W_addY, W_slope_self g1Codec.b p.x hy, hx, W_negY]; simp
  have h3 : 3 • S = 0 := by
    rw [show (3 : ℕ) = 2 + 1 from rfl, add_smul, two_smul, one_smul, hdbl, neg_add_cancel]
  have hdvd3 : addOrderOf S ∣ 3 := addOrderOf_dvd_of_nsmul_eq_zero h3
  have hdvdr : addOrderOf S ∣ Gen.r := addOrderOf_dvd_of_nsmul_eq_zero hr
  have hcop : Nat.Coprime 3 Gen.r := by decide +kernel
  have h1 : addOrderOf S = 1 := Nat.eq_one_of_dvd_coprimes hcop hdvd3 hdvdr
  have h0 : S = 0 := AddMonoid.addOrderOf_eq_one_iff.mp h1
  rw [hS, Aff.abs_eq_zero_iff hp, hpi] at h0
  cases h0

end Lines
end PP
