/-
C09, Frobenius: on `Fq2`, `Fq6`, `Fq12` the model's table-driven `frobeniusMap x k` is `x ↦ x^(q^k)`
for every `k`.

Proof scheme (per layer `L` with generator `g`, `g^d = c` in the layer below):
* `frobeniusMap x 0 = x`                                   (table entry 0 is `1`);
* `frobeniusMap x 1 = x^q`: `x ↦ x^q` is additive and multiplicative in characteristic `q`, is the
  layer-below Frobenius on coefficients, and `g^q = c^((q-1)/d) · g`; the table entry 1 is checked
  to be `c^((q-1)/d)` by a kernel computation (`fastPow`, 381-bit exponent);
* `frobeniusMap (frobeniusMap x k) 1 = frobeniusMap x (k+1)`: table recurrence
  `conj(T[j]) · T[1] = T[(j+1) mod n]` for all `j < n` (kernel computation), which also accounts
  for the `power % n` indexing (periodicity);
* induction on `k`.
-/
import Mathlib.Algebra.CharP.Lemmas
import Mathlib.Algebra.CharP.Algebra
import PP.Proofs.TowerField

set_option linter.unusedSectionVars false

namespace PP

/-- the induction that turns "step 0, step 1, composition" into `fr x k = x^(q^k)` -/
theorem frob_induction {F : Type} [Monoid F] (q : ℕ) (fr : F → ℕ → F)
    (h0 : ∀ x, fr x 0 = x) (h1 : ∀ x, fr x 1 = x ^ q)
    (hs : ∀ x k, fr (fr x k) 1 = fr x (k + 1)) : ∀ (k : ℕ) (x : F), fr x k = x ^ q ^ k
  | 0, x => by rw [h0, pow_zero, pow_one]
  | k + 1, x => by rw [← hs, h1, frob_induction q fr h0 h1 hs k x, ← pow_mul, pow_succ]

theorem q_sub_one_lt : Gen.q - 1 < 2 ^ 4096 := by decide +kernel
theorem q_eq_two_mul : Gen.q = 2 * ((Gen.q - 1) / 2) + 1 := by decide +kernel
theorem q_eq_three_mul : Gen.q = 3 * ((Gen.q - 1) / 3) + 1 := by decide +kernel
theorem q_half_eq : (Gen.q - 1) / 2 = 3 * ((Gen.q - 1) / 6) := by decide +kernel
theorem q_half_odd : (Gen.q - 1) / 2 % 2 = 1 := by decide +kernel

section Prime
variable [hq : Fact (Nat.Prime Gen.q)]

/-! ### characteristic -/

instance Fq.charP : CharP Fq Gen.q :=
  RingHom.charP (Zp.toZRingHom (p := Gen.q)) Zp.toZ_injective Gen.q
instance Fq2.charP : CharP Fq2 Gen.q := charP_of_injective_ringHom Fq2.ofFq_injective Gen.q
instance Fq6.charP : CharP Fq6 Gen.q := charP_of_injective_ringHom Fq6.ofFq2_injective Gen.q
instance Fq12.charP : CharP Fq12 Gen.q := charP_of_injective_ringHom Fq12.ofFq6_injective Gen.q

/-- Fermat in `Fq` -/
theorem Fq.pow_q (c : Fq) : c ^ Gen.q = c := by
  have := FiniteField.pow_card c
  rwa [Zp.card] at this

/-- the (trivial) Frobenius of the prime field model: `FieldOps.frob c k = c = c^(q^k)` -/
theorem Fq.frobenius_spec (k : ℕ) (c : Fq) : FieldOps.frob c k = c ^ Gen.q ^ k := by
  have := FiniteField.pow_card_pow k c
  rw [Zp.card] at this
  exact this.symm

end Prime

/-! ## `Fq2` -/

namespace Fq2

theorem frobCoeff_zero : frobCoeffC1.getD 0 0 = 1 := by decide +kernel
theorem frobCoeff_one : frobCoeffC1.getD 1 0 = -1 := by decide +kernel
theorem frobCoeff_step : ∀ j, j < 2 →
    frobCoeffC1.getD j 0 * frobCoeffC1.getD 1 0 = frobCoeffC1.getD ((j + 1) % 2) 0 := by
  intro j hj
  have h : j = 0 ∨ j = 1 := by omega
  rcases h with rfl | rfl
  · rw [frobCoeff_zero, one_mul]
  · rw [frobCoeff_one, show (1 + 1) % 2 = 0 from rfl, frobCoeff_zero]; ring

theorem frobeniusMap_c0 (a : Fq2) (k : ℕ) : (frobeniusMap a k).c0 = a.c0 := rfl
theorem frobeniusMap_c1 (a : Fq2) (k : ℕ) :
    (frobeniusMap a k).c1 = a.c1 * frobCoeffC1.getD (k % 2) 0 := rfl

theorem frobeniusMap_zero (a : Fq2) : frobeniusMap a 0 = a := by
  ext
  · exact frobeniusMap_c0 a 0
  · rw [frobeniusMap_c1, Nat.zero_mod, frobCoeff_zero, mul_one]

/-- one application is conjugation -/
theorem frobeniusMap_one (a : Fq2) : frobeniusMap a 1 = conj a := by
  ext
  · exact frobeniusMap_c0 a 1
  · rw [frobeniusMap_c1, show 1 % 2 = 1 from rfl, frobCoeff_one, conj_c1]; ring

theorem frobeniusMap_step (a : Fq2) (k : ℕ) :
    frobeniusMap (frobeniusMap a k) 1 = frobeniusMap a (k + 1) := by
  ext
  · exact frobeniusMap_c0 _ 1
  · rw [frobeniusMap_c1, frobeniusMap_c1, frobeniusMap_c1, show 1 % 2 = 1 from rfl, mul_assoc,
      frobCoeff_step (k % 2) (Nat.mod_lt _ (by norm_num)), Nat.mod_add_mod]

theorem frobeniusMap_even (a : Fq2) (k : ℕ) (h : k % 2 = 0) : frobeniusMap a k = a := by
  ext
  · exact frobeniusMap_c0 a k
  · rw [frobeniusMap_c1, h, frobCoeff_zero, mul_one]

section Prime
variable [hq : Fact (Nat.Prime Gen.q)]

theorem u_pow_q : u ^ Gen.q = -u := by
  have hodd : Odd ((Gen.q - 1) / 2) := Nat.odd_iff.mpr q_half_odd
  rw [q_eq_two_mul, pow_succ, pow_mul, pow_two, u_mul_u, hodd.neg_one_pow]
  ring

/-- conjugation is `x ↦ x^q` -/
theorem conj_eq_pow_q (a : Fq2) : conj a = a ^ Gen.q := by
  conv_rhs => rw [eq_add_mul_u a]
  rw [add_pow_char, mul_pow, ← map_pow, ← map_pow, Fq.pow_q, Fq.pow_q, u_pow_q]
  ext <;> simp [mul_c0, mul_c1, u]

theorem frobeniusMap_one_eq_pow (a : Fq2) : frobeniusMap a 1 = a ^ Gen.q := by
  rw [frobeniusMap_one, conj_eq_pow_q]

/-- **Frobenius on `Fq2`**: `frobenius_map(k)` is `x ↦ x^(q^k)`, for every `k` -/
theorem frobenius_spec (k : ℕ) (x : Fq2) : frobeniusMap x k = x ^ Gen.q ^ k :=
  frob_induction Gen.q frobeniusMap frobeniusMap_zero frobeniusMap_one_eq_pow frobeniusMap_step k x

end Prime
end Fq2

/-! ## `Fq6` -/

namespace Fq6
open Fq2 (xi conj)

theorem frobCoeffC1_zero : frobCoeffC1.getD 0 0 = 1 := by decide +kernel
theorem frobCoeffC2_zero : frobCoeffC2.getD 0 0 = 1 := by decide +kernel

/-- table entry 1 is `ξ^((q-1)/3)` -/
theorem frobCoeffC1_one_fast : fastPow xi ((Gen.q - 1) / 3) = frobCoeffC1.getD 1 0 := by
  decide +kernel
theorem frobCoeffC1_one : xi ^ ((Gen.q - 1) / 3) = frobCoeffC1.getD 1 0 := by
  rw [← fastPow_eq _ _ (lt_of_le_of_lt (Nat.div_le_self _ _) q_sub_one_lt)]
  exact frobCoeffC1_one_fast
/-- table entry 1 of the second table is `ξ^(2(q-1)/3)` -/
theorem frobCoeffC2_one :
    frobCoeffC1.getD 1 0 * frobCoeffC1.getD 1 0 = frobCoeffC2.getD 1 0 := by decide +kernel

theorem frobCoeffC1_step : ∀ j, j < 6 →
    conj (frobCoeffC1.getD j 0) * frobCoeffC1.getD 1 0 = frobCoeffC1.getD ((j + 1) % 6) 0 := by
  decide +kernel
theorem frobCoeffC2_step : ∀ j, j < 6 →
    conj (frobCoeffC2.getD j 0) * frobCoeffC2.getD 1 0 = frobCoeffC2.getD ((j + 1) % 6) 0 := by
  decide +kernel

theorem frobeniusMap_c0 (a : Fq6) (k : ℕ) : (frobeniusMap a k).c0 = a.c0.frobeniusMap k := rfl
theorem frobeniusMap_c1 (a : Fq6) (k : ℕ) :
    (frobeniusMap a k).c1 = a.c1.frobeniusMap k * frobCoeffC1.getD (k % 6) 0 := rfl
theorem frobeniusMap_c2 (a : Fq6) (k : ℕ) :
    (frobeniusMap a k).c2 = a.c2.frobeniusMap k * frobCoeffC2.getD (k % 6) 0 := rfl

theorem frobeniusMap_zero (a : Fq6) : frobeniusMap a 0 = a := by
  ext1
  · rw [frobeniusMap_c0, Fq2.frobeniusMap_zero]
  · rw [frobeniusMap_c1, Fq2.frobeniusMap_zero, Nat.zero_mod, frobCoeffC1_zero, mul_one]
  · rw [frobeniusMap_c2, Fq2.frobeniusMap_zero, Nat.zero_mod, frobCoeffC2_zero, mul_one]

theorem frobeniusMap_step (a : Fq6) (k : ℕ) :
    frobeniusMap (frobeniusMap a k) 1 = frobeniusMap a (k + 1) := by
  have h6 : k % 6 < 6 := Nat.mod_lt _ (by norm_num)
  ext1
  · rw [frobeniusMap_c0, frobeniusMap_c0, frobeniusMap_c0, Fq2.frobeniusMap_step]
  · rw [frobeniusMap_c1, frobeniusMap_c1, frobeniusMap_c1, Fq2.frobeniusMap_one, Fq2.conj_mul,
      ← Fq2.frobeniusMap_one, Fq2.frobeniusMap_step, show 1 % 6 = 1 from rfl, mul_assoc,
      frobCoeffC1_step _ h6, Nat.mod_add_mod]
  · rw [frobeniusMap_c2, frobeniusMap_c2, frobeniusMap_c2, Fq2.frobeniusMap_one, Fq2.conj_mul,
      ← Fq2.frobeniusMap_one, Fq2.frobeniusMap_step, show 1 % 6 = 1 from rfl, mul_assoc,
      frobCoeffC2_step _ h6, Nat.mod_add_mod]

theorem frobeniusMap_six (a : Fq6) : frobeniusMap a 6 = a := by
  ext1
  · rw [frobeniusMap_c0, Fq2.frobeniusMap_even _ 6 rfl]
  · rw [frobeniusMap_c1, Fq2.frobeniusMap_even _ 6 rfl, show 6 % 6 = 0 from rfl, frobCoeffC1_zero,
      mul_one]
  · rw [frobeniusMap_c2, Fq2.frobeniusMap_even _ 6 rfl, show 6 % 6 = 0 from rfl, frobCoeffC2_zero,
      mul_one]

theorem basis_form (a b c k : Fq2) :
    ofFq2 a + ofFq2 b * (ofFq2 k * v) + ofFq2 c * ((ofFq2 k * v) * (ofFq2 k * v))
      = ⟨a, b * k, c * (k * k)⟩ := by
  ext1 <;> simp [mul_c0, mul_c1, mul_c2, v]

section Prime
variable [hq : Fact (Nat.Prime Gen.q)]

theorem v_pow_q : v ^ Gen.q = ofFq2 (frobCoeffC1.getD 1 0) * v := by
  rw [q_eq_three_mul, pow_succ, pow_mul, v_pow_three, ← map_pow, frobCoeffC1_one]

theorem frobeniusMap_one_eq_pow (a : Fq6) : frobeniusMap a 1 = a ^ Gen.q := by
  conv_rhs => rw [eq_add_mul_v a]
  rw [add_pow_char, add_pow_char, mul_pow, mul_pow, mul_pow, ← map_pow, ← map_pow, ← map_pow,
    v_pow_q, ← Fq2.conj_eq_pow_q, ← Fq2.conj_eq_pow_q, ← Fq2.conj_eq_pow_q, basis_form]
  ext1
  · rw [frobeniusMap_c0, Fq2.frobeniusMap_one]
  · rw [frobeniusMap_c1, Fq2.frobeniusMap_one]
  · rw [frobeniusMap_c2, Fq2.frobeniusMap_one, show 1 % 6 = 1 from rfl, ← frobCoeffC2_one]

/-- **Frobenius on `Fq6`**: `frobenius_map(k)` is `x ↦ x^(q^k)`, for every `k` -/
theorem frobenius_spec (k : ℕ) (x : Fq6) : frobeniusMap x k = x ^ Gen.q ^ k :=
  frob_induction Gen.q frobeniusMap frobeniusMap_zero frobeniusMap_one_eq_pow frobeniusMap_step k x

theorem frobeniusMap_one_mul (a b : Fq6) :
    frobeniusMap (a * b) 1 = frobeniusMap a 1 * frobeniusMap b 1 := by
  simp only [frobeniusMap_one_eq_pow, mul_pow]

end Prime

theorem frobeniusMap_one_ofFq2 (c : Fq2) : frobeniusMap (ofFq2 c) 1 = ofFq2 (conj c) := by
  ext1
  · rw [frobeniusMap_c0, Fq2.frobeniusMap_one]; rfl
  · rw [frobeniusMap_c1, Fq2.frobeniusMap_one]
    show conj 0 * _ = 0
    rw [Fq2.conj_zero, zero_mul]
  · rw [frobeniusMap_c2, Fq2.frobeniusMap_one]
    show conj 0 * _ = 0
    rw [Fq2.conj_zero, zero_mul]

end Fq6

/-! ## `Fq12` -/

namespace Fq12
open Fq2 (xi conj)
open Fq6 (v ofFq2)

theorem frobCoeff_zero : frobCoeffC1.getD 0 0 = 1 := by decide +kernel

/-- table entry 1 is `ξ^((q-1)/6)` -/
theorem frobCoeff_one_fast : fastPow xi ((Gen.q - 1) / 6) = frobCoeffC1.getD 1 0 := by
  decide +kernel
theorem frobCoeff_one : xi ^ ((Gen.q - 1) / 6) = frobCoeffC1.getD 1 0 := by
  rw [← fastPow_eq _ _ (lt_of_le_of_lt (Nat.div_le_self _ _) q_sub_one_lt)]
  exact frobCoeff_one_fast

theorem frobCoeff_step : ∀ j, j < 12 →
    conj (frobCoeffC1.getD j 0) * frobCoeffC1.getD 1 0 = frobCoeffC1.getD ((j + 1) % 12) 0 := by
  decide +kernel

theorem frobeniusMap_c0 (a : Fq12) (k : ℕ) : (frobeniusMap a k).c0 = a.c0.frobeniusMap k := rfl
/-- the coefficient-wise scaling in the model is multiplication by the `Fq2` scalar -/
theorem frobeniusMap_c1 (a : Fq12) (k : ℕ) :
    (frobeniusMap a k).c1 = a.c1.frobeniusMap k * ofFq2 (frobCoeffC1.getD (k % 12) 0) := by
  rw [Fq6.mul_ofFq2]; rfl

theorem frobeniusMap_zero (a : Fq12) : frobeniusMap a 0 = a := by
  ext1
  · rw [frobeniusMap_c0, Fq6.frobeniusMap_zero]
  · rw [frobeniusMap_c1, Fq6.frobeniusMap_zero, Nat.zero_mod, frobCoeff_zero, map_one, mul_one]

theorem frobCoeff_six : frobCoeffC1.getD 6 0 = -1 := by decide +kernel

/-- `conjugate` is `frobenius_map(6)` -/
theorem frobeniusMap_six (a : Fq12) : frobeniusMap a 6 = conjugate a := by
  ext1
  · rw [frobeniusMap_c0, Fq6.frobeniusMap_six, conjugate_c0]
  · rw [frobeniusMap_c1, Fq6.frobeniusMap_six, show 6 % 12 = 6 from rfl, frobCoeff_six, map_neg,
      map_one, mul_neg, mul_one, conjugate_c1]

section Prime
variable [hq : Fact (Nat.Prime Gen.q)]

theorem frobeniusMap_step (a : Fq12) (k : ℕ) :
    frobeniusMap (frobeniusMap a k) 1 = frobeniusMap a (k + 1) := by
  have h12 : k % 12 < 12 := Nat.mod_lt _ (by norm_num)
  ext1
  · rw [frobeniusMap_c0, frobeniusMap_c0, frobeniusMap_c0, Fq6.frobeniusMap_step]
  · rw [frobeniusMap_c1, frobeniusMap_c1, frobeniusMap_c1, Fq6.frobeniusMap_one_mul,
      Fq6.frobeniusMap_step, Fq6.frobeniusMap_one_ofFq2, show 1 % 12 = 1 from rfl, mul_assoc,
      ← map_mul, frobCoeff_step _ h12, Nat.mod_add_mod]

theorem w_pow_q : w ^ Gen.q = ofFq6 (ofFq2 (frobCoeffC1.getD 1 0)) * w := by
  rw [q_eq_two_mul, pow_succ, pow_mul, w_pow_two, ← map_pow, q_half_eq, pow_mul,
    Fq6.v_pow_three, ← map_pow, frobCoeff_one]

theorem frobeniusMap_one_eq_pow (a : Fq12) : frobeniusMap a 1 = a ^ Gen.q := by
  conv_rhs => rw [eq_add_mul_w a]
  rw [add_pow_char, mul_pow, ← map_pow, ← map_pow, w_pow_q, ← Fq6.frobeniusMap_one_eq_pow,
    ← Fq6.frobeniusMap_one_eq_pow]
  ext1
  · rw [frobeniusMap_c0]; simp [mul_c0, mul_c1, w]
  · rw [frobeniusMap_c1]; simp [mul_c0, mul_c1, w]

/-- **Frobenius on `Fq12`**: `frobenius_map(k)` is `x ↦ x^(q^k)`, for every `k` -/
theorem frobenius_spec (k : ℕ) (x : Fq12) : frobeniusMap x k = x ^ Gen.q ^ k :=
  frob_induction Gen.q frobeniusMap frobeniusMap_zero frobeniusMap_one_eq_pow frobeniusMap_step k x

/-- the `Fq12` conjugation used by the pairing is `x ↦ x^(q^6)` -/
theorem conjugate_eq_pow (a : Fq12) : conjugate a = a ^ Gen.q ^ 6 := by
  rw [← frobeniusMap_six, frobenius_spec]

end Prime
end Fq12

end PP
