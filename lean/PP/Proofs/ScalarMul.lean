/-
Correctness of the scalar multiplications of `PP.Model.Curve` / `PP.Model.Mul` relative to a
`GroupModel`: plain double-and-add (`Aff.mulBits`, `Aff.mul`, `Jac.mulAssign`) and the two
table-driven interleaved multiplications (`precomp3`/`mulPrecomp3`, `precomp256`/`mulPrecomp256`),
plus the table-driven multi-scalar multiplication `sumOfProductsPrecomp256`.
-/
import Mathlib.Tactic.Module
import Mathlib.Tactic.IntervalCases
import PP.Proofs.Interfaces
import PP.Proofs.Bits

namespace PP

variable {F : Type} [Field F] [DecidableEq F] [FieldOps F] {G : Type} [AddCommGroup G]
  (M : GroupModel F G)

/-! ## "is `c` times the base" -/

/-- `P` is a valid projective point representing `c • g` -/
def IsMulJ (g : G) (P : Jac F) (c : ℕ) : Prop := M.ValidJ P ∧ M.absJ P = c • g

/-- `A` is a valid affine point representing `c • g` -/
def IsMulA (g : G) (A : Aff F) (c : ℕ) : Prop := M.ValidA A ∧ M.absA A = c • g

namespace IsMulJ
variable {M} {g : G}

theorem zero : IsMulJ M g Jac.zero 0 := ⟨M.zero_valid, by rw [M.zero_abs, zero_nsmul]⟩

theorem cast {P : Jac F} {c c' : ℕ} (h : IsMulJ M g P c) (e : c = c') : IsMulJ M g P c' := e ▸ h

theorem double {P : Jac F} {c : ℕ} (h : IsMulJ M g P c) : IsMulJ M g P.double (2 * c) :=
  ⟨M.double_valid P h.1, by rw [M.double_abs P h.1, h.2]; module⟩

theorem add {P Q : Jac F} {c d : ℕ} (h : IsMulJ M g P c) (h' : IsMulJ M g Q d) :
    IsMulJ M g (P.add Q) (c + d) :=
  ⟨M.add_valid P Q h.1 h'.1, by rw [M.add_abs P Q h.1 h'.1, h.2, h'.2]; module⟩

theorem addMixed {P : Jac F} {A : Aff F} {c d : ℕ} (h : IsMulJ M g P c) (h' : IsMulA M g A d) :
    IsMulJ M g (P.addMixed A) (c + d) :=
  ⟨M.addMixed_valid P A h.1 h'.1, by rw [M.addMixed_abs P A h.1 h'.1, h.2, h'.2]; module⟩

theorem doubleN {P : Jac F} {c : ℕ} (h : IsMulJ M g P c) (n : ℕ) :
    IsMulJ M g (P.doubleN n) (2 ^ n * c) := by
  induction n generalizing P c with
  | zero => simpa [Jac.doubleN] using h
  | succ n ih =>
    rw [Jac.doubleN]
    exact (ih h.double).cast (by ring)

theorem toAffine {P : Jac F} {c : ℕ} (h : IsMulJ M g P c) :
    ∃ A, P.toAffine = some A ∧ IsMulA M g A c := by
  obtain ⟨A, hA, hv, ha⟩ := M.toAffine_ok P h.1
  exact ⟨A, hA, hv, by rw [ha, h.2]⟩

end IsMulJ

namespace IsMulA
variable {M} {g : G}

theorem zero : IsMulA M g Aff.zero 0 := ⟨M.affZero_valid, by rw [M.affZero_abs, zero_nsmul]⟩

theorem cast {A : Aff F} {c c' : ℕ} (h : IsMulA M g A c) (e : c = c') : IsMulA M g A c' := e ▸ h

theorem self {A : Aff F} (h : M.ValidA A) : IsMulA M (M.absA A) A 1 := ⟨h, (one_nsmul _).symm⟩

theorem toJac {A : Aff F} {c : ℕ} (h : IsMulA M g A c) : IsMulJ M g A.toJac c :=
  ⟨M.toJac_valid A h.1, by rw [M.toJac_abs A h.1, h.2]⟩

end IsMulA

theorem IsMulJ.self {P : Jac F} (h : M.ValidJ P) : IsMulJ M (M.absJ P) P 1 :=
  ⟨h, (one_nsmul _).symm⟩

/-- `doubleN` is `n` doublings -/
theorem doubleN_spec (P : Jac F) (hP : M.ValidJ P) (n : ℕ) :
    M.ValidJ (P.doubleN n) ∧ M.absJ (P.doubleN n) = 2 ^ n • M.absJ P := by
  have := (IsMulJ.self M hP).doubleN n
  exact ⟨this.1, by rw [this.2, mul_one]⟩

/-! ## double-and-add -/

theorem mulBits_aux (A : Aff F) (hA : M.ValidA A) (bits : List Bool) (acc : Jac F) (m : ℕ)
    (h : IsMulJ M (M.absA A) acc m) :
    IsMulJ M (M.absA A)
      (bits.foldl (fun res i => let res := res.double; if i then res.addMixed A else res) acc)
      (ofBitsMSBAux m bits) := by
  induction bits generalizing acc m with
  | nil => exact h
  | cons b bs ih =>
    rw [List.foldl_cons, ofBitsMSBAux_cons]
    apply ih
    cases b with
    | false => simpa using h.double
    | true => simpa using h.double.addMixed (IsMulA.self hA)

/-- `mul_bits` over any MSB-first bit sequence computes `[value of the bits] A` -/
theorem mulBits_correct (A : Aff F) (hA : M.ValidA A) (bits : List Bool) :
    M.ValidJ (A.mulBits bits) ∧ M.absJ (A.mulBits bits) = ofBitsMSB bits • M.absA A :=
  mulBits_aux M A hA bits Jac.zero 0 IsMulJ.zero

/-- affine `mul` by a 4-limb scalar: `[k mod 2^256] A` -/
theorem Aff.mul_correct (A : Aff F) (hA : M.ValidA A) (k : ℕ) :
    M.ValidJ (A.mul k) ∧ M.absJ (A.mul k) = (k % 2 ^ 256) • M.absA A := by
  have := mulBits_correct M A hA (bitsMSB (limbsOf 4 k))
  rwa [ofBitsMSB_bitsMSB_limbsOf4] at this

theorem Aff.mul_correct_lt (A : Aff F) (hA : M.ValidA A) (k : ℕ) (hk : k < 2 ^ 256) :
    M.ValidJ (A.mul k) ∧ M.absJ (A.mul k) = k • M.absA A := by
  have := Aff.mul_correct M A hA k
  rwa [Nat.mod_eq_of_lt hk] at this

theorem mulLoop_aux (P : Jac F) (hP : M.ValidJ P) (bits : List Bool) (res : Jac F) (found : Bool)
    (m : ℕ) (h : IsMulJ M (M.absJ P) res m) (hf : found = false → m = 0) :
    IsMulJ M (M.absJ P) (Jac.mulLoop P bits (res, found)).1 (ofBitsMSBAux m bits) := by
  induction bits generalizing res found m with
  | nil => exact h
  | cons b bs ih =>
    rw [Jac.mulLoop, ofBitsMSBAux_cons]
    cases found with
    | true =>
      cases b with
      | false => exact ih _ _ _ (by simpa using h.double) (by simp)
      | true => exact ih _ _ _ (by simpa using h.double.add (IsMulJ.self M hP)) (by simp)
    | false =>
      have hm : m = 0 := hf rfl
      subst hm
      cases b with
      | false => exact ih _ _ _ (by simpa using h) (by simp)
      | true => exact ih _ _ _ (by simpa using h.add (IsMulJ.self M hP)) (by simp)

/-- projective `mul_assign` by a 4-limb scalar: `[k mod 2^256] P` -/
theorem Jac.mulAssign_correct (P : Jac F) (hP : M.ValidJ P) (k : ℕ) :
    M.ValidJ (P.mulAssign k) ∧ M.absJ (P.mulAssign k) = (k % 2 ^ 256) • M.absJ P := by
  have := mulLoop_aux M P hP (bitsMSB (limbsOf 4 k)) Jac.zero false 0 IsMulJ.zero (fun _ => rfl)
  rw [show ofBitsMSBAux 0 _ = ofBitsMSB (bitsMSB (limbsOf 4 k)) from rfl,
    ofBitsMSB_bitsMSB_limbsOf4] at this
  exact this

theorem Jac.mulAssign_correct_lt (P : Jac F) (hP : M.ValidJ P) (k : ℕ) (hk : k < 2 ^ 256) :
    M.ValidJ (P.mulAssign k) ∧ M.absJ (P.mulAssign k) = k • M.absJ P := by
  have := Jac.mulAssign_correct M P hP k
  rwa [Nat.mod_eq_of_lt hk] at this

end PP
