/-
Correctness of the scalar multiplications of `PP.Model.Curve` / `PP.Model.Mul` relative to a
`GroupModel`: plain double-and-add (`Aff.mulBits`, `Aff.mul`, `Jac.mulAssign`) and the two
table-driven interleaved multiplications (`precomp3`/`mulPrecomp3`, `precomp256`/`mulPrecomp256`),
plus the table-driven multi-scalar multiplication `sumOfProductsPrecomp256`.
-/
import Mathlib.Tactic.Module
import Mathlib.Tactic.IntervalCases
import PP.Proofs.Interfaces
import PP.Proofs.Bits

namespace PP

variable {F : Type} [Field F] [DecidableEq F] [FieldOps F] {G : Type} [AddCommGroup G]
  (M : GroupModel F G)

/-! ## "is `c` times the base" -/

/-- `P` is a valid projective point representing `c • g` -/
def IsMulJ (g : G) (P : Jac F) (c : ℕ) : Prop := M.ValidJ P ∧ M.absJ P = c • g

/-- `A` is a valid affine point representing `c • g` -/
def IsMulA (g : G) (A : Aff F) (c : ℕ) : Prop := M.ValidA A ∧ M.absA A = c • g

namespace IsMulJ
variable {M} {g : G}

theorem zero : IsMulJ M g Jac.zero 0 := ⟨M.zero_valid, by rw [M.zero_abs, zero_nsmul]⟩

theorem cast {P : Jac F} {c c' : ℕ} (h : IsMulJ M g P c) (e : c = c') : IsMulJ M g P c' := e ▸ h

theorem double {P : Jac F} {c : ℕ} (h : IsMulJ M g P c) : IsMulJ M g P.double (2 * c) :=
  ⟨M.double_valid P h.1, by rw [M.double_abs P h.1, h.2]; module⟩

theorem add {P Q : Jac F} {c d : ℕ} (h : IsMulJ M g P c) (h' : IsMulJ M g Q d) :
    IsMulJ M g (P.add Q) (c + d) :=
  ⟨M.add_valid P Q h.1 h'.1, by rw [M.add_abs P Q h.1 h'.1, h.2, h'.2]; module⟩

theorem addMixed {P : Jac F} {A : Aff F} {c d : ℕ} (h : IsMulJ M g P c) (h' : IsMulA M g A d) :
    IsMulJ M g (P.addMixed A) (c + d) :=
  ⟨M.addMixed_valid P A h.1 h'.1, by rw [M.addMixed_abs P A h.1 h'.1, h.2, h'.2]; module⟩

theorem doubleN {P : Jac F} {c : ℕ} (h : IsMulJ M g P c) (n : ℕ) :
    IsMulJ M g (P.doubleN n) (2 ^ n * c) := by
  induction n generalizing P c with
  | zero => simpa [Jac.doubleN] using h
  | succ n ih =>
    rw [Jac.doubleN]
    exact (ih h.double).cast (by ring)

theorem toAffine {P : Jac F} {c : ℕ} (h : IsMulJ M g P c) :
    ∃ A, P.toAffine = some A ∧ IsMulA M g A c := by
  obtain ⟨A, hA, hv, ha⟩ := M.toAffine_ok P h.1
  exact ⟨A, hA, hv, by rw [ha, h.2]⟩

end IsMulJ

namespace IsMulA
variable {M} {g : G}

theorem zero : IsMulA M g Aff.zero 0 := ⟨M.affZero_valid, by rw [M.affZero_abs, zero_nsmul]⟩

theorem cast {A : Aff F} {c c' : ℕ} (h : IsMulA M g A c) (e : c = c') : IsMulA M g A c' := e ▸ h

theorem self {A : Aff F} (h : M.ValidA A) : IsMulA M (M.absA A) A 1 := ⟨h, (one_nsmul _).symm⟩

theorem toJac {A : Aff F} {c : ℕ} (h : IsMulA M g A c) : IsMulJ M g A.toJac c :=
  ⟨M.toJac_valid A h.1, by rw [M.toJac_abs A h.1, h.2]⟩

end IsMulA

theorem IsMulJ.self {P : Jac F} (h : M.ValidJ P) : IsMulJ M (M.absJ P) P 1 :=
  ⟨h, (one_nsmul _).symm⟩

/-- `doubleN` is `n` doublings -/
theorem doubleN_spec (P : Jac F) (hP : M.ValidJ P) (n : ℕ) :
    M.ValidJ (P.doubleN n) ∧ M.absJ (P.doubleN n) = 2 ^ n • M.absJ P := by
  have := (IsMulJ.self M hP).doubleN n
  exact ⟨this.1, by rw [this.2, mul_one]⟩

/-! ## double-and-add -/

theorem mulBits_aux (A : Aff F) (hA : M.ValidA A) (bits : List Bool) (acc : Jac F) (m : ℕ)
    (h : IsMulJ M (M.absA A) acc m) :
    IsMulJ M (M.absA A)
      (bits.foldl (fun res i => let res := res.double; if i then res.addMixed A else res) acc)
      (ofBitsMSBAux m bits) := by
  induction bits generalizing acc m with
  | nil => exact h
  | cons b bs ih =>
    rw [List.foldl_cons, ofBitsMSBAux_cons]
    apply ih
    cases b with
    | false => simpa using h.double
    | true => simpa using h.double.addMixed (IsMulA.self hA)

/-- `mul_bits` over any MSB-first bit sequence computes `[value of the bits] A` -/
theorem mulBits_correct (A : Aff F) (hA : M.ValidA A) (bits : List Bool) :
    M.ValidJ (A.mulBits bits) ∧ M.absJ (A.mulBits bits) = ofBitsMSB bits • M.absA A :=
  mulBits_aux M A hA bits Jac.zero 0 IsMulJ.zero

/-- affine `mul` by a 4-limb scalar: `[k mod 2^256] A` -/
theorem Aff.mul_correct (A : Aff F) (hA : M.ValidA A) (k : ℕ) :
    M.ValidJ (A.mul k) ∧ M.absJ (A.mul k) = (k % 2 ^ 256) • M.absA A := by
  have := mulBits_correct M A hA (bitsMSB (limbsOf 4 k))
  rwa [ofBitsMSB_bitsMSB_limbsOf4] at this

theorem Aff.mul_correct_lt (A : Aff F) (hA : M.ValidA A) (k : ℕ) (hk : k < 2 ^ 256) :
    M.ValidJ (A.mul k) ∧ M.absJ (A.mul k) = k • M.absA A := by
  have := Aff.mul_correct M A hA k
  rwa [Nat.mod_eq_of_lt hk] at this

theorem mulLoop_aux (P : Jac F) (hP : M.ValidJ P) (bits : List Bool) (res : Jac F) (found : Bool)
    (m : ℕ) (h : IsMulJ M (M.absJ P) res m) (hf : found = false → m = 0) :
    IsMulJ M (M.absJ P) (Jac.mulLoop P bits (res, found)).1 (ofBitsMSBAux m bits) := by
  induction bits generalizing res found m with
  | nil => exact h
  | cons b bs ih =>
    rw [Jac.mulLoop, ofBitsMSBAux_cons]
    cases found with
    | true =>
      cases b with
      | false => exact ih _ _ _ (by simpa using h.double) (by simp)
      | true => exact ih _ _ _ (by simpa using h.double.add (IsMulJ.self M hP)) (by simp)
    | false =>
      have hm : m = 0 := hf rfl
      subst hm
      cases b with
      | false => exact ih _ _ _ (by simpa using h) (by simp)
      | true => exact ih _ _ _ (by simpa using h.add (IsMulJ.self M hP)) (by simp)

/-- projective `mul_assign` by a 4-limb scalar: `[k mod 2^256] P` -/
theorem Jac.mulAssign_correct (P : Jac F) (hP : M.ValidJ P) (k : ℕ) :
    M.ValidJ (P.mulAssign k) ∧ M.absJ (P.mulAssign k) = (k % 2 ^ 256) • M.absJ P := by
  have := mulLoop_aux M P hP (bitsMSB (limbsOf 4 k)) Jac.zero false 0 IsMulJ.zero (fun _ => rfl)
  rw [show ofBitsMSBAux 0 _ = ofBitsMSB (bitsMSB (limbsOf 4 k)) from rfl,
    ofBitsMSB_bitsMSB_limbsOf4] at this
  exact this

theorem Jac.mulAssign_correct_lt (P : Jac F) (hP : M.ValidJ P) (k : ℕ) (hk : k < 2 ^ 256) :
    M.ValidJ (P.mulAssign k) ∧ M.absJ (P.mulAssign k) = k • M.absJ P := by
  have := Jac.mulAssign_correct M P hP k
  rwa [Nat.mod_eq_of_lt hk] at this

/-! ## `precomp_3` / `mul_precomp_3` -/

/-- what `mul_precomp_3` needs from its `pre` argument -/
def Precomp3Spec (A : Aff F) (pre : List (Aff F)) : Prop :=
  ∃ a1 a2 a3, pre[0]? = some a1 ∧ pre[1]? = some a2 ∧ pre[2]? = some a3 ∧
    IsMulA M (M.absA A) a1 (2 ^ 64) ∧ IsMulA M (M.absA A) a2 (2 ^ 128) ∧
    IsMulA M (M.absA A) a3 (2 ^ 192)

theorem precomp3_spec (A : Aff F) (hA : M.ValidA A) :
    ∃ a1 a2 a3, A.precomp3 = some [a1, a2, a3] ∧
      IsMulA M (M.absA A) a1 (2 ^ 64) ∧ IsMulA M (M.absA A) a2 (2 ^ 128) ∧
      IsMulA M (M.absA A) a3 (2 ^ 192) := by
  have h0 : IsMulJ M (M.absA A) A.toJac 1 := (IsMulA.self hA).toJac
  have h1 := (h0.doubleN 64).cast (c' := 2 ^ 64) (by norm_num)
  obtain ⟨a1, e1, ha1⟩ := h1.toAffine
  have h2 := (h1.doubleN 64).cast (c' := 2 ^ 128) (by norm_num)
  obtain ⟨a2, e2, ha2⟩ := h2.toAffine
  have h3 := (h2.doubleN 64).cast (c' := 2 ^ 192) (by norm_num)
  obtain ⟨a3, e3, ha3⟩ := h3.toAffine
  refine ⟨a1, a2, a3, ?_, ha1, ha2, ha3⟩
  simp [Aff.precomp3, e1, e2, e3]

theorem precomp3Table_spec (A : Aff F) (hA : M.ValidA A) (pre : List (Aff F))
    (hpre : Precomp3Spec M A pre) :
    ∃ tbl, A.precomp3Table pre = some tbl ∧
      ∀ n < 16, ∃ e, tbl[n]? = some e ∧ IsMulJ M (M.absA A) e (spread 64 4 n) := by
  obtain ⟨a1, a2, a3, e1, e2, e3, h1, h2, h3⟩ := hpre
  have hA' := IsMulA.self hA
  refine ⟨_, by simp [Aff.precomp3Table, e1, e2, e3]; rfl, ?_⟩
  intro n hn
  have t1 := hA'.toJac
  have t2 := h1.toJac
  have t4 := h2.toJac
  have t8 := h3.toJac
  have t6 := t2.addMixed h2
  interval_cases n <;> simp
  · exact IsMulJ.zero
  · exact t1.cast (by decide)
  · exact t2.cast (by decide)
  · exact (t2.addMixed hA').cast (by decide)
  · exact t4.cast (by decide)
  · exact (t4.addMixed hA').cast (by decide)
  · exact t6.cast (by decide)
  · exact (t6.addMixed hA').cast (by decide)
  · exact t8.cast (by decide)
  · exact (t1.addMixed h3).cast (by decide)
  · exact (t2.addMixed h3).cast (by decide)
  · exact ((t2.addMixed hA').addMixed h3).cast (by decide)
  · exact (t4.addMixed h3).cast (by decide)
  · exact ((t4.addMixed hA').addMixed h3).cast (by decide)
  · exact (t6.addMixed h3).cast (by decide)
  · exact ((t6.addMixed hA').addMixed h3).cast (by decide)

theorem mulPrecomp3Loop_spec (g : G) (tbl : Array (Jac F)) (b0 b1 b2 b3 : ℕ)
    (htbl : ∀ n < 16, ∃ e, tbl[n]? = some e ∧ IsMulJ M g e (spread 64 4 n))
    (i : ℕ) (res : Jac F) (m : ℕ) (h : IsMulJ M g res m) :
    ∃ R, mulPrecomp3Loop tbl b0 b1 b2 b3 i res = some R ∧
      IsMulJ M g R (2 ^ i * m + colVal 64 [b0, b1, b2, b3] i) := by
  induction i generalizing res m with
  | zero => exact ⟨res, rfl, h.cast (by simp)⟩
  | succ i ih =>
    have hlt : nibbleAt b0 b1 b2 b3 i < 16 := by
      rw [nibbleAt_eq]; exact colBits_lt [b0, b1, b2, b3] i
    obtain ⟨e, he, hme⟩ := htbl _ hlt
    obtain ⟨R, hR, hmR⟩ := ih (res.double.add e) _ (h.double.add hme)
    refine ⟨R, ?_, hmR.cast ?_⟩
    · rw [mulPrecomp3Loop]; simp [he, hR]
    · rw [nibbleAt_eq, spread_colBits 64 4 [b0, b1, b2, b3] i (le_refl _)]; ring

/-- `mul_precomp_3` computes `[k mod 2^256] A` and never panics, for any `pre` meeting the spec -/
theorem mulPrecomp3_correct (A : Aff F) (hA : M.ValidA A) (pre : List (Aff F))
    (hpre : Precomp3Spec M A pre) (k : ℕ) :
    ∃ R, A.mulPrecomp3 k pre = some R ∧ M.ValidJ R ∧ M.absJ R = (k % 2 ^ 256) • M.absA A := by
  obtain ⟨tbl, htbl, hspec⟩ := precomp3Table_spec M A hA pre hpre
  have hlt : nibbleTop (limb k 0) (limb k 1) (limb k 2) (limb k 3) < 16 := by
    rw [nibbleTop_eq]; exact colBits_lt [limb k 0, limb k 1, limb k 2, limb k 3] 63
  obtain ⟨e, he, hme⟩ := hspec _ hlt
  obtain ⟨R, hR, hmR⟩ := mulPrecomp3Loop_spec M _ tbl (limb k 0) (limb k 1) (limb k 2) (limb k 3)
    hspec 63 e _ hme
  refine ⟨R, ?_, hmR.1, ?_⟩
  · simp only [Aff.mulPrecomp3, htbl, he, bind, Option.bind]
    exact hR
  · rw [hmR.2, nibbleTop_eq, Nat.add_comm, ← spread_colBits 64 4 [limb k 0, limb k 1, limb k 2, limb k 3] 63 (le_refl _), colVal_limbs64]

/-! ## `precomp_256` / `mul_precomp_256` -/

/-- table specification: `len` entries, entry `i` is `spread s m i` times the base -/
def TableSpecA (g : G) (s m : ℕ) (pre : List (Aff F)) (len : ℕ) : Prop :=
  pre.length = len ∧ ∀ i < len, ∃ e, pre[i]? = some e ∧ IsMulA M g e (spread s m i)

theorem mapM_option_spec {α β : Type} (f : α → Option β) (Q : α → β → Prop) (l : List α)
    (h : ∀ a ∈ l, ∃ b, f a = some b ∧ Q a b) :
    ∃ l', l.mapM f = some l' ∧ List.Forall₂ Q l l' := by
  induction l with
  | nil => exact ⟨[], by simp, List.Forall₂.nil⟩
  | cons a l ih =>
    obtain ⟨b, hb, hq⟩ := h a (by simp)
    obtain ⟨l', hl', hq'⟩ := ih (fun a ha => h a (by simp [ha]))
    exact ⟨b :: l', by simp [List.mapM_cons, hb, hl'], List.Forall₂.cons hq hq'⟩

theorem precomp256Stage_spec (g : G) (t : ℕ) (ht : t < 8) (pre : List (Aff F)) (pw : Jac F)
    (hpre : TableSpecA M g 32 8 pre (2 ^ t)) (hpw : IsMulJ M g pw (2 ^ (32 * t))) :
    ∃ pre', precomp256Stage pre pw = some pre' ∧ TableSpecA M g 32 8 pre' (2 ^ (t + 1)) := by
  obtain ⟨top, htop, hmtop⟩ := hpw.toAffine
  obtain ⟨hlen, hent⟩ := hpre
  have hpos : 0 < 2 ^ t := Nat.pos_of_ne_zero (by positivity)
  have hvalid : ∀ e ∈ pre, M.ValidA e := by
    intro e he
    obtain ⟨i, hi, rfl⟩ := List.getElem_of_mem he
    obtain ⟨e', he', hm⟩ := hent i (hlen ▸ hi)
    rw [List.getElem?_eq_getElem hi] at he'
    cases he'; exact hm.1
  obtain ⟨rest, hrest, hQ⟩ := mapM_option_spec
    (fun e : Aff F => (e.toJac.addMixed top).toAffine)
    (fun e e' => M.ValidA e' ∧ M.absA e' = M.absA e + 2 ^ (32 * t) • g) (pre.drop 1)
    (fun e he => by
      have hv := hvalid e (List.mem_of_mem_drop he)
      obtain ⟨b, hb, hvb, hab⟩ := M.toAffine_ok _
        (M.addMixed_valid _ _ (M.toJac_valid e hv) hmtop.1)
      refine ⟨b, hb, hvb, ?_⟩
      rw [hab, M.addMixed_abs _ _ (M.toJac_valid e hv) hmtop.1, M.toJac_abs e hv, hmtop.2])
  obtain ⟨hlen2, hget⟩ := List.forall₂_iff_get.mp hQ
  rw [List.length_drop, hlen] at hlen2
  refine ⟨pre ++ [top] ++ rest, by simp only [precomp256Stage, htop, hrest, bind, Option.bind, pure], ?_, ?_⟩
  · simp only [List.length_append, List.length_cons, List.length_nil, hlen, ← hlen2, pow_succ]
    omega
  · intro i hi
    by_cases h1 : i < 2 ^ t
    · obtain ⟨e, he, hm⟩ := hent i h1
      refine ⟨e, ?_, hm⟩
      rw [List.append_assoc, List.getElem?_append_left (hlen ▸ h1)]; exact he
    · have h1' : 2 ^ t ≤ i := Nat.le_of_not_lt h1
      obtain ⟨j, rfl⟩ := Nat.exists_eq_add_of_le h1'
      have hj : j < 2 ^ t := by rw [pow_succ] at hi; omega
      rw [spread_two_pow_add 32 8 t j ht hj]
      rw [List.append_assoc, List.getElem?_append_right (hlen ▸ h1'), hlen, Nat.add_sub_cancel_left]
      cases j with
      | zero => exact ⟨top, by simp, hmtop.cast (by simp)⟩
      | succ j =>
        have hj1 : j < rest.length := by omega
        have hj2 : j < (pre.drop 1).length := by rw [List.length_drop, hlen]; omega
        have := hget j hj2 hj1
        refine ⟨rest[j], by simp [hj1], this.1, ?_⟩
        obtain ⟨e, he, hm⟩ := hent (j + 1) (by omega)
        have hee : (pre.drop 1).get ⟨j, hj2⟩ = e := by
          have : (pre.drop 1)[j]? = some e := by rw [List.getElem?_drop, Nat.add_comm]; exact he
          rw [List.getElem?_eq_getElem hj2] at this
          simpa using this
        rw [List.get_eq_getElem] at this
        rw [this.2, hee, hm.2]; module

theorem precomp256Loop_spec (g : G) (n t : ℕ) (hnt : t + n ≤ 8) (pre : List (Aff F)) (pw : Jac F)
    (hpre : TableSpecA M g 32 8 pre (2 ^ t)) (hpw : n ≠ 0 → IsMulJ M g pw (2 ^ (32 * t))) :
    ∃ pre', precomp256Loop n pre pw = some pre' ∧ TableSpecA M g 32 8 pre' (2 ^ (t + n)) := by
  induction n generalizing t pre pw with
  | zero => exact ⟨pre, rfl, hpre⟩
  | succ n ih =>
    have hpw' := hpw (Nat.succ_ne_zero n)
    obtain ⟨pre1, h1, hs1⟩ := precomp256Stage_spec M g t (by omega) pre pw hpre hpw'
    obtain ⟨pre2, h2, hs2⟩ := ih (t + 1) (by omega) pre1
      (if n = 0 then pw else pw.doubleN 32) hs1 (fun hn => by
        rw [if_neg hn]
        exact (hpw'.doubleN 32).cast (by rw [← pow_add]; congr 1; ring))
    refine ⟨pre2, ?_, by rwa [Nat.add_assoc, Nat.add_comm 1 n] at hs2⟩
    rw [precomp256Loop]
    simp only [h1, bind, Option.bind]
    exact h2

/-- the specification of the table returned by `precomp_256` -/
def Precomp256Spec (A : Aff F) (pre : List (Aff F)) : Prop :=
  TableSpecA M (M.absA A) 32 8 pre 256

/-- `precomp_256` never panics and returns the 256-entry table
    `pre[i] = (Σ_{b ∈ bits of i} 2^(32 b)) · A` -/
theorem precomp256_spec (A : Aff F) (hA : M.ValidA A) :
    ∃ pre, A.precomp256 = some pre ∧ Precomp256Spec M A pre := by
  have := precomp256Loop_spec M (M.absA A) 8 0 (by omega) [Aff.zero] A.toJac
    ⟨rfl, fun i hi => ⟨Aff.zero, by
      have : i = 0 := by simpa using hi
      subst this
      exact ⟨rfl, IsMulA.zero.cast (by simp)⟩⟩⟩
    (fun _ => (IsMulA.self hA).toJac.cast (by simp))
  exact this

theorem mulPrecomp256Loop_spec (g : G) (pre : Array (Aff F)) (b0 b1 b2 b3 : ℕ)
    (htbl : ∀ n < 256, ∃ e, pre[n]? = some e ∧ IsMulA M g e (spread 32 8 n))
    (i : ℕ) (res : Jac F) (m : ℕ) (h : IsMulJ M g res m) :
    ∃ R, mulPrecomp256Loop pre b0 b1 b2 b3 i res = some R ∧
      IsMulJ M g R (2 ^ i * m + colVal 32 (pieces32 b0 b1 b2 b3) i) := by
  induction i generalizing res m with
  | zero => exact ⟨res, rfl, h.cast (by simp)⟩
  | succ i ih =>
    have hlt : byteAt b0 b1 b2 b3 i < 256 := by
      rw [byteAt_eq]; exact colBits_pieces32_lt b0 b1 b2 b3 i
    obtain ⟨e, he, hme⟩ := htbl _ hlt
    obtain ⟨R, hR, hmR⟩ := ih (res.double.addMixed e) _ (h.double.addMixed hme)
    refine ⟨R, ?_, hmR.cast ?_⟩
    · rw [mulPrecomp256Loop]; simp only [he, bind, Option.bind]; exact hR
    · rw [byteAt_eq, spread_colBits 32 8 (pieces32 b0 b1 b2 b3) i (le_refl _)]; ring

/-- `mul_precomp_256` computes `[k mod 2^256] A` and never panics, for any table meeting the spec -/
theorem mulPrecomp256_correct (A : Aff F) (pre : Array (Aff F))
    (hpre : Precomp256Spec M A pre.toList) (k : ℕ) :
    ∃ R, A.mulPrecomp256 k pre = some R ∧ M.ValidJ R ∧ M.absJ R = (k % 2 ^ 256) • M.absA A := by
  have hspec : ∀ n < 256, ∃ e, pre[n]? = some e ∧ IsMulA M (M.absA A) e (spread 32 8 n) := by
    intro n hn
    obtain ⟨e, he, hm⟩ := hpre.2 n hn
    exact ⟨e, by simpa using he, hm⟩
  have hlt : byteTop (limb k 0) (limb k 1) (limb k 2) (limb k 3) < 256 := by
    rw [byteTop_eq]; exact colBits_pieces32_lt _ _ _ _ 31
  obtain ⟨e, he, hme⟩ := hspec _ hlt
  obtain ⟨R, hR, hmR⟩ := mulPrecomp256Loop_spec M _ pre (limb k 0) (limb k 1) (limb k 2) (limb k 3)
    hspec 31 e.toJac _ hme.toJac
  refine ⟨R, ?_, hmR.1, ?_⟩
  · simp only [Aff.mulPrecomp256, he, bind, Option.bind]
    exact hR
  · rw [hmR.2, byteTop_eq, Nat.add_comm,
      ← spread_colBits 32 8 (pieces32 (limb k 0) (limb k 1) (limb k 2) (limb k 3)) 31 (le_refl _),
      colVal_pieces32]

/-! ## `sum_of_products_precomp_256` -/

/-- the eight 32-bit pieces of a 256-bit scalar -/
def scalarPieces (k : ℕ) : List ℕ := pieces32 (limb k 0) (limb k 1) (limb k 2) (limb k 3)

theorem list_sum_combine {α : Type} (c : ℕ) (f g h : α → G) (l : List α)
    (H : ∀ x ∈ l, c • f x + g x = h x) :
    c • (l.map f).sum + (l.map g).sum = (l.map h).sum := by
  induction l with
  | nil => simp
  | cons a l ih =>
    simp only [List.map_cons, List.sum_cons]
    rw [← H a (by simp), ← ih (fun x hx => H x (by simp [hx]))]
    module

theorem map_snd_zip_take {α β : Type} (ps : List α) (ks : List β) :
    (List.zip ps ks).map Prod.snd = ks.take (min ps.length ks.length) := by
  induction ps generalizing ks with
  | nil => simp
  | cons p ps ih =>
    cases ks with
    | nil => simp
    | cons k ks => simp [ih, Nat.succ_min_succ]

/-- `pre[256 j + i] = spread 32 8 i · P_j` for the first `l.length` points -/
def SopTableSpec (l : List (Aff F × ℕ)) (j0 : ℕ) (pre : Array (Aff F)) : Prop :=
  ∀ t (ht : t < l.length), ∀ n < 256, ∃ e, pre[256 * (j0 + t) + n]? = some e ∧
    IsMulA M (M.absA l[t].1) e (spread 32 8 n)

theorem sopPrecompInner_spec (pre : Array (Aff F)) (i : ℕ) (l : List (Aff F × ℕ)) (j0 : ℕ)
    (hpre : SopTableSpec M l j0 pre) (res : Jac F) (hres : M.ValidJ res) :
    ∃ R, sopPrecompInner pre i (l.map Prod.snd) j0 res = some R ∧ M.ValidJ R ∧
      M.absJ R = M.absJ res +
        (l.map (fun pk => spread 32 8 (colBits (scalarPieces pk.2) i) • M.absA pk.1)).sum := by
  induction l generalizing j0 res with
  | nil => exact ⟨res, rfl, hres, by simp⟩
  | cons pk l ih =>
    have hlt : byteAt (limb pk.2 0) (limb pk.2 1) (limb pk.2 2) (limb pk.2 3) i < 256 := by
      rw [byteAt_eq]; exact colBits_pieces32_lt _ _ _ _ i
    obtain ⟨e, he, hme⟩ := hpre 0 (by simp) _ hlt
    obtain ⟨R, hR, hvR, haR⟩ := ih (j0 + 1)
      (fun t ht n hn => by
        have := hpre (t + 1) (by simpa using ht) n hn
        simpa [Nat.add_assoc, Nat.add_comm 1 t] using this)
      (res.addMixed e) (M.addMixed_valid _ _ hres hme.1)
    refine ⟨R, ?_, hvR, ?_⟩
    · rw [List.map_cons, sopPrecompInner]
      simp only [Nat.shiftLeft_eq, bind, Option.bind]
      rw [show j0 * 2 ^ 8 = 256 * (j0 + 0) by ring, he]
      exact hR
    · rw [haR, M.addMixed_abs _ _ hres hme.1, hme.2, List.map_cons, List.sum_cons, byteAt_eq]
      simp only [List.getElem_cons_zero, scalarPieces]
      module

theorem sopPrecompOuter_spec (pre : Array (Aff F)) (l : List (Aff F × ℕ))
    (hpre : SopTableSpec M l 0 pre) (i : ℕ) (res : Jac F) (hres : M.ValidJ res) :
    ∃ R, sopPrecompOuter pre (l.map Prod.snd) i res = some R ∧ M.ValidJ R ∧
      M.absJ R = 2 ^ i • M.absJ res +
        (l.map (fun pk => colVal 32 (scalarPieces pk.2) i • M.absA pk.1)).sum := by
  induction i generalizing res with
  | zero => exact ⟨res, rfl, hres, by simp⟩
  | succ i ih =>
    obtain ⟨R1, hR1, hv1, ha1⟩ := sopPrecompInner_spec M pre i l 0 hpre res.double
      (M.double_valid _ hres)
    obtain ⟨R, hR, hvR, haR⟩ := ih R1 hv1
    refine ⟨R, ?_, hvR, ?_⟩
    · rw [sopPrecompOuter]; simp only [hR1, bind, Option.bind]; exact hR
    · rw [haR, ha1, M.double_abs _ hres,
        ← list_sum_combine (2 ^ i)
          (fun pk : Aff F × ℕ => spread 32 8 (colBits (scalarPieces pk.2) i) • M.absA pk.1)
          (fun pk => colVal 32 (scalarPieces pk.2) i • M.absA pk.1)
          (fun pk => colVal 32 (scalarPieces pk.2) (i + 1) • M.absA pk.1) l
          (fun pk _ => by
            rw [spread_colBits 32 8 (scalarPieces pk.2) i (le_refl _)]; module)]
      module

/-- what `sum_of_products_precomp_256` expects of `pre`: `pre[256 j + i] = spread 32 8 i · P_j`
    (the comment in the Rust source), for the `min(#points, #scalars)` points actually used -/
def SopPrecompSpec (points : List (Aff F)) (ks : List ℕ) (pre : Array (Aff F)) : Prop :=
  SopTableSpec M (List.zip points ks) 0 pre

theorem sumOfProductsPrecomp256_correct (points : List (Aff F)) (ks : List ℕ)
    (pre : Array (Aff F)) (hpre : SopPrecompSpec M points ks pre) :
    ∃ R, sumOfProductsPrecomp256 points ks pre = some R ∧ M.ValidJ R ∧
      M.absJ R = ((List.zip points ks).map (fun pk => (pk.2 % 2 ^ 256) • M.absA pk.1)).sum := by
  obtain ⟨R, hR, hvR, haR⟩ := sopPrecompOuter_spec M pre (List.zip points ks) hpre 32 Jac.zero
    M.zero_valid
  refine ⟨R, ?_, hvR, ?_⟩
  · rw [sumOfProductsPrecomp256, ← map_snd_zip_take]; exact hR
  · rw [haR, M.zero_abs, nsmul_zero, zero_add]
    congr 1
    apply List.map_congr_left
    intro pk _
    rw [scalarPieces, colVal_pieces32]

theorem sumOfProductsPrecomp256_correct_lt (points : List (Aff F)) (ks : List ℕ)
    (pre : Array (Aff F)) (hpre : SopPrecompSpec M points ks pre) (hk : ∀ k ∈ ks, k < 2 ^ 256) :
    ∃ R, sumOfProductsPrecomp256 points ks pre = some R ∧ M.ValidJ R ∧
      M.absJ R = ((List.zip points ks).map (fun pk => pk.2 • M.absA pk.1)).sum := by
  obtain ⟨R, hR, hvR, haR⟩ := sumOfProductsPrecomp256_correct M points ks pre hpre
  refine ⟨R, hR, hvR, ?_⟩
  rw [haR]
  congr 1
  apply List.map_congr_left
  intro pk hpk
  rw [Nat.mod_eq_of_lt (hk _ (List.of_mem_zip (a := pk.1) (b := pk.2) hpk).2)]

theorem getElem?_flatten_const {α : Type} (c : ℕ) (T : List (List α)) (hT : ∀ t ∈ T, t.length = c)
    (j i : ℕ) (hi : i < c) : T.flatten[c * j + i]? = (T[j]?).bind (fun t => t[i]?) := by
  induction T generalizing j with
  | nil => simp
  | cons t T ih =>
    have ht : t.length = c := hT t (by simp)
    cases j with
    | zero =>
      rw [List.flatten_cons, Nat.mul_zero, Nat.zero_add, List.getElem?_append_left (ht ▸ hi)]
      simp
    | succ j =>
      rw [List.flatten_cons, List.getElem?_append_right (by rw [ht, Nat.mul_succ]; omega), ht,
        show c * (j + 1) + i - c = c * j + i by rw [Nat.mul_succ]; omega,
        ih (fun t ht => hT t (by simp [ht]))]
      simp

/-- the concatenation of per-point tables meeting the `precomp_256` spec is a valid `pre` -/
theorem sopPrecompSpec_of_tables (points : List (Aff F)) (ks : List ℕ)
    (tables : List (List (Aff F)))
    (h : List.Forall₂ (fun P t => Precomp256Spec M P t) points tables) :
    SopPrecompSpec M points ks tables.flatten.toArray := by
  obtain ⟨hlen, hget⟩ := List.forall₂_iff_get.mp h
  have hT : ∀ t ∈ tables, t.length = 256 := by
    intro t ht
    obtain ⟨j, hj, rfl⟩ := List.getElem_of_mem ht
    exact (hget j (hlen ▸ hj) hj).1
  intro t ht n hn
  rw [List.length_zip] at ht
  have ht1 : t < points.length := by omega
  have ht2 : t < tables.length := hlen ▸ ht1
  obtain ⟨e, he, hme⟩ := (hget t ht1 ht2).2 n hn
  refine ⟨e, ?_, ?_⟩
  · rw [Nat.zero_add, List.getElem?_toArray, getElem?_flatten_const 256 tables hT t n hn,
      List.getElem?_eq_getElem ht2]
    simpa using he
  · simpa using hme

/-- the table-driven multi-scalar multiplication, with tables built by `precomp_256` -/
theorem sumOfProductsPrecomp256_precomp (points : List (Aff F)) (ks : List ℕ)
    (hP : ∀ P ∈ points, M.ValidA P) (hk : ∀ k ∈ ks, k < 2 ^ 256) :
    ∃ tables, points.mapM Aff.precomp256 = some tables ∧
      ∃ R, sumOfProductsPrecomp256 points ks tables.flatten.toArray = some R ∧ M.ValidJ R ∧
        M.absJ R = ((List.zip points ks).map (fun pk => pk.2 • M.absA pk.1)).sum := by
  obtain ⟨tables, ht, hQ⟩ := mapM_option_spec Aff.precomp256 (fun P t => Precomp256Spec M P t)
    points (fun P hPm => precomp256_spec M P (hP P hPm))
  exact ⟨tables, ht, sumOfProductsPrecomp256_correct_lt M points ks _
    (sopPrecompSpec_of_tables M points ks tables hQ) hk⟩

end PP
