/-
C01, lemmas: batch normalisation (Montgomery's trick).  `Jac.batchNormalize` is shown to be, on EVERY
list, `some (v.map Jac.normalizeOne)`: the inverse whose `unwrap` could panic is taken of a product of
`z`s that are non-zero by the very test that selected them.
-/
import PP.Proofs.Jacobian
import Mathlib.Data.List.GetD

set_option linter.unusedSectionVars false

namespace PP

open WeierstrassCurve.Affine

variable {F : Type} [Field F] [DecidableEq F] [FieldOps F] [LawfulFieldOps F]

theorem Jac.isNormalized_iff (P : Jac F) : P.isNormalized = true ↔ P.z = 0 ∨ P.z = 1 := by
  simp [Jac.isNormalized]

theorem Jac.z_ne_zero_of_not_isNormalized {P : Jac F} (h : ¬ P.isNormalized = true) : P.z ≠ 0 :=
  fun hz => h ((Jac.isNormalized_iff P).mpr (Or.inl hz))

/-- what batch normalisation does to one element -/
def Jac.normalizeOne (g : Jac F) : Jac F :=
  if g.isNormalized then g else ⟨g.x / g.z ^ 2, g.y / g.z ^ 3, 1⟩

theorem Jac.normalizeOne_isNormalized (g : Jac F) : g.normalizeOne.isNormalized = true := by
  unfold Jac.normalizeOne
  split
  · assumption
  · exact (Jac.isNormalized_iff _).mpr (Or.inr rfl)

theorem Jac.normalizeOne_of_isNormalized {g : Jac F} (h : g.isNormalized = true) :
    g.normalizeOne = g := by
  simp [Jac.normalizeOne, h]

theorem Jac.normalizeOne_spec {b : F} [ShortW b] {g : Jac F} (h : Jac.OnCurve b g) :
    Jac.OnCurve b g.normalizeOne ∧ Jac.abs b g.normalizeOne = Jac.abs b g := by
  unfold Jac.normalizeOne
  split
  · exact ⟨h, rfl⟩
  · next hn =>
    have hz := Jac.z_ne_zero_of_not_isNormalized hn
    rw [Jac.abs_of_z_ne_zero h hz]
    apply Jac.abs_eq_some (P := ⟨g.x / g.z ^ 2, g.y / g.z ^ 3, 1⟩) one_ne_zero <;> simp

/-! ## the three passes -/

/-- product of the `z` of the non-normalised elements -/
def Jac.nzProd : List (Jac F) → F
  | [] => 1
  | g :: gs => if g.isNormalized then Jac.nzProd gs else g.z * Jac.nzProd gs

/-- the partial products met by the backward pass: for each non-normalised element, the product of
    the non-normalised `z` that FOLLOW it in the list -/
def Jac.ssOf : List (Jac F) → List F
  | [] => []
  | g :: gs => if g.isNormalized then Jac.ssOf gs else Jac.nzProd gs :: Jac.ssOf gs

/-- result of the backward pass on one element -/
def Jac.invZ (g : Jac F) : Jac F := if g.isNormalized then g else ⟨g.x, g.y, g.z⁻¹⟩

theorem Jac.nzProd_ne_zero (l : List (Jac F)) : Jac.nzProd l ≠ 0 := by
  induction l with
  | nil => exact one_ne_zero
  | cons g gs ih =>
    unfold Jac.nzProd
    split
    · exact ih
    · next hn => exact mul_ne_zero (Jac.z_ne_zero_of_not_isNormalized hn) ih

theorem Jac.nzProd_append (l₁ l₂ : List (Jac F)) :
    Jac.nzProd (l₁ ++ l₂) = Jac.nzProd l₁ * Jac.nzProd l₂ := by
  induction l₁ with
  | nil => simp [Jac.nzProd]
  | cons g gs ih =>
    simp only [List.cons_append, Jac.nzProd]
    split
    · exact ih
    · rw [ih, mul_assoc]

theorem Jac.nzProd_reverse (l : List (Jac F)) : Jac.nzProd l.reverse = Jac.nzProd l := by
  induction l with
  | nil => rfl
  | cons g gs ih =>
    rw [List.reverse_cons, Jac.nzProd_append, ih]
    simp only [Jac.nzProd]
    split <;> ring

theorem Jac.ssOf_append (l₁ l₂ : List (Jac F)) :
    Jac.ssOf (l₁ ++ l₂) = (Jac.ssOf l₁).map (· * Jac.nzProd l₂) ++ Jac.ssOf l₂ := by
  induction l₁ with
  | nil => simp [Jac.ssOf]
  | cons g gs ih =>
    simp only [List.cons_append, Jac.ssOf]
    split
    · exact ih
    · rw [ih, Jac.nzProd_append]; simp

theorem Jac.bnProds_getLastD (l : List (Jac F)) (t : F) :
    (Jac.bnProds l t).getLastD t = t * Jac.nzProd l := by
  induction l generalizing t with
  | nil => simp [Jac.bnProds, Jac.nzProd]
  | cons g gs ih =>
    simp only [Jac.bnProds, Jac.nzProd]
    split
    · exact ih t
    · rw [List.getLastD_cons, ih, mul_assoc]

theorem Jac.bnProds_reverse (v : List (Jac F)) (t : F) :
    (Jac.bnProds v t).reverse ++ [t] =
      (t * Jac.nzProd v) :: (Jac.ssOf v.reverse).map (t * ·) := by
  induction v generalizing t with
  | nil => simp [Jac.bnProds, Jac.nzProd, Jac.ssOf]
  | cons g gs ih =>
    rw [List.reverse_cons, Jac.ssOf_append]
    simp only [Jac.bnProds, Jac.nzProd, Jac.ssOf]
    split
    · rw [ih t]; simp
    · rw [List.reverse_cons, List.append_assoc, ← List.append_assoc, ih (t * g.z)]
      simp [mul_assoc, mul_comm, mul_left_comm]

theorem Jac.bnInv_spec (r : List (Jac F)) (extra : List F) (tmp : F)
    (h : tmp * Jac.nzProd r = 1) :
    Jac.bnInv r (Jac.ssOf r ++ extra) tmp = r.map Jac.invZ := by
  induction r generalizing tmp with
  | nil => simp [Jac.bnInv]
  | cons g gs ih =>
    by_cases hn : g.isNormalized = true
    · have h' : tmp * Jac.nzProd gs = 1 := by simpa [Jac.nzProd, hn] using h
      simp only [Jac.bnInv, Jac.ssOf, hn, if_true, List.map_cons, ih tmp h']
      simp [Jac.invZ, hn]
    · have h' : tmp * (g.z * Jac.nzProd gs) = 1 := by simpa [Jac.nzProd, hn] using h
      have h1 : tmp * g.z * Jac.nzProd gs = 1 := by rw [← h']; ring
      have h2 : tmp * Jac.nzProd gs = g.z⁻¹ :=
        eq_inv_of_mul_eq_one_left (by rw [← h']; ring)
      simp only [Jac.bnInv, Jac.ssOf, hn, Bool.false_eq_true, if_false, List.cons_append,
        List.map_cons, ih (tmp * g.z) h1, h2]
      simp [Jac.invZ, hn]

theorem Jac.bnAffine_invZ (g : Jac F) : Jac.bnAffine (Jac.invZ g) = Jac.normalizeOne g := by
  unfold Jac.invZ Jac.normalizeOne
  by_cases hn : g.isNormalized = true
  · simp [Jac.bnAffine, hn]
  · have hz := Jac.z_ne_zero_of_not_isNormalized hn
    have hn' : ¬ (⟨g.x, g.y, g.z⁻¹⟩ : Jac F).isNormalized = true := by
      rw [Jac.isNormalized_iff] at hn ⊢
      simpa using hn
    simp only [hn, Bool.false_eq_true, if_false, Jac.bnAffine, hn', LawfulFieldOps.sq_eq,
      Jac.mk.injEq, and_true]
    constructor <;> field_simp

theorem List.drop_one_append_singleton_aux {α : Type} (L : List α) (a : α) :
    ∃ extra, L.drop 1 ++ [a] = (L ++ [a]).tail ++ extra := by
  cases L with
  | nil => exact ⟨[a], by simp⟩
  | cons x xs => exact ⟨[], by simp⟩

/-- `batch_normalization` never panics and normalises every element independently. -/
theorem Jac.batchNormalize_eq (v : List (Jac F)) :
    Jac.batchNormalize v = some (v.map Jac.normalizeOne) := by
  unfold Jac.batchNormalize
  have hlast : (Jac.bnProds v 1).getLastD 1 = Jac.nzProd v := by
    rw [Jac.bnProds_getLastD, one_mul]
  have hne := Jac.nzProd_ne_zero v
  have hrev := Jac.bnProds_reverse v 1
  simp only [one_mul, List.map_id'] at hrev
  obtain ⟨extra, hextra⟩ := List.drop_one_append_singleton_aux (Jac.bnProds v 1).reverse (1 : F)
  rw [hrev, List.tail_cons] at hextra
  simp only [hlast, LawfulFieldOps.inv_ne _ hne, hextra]
  rw [Jac.bnInv_spec v.reverse extra _ (by rw [Jac.nzProd_reverse]; exact inv_mul_cancel₀ hne)]
  simp [Jac.bnAffine_invZ]

theorem Jac.batchNormalize_spec {b : F} [ShortW b] (v : List (Jac F))
    (hv : ∀ P ∈ v, Jac.OnCurve b P) :
    ∃ out, Jac.batchNormalize v = some out ∧ out.length = v.length ∧
      ∀ (i : Nat) (h₁ : i < out.length) (h₂ : i < v.length),
        Jac.OnCurve b out[i] ∧ Jac.abs b out[i] = Jac.abs b v[i] ∧
        out[i].isNormalized = true ∧ (v[i].isNormalized = true → out[i] = v[i]) := by
  refine ⟨_, Jac.batchNormalize_eq v, by simp, ?_⟩
  intro i h₁ h₂
  simp only [List.getElem_map]
  have hoc := hv v[i] (List.getElem_mem h₂)
  exact ⟨(Jac.normalizeOne_spec hoc).1, (Jac.normalizeOne_spec hoc).2,
    Jac.normalizeOne_isNormalized _, Jac.normalizeOne_of_isNormalized⟩

end PP
