/-
The definitions REGENERATED from the Rust source by /verif/extract/extract_rest.py (`PP/Gen/Rest.lean`,
namespace `PP.Gen.R`: constructors, defaults, generators, cofactor scaling, `one`, `random`,
`batch_normalization`, `into_compressed` / `into_uncompressed`, `PartialOrd for Fq2`, `Field::random` of the
towers, `transmute` / `Default` of fq.rs, fr.rs) are equal to the hand-written model where the model has a
counterpart (`Jac.batchNormalize`, `encodeCompressed` / `encodeUncompressed`, `Aff.zero`, `Jac.zero`,
`Aff.toJac`, `Fq2.lt`), and are characterised directly in terms of model functions otherwise (`randomSpec`,
`Aff.mulBits` on the extracted cofactor, the extracted generator coordinates).

Proof method: the loop combinators of Rest.lean (`R.forMut`, `R.forMutZip`, `R.loopRet`) are related to the
model's structural recursions (`bnProds`, `bnInv`, `bnAffine`) by induction with generalised accumulators;
calls of generated curve operations are first rewritten into the model's with the equalities of
PP/Proofs/GenArith.lean, PP/Proofs/GenEnc.lean; nothing evaluates field arithmetic (the curve code is generic
in the coefficient field `F`; the concrete statements only compare limb lists of natural numbers).
-/
import PP.Gen.Rest
import PP.Proofs.GenArith
import PP.Proofs.GenEnc
import PP.Proofs.GenDerive

set_option linter.unusedSimpArgs false
set_option linter.unusedVariables false
set_option linter.unusedSectionVars false

namespace PP.GenRestLemmas
open PP PP.Gen PP.GenArithLemmas PP.GenEncLemmas

/-- the generated `Fq2` operation bundles (local instances of the generic code applied at `Fq2`) are the
    model's instances (as `lowerInst2` of PP/Proofs/GenArith.lean) -/
local macro "lowerInst2" : tactic => `(tactic| (
  (try rewrite [Fq2_instAdd_eq']); (try rewrite [Fq2_instSub_eq']); (try rewrite [Fq2_instMul_eq'])
  (try rewrite [Fq2_instNeg_eq']); (try rewrite [Fq2_instZero_eq']); (try rewrite [Fq2_instOne_eq'])
  (try rewrite [Fq2_instFieldOps_eq'])))

section
variable {F : Type} [Add F] [Sub F] [Mul F] [Neg F] [Zero F] [One F] [FieldOps F] [DecidableEq F]

/-! ## constructors, defaults, `one` (src/bls12_381/ec/mod.rs) -/

theorem transmuteAffine_eq (x y : F) (i : Bool) : R.transmuteAffine x y i = (⟨x, y, i⟩ : Aff F) := rfl
theorem transmuteProjective_eq (x y z : F) : R.transmuteProjective x y z = (⟨x, y, z⟩ : Jac F) := rfl
theorem Aff_default_eq : (R.Aff.default : Aff F) = PP.Aff.zero := rfl
theorem Jac_default_eq : (R.Jac.default : Jac F) = PP.Jac.zero := rfl
theorem Aff_one_eq (g : Aff F) : R.Aff.one g = g := rfl
theorem Jac_one_eq (g : Aff F) : R.Jac.one g = PP.Aff.toJac g := by
  unfold R.Jac.one R.Aff.one; rw [Aff_toJac_eq]

theorem toJac_finite (x y : F) : PP.Aff.toJac (⟨x, y, false⟩ : Aff F) = ⟨x, y, 1⟩ := by
  unfold PP.Aff.toJac; simp

/-! ## `batch_normalization` -/

theorem bnInv_nil (gs : List (Jac F)) (t : F) : Jac.bnInv gs [] t = gs := by
  induction gs with
  | nil => rfl
  | cons g gs ih =>
    unfold Jac.bnInv
    by_cases h : g.isNormalized = true
    · simp only [h, if_true, ih]
    · simp only [h, if_false, ih]; rfl

/-- first pass: the running products -/
theorem forMut_prods (f : List F × F → Jac F → (List F × F) × Jac F)
    (hf : ∀ p t g, f (p, t) g = ((p ++ [t * g.z], t * g.z), g)) (xs : List (Jac F)) (acc : List F) (t : F) :
    R.forMut xs (fun g => !(Jac.isNormalized g)) (acc, t) f
      = (xs, (acc ++ Jac.bnProds xs t, (Jac.bnProds xs t).getLastD t)) := by
  induction xs generalizing acc t with
  | nil => simp [R.forMut, Jac.bnProds]
  | cons g gs ih =>
    unfold R.forMut Jac.bnProds
    by_cases h : g.isNormalized = true
    · simp only [h, Bool.not_true, if_true, ih]; simp
    · have h' : g.isNormalized = false := by simpa using h
      simp only [h', Bool.not_false, if_true, hf, ih, List.getLastD_cons, List.append_assoc,
        List.singleton_append, Bool.false_eq_true, if_false]

/-- second pass (on the reversed list): the inverses -/
theorem forMutZip_inv (f : F → Jac F → F → F × Jac F)
    (hf : ∀ t g s, f t g s = (t * g.z, (⟨g.x, g.y, t * s⟩ : Jac F))) (xs : List (Jac F)) (ss : List F) (t : F) :
    (R.forMutZip xs (fun g => !(Jac.isNormalized g)) ss t f).1 = Jac.bnInv xs ss t := by
  induction xs generalizing ss t with
  | nil => simp [R.forMutZip, Jac.bnInv]
  | cons g gs ih =>
    unfold R.forMutZip Jac.bnInv
    by_cases h : g.isNormalized = true
    · simp only [h, Bool.not_true, if_true, ih]; simp [ih]
    · have h' : g.isNormalized = false := by simpa using h
      cases ss with
      | nil => simp [h', bnInv_nil]
      | cons s ss' => simp [h', hf, ih]

/-- third pass: the affine transformation -/
theorem forMut_affine (f : Unit → Jac F → Unit × Jac F)
    (hf : ∀ g, f () g = ((), (⟨g.x * sq g.z, g.y * (sq g.z * g.z), 1⟩ : Jac F))) (xs : List (Jac F)) :
    (R.forMut xs (fun g => !(Jac.isNormalized g)) () f).1 = xs.map Jac.bnAffine := by
  induction xs with
  | nil => simp [R.forMut]
  | cons g gs ih =>
    unfold R.forMut
    by_cases h : g.isNormalized = true
    · simp [h, ih, Jac.bnAffine]
    · have h' : g.isNormalized = false := by simpa using h
      simp [h', hf, ih, Jac.bnAffine]

theorem Jac_batchNormalization_eq (v : List (Jac F)) :
    R.Jac.batchNormalization v = PP.Jac.batchNormalize v := by
  unfold R.Jac.batchNormalization PP.Jac.batchNormalize
  simp only [Jac_isNormalized_eq]
  rw [forMut_prods _ (by intros; rfl)]
  simp only [List.nil_append]
  cases FieldOps.inv ((Jac.bnProds v (1 : F)).getLastD 1) with
  | none => rfl
  | some tinv =>
    simp only [R.revMut]
    rw [forMutZip_inv _ (by intros; rfl), forMut_affine _ (by intros; rfl)]

/-! ## `random` -/

/- the specification of `CurveProjective::random` is the model's `PP.Jac.randomSpec` (PP/Model/Curve.lean; it is also
   run by the model driver against the real code with a replaying RNG) -/
export PP.Jac (randomSpec)

theorem Jac_random_eq {Rng : Type} [SqrtOps F] (fuel : Nat) (baseRandom : Rng → Rng × F) (nextU32 : Rng → Rng × Nat)
    (b : F) (cof : Aff F → Jac F) (rng : Rng) :
    R.Jac.random fuel baseRandom nextU32 b cof rng = randomSpec baseRandom nextU32 b cof fuel rng := by
  unfold R.Jac.random
  simp only [Aff_getPointFromX_eq, Jac_isZero_eq]
  induction fuel generalizing rng with
  | zero => rfl
  | succ n ih =>
    unfold R.loopRet randomSpec
    simp only
    cases hgp : PP.Aff.getPointFromX b (baseRandom rng).2 ((nextU32 (baseRandom rng).1).2 % 2 != 0) with
    | none => simp only [ih]
    | some p =>
      by_cases hz : (cof p).isZero = true
      · simp only [hz, Bool.not_true, ih]; simp
      · have hz' : (cof p).isZero = false := by simpa using hz
        simp only [hz', Bool.not_false]; simp

end

/-! ## per group: cofactor scaling, generators (src/bls12_381/ec/g1.rs, ec/g2.rs) -/

theorem g1_cofactor_limbs :
    [0x8c00aaab0000aaab, 0x396c8c005555e156] = limbsOf Gen.G1_COFACTOR_LIMBS Gen.G1_COFACTOR := by decide +kernel

theorem g2_cofactor_limbs :
    [0xcf1c38e31c7238e5, 0x1616ec6e786f0c70, 0x21537e293a6691ae, 0xa628f1cb4d9e82ef, 0xa68a205b2e5a7ddf,
     0xcd91de4547085aba, 0x91d50792876a202, 0x5d543a95414e7f1]
      = limbsOf Gen.G2_COFACTOR_LIMBS Gen.G2_COFACTOR := by decide +kernel

theorem G1Affine_scaleByCofactor_eq (p : Aff Fq) :
    R.G1Affine.scaleByCofactor p = PP.Aff.mulBits p (bitsMSB (limbsOf Gen.G1_COFACTOR_LIMBS Gen.G1_COFACTOR)) := by
  unfold R.G1Affine.scaleByCofactor
  rw [Aff_mulBits_eq, g1_cofactor_limbs]

theorem G2Affine_scaleByCofactor_eq (p : Aff Fq2) :
    R.G2Affine.scaleByCofactor p = PP.Aff.mulBits p (bitsMSB (limbsOf Gen.G2_COFACTOR_LIMBS Gen.G2_COFACTOR)) := by
  unfold R.G2Affine.scaleByCofactor
  lowerInst2
  rw [Aff_mulBits_eq, g2_cofactor_limbs]

theorem G1Affine_getGenerator_eq :
    R.G1Affine.getGenerator = (⟨Fq.ofMont Gen.G1_GENERATOR_X, Fq.ofMont Gen.G1_GENERATOR_Y, false⟩ : Aff Fq) := rfl

theorem G2Affine_getGenerator_eq :
    R.G2Affine.getGenerator
      = (⟨⟨Fq.ofMont Gen.G2_GENERATOR_X_C0, Fq.ofMont Gen.G2_GENERATOR_X_C1⟩,
          ⟨Fq.ofMont Gen.G2_GENERATOR_Y_C0, Fq.ofMont Gen.G2_GENERATOR_Y_C1⟩, false⟩ : Aff Fq2) := rfl

theorem G1_one_eq :
    R.Jac.one R.G1Affine.getGenerator
      = (⟨Fq.ofMont Gen.G1_GENERATOR_X, Fq.ofMont Gen.G1_GENERATOR_Y, 1⟩ : Jac Fq) := by
  rw [Jac_one_eq, G1Affine_getGenerator_eq, toJac_finite]

theorem G2_one_eq :
    R.Jac.one R.G2Affine.getGenerator
      = (⟨⟨Fq.ofMont Gen.G2_GENERATOR_X_C0, Fq.ofMont Gen.G2_GENERATOR_X_C1⟩,
          ⟨Fq.ofMont Gen.G2_GENERATOR_Y_C0, Fq.ofMont Gen.G2_GENERATOR_Y_C1⟩, 1⟩ : Jac Fq2) := by
  rw [Jac_one_eq, G2Affine_getGenerator_eq, toJac_finite]

theorem G1_random_eq {Rng : Type} (fuel : Nat) (fqRandom : Rng → Rng × Fq) (nextU32 : Rng → Rng × Nat) (rng : Rng) :
    R.Jac.random fuel fqRandom nextU32 E.G1Affine.getCoeffB R.G1Affine.scaleByCofactor rng
      = randomSpec fqRandom nextU32 g1Codec.b
          (fun p => PP.Aff.mulBits p (bitsMSB (limbsOf Gen.G1_COFACTOR_LIMBS Gen.G1_COFACTOR))) fuel rng := by
  rw [Jac_random_eq, G1Affine_getCoeffB_eq, (funext G1Affine_scaleByCofactor_eq : R.G1Affine.scaleByCofactor = _)]

theorem G2_random_eq {Rng : Type} (fuel : Nat) (fqRandom : Rng → Rng × Fq) (nextU32 : Rng → Rng × Nat) (rng : Rng) :
    R.Jac.random fuel (R.Fq2.random fqRandom) nextU32 E.G2Affine.getCoeffB R.G2Affine.scaleByCofactor rng
      = randomSpec (R.Fq2.random fqRandom) nextU32 g2Codec.b
          (fun p => PP.Aff.mulBits p (bitsMSB (limbsOf Gen.G2_COFACTOR_LIMBS Gen.G2_COFACTOR))) fuel rng := by
  rw [Jac_random_eq, G2Affine_getCoeffB_eq, (funext G2Affine_scaleByCofactor_eq : R.G2Affine.scaleByCofactor = _)]

/-! ## `into_compressed` / `into_uncompressed` (defaults of `trait CurveAffine`, src/lib.rs) -/

theorem G1Affine_intoCompressed_eq (a : Aff Fq) :
    R.G1Affine.intoCompressed a = some (encodeCompressed g1Codec a) := G1Compressed_fromAffine_eq a
theorem G1Affine_intoUncompressed_eq (a : Aff Fq) :
    R.G1Affine.intoUncompressed a = some (encodeUncompressed g1Codec a) := G1Uncompressed_fromAffine_eq a
theorem G2Affine_intoCompressed_eq (a : Aff Fq2) :
    R.G2Affine.intoCompressed a = some (encodeCompressed g2Codec a) := G2Compressed_fromAffine_eq a
theorem G2Affine_intoUncompressed_eq (a : Aff Fq2) :
    R.G2Affine.intoUncompressed a = some (encodeUncompressed g2Codec a) := G2Uncompressed_fromAffine_eq a

/-! ## towers: `PartialOrd for Fq2`, `Field::random` -/

theorem Fq2_partialCmp_eq (a b : Fq2) : R.Fq2.partialCmp a b = some (A.Fq2.cmp a b) := rfl

/-- `a < b` through `partial_cmp` is the model's `Fq2.lt` -/
theorem Fq2_partialCmp_lt (a b : Fq2) :
    PP.Fq2.lt a b = decide (R.Fq2.partialCmp a b = some Ordering.lt) := by
  rw [Fq2_partialCmp_eq, Fq2_cmp_lt]
  simp only [Option.some.injEq]

theorem Fq2_random_eq {Rng : Type} (fqRandom : Rng → Rng × Fq) (rng : Rng) :
    R.Fq2.random fqRandom rng
      = ((fqRandom (fqRandom rng).1).1, (⟨(fqRandom rng).2, (fqRandom (fqRandom rng).1).2⟩ : Fq2)) := rfl

theorem Fq6_random_eq {Rng : Type} (fqRandom : Rng → Rng × Fq) (rng : Rng) :
    R.Fq6.random fqRandom rng
      = (let r1 := R.Fq2.random fqRandom rng
         let r2 := R.Fq2.random fqRandom r1.1
         let r3 := R.Fq2.random fqRandom r2.1
         (r3.1, (⟨r1.2, r2.2, r3.2⟩ : Fq6))) := rfl

theorem Fq12_random_eq {Rng : Type} (fqRandom : Rng → Rng × Fq) (rng : Rng) :
    R.Fq12.random fqRandom rng
      = (let r1 := R.Fq6.random fqRandom rng
         let r2 := R.Fq6.random fqRandom r1.1
         (r2.1, (⟨r1.2, r2.2⟩ : Fq12))) := rfl

/-! ## fq.rs / fr.rs (newtypes erased: limb lists, as in Derive.lean) -/

theorem Fq_transmute_eq (r : List Nat) : R.Fq.transmute r = r := rfl
theorem Fr_transmute_eq (r : List Nat) : R.Fr.transmute r = r := rfl
theorem Fr_default_eq : R.Fr.default = limbsOf 4 0 := PP.GenDerive.Fr_zero

end PP.GenRestLemmas
