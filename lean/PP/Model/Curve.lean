/-
Model of the `curve_impl!` macro (src/bls12_381/ec/mod.rs): Jacobian and affine points over any
coefficient field, branch for branch.  Core Lean only.
-/
import PP.Model.Tower

namespace PP

/-- `$projective { x, y, z }` -/
structure Jac (F : Type) where
  x : F
  y : F
  z : F
deriving DecidableEq

/-- `$affine { x, y, infinity }` -/
structure Aff (F : Type) where
  x : F
  y : F
  infinity : Bool
deriving DecidableEq

variable {F : Type} [Add F] [Sub F] [Mul F] [Neg F] [Zero F] [One F] [FieldOps F] [DecidableEq F]

namespace Jac

/-- `CurveProjective::zero()` -/
def zero : Jac F := ⟨0, 1, 0⟩

/-- `is_zero` -/
def isZero (p : Jac F) : Bool := FieldOps.isZero p.z

/-- `is_normalized` -/
def isNormalized (p : Jac F) : Bool := p.isZero || p.z = 1

/-- `PartialEq for $projective` -/
def beq (a b : Jac F) : Bool :=
  if a.isZero then b.isZero
  else if b.isZero then false
  else
    let z1 := sq a.z
    let z2 := sq b.z
    let tmp1 := a.x * z2
    let tmp2 := b.x * z1
    if tmp1 ≠ tmp2 then false
    else
      let z1 := z1 * a.z
      let z2 := z2 * b.z
      let z2 := z2 * a.y
      let z1 := z1 * b.y
      if z1 ≠ z2 then false else true

/-- `double` (dbl-2009-l) -/
def double (p : Jac F) : Jac F :=
  if p.isZero then p else
    let a := sq p.x
    let b := sq p.y
    let c := sq b
    let d := dbl (((sq (p.x + b)) - a) - c)
    let e := dbl a + a
    let f := sq e
    let z3 := dbl (p.z * p.y)
    let x3 := (f - d) - d
    let c8 := dbl (dbl (dbl c))
    let y3 := ((d - x3) * e) - c8
    ⟨x3, y3, z3⟩

/-- `add_assign` (add-2007-bl) -/
def add (p q : Jac F) : Jac F :=
  if p.isZero then q
  else if q.isZero then p
  else
    let z1z1 := sq p.z
    let z2z2 := sq q.z
    let u1 := p.x * z2z2
    let u2 := q.x * z1z1
    let s1 := (p.y * q.z) * z2z2
    let s2 := (q.y * p.z) * z1z1
    if u1 = u2 ∧ s1 = s2 then double p
    else
      let h := u2 - u1
      let i := sq (dbl h)
      let j := h * i
      let r := dbl (s2 - s1)
      let v := u1 * i
      let x3 := ((sq r - j) - v) - v
      let s1j := dbl (s1 * j)
      let y3 := ((v - x3) * r) - s1j
      let z3 := ((sq (p.z + q.z) - z1z1) - z2z2) * h
      ⟨x3, y3, z3⟩

/-- `add_assign_mixed` (madd-2007-bl) -/
def addMixed (p : Jac F) (q : Aff F) : Jac F :=
  if q.infinity then p
  else if p.isZero then ⟨q.x, q.y, 1⟩
  else
    let z1z1 := sq p.z
    let u2 := q.x * z1z1
    let s2 := (q.y * p.z) * z1z1
    if p.x = u2 ∧ p.y = s2 then double p
    else
      let h := u2 - p.x
      let hh := sq h
      let i := dbl (dbl hh)
      let j := h * i
      let r := dbl (s2 - p.y)
      let v := p.x * i
      let x3 := ((sq r - j) - v) - v
      let j2 := dbl (j * p.y)
      let y3 := ((v - x3) * r) - j2
      let z3 := (sq (p.z + h) - z1z1) - hh
      ⟨x3, y3, z3⟩

/-- `negate` -/
def neg (p : Jac F) : Jac F := if p.isZero then p else ⟨p.x, -p.y, p.z⟩

/-- `sub_assign` (trait default) -/
def sub (p q : Jac F) : Jac F := add p (neg q)

end Jac

namespace Aff

/-- `CurveAffine::zero()` -/
def zero : Aff F := ⟨0, 1, true⟩

/-- `negate` -/
def neg (p : Aff F) : Aff F := if p.infinity then p else ⟨p.x, -p.y, false⟩

/-- `From<$affine> for $projective` -/
def toJac (p : Aff F) : Jac F := if p.infinity then Jac.zero else ⟨p.x, p.y, 1⟩

/-- `is_on_curve` with `b = get_coeff_b()` -/
def isOnCurve (b : F) (p : Aff F) : Bool :=
  if p.infinity then true
  else
    let y2 := sq p.y
    let x3b := (sq p.x * p.x) + b
    y2 = x3b

end Aff

namespace Jac

/-- `sub_assign_mixed` (trait default) -/
def subMixed (p : Jac F) (q : Aff F) : Jac F := addMixed p q.neg

/-- `From<$projective> for $affine`; the `unwrap` of the inverse is the `none` outcome -/
def toAffine (p : Jac F) : Option (Aff F) :=
  if p.isZero then some Aff.zero
  else if p.z = 1 then some ⟨p.x, p.y, false⟩
  else
    match FieldOps.inv p.z with
    | none => none
    | some zinv =>
      let zinv2 := sq zinv
      let x := p.x * zinv2
      let zinv3 := zinv2 * zinv
      let y := p.y * zinv3
      some ⟨x, y, false⟩

/-- first pass of `batch_normalization`: running products of the non-normalised `z` -/
def bnProds : List (Jac F) → F → List F
  | [], _ => []
  | g :: gs, tmp =>
    if g.isNormalized then bnProds gs tmp
    else let t := tmp * g.z; t :: bnProds gs t

/-- second pass, over the reversed list: returns the list (still reversed) with `z := 1/z` -/
def bnInv : List (Jac F) → List F → F → List (Jac F)
  | [], _, _ => []
  | g :: gs, ss, tmp =>
    if g.isNormalized then g :: bnInv gs ss tmp
    else
      match ss with
      | [] => g :: bnInv gs [] tmp   -- unreachable: the zip would stop
      | s :: ss' =>
        let newtmp := tmp * g.z
        let g' : Jac F := ⟨g.x, g.y, tmp * s⟩
        g' :: bnInv gs ss' newtmp

/-- third pass -/
def bnAffine (g : Jac F) : Jac F :=
  if g.isNormalized then g
  else
    let z := sq g.z
    let x := g.x * z
    let z := z * g.z
    let y := g.y * z
    ⟨x, y, 1⟩

/-- `batch_normalization`; `none` = the `unwrap` of `tmp.inverse()` panics -/
def batchNormalize (v : List (Jac F)) : Option (List (Jac F)) :=
  let prod := bnProds v 1
  let tmp := prod.getLastD 1
  match FieldOps.inv tmp with
  | none => none
  | some tinv =>
    -- prod.into_iter().rev().skip(1).chain(Some(one))
    let ss := (prod.reverse.drop 1) ++ [1]
    let v2 := (bnInv v.reverse ss tinv).reverse
    some (v2.map bnAffine)

end Jac

/-! ## scalar multiplication -/

/-- `$affine::mul_bits` -/
def Aff.mulBits (p : Aff F) (bits : List Bool) : Jac F :=
  bits.foldl (fun res i => let res := res.double; if i then res.addMixed p else res) Jac.zero

/-- `CurveAffine::mul(by)` with `by` an `FrRepr` (4 limbs) -/
def Aff.mul (p : Aff F) (k : Nat) : Jac F := p.mulBits (bitsMSB (limbsOf 4 k))

/-- `CurveProjective::mul_assign` -/
def Jac.mulLoop (p : Jac F) : List Bool → Jac F × Bool → Jac F × Bool
  | [], st => st
  | i :: bs, (res, found) =>
    let res1 := if found then res.double else res
    let found1 := if found then found else i
    let res2 := if i then res1.add p else res1
    Jac.mulLoop p bs (res2, found1)

def Jac.mulAssign (p : Jac F) (k : Nat) : Jac F :=
  (Jac.mulLoop p (bitsMSB (limbsOf 4 k)) (Jac.zero, false)).1

/-- `is_in_correct_subgroup_assuming_on_curve`: `self.mul(Fr::char()).is_zero()` -/
def Aff.inSubgroupAssumingOnCurve (p : Aff F) : Bool := (p.mul Gen.r).isZero

/-- `SubgroupCheck::in_subgroup` -/
def Aff.inSubgroup (b : F) (p : Aff F) : Bool := p.isOnCurve b && p.inSubgroupAssumingOnCurve

/-- `get_point_from_x` -/
def Aff.getPointFromX [SqrtOps F] (b : F) (x : F) (greatest : Bool) : Option (Aff F) :=
  let x3b := (sq x * x) + b
  match SqrtOps.sqrt x3b with
  | none => none
  | some y =>
    let negy := -y
    some ⟨x, if (SqrtOps.lt y negy) != greatest then y else negy, false⟩

/-- `CurveProjective::random` as a function of the RNG state (`baseRandom` = `$basefield::random`, `nextU32` =
    `RngCore::next_u32`; both return the new state first): draw an abscissa, draw the sign, take the point with
    that abscissa if there is one, scale by the cofactor (`cof`), retry on failure or on the identity.
    `fuel` bounds the number of attempts (`none` = no point found within `fuel`). -/
def Jac.randomSpec {Rng : Type} [SqrtOps F] (baseRandom : Rng → Rng × F) (nextU32 : Rng → Rng × Nat) (b : F)
    (cof : Aff F → Jac F) : Nat → Rng → Option (Rng × Jac F)
  | 0, _ => none
  | fuel + 1, rng =>
    let r1 := baseRandom rng
    let r2 := nextU32 r1.1
    match PP.Aff.getPointFromX b r1.2 (r2.2 % 2 != 0) with
    | none => Jac.randomSpec baseRandom nextU32 b cof fuel r2.1
    | some p =>
      if (cof p).isZero then Jac.randomSpec baseRandom nextU32 b cof fuel r2.1 else some (r2.1, cof p)

end PP
