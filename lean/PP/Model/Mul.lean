/-
Model of the table-driven scalar multiplications, wNAF (src/wnaf.rs) and multi-scalar
multiplication (src/bls12_381/ec/mod.rs).  Core Lean only.
Every indexing / `unwrap` / `assert!` that can panic in the Rust is a `none` here.
-/
import PP.Model.Curve
import PP.Gen.Curve

namespace PP

variable {F : Type} [Add F] [Sub F] [Mul F] [Neg F] [Zero F] [One F] [FieldOps F] [DecidableEq F]

def Jac.doubleN (p : Jac F) : Nat → Jac F
  | 0 => p
  | n + 1 => Jac.doubleN p.double n

/-- limb `j` of a 256-bit scalar -/
def limb (k j : Nat) : Nat := (k >>> (64 * j)) % 2 ^ 64

/-! ## precomp_3 / mul_precomp_3 -/

/-- `precomp_3`: `[2^64·A, 2^128·A, 2^192·A]` as affine points -/
def Aff.precomp3 (a : Aff F) : Option (List (Aff F)) := do
  let p0 := a.toJac
  let p1 := p0.doubleN 64
  let a1 ← p1.toAffine
  let p2 := p1.doubleN 64
  let a2 ← p2.toAffine
  let p3 := p2.doubleN 64
  let a3 ← p3.toAffine
  pure [a1, a2, a3]

/-- the 16-entry table built at the start of `mul_precomp_3` -/
def Aff.precomp3Table (a : Aff F) (pre : List (Aff F)) : Option (Array (Jac F)) := do
  let pre0 ← pre[0]?
  let pre1 ← pre[1]?
  let pre2 ← pre[2]?
  let t0 : Jac F := Jac.zero
  let t1 := a.toJac
  let t2 := pre0.toJac
  let t3 := t2.addMixed a
  let t4 := pre1.toJac
  let t5 := t4.addMixed a
  let t6 := t2.addMixed pre1
  let t7 := t6.addMixed a
  let t8 := pre2.toJac
  let lo := #[t0, t1, t2, t3, t4, t5, t6, t7]
  -- for i in 9..16 { precomp.push(precomp[i - 8]); precomp[i].add_assign_mixed(&pre[2]); }
  let hi := (lo.extract 1 8).map (fun t => t.addMixed pre2)
  pure (lo ++ #[t8] ++ hi)

def nibbleTop (b0 b1 b2 b3 : Nat) : Nat :=
  ((b3 >>> 60) &&& 8) ||| ((b2 >>> 61) &&& 4) ||| ((b1 >>> 62) &&& 2) ||| ((b0 >>> 63) &&& 1)

def nibbleAt (b0 b1 b2 b3 i : Nat) : Nat :=
  (((b3 >>> i) <<< 3) &&& 8) ||| (((b2 >>> i) <<< 2) &&& 4) ||| (((b1 >>> i) <<< 1) &&& 2)
    ||| ((b0 >>> i) &&& 1)

def mulPrecomp3Loop (tbl : Array (Jac F)) (b0 b1 b2 b3 : Nat) : Nat → Jac F → Option (Jac F)
  | 0, res => some res
  | i + 1, res => do
    let res := res.double
    let e ← tbl[nibbleAt b0 b1 b2 b3 i]?
    mulPrecomp3Loop tbl b0 b1 b2 b3 i (res.add e)

/-- `mul_precomp_3(other, pre)` -/
def Aff.mulPrecomp3 (a : Aff F) (k : Nat) (pre : List (Aff F)) : Option (Jac F) := do
  let tbl ← a.precomp3Table pre
  let b0 := limb k 0; let b1 := limb k 1; let b2 := limb k 2; let b3 := limb k 3
  let res ← tbl[nibbleTop b0 b1 b2 b3]?
  mulPrecomp3Loop tbl b0 b1 b2 b3 63 res

/-! ## precomp_256 / mul_precomp_256 -/

/-- one doubling stage of `precomp_256`: from the table for pieces `< L` to the table for `< 2L` -/
def precomp256Stage (pre : List (Aff F)) (pw : Jac F) : Option (List (Aff F)) := do
  let top ← pw.toAffine
  let rest ← (pre.drop 1).mapM (fun e => (e.toJac.addMixed top).toAffine)
  pure (pre ++ [top] ++ rest)

def precomp256Loop : Nat → List (Aff F) → Jac F → Option (List (Aff F))
  | 0, pre, _ => some pre
  | n + 1, pre, pw => do
    let pre' ← precomp256Stage pre pw
    -- `if piece_length < 128 { 32 doublings }`: the last stage (n = 0) skips them
    let pw' := if n = 0 then pw else pw.doubleN 32
    precomp256Loop n pre' pw'

/-- `precomp_256`: the 256-entry table `pre[i] = (Σ_{b ∈ bits i} 2^{32 b})·A` -/
def Aff.precomp256 (a : Aff F) : Option (List (Aff F)) :=
  precomp256Loop 8 [Aff.zero] a.toJac

def byteAt (b0 b1 b2 b3 i : Nat) : Nat :=
  ((b3 >>> (i + 25)) &&& 128) ||| (((b3 >>> i) <<< 6) &&& 64) |||
  ((b2 >>> (i + 27)) &&& 32) ||| (((b2 >>> i) <<< 4) &&& 16) |||
  ((b1 >>> (i + 29)) &&& 8) ||| (((b1 >>> i) <<< 2) &&& 4) |||
  ((b0 >>> (i + 31)) &&& 2) ||| ((b0 >>> i) &&& 1)

def byteTop (b0 b1 b2 b3 : Nat) : Nat :=
  ((b3 >>> 56) &&& 128) ||| ((b3 >>> 25) &&& 64) ||| ((b2 >>> 58) &&& 32) ||| ((b2 >>> 27) &&& 16) |||
  ((b1 >>> 60) &&& 8) ||| ((b1 >>> 29) &&& 4) ||| ((b0 >>> 62) &&& 2) ||| ((b0 >>> 31) &&& 1)

def mulPrecomp256Loop (pre : Array (Aff F)) (b0 b1 b2 b3 : Nat) : Nat → Jac F → Option (Jac F)
  | 0, res => some res
  | i + 1, res => do
    let res := res.double
    let e ← pre[byteAt b0 b1 b2 b3 i]?
    mulPrecomp256Loop pre b0 b1 b2 b3 i (res.addMixed e)

/-- `mul_precomp_256(other, pre)` -/
def Aff.mulPrecomp256 (_a : Aff F) (k : Nat) (pre : Array (Aff F)) : Option (Jac F) := do
  let b0 := limb k 0; let b1 := limb k 1; let b2 := limb k 2; let b3 := limb k 3
  let e ← pre[byteTop b0 b1 b2 b3]?
  mulPrecomp256Loop pre b0 b1 b2 b3 31 e.toJac

/-! ## wNAF -/

/-- `wnaf_table`: truncates the buffer, then pushes `base, 3·base, 5·base, …` (`2^(w-1)` entries) -/
def wnafTableLoop (dbl : Jac F) : Nat → Jac F → List (Jac F) → List (Jac F)
  | 0, _, acc => acc.reverse
  | n + 1, base, acc => wnafTableLoop dbl n (base.add dbl) (base :: acc)

def wnafTable (old : List (Jac F)) (base : Jac F) (window : Nat) : List (Jac F) :=
  let table := old.take 0
  table ++ wnafTableLoop base.double (2 ^ (window - 1)) base []

/-- one iteration of the `while !c.is_zero()` loop of `wnaf_form` on a 256-bit repr -/
def wnafStep (c : Nat) (window : Nat) : Int × Nat :=
  if c % 2 = 1 then
    let u0 : Int := ((c % 2 ^ 64) % 2 ^ (window + 1) : Nat)
    let u : Int := if u0 > 2 ^ window then u0 - 2 ^ (window + 1) else u0
    let c' := if u > 0 then (c + 2 ^ 256 - u.toNat) % 2 ^ 256     -- sub_noborrow
              else (c + (-u).toNat) % 2 ^ 256                       -- add_nocarry
    (u, c' / 2)
  else (0, c / 2)

def wnafFormLoop (window : Nat) : Nat → Nat → List Int → Option (List Int)
  | 0, c, acc => if c = 0 then some acc.reverse else none
  | fuel + 1, c, acc =>
    if c = 0 then some acc.reverse
    else let (u, c') := wnafStep c window; wnafFormLoop window fuel c' (u :: acc)

/-- `wnaf_form` for `FrRepr` (4 limbs).  `none` = did not terminate within 300 iterations. -/
def wnafForm (old : List Int) (c : Nat) (window : Nat) : Option (List Int) :=
  (wnafFormLoop window 300 (c % 2 ^ 256) []).map (fun l => old.take 0 ++ l)

def wnafExpLoop (table : Array (Jac F)) : List Int → Jac F × Bool → Option (Jac F)
  | [], (res, _) => some res
  | n :: ns, (res, found) => do
    let res := if found then res.double else res
    if n ≠ 0 then
      if n > 0 then
        let e ← table[(n / 2).toNat]?
        wnafExpLoop table ns (res.add e, true)
      else
        let e ← table[((-n) / 2).toNat]?
        wnafExpLoop table ns (res.sub e, true)
    else wnafExpLoop table ns (res, found)

/-- `wnaf_exp(table, wnaf)` -/
def wnafExp (table : List (Jac F)) (wnaf : List Int) : Option (Jac F) :=
  wnafExpLoop table.toArray wnaf.reverse (Jac.zero, false)

/-- the reusable context `Wnaf<(), Vec<G>, Vec<i64>>` -/
structure WnafCtx (F : Type) where
  base : List (Jac F)
  scalar : List Int

def WnafCtx.new : WnafCtx F := ⟨[], []⟩

def recommendForScalar (ladder : List (Nat × Nat)) (dflt : Nat) (k : Nat) : Nat :=
  let numBits := if k = 0 then 0 else k.log2 + 1
  match ladder.find? (fun (t, _) => numBits ≥ t) with
  | some (_, w) => w
  | none => dflt

def recommendForNumScalars (tbl : List Nat) (base : Nat) (n : Nat) : Nat :=
  base + (tbl.takeWhile (fun r => n > r)).length

/-- which group's empirical tables to use -/
structure WnafRec where
  ladder : List (Nat × Nat)
  dflt : Nat
  tbl : List Nat
  base : Nat

def g1Rec : WnafRec := ⟨Gen.G1_WNAF_SCALAR_LADDER, Gen.G1_WNAF_SCALAR_DEFAULT, Gen.G1_WNAF_RECOMMENDATIONS, Gen.G1_WNAF_RECOMMEND_BASE⟩
def g2Rec : WnafRec := ⟨Gen.G2_WNAF_SCALAR_LADDER, Gen.G2_WNAF_SCALAR_DEFAULT, Gen.G2_WNAF_RECOMMENDATIONS, Gen.G2_WNAF_RECOMMEND_BASE⟩

/-- `wnaf.base(b, n).scalar(k)`: result and the context afterwards -/
def WnafCtx.baseThenScalar (rc : WnafRec) (ctx : WnafCtx F) (b : Jac F) (numScalars k : Nat) :
    Option (Jac F × WnafCtx F) := do
  let w := recommendForNumScalars rc.tbl rc.base numScalars
  let tb := wnafTable ctx.base b w
  let sc ← wnafForm ctx.scalar k w
  let res ← wnafExp tb sc
  pure (res, ⟨tb, sc⟩)

/-- `wnaf.scalar(k).base(b)` -/
def WnafCtx.scalarThenBase (rc : WnafRec) (ctx : WnafCtx F) (k : Nat) (b : Jac F) :
    Option (Jac F × WnafCtx F) := do
  let w := recommendForScalar rc.ladder rc.dflt (k % 2 ^ 256)
  let sc ← wnafForm ctx.scalar k w
  let tb := wnafTable ctx.base b w
  let res ← wnafExp tb sc
  pure (res, ⟨tb, sc⟩)

/-! ## Pippenger -/

/-- the bucket index of scalar `s` (4 limbs) in the window whose top bit is `bsi` -/
def pipDigit (s : List Nat) (bsi window : Nat) : Nat :=
  let edge := window - 1
  let mask := 2 ^ window - 1
  let wordIndex := bsi >>> 6
  let bitIndex := bsi &&& 63
  if bitIndex < edge then
    if wordIndex = 0 then
      let smallerMask := (1 <<< (bitIndex + 1)) - 1
      (s.getD wordIndex 0) &&& smallerMask
    else
      let highOrderMask := (1 <<< (bitIndex + 1)) - 1
      let highOrderShift := edge - bitIndex
      let lowOrderMask := (1 <<< highOrderShift) - 1
      let lowOrderShift := 64 - highOrderShift
      ((((s.getD wordIndex 0) &&& highOrderMask) <<< highOrderShift) % 2 ^ 64) |||
        (((s.getD (wordIndex - 1) 0) >>> lowOrderShift) &&& lowOrderMask)
  else
    let shift := bitIndex - edge
    ((s.getD wordIndex 0) >>> shift) &&& mask

/-- does the `assert!` fire for scalar `s` in this window -/
def pipAssertFails (s : List Nat) (bsi window : Nat) : Bool :=
  let edge := window - 1
  let bitIndex := bsi &&& 63
  if bitIndex < edge then false else (bsi == 255 && (s.getD 3 0) >>> 63 != 0)

/-- accumulation of one window: buckets and `max_bucket` -/
def pipAccumulate (bsi window : Nat) :
    List (Aff F × List Nat) → Array (Jac F) × Nat → Option (Array (Jac F) × Nat)
  | [], st => some st
  | (p, s) :: rest, (buckets, maxB) =>
    if pipAssertFails s bsi window then none
    else
      let idx := pipDigit s bsi window
      if idx > 0 then
        match buckets[idx]? with
        | none => none
        | some b => pipAccumulate bsi window rest (buckets.set! idx (b.addMixed p), max maxB idx)
      else pipAccumulate bsi window rest (buckets, maxB)

/-- `for i in (1..max_bucket).rev()` -/
def pipReduceLoop : Nat → Array (Jac F) × Jac F → Option (Array (Jac F) × Jac F)
  | 0, st => some st
  | i + 1, (buckets, res) =>
    match buckets[i + 1 + 1]?, buckets[i + 1]? with
    | some temp, some bi =>
      let bi' := bi.add temp
      let res' := res.add bi'
      let buckets := (buckets.set! (i + 1) bi').set! (i + 1 + 1) Jac.zero
      pipReduceLoop i (buckets, res')
    | _, _ => none

def pipReduce (buckets : Array (Jac F)) (res : Jac F) (maxB : Nat) : Option (Array (Jac F) × Jac F) := do
  let bm ← buckets[maxB]?
  let res := res.add bm
  let (buckets, res) ← pipReduceLoop (maxB - 1) (buckets, res)
  if buckets.size ≤ 1 then none else
  pure (buckets.set! 1 Jac.zero, res)

def pipLoop (pairs : List (Aff F × List Nat)) (window : Nat) :
    Nat → Nat → Nat → Array (Jac F) → Jac F → Option (Jac F)
  | 0, _, _, _, _ => none
  | fuel + 1, bsi, numDoubles, buckets, res => do
    let res := res.doubleN numDoubles
    let (buckets, maxB) ← pipAccumulate bsi window pairs (buckets, 0)
    let (buckets, res) ← pipReduce buckets res maxB
    if bsi < window then pure res
    else
      let bsi' := bsi - window
      let nd := if bsi' < window - 1 then bsi' + 1 else window
      pipLoop pairs window fuel bsi' nd buckets res

/-- `sum_of_products_pippinger(points, scalars, window)`; `none` = panic
    (assert, `window = 0` underflow, index out of range). -/
def sumOfProductsPippinger (points : List (Aff F)) (scalars : List Nat) (window : Nat) : Option (Jac F) :=
  if window = 0 then none else
  let pairs := List.zip points (scalars.map (limbsOf 4))
  pipLoop pairs window 257 255 0 (Array.replicate (2 ^ window) Jac.zero) Jac.zero

/-- `find_pippinger_window` -/
def findPippingerWindowAux (n : Nat) : List (Nat × Nat) → Nat → Nat
  | [], prev => prev
  | (b, w) :: rest, prev => if b > n then prev else findPippingerWindowAux n rest w

def findPippingerWindow (n : Nat) : Nat :=
  match Gen.PIPPINGER_BOUNDARIES with
  | [] => 0
  | (_, w0) :: rest => findPippingerWindowAux n rest w0

/-- `sum_of_products` -/
def sumOfProducts (points : List (Aff F)) (scalars : List Nat) : Option (Jac F) :=
  sumOfProductsPippinger points scalars (findPippingerWindow (min points.length scalars.length))

def sopPrecompInner (pre : Array (Aff F)) (i : Nat) : List Nat → Nat → Jac F → Option (Jac F)
  | [], _, res => some res
  | k :: ks, j, res => do
    let byte := byteAt (limb k 0) (limb k 1) (limb k 2) (limb k 3) i
    let e ← pre[(j <<< 8) + byte]?
    sopPrecompInner pre i ks (j + 1) (res.addMixed e)

def sopPrecompOuter (pre : Array (Aff F)) (ks : List Nat) : Nat → Jac F → Option (Jac F)
  | 0, res => some res
  | i + 1, res => do
    let res ← sopPrecompInner pre i ks 0 res.double
    sopPrecompOuter pre ks i res

/-- `sum_of_products_precomp_256(points, scalars, pre)` -/
def sumOfProductsPrecomp256 (points : List (Aff F)) (scalars : List Nat) (pre : Array (Aff F)) : Option (Jac F) :=
  let n := min points.length scalars.length
  sopPrecompOuter pre (scalars.take n) 32 Jac.zero

end PP
