/-
Model of the point encodings (src/bls12_381/ec/g1.rs, g2.rs: `EncodedPoint` impls) and of
stream (de)serialization (src/serdes.rs).  Core Lean only.
-/
import PP.Model.Mul

namespace PP

abbrev Bytes := List UInt8

/-- big-endian `len`-byte string of `n` (I2OSP; high bits dropped) -/
def beBytes : Nat → Nat → Bytes
  | 0, _ => []
  | len + 1, n => UInt8.ofNat ((n >>> (8 * len)) % 256) :: beBytes len n

/-- big-endian integer of a byte string (OS2IP) -/
def beToNat (bs : Bytes) : Nat := bs.foldl (fun acc b => acc * 256 + b.toNat) 0

def leBytes : Nat → Nat → Bytes
  | 0, _ => []
  | len + 1, n => UInt8.ofNat (n % 256) :: leBytes len (n / 256)

def leToNat : Bytes → Nat
  | [] => 0
  | b :: bs => b.toNat + 256 * leToNat bs

inductive DecodeErr
  | compressionMode
  | unexpectedInfo
  | coord (which : String)
  | notOnCurve
  | notInSubgroup
  | badLength
deriving DecidableEq, Repr

def DecodeErr.toString : DecodeErr → String
  | .compressionMode => "UnexpectedCompressionMode"
  | .unexpectedInfo => "UnexpectedInformation"
  | .coord w => "CoordinateDecodingError(" ++ w ++ ")"
  | .notOnCurve => "NotOnCurve"
  | .notInSubgroup => "NotInSubgroup"
  | .badLength => "BadLength"

/-- `Fq::from_repr(FqRepr::read_be(48 bytes))` -/
def Fq.fromBytes (bs : Bytes) : Option Fq :=
  let n := beToNat bs
  if h : n < Gen.q then some ⟨n, h⟩ else none

def Fq.toBytes (a : Fq) : Bytes := beBytes 48 a.v

/-- `Fr::from_repr(FrRepr::read_be(32 bytes))` -/
def Fr.fromBytes (bs : Bytes) : Option Fr :=
  let n := beToNat bs
  if h : n < Gen.r then some ⟨n, h⟩ else none

def Fr.toBytes (a : Fr) : Bytes := beBytes 32 a.v

/-- how one coordinate is laid out on the wire -/
structure Codec (F : Type) where
  size : Nat
  /-- decode a coordinate called `name` ("x" / "y"); the error is the description string -/
  read : String → Bytes → Except String F
  write : F → Bytes
  b : F

def g1Codec : Codec Fq where
  size := 48
  read name bs := match Fq.fromBytes bs with
    | some a => .ok a
    | none => .error (name ++ " coordinate")
  write := Fq.toBytes
  b := Fq.ofMont Gen.B_COEFF

def g2Codec : Codec Fq2 where
  size := 96
  read name bs :=
    -- wire order c1, c0; the struct literal evaluates `c0` first
    let c1b := bs.take 48
    let c0b := (bs.drop 48).take 48
    match Fq.fromBytes c0b with
    | none => .error (name ++ " coordinate (c0)")
    | some c0 =>
      match Fq.fromBytes c1b with
      | none => .error (name ++ " coordinate (c1)")
      | some c1 => .ok ⟨c0, c1⟩
  write a := Fq.toBytes a.c1 ++ Fq.toBytes a.c0
  b := ⟨Fq.ofMont Gen.B_COEFF, Fq.ofMont Gen.B_COEFF⟩

variable {F : Type} [Add F] [Sub F] [Mul F] [Neg F] [Zero F] [One F] [FieldOps F] [DecidableEq F] [SqrtOps F]

def maskFirst (bs : Bytes) (m : UInt8) : Bytes :=
  match bs with
  | [] => []
  | b :: rest => (b &&& m) :: rest

/-- `$uncompressed::into_affine_unchecked` -/
def decodeUncompressedUnchecked (cc : Codec F) (bs : Bytes) : Except DecodeErr (Aff F) :=
  if bs.length ≠ 2 * cc.size then .error .badLength else
  let b0 := bs.headD 0
  if b0 &&& 0x80 ≠ 0 then .error .compressionMode
  else if b0 &&& 0x40 ≠ 0 then
    if (maskFirst bs 0x3f).all (· == 0) then .ok Aff.zero else .error .unexpectedInfo
  else if b0 &&& 0x20 ≠ 0 then .error .unexpectedInfo
  else
    let copy := maskFirst bs 0x1f
    match cc.read "x" (copy.take cc.size) with
    | .error e => .error (.coord e)
    | .ok x =>
      match cc.read "y" ((copy.drop cc.size).take cc.size) with
      | .error e => .error (.coord e)
      | .ok y => .ok ⟨x, y, false⟩

/-- `$uncompressed::into_affine` -/
def decodeUncompressed (cc : Codec F) (bs : Bytes) : Except DecodeErr (Aff F) :=
  match decodeUncompressedUnchecked cc bs with
  | .error e => .error e
  | .ok a =>
    if !a.isOnCurve cc.b then .error .notOnCurve
    else if !a.inSubgroup cc.b then .error .notInSubgroup
    else .ok a

/-- `$compressed::into_affine_unchecked` -/
def decodeCompressedUnchecked (cc : Codec F) (bs : Bytes) : Except DecodeErr (Aff F) :=
  if bs.length ≠ cc.size then .error .badLength else
  let b0 := bs.headD 0
  if b0 &&& 0x80 = 0 then .error .compressionMode
  else if b0 &&& 0x40 ≠ 0 then
    if (maskFirst bs 0x3f).all (· == 0) then .ok Aff.zero else .error .unexpectedInfo
  else
    let greatest := b0 &&& 0x20 ≠ 0
    let copy := maskFirst bs 0x1f
    match cc.read "x" copy with
    | .error e => .error (.coord e)
    | .ok x =>
      match Aff.getPointFromX cc.b x greatest with
      | none => .error .notOnCurve
      | some a => .ok a

/-- `$compressed::into_affine` -/
def decodeCompressed (cc : Codec F) (bs : Bytes) : Except DecodeErr (Aff F) :=
  match decodeCompressedUnchecked cc bs with
  | .error e => .error e
  | .ok a => if !a.inSubgroup cc.b then .error .notInSubgroup else .ok a

def orFirst (bs : Bytes) (m : UInt8) : Bytes :=
  match bs with
  | [] => []
  | b :: rest => (b ||| m) :: rest

/-- `$uncompressed::from_affine` -/
def encodeUncompressed (cc : Codec F) (a : Aff F) : Bytes :=
  if a.infinity then orFirst (List.replicate (2 * cc.size) 0) 0x40
  else cc.write a.x ++ cc.write a.y

/-- `$compressed::from_affine` -/
def encodeCompressed (cc : Codec F) (a : Aff F) : Bytes :=
  let res :=
    if a.infinity then orFirst (List.replicate cc.size 0) 0x40
    else
      let res := cc.write a.x
      let negy := -a.y
      if SqrtOps.lt negy a.y then orFirst res 0x20 else res
  orFirst res 0x80

/-! ## serdes.rs -/

inductive SerErr
  | eof
  | compressness
  | notInField
  | decode (e : DecodeErr)
  | panic
deriving DecidableEq, Repr

def SerErr.toString : SerErr → String
  | .eof => "eof"
  | .compressness => "compressness"
  | .notInField => "notInField"
  | .decode e => "decode:" ++ e.toString
  | .panic => "PANIC"

/-- `read_exact(n)` on a byte-list reader: value and rest -/
def readExact (n : Nat) (rd : Bytes) : Except SerErr (Bytes × Bytes) :=
  if rd.length < n then .error .eof else .ok (rd.take n, rd.drop n)

/-- `Fr::serialize` -/
def serFr (a : Fr) : Bytes := Fr.toBytes a

/-- `Fr::deserialize` -/
def deserFr (rd : Bytes) : Except SerErr (Fr × Bytes) :=
  match readExact 32 rd with
  | .error e => .error e
  | .ok (bs, rest) =>
    match Fr.fromBytes bs with
    | none => .error .notInField
    | some a => .ok (a, rest)

def Fq12.coeffs (a : Fq12) : List Fq :=
  [a.c0.c0.c0, a.c0.c0.c1, a.c0.c1.c0, a.c0.c1.c1, a.c0.c2.c0, a.c0.c2.c1,
   a.c1.c0.c0, a.c1.c0.c1, a.c1.c1.c0, a.c1.c1.c1, a.c1.c2.c0, a.c1.c2.c1]

/-- `Fq12::serialize` -/
def serFq12 (a : Fq12) : Bytes := (a.coeffs.map Fq.toBytes).flatten

def readFqs : Nat → Bytes → Except SerErr (List Fq × Bytes)
  | 0, rd => .ok ([], rd)
  | n + 1, rd =>
    match readExact 48 rd with
    | .error e => .error e
    | .ok (bs, rest) =>
      match Fq.fromBytes bs with
      | none => .error .notInField
      | some a =>
        match readFqs n rest with
        | .error e => .error e
        | .ok (as, rest') => .ok (a :: as, rest')

/-- `Fq12::deserialize` -/
def deserFq12 (rd : Bytes) : Except SerErr (Fq12 × Bytes) :=
  match readFqs 12 rd with
  | .error e => .error e
  | .ok ([a, b, c, d, e, f, g, h, i, j, k, l], rest) =>
    .ok (⟨⟨⟨a, b⟩, ⟨c, d⟩, ⟨e, f⟩⟩, ⟨⟨g, h⟩, ⟨i, j⟩, ⟨k, l⟩⟩⟩, rest)
  | .ok _ => .error .panic

/-- `SerDes::serialize` for `G1Affine`/`G2Affine` -/
def serAffine (cc : Codec F) (a : Aff F) (compressed : Bool) : Bytes :=
  if compressed then encodeCompressed cc a else encodeUncompressed cc a

/-- `SerDes::serialize` for `G1`/`G2`; `none` = `into_affine` panicked -/
def serJac (cc : Codec F) (p : Jac F) (compressed : Bool) : Option Bytes :=
  p.toAffine.map (fun a => serAffine cc a compressed)

/-- `SerDes::deserialize` for the affine types -/
def deserAffine (cc : Codec F) (rd : Bytes) (compressed : Bool) : Except SerErr (Aff F × Bytes) :=
  match readExact cc.size rd with
  | .error e => .error e
  | .ok (buf, rest) =>
    if ((buf.headD 0 &&& 0x80) == 0x80) != compressed then .error .compressness
    else if compressed then
      match decodeCompressed cc buf with
      | .error e => .error (.decode e)
      | .ok a => .ok (a, rest)
    else
      match readExact cc.size rest with
      | .error e => .error e
      | .ok (buf2, rest2) =>
        match decodeUncompressed cc (buf ++ buf2) with
        | .error e => .error (.decode e)
        | .ok a => .ok (a, rest2)

/-- `SerDes::deserialize` for the projective types -/
def deserJac (cc : Codec F) (rd : Bytes) (compressed : Bool) : Except SerErr (Jac F × Bytes) :=
  match deserAffine cc rd compressed with
  | .error e => .error e
  | .ok (a, rest) => .ok (a.toJac, rest)

end PP
