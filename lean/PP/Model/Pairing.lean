/-
Model of the ate pairing (src/bls12_381/mod.rs, the default methods of `Engine` in src/lib.rs).
Core Lean only.
-/
import PP.Model.Map

namespace PP

/-- `G2Prepared` -/
structure G2Prepared where
  coeffs : List (Fq2 × Fq2 × Fq2)
  infinity : Bool

/-- `doubling_step` -/
def doublingStep (r : Jac Fq2) : Jac Fq2 × (Fq2 × Fq2 × Fq2) :=
  let tmp0 := sq r.x
  let tmp1 := sq r.y
  let tmp2 := sq tmp1
  let tmp3 := dbl (((sq (tmp1 + r.x)) - tmp0) - tmp2)
  let tmp4 := dbl tmp0 + tmp0
  let tmp6 := r.x + tmp4
  let tmp5 := sq tmp4
  let zsquared := sq r.z
  let rx := (tmp5 - tmp3) - tmp3
  let rz := ((sq (r.z + r.y)) - tmp1) - zsquared
  let ry := (tmp3 - rx) * tmp4
  let tmp2 := dbl (dbl (dbl tmp2))
  let ry := ry - tmp2
  let tmp3 := -(dbl (tmp4 * zsquared))
  let tmp6 := ((sq tmp6) - tmp0) - tmp5
  let tmp1 := dbl (dbl tmp1)
  let tmp6 := tmp6 - tmp1
  let tmp0 := dbl (rz * zsquared)
  (⟨rx, ry, rz⟩, (tmp0, tmp3, tmp6))

/-- `addition_step` -/
def additionStep (r : Jac Fq2) (q : Aff Fq2) : Jac Fq2 × (Fq2 × Fq2 × Fq2) :=
  let zsquared := sq r.z
  let ysquared := sq q.y
  let t0 := zsquared * q.x
  let t1 := (((sq (q.y + r.z)) - ysquared) - zsquared) * zsquared
  let t2 := t0 - r.x
  let t3 := sq t2
  let t4 := dbl (dbl t3)
  let t5 := t4 * t2
  let t6 := (t1 - r.y) - r.y
  let t9 := t6 * q.x
  let t7 := t4 * r.x
  let rx := (((sq t6) - t5) - t7) - t7
  let rz := ((sq (r.z + t2)) - zsquared) - t3
  let t10 := q.y + rz
  let t8 := (t7 - rx) * t6
  let t0 := dbl (r.y * t5)
  let ry := t8 - t0
  let t10 := (sq t10) - ysquared
  let ztsquared := sq rz
  let t10 := t10 - ztsquared
  let t9 := (dbl t9) - t10
  let t10 := dbl rz
  let t6 := -t6
  let t1 := dbl t6
  (⟨rx, ry, rz⟩, (t10, t1, t9))

/-- the bits of `BLS_X >> 1` after the leading one, most significant first -/
def blsXBits : List Bool :=
  ((bitsMSB [Gen.BLS_X >>> 1]).dropWhile (fun b => !b)).drop 1

def prepareLoop (q : Aff Fq2) : List Bool → Jac Fq2 → List (Fq2 × Fq2 × Fq2) → Jac Fq2 × List (Fq2 × Fq2 × Fq2)
  | [], r, acc => (r, acc)
  | i :: bs, r, acc =>
    let (r, c) := doublingStep r
    let acc := acc ++ [c]
    if i then
      let (r, c) := additionStep r q
      prepareLoop q bs r (acc ++ [c])
    else prepareLoop q bs r acc

/-- `G2Prepared::from_affine` -/
def G2Prepared.fromAffine (q : Aff Fq2) : G2Prepared :=
  if q.infinity then ⟨[], true⟩ else
  let (r, coeffs) := prepareLoop q blsXBits q.toJac []
  let (_, c) := doublingStep r
  ⟨coeffs ++ [c], false⟩

/-- `ell` -/
def ell (f : Fq12) (coeffs : Fq2 × Fq2 × Fq2) (p : Aff Fq) : Fq12 :=
  let c0 : Fq2 := ⟨coeffs.1.c0 * p.y, coeffs.1.c1 * p.y⟩
  let c1 : Fq2 := ⟨coeffs.2.1.c0 * p.x, coeffs.2.1.c1 * p.x⟩
  f.mulBy014 coeffs.2.2 c1 c0

/-- `for &mut (p, ref mut coeffs) in &mut pairs { ell(&mut f, coeffs.next().unwrap(), &p.0) }`;
    `none` = the `unwrap` panics -/
def ellAll : List (Aff Fq × List (Fq2 × Fq2 × Fq2)) → Fq12 → Option (Fq12 × List (Aff Fq × List (Fq2 × Fq2 × Fq2)))
  | [], f => some (f, [])
  | (_, []) :: _, _ => none
  | (p, c :: cs) :: rest, f =>
    match ellAll rest (ell f c p) with
    | none => none
    | some (f', rest') => some (f', (p, cs) :: rest')

def millerLoopBits : List Bool → List (Aff Fq × List (Fq2 × Fq2 × Fq2)) → Fq12 → Option (Fq12 × List (Aff Fq × List (Fq2 × Fq2 × Fq2)))
  | [], pairs, f => some (f, pairs)
  | i :: bs, pairs, f => do
    let (f, pairs) ← ellAll pairs f
    let (f, pairs) ← if i then ellAll pairs f else pure (f, pairs)
    millerLoopBits bs pairs (sq f)

/-- `Engine::miller_loop` over prepared pairs `(G1Prepared, G2Prepared)` -/
def millerLoop (ps : List (Aff Fq × G2Prepared)) : Option Fq12 := do
  let pairs := (ps.filter (fun (p, q) => !p.infinity && !q.infinity)).map (fun (p, q) => (p, q.coeffs))
  let (f, pairs) ← millerLoopBits blsXBits pairs 1
  let (f, _) ← ellAll pairs f
  pure (if Gen.BLS_X_IS_NEGATIVE then f.conjugate else f)

/-- `exp_by_x` -/
def expByX (f : Fq12) (x : Nat) : Fq12 :=
  let f := powLimbs f [x % 2 ^ 64]
  if Gen.BLS_X_IS_NEGATIVE then f.conjugate else f

/-- `Engine::final_exponentiation` -/
def finalExponentiation (r0 : Fq12) : Option Fq12 :=
  let f1 := r0.conjugate
  match FieldOps.inv r0 with
  | none => none
  | some f2 =>
    let r := f1 * f2
    let f2 := r
    let r := FieldOps.frob r 2
    let r := r * f2
    let x := Gen.BLS_X
    let y0 := sq r
    let y1 := expByX y0 x
    let x := x >>> 1
    let y2 := expByX y1 x
    let x := (x <<< 1) % 2 ^ 64
    let y3 := r.conjugate
    let y1 := y1 * y3
    let y1 := y1.conjugate
    let y1 := y1 * y2
    let y2 := expByX y1 x
    let y3 := expByX y2 x
    let y1 := y1.conjugate
    let y3 := y3 * y1
    let y1 := y1.conjugate
    let y1 := FieldOps.frob y1 3
    let y2 := FieldOps.frob y2 2
    let y1 := y1 * y2
    let y2 := expByX y3 x
    let y2 := y2 * y0
    let y2 := y2 * r
    let y1 := y1 * y2
    let y2 := FieldOps.frob y3 1
    let y1 := y1 * y2
    some y1

/-- `Engine::pairing(p, q)`; `none` = an `unwrap` panics -/
def pairing (p : Aff Fq) (q : Aff Fq2) : Option Fq12 := do
  let m ← millerLoop [(p, G2Prepared.fromAffine q)]
  finalExponentiation m

/-- `Engine::pairing_product` -/
def pairingProduct (p1 : Aff Fq) (q1 : Aff Fq2) (p2 : Aff Fq) (q2 : Aff Fq2) : Option Fq12 := do
  let m ← millerLoop [(p1, G2Prepared.fromAffine q1), (p2, G2Prepared.fromAffine q2)]
  finalExponentiation m

/-- `Engine::pairing_multi_product(p, q)`: indexes `q` by `0..p.len()` -/
def pairingMultiProduct (ps : List (Aff Fq)) (qs : List (Aff Fq2)) : Option Fq12 := do
  if qs.length < ps.length then none else
  let m ← millerLoop (List.zip ps (qs.map G2Prepared.fromAffine))
  finalExponentiation m

end PP
