/-
Limb-level model of the UNROLLED `mul_assign` / `square` / `mont_reduce` that the `ff_derive`
proc-macro generates for `Fq` (6 limbs) and `Fr` (4 limbs).  Core Lean only.

`PP/Gen/MontProg.lean` (generated from the macro-expanded crate by `extract/extract_mont.py`, one IR
instruction per Rust statement) holds the programs; this file is the interpreter: a register file of
`u64` locals (`r0, r1, …`, `k`, `carry`, `carry2`), the limbs of `self` and `other`, and the helper
semantics of the `ff` crate

  `adc(a, b, &mut carry)`:             `tmp = a + b + carry` (u128); returns `tmp as u64`, `carry = (tmp >> 64) as u64`
  `mac_with_carry(a, b, c, &mut carry)`: `tmp = a + b·c + carry` (u128); the same

It also contains a Lean re-implementation `genMulProg n`, `genSquareProg n`, `genMontReduceProg n`
of the proc-macro's code generator for `n` limbs.  `PP/Proofs/MontLimb*.lean` proves
(1) the extracted programs ARE `gen…Prog 6` / `gen…Prog 4` (kernel-checked list equality) and
(2) for every `n`, running `gen…Prog n` computes the integer-level `Mont.mul / square / montReduce`.
-/
import PP.Model.Mont
import PP.Gen.MontProg

namespace PP.MontLimb
open PP PP.Mont

/-- machine state: the `u64` locals, and the limbs of `self` / `other` -/
structure State where
  r : Nat → Nat
  k : Nat
  carry : Nat
  carry2 : Nat
  self : Nat → Nat
  other : Nat → Nat

def State.get (s : State) : Reg → Nat
  | .r i => s.r i
  | .k => s.k
  | .carry => s.carry
  | .carry2 => s.carry2

def State.set (s : State) (x : Reg) (v : Nat) : State :=
  match x with
  | .r i => { s with r := fun j => if j = i then v else s.r j }
  | .k => { s with k := v }
  | .carry => { s with carry := v }
  | .carry2 => { s with carry2 := v }

/-- `MODULUS.0[i]` -/
def modLimb (P : Params) (i : Nat) : Nat := (limbsOf P.limbs P.p).getD i 0

/-- value of an operand (a `u64`) -/
def evalOpd (P : Params) (s : State) : Opd → Nat
  | .reg x => s.get x
  | .lit n => n % W64
  | .selfL i => s.self i
  | .otherL i => s.other i
  | .modL i => modLimb P i
  | .inv => P.INV % W64

/-- `self.reduce()`: `if !(self.0 < MODULUS) { self.0.sub_noborrow(&MODULUS) }` on the limb list,
    with the derived `Ord` of the repr (`Mont.cmp`) and `Mont.subNoborrow` -/
def reduceLimbs (P : Params) (ls : List Nat) : List Nat :=
  let m := limbsOf P.limbs P.p
  if Mont.cmp ls m = -1 then ls else Mont.subNoborrow ls m 0

/-- one instruction other than `call` (a `call` inside a callee does not occur; it is a no-op here) -/
def step (P : Params) (i : Instr) (s : State) : State :=
  match i with
  | .mov d a => s.set d (evalOpd P s a)
  | .mac d a b c =>
    let t := (evalOpd P s a + evalOpd P s b * evalOpd P s c + s.carry) % 2 ^ 128
    let s1 := match d with
      | some d => s.set d (t % W64)
      | none => s
    { s1 with carry := (t / W64) % W64 }
  | .adc d a b =>
    let t := (evalOpd P s a + evalOpd P s b + s.carry) % 2 ^ 128
    { s.set d (t % W64) with carry := (t / W64) % W64 }
  | .wmul d a b => s.set d ((evalOpd P s a * evalOpd P s b) % W64)
  | .shr d a n => s.set d (evalOpd P s a >>> n)
  | .shl d a n => s.set d ((evalOpd P s a <<< n) % W64)
  | .shlOr d a n b m => s.set d (((evalOpd P s a <<< n) % W64) ||| (evalOpd P s b >>> m))
  | .store i x => { s with self := fun j => if j = i then s.get x else s.self j }
  | .reduce =>
    let ls := reduceLimbs P ((List.range P.limbs).map s.self)
    { s with self := fun j => ls.getD j 0 }
  | .call _ => s

/-- a function body without calls -/
def runBody (P : Params) (is : List Instr) (s : State) : State :=
  is.foldl (fun s i => step P i s) s

/-- parameter passing of `self.mont_reduce(args)`: parameter `i` is the local `r<i>`; the callee's other
    locals start undefined (modelled as 0; they are all written before being read) -/
def bindArgs (P : Params) (args : List Opd) (s : State) : State :=
  { s with
    r := fun i => (args[i]?.map (evalOpd P s)).getD 0
    k := 0, carry := 0, carry2 := 0 }

/-- one instruction of a caller; `mr` = body of `mont_reduce` -/
def stepTop (P : Params) (mr : List Instr) (i : Instr) (s : State) : State :=
  match i with
  | .call args => runBody P mr (bindArgs P args s)
  | i => step P i s

def run (P : Params) (mr : List Instr) (is : List Instr) (s : State) : State :=
  is.foldl (fun s i => stepTop P mr i s) s

def limbFn (ls : List Nat) : Nat → Nat := fun i => ls.getD i 0

def initState (a b : List Nat) : State :=
  { r := fun _ => 0, k := 0, carry := 0, carry2 := 0, self := limbFn a, other := limbFn b }

def State.out (P : Params) (s : State) : List Nat := (List.range P.limbs).map s.self

/-- `self.mul_assign(&other)` on limb lists: `prog` = body of `mul_assign`, `mr` = body of `mont_reduce` -/
def runMul (P : Params) (prog mr : List Instr) (a b : List Nat) : List Nat :=
  (run P mr prog (initState a b)).out P

/-- `self.square()` -/
def runSquare (P : Params) (prog mr : List Instr) (a : List Nat) : List Nat :=
  (run P mr prog (initState a [])).out P

/-- `self.mont_reduce(r0, …)` (the previous contents of `self` are irrelevant) -/
def runMontReduce (P : Params) (mr : List Instr) (rs : List Nat) : List Nat :=
  (runBody P mr { initState [] [] with r := limbFn rs }).out P

/-! ## executable entry points on raw values (for differential tests against the real code) -/

def mulFq (a b : Nat) : Nat :=
  limbsToNat (runMul fqP Gen.FQ_MUL_PROG Gen.FQ_MONT_REDUCE_PROG (limbsOf 6 a) (limbsOf 6 b))
def squareFq (a : Nat) : Nat :=
  limbsToNat (runSquare fqP Gen.FQ_SQUARE_PROG Gen.FQ_MONT_REDUCE_PROG (limbsOf 6 a))
def montReduceFq (t : Nat) : Nat :=
  limbsToNat (runMontReduce fqP Gen.FQ_MONT_REDUCE_PROG (limbsOf 12 t))
def mulFr (a b : Nat) : Nat :=
  limbsToNat (runMul frP Gen.FR_MUL_PROG Gen.FR_MONT_REDUCE_PROG (limbsOf 4 a) (limbsOf 4 b))
def squareFr (a : Nat) : Nat :=
  limbsToNat (runSquare frP Gen.FR_SQUARE_PROG Gen.FR_MONT_REDUCE_PROG (limbsOf 4 a))
def montReduceFr (t : Nat) : Nat :=
  limbsToNat (runMontReduce frP Gen.FR_MONT_REDUCE_PROG (limbsOf 8 t))

/-- same calling convention as `Mont.montOp` (ops `mul`, `sq`, `redc`) -/
def limbOp (fq : Bool) (op : String) (args : Option (List Nat)) : Option (Option Nat) :=
  match op, args with
  | "mul", some [a, b] => some (some (if fq then mulFq a b else mulFr a b))
  | "sq", some [a] => some (some (if fq then squareFq a else squareFr a))
  | "redc", some [t] => some (some (if fq then montReduceFq t else montReduceFr t))
  | _, _ => none

/-! ## the proc-macro's generator, re-implemented for `n` limbs -/

def rr (i : Nat) : Opd := .reg (.r i)

/-- row `i` of the schoolbook product: `(r_i … r_{i+n}) += self_i · other` -/
def genMulRow (n i : Nat) : List Instr :=
  [.mov .carry (.lit 0)] ++
  (List.range n).map (fun j =>
    .mac (some (.r (i + j))) (if i = 0 then .lit 0 else rr (i + j)) (.selfL i) (.otherL j)) ++
  [.mov (.r (i + n)) (.reg .carry)]

def callArgs (n : Nat) : List Opd := (List.range (2 * n)).map rr

def genMulProg (n : Nat) : List Instr :=
  (List.range n).flatMap (genMulRow n) ++ [.call (callArgs n)]

/-- round `i` of the word-by-word Montgomery reduction -/
def genRedcRound (n i : Nat) : List Instr :=
  [.wmul .k (rr i) .inv,
   .mov .carry (.lit 0),
   .mac none (rr i) (.reg .k) (.modL 0)] ++
  (List.range (n - 1)).map (fun j =>
    .mac (some (.r (i + 1 + j))) (rr (i + 1 + j)) (.reg .k) (.modL (j + 1))) ++
  [.adc (.r (i + n)) (rr (i + n)) (if i = 0 then .lit 0 else .reg .carry2)] ++
  (if i + 1 < n then [.mov .carry2 (.reg .carry)] else [])

def genMontReduceProg (n : Nat) : List Instr :=
  (List.range n).flatMap (genRedcRound n) ++
  (List.range n).map (fun i => .store i (.r (n + i))) ++
  [.reduce]

/-- row `i` of the off-diagonal triangle of the square: `self_i · (self_{i+1} … self_{n-1})` -/
def genSqRow (n i : Nat) : List Instr :=
  [.mov .carry (.lit 0)] ++
  (List.range (n - 1 - i)).map (fun j =>
    .mac (some (.r (2 * i + 1 + j))) (if i = 0 then .lit 0 else rr (2 * i + 1 + j))
      (.selfL i) (.selfL (i + 1 + j))) ++
  [.mov (.r (i + n)) (.reg .carry)]

/-- doubling of `r_1 … r_{2n-2}` into `r_1 … r_{2n-1}` by shifts, from the top down -/
def genSqDouble (n : Nat) : List Instr :=
  [.shr (.r (2 * n - 1)) (rr (2 * n - 2)) 63] ++
  (List.range (2 * n - 3)).map (fun t =>
    .shlOr (.r (2 * n - 2 - t)) (rr (2 * n - 2 - t)) 1 (rr (2 * n - 3 - t)) 63) ++
  [.shl (.r 1) (rr 1) 1]

/-- adding the diagonal `self_i²` at limb `2i` -/
def genSqDiag (n : Nat) : List Instr :=
  [.mov .carry (.lit 0)] ++
  (List.range n).flatMap (fun i =>
    [.mac (some (.r (2 * i))) (if i = 0 then .lit 0 else rr (2 * i)) (.selfL i) (.selfL i),
     .adc (.r (2 * i + 1)) (rr (2 * i + 1)) (.lit 0)])

def genSquareProg (n : Nat) : List Instr :=
  (List.range (n - 1)).flatMap (genSqRow n) ++ genSqDouble n ++ genSqDiag n ++ [.call (callArgs n)]

end PP.MontLimb
