/-
The operations of the `ff::Field` / `SqrtField` traits as the model sees them, `BitIterator`,
the generic `pow`, and the instances for `Fq`, `Fr` (canonical level).
Core Lean only.
-/
import PP.Model.Fp

namespace PP

/-- What the Rust code uses from `ff::Field` beyond `+ - * neg 0 1`, which are taken from the core
    notation classes so that the proof files can supply them from a `Field` instance. -/
class FieldOps (F : Type) where
  /-- `square` -/
  sq : F → F
  /-- `double` -/
  dbl : F → F
  /-- `inverse` -/
  inv : F → Option F
  /-- `is_zero` -/
  isZero : F → Bool
  /-- `frobenius_map(power)` -/
  frob : F → Nat → F

export FieldOps (sq dbl)

/-- Little-endian 64-bit limbs of `n`, exactly `k` of them (higher bits dropped). -/
def limbsOf : Nat → Nat → List Nat
  | 0, _ => []
  | k + 1, n => (n % 2 ^ 64) :: limbsOf k (n / 2 ^ 64)

def limbsToNat : List Nat → Nat
  | [] => 0
  | l :: ls => l + 2 ^ 64 * limbsToNat ls

/-- bits `hi-1 … 0` of `w`, most significant first -/
def wordBitsMSB (w : Nat) : Nat → List Bool
  | 0 => []
  | i + 1 => w.testBit i :: wordBitsMSB w i

/-- `BitIterator::new(limbs)`: bit 63 of the last limb first, bit 0 of limb 0 last. -/
def bitsMSB : List Nat → List Bool
  | [] => []
  | l :: ls => bitsMSB ls ++ wordBitsMSB l 64

/-- `Field::pow`: MSB-first square-and-multiply with the `found_one` flag. -/
def powLoop {F : Type} [Mul F] [FieldOps F] (a : F) : List Bool → F × Bool → F × Bool
  | [], st => st
  | i :: bs, (res, found) =>
    let res1 := if found then sq res else res
    let found1 := if found then found else i
    let res2 := if i then res1 * a else res1
    powLoop a bs (res2, found1)

def powBits {F : Type} [Mul F] [One F] [FieldOps F] (a : F) (bits : List Bool) : F :=
  (powLoop a bits (1, false)).1

/-- `a.pow(limbs)` -/
def powLimbs {F : Type} [Mul F] [One F] [FieldOps F] (a : F) (limbs : List Nat) : F := powBits a (bitsMSB limbs)

/-- `a.pow(e)` for an exponent literal written with `k` limbs. -/
def powNat {F : Type} [Mul F] [One F] [FieldOps F] (a : F) (e k : Nat) : F := powLimbs a (limbsOf k e)

inductive Legendre | zero | residue | nonResidue
deriving DecidableEq, Repr

inductive Sgn0 | nonNegative | negative
deriving DecidableEq, Repr

def Sgn0.xor (a b : Sgn0) : Sgn0 := if a = b then .nonNegative else .negative

/-- `SqrtField` + `Signum0` + `Ord`, as used by the curve code. -/
class SqrtOps (F : Type) where
  sqrt : F → Option F
  legendre : F → Legendre
  sgn0 : F → Sgn0
  /-- `a < b` in the `Ord` instance of the Rust type -/
  lt : F → F → Bool

def negateIf {F : Type} [Neg F] (a : F) (s : Sgn0) : F := if s = .negative then -a else a

namespace Zp
variable {p : Nat} [PosNat p]

instance : FieldOps (Zp p) where
  sq a := a * a
  dbl a := a + a
  inv := Zp.inv
  isZero := Zp.isZero
  frob a _ := a

def sgn0 (a : Zp p) : Sgn0 := if a.v % 2 = 1 then .negative else .nonNegative

end Zp

/-- `Fq::legendre` (derive-generated): `s = self^((q-1)/2)`. -/
def Fq.legendre (a : Fq) : Legendre :=
  let s := powNat a Gen.fq_LEGENDRE_EXP 6
  if s = 0 then .zero else if s = 1 then .residue else .nonResidue

/-- `Fq::sqrt` (derive-generated, `q ≡ 3 mod 4`). -/
def Fq.sqrt (a : Fq) : Option Fq :=
  let a1 := powNat a Gen.fq_SQRT_EXP 6
  let a0 := sq a1 * a
  if a0 = Fq.ofMont Gen.fq_SQRT_CMP then none else some (a1 * a)

instance : SqrtOps Fq where
  sqrt := Fq.sqrt
  legendre := Fq.legendre
  sgn0 := Zp.sgn0
  lt := Zp.lt

def Fr.legendre (a : Fr) : Legendre :=
  let s := powNat a Gen.fr_LEGENDRE_EXP 4
  if s = 0 then .zero else if s = 1 then .residue else .nonResidue

/-- inner loop of Tonelli–Shanks: least `i ≥ 1` with `t^(2^i) = 1` (fuel-bounded) -/
def Fr.findI : Nat → Fr → Nat → Option Nat
  | 0, _, _ => none
  | fuel + 1, t2i, i => if t2i = 1 then some i else Fr.findI fuel (sq t2i) (i + 1)

def sqN {F : Type} [FieldOps F] (a : F) : Nat → F
  | 0 => a
  | n + 1 => sqN (sq a) n

/-- outer loop of Tonelli–Shanks (`while t != one`), fuel-bounded; `none` = fuel exhausted
    (the Rust would loop forever / underflow `m - i - 1`). -/
def Fr.tsLoop : Nat → Fr → Fr → Fr → Nat → Option Fr
  | 0, _, _, _, _ => none
  | fuel + 1, c, r, t, m =>
    if t = 1 then some r else
    match Fr.findI (Gen.fr_S + 1) (sq t) 1 with
    | none => none
    | some i =>
      if m < i + 1 then none else
      let c1 := sqN c (m - i - 1)
      let r1 := r * c1
      let c2 := sq c1
      let t1 := t * c2
      Fr.tsLoop fuel c2 r1 t1 i

/-- `Fr::sqrt` (derive-generated Tonelli–Shanks, `S = 32`).  Outer `none` = would not terminate. -/
def Fr.sqrtFuel (a : Fr) : Option (Option Fr) :=
  match Fr.legendre a with
  | .zero => some (some a)
  | .nonResidue => some none
  | .residue =>
    let c := Fr.ofMont Gen.fr_ROOT_OF_UNITY
    let r := powNat a Gen.fr_SQRT_R_EXP 4
    let t := powNat a Gen.fr_SQRT_T_EXP 4
    match Fr.tsLoop (Gen.fr_S + 1) c r t Gen.fr_S with
    | none => none
    | some x => some (some x)

def Fr.sqrt (a : Fr) : Option Fr := (Fr.sqrtFuel a).getD none

instance : SqrtOps Fr where
  sqrt := Fr.sqrt
  legendre := Fr.legendre
  sgn0 := Zp.sgn0
  lt := Zp.lt

end PP
