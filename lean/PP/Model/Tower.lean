/-
Model of `Fq2`, `Fq6`, `Fq12` (src/bls12_381/fq2.rs, fq6.rs, fq12.rs), statement by statement.
Core Lean only.
-/
import PP.Model.Field

namespace PP

/-! ## Fq2 = Fq[u]/(u²+1) -/

structure Fq2 where
  c0 : Fq
  c1 : Fq
deriving DecidableEq

namespace Fq2

def ofMont (raw : Nat × Nat) : Fq2 := ⟨Fq.ofMont raw.1, Fq.ofMont raw.2⟩

instance : Zero Fq2 := ⟨⟨0, 0⟩⟩
instance : One Fq2 := ⟨⟨1, 0⟩⟩
instance : Inhabited Fq2 := ⟨0⟩
instance : ToString Fq2 := ⟨fun a => toString a.c0 ++ "," ++ toString a.c1⟩

def add (a b : Fq2) : Fq2 := ⟨a.c0 + b.c0, a.c1 + b.c1⟩
def sub (a b : Fq2) : Fq2 := ⟨a.c0 - b.c0, a.c1 - b.c1⟩
def neg (a : Fq2) : Fq2 := ⟨-a.c0, -a.c1⟩
def double (a : Fq2) : Fq2 := ⟨dbl a.c0, dbl a.c1⟩

/-- `mul_assign` (Karatsuba) -/
def mul (a b : Fq2) : Fq2 :=
  let aa := a.c0 * b.c0
  let bb := a.c1 * b.c1
  let o := b.c0 + b.c1
  let c1 := a.c1 + a.c0
  let c1 := c1 * o
  let c1 := c1 - aa
  let c1 := c1 - bb
  let c0 := aa - bb
  ⟨c0, c1⟩

/-- `square` (complex squaring) -/
def square (a : Fq2) : Fq2 :=
  let ab := a.c0 * a.c1
  let c0c1 := a.c0 + a.c1
  let c0 := -a.c1
  let c0 := c0 + a.c0
  let c0 := c0 * c0c1
  let c0 := c0 - ab
  let c1 := ab + ab
  let c0 := c0 + ab
  ⟨c0, c1⟩

/-- `mul_by_nonresidue`: multiply by `1 + u` -/
def mulByNonresidue (a : Fq2) : Fq2 := ⟨a.c0 - a.c1, a.c1 + a.c0⟩

/-- `norm` -/
def norm (a : Fq2) : Fq :=
  let t0 := sq a.c0
  let t1 := sq a.c1
  t1 + t0

def isZero (a : Fq2) : Bool := a.c0.isZero && a.c1.isZero

/-- `inverse` -/
def inverse (a : Fq2) : Option Fq2 :=
  let t1 := sq a.c1
  let t0 := sq a.c0
  let t0 := t0 + t1
  match FieldOps.inv t0 with
  | none => none
  | some t => some ⟨a.c0 * t, -(a.c1 * t)⟩

def frobCoeffC1 : List Fq := Gen.FROBENIUS_COEFF_FQ2_C1.map Fq.ofMont

/-- `frobenius_map(power)` -/
def frobeniusMap (a : Fq2) (power : Nat) : Fq2 :=
  ⟨a.c0, a.c1 * (frobCoeffC1.getD (power % 2) 0)⟩

instance : Add Fq2 := ⟨add⟩
instance : Sub Fq2 := ⟨sub⟩
instance : Mul Fq2 := ⟨mul⟩
instance : Neg Fq2 := ⟨neg⟩

instance : FieldOps Fq2 where
  sq := square
  dbl := double
  inv := inverse
  isZero := isZero
  frob := frobeniusMap

/-- `Ord for Fq2`: `c1` most significant -/
def lt (a b : Fq2) : Bool :=
  if a.c1.v > b.c1.v then false
  else if a.c1.v < b.c1.v then true
  else a.c0.v < b.c0.v

def legendre (a : Fq2) : Legendre := Fq.legendre (norm a)

def negOne : Fq2 := ⟨Fq.ofMont Gen.NEGATIVE_ONE, 0⟩

/-- `sqrt` (Algorithm 9 of eprint 2012/685 with the hard-coded exponents) -/
def sqrt (a : Fq2) : Option Fq2 :=
  if isZero a then some 0 else
    let a1 := powNat a Gen.FQ2_SQRT_EXP1 6
    let alpha := sq a1 * a
    let a0 := frobeniusMap alpha 1 * alpha
    if a0 = negOne then none
    else
      let a1 := a1 * a
      if alpha = negOne then some (a1 * ⟨0, 1⟩)
      else
        let alpha := alpha + 1
        let alpha := powNat alpha Gen.FQ2_SQRT_EXP2 6
        some (a1 * alpha)

/-- `sgn0`: sign of `c0` unless `c0 = 0`, then of `c1` -/
def sgn0 (a : Fq2) : Sgn0 := if a.c0.isZero then a.c1.sgn0 else a.c0.sgn0

instance : SqrtOps Fq2 where
  sqrt := sqrt
  legendre := legendre
  sgn0 := sgn0
  lt := lt

end Fq2

/-! ## Fq6 = Fq2[v]/(v³ − (1+u)) -/

structure Fq6 where
  c0 : Fq2
  c1 : Fq2
  c2 : Fq2
deriving DecidableEq

namespace Fq6

instance : Zero Fq6 := ⟨⟨0, 0, 0⟩⟩
instance : One Fq6 := ⟨⟨1, 0, 0⟩⟩
instance : Inhabited Fq6 := ⟨0⟩

def add (a b : Fq6) : Fq6 := ⟨a.c0 + b.c0, a.c1 + b.c1, a.c2 + b.c2⟩
def sub (a b : Fq6) : Fq6 := ⟨a.c0 - b.c0, a.c1 - b.c1, a.c2 - b.c2⟩
def neg (a : Fq6) : Fq6 := ⟨-a.c0, -a.c1, -a.c2⟩
def double (a : Fq6) : Fq6 := ⟨dbl a.c0, dbl a.c1, dbl a.c2⟩
def isZero (a : Fq6) : Bool := a.c0.isZero && a.c1.isZero && a.c2.isZero

/-- `mul_by_nonresidue`: multiply by `v` -/
def mulByNonresidue (a : Fq6) : Fq6 := ⟨a.c2.mulByNonresidue, a.c0, a.c1⟩

/-- `mul_by_1` -/
def mulBy1 (a : Fq6) (c1 : Fq2) : Fq6 :=
  let b_b := a.c1 * c1
  let t1 := ((c1 * (a.c1 + a.c2)) - b_b).mulByNonresidue
  let t2 := (c1 * (a.c0 + a.c1)) - b_b
  ⟨t1, t2, b_b⟩

/-- `mul_by_01` -/
def mulBy01 (a : Fq6) (c0 c1 : Fq2) : Fq6 :=
  let a_a := a.c0 * c0
  let b_b := a.c1 * c1
  let t1 := ((c1 * (a.c1 + a.c2)) - b_b).mulByNonresidue + a_a
  let t3 := ((c0 * (a.c0 + a.c2)) - a_a) + b_b
  let t2 := (((c0 + c1) * (a.c0 + a.c1)) - a_a) - b_b
  ⟨t1, t2, t3⟩

/-- `mul_assign` -/
def mul (a b : Fq6) : Fq6 :=
  let a_a := a.c0 * b.c0
  let b_b := a.c1 * b.c1
  let c_c := a.c2 * b.c2
  let t1 := ((((b.c1 + b.c2) * (a.c1 + a.c2)) - b_b) - c_c).mulByNonresidue + a_a
  let t3 := ((((b.c0 + b.c2) * (a.c0 + a.c2)) - a_a) + b_b) - c_c
  let t2 := ((((b.c0 + b.c1) * (a.c0 + a.c1)) - a_a) - b_b) + c_c.mulByNonresidue
  ⟨t1, t2, t3⟩

/-- `square` -/
def square (a : Fq6) : Fq6 :=
  let s0 := sq a.c0
  let ab := a.c0 * a.c1
  let s1 := dbl ab
  let s2 := sq ((a.c0 - a.c1) + a.c2)
  let bc := a.c1 * a.c2
  let s3 := dbl bc
  let s4 := sq a.c2
  let c0 := s3.mulByNonresidue + s0
  let c1 := s4.mulByNonresidue + s1
  let c2 := (((s1 + s2) + s3) - s0) - s4
  ⟨c0, c1, c2⟩

/-- `inverse` -/
def inverse (a : Fq6) : Option Fq6 :=
  let c0 := -(a.c2.mulByNonresidue * a.c1) + sq a.c0
  let c1 := (sq a.c2).mulByNonresidue - (a.c0 * a.c1)
  let c2 := sq a.c1 - (a.c0 * a.c2)
  let tmp1 := ((a.c2 * c1) + (a.c1 * c2)).mulByNonresidue + (a.c0 * c0)
  match FieldOps.inv tmp1 with
  | none => none
  | some t => some ⟨t * c0, t * c1, t * c2⟩

def frobCoeffC1 : List Fq2 := Gen.FROBENIUS_COEFF_FQ6_C1.map Fq2.ofMont
def frobCoeffC2 : List Fq2 := Gen.FROBENIUS_COEFF_FQ6_C2.map Fq2.ofMont

/-- `frobenius_map(power)` -/
def frobeniusMap (a : Fq6) (power : Nat) : Fq6 :=
  ⟨a.c0.frobeniusMap power,
   a.c1.frobeniusMap power * (frobCoeffC1.getD (power % 6) 0),
   a.c2.frobeniusMap power * (frobCoeffC2.getD (power % 6) 0)⟩

instance : Add Fq6 := ⟨add⟩
instance : Sub Fq6 := ⟨sub⟩
instance : Mul Fq6 := ⟨mul⟩
instance : Neg Fq6 := ⟨neg⟩

instance : FieldOps Fq6 where
  sq := square
  dbl := double
  inv := inverse
  isZero := isZero
  frob := frobeniusMap

end Fq6

/-! ## Fq12 = Fq6[w]/(w² − v) -/

structure Fq12 where
  c0 : Fq6
  c1 : Fq6
deriving DecidableEq

namespace Fq12

instance : Zero Fq12 := ⟨⟨0, 0⟩⟩
instance : One Fq12 := ⟨⟨1, 0⟩⟩
instance : Inhabited Fq12 := ⟨0⟩

def add (a b : Fq12) : Fq12 := ⟨a.c0 + b.c0, a.c1 + b.c1⟩
def sub (a b : Fq12) : Fq12 := ⟨a.c0 - b.c0, a.c1 - b.c1⟩
def neg (a : Fq12) : Fq12 := ⟨-a.c0, -a.c1⟩
def double (a : Fq12) : Fq12 := ⟨dbl a.c0, dbl a.c1⟩
def isZero (a : Fq12) : Bool := a.c0.isZero && a.c1.isZero

/-- `conjugate` -/
def conjugate (a : Fq12) : Fq12 := ⟨a.c0, -a.c1⟩

/-- `mul_by_014` -/
def mulBy014 (a : Fq12) (c0 c1 c4 : Fq2) : Fq12 :=
  let aa := a.c0.mulBy01 c0 c1
  let bb := a.c1.mulBy1 c4
  let o := c1 + c4
  let r1 := (((a.c1 + a.c0).mulBy01 c0 o) - aa) - bb
  let r0 := bb.mulByNonresidue + aa
  ⟨r0, r1⟩

/-- `mul_assign` -/
def mul (a b : Fq12) : Fq12 :=
  let aa := a.c0 * b.c0
  let bb := a.c1 * b.c1
  let o := b.c0 + b.c1
  let c1 := (((a.c1 + a.c0) * o) - aa) - bb
  let c0 := bb.mulByNonresidue + aa
  ⟨c0, c1⟩

/-- `square` -/
def square (a : Fq12) : Fq12 :=
  let ab := a.c0 * a.c1
  let c0c1 := a.c0 + a.c1
  let c0 := ((a.c1.mulByNonresidue + a.c0) * c0c1) - ab
  let c1 := ab + ab
  let c0 := c0 - ab.mulByNonresidue
  ⟨c0, c1⟩

/-- `inverse` -/
def inverse (a : Fq12) : Option Fq12 :=
  let c0s := sq a.c0 - (sq a.c1).mulByNonresidue
  match FieldOps.inv c0s with
  | none => none
  | some t => some ⟨t * a.c0, -(t * a.c1)⟩

def frobCoeffC1 : List Fq2 := Gen.FROBENIUS_COEFF_FQ12_C1.map Fq2.ofMont

/-- `frobenius_map(power)` -/
def frobeniusMap (a : Fq12) (power : Nat) : Fq12 :=
  let c0 := a.c0.frobeniusMap power
  let c1 := a.c1.frobeniusMap power
  let k := frobCoeffC1.getD (power % 12) 0
  ⟨c0, ⟨c1.c0 * k, c1.c1 * k, c1.c2 * k⟩⟩

instance : Add Fq12 := ⟨add⟩
instance : Sub Fq12 := ⟨sub⟩
instance : Mul Fq12 := ⟨mul⟩
instance : Neg Fq12 := ⟨neg⟩

instance : FieldOps Fq12 where
  sq := square
  dbl := double
  inv := inverse
  isZero := isZero
  frob := frobeniusMap

end Fq12

end PP
