/-
Model of hashing to the curve: addition chains (osswu_map/chain.rs, cofactor.rs), optimized SSWU
(osswu_map/*.rs), isogenies (isogeny/*.rs), cofactor clearing (cofactor.rs), `map_to_curve.rs`,
`hash_to_field.rs`, `hash_to_curve.rs`.  Core Lean only.
-/
import PP.Model.Enc
import PP.Gen.Maps
import PP.Gen.Chains

namespace PP

/-! ## straight-line chains -/

/-- the three operations a chain uses (`square/mul/–` on fields, `double/add/sub` on points) -/
structure ChainOps (M : Type) where
  sq : M → M
  mul : M → M → M
  div : M → M → M

def sqTimes {M : Type} (f : M → M) : Nat → M → M
  | 0, a => a
  | n + 1, a => sqTimes f n (f a)

abbrev Prog := List (Nat × Nat × Nat)

/-- run a chain without `call` instructions -/
def runChain0 {M : Type} [Inhabited M] (ops : ChainOps M) : Prog → Array M → Array M
  | [], regs => regs
  | (op, d, x) :: rest, regs =>
    let regs :=
      match op with
      | 0 => regs.set! d regs[x]!
      | 1 => regs.set! d (sqTimes ops.sq x regs[d]!)
      | 2 => regs.set! d (ops.mul regs[d]! regs[x]!)
      | 3 => regs.set! d (ops.div regs[d]! regs[x]!)
      | _ => regs
    runChain0 ops rest regs

/-- `chain(tmpvar1: &mut T, tmpvar0: &T)`: input in register 0, output in register 1 -/
def chainFn0 {M : Type} [Inhabited M] (ops : ChainOps M) (prog : Prog) (a : M) : M :=
  (runChain0 ops prog ((Array.replicate 32 default).set! 0 a))[1]!

/-- run a chain whose `call` instruction (opcode 4) invokes the call-free chain `callee` -/
def runChain {M : Type} [Inhabited M] (ops : ChainOps M) (callee : Prog) : Prog → Array M → Array M
  | [], regs => regs
  | (op, d, x) :: rest, regs =>
    let regs :=
      match op with
      | 0 => regs.set! d regs[x]!
      | 1 => regs.set! d (sqTimes ops.sq x regs[d]!)
      | 2 => regs.set! d (ops.mul regs[d]! regs[x]!)
      | 3 => regs.set! d (ops.div regs[d]! regs[x]!)
      | 4 => regs.set! d (chainFn0 ops callee regs[x]!)
      | _ => regs
    runChain ops callee rest regs

def chainFn {M : Type} [Inhabited M] (ops : ChainOps M) (callee prog : Prog) (a : M) : M :=
  (runChain ops callee prog ((Array.replicate 32 default).set! 0 a))[1]!

variable {F : Type} [Add F] [Sub F] [Mul F] [Neg F] [Zero F] [One F] [FieldOps F] [DecidableEq F]

instance : Inhabited (Jac F) := ⟨Jac.zero⟩

def fieldChainOps : ChainOps F := ⟨sq, (· * ·), (· - ·)⟩  -- field chains contain no op 3 (the translator rejects it)
def pointChainOps : ChainOps (Jac F) := ⟨Jac.double, Jac.add, Jac.sub⟩

/-- `chain_pm3div4` -/
def chainPm3div4 (a : Fq) : Fq := chainFn0 fieldChainOps Gen.CHAIN_PM3DIV4 a
/-- `chain_p2m9div16` -/
def chainP2m9div16 (a : Fq2) : Fq2 := chainFn0 fieldChainOps Gen.CHAIN_P2M9DIV16 a
/-- `chain_z` -/
def chainZ (p : Jac F) : Jac F := chainFn0 pointChainOps Gen.CHAIN_Z p
/-- `chain_h2_eff` -/
def chainH2Eff (p : Jac F) : Jac F := chainFn pointChainOps Gen.CHAIN_Z Gen.CHAIN_H2_EFF p

/-- `ClearH for G1`: `chain_z(self, &pt_in); self.add_assign(&pt_in)` -/
def clearHG1 (p : Jac Fq) : Jac Fq := (chainZ p).add p
/-- `ClearH for G2` -/
def clearHG2 (p : Jac Fq2) : Jac Fq2 := chainH2Eff p

/-! ## optimized SSWU -/

structure OsswuHelp (F : Type) where
  usq : F
  xi_usq : F
  xi2_u4 : F
  x0_num : F
  x0_den : F
  gx0_num : F
  gx0_den : F

/-- `osswu_help` -/
def osswuHelp (u xi ellpA ellpB : F) : OsswuHelp F :=
  let usq := sq u
  let xi_usq := usq * xi
  let xi2_u4 := sq xi_usq
  let nd_common := xi2_u4 + xi_usq
  let x0_num := (nd_common + 1) * ellpB
  let x0_den := if FieldOps.isZero nd_common then ellpA * xi else -(ellpA * nd_common)
  let gx0_den := sq x0_den * x0_den
  let tmp1 := gx0_den * ellpB
  let tmp2 := (sq x0_den * x0_num) * ellpA
  let tmp1 := tmp1 + tmp2
  let tmp2 := sq x0_num * x0_num
  let gx0_num := tmp1 + tmp2
  ⟨usq, xi_usq, xi2_u4, x0_num, x0_den, gx0_num, gx0_den⟩

def g1EllpA : Fq := Fq.ofMont Gen.G1_ELLP_A
def g1EllpB : Fq := Fq.ofMont Gen.G1_ELLP_B
def g1Xi : Fq := Fq.ofMont Gen.G1_XI
def g1SqrtMXiCubed : Fq := Fq.ofMont Gen.G1_SQRT_M_XI_CUBED

/-- `OSSWUMap for G1` -/
def osswuG1 (u : Fq) : Jac Fq :=
  let h := osswuHelp u g1Xi g1EllpA g1EllpB
  let tmp1 := h.gx0_num * h.gx0_den
  let tmp2 := sq h.gx0_den * tmp1
  let tmp2 := chainPm3div4 tmp2
  let sqrtCandidate := tmp2 * tmp1
  let testCand := sq sqrtCandidate * h.gx0_den
  let (xNum, y) :=
    if testCand = h.gx0_num then (h.x0_num, sqrtCandidate)
    else
      let x1_num := h.x0_num * h.xi_usq
      let y1 := ((h.usq * u) * sqrtCandidate) * g1SqrtMXiCubed
      (x1_num, y1)
  let y := negateIf y ((Zp.sgn0 y).xor (Zp.sgn0 u))
  ⟨xNum * h.x0_den, y * h.gx0_den, h.x0_den⟩

def g2EllpA : Fq2 := Fq2.ofMont Gen.G2_ELLP_A
def g2EllpB : Fq2 := Fq2.ofMont Gen.G2_ELLP_B
def g2Xi : Fq2 := Fq2.ofMont Gen.G2_XI
def g2Etas : List Fq2 := Gen.G2_ETAS.map Fq2.ofMont
def g2RootsOfUnity : List Fq2 := Gen.G2_ROOTS_OF_UNITY.map Fq2.ofMont

/-- the two `for` loops of `OSSWUMap for G2`: first multiplier `m` with `(m·cand)²·den = num` -/
def osswuG2Find (cand den num : Fq2) : List Fq2 → Option Fq2
  | [] => none
  | m :: ms =>
    let y := m * cand
    if sq y * den = num then some y else osswuG2Find cand den num ms

/-- `OSSWUMap for G2`; `none` = the terminal `panic!` -/
def osswuG2 (u : Fq2) : Option (Jac Fq2) :=
  let h := osswuHelp u g2Xi g2EllpA g2EllpB
  let tmp1 := sq h.gx0_den            -- v^2
  let tmp2 := tmp1
  let tmp1 := sq tmp1                 -- v^4
  let tmp2 := tmp2 * tmp1             -- v^6
  let tmp2 := tmp2 * h.gx0_den        -- v^7
  let tmp2 := tmp2 * h.gx0_num        -- u v^7
  let tmp1 := sq tmp1                 -- v^8
  let tmp1 := tmp1 * tmp2             -- u v^15
  let tmp1 := chainP2m9div16 tmp1
  let sqrtCandidate := tmp1 * tmp2
  match osswuG2Find sqrtCandidate h.gx0_den h.gx0_num g2RootsOfUnity with
  | some y0 =>
    let y0 := negateIf y0 ((Fq2.sgn0 y0).xor (Fq2.sgn0 u))
    some ⟨h.x0_num * h.x0_den, y0 * h.gx0_den, h.x0_den⟩
  | none =>
    let x1_num := h.x0_num * h.xi_usq
    let gx1_num := (h.xi2_u4 * h.xi_usq) * h.gx0_num
    let sqrtCandidate := (sqrtCandidate * h.usq) * u
    match osswuG2Find sqrtCandidate h.gx0_den gx1_num g2Etas with
    | some y1 =>
      let y1 := negateIf y1 ((Fq2.sgn0 y1).xor (Fq2.sgn0 u))
      some ⟨x1_num * h.x0_den, y1 * h.gx0_den, h.x0_den⟩
    | none => none

/-! ## isogeny evaluation -/

/-- the `zpows` table: `zpows[j] = z^(2(j+1))`, built with the even/odd recurrence of the Rust;
    `n` = `coeffs[2].len()` -/
def isoZpows (z : F) (n : Nat) : Array F :=
  let z2 := sq z
  let init : Array F := ((Array.replicate 15 (0 : F)).set! 0 z2).set! 1 (sq z2)
  -- for idx in 1..n-2 : rest[idx] where rest = zpows[1..]
  (List.range (n - 2 - 1)).foldl (fun (zp : Array F) k =>
    let idx := k + 1
    if idx % 2 = 0 then zp.set! (idx + 1) (sq (zp.getD (idx / 2 - 1 + 1) 0))
    else zp.set! (idx + 1) ((zp.getD (idx - 1 + 1) 0) * z2)) init

/-- one of the four maps: Horner in `x` with coefficients scaled by powers of `z²` -/
def isoMapval (zpows : Array F) (x : F) (cs : List F) : F :=
  let clen := cs.length - 1
  let ca := cs.toArray
  let tmp : List F := (List.range clen).map (fun jdx => (ca.getD (clen - 1 - jdx) 0) * (zpows.getD (jdx) 0))
  tmp.foldl (fun acc t => acc * x + t) (ca.getD (clen) 0)

/-- `eval_iso(pt, [xnum, xden, ynum, yden])` -/
def evalIso (xnum xden ynum yden : List F) (p : Jac F) : Jac F :=
  let zpows := isoZpows p.z ynum.length
  let m0 := isoMapval zpows p.x xnum
  let m1 := isoMapval zpows p.x xden
  let m2 := isoMapval zpows p.x ynum
  let m3 := isoMapval zpows p.x yden
  let m1 := m1 * (zpows.getD (0) 0)
  let m2 := m2 * p.y
  let m3 := (m3 * p.z) * (zpows.getD (0) 0)
  let zz := m1 * m3
  let xx := (m0 * m3) * zz
  let yy := (sq zz * m2) * m1
  ⟨xx, yy, zz⟩

def iso11 (p : Jac Fq) : Jac Fq :=
  evalIso (Gen.ISO11_XNUM.map Fq.ofMont) (Gen.ISO11_XDEN.map Fq.ofMont)
    (Gen.ISO11_YNUM.map Fq.ofMont) (Gen.ISO11_YDEN.map Fq.ofMont) p

def iso3 (p : Jac Fq2) : Jac Fq2 :=
  evalIso (Gen.ISO3_XNUM.map Fq2.ofMont) (Gen.ISO3_XDEN.map Fq2.ofMont)
    (Gen.ISO3_YNUM.map Fq2.ofMont) (Gen.ISO3_YDEN.map Fq2.ofMont) p

/-! ## map_to_curve.rs (release build: the `debug_assert!` is compiled out) -/

def mapToCurveG1 (u : Fq) : Jac Fq := clearHG1 (iso11 (osswuG1 u))

/-- `map2_to_curve` (after the `fix:` commit in /repo): isogeny on each SSWU image, then
    `add_assign` on the target curve, then `clear_h` -/
def map2ToCurveG1 (u0 u1 : Fq) : Jac Fq := clearHG1 ((iso11 (osswuG1 u0)).add (iso11 (osswuG1 u1)))

/-- `map2_to_curve` as it was BEFORE the fix: the two SSWU images were added with the target
    curve's `add_assign` before the isogeny (kept only to state the refutation in Props/C14) -/
def map2ToCurveG1PreFix (u0 u1 : Fq) : Jac Fq := clearHG1 (iso11 ((osswuG1 u0).add (osswuG1 u1)))

def mapToCurveG2 (u : Fq2) : Option (Jac Fq2) := (osswuG2 u).map (fun p => clearHG2 (iso3 p))

def map2ToCurveG2 (u0 u1 : Fq2) : Option (Jac Fq2) := do
  let p0 ← osswuG2 u0
  let p1 ← osswuG2 u1
  pure (clearHG2 ((iso3 p0).add (iso3 p1)))

def map2ToCurveG2PreFix (u0 u1 : Fq2) : Option (Jac Fq2) := do
  let p0 ← osswuG2 u0
  let p1 ← osswuG2 u1
  pure (clearHG2 (iso3 (p0.add p1)))

/-! ## hash_to_field.rs -/

/-- a Merkle–Damgård hash as `expand_message_xmd` sees it -/
structure XmdHash where
  outSize : Nat
  blockSize : Nat
  hash : Bytes → Bytes

def u8 (n : Nat) : UInt8 := UInt8.ofNat (n % 256)

def xorBytes (a b : Bytes) : Bytes := List.zipWith (· ^^^ ·) a b

def xmdBlocks (H : XmdHash) (b0 dstPrime : Bytes) : Nat → Nat → Bytes → Bytes → Bytes
  | 0, _, _, acc => acc
  | n + 1, idx, prev, acc =>
    -- idx runs 1, 2, …; block b_(idx+1)
    let tmp := xorBytes b0 prev
    let bi := H.hash (tmp ++ [u8 (idx + 1)] ++ dstPrime)
    xmdBlocks H b0 dstPrime n (idx + 1) bi (acc ++ bi)

/-- `ExpandMsgXmd::expand_message`; `none` = `panic!("ell was too big")` -/
def expandMessageXmd (H : XmdHash) (msg dst : Bytes) (lenInBytes : Nat) : Option Bytes :=
  let ell := (lenInBytes + H.outSize - 1) / H.outSize
  if ell > 255 then none else
  let dstPrime := dst ++ [u8 dst.length]
  let b0 := H.hash (List.replicate H.blockSize (0 : UInt8) ++ msg ++ [u8 (lenInBytes >>> 8), u8 lenInBytes, 0] ++ dstPrime)
  let b1 := H.hash (b0 ++ [1] ++ dstPrime)
  let bvals := xmdBlocks H b0 dstPrime (ell - 1) 1 b1 b1
  some (bvals.take lenInBytes)

/-- `ExpandMsgXof::expand_message` -/
def expandMessageXof (xof : Bytes → Nat → Bytes) (msg dst : Bytes) (lenInBytes : Nat) : Bytes :=
  xof (msg ++ [u8 (lenInBytes >>> 8), u8 lenInBytes] ++ dst ++ [u8 dst.length]) lenInBytes

def fqF2_256 : Fq := Fq.ofMont Gen.F_2_256
def frF2_192 : Fr := Fr.ofMont Gen.F_2_192

/-- `Fq::from_okm` (64 bytes); `none` = an `unwrap` fails -/
def Fq.fromOkm (okm : Bytes) : Option Fq := do
  let e1 ← Fq.fromBytes (List.replicate 16 (0 : UInt8) ++ okm.take 32)
  let e2 ← Fq.fromBytes (List.replicate 16 (0 : UInt8) ++ (okm.drop 32).take 32)
  pure (e1 * fqF2_256 + e2)

/-- `Fr::from_okm` (48 bytes) -/
def Fr.fromOkm (okm : Bytes) : Option Fr := do
  let e1 ← Fr.fromBytes (List.replicate 8 (0 : UInt8) ++ okm.take 24)
  let e2 ← Fr.fromBytes (List.replicate 8 (0 : UInt8) ++ (okm.drop 24).take 24)
  pure (e1 * frF2_192 + e2)

/-- `Fq2::from_ro` (128 bytes) -/
def Fq2.fromRo (okm : Bytes) : Option Fq2 := do
  let c0 ← Fq.fromOkm (okm.take 64)
  let c1 ← Fq.fromOkm ((okm.drop 64).take 64)
  pure ⟨c0, c1⟩

/-- `hash_to_field::<T, X>(msg, dst, count)` given the expanded bytes -/
def splitBlocks {T : Type} (lenPerElm : Nat) (fromRo : Bytes → Option T) (bytes : Bytes) : Nat → Nat → Option (List T)
  | 0, _ => some []
  | n + 1, idx => do
    let blk := (bytes.drop (idx * lenPerElm)).take lenPerElm
    if blk.length ≠ lenPerElm then none else
    let e ← fromRo blk
    let rest ← splitBlocks lenPerElm fromRo bytes n (idx + 1)
    pure (e :: rest)

def hashToField {T : Type} (expand : Bytes → Bytes → Nat → Option Bytes) (lenPerElm : Nat)
    (fromRo : Bytes → Option T) (msg dst : Bytes) (count : Nat) : Option (List T) := do
  let bytes ← expand msg dst (count * lenPerElm)
  splitBlocks lenPerElm fromRo bytes count 0

/-! ## hash_to_curve.rs -/

def hashToCurveG1 (expand : Bytes → Bytes → Nat → Option Bytes) (msg dst : Bytes) : Option (Jac Fq) := do
  let u ← hashToField expand 64 Fq.fromOkm msg dst 2
  match u with
  | [u0, u1] => pure (map2ToCurveG1 u0 u1)
  | _ => none

def encodeToCurveG1 (expand : Bytes → Bytes → Nat → Option Bytes) (msg dst : Bytes) : Option (Jac Fq) := do
  let u ← hashToField expand 64 Fq.fromOkm msg dst 1
  match u with
  | [u0] => pure (mapToCurveG1 u0)
  | _ => none

def hashToCurveG2 (expand : Bytes → Bytes → Nat → Option Bytes) (msg dst : Bytes) : Option (Jac Fq2) := do
  let u ← hashToField expand 128 Fq2.fromRo msg dst 2
  match u with
  | [u0, u1] => map2ToCurveG2 u0 u1
  | _ => none

def encodeToCurveG2 (expand : Bytes → Bytes → Nat → Option Bytes) (msg dst : Bytes) : Option (Jac Fq2) := do
  let u ← hashToField expand 128 Fq2.fromRo msg dst 1
  match u with
  | [u0] => mapToCurveG2 u0
  | _ => none

end PP
