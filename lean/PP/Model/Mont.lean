/-
Montgomery-level model of `Fq` / `Fr` (what the derive macro of `ff` generates: the stored value is
`a·R mod p`) and limb-level model of `FqRepr` / `FrRepr`.  Core Lean only.

The unrolled limb-level `mul_assign/square/mont_reduce` of the proc-macro are modelled by the
integer-level word-by-word REDC below (same quotient digits `k_i = r_i·INV mod 2^64`).
-/
import PP.Model.Field

namespace PP.Mont

def W64 : Nat := 2 ^ 64

/-! ## limb level: `PrimeFieldRepr` -/

/-- `ff::adc`: (sum, carry) -/
def adc (a b carry : Nat) : Nat × Nat :=
  let t := a + b + carry
  (t % W64, t / W64)

/-- `ff::sbb`: (difference, borrow) -/
def sbb (a b borrow : Nat) : Nat × Nat :=
  let t := W64 + a - b - borrow
  (t % W64, if t / W64 = 0 then 1 else 0)

/-- `add_nocarry`: limb-wise with carry chain, final carry dropped -/
def addNocarry : List Nat → List Nat → Nat → List Nat
  | a :: as, b :: bs, c => let (s, c') := adc a b c; s :: addNocarry as bs c'
  | _, _, _ => []

/-- `sub_noborrow` -/
def subNoborrow : List Nat → List Nat → Nat → List Nat
  | a :: as, b :: bs, c => let (s, c') := sbb a b c; s :: subNoborrow as bs c'
  | _, _, _ => []

/-- `div2`: iterate limbs from the top, carrying the shifted-out bit down -/
def div2 (ls : List Nat) : List Nat :=
  (ls.reverse.foldl (fun (acc : List Nat × Nat) i =>
    let t2 := (i <<< 63) % W64
    (((i >>> 1) ||| acc.2) :: acc.1, t2)) ([], 0)).1

/-- `mul2` -/
def mul2 (ls : List Nat) : List Nat :=
  (ls.foldl (fun (acc : List Nat × Nat) i =>
    let tmp := i >>> 63
    (acc.1 ++ [((i <<< 1) % W64) ||| acc.2], tmp)) ([], 0)).1

/-- one pass of the `while n >= 64` loop of `shr`: move every limb one place down -/
def shrLimb (ls : List Nat) : List Nat := ls.drop 1 ++ [0]
def shlLimb (ls : List Nat) : List Nat := 0 :: ls.dropLast

def shrBits (ls : List Nat) (n : Nat) : List Nat :=
  (ls.reverse.foldl (fun (acc : List Nat × Nat) i =>
    let t2 := (i <<< (64 - n)) % W64
    (((i >>> n) ||| acc.2) :: acc.1, t2)) ([], 0)).1

def shlBits (ls : List Nat) (n : Nat) : List Nat :=
  (ls.foldl (fun (acc : List Nat × Nat) i =>
    let t2 := i >>> (64 - n)
    (acc.1 ++ [((i <<< n) % W64) ||| acc.2], t2)) ([], 0)).1

def iter {α : Type} (f : α → α) : Nat → α → α
  | 0, a => a
  | n + 1, a => iter f n (f a)

/-- `shr(n)` -/
def shr (ls : List Nat) (n : Nat) : List Nat :=
  if n ≥ 64 * ls.length then ls.map (fun _ => 0)
  else
    let ls := iter shrLimb (n / 64) ls
    let n := n % 64
    if n > 0 then shrBits ls n else ls

/-- `shl(n)` -/
def shl (ls : List Nat) (n : Nat) : List Nat :=
  if n ≥ 64 * ls.length then ls.map (fun _ => 0)
  else
    let ls := iter shlLimb (n / 64) ls
    let n := n % 64
    if n > 0 then shlBits ls n else ls

def leadingZeros64 (w : Nat) : Nat := if w = 0 then 64 else 63 - w.log2

/-- `num_bits` -/
def numBits (ls : List Nat) : Nat :=
  (ls.reverse.foldl (fun (acc : Nat × Bool) i =>
    if acc.2 then acc else
    let lead := leadingZeros64 i
    (acc.1 - lead, lead != 64)) (ls.length * 64, false)).1

def isOdd (ls : List Nat) : Bool := (ls.headD 0) &&& 1 == 1
def isZero (ls : List Nat) : Bool := ls.all (· == 0)

/-- `Ord for Repr`: compare from the most significant limb; -1 / 0 / 1 -/
def cmp (a b : List Nat) : Int :=
  (List.zip a.reverse b.reverse).foldl (fun (acc : Int) (x : Nat × Nat) =>
    if acc ≠ 0 then acc else if x.1 < x.2 then -1 else if x.1 > x.2 then 1 else 0) 0

/-! ## Montgomery level -/

structure Params where
  /-- `MODULUS` -/
  p : Nat
  limbs : Nat
  /-- `R`, `R2`, `INV` as generated -/
  R : Nat
  R2 : Nat
  INV : Nat

def fqP : Params := ⟨Gen.fq_MODULUS, 6, Gen.fq_R, Gen.fq_R2, Gen.fq_INV⟩
def frP : Params := ⟨Gen.fr_MODULUS, 4, Gen.fr_R, Gen.fr_R2, Gen.fr_INV⟩

def Params.W (P : Params) : Nat := 2 ^ (64 * P.limbs)

/-! ### `Field::random`: rejection sampling (the RNG is a state-passing function, new state first) -/

/-- `n` words from the RNG, the first one is limb 0 -/
def drawLimbs {Rng : Type} (nextU64 : Rng → Rng × Nat) : Nat → Rng → Rng × List Nat
  | 0, rng => (rng, [])
  | n + 1, rng =>
    ((drawLimbs nextU64 n (nextU64 rng).1).1, (nextU64 rng).2 :: (drawLimbs nextU64 n (nextU64 rng).1).2)

/-- draw `n` words, keep the low `bits` bits of the top limb, accept the candidate iff its VALUE is below `p`,
    else try again from the new RNG state; at most `fuel` attempts (`none` = all rejected).  The result is
    the raw limb list stored in the field element (taken as a Montgomery residue as it is). -/
def randomSpec {Rng : Type} (nextU64 : Rng → Rng × Nat) (n bits p : Nat) : Nat → Rng → Option (Rng × List Nat)
  | 0, _ => none
  | fuel + 1, rng =>
    let d := drawLimbs nextU64 n rng
    let c := d.2.set (n - 1) (d.2.getD (n - 1) 0 % 2 ^ bits)
    if limbsToNat c < p then some (d.1, c) else randomSpec nextU64 n bits p fuel d.1

/-- `reduce`: `if !is_valid() { sub_noborrow(MODULUS) }` -/
def reduce (P : Params) (a : Nat) : Nat := if a < P.p then a else (a + P.W - P.p) % P.W

/-- `add_assign` -/
def add (P : Params) (a b : Nat) : Nat := reduce P ((a + b) % P.W)
/-- `double` -/
def double (P : Params) (a : Nat) : Nat := reduce P ((2 * a) % P.W)
/-- `sub_assign` -/
def sub (P : Params) (a b : Nat) : Nat :=
  let a' := if b > a then (a + P.p) % P.W else a
  (a' + P.W - b) % P.W
/-- `negate` -/
def neg (P : Params) (a : Nat) : Nat := if a = 0 then a else (P.p + P.W - a) % P.W

/-- the `limbs` rounds of `mont_reduce`: `T += k_i · p · 2^(64 i)` with `k_i = T_i · INV mod 2^64` -/
def redcRounds (P : Params) : Nat → Nat → Nat → Nat
  | 0, _, T => T
  | n + 1, i, T =>
    let k := (((T >>> (64 * i)) % W64) * P.INV) % W64
    redcRounds P n (i + 1) (T + k * P.p * 2 ^ (64 * i))

/-- `mont_reduce(r0..r_{2n-1})` on the double-width integer `T`, followed by `reduce` -/
def montReduce (P : Params) (T : Nat) : Nat :=
  reduce P ((redcRounds P P.limbs 0 T / P.W) % P.W)

/-- `mul_assign` -/
def mul (P : Params) (a b : Nat) : Nat := montReduce P (a * b)
/-- `square` -/
def square (P : Params) (a : Nat) : Nat := montReduce P (a * a)
/-- `into_repr` -/
def intoRepr (P : Params) (a : Nat) : Nat := montReduce P a
/-- `from_repr`: valid iff `x < MODULUS` -/
def fromRepr (P : Params) (x : Nat) : Option Nat := if x < P.p then some (mul P x P.R2) else none

/-- `pow` with the `found_one` flag, on raw values -/
def powLoop (P : Params) (a : Nat) : List Bool → Nat × Bool → Nat × Bool
  | [], st => st
  | i :: bs, (res, found) =>
    let res1 := if found then square P res else res
    let found1 := if found then found else i
    let res2 := if i then mul P res1 a else res1
    powLoop P a bs (res2, found1)

def pow (P : Params) (a : Nat) (limbs : List Nat) : Nat := (powLoop P a (bitsMSB limbs) (P.R, false)).1

def halveMod (P : Params) (b : Nat) : Nat :=
  if b % 2 = 0 then b / 2 else ((b + P.p) % P.W) / 2

def stripEven (P : Params) : Nat → Nat × Nat → Nat × Nat
  | 0, st => st
  | fuel + 1, (u, b) => if u % 2 = 0 then stripEven P fuel (u / 2, halveMod P b) else (u, b)

/-- main loop of `inverse` (binary extended Euclid, Alg. 16 of "Efficient Software-Implementation
    of Finite Fields with Applications to Cryptography") -/
def invLoop (P : Params) : Nat → Nat → Nat → Nat → Nat → Option Nat
  | 0, _, _, _, _ => none
  | fuel + 1, u, v, b, c =>
    if u = 1 then some b else if v = 1 then some c else
    let (u, b) := stripEven P (64 * P.limbs) (u, b)
    let (v, c) := stripEven P (64 * P.limbs) (v, c)
    if v < u then invLoop P fuel (u - v) v (sub P b c) c
    else invLoop P fuel u (v - u) b (sub P c b)

/-- `inverse`: `none` for zero; the inner `Option` is `none` if the fuel ran out -/
def inverse (P : Params) (a : Nat) : Option (Option Nat) :=
  if a = 0 then some none
  else (invLoop P (2 * 64 * P.limbs + 2) a P.p P.R2 0).map some

/-- one Montgomery-level operation on raw values; outer `none` = unknown op / bad arity -/
def montOp (P : Params) (op : String) (args : Option (List Nat)) : Option (Option Nat) :=
  match op, args with
  | "add", some [a, b] => some (some (add P a b))
  | "sub", some [a, b] => some (some (sub P a b))
  | "mul", some [a, b] => some (some (mul P a b))
  | "sq", some [a] => some (some (square P a))
  | "dbl", some [a] => some (some (double P a))
  | "neg", some [a] => some (some (neg P a))
  | "inv", some [a] => (inverse P a).map (fun o => o)
  | "fromrepr", some [x] => some (fromRepr P x)
  | "intorepr", some [a] => some (some (intoRepr P a))
  | "one", some [] => some (some P.R)
  | "pow", some (a :: ls) => some (some (pow P a ls))
  | _, _ => none

def showNat (n : Nat) : String :=
  let rec go : Nat → Nat → List Char → List Char
    | 0, _, acc => acc
    | fuel + 1, n, acc =>
      if n = 0 then acc else
      let d := n % 16
      let c := if d < 10 then Char.ofNat ('0'.toNat + d) else Char.ofNat ('a'.toNat + d - 10)
      go fuel (n / 16) (c :: acc)
  if n = 0 then "0" else String.ofList (go (n.log2 / 4 + 2) n [])

/-- limb-level repr operations on `n`-limb values -/
def reprOp (n : Nat) (op : String) (args : List Nat) : Option String :=
  let L (x : Nat) := limbsOf n x
  let out (ls : List Nat) := showNat (limbsToNat ls)
  match op, args with
  | "add_nocarry", [a, b] => some (out (addNocarry (L a) (L b) 0))
  | "sub_noborrow", [a, b] => some (out (subNoborrow (L a) (L b) 0))
  | "shr", [a, k] => some (out (shr (L a) k))
  | "shl", [a, k] => some (out (shl (L a) k))
  | "div2", [a] => some (out (div2 (L a)))
  | "mul2", [a] => some (out (mul2 (L a)))
  | "num_bits", [a] => some (toString (numBits (L a)))
  | "is_odd", [a] => some (if isOdd (L a) then "true" else "false")
  | "is_zero", [a] => some (if isZero (L a) then "true" else "false")
  | "cmp", [a, b] => some (toString (cmp (L a) (L b)))
  | "from_u64", [v] => some (out ((v % W64) :: List.replicate (n - 1) 0))
  | _, _ => none

end PP.Mont
