/-
Canonical-level model of the two prime fields `Fq`, `Fr` of /repo (src/bls12_381/fq.rs, fr.rs).
Core Lean only (no Mathlib): this file is linked into the compiled driver.

An element is its unique reduced representative `v < p`.  The Montgomery-level model of what the
Rust actually stores lives in `PP.Model.Mont`; `PP.Proofs.Mont` relates the two.
-/
import PP.Gen.Fields
import PP.Gen.FqConsts

namespace PP

/-- `b^e mod m` by square-and-multiply; structural recursion on `fuel` so the kernel can run it. -/
def powModAux (m : Nat) : Nat → Nat → Nat → Nat → Nat
  | 0, _, _, acc => acc
  | fuel + 1, b, e, acc =>
    if e = 0 then acc
    else powModAux m fuel (b * b % m) (e / 2) (if e % 2 = 1 then acc * b % m else acc)

def powMod (b e m : Nat) : Nat := powModAux m (e.log2 + 1) (b % m) e (1 % m)

class PosNat (p : Nat) : Prop where
  pos : 0 < p

/-- Integers modulo `p`, canonical representatives. -/
structure Zp (p : Nat) where
  v : Nat
  h : v < p
deriving DecidableEq

namespace Zp
variable {p : Nat}

def ofNat [PosNat p] (n : Nat) : Zp p := ⟨n % p, Nat.mod_lt _ PosNat.pos⟩

instance [PosNat p] : Zero (Zp p) := ⟨ofNat 0⟩
instance [PosNat p] : One (Zp p) := ⟨ofNat 1⟩
instance [PosNat p] : Inhabited (Zp p) := ⟨ofNat 0⟩

def add [PosNat p] (a b : Zp p) : Zp p := ofNat (a.v + b.v)
def sub [PosNat p] (a b : Zp p) : Zp p := ofNat (a.v + (p - b.v))
def neg [PosNat p] (a : Zp p) : Zp p := ofNat (p - a.v)
def mul [PosNat p] (a b : Zp p) : Zp p := ofNat (a.v * b.v)

instance [PosNat p] : Add (Zp p) := ⟨add⟩
instance [PosNat p] : Sub (Zp p) := ⟨sub⟩
instance [PosNat p] : Neg (Zp p) := ⟨neg⟩
instance [PosNat p] : Mul (Zp p) := ⟨mul⟩

/-- `Field::inverse`: `None` exactly for zero. -/
def inv [PosNat p] (a : Zp p) : Option (Zp p) :=
  if a.v = 0 then none else some (ofNat (powMod a.v (p - 2) p))

def isZero (a : Zp p) : Bool := a.v == 0

/-- `Ord for Fq`: compares `into_repr()`, i.e. the canonical integers. -/
def lt (a b : Zp p) : Bool := a.v < b.v

instance : ToString (Zp p) := ⟨fun a => toString a.v⟩

end Zp

instance : PosNat Gen.q := ⟨by decide⟩
instance : PosNat Gen.r := ⟨by decide⟩

abbrev Fq := Zp Gen.q
abbrev Fr := Zp Gen.r

/-- `R = 2^384` as used by the 6-limb Montgomery form of `Fq`, `2^256` for `Fr`. -/
def montR (limbs : Nat) : Nat := 2 ^ (64 * limbs)

/-- `R⁻¹ mod p`. -/
def montRinv (p limbs : Nat) : Nat := powMod (montR limbs % p) (p - 2) p

def fqRinv : Nat := montRinv Gen.q 6
def frRinv : Nat := montRinv Gen.r 4

/-- Decode a raw Montgomery literal `Fq(FqRepr([..]))` (what the Rust constants are). -/
def Fq.ofMont (raw : Nat) : Fq := Zp.ofNat (raw * fqRinv)
def Fr.ofMont (raw : Nat) : Fr := Zp.ofNat (raw * frRinv)

end PP
