/-
OBLIGATIONS "GenHash": the hashing glue of the hand-written model IS the Rust source.

`PP/Gen/HashGlue.lean` (namespace `PP.Gen.H`) is REGENERATED from /repo on every run of
/verif/extract/extract.py by /verif/extract/extract_hash.py: one Lean definition per Rust function, one
line per Rust statement; the length prefix `[(len >> 8) as u8, len as u8, 0u8]`, `dst || [dst.len() as u8]`,
the `ell` computation and its `> 255` panic, the block counter `(idx + 1) as u8`, the XOR of `b_0` with
the previous block (an index loop into `tmp`), the slice bounds, the truncation, the 16 / 8 zero bytes and
the constants `F_2_256` / `F_2_192` of `from_okm`, the chunking of `hash_to_field` and the element counts
2 / 1 of `hash_to_curve` / `encode_to_curve` are translated literally.  Each theorem below states that
such a regenerated definition is equal to the hand-written model function (`PP/Model/Map.lean`) that the
properties C06, C13, C14 are proved about.  An edit of one of these Rust functions changes the generated
text, and the corresponding theorem no longer compiles (or the extractor refuses the new shape).

Correspondence Rust -> generated -> model:
  hash_to_field.rs  ExpandMsgXmd::expand_message   -> `H.ExpandMsgXmd.expandMessage` -> `expandMessageXmd`
                    ExpandMsgXof::expand_message   -> `H.ExpandMsgXof.expandMessage` -> `expandMessageXof`
                    hash_to_field                  -> `H.hashToField`                -> `hashToField`
                    impl<T: BaseFromRO> FromRO for T -> `H.FromRO.fromRo`            -> (the identity)
  fq.rs / fr.rs     Fq::from_okm, Fr::from_okm     -> `H.Fq.fromOkm`, `H.Fr.fromOkm` -> `Fq.fromOkm`, `Fr.fromOkm`
                    type BaseLength = U64 / U48    -> `H.Fq.BaseLength`, `H.Fr.BaseLength`
  fq2.rs            Fq2::from_ro, type Length      -> `H.Fq2.fromRo`, `H.Fq2.Length`  -> `Fq2.fromRo`
  hash_to_curve.rs  hash_to_curve, encode_to_curve (generic over the traits; instantiated HERE for G1 and G2
                    with the generated `osswu_map`, `clear_h`, `add_assign`, `from_ro`, as trait resolution
                    does)                          -> `hashToCurveG1` .. `encodeToCurveG2`

Differences of representation that are visible in the statements:
  * a generated function that can PANIC is `Option`-valued, `none` = panic, as in the model;
  * `okm.length = 64 / 48 / 128` is the Rust type `GenericArray<u8, U64 / U48 / U128>` of the argument (the
    model takes `take` / `drop` of any list);
  * `∀ x, (Hh.hash x).length = Hh.outSize` is the result type `GenericArray<u8, OutputSize>` of
    `Digest::result`; without it the slice `b_vals[(idx-1)*b .. idx*b]` of the generated code has no
    counterpart in the model (which carries the previous block along);
  * `0 < Hh.outSize`: for `OutputSize = 0` the Rust code panics (division by zero) and so does the generated
    code, whereas the model returns bytes; no hash function has an empty digest (same hypothesis in C13).

Primitives that are not in /repo and are therefore NOT pinned down by these theorems: the hash function
itself (a parameter: `XmdHash`, resp. `Bytes → Nat → Bytes`), `Input::chain` as concatenation of the
input, `GenericArray` / `Vec` / slice / iterator operations as list operations, `Cursor` / `Read::chain`,
`FqRepr::read_be`, `Fq::from_repr` (`E.reprReadBe`, `E.Fq.fromRepr` of Enc.lean), `Fq(FqRepr(..))` as
`Fq.ofMont`, `mul_assign` / `add_assign` of `Fq` / `Fr` as `*` / `+` (see the header of HashGlue.lean).
usize overflow of `+` / `*` is not modelled.
-/
import PP.Proofs.GenHash

namespace PP.GenHash
open PP PP.Gen PP.GenHashLemmas

/-! ## hash_to_field.rs -/
theorem ExpandMsgXmd_expandMessage (Hh : XmdHash) (hout : 0 < Hh.outSize)
    (hH : ∀ x, (Hh.hash x).length = Hh.outSize) (msg dst : Bytes) (len : Nat) :
    H.ExpandMsgXmd.expandMessage Hh msg dst len = expandMessageXmd Hh msg dst len :=
  ExpandMsgXmd_expandMessage_eq Hh hout hH msg dst len
theorem ExpandMsgXof_expandMessage (xof : Bytes → Nat → Bytes) :
    H.ExpandMsgXof.expandMessage xof = expandMessageXof xof := ExpandMsgXof_expandMessage_eq xof
theorem hashToField {T : Type} (L : Nat) (fromRo : Bytes → Option T) (expand : Bytes → Bytes → Nat → Option Bytes)
    (msg dst : Bytes) (count : Nat) :
    H.hashToField L fromRo expand msg dst count = PP.hashToField expand L fromRo msg dst count :=
  hashToField_eq L fromRo expand msg dst count
theorem FromRO_fromRo {T : Type} (BaseLength : Nat) (from_okm : Bytes → Option T) :
    H.FromRO.fromRo BaseLength from_okm = from_okm := FromRO_fromRo_eq BaseLength from_okm

/-! ## fq.rs, fr.rs, fq2.rs -/
theorem Fq_BaseLength : H.Fq.BaseLength = 64 := Fq_BaseLength_eq
theorem Fr_BaseLength : H.Fr.BaseLength = 48 := Fr_BaseLength_eq
theorem Fq2_Length : H.Fq2.Length = 128 := Fq2_Length_eq
theorem Fq_fromOkm_F_2_256 : H.Fq.fromOkm.F_2_256 = fqF2_256 := Fq_fromOkm_F_2_256_eq
theorem Fr_fromOkm_F_2_192 : H.Fr.fromOkm.F_2_192 = frF2_192 := Fr_fromOkm_F_2_192_eq
theorem Fq_fromOkm (okm : Bytes) (h : okm.length = 64) : H.Fq.fromOkm okm = PP.Fq.fromOkm okm := Fq_fromOkm_eq okm h
theorem Fr_fromOkm (okm : Bytes) (h : okm.length = 48) : H.Fr.fromOkm okm = PP.Fr.fromOkm okm := Fr_fromOkm_eq okm h
theorem Fq2_fromRo (okm : Bytes) (h : okm.length = 128) : H.Fq2.fromRo okm = PP.Fq2.fromRo okm := Fq2_fromRo_eq okm h

/-! ## hash_to_curve.rs: the generic code instantiated as trait resolution does for G1 and G2 -/
variable (expand : Bytes → Bytes → Nat → Option Bytes) (msg dst : Bytes)

theorem hashToCurve_G1 :
    H.HashToCurve.hashToCurve (Length := H.Fq.BaseLength) (from_ro := H.FromRO.fromRo H.Fq.BaseLength H.Fq.fromOkm)
        (expand_message := expand) (osswu_map := fun u => some (A.G1.osswuMap u)) (isogeny_map := PP.iso11)
        (clear_h := A.G1.clearH) (add_assign := A.Jac.add) msg dst
      = hashToCurveG1 expand msg dst := hashToCurve_G1_eq expand msg dst
theorem encodeToCurve_G1 :
    H.HashToCurve.encodeToCurve (Length := H.Fq.BaseLength) (from_ro := H.FromRO.fromRo H.Fq.BaseLength H.Fq.fromOkm)
        (expand_message := expand) (osswu_map := fun u => some (A.G1.osswuMap u)) (isogeny_map := PP.iso11)
        (clear_h := A.G1.clearH) (add_assign := A.Jac.add) msg dst
      = encodeToCurveG1 expand msg dst := encodeToCurve_G1_eq expand msg dst
theorem hashToCurve_G2 :
    H.HashToCurve.hashToCurve (Length := H.Fq2.Length) (from_ro := H.Fq2.fromRo)
        (expand_message := expand) (osswu_map := A.G2.osswuMap) (isogeny_map := PP.iso3)
        (clear_h := A.G2.clearH) (add_assign := A.Jac.add) msg dst
      = hashToCurveG2 expand msg dst := hashToCurve_G2_eq expand msg dst
theorem encodeToCurve_G2 :
    H.HashToCurve.encodeToCurve (Length := H.Fq2.Length) (from_ro := H.Fq2.fromRo)
        (expand_message := expand) (osswu_map := A.G2.osswuMap) (isogeny_map := PP.iso3)
        (clear_h := A.G2.clearH) (add_assign := A.Jac.add) msg dst
      = encodeToCurveG2 expand msg dst := encodeToCurve_G2_eq expand msg dst

end PP.GenHash
