/-
PROPERTY C01.  "For all curve points, in any projective representation, addition, mixed
(projective+affine) addition, subtraction, doubling, negation, equality and affine/projective
conversion return exactly what the chord-and-tangent law of y^2=x^3+4 over Fq (G1) and
y^2=x^3+4(u+1) over Fq2 (G2) prescribes, including the identity, P+P, P+(-P), equal-y/different-x
operands and operands that denote the same point through different coordinates.  Batch normalization
changes representations only, never the points represented.  Consequently every sequence of these
operations ends in the point predicted by the abstract group."

Everything is stated for the executable model functions of `PP/Model/Curve.lean` over an arbitrary
field `F` whose model operations are lawful (`LawfulFieldOps F`), and an arbitrary `b` with
`ShortW b` (`2 ≠ 0`, `3 ≠ 0`, `b ≠ 0`).  The abstract group is Mathlib's
`WeierstrassCurve.Affine.Point` of `W b : y² = x³ + b` with its chord-and-tangent `AddCommGroup`.
`Jac.OnCurve b P` is `P.z = 0 ∨ P.y² = P.x³ + b P.z⁶`: NO normalisation of the representative is
assumed anywhere.  (Instantiation at `Fq`, `Fq2` is done elsewhere.)
-/
import PP.Proofs.Jacobian2

set_option linter.unusedSectionVars false

namespace PP.C01

open WeierstrassCurve.Affine

variable {F : Type} [Field F] [DecidableEq F] [FieldOps F] [LawfulFieldOps F]
variable {b : F} [ShortW b]

/-! ## single operations -/

theorem double_onCurve {P : Jac F} (hP : Jac.OnCurve b P) : Jac.OnCurve b P.double :=
  (Jac.double_spec hP).1

/-- doubling, for every representative, including the identity and points of order two -/
theorem double_correct {P : Jac F} (hP : Jac.OnCurve b P) :
    Jac.abs b P.double = Jac.abs b P + Jac.abs b P :=
  (Jac.double_spec hP).2

theorem add_onCurve {P Q : Jac F} (hP : Jac.OnCurve b P) (hQ : Jac.OnCurve b Q) :
    Jac.OnCurve b (P.add Q) :=
  (Jac.add_spec hP hQ).1

/-- addition, for every pair of representatives: identity operands, `P + P` (also through two
    different representatives), `P + (-P)`, equal-`y`/different-`x`, generic -/
theorem add_correct {P Q : Jac F} (hP : Jac.OnCurve b P) (hQ : Jac.OnCurve b Q) :
    Jac.abs b (P.add Q) = Jac.abs b P + Jac.abs b Q :=
  (Jac.add_spec hP hQ).2

/-- the test `U1 = U2 ∧ S1 = S2` that sends `add` into its doubling branch holds exactly when the two
    (non-identity) operands denote the same point -/
theorem add_same_point_iff {P Q : Jac F} (hP : Jac.OnCurve b P) (hQ : Jac.OnCurve b Q)
    (hz₁ : P.z ≠ 0) (hz₂ : Q.z ≠ 0) :
    (P.x * Q.z ^ 2 = Q.x * P.z ^ 2 ∧ P.y * Q.z ^ 3 = Q.y * P.z ^ 3) ↔ Jac.abs b P = Jac.abs b Q := by
  rw [Jac.abs_eq_abs_iff hP hQ]
  simp [hz₁, hz₂]

theorem addMixed_onCurve {P : Jac F} {A : Aff F} (hP : Jac.OnCurve b P) (hA : Aff.OnCurve b A) :
    Jac.OnCurve b (P.addMixed A) :=
  (Jac.addMixed_spec hP hA).1

theorem addMixed_correct {P : Jac F} {A : Aff F} (hP : Jac.OnCurve b P) (hA : Aff.OnCurve b A) :
    Jac.abs b (P.addMixed A) = Jac.abs b P + Aff.abs b A :=
  (Jac.addMixed_spec hP hA).2

theorem neg_onCurve {P : Jac F} (hP : Jac.OnCurve b P) : Jac.OnCurve b P.neg :=
  (Jac.neg_spec hP).1

theorem neg_correct {P : Jac F} (hP : Jac.OnCurve b P) : Jac.abs b P.neg = -Jac.abs b P :=
  (Jac.neg_spec hP).2

theorem sub_onCurve {P Q : Jac F} (hP : Jac.OnCurve b P) (hQ : Jac.OnCurve b Q) :
    Jac.OnCurve b (P.sub Q) :=
  (Jac.sub_spec hP hQ).1

theorem sub_correct {P Q : Jac F} (hP : Jac.OnCurve b P) (hQ : Jac.OnCurve b Q) :
    Jac.abs b (P.sub Q) = Jac.abs b P - Jac.abs b Q :=
  (Jac.sub_spec hP hQ).2

theorem subMixed_onCurve {P : Jac F} {A : Aff F} (hP : Jac.OnCurve b P) (hA : Aff.OnCurve b A) :
    Jac.OnCurve b (P.subMixed A) :=
  (Jac.subMixed_spec hP hA).1

theorem subMixed_correct {P : Jac F} {A : Aff F} (hP : Jac.OnCurve b P) (hA : Aff.OnCurve b A) :
    Jac.abs b (P.subMixed A) = Jac.abs b P - Aff.abs b A :=
  (Jac.subMixed_spec hP hA).2

theorem affNeg_onCurve {A : Aff F} (hA : Aff.OnCurve b A) : Aff.OnCurve b A.neg :=
  (Aff.neg_spec hA).1

theorem affNeg_correct {A : Aff F} (hA : Aff.OnCurve b A) : Aff.abs b A.neg = -Aff.abs b A :=
  (Aff.neg_spec hA).2

/-- projective equality decides equality of the denoted points -/
theorem beq_iff {P Q : Jac F} (hP : Jac.OnCurve b P) (hQ : Jac.OnCurve b Q) :
    Jac.beq P Q = true ↔ Jac.abs b P = Jac.abs b Q :=
  Jac.beq_spec hP hQ

/-- the identity is exactly `z = 0` -/
theorem isZero_iff {P : Jac F} (hP : Jac.OnCurve b P) : P.isZero = true ↔ Jac.abs b P = 0 := by
  rw [Jac.isZero_iff, Jac.abs_eq_zero_iff hP]

theorem zero_correct : Jac.OnCurve b (Jac.zero : Jac F) ∧ Jac.abs b (Jac.zero : Jac F) = 0 :=
  ⟨Jac.onCurve_zero b, Jac.abs_zero b⟩

/-- the executable on-curve test is the specification's -/
theorem isOnCurve_iff (A : Aff F) : A.isOnCurve b = true ↔ Aff.OnCurve b A :=
  Aff.isOnCurve_iff b A

/-- projective → affine never panics on a curve point and keeps the point -/
theorem toAffine_correct {P : Jac F} (hP : Jac.OnCurve b P) :
    ∃ A, P.toAffine = some A ∧ Aff.OnCurve b A ∧ Aff.abs b A = Jac.abs b P :=
  Jac.toAffine_spec hP

theorem toJac_onCurve {A : Aff F} (hA : Aff.OnCurve b A) : Jac.OnCurve b A.toJac :=
  (Aff.toJac_spec hA).1

theorem toJac_correct {A : Aff F} (hA : Aff.OnCurve b A) : Jac.abs b A.toJac = Aff.abs b A :=
  (Aff.toJac_spec hA).2

/-- affine → projective → affine is the identity on finite points … -/
theorem toAffine_toJac {A : Aff F} (hi : A.infinity = false) : A.toJac.toAffine = some A :=
  Jac.toAffine_toJac_of_not_infinity hi

/-- … and canonicalises the point at infinity -/
theorem toAffine_toJac_infinity {A : Aff F} (hi : A.infinity = true) :
    A.toJac.toAffine = some Aff.zero :=
  Jac.toAffine_toJac_of_infinity hi

/-! ## batch normalisation -/

/-- Batch normalisation never panics, keeps the length, and position by position returns a
    normalised representative of the same point (an already normalised entry is returned as is). -/
theorem batchNormalize_correct (v : List (Jac F)) (hv : ∀ P ∈ v, Jac.OnCurve b P) :
    ∃ out, Jac.batchNormalize v = some out ∧ out.length = v.length ∧
      ∀ (i : Nat) (h₁ : i < out.length) (h₂ : i < v.length),
        Jac.OnCurve b out[i] ∧ Jac.abs b out[i] = Jac.abs b v[i] ∧
        out[i].isNormalized = true ∧ (v[i].isNormalized = true → out[i] = v[i]) :=
  Jac.batchNormalize_spec v hv

/-- The `unwrap` in `batch_normalization` cannot panic on any input, on or off the curve. -/
theorem batchNormalize_ne_none (v : List (Jac F)) : Jac.batchNormalize v ≠ none := by
  rw [Jac.batchNormalize_eq]; simp

/-! ## sequences of operations -/

/-- register-file instructions, as in the driver's `runProg` -/
inductive Instr
  | add (i j : Nat)
  | sub (i j : Nat)
  | dbl (i : Nat)
  | neg (i : Nat)
  /-- mixed addition of the affine form of register `j` -/
  | addm (i j : Nat)
  | subm (i j : Nat)
  /-- `reg i := toJac (toAffine (reg i))` -/
  | aff (i : Nat)
  /-- batch-normalise the whole register file -/
  | norm
  | cp (i j : Nat)

/-- one instruction on the MODEL (out-of-range reads give `Jac.zero`, out-of-range writes are dropped,
    as `getD`/`set!` in the driver); `none` is a Rust panic -/
def stepJ (regs : List (Jac F)) : Instr → Option (List (Jac F))
  | .add i j => some (regs.set i ((regs.getD i Jac.zero).add (regs.getD j Jac.zero)))
  | .sub i j => some (regs.set i ((regs.getD i Jac.zero).sub (regs.getD j Jac.zero)))
  | .dbl i => some (regs.set i (regs.getD i Jac.zero).double)
  | .neg i => some (regs.set i (regs.getD i Jac.zero).neg)
  | .addm i j =>
    match (regs.getD j Jac.zero).toAffine with
    | none => none
    | some a => some (regs.set i ((regs.getD i Jac.zero).addMixed a))
  | .subm i j =>
    match (regs.getD j Jac.zero).toAffine with
    | none => none
    | some a => some (regs.set i ((regs.getD i Jac.zero).subMixed a))
  | .aff i =>
    match (regs.getD i Jac.zero).toAffine with
    | none => none
    | some a => some (regs.set i a.toJac)
  | .norm => Jac.batchNormalize regs
  | .cp i j => some (regs.set i (regs.getD j Jac.zero))

def runJ : List Instr → List (Jac F) → Option (List (Jac F))
  | [], regs => some regs
  | ins :: rest, regs =>
    match stepJ regs ins with
    | none => none
    | some regs' => runJ rest regs'

/-- one instruction in the abstract group -/
def stepP (regs : List (W b).Point) : Instr → List (W b).Point
  | .add i j => regs.set i (regs.getD i 0 + regs.getD j 0)
  | .sub i j => regs.set i (regs.getD i 0 - regs.getD j 0)
  | .dbl i => regs.set i (regs.getD i 0 + regs.getD i 0)
  | .neg i => regs.set i (-regs.getD i 0)
  | .addm i j => regs.set i (regs.getD i 0 + regs.getD j 0)
  | .subm i j => regs.set i (regs.getD i 0 - regs.getD j 0)
  | .aff _ => regs
  | .norm => regs
  | .cp i j => regs.set i (regs.getD j 0)

def runP : List Instr → List (W b).Point → List (W b).Point
  | [], regs => regs
  | ins :: rest, regs => runP rest (stepP regs ins)

/-- all registers denote curve points -/
def RegsOnCurve (b : F) (regs : List (Jac F)) : Prop := ∀ P ∈ regs, Jac.OnCurve b P

theorem getD_onCurve {regs : List (Jac F)} (h : RegsOnCurve b regs) (i : Nat) :
    Jac.OnCurve b (regs.getD i Jac.zero) := by
  by_cases hi : i < regs.length
  · rw [List.getD_eq_getElem _ _ hi]; exact h _ (List.getElem_mem hi)
  · rw [List.getD_eq_default _ _ (Nat.le_of_not_lt hi)]; exact Jac.onCurve_zero b

theorem abs_getD (regs : List (Jac F)) (i : Nat) :
    Jac.abs b (regs.getD i Jac.zero) = (regs.map (Jac.abs b)).getD i 0 := by
  rw [← Jac.abs_zero b (F := F), List.getD_map]

theorem set_onCurve {regs : List (Jac F)} (h : RegsOnCurve b regs) (i : Nat) {v : Jac F}
    (hv : Jac.OnCurve b v) : RegsOnCurve b (regs.set i v) := by
  intro P hP
  rcases List.mem_or_eq_of_mem_set hP with h' | h'
  · exact h P h'
  · exact h' ▸ hv

theorem set_getD_self {α : Type} (l : List α) (i : Nat) (d : α) : l.set i (l.getD i d) = l := by
  induction l generalizing i with
  | nil => rfl
  | cons x xs ih =>
    cases i with
    | zero => rfl
    | succ n => simp only [List.set_cons_succ, List.getD_cons_succ, ih]

/-- One instruction: never panics on curve points, stays on the curve, commutes with `abs`. -/
theorem stepJ_refines {regs : List (Jac F)} (h : RegsOnCurve b regs) (ins : Instr) :
    ∃ regs', stepJ regs ins = some regs' ∧ RegsOnCurve b regs' ∧
      regs'.map (Jac.abs b) = stepP (regs.map (Jac.abs b)) ins := by
  cases ins with
  | add i j =>
    have hs := Jac.add_spec (getD_onCurve h i) (getD_onCurve h j)
    exact ⟨_, rfl, set_onCurve h i hs.1, by
      simp only [stepP, List.map_set, hs.2, abs_getD]⟩
  | sub i j =>
    have hs := Jac.sub_spec (getD_onCurve h i) (getD_onCurve h j)
    exact ⟨_, rfl, set_onCurve h i hs.1, by
      simp only [stepP, List.map_set, hs.2, abs_getD]⟩
  | dbl i =>
    have hs := Jac.double_spec (getD_onCurve h i)
    exact ⟨_, rfl, set_onCurve h i hs.1, by
      simp only [stepP, List.map_set, hs.2, abs_getD]⟩
  | neg i =>
    have hs := Jac.neg_spec (getD_onCurve h i)
    exact ⟨_, rfl, set_onCurve h i hs.1, by
      simp only [stepP, List.map_set, hs.2, abs_getD]⟩
  | addm i j =>
    obtain ⟨a, ha, hoc, habs⟩ := Jac.toAffine_spec (getD_onCurve h j)
    have hs := Jac.addMixed_spec (getD_onCurve h i) hoc
    refine ⟨regs.set i ((regs.getD i Jac.zero).addMixed a), by simp only [stepJ, ha],
      set_onCurve h i hs.1, ?_⟩
    simp only [stepP, List.map_set, hs.2, habs, abs_getD]
  | subm i j =>
    obtain ⟨a, ha, hoc, habs⟩ := Jac.toAffine_spec (getD_onCurve h j)
    have hs := Jac.subMixed_spec (getD_onCurve h i) hoc
    refine ⟨regs.set i ((regs.getD i Jac.zero).subMixed a), by simp only [stepJ, ha],
      set_onCurve h i hs.1, ?_⟩
    simp only [stepP, List.map_set, hs.2, habs, abs_getD]
  | aff i =>
    obtain ⟨a, ha, hoc, habs⟩ := Jac.toAffine_spec (getD_onCurve h i)
    have hs := Aff.toJac_spec hoc
    refine ⟨regs.set i a.toJac, by simp only [stepJ, ha], set_onCurve h i hs.1, ?_⟩
    simp only [stepP, List.map_set, hs.2, habs, abs_getD, set_getD_self]
  | norm =>
    refine ⟨regs.map Jac.normalizeOne, Jac.batchNormalize_eq regs, ?_, ?_⟩
    · intro P hP
      obtain ⟨Q, hQ, rfl⟩ := List.mem_map.mp hP
      exact (Jac.normalizeOne_spec (h Q hQ)).1
    · simp only [stepP, List.map_map]
      exact List.map_congr_left fun Q hQ => (Jac.normalizeOne_spec (h Q hQ)).2
  | cp i j =>
    exact ⟨_, rfl, set_onCurve h i (getD_onCurve h j), by
      simp only [stepP, List.map_set, abs_getD]⟩

/-- **Refinement.**  Any program of model operations started on curve points runs to completion
    (no panic), ends on curve points, and these denote exactly the points the abstract group
    computes from the denotations of the inputs. -/
theorem runJ_refines (prog : List Instr) {regs : List (Jac F)} (h : RegsOnCurve b regs) :
    ∃ regs', runJ prog regs = some regs' ∧ RegsOnCurve b regs' ∧
      regs'.map (Jac.abs b) = runP prog (regs.map (Jac.abs b)) := by
  induction prog generalizing regs with
  | nil => exact ⟨regs, rfl, h, rfl⟩
  | cons ins rest ih =>
    obtain ⟨r₁, e₁, h₁, a₁⟩ := stepJ_refines h ins
    obtain ⟨r₂, e₂, h₂, a₂⟩ := ih h₁
    exact ⟨r₂, by simp only [runJ, e₁, e₂], h₂, by rw [a₂, a₁]; rfl⟩

/-- the register file keeps its size -/
theorem runP_length (prog : List Instr) (regs : List (W b).Point) :
    (runP prog regs).length = regs.length := by
  induction prog generalizing regs with
  | nil => rfl
  | cons ins rest ih =>
    rw [runP, ih]
    cases ins <;> simp [stepP]

/-! ### the same over `Array`, written exactly as the driver's `runProg` (after parsing) -/

def stepA (regs : Array (Jac F)) : Instr → Option (Array (Jac F))
  | .add i j => pure (regs.set! i ((regs.getD i Jac.zero).add (regs.getD j Jac.zero)))
  | .sub i j => pure (regs.set! i ((regs.getD i Jac.zero).sub (regs.getD j Jac.zero)))
  | .dbl i => pure (regs.set! i (regs.getD i Jac.zero).double)
  | .neg i => pure (regs.set! i (regs.getD i Jac.zero).neg)
  | .addm i j => do
      let a ← (regs.getD j Jac.zero).toAffine
      pure (regs.set! i ((regs.getD i Jac.zero).addMixed a))
  | .subm i j => do
      let a ← (regs.getD j Jac.zero).toAffine
      pure (regs.set! i ((regs.getD i Jac.zero).subMixed a))
  | .aff i => do
      let a ← (regs.getD i Jac.zero).toAffine
      pure (regs.set! i a.toJac)
  | .norm => do
      let l ← Jac.batchNormalize regs.toList
      pure l.toArray
  | .cp i j => pure (regs.set! i (regs.getD j Jac.zero))

def runA : List Instr → Array (Jac F) → Option (Array (Jac F))
  | [], regs => some regs
  | ins :: rest, regs => do
    let regs ← stepA regs ins
    runA rest regs

theorem array_getD_toList (regs : Array (Jac F)) (i : Nat) (d : Jac F) :
    regs.getD i d = regs.toList.getD i d := by
  simp [Array.getD, List.getD]
  split <;> simp_all

theorem stepA_toList (regs : Array (Jac F)) (ins : Instr) :
    (stepA regs ins).map Array.toList = stepJ regs.toList ins := by
  cases ins <;> simp only [stepA, stepJ, array_getD_toList, pure, bind, Option.map_some]
  case add i j => simp
  case sub i j => simp
  case dbl i => simp
  case neg i => simp
  case cp i j => simp
  case addm i j => cases (regs.toList.getD j Jac.zero).toAffine <;> simp
  case subm i j => cases (regs.toList.getD j Jac.zero).toAffine <;> simp
  case aff i => cases (regs.toList.getD i Jac.zero).toAffine <;> simp
  case norm => cases Jac.batchNormalize regs.toList <;> simp

theorem runA_toList (prog : List Instr) (regs : Array (Jac F)) :
    (runA prog regs).map Array.toList = runJ prog regs.toList := by
  induction prog generalizing regs with
  | nil => rfl
  | cons ins rest ih =>
    have h := stepA_toList regs ins
    simp only [runA, runJ, bind]
    cases hs : stepA regs ins with
    | none => rw [hs] at h; simp [← h]
    | some r => rw [hs] at h; simp only [Option.map_some] at h; simp [← h, ih]

/-- **Refinement**, for the array register machine of the driver. -/
theorem runA_refines (prog : List Instr) {regs : Array (Jac F)} (h : RegsOnCurve b regs.toList) :
    ∃ regs', runA prog regs = some regs' ∧ RegsOnCurve b regs'.toList ∧
      regs'.toList.map (Jac.abs b) = runP prog (regs.toList.map (Jac.abs b)) := by
  obtain ⟨l, e, hl, ha⟩ := runJ_refines prog h
  have := runA_toList prog regs
  rw [e] at this
  cases hr : runA prog regs with
  | none => rw [hr] at this; simp at this
  | some r =>
    rw [hr] at this
    simp only [Option.map_some, Option.some.injEq] at this
    exact ⟨r, rfl, this ▸ hl, this ▸ ha⟩

/-! ## the special cases named in the property, spelled out -/

/-- `P + (-P)`: the code returns a triple with `z = 0` -/
theorem add_neg_self_isZero {P : Jac F} (hP : Jac.OnCurve b P) : (P.add P.neg).isZero = true := by
  rw [isZero_iff (add_onCurve hP (neg_onCurve hP)), add_correct hP (neg_onCurve hP),
    neg_correct hP, add_neg_cancel]

/-- `P - P'` for two representatives of the same point is the identity -/
theorem sub_same_point_isZero {P Q : Jac F} (hP : Jac.OnCurve b P) (hQ : Jac.OnCurve b Q)
    (h : Jac.beq P Q = true) : (P.sub Q).isZero = true := by
  rw [isZero_iff (sub_onCurve hP hQ), sub_correct hP hQ, (beq_iff hP hQ).mp h, sub_self]

/-- the same point through two representatives: `add` returns its double -/
theorem add_same_point {P Q : Jac F} (hP : Jac.OnCurve b P) (hQ : Jac.OnCurve b Q)
    (h : Jac.abs b P = Jac.abs b Q) : Jac.abs b (P.add Q) = Jac.abs b P.double := by
  rw [add_correct hP hQ, double_correct hP, h]

/-! ## non-vacuity -/

section nonvacuity

/-- the order-3 points `(0, ±√b)` in an arbitrary representative `(0, y₀ z³, z)` -/
example (y₀ z : F) (h : y₀ ^ 2 = b) : Jac.OnCurve b (⟨0, y₀ * z ^ 3, z⟩ : Jac F) := by
  right; simp only; rw [← h]; ring

/-- they do have order 3: `2P = -P` for the model's `double` -/
example (y₀ z : F) (h : y₀ ^ 2 = b) (hz : z ≠ 0) :
    Jac.abs b (⟨0, y₀ * z ^ 3, z⟩ : Jac F).double = -Jac.abs b (⟨0, y₀ * z ^ 3, z⟩ : Jac F) := by
  have hoc : Jac.OnCurve b (⟨0, y₀ * z ^ 3, z⟩ : Jac F) := by
    right; simp only; rw [← h]; ring
  have h2 : (2 : F) ≠ 0 := ShortW.two_ne (b := b)
  have hy : y₀ ≠ 0 := by
    rintro rfl
    exact ShortW.b_ne (b := b) (by rw [← h]; ring)
  rw [← neg_correct hoc, ← beq_iff (double_onCurve hoc) (neg_onCurve hoc), Jac.beq_eq_true_iff]
  right
  rw [Jac.double_of_z_ne_zero (by simpa using hz)]
  have e : (⟨0, y₀ * z ^ 3, z⟩ : Jac F).neg = ⟨0, -(y₀ * z ^ 3), z⟩ := by simp [Jac.neg, hz]
  rw [e]
  refine ⟨?_, hz, ?_, ?_⟩
  · simp only; exact mul_ne_zero h2 (mul_ne_zero (mul_ne_zero hy (pow_ne_zero _ hz)) hz)
  · simp only; ring
  · simp only; rw [← sub_eq_zero]
    have : b = y₀ ^ 2 := h.symm
    ring

local instance : PosNat 13 := ⟨by decide⟩
local instance : Fact (Nat.Prime 13) := ⟨by decide⟩
local instance : ShortW (4 : Zp 13) := ⟨by decide, by decide, by decide⟩

/-- a concrete curve: `y² = x³ + 4` over `𝔽₁₃`, the order-3 point `(0, 2)` with `z = 2` -/
example : Jac.OnCurve (4 : Zp 13) ⟨0, 3, 2⟩ := by right; decide

/-- a point with `x ≠ 0`, `z ≠ 1`: affine `(2, 5)` scaled by `z = 3` -/
example : Jac.OnCurve (4 : Zp 13) ⟨5, 5, 3⟩ := by right; decide

/-- the two representatives `(0,3,2)` and `(0,2,1)` are recognised as the same point, and the point
    is not the identity -/
example : Jac.abs (4 : Zp 13) ⟨0, 3, 2⟩ = Jac.abs (4 : Zp 13) ⟨0, 2, 1⟩ ∧
    Jac.abs (4 : Zp 13) ⟨0, 3, 2⟩ ≠ 0 := by
  have h₁ : Jac.OnCurve (4 : Zp 13) ⟨0, 3, 2⟩ := by right; decide
  have h₂ : Jac.OnCurve (4 : Zp 13) ⟨0, 2, 1⟩ := by right; decide
  refine ⟨(beq_iff h₁ h₂).mp (by decide), ?_⟩
  rw [Ne, ← isZero_iff h₁]
  decide

end nonvacuity

end PP.C01
