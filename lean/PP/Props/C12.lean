/-
PROPERTY C12.  "For every non-zero element f of Fq12 the final exponentiation succeeds and equals f
raised to 3(q^12-1)/r; it is therefore multiplicative, maps into the r-th roots of unity, and sends every
non-zero element of a proper subfield to 1. It reports failure exactly for f = 0."

How the statement is rendered.
* `finalExponentiation : Fq12 → Option Fq12` (`PP/Model/Pairing.lean`) is the model of
  `Engine::final_exponentiation`; `none` is the `None` of the Rust code (the `inverse` failed).
* `Fq12` carries the `Field` instance of `PP.Proofs.Tower`, whose `0 1 * ⁻¹` are the model's own
  operations, so `f ^ n` below is the monoid power for the model's multiplication.
* `3 * (Gen.q ^ 12 - 1) / Gen.r` is a natural number; the division is exact (`r_dvd`).
* "proper subfield": a Mathlib `Subfield Fq12` different from `⊤` (`proper_subfield`); also stated for
  the fixed fields of `x ↦ x^(q^d)`, `d ∣ 12`, `d ≠ 12`, and for the embedded `Fq6`, `Fq2`, `Fq`.
* multiplicativity is stated in `Option` and holds for ALL arguments (a zero factor makes both sides
  `none`).

No hypothesis other than those displayed; the primality of `q` comes from `PP.Proofs.Primes`.
-/
import PP.Proofs.FinalExp

namespace PP.C12
open PP

/-- for every non-zero `f` the final exponentiation succeeds and is `f ^ (3 (q¹² - 1) / r)` -/
theorem spec (f : Fq12) (hf : f ≠ 0) :
    finalExponentiation f = some (f ^ (3 * (Gen.q ^ 12 - 1) / Gen.r)) := FinalExp.fe_spec hf

/-- the exponent is an exact quotient: `r ∣ q¹² - 1` -/
theorem r_dvd : Gen.r ∣ Gen.q ^ 12 - 1 := FinalExp.r_dvd

theorem r_mul_exponent : Gen.r * (3 * (Gen.q ^ 12 - 1) / Gen.r) = 3 * (Gen.q ^ 12 - 1) :=
  FinalExp.r_mul_feTarget

/-- it reports failure exactly for `f = 0` -/
theorem none_iff (f : Fq12) : finalExponentiation f = none ↔ f = 0 := FinalExp.fe_none_iff f

theorem zero : finalExponentiation 0 = none := FinalExp.fe_zero

theorem isSome_iff (f : Fq12) : (finalExponentiation f).isSome = true ↔ f ≠ 0 :=
  FinalExp.fe_isSome_iff f

/-- multiplicative (all arguments; with a zero factor both sides are `none`) -/
theorem mul (f g : Fq12) :
    finalExponentiation (f * g) =
      (finalExponentiation f).bind fun a => (finalExponentiation g).map fun b => a * b :=
  FinalExp.fe_mul_all f g

/-- multiplicative, in terms of results -/
theorem mul_some (f g a b : Fq12) (ha : finalExponentiation f = some a)
    (hb : finalExponentiation g = some b) : finalExponentiation (f * g) = some (a * b) := by
  rw [mul, ha, hb]; rfl

theorem one : finalExponentiation 1 = some 1 := FinalExp.fe_one

theorem pow (f : Fq12) (hf : f ≠ 0) (n : ℕ) :
    finalExponentiation (f ^ n) = (finalExponentiation f).map (· ^ n) := FinalExp.fe_pow hf n

theorem inv (f : Fq12) (hf : f ≠ 0) :
    finalExponentiation f⁻¹ = (finalExponentiation f).map (·⁻¹) := FinalExp.fe_inv hf

/-- every result is an `r`-th root of unity -/
theorem pow_r (f y : Fq12) (h : finalExponentiation f = some y) : y ^ Gen.r = 1 :=
  FinalExp.fe_pow_r h

/-- every non-zero element of a proper subfield of `Fq12` is sent to `1` -/
theorem proper_subfield (K : Subfield Fq12) (hK : K ≠ ⊤) (f : Fq12) (hf : f ≠ 0) (hfK : f ∈ K) :
    finalExponentiation f = some 1 := FinalExp.fe_properSubfield K hK hf hfK

/-- the same for the fixed field of `x ↦ x^(qᵈ)`, `d` a proper divisor of 12 (the subfield with `qᵈ`
    elements) -/
theorem subfield_fixed_by_frobenius (f : Fq12) (hf : f ≠ 0) (d : ℕ) (hd : d ∣ 12) (hd' : d ≠ 12)
    (h : f ^ Gen.q ^ d = f) : finalExponentiation f = some 1 := FinalExp.fe_subfield hf hd hd' h

/-- the same with the model's Frobenius map -/
theorem subfield_fixed_by_frobeniusMap (f : Fq12) (hf : f ≠ 0) (d : ℕ) (hd : d ∣ 12) (hd' : d ≠ 12)
    (h : Fq12.frobeniusMap f d = f) : finalExponentiation f = some 1 :=
  FinalExp.fe_subfield hf hd hd' (by rw [← Fq12.frobenius_spec]; exact h)

theorem subfield_Fq6 (a : Fq6) (ha : a ≠ 0) : finalExponentiation (Fq12.ofFq6 a) = some 1 :=
  FinalExp.fe_ofFq6 ha

theorem subfield_Fq2 (a : Fq2) (ha : a ≠ 0) :
    finalExponentiation (Fq12.ofFq6 (Fq6.ofFq2 a)) = some 1 := FinalExp.fe_ofFq2 ha

theorem subfield_Fq (a : Fq) (ha : a ≠ 0) :
    finalExponentiation (Fq12.ofFq6 (Fq6.ofFq2 (Fq2.ofFq a))) = some 1 := FinalExp.fe_ofFq ha

/-! ## non-vacuity -/

/-- the hypotheses are satisfiable -/
example : (1 : Fq12) ≠ 0 := one_ne_zero

/-- there is a proper subfield (the hypothesis `K ≠ ⊤` is satisfiable): the embedded `Fq6` -/
example : (Fq12.ofFq6).fieldRange ≠ ⊤ := by
  intro h
  have hw : Fq12.w ∈ (Fq12.ofFq6).fieldRange := h ▸ Subfield.mem_top _
  obtain ⟨a, ha⟩ := RingHom.mem_fieldRange.mp hw
  have h1 : (0 : Fq6) = 1 := congrArg Fq12.c1 ha
  exact zero_ne_one h1

/-- direct evaluation of the model agrees with the theorems -/
example : finalExponentiation 1 = some 1 := by decide +kernel

/-- the map is not trivial: `1 + w` is not sent to `1` (and does not fail) -/
example : finalExponentiation ⟨1, 1⟩ ≠ some 1 ∧ finalExponentiation ⟨1, 1⟩ ≠ none := by
  decide +kernel

end PP.C12
