/-
PROPERTY C08.  "For all field elements, addition, subtraction, negation, doubling, multiplication,
squaring, inversion, exponentiation by any multi-limb exponent, comparison and zero test give the
results of integer arithmetic modulo q (381-bit base field) and r (255-bit scalar field); inversion
fails only for zero.  Conversion from an integer representation succeeds exactly for values below
the modulus, conversion back yields the unique reduced representative, and the fixed-width
representation type itself behaves as an unsigned 384/256-bit integer under its add and subtract
(within their no-carry / no-borrow preconditions), shift, halve, double, bit-length, parity and
big- / little-endian read/write operations."

Objects.  `PP.Mont` is the executable model of what `#[derive(PrimeField)]` generates: a field
element is a RAW integer `a < p` standing for `dec P a = a·W⁻¹ mod p` (`W = 2^(64·limbs)`), the
parameters `fqP`, `frP` carry the EXTRACTED constants `MODULUS`, `R`, `R2`, `INV`.  `toFq`/`toFr`
send a raw value to the canonical-level model `Fq = Zp q`, `Fr = Zp r` (integers modulo `q`, `r`
with `+ - *` DEFINED as integer arithmetic followed by `% p`).  Modelling assumption (not proved
here): the unrolled limb-level `mul_assign`/`square`/`mont_reduce` of the proc-macro are represented
by the integer-level word-by-word REDC `PP.Mont.redcRounds` with the same quotient digits.

Primality of `q`, `r` is only needed for `inverse` and is taken as a hypothesis there
(it is proved independently in `PP.Proofs.Primes`).
-/
import PP.Proofs.Mont3
import PP.Proofs.Mont4
import PP.Proofs.Limbs

set_option exponentiation.threshold 2048

namespace PP.Props.C08
open PP PP.Mont PP.Gen

/-! ## 0. Parameters -/

/-- the extracted `Fq` constants are a consistent Montgomery parameter set for `q`, `W = 2^384` -/
theorem fq_params : fqP.WF ∧ fqP.p = q ∧ fqP.W = 2 ^ 384 ∧ fqP.limbs = 6 :=
  ⟨fqP_wf, fqP_p, rfl, rfl⟩

/-- the extracted `Fr` constants are a consistent Montgomery parameter set for `r`, `W = 2^256` -/
theorem fr_params : frP.WF ∧ frP.p = r ∧ frP.W = 2 ^ 256 ∧ frP.limbs = 4 :=
  ⟨frP_wf, frP_p, rfl, rfl⟩

/-- what `WF` says, spelled out for `Fq`: odd modulus with a spare bit, `INV = −q⁻¹ mod 2^64`,
    `R = 2^384 mod q`, `R2 = 2^768 mod q` -/
theorem fq_constants :
    q % 2 = 1 ∧ 2 ^ 380 < q ∧ q < 2 ^ 381 ∧ (fq_INV * q + 1) % 2 ^ 64 = 0 ∧
    fq_R = 2 ^ 384 % q ∧ fq_R2 = 2 ^ 768 % q :=
  ⟨by decide +kernel, q_bits.1, q_bits.2, fq_INV_eq.1, fq_R_eq, fq_R2_eq⟩

theorem fr_constants :
    r % 2 = 1 ∧ 2 ^ 254 < r ∧ r < 2 ^ 255 ∧ (fr_INV * r + 1) % 2 ^ 64 = 0 ∧
    fr_R = 2 ^ 256 % r ∧ fr_R2 = 2 ^ 512 % r :=
  ⟨by decide +kernel, r_bits.1, r_bits.2, fr_INV_eq.1, fr_R_eq, fr_R2_eq⟩

/-- decoding is characterised without inverses: `dec a = x ↔ a = x·W mod p` -/
theorem dec_iff {P : Params} (h : P.WF) {a x : ℕ} (ha : a < P.p) (hx : x < P.p) :
    dec P a = x ↔ a = x * P.W % P.p := dec_eq_iff h ha hx

/-- `dec` is a bijection of `[0, p)`: injective … -/
theorem dec_injective {P : Params} (h : P.WF) {a b : ℕ} (ha : a < P.p) (hb : b < P.p)
    (hab : dec P a = dec P b) : a = b := dec_inj h ha hb hab
/-- … and onto, with inverse `enc x = x·W mod p` -/
theorem dec_enc' {P : Params} (h : P.WF) {x : ℕ} (hx : x < P.p) :
    enc P x < P.p ∧ dec P (enc P x) = x :=
  ⟨enc_lt h x, by rw [dec_enc h, Nat.mod_eq_of_lt hx]⟩

/-! ## 1. Field operations on raw values, generic in the (well-formed) parameters.
Each result is again reduced, and decodes to the integer operation modulo `p`. -/

section generic
variable {P : Params} (h : P.WF) {a b : ℕ} (ha : a < P.p) (hb : b < P.p)
include h ha

theorem add_ok (hb : b < P.p) :
    add P a b < P.p ∧ add P a b = (a + b) % P.p ∧
      dec P (add P a b) = (dec P a + dec P b) % P.p :=
  ⟨(add_spec h ha hb).1, (add_spec h ha hb).2, dec_add h ha hb⟩

theorem sub_ok (hb : b < P.p) :
    sub P a b < P.p ∧ sub P a b = (a + P.p - b) % P.p ∧
      dec P (sub P a b) = (dec P a + P.p - dec P b) % P.p :=
  ⟨(sub_spec h ha hb).1, (sub_spec h ha hb).2, dec_sub h ha hb⟩

theorem neg_ok :
    neg P a < P.p ∧ neg P a = (P.p - a) % P.p ∧ dec P (neg P a) = (P.p - dec P a) % P.p :=
  ⟨(neg_spec h ha).1, (neg_spec h ha).2, dec_neg h ha⟩

theorem double_ok :
    double P a < P.p ∧ double P a = 2 * a % P.p ∧ dec P (double P a) = 2 * dec P a % P.p :=
  ⟨(double_spec h ha).1, (double_spec h ha).2, dec_double h ha⟩

/-- REDC -/
theorem montReduce_ok {T : ℕ} (hT : T < P.p * P.W) :
    montReduce P T < P.p ∧ montReduce P T * P.W % P.p = T % P.p := by
  clear ha; exact montReduce_spec h hT

theorem mul_ok (hb : b < P.p) :
    mul P a b < P.p ∧ mul P a b * P.W % P.p = a * b % P.p ∧
      dec P (mul P a b) = dec P a * dec P b % P.p :=
  ⟨(mul_spec h ha hb).1, (mul_spec h ha hb).2, dec_mul h ha hb⟩

theorem square_ok :
    square P a < P.p ∧ square P a * P.W % P.p = a * a % P.p ∧
      dec P (square P a) = dec P a * dec P a % P.p :=
  ⟨(square_spec h ha).1, (square_spec h ha).2, dec_square h ha⟩

/-- `pow` by an exponent given as a little-endian list of 64-bit limbs of ANY length
    (the empty list gives `1`) -/
theorem pow_ok (ls : List ℕ) (hok : ∀ l ∈ ls, l < 2 ^ 64) :
    pow P a ls < P.p ∧ dec P (pow P a ls) = dec P a ^ limbsToNat ls % P.p :=
  pow_spec h ha ls hok

/-- zero test -/
theorem isZero_ok : a = 0 ↔ dec P a = 0 := eq_zero_iff_dec_eq_zero h ha

/-- `into_repr` returns the decoded integer, the unique reduced representative -/
theorem intoRepr_ok :
    intoRepr P a < P.p ∧ intoRepr P a = dec P a ∧ intoRepr P a * P.W % P.p = a :=
  ⟨(intoRepr_spec h ha).1, (intoRepr_spec h ha).2.2, (intoRepr_spec h ha).2.1⟩

/-- `Eq`/`Ord` compare `into_repr()`; that map is injective, so they are equality / order of the
    decoded integers -/
theorem cmp_ok (hb : b < P.p) :
    (intoRepr P a = intoRepr P b ↔ a = b) ∧
    (intoRepr P a < intoRepr P b ↔ dec P a < dec P b) := by
  refine ⟨⟨intoRepr_inj h ha hb, fun e => by rw [e]⟩, ?_⟩
  rw [(intoRepr_spec h ha).2.2, (intoRepr_spec h hb).2.2]

theorem fromRepr_intoRepr_ok : fromRepr P (intoRepr P a) = some a := fromRepr_intoRepr h ha

/-- `inverse`: for a prime modulus and reduced `a ≠ 0` the model's fuel suffices and the result is
    the (raw form of the) modular inverse -/
theorem inverse_ok (hp : Nat.Prime P.p) (ha0 : a ≠ 0) :
    ∃ b, inverse P a = some (some b) ∧ b < P.p ∧ dec P a * dec P b % P.p = 1 :=
  inverse_spec h hp ha ha0

end generic

/-- `inverse` fails exactly for zero -/
theorem inverse_none_iff (P : Params) (a : ℕ) : inverse P a = some none ↔ a = 0 :=
  inverse_eq_some_none_iff P a

/-- `from_repr` succeeds exactly below the modulus … -/
theorem fromRepr_none_iff (P : Params) (x : ℕ) : fromRepr P x = none ↔ P.p ≤ x :=
  fromRepr_eq_none_iff P x

/-- … and then produces the reduced raw value that decodes to `x`; `into_repr` undoes it -/
theorem fromRepr_ok {P : Params} (h : P.WF) {x a : ℕ} (hx : fromRepr P x = some a) :
    x < P.p ∧ a < P.p ∧ a = x * P.W % P.p ∧ dec P a = x ∧ intoRepr P a = x :=
  ⟨(fromRepr_spec h hx).1, (fromRepr_spec h hx).2.1, (fromRepr_spec h hx).2.2.1,
    (fromRepr_spec h hx).2.2.2, intoRepr_fromRepr h hx⟩

/-! ## 2. The same for `Fq` and `Fr`, against the canonical-level model `Zp`
(whose `+ - * neg` are integer arithmetic modulo `q` / `r` by definition). -/

instance : PosNat fqP.p := ⟨by decide⟩
instance : PosNat frP.p := ⟨by decide⟩

/-- the element of `Fq` denoted by a raw 384-bit Montgomery value -/
def toFq (a : ℕ) : Fq := toZp fqP a
/-- the element of `Fr` denoted by a raw 256-bit Montgomery value -/
def toFr (a : ℕ) : Fr := toZp frP a

theorem toFq_v (a : ℕ) : (toFq a).v = a * Winv fqP % q := toZp_v fqP_wf a
theorem toFr_v (a : ℕ) : (toFr a).v = a * Winv frP % r := toZp_v frP_wf a

/-- `toFq` is a bijection between reduced raw values and `Fq` -/
theorem toFq_bij :
    (∀ a b, a < q → b < q → toFq a = toFq b → a = b) ∧ (∀ z : Fq, ∃ a, a < q ∧ toFq a = z) :=
  ⟨fun _ _ ha hb => toZp_inj fqP_wf ha hb, fun z => toZp_surj fqP_wf z⟩

theorem toFr_bij :
    (∀ a b, a < r → b < r → toFr a = toFr b → a = b) ∧ (∀ z : Fr, ∃ a, a < r ∧ toFr a = z) :=
  ⟨fun _ _ ha hb => toZp_inj frP_wf ha hb, fun z => toZp_surj frP_wf z⟩

section fq
variable {a b : ℕ} (ha : a < q) (hb : b < q)
include ha

theorem fq_zero_one : toFq 0 = 0 ∧ toFq fq_R = 1 := by
  clear ha; exact ⟨toZp_zero, toZp_R fqP_wf⟩
theorem fq_add (hb : b < q) : add fqP a b < q ∧ toFq (add fqP a b) = toFq a + toFq b :=
  ⟨(add_spec fqP_wf ha hb).1, toZp_add fqP_wf ha hb⟩
theorem fq_sub (hb : b < q) : sub fqP a b < q ∧ toFq (sub fqP a b) = toFq a - toFq b :=
  ⟨(sub_spec fqP_wf ha hb).1, toZp_sub fqP_wf ha hb⟩
theorem fq_neg : neg fqP a < q ∧ toFq (neg fqP a) = - toFq a :=
  ⟨(neg_spec fqP_wf ha).1, toZp_neg fqP_wf ha⟩
theorem fq_double : double fqP a < q ∧ toFq (double fqP a) = toFq a + toFq a :=
  ⟨(double_spec fqP_wf ha).1, toZp_double fqP_wf ha⟩
theorem fq_mul (hb : b < q) : mul fqP a b < q ∧ toFq (mul fqP a b) = toFq a * toFq b :=
  ⟨(mul_spec fqP_wf ha hb).1, toZp_mul fqP_wf ha hb⟩
theorem fq_square : square fqP a < q ∧ toFq (square fqP a) = toFq a * toFq a :=
  ⟨(square_spec fqP_wf ha).1, toZp_square fqP_wf ha⟩
theorem fq_pow (ls : List ℕ) (hok : ∀ l ∈ ls, l < 2 ^ 64) :
    pow fqP a ls < q ∧ toFq (pow fqP a ls) = toFq a ^ limbsToNat ls ∧
      (toFq (pow fqP a ls)).v = (toFq a).v ^ limbsToNat ls % q :=
  ⟨(pow_spec fqP_wf ha ls hok).1, toZp_pow fqP_wf ha ls hok, by
    rw [toFq_v, toFq_v]; exact (pow_spec fqP_wf ha ls hok).2⟩
theorem fq_isZero : Zp.isZero (toFq a) = decide (a = 0) := toZp_isZero fqP_wf ha
theorem fq_lt (hb : b < q) :
    Zp.lt (toFq a) (toFq b) = decide (intoRepr fqP a < intoRepr fqP b) := toZp_lt fqP_wf ha hb
theorem fq_intoRepr : intoRepr fqP a = (toFq a).v := intoRepr_eq_v fqP_wf ha
/-- inversion: never out of fuel, `none` exactly for zero, otherwise the field inverse -/
theorem fq_inverse (hq : Nat.Prime q) :
    ∃ o, inverse fqP a = some o ∧ o.map toFq = Zp.inv (toFq a) ∧ (∀ b ∈ o, b < q) ∧
      (o = none ↔ a = 0) := by
  obtain ⟨o, h1, h2, h3⟩ := toZp_inverse fqP_wf (fqP_p ▸ hq) ha
  refine ⟨o, h1, h2, h3, ?_⟩
  rw [← inverse_eq_some_none_iff fqP a, h1]; simp
end fq

theorem fq_fromRepr (x : ℕ) :
    (fromRepr fqP x = none ↔ q ≤ x) ∧
    (∀ a, fromRepr fqP x = some a → a < q ∧ (toFq a).v = x ∧ intoRepr fqP a = x) :=
  ⟨fromRepr_eq_none_iff fqP x, fun _ hx =>
    ⟨(fromRepr_spec fqP_wf hx).2.1, (toZp_fromRepr fqP_wf hx).2, intoRepr_fromRepr fqP_wf hx⟩⟩

section fr
variable {a b : ℕ} (ha : a < r) (hb : b < r)
include ha

theorem fr_zero_one : toFr 0 = 0 ∧ toFr fr_R = 1 := by
  clear ha; exact ⟨toZp_zero, toZp_R frP_wf⟩
theorem fr_add (hb : b < r) : add frP a b < r ∧ toFr (add frP a b) = toFr a + toFr b :=
  ⟨(add_spec frP_wf ha hb).1, toZp_add frP_wf ha hb⟩
theorem fr_sub (hb : b < r) : sub frP a b < r ∧ toFr (sub frP a b) = toFr a - toFr b :=
  ⟨(sub_spec frP_wf ha hb).1, toZp_sub frP_wf ha hb⟩
theorem fr_neg : neg frP a < r ∧ toFr (neg frP a) = - toFr a :=
  ⟨(neg_spec frP_wf ha).1, toZp_neg frP_wf ha⟩
theorem fr_double : double frP a < r ∧ toFr (double frP a) = toFr a + toFr a :=
  ⟨(double_spec frP_wf ha).1, toZp_double frP_wf ha⟩
theorem fr_mul (hb : b < r) : mul frP a b < r ∧ toFr (mul frP a b) = toFr a * toFr b :=
  ⟨(mul_spec frP_wf ha hb).1, toZp_mul frP_wf ha hb⟩
theorem fr_square : square frP a < r ∧ toFr (square frP a) = toFr a * toFr a :=
  ⟨(square_spec frP_wf ha).1, toZp_square frP_wf ha⟩
theorem fr_pow (ls : List ℕ) (hok : ∀ l ∈ ls, l < 2 ^ 64) :
    pow frP a ls < r ∧ toFr (pow frP a ls) = toFr a ^ limbsToNat ls ∧
      (toFr (pow frP a ls)).v = (toFr a).v ^ limbsToNat ls % r :=
  ⟨(pow_spec frP_wf ha ls hok).1, toZp_pow frP_wf ha ls hok, by
    rw [toFr_v, toFr_v]; exact (pow_spec frP_wf ha ls hok).2⟩
theorem fr_isZero : Zp.isZero (toFr a) = decide (a = 0) := toZp_isZero frP_wf ha
theorem fr_lt (hb : b < r) :
    Zp.lt (toFr a) (toFr b) = decide (intoRepr frP a < intoRepr frP b) := toZp_lt frP_wf ha hb
theorem fr_intoRepr : intoRepr frP a = (toFr a).v := intoRepr_eq_v frP_wf ha
theorem fr_inverse (hr : Nat.Prime r) :
    ∃ o, inverse frP a = some o ∧ o.map toFr = Zp.inv (toFr a) ∧ (∀ b ∈ o, b < r) ∧
      (o = none ↔ a = 0) := by
  obtain ⟨o, h1, h2, h3⟩ := toZp_inverse frP_wf (frP_p ▸ hr) ha
  refine ⟨o, h1, h2, h3, ?_⟩
  rw [← inverse_eq_some_none_iff frP a, h1]; simp
end fr

theorem fr_fromRepr (x : ℕ) :
    (fromRepr frP x = none ↔ r ≤ x) ∧
    (∀ a, fromRepr frP x = some a → a < r ∧ (toFr a).v = x ∧ intoRepr frP a = x) :=
  ⟨fromRepr_eq_none_iff frP x, fun _ hx =>
    ⟨(fromRepr_spec frP_wf hx).2.1, (toZp_fromRepr frP_wf hx).2, intoRepr_fromRepr frP_wf hx⟩⟩

/-! ### non-vacuity: the operations evaluated on concrete raw values -/

example : enc fqP 3 < q ∧ enc fqP 5 < q := by decide +kernel
example : add fqP (enc fqP (q - 3)) (enc fqP 5) = enc fqP 2 := by decide +kernel
example : sub fqP (enc fqP 3) (enc fqP 5) = enc fqP (q - 2) := by decide +kernel
example : neg fqP (enc fqP 3) = enc fqP (q - 3) ∧ neg fqP 0 = 0 := by decide +kernel
example : double fqP (enc fqP (q - 1)) = enc fqP (q - 2) := by decide +kernel
example : mul fqP (enc fqP 3) (enc fqP 5) = enc fqP 15 := by decide +kernel
example : square frP (enc frP (r - 2)) = enc frP 4 := by decide +kernel
example : pow fqP (enc fqP 2) [10] = enc fqP 1024 ∧ pow fqP (enc fqP 2) [] = fq_R ∧
    pow frP (enc frP 2) [0, 1] = enc frP (2 ^ 64) := by decide +kernel
example : fromRepr fqP 7 = some (enc fqP 7) ∧ intoRepr fqP (enc fqP 7) = 7 ∧
    fromRepr fqP q = none ∧ fromRepr fqP (q - 1) = some NEGATIVE_ONE := by decide +kernel
example : inverse fqP (enc fqP 2) = some (some (enc fqP ((q + 1) / 2))) ∧
    inverse fqP 0 = some none := by decide +kernel
example : inverse frP (enc frP 7) = some (some (enc frP (powMod 7 (r - 2) r))) := by
  decide +kernel

/-! ## 3. Hard-coded constants (all extracted from the Rust source) -/

/-- every raw `Fq` literal is reduced -/
theorem fq_literals_reduced :
    fq_R < q ∧ fq_R2 < q ∧ fq_GENERATOR < q ∧ fq_ROOT_OF_UNITY < q ∧ fq_SQRT_CMP < q ∧
    B_COEFF < q ∧ G1_GENERATOR_X < q ∧ G1_GENERATOR_Y < q ∧
    G2_GENERATOR_X_C0 < q ∧ G2_GENERATOR_X_C1 < q ∧ G2_GENERATOR_Y_C0 < q ∧
    G2_GENERATOR_Y_C1 < q ∧ NEGATIVE_ONE < q ∧ F_2_256 < q := fq_raw_lt

theorem fq_frobenius_literals_reduced :
    (∀ x ∈ FROBENIUS_COEFF_FQ2_C1, x < q) ∧
    (∀ x ∈ FROBENIUS_COEFF_FQ6_C1, x.1 < q ∧ x.2 < q) ∧
    (∀ x ∈ FROBENIUS_COEFF_FQ6_C2, x.1 < q ∧ x.2 < q) ∧
    (∀ x ∈ FROBENIUS_COEFF_FQ12_C1, x.1 < q ∧ x.2 < q) := frobenius_raw_lt

theorem fr_literals_reduced :
    fr_R < r ∧ fr_R2 < r ∧ fr_GENERATOR < r ∧ fr_ROOT_OF_UNITY < r ∧ F_2_192 < r := fr_raw_lt

/-- the named `Fq` literals as Montgomery encodings (inverse-free form `raw = x·2^384 mod q`) -/
theorem fq_literals :
    B_COEFF = 4 * 2 ^ 384 % q ∧ NEGATIVE_ONE = (q - 1) * 2 ^ 384 % q ∧
    F_2_256 = 2 ^ 256 * 2 ^ 384 % q ∧ fq_GENERATOR = fqGenerator * 2 ^ 384 % q ∧
    fqGenerator = 2 ∧ fq_ROOT_OF_UNITY = (q - 1) * 2 ^ 384 % q ∧ fq_ROOT_OF_UNITY = fq_SQRT_CMP :=
  ⟨B_COEFF_eq, NEGATIVE_ONE_eq, F_2_256_eq, fq_GENERATOR_eq, rfl, fq_ROOT_OF_UNITY_eq,
    fq_ROOT_OF_UNITY_eq_SQRT_CMP⟩

/-- … and decoded -/
theorem fq_literals_dec :
    dec fqP fq_R = 1 ∧ dec fqP B_COEFF = 4 ∧ dec fqP NEGATIVE_ONE = q - 1 ∧
    dec fqP F_2_256 = 2 ^ 256 ∧ dec fqP fq_GENERATOR = 2 ∧ dec fqP fq_ROOT_OF_UNITY = q - 1 :=
  ⟨dec_fq_R, dec_B_COEFF, dec_NEGATIVE_ONE, dec_F_2_256, dec_fq_GENERATOR, dec_fq_ROOT_OF_UNITY⟩

theorem fr_literals :
    F_2_192 = 2 ^ 192 * 2 ^ 256 % r ∧ fr_GENERATOR = frGenerator * 2 ^ 256 % r ∧ frGenerator = 7 ∧
    fr_ROOT_OF_UNITY = (7 ^ ((r - 1) / 2 ^ 32) % r) * 2 ^ 256 % r := by
  refine ⟨F_2_192_eq, fr_GENERATOR_eq, rfl, ?_⟩
  rw [← frOmega_eq]; exact fr_ROOT_OF_UNITY_eq

theorem fr_literals_dec :
    dec frP fr_R = 1 ∧ dec frP F_2_192 = 2 ^ 192 ∧ dec frP fr_GENERATOR = 7 ∧
    dec frP fr_ROOT_OF_UNITY = 7 ^ ((r - 1) / 2 ^ 32) % r := by
  refine ⟨dec_fr_R, dec_F_2_192, dec_fr_GENERATOR, ?_⟩
  rw [← frOmega_eq]; exact dec_fr_ROOT_OF_UNITY

/-- the decoded `Fr::ROOT_OF_UNITY` has multiplicative order exactly `2^32` -/
theorem fr_root_of_unity_order :
    let ω := dec frP fr_ROOT_OF_UNITY
    ω ^ 2 ^ 32 % r = 1 ∧ ω ^ 2 ^ 31 % r = r - 1 ∧ ω ^ 2 ^ 31 % r ≠ 1 := by
  intro ω
  have : ω = frOmega := dec_fr_ROOT_OF_UNITY
  rw [this]; exact frOmega_order

/-- the decoded `Fq::ROOT_OF_UNITY` is `−1 = 2^((q−1)/2)`, of order `2 = 2^S` -/
theorem fq_root_of_unity :
    dec fqP fq_ROOT_OF_UNITY = q - 1 ∧ 2 ^ ((q - 1) / 2) % q = q - 1 ∧ (q - 1) ^ 2 % q = 1 := by
  refine ⟨dec_fq_ROOT_OF_UNITY, ?_, by decide +kernel⟩
  have := fq_ROOT_OF_UNITY_pow
  rw [powMod_eq_pow_mod _ _ _ q_pos] at this
  exact this

/-- exponents used by `legendre` / `sqrt` -/
theorem exponents :
    q % 4 = 3 ∧ fq_LEGENDRE_EXP = (q - 1) / 2 ∧ fq_SQRT_EXP = (q - 3) / 4 ∧ fq_S = 1 ∧
    fr_LEGENDRE_EXP = (r - 1) / 2 ∧ fr_S = 32 ∧ (r - 1) % 2 ^ 32 = 0 ∧
    fr_SQRT_T_EXP = (r - 1) / 2 ^ 32 ∧ fr_SQRT_T_EXP % 2 = 1 ∧
    fr_SQRT_R_EXP = ((r - 1) / 2 ^ 32 + 1) / 2 :=
  ⟨q_mod_4, fq_LEGENDRE_EXP_eq, fq_SQRT_EXP_eq, rfl, fr_LEGENDRE_EXP_eq, rfl,
    fr_two_adicity.1, fr_SQRT_T_EXP_eq, by decide +kernel, fr_SQRT_R_EXP_eq⟩

/-- the canonical-level model reads raw literals with `Fq.ofMont`/`Fr.ofMont`; that is `dec` -/
theorem ofMont_eq (raw : ℕ) :
    (Fq.ofMont raw).v = dec fqP raw ∧ (Fr.ofMont raw).v = dec frP raw :=
  ⟨Fq_ofMont_v raw, Fr_ofMont_v raw⟩

end PP.Props.C08
