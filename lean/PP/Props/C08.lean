/-
PROPERTY C08.  "For all field elements, addition, subtraction, negation, doubling, multiplication,
squaring, inversion, exponentiation by any multi-limb exponent, comparison and zero test give the
results of integer arithmetic modulo q (381-bit base field) and r (255-bit scalar field); inversion
fails only for zero.  Conversion from an integer representation succeeds exactly for values below
the modulus, conversion back yields the unique reduced representative, and the fixed-width
representation type itself behaves as an unsigned 384/256-bit integer under its add and subtract
(within their no-carry / no-borrow preconditions), shift, halve, double, bit-length, parity and
big- / little-endian read/write operations."

Objects.  `PP.Mont` is the executable model of what `#[derive(PrimeField)]` generates: a field
element is a RAW integer `a < p` standing for `dec P a = a·W⁻¹ mod p` (`W = 2^(64·limbs)`), the
parameters `fqP`, `frP` carry the EXTRACTED constants `MODULUS`, `R`, `R2`, `INV`.  `toFq`/`toFr`
send a raw value to the canonical-level model `Fq = Zp q`, `Fr = Zp r` (integers modulo `q`, `r`
with `+ - *` DEFINED as integer arithmetic followed by `% p`).  Proved elsewhere (PP/Props/C08Limb.lean, PP/Props/GenDerive.lean): the unrolled limb-level `mul_assign`/`square`/`mont_reduce` of the proc-macro, extracted
from the macro-expanded crate, equal the integer-level word-by-word REDC `PP.Mont.redcRounds` used here.

Primality of `q`, `r` is only needed for `inverse` and is taken as a hypothesis there
(it is proved independently in `PP.Proofs.Primes`; hypothesis-free versions: PP/Props/C08Prime.lean).
-/
import PP.Proofs.Mont3
import PP.Proofs.Mont4
import PP.Proofs.Limbs

set_option exponentiation.threshold 2048

namespace PP.Props.C08
open PP PP.Mont PP.Gen

/-! ## 0. Parameters -/

/-- the extracted `Fq` constants are a consistent Montgomery parameter set for `q`, `W = 2^384` -/
theorem fq_params : fqP.WF ∧ fqP.p = q ∧ fqP.W = 2 ^ 384 ∧ fqP.limbs = 6 :=
  ⟨fqP_wf, fqP_p, rfl, rfl⟩

/-- the extracted `Fr` constants are a consistent Montgomery parameter set for `r`, `W = 2^256` -/
theorem fr_params : frP.WF ∧ frP.p = r ∧ frP.W = 2 ^ 256 ∧ frP.limbs = 4 :=
  ⟨frP_wf, frP_p, rfl, rfl⟩

/-- what `WF` says, spelled out for `Fq`: odd modulus with a spare bit, `INV = −q⁻¹ mod 2^64`,
    `R = 2^384 mod q`, `R2 = 2^768 mod q` -/
theorem fq_constants :
    q % 2 = 1 ∧ 2 ^ 380 < q ∧ q < 2 ^ 381 ∧ (fq_INV * q + 1) % 2 ^ 64 = 0 ∧
    fq_R = 2 ^ 384 % q ∧ fq_R2 = 2 ^ 768 % q :=
  ⟨by decide +kernel, q_bits.1, q_bits.2, fq_INV_eq.1, fq_R_eq, fq_R2_eq⟩

theorem fr_constants :
    r % 2 = 1 ∧ 2 ^ 254 < r ∧ r < 2 ^ 255 ∧ (fr_INV * r + 1) % 2 ^ 64 = 0 ∧
    fr_R = 2 ^ 256 % r ∧ fr_R2 = 2 ^ 512 % r :=
  ⟨by decide +kernel, r_bits.1, r_bits.2, fr_INV_eq.1, fr_R_eq, fr_R2_eq⟩

/-- decoding is characterised without inverses: `dec a = x ↔ a = x·W mod p` -/
theorem dec_iff {P : Params} (h : P.WF) {a x : ℕ} (ha : a < P.p) (hx : x < P.p) :
    dec P a = x ↔ a = x * P.W % P.p := dec_eq_iff h ha hx

/-- `dec` is a bijection of `[0, p)`: injective … -/
theorem dec_injective {P : Params} (h : P.WF) {a b : ℕ} (ha : a < P.p) (hb : b < P.p)
    (hab : dec P a = dec P b) : a = b := dec_inj h ha hb hab
/-- … and onto, with inverse `enc x = x·W mod p` -/
theorem dec_enc' {P : Params} (h : P.WF) {x : ℕ} (hx : x < P.p) :
    enc P x < P.p ∧ dec P (enc P x) = x :=
  ⟨enc_lt h x, by rw [dec_enc h, Nat.mod_eq_of_lt hx]⟩

/-! ## 1. Field operations on raw values, generic in the (well-formed) parameters.
Each result is again reduced, and decodes to the integer operation modulo `p`. -/

section generic
variable {P : Params} (h : P.WF) {a b : ℕ} (ha : a < P.p) (hb : b < P.p)
include h ha

theorem add_ok (hb : b < P.p) :
    add P a b < P.p ∧ add P a b = (a + b) % P.p ∧
      dec P (add P a b) = (dec P a + dec P b) % P.p :=
  ⟨(add_spec h ha hb).1, (add_spec h ha hb).2, dec_add h ha hb⟩

theorem sub_ok (hb : b < P.p) :
    sub P a b < P.p ∧ sub P a b = (a + P.p - b) % P.p ∧
      dec P (sub P a b) = (dec P a + P.p - dec P b) % P.p :=
  ⟨(sub_spec h ha hb).1, (sub_spec h ha hb).2, dec_sub h ha hb⟩

theorem neg_ok :
    neg P a < P.p ∧ neg P a = (P.p - a) % P.p ∧ dec P (neg P a) = (P.p - dec P a) % P.p :=
  ⟨(neg_spec h ha).1, (neg_spec h ha).2, dec_neg h ha⟩

theorem double_ok :
    double P a < P.p ∧ double P a = 2 * a % P.p ∧ dec P (double P a) = 2 * dec P a % P.p :=
  ⟨(double_spec h ha).1, (double_spec h ha).2, dec_double h ha⟩

omit ha in
/-- REDC -/
theorem montReduce_ok {T : ℕ} (hT : T < P.p * P.W) :
    montReduce P T < P.p ∧ montReduce P T * P.W % P.p = T % P.p := montReduce_spec h hT

theorem mul_ok (hb : b < P.p) :
    mul P a b < P.p ∧ mul P a b * P.W % P.p = a * b % P.p ∧
      dec P (mul P a b) = dec P a * dec P b % P.p :=
  ⟨(mul_spec h ha hb).1, (mul_spec h ha hb).2, dec_mul h ha hb⟩

theorem square_ok :
    square P a < P.p ∧ square P a * P.W % P.p = a * a % P.p ∧
      dec P (square P a) = dec P a * dec P a % P.p :=
  ⟨(square_spec h ha).1, (square_spec h ha).2, dec_square h ha⟩

/-- `pow` by an exponent given as a little-endian list of 64-bit limbs of ANY length
    (the empty list gives `1`) -/
theorem pow_ok (ls : List ℕ) (hok : ∀ l ∈ ls, l < 2 ^ 64) :
    pow P a ls < P.p ∧ dec P (pow P a ls) = dec P a ^ limbsToNat ls % P.p :=
  pow_spec h ha ls hok

/-- zero test -/
theorem isZero_ok : a = 0 ↔ dec P a = 0 := eq_zero_iff_dec_eq_zero h ha

/-- `into_repr` returns the decoded integer, the unique reduced representative -/
theorem intoRepr_ok :
    intoRepr P a < P.p ∧ intoRepr P a = dec P a ∧ intoRepr P a * P.W % P.p = a :=
  ⟨(intoRepr_spec h ha).1, (intoRepr_spec h ha).2.2, (intoRepr_spec h ha).2.1⟩

/-- `Eq`/`Ord` compare `into_repr()`; that map is injective, so they are equality / order of the
    decoded integers -/
theorem cmp_ok (hb : b < P.p) :
    (intoRepr P a = intoRepr P b ↔ a = b) ∧
    (intoRepr P a < intoRepr P b ↔ dec P a < dec P b) := by
  refine ⟨⟨intoRepr_inj h ha hb, fun e => by rw [e]⟩, ?_⟩
  rw [(intoRepr_spec h ha).2.2, (intoRepr_spec h hb).2.2]

theorem fromRepr_intoRepr_ok : fromRepr P (intoRepr P a) = some a := fromRepr_intoRepr h ha

/-- `inverse`: for a prime modulus and reduced `a ≠ 0` the model's fuel suffices and the result is
    the (raw form of the) modular inverse -/
theorem inverse_ok (hp : Nat.Prime P.p) (ha0 : a ≠ 0) :
    ∃ b, inverse P a = some (some b) ∧ b < P.p ∧ dec P a * dec P b % P.p = 1 :=
  inverse_spec h hp ha ha0

end generic

/-- `inverse` fails exactly for zero -/
theorem inverse_none_iff (P : Params) (a : ℕ) : inverse P a = some none ↔ a = 0 :=
  inverse_eq_some_none_iff P a

/-- `from_repr` succeeds exactly below the modulus … -/
theorem fromRepr_none_iff (P : Params) (x : ℕ) : fromRepr P x = none ↔ P.p ≤ x :=
  fromRepr_eq_none_iff P x

/-- … and then produces the reduced raw value that decodes to `x`; `into_repr` undoes it -/
theorem fromRepr_ok {P : Params} (h : P.WF) {x a : ℕ} (hx : fromRepr P x = some a) :
    x < P.p ∧ a < P.p ∧ a = x * P.W % P.p ∧ dec P a = x ∧ intoRepr P a = x :=
  ⟨(fromRepr_spec h hx).1, (fromRepr_spec h hx).2.1, (fromRepr_spec h hx).2.2.1,
    (fromRepr_spec h hx).2.2.2, intoRepr_fromRepr h hx⟩

/-! ## 2. The same for `Fq` and `Fr`, against the canonical-level model `Zp`
(whose `+ - * neg` are integer arithmetic modulo `q` / `r` by definition). -/

instance : PosNat fqP.p := ⟨by decide⟩
instance : PosNat frP.p := ⟨by decide⟩

/-- the element of `Fq` denoted by a raw 384-bit Montgomery value -/
def toFq (a : ℕ) : Fq := toZp fqP a
/-- the element of `Fr` denoted by a raw 256-bit Montgomery value -/
def toFr (a : ℕ) : Fr := toZp frP a

theorem toFq_v (a : ℕ) : (toFq a).v = a * Winv fqP % q := toZp_v fqP_wf a
theorem toFr_v (a : ℕ) : (toFr a).v = a * Winv frP % r := toZp_v frP_wf a

/-- `toFq` is a bijection between reduced raw values and `Fq` -/
theorem toFq_bij :
    (∀ a b, a < q → b < q → toFq a = toFq b → a = b) ∧ (∀ z : Fq, ∃ a, a < q ∧ toFq a = z) :=
  ⟨fun _ _ ha hb => toZp_inj fqP_wf ha hb, fun z => toZp_surj fqP_wf z⟩

theorem toFr_bij :
    (∀ a b, a < r → b < r → toFr a = toFr b → a = b) ∧ (∀ z : Fr, ∃ a, a < r ∧ toFr a = z) :=
  ⟨fun _ _ ha hb => toZp_inj frP_wf ha hb, fun z => toZp_surj frP_wf z⟩

section fq
variable {a b : ℕ} (ha : a < q) (hb : b < q)
include ha

omit ha in
theorem fq_zero_one : toFq 0 = 0 ∧ toFq fq_R = 1 := ⟨toZp_zero, toZp_R fqP_wf⟩
theorem fq_add (hb : b < q) : add fqP a b < q ∧ toFq (add fqP a b) = toFq a + toFq b :=
  ⟨(add_spec fqP_wf ha hb).1, toZp_add fqP_wf ha hb⟩
theorem fq_sub (hb : b < q) : sub fqP a b < q ∧ toFq (sub fqP a b) = toFq a - toFq b :=
  ⟨(sub_spec fqP_wf ha hb).1, toZp_sub fqP_wf ha hb⟩
theorem fq_neg : neg fqP a < q ∧ toFq (neg fqP a) = - toFq a :=
  ⟨(neg_spec fqP_wf ha).1, toZp_neg fqP_wf ha⟩
theorem fq_double : double fqP a < q ∧ toFq (double fqP a) = toFq a + toFq a :=
  ⟨(double_spec fqP_wf ha).1, toZp_double fqP_wf ha⟩
theorem fq_mul (hb : b < q) : mul fqP a b < q ∧ toFq (mul fqP a b) = toFq a * toFq b :=
  ⟨(mul_spec fqP_wf ha hb).1, toZp_mul fqP_wf ha hb⟩
theorem fq_square : square fqP a < q ∧ toFq (square fqP a) = toFq a * toFq a :=
  ⟨(square_spec fqP_wf ha).1, toZp_square fqP_wf ha⟩
theorem fq_pow (ls : List ℕ) (hok : ∀ l ∈ ls, l < 2 ^ 64) :
    pow fqP a ls < q ∧ toFq (pow fqP a ls) = toFq a ^ limbsToNat ls ∧
      (toFq (pow fqP a ls)).v = (toFq a).v ^ limbsToNat ls % q :=
  ⟨(pow_spec fqP_wf ha ls hok).1, toZp_pow fqP_wf ha ls hok, by
    rw [toFq_v, toFq_v]; exact (pow_spec fqP_wf ha ls hok).2⟩
theorem fq_isZero : Zp.isZero (toFq a) = decide (a = 0) := toZp_isZero fqP_wf ha
theorem fq_lt (hb : b < q) :
    Zp.lt (toFq a) (toFq b) = decide (intoRepr fqP a < intoRepr fqP b) := toZp_lt fqP_wf ha hb
theorem fq_intoRepr : intoRepr fqP a = (toFq a).v := intoRepr_eq_v fqP_wf ha
/-- inversion: never out of fuel, `none` exactly for zero, otherwise the field inverse -/
theorem fq_inverse (hq : Nat.Prime q) :
    ∃ o, inverse fqP a = some o ∧ o.map toFq = Zp.inv (toFq a) ∧ (∀ b ∈ o, b < q) ∧
      (o = none ↔ a = 0) := by
  obtain ⟨o, h1, h2, h3⟩ := toZp_inverse fqP_wf (fqP_p ▸ hq) ha
  refine ⟨o, h1, h2, h3, ?_⟩
  rw [← inverse_eq_some_none_iff fqP a, h1]; simp
end fq

theorem fq_fromRepr (x : ℕ) :
    (fromRepr fqP x = none ↔ q ≤ x) ∧
    (∀ a, fromRepr fqP x = some a → a < q ∧ (toFq a).v = x ∧ intoRepr fqP a = x) :=
  ⟨fromRepr_eq_none_iff fqP x, fun _ hx =>
    ⟨(fromRepr_spec fqP_wf hx).2.1, (toZp_fromRepr fqP_wf hx).2, intoRepr_fromRepr fqP_wf hx⟩⟩

section fr
variable {a b : ℕ} (ha : a < r) (hb : b < r)
include ha

omit ha in
theorem fr_zero_one : toFr 0 = 0 ∧ toFr fr_R = 1 := ⟨toZp_zero, toZp_R frP_wf⟩
theorem fr_add (hb : b < r) : add frP a b < r ∧ toFr (add frP a b) = toFr a + toFr b :=
  ⟨(add_spec frP_wf ha hb).1, toZp_add frP_wf ha hb⟩
theorem fr_sub (hb : b < r) : sub frP a b < r ∧ toFr (sub frP a b) = toFr a - toFr b :=
  ⟨(sub_spec frP_wf ha hb).1, toZp_sub frP_wf ha hb⟩
theorem fr_neg : neg frP a < r ∧ toFr (neg frP a) = - toFr a :=
  ⟨(neg_spec frP_wf ha).1, toZp_neg frP_wf ha⟩
theorem fr_double : double frP a < r ∧ toFr (double frP a) = toFr a + toFr a :=
  ⟨(double_spec frP_wf ha).1, toZp_double frP_wf ha⟩
theorem fr_mul (hb : b < r) : mul frP a b < r ∧ toFr (mul frP a b) = toFr a * toFr b :=
  ⟨(mul_spec frP_wf ha hb).1, toZp_mul frP_wf ha hb⟩
theorem fr_square : square frP a < r ∧ toFr (square frP a) = toFr a * toFr a :=
  ⟨(square_spec frP_wf ha).1, toZp_square frP_wf ha⟩
theorem fr_pow (ls : List ℕ) (hok : ∀ l ∈ ls, l < 2 ^ 64) :
    pow frP a ls < r ∧ toFr (pow frP a ls) = toFr a ^ limbsToNat ls ∧
      (toFr (pow frP a ls)).v = (toFr a).v ^ limbsToNat ls % r :=
  ⟨(pow_spec frP_wf ha ls hok).1, toZp_pow frP_wf ha ls hok, by
    rw [toFr_v, toFr_v]; exact (pow_spec frP_wf ha ls hok).2⟩
theorem fr_isZero : Zp.isZero (toFr a) = decide (a = 0) := toZp_isZero frP_wf ha
theorem fr_lt (hb : b < r) :
    Zp.lt (toFr a) (toFr b) = decide (intoRepr frP a < intoRepr frP b) := toZp_lt frP_wf ha hb
theorem fr_intoRepr : intoRepr frP a = (toFr a).v := intoRepr_eq_v frP_wf ha
theorem fr_inverse (hr : Nat.Prime r) :
    ∃ o, inverse frP a = some o ∧ o.map toFr = Zp.inv (toFr a) ∧ (∀ b ∈ o, b < r) ∧
      (o = none ↔ a = 0) := by
  obtain ⟨o, h1, h2, h3⟩ := toZp_inverse frP_wf (frP_p ▸ hr) ha
  refine ⟨o, h1, h2, h3, ?_⟩
  rw [← inverse_eq_some_none_iff frP a, h1]; simp
end fr

theorem fr_fromRepr (x : ℕ) :
    (fromRepr frP x = none ↔ r ≤ x) ∧
    (∀ a, fromRepr frP x = some a → a < r ∧ (toFr a).v = x ∧ intoRepr frP a = x) :=
  ⟨fromRepr_eq_none_iff frP x, fun _ hx =>
    ⟨(fromRepr_spec frP_wf hx).2.1, (toZp_fromRepr frP_wf hx).2, intoRepr_fromRepr frP_wf hx⟩⟩

/-! ### non-vacuity: the operations evaluated on concrete raw values -/

example : enc fqP 3 < q ∧ enc fqP 5 < q := by decide +kernel
example : add fqP (enc fqP (q - 3)) (enc fqP 5) = enc fqP 2 := by decide +kernel
example : sub fqP (enc fqP 3) (enc fqP 5) = enc fqP (q - 2) := by decide +kernel
example : neg fqP (enc fqP 3) = enc fqP (q - 3) ∧ neg fqP 0 = 0 := by decide +kernel
example : double fqP (enc fqP (q - 1)) = enc fqP (q - 2) := by decide +kernel
example : mul fqP (enc fqP 3) (enc fqP 5) = enc fqP 15 := by decide +kernel
example : square frP (enc frP (r - 2)) = enc frP 4 := by decide +kernel
example : pow fqP (enc fqP 2) [10] = enc fqP 1024 ∧ pow fqP (enc fqP 2) [] = fq_R ∧
    pow frP (enc frP 2) [0, 1] = enc frP (powMod 2 (2 ^ 64) r) := by decide +kernel
example : fromRepr fqP 7 = some (enc fqP 7) ∧ intoRepr fqP (enc fqP 7) = 7 ∧
    fromRepr fqP q = none ∧ fromRepr fqP (q - 1) = some NEGATIVE_ONE := by decide +kernel
example : inverse fqP (enc fqP 2) = some (some (enc fqP ((q + 1) / 2))) ∧
    inverse fqP 0 = some none := by decide +kernel
example : inverse frP (enc frP 7) = some (some (enc frP (powMod 7 (r - 2) r))) := by
  decide +kernel

/-! ## 3. Hard-coded constants (all extracted from the Rust source) -/

/-- every raw `Fq` literal is reduced -/
theorem fq_literals_reduced :
    fq_R < q ∧ fq_R2 < q ∧ fq_GENERATOR < q ∧ fq_ROOT_OF_UNITY < q ∧ fq_SQRT_CMP < q ∧
    B_COEFF < q ∧ G1_GENERATOR_X < q ∧ G1_GENERATOR_Y < q ∧
    G2_GENERATOR_X_C0 < q ∧ G2_GENERATOR_X_C1 < q ∧ G2_GENERATOR_Y_C0 < q ∧
    G2_GENERATOR_Y_C1 < q ∧ NEGATIVE_ONE < q ∧ F_2_256 < q := fq_raw_lt

theorem fq_frobenius_literals_reduced :
    (∀ x ∈ FROBENIUS_COEFF_FQ2_C1, x < q) ∧
    (∀ x ∈ FROBENIUS_COEFF_FQ6_C1, x.1 < q ∧ x.2 < q) ∧
    (∀ x ∈ FROBENIUS_COEFF_FQ6_C2, x.1 < q ∧ x.2 < q) ∧
    (∀ x ∈ FROBENIUS_COEFF_FQ12_C1, x.1 < q ∧ x.2 < q) := frobenius_raw_lt

theorem fr_literals_reduced :
    fr_R < r ∧ fr_R2 < r ∧ fr_GENERATOR < r ∧ fr_ROOT_OF_UNITY < r ∧ F_2_192 < r := fr_raw_lt

/-- the raw literals of the hash-to-curve maps (SSWU / isogeny constants) are reduced as well -/
theorem map_literals_reduced :
    G1_ELLP_A < q ∧ G1_ELLP_B < q ∧ G1_XI < q ∧ G1_SQRT_M_XI_CUBED < q ∧
    (G2_ELLP_A.1 < q ∧ G2_ELLP_A.2 < q) ∧ (G2_ELLP_B.1 < q ∧ G2_ELLP_B.2 < q) ∧
    (G2_XI.1 < q ∧ G2_XI.2 < q) ∧
    (∀ x ∈ G2_ETAS, x.1 < q ∧ x.2 < q) ∧ (∀ x ∈ G2_ROOTS_OF_UNITY, x.1 < q ∧ x.2 < q) ∧
    (∀ x ∈ ISO11_XNUM, x < q) ∧ (∀ x ∈ ISO11_XDEN, x < q) ∧
    (∀ x ∈ ISO11_YNUM, x < q) ∧ (∀ x ∈ ISO11_YDEN, x < q) ∧
    (∀ x ∈ ISO3_XNUM, x.1 < q ∧ x.2 < q) ∧ (∀ x ∈ ISO3_XDEN, x.1 < q ∧ x.2 < q) ∧
    (∀ x ∈ ISO3_YNUM, x.1 < q ∧ x.2 < q) ∧ (∀ x ∈ ISO3_YDEN, x.1 < q ∧ x.2 < q) := maps_raw_lt

/-- the named `Fq` literals as Montgomery encodings (inverse-free form `raw = x·2^384 mod q`) -/
theorem fq_literals :
    B_COEFF = 4 * 2 ^ 384 % q ∧ NEGATIVE_ONE = (q - 1) * 2 ^ 384 % q ∧
    F_2_256 = 2 ^ 256 * 2 ^ 384 % q ∧ fq_GENERATOR = fqGenerator * 2 ^ 384 % q ∧
    fqGenerator = 2 ∧ fq_ROOT_OF_UNITY = (q - 1) * 2 ^ 384 % q ∧ fq_ROOT_OF_UNITY = fq_SQRT_CMP :=
  ⟨B_COEFF_eq, NEGATIVE_ONE_eq, F_2_256_eq, fq_GENERATOR_eq, rfl, fq_ROOT_OF_UNITY_eq,
    fq_ROOT_OF_UNITY_eq_SQRT_CMP⟩

/-- … and decoded -/
theorem fq_literals_dec :
    dec fqP fq_R = 1 ∧ dec fqP B_COEFF = 4 ∧ dec fqP NEGATIVE_ONE = q - 1 ∧
    dec fqP F_2_256 = 2 ^ 256 ∧ dec fqP fq_GENERATOR = 2 ∧ dec fqP fq_ROOT_OF_UNITY = q - 1 :=
  ⟨dec_fq_R, dec_B_COEFF, dec_NEGATIVE_ONE, dec_F_2_256, dec_fq_GENERATOR, dec_fq_ROOT_OF_UNITY⟩

/-- `frOmega = 7^((r−1)/2^32) mod r` -/
theorem fr_literals :
    F_2_192 = 2 ^ 192 * 2 ^ 256 % r ∧ fr_GENERATOR = frGenerator * 2 ^ 256 % r ∧ frGenerator = 7 ∧
    fr_ROOT_OF_UNITY = frOmega * 2 ^ 256 % r ∧ frOmega = 7 ^ ((r - 1) / 2 ^ 32) % r :=
  ⟨F_2_192_eq, fr_GENERATOR_eq, rfl, fr_ROOT_OF_UNITY_eq, frOmega_eq⟩

theorem fr_literals_dec :
    dec frP fr_R = 1 ∧ dec frP F_2_192 = 2 ^ 192 ∧ dec frP fr_GENERATOR = 7 ∧
    dec frP fr_ROOT_OF_UNITY = frOmega :=
  ⟨dec_fr_R, dec_F_2_192, dec_fr_GENERATOR, dec_fr_ROOT_OF_UNITY⟩

/-- the decoded `Fr::ROOT_OF_UNITY` has multiplicative order exactly `2^32` -/
theorem fr_root_of_unity_order :
    let ω := dec frP fr_ROOT_OF_UNITY
    ω ^ 2 ^ 32 % r = 1 ∧ ω ^ 2 ^ 31 % r = r - 1 ∧ ω ^ 2 ^ 31 % r ≠ 1 := by
  intro ω
  have : ω = frOmega := dec_fr_ROOT_OF_UNITY
  rw [this]; exact frOmega_order

/-- the decoded `Fq::ROOT_OF_UNITY` is `−1 = 2^((q−1)/2)`, of order `2 = 2^S` -/
theorem fq_root_of_unity :
    dec fqP fq_ROOT_OF_UNITY = q - 1 ∧ 2 ^ ((q - 1) / 2) % q = q - 1 ∧ (q - 1) ^ 2 % q = 1 :=
  ⟨dec_fq_ROOT_OF_UNITY, fq_ROOT_OF_UNITY_pow, by decide +kernel⟩

/-- exponents used by `legendre` / `sqrt` -/
theorem exponents :
    q % 4 = 3 ∧ fq_LEGENDRE_EXP = (q - 1) / 2 ∧ fq_SQRT_EXP = (q - 3) / 4 ∧ fq_S = 1 ∧
    fr_LEGENDRE_EXP = (r - 1) / 2 ∧ fr_S = 32 ∧ (r - 1) % 2 ^ 32 = 0 ∧
    fr_SQRT_T_EXP = (r - 1) / 2 ^ 32 ∧ fr_SQRT_T_EXP % 2 = 1 ∧
    fr_SQRT_R_EXP = ((r - 1) / 2 ^ 32 + 1) / 2 :=
  ⟨q_mod_4, fq_LEGENDRE_EXP_eq, fq_SQRT_EXP_eq, rfl, fr_LEGENDRE_EXP_eq, rfl,
    fr_two_adicity.1, fr_SQRT_T_EXP_eq, by decide +kernel, fr_SQRT_R_EXP_eq⟩

/-- the canonical-level model reads raw literals with `Fq.ofMont`/`Fr.ofMont`; that is `dec` -/
theorem ofMont_eq (raw : ℕ) :
    (Fq.ofMont raw).v = dec fqP raw ∧ (Fr.ofMont raw).v = dec frP raw :=
  ⟨Fq_ofMont_v raw, Fr_ofMont_v raw⟩

/-! ## 4. The representation type `FqRepr([u64; 6])` / `FrRepr([u64; 4])`
A repr is a little-endian list of `n` limbs `< 2^64` (`Repr n a`); its value is `limbsToNat a`.
Every statement holds for any `n`; `n = 6` gives 384-bit, `n = 4` gives 256-bit integers. -/

open PP.Limbs

/-- a well-formed `n`-limb representation -/
def Repr (n : ℕ) (a : List ℕ) : Prop := LimbsOK a ∧ a.length = n

/-- reprs of `n` limbs are exactly the integers below `2^(64n)`:
    `limbsToNat` and `limbsOf n` are mutually inverse -/
theorem repr_bijection (n : ℕ) :
    (∀ a, Repr n a → limbsToNat a < 2 ^ (64 * n) ∧ limbsOf n (limbsToNat a) = a) ∧
    (∀ x, Repr n (limbsOf n x) ∧ limbsToNat (limbsOf n x) = x % 2 ^ (64 * n)) :=
  ⟨fun _ ⟨ha, hl⟩ => ⟨hl ▸ limbsToNat_lt ha, limbsOf_limbsToNat ha hl⟩,
   fun x => ⟨⟨limbsOf_ok n x, limbsOf_length n x⟩, limbsToNat_limbsOf n x⟩⟩

section repr
variable {n : ℕ} {a b : List ℕ} (ha : Repr n a) (hb : Repr n b)
include ha

/-- `add_nocarry`: addition modulo `2^(64n)`, exact under the no-carry precondition -/
theorem add_nocarry_ok (hb : Repr n b) :
    Repr n (addNocarry a b 0) ∧
    limbsToNat (addNocarry a b 0) = (limbsToNat a + limbsToNat b) % 2 ^ (64 * n) ∧
    (limbsToNat a + limbsToNat b < 2 ^ (64 * n) →
      limbsToNat (addNocarry a b 0) = limbsToNat a + limbsToNat b) := by
  obtain ⟨ha1, ha2⟩ := ha; obtain ⟨hb1, hb2⟩ := hb
  have hl : a.length = b.length := by omega
  subst ha2
  exact ⟨⟨addNocarry_ok a b 0, addNocarry_length 0 hl⟩, limbsToNat_addNocarry hl,
    limbsToNat_addNocarry_of_lt hl⟩

/-- `sub_noborrow`: subtraction modulo `2^(64n)`, exact under the no-borrow precondition -/
theorem sub_noborrow_ok (hb : Repr n b) :
    Repr n (subNoborrow a b 0) ∧
    limbsToNat (subNoborrow a b 0)
      = (limbsToNat a + 2 ^ (64 * n) - limbsToNat b) % 2 ^ (64 * n) ∧
    (limbsToNat b ≤ limbsToNat a →
      limbsToNat (subNoborrow a b 0) = limbsToNat a - limbsToNat b) := by
  obtain ⟨ha1, ha2⟩ := ha; obtain ⟨hb1, hb2⟩ := hb
  have hl : a.length = b.length := by omega
  subst ha2
  exact ⟨⟨subNoborrow_ok a b 0, subNoborrow_length 0 hl⟩, limbsToNat_subNoborrow ha1 hb1 hl,
    limbsToNat_subNoborrow_of_le ha1 hb1 hl⟩

/-- `div2` halves -/
theorem div2_ok : Repr n (div2 a) ∧ limbsToNat (div2 a) = limbsToNat a / 2 :=
  ⟨⟨Limbs.div2_ok ha.1, by rw [div2_length, ha.2]⟩, limbsToNat_div2 ha.1⟩

/-- `mul2` doubles modulo `2^(64n)` -/
theorem mul2_ok : Repr n (mul2 a) ∧ limbsToNat (mul2 a) = limbsToNat a * 2 % 2 ^ (64 * n) :=
  ⟨⟨Limbs.mul2_ok ha.1, by rw [mul2_length, ha.2]⟩, by rw [limbsToNat_mul2 ha.1, ha.2]⟩

/-- `shr(k)` for every `k` (`k ≥ 64n` gives zero) -/
theorem shr_ok (k : ℕ) : Repr n (shr a k) ∧ limbsToNat (shr a k) = limbsToNat a / 2 ^ k :=
  ⟨⟨Limbs.shr_ok ha.1 k, by rw [shr_length, ha.2]⟩, limbsToNat_shr ha.1 k⟩

/-- `shl(k)` for every `k`, modulo `2^(64n)` -/
theorem shl_ok (k : ℕ) :
    Repr n (shl a k) ∧ limbsToNat (shl a k) = limbsToNat a * 2 ^ k % 2 ^ (64 * n) :=
  ⟨⟨Limbs.shl_ok ha.1 k, by rw [shl_length, ha.2]⟩, by rw [limbsToNat_shl ha.1 k, ha.2]⟩

/-- `num_bits` is the bit length: `0` for `0`, else `⌊log₂ A⌋ + 1`; equivalently the least `k`
    with `A < 2^k` -/
theorem numBits_ok :
    numBits a = (if limbsToNat a = 0 then 0 else Nat.log2 (limbsToNat a) + 1) ∧
    limbsToNat a < 2 ^ numBits a ∧ (limbsToNat a ≠ 0 → 2 ^ (numBits a - 1) ≤ limbsToNat a) ∧
    numBits a ≤ 64 * n :=
  ⟨numBits_eq ha.1, lt_two_pow_numBits ha.1, two_pow_numBits_le ha.1, ha.2 ▸ numBits_le ha.1⟩

omit ha in
/-- parity and zero test (no well-formedness needed) -/
theorem isOdd_isZero_ok (a : List ℕ) :
    isOdd a = (limbsToNat a % 2 == 1) ∧ (isZero a = true ↔ limbsToNat a = 0) :=
  ⟨isOdd_eq a, isZero_iff a⟩

/-- `Ord for Repr` compares the integers -/
theorem cmp_repr_ok (hb : Repr n b) :
    Mont.cmp a b = if limbsToNat a < limbsToNat b then -1
      else if limbsToNat a > limbsToNat b then 1 else 0 :=
  cmp_eq ha.1 hb.1 (by rw [ha.2, hb.2])

end repr

/-- `read_be`/`write_be`, `read_le`/`write_le` (byte strings of any length `len`; `len = 8n` for an
    `n`-limb repr): mutually inverse conversions between `len` bytes and integers `< 256^len` -/
theorem bytes_ok (len : ℕ) :
    (∀ x, (beBytes len x).length = len ∧ beToNat (beBytes len x) = x % 256 ^ len) ∧
    (∀ bs : Bytes, bs.length = len → beToNat bs < 256 ^ len ∧ beBytes len (beToNat bs) = bs) ∧
    (∀ x, (leBytes len x).length = len ∧ leToNat (leBytes len x) = x % 256 ^ len) ∧
    (∀ bs : Bytes, bs.length = len → leToNat bs < 256 ^ len ∧ leBytes len (leToNat bs) = bs) :=
  ⟨fun x => ⟨beBytes_length len x, beToNat_beBytes len x⟩,
   fun bs hl => ⟨hl ▸ beToNat_lt bs, beBytes_beToNat hl⟩,
   fun x => ⟨leBytes_length len x, leToNat_leBytes len x⟩,
   fun bs hl => ⟨hl ▸ leToNat_lt bs, leBytes_leToNat hl⟩⟩

/-- the bit iterator used by `pow` reads the binary expansion of the limbs, most significant first -/
theorem bitsMSB_ok (ls : List ℕ) (hok : LimbsOK ls) :
    (bitsMSB ls).foldl (fun acc b => 2 * acc + b.toNat) 0 = limbsToNat ls :=
  bitsVal_bitsMSB_ok ls hok

/-- consistency of the two levels of the model: the integer-level `add` of `PP.Mont` is the
    limb-level `add_nocarry` followed by the conditional `sub_noborrow(MODULUS)` -/
theorem add_via_limbs {P : Params} (h : P.WF) {a b : ℕ} (ha : a < P.p) (hb : b < P.p) :
    add P a b =
      (let s := addNocarry (limbsOf P.limbs a) (limbsOf P.limbs b) 0
       if Mont.cmp s (limbsOf P.limbs P.p) = -1 then limbsToNat s
       else limbsToNat (subNoborrow s (limbsOf P.limbs P.p) 0)) := by
  have hpW := h.p_lt_W
  have hW : P.W = 2 ^ (64 * P.limbs) := rfl
  have hra := (repr_bijection P.limbs).2 a
  have hrb := (repr_bijection P.limbs).2 b
  have hrp := (repr_bijection P.limbs).2 P.p
  rw [← hW] at hra hrb hrp
  rw [Nat.mod_eq_of_lt (by omega)] at hra hrb hrp
  obtain ⟨s1, s2, _⟩ := add_nocarry_ok hra.1 hrb.1
  rw [hra.2, hrb.2, ← hW] at s2
  obtain ⟨_, t2, _⟩ := sub_noborrow_ok s1 hrp.1
  rw [hrp.2, ← hW] at t2
  have hc := cmp_repr_ok s1 hrp.1
  rw [hrp.2] at hc
  simp only
  rw [hc, t2, s2]
  unfold add reduce
  by_cases hlt : (a + b) % P.W < P.p
  · simp [hlt]
  · have : ¬ ((-1 : ℤ) = 1) := by decide
    by_cases hgt : (a + b) % P.W > P.p <;> simp [hlt, hgt]

/-! ### non-vacuity for the repr level -/

example : Repr 6 (limbsOf 6 q) ∧ limbsToNat (limbsOf 6 q) = q := by
  refine ⟨((repr_bijection 6).2 q).1, ?_⟩; decide +kernel
example : limbsToNat (addNocarry (limbsOf 6 q) (limbsOf 6 q) 0) = 2 * q ∧
    limbsToNat (subNoborrow (limbsOf 6 q) (limbsOf 6 5) 0) = q - 5 ∧
    limbsToNat (subNoborrow (limbsOf 4 5) (limbsOf 4 r) 0) = 2 ^ 256 + 5 - r ∧
    limbsToNat (div2 (limbsOf 6 q)) = q / 2 ∧ limbsToNat (mul2 (limbsOf 4 r)) = 2 * r ∧
    limbsToNat (shr (limbsOf 6 q) 129) = q / 2 ^ 129 ∧ limbsToNat (shr (limbsOf 6 q) 384) = 0 ∧
    limbsToNat (shl (limbsOf 6 q) 70) = q * 2 ^ 70 % 2 ^ 384 ∧
    numBits (limbsOf 6 q) = 381 ∧ numBits (limbsOf 4 r) = 255 ∧ numBits (limbsOf 4 0) = 0 ∧
    isOdd (limbsOf 6 q) = true ∧ isZero (limbsOf 6 q) = false ∧
    Mont.cmp (limbsOf 6 q) (limbsOf 6 fq_R) = 1 := by decide +kernel
example : beToNat (beBytes 48 q) = q ∧ leToNat (leBytes 32 r) = r ∧
    beBytes 2 0x1234 = [0x12, 0x34] ∧ leBytes 2 0x1234 = [0x34, 0x12] := by decide +kernel

end PP.Props.C08
