/-
PROPERTY C11, the cancellation law on which signature verification relies, for ALL inputs and WITHOUT any
bilinearity assumption:

    e(-P, Q) · e(P, Q) = 1,     e(P, -Q) = e(-P, Q),     e(-P, -Q) = e(P, Q)

for every `P` accepted by the model's `is_on_curve` (`P ∈ E(Fq)`, not necessarily in `G1`) and every `Q`
accepted by the model's `in_subgroup` (`Q ∈ G2`), the point at infinity included.  Consequently

    pairing_product(P, Q, -P, Q) = pairing_product(P, Q, P, -Q) = 1,
    pairing_multi_product([P, -P], [Q, Q]) = pairing_multi_product([P, P], [Q, -Q]) = 1,

and none of these calls panics.

How the statement is rendered.  `pairing`, `pairingProduct`, `pairingMultiProduct` are the model functions
of `PP/Model/Pairing.lean` (`none` = a panic of the Rust code); `Aff.neg` is the model of `neg` on affine
points (`PP/Model/Curve.lean`); `e⁻¹`, `1` refer to the `Field` structure of `Fq12` built on the model's own
operations (`PP.Proofs.Tower`).

How it is proved.  `C03Lines.pairing_is_reduced_ate_checked` identifies `pairing P Q` with the textbook
reduced ate pairing `conj(f_{|x|,Q}(P))^(3(q¹²-1)/r)` for finite `P ∈ E(Fq)`, `Q ∈ G2`; `-Q ∈ G2` and
`-P ∈ E(Fq)` again (`C07`).  On the textbook side (`PP/Proofs/NegPair.lean`): with `σ` the conjugation
of `Fq12/Fq6`, every tangent/chord line satisfies `σ(l_T(P)) = -l_T(-P) = l_{-T}(P)`, so the Miller values
satisfy `f_Q(-P) = ± σ f_Q(P)`, `f_{-Q}(P) = ± f_Q(-P)`; the sign and the relative norm `f · σ f ∈ Fq6ˣ`
are killed by the final exponent (`C12`).  `f ≠ 0` because `E(Fq)` has no point with `y = 0`.

Everything is proved; no `_partial` statement.
-/
import PP.Proofs.NegPair
import PP.Props.C03Lines
import PP.Props.C11

namespace PP.C11Neg
open PP Ate Miller NegPair

/-! ## negation of model points -/

theorem neg_finite_g1 (p : Aff Fq) (h : p.infinity = false) : p.neg = ⟨p.x, -p.y, false⟩ := by
  simp [Aff.neg, h]

theorem neg_finite_g2 (q : Aff Fq2) (h : q.infinity = false) : q.neg = ⟨q.x, -q.y, false⟩ := by
  simp [Aff.neg, h]

theorem neg_infinite_g1 (p : Aff Fq) (h : p.infinity = true) : p.neg = p := by simp [Aff.neg, h]
theorem neg_infinite_g2 (q : Aff Fq2) (h : q.infinity = true) : q.neg = q := by simp [Aff.neg, h]

/-- `-P` is on the curve when `P` is -/
theorem neg_isOnCurve (p : Aff Fq) (hp : p.isOnCurve g1Codec.b = true) :
    p.neg.isOnCurve g1Codec.b = true :=
  (Aff.isOnCurve_iff _ _).mpr (Aff.neg_spec ((Aff.isOnCurve_iff _ p).mp hp)).1

/-- `-Q` is accepted by `in_subgroup` when `Q` is -/
theorem neg_inSubgroup (q : Aff Fq2) (hq : Aff.inSubgroup g2Codec.b q = true) :
    Aff.inSubgroup g2Codec.b q.neg = true :=
  (Aff.inSubgroup_iff_inSub _).mpr ((Aff.inSubgroup_iff_inSub q).mp hq).neg

/-! ## the textbook pairing -/

/-- **`e(-P,Q) · e(P,Q) = 1`** for the textbook reduced ate pairing: all `Q`, all `P` with `y_P ≠ 0` -/
theorem reducedAte_neg_left_mul (P : Fq × Fq) (Q : Fq2 × Fq2) (hy : P.2 ≠ 0) :
    reducedAte (P.1, -P.2) Q * reducedAte P Q = 1 := NegPair.reducedAte_neg_left_mul P Q hy

/-- **`e(P,-Q) = e(-P,Q)`** for the textbook reduced ate pairing, all `P`, `Q` -/
theorem reducedAte_neg_right (P : Fq × Fq) (Q : Fq2 × Fq2) :
    reducedAte P (Q.1, -Q.2) = reducedAte (P.1, -P.2) Q := NegPair.reducedAte_neg_right P Q

/-- the Miller values themselves: `f_Q(-P) = ± conj(f_Q(P))` and `f_{-Q}(P) = ± f_Q(-P)` -/
theorem textbookMiller_neg (P : Fq × Fq) (Q : Fq2 × Fq2) :
    (Fq12.conjugate (textbookMiller P Q) = textbookMiller (P.1, -P.2) Q ∨
      Fq12.conjugate (textbookMiller P Q) = -textbookMiller (P.1, -P.2) Q) ∧
    (textbookMiller P (Q.1, -Q.2) = textbookMiller (P.1, -P.2) Q ∨
      textbookMiller P (Q.1, -Q.2) = -textbookMiller (P.1, -P.2) Q) :=
  ⟨textbookMiller_neg_left P Q, textbookMiller_neg_right P Q⟩

/-! ## (1), (2): finite points -/

/-- the pairing of a finite `P ∈ E(Fq)` with a finite `Q ∈ G2` does not panic and is not `0` -/
theorem pairing_finite_some (p : Aff Fq) (q : Aff Fq2) (hp : p.isOnCurve g1Codec.b = true)
    (hpi : p.infinity = false) (hq : Aff.inSubgroup g2Codec.b q = true) (hqi : q.infinity = false) :
    ∃ e : Fq12, e ≠ 0 ∧ pairing p q = some e :=
  ⟨_, reducedAte_ne_zero (p.x, p.y) (q.x, q.y)
      (Lines.g1_y_ne_zero ((Aff.isOnCurve_iff _ p).mp hp) hpi),
    C03Lines.pairing_is_reduced_ate_checked p q hp hpi hq hqi⟩

/-- **(1) `e(-P, Q) = e(P, Q)⁻¹`**: finite `P ∈ E(Fq)`, finite `Q ∈ G2` -/
theorem pairing_neg_left (p : Aff Fq) (q : Aff Fq2) (hp : p.isOnCurve g1Codec.b = true)
    (hpi : p.infinity = false) (hq : Aff.inSubgroup g2Codec.b q = true) (hqi : q.infinity = false)
    (e : Fq12) (h : pairing p q = some e) : pairing p.neg q = some e⁻¹ := by
  have hy := Lines.g1_y_ne_zero ((Aff.isOnCurve_iff _ p).mp hp) hpi
  have hn := neg_finite_g1 p hpi
  rw [C03Lines.pairing_is_reduced_ate_checked p q hp hpi hq hqi] at h
  rw [C03Lines.pairing_is_reduced_ate_checked p.neg q (neg_isOnCurve p hp) (by rw [hn]) hq hqi, hn,
    ← Option.some.inj h]
  exact congrArg some (NegPair.reducedAte_neg_left (p.x, p.y) (q.x, q.y) hy)

/-- **(2) `e(P, -Q) = e(P, Q)⁻¹`**: finite `P ∈ E(Fq)`, finite `Q ∈ G2` -/
theorem pairing_neg_right (p : Aff Fq) (q : Aff Fq2) (hp : p.isOnCurve g1Codec.b = true)
    (hpi : p.infinity = false) (hq : Aff.inSubgroup g2Codec.b q = true) (hqi : q.infinity = false)
    (e : Fq12) (h : pairing p q = some e) : pairing p q.neg = some e⁻¹ := by
  have hn := neg_finite_g2 q hqi
  rw [← pairing_neg_left p q hp hpi hq hqi e h,
    C03Lines.pairing_is_reduced_ate_checked p q.neg hp hpi (neg_inSubgroup q hq) (by rw [hn]), hn,
    C03Lines.pairing_is_reduced_ate_checked p.neg q (neg_isOnCurve p hp)
      (by rw [neg_finite_g1 p hpi]) hq hqi, neg_finite_g1 p hpi]
  exact congrArg some (NegPair.reducedAte_neg_right (p.x, p.y) (q.x, q.y))

/-! ## the same with the point at infinity allowed -/

/-- for `P ∈ E(Fq)` and `Q ∈ G2` (identity allowed) the pairing does not panic and is not `0` -/
theorem pairing_some (p : Aff Fq) (q : Aff Fq2) (hp : p.isOnCurve g1Codec.b = true)
    (hq : Aff.inSubgroup g2Codec.b q = true) : ∃ e : Fq12, e ≠ 0 ∧ pairing p q = some e := by
  cases hpi : p.infinity with
  | true => exact ⟨1, one_ne_zero, C11.pairing_identity p q (Or.inl hpi)⟩
  | false =>
    cases hqi : q.infinity with
    | true => exact ⟨1, one_ne_zero, C11.pairing_identity p q (Or.inr hqi)⟩
    | false => exact pairing_finite_some p q hp hpi hq hqi

/-- **`e(-P, Q) = e(P, Q)⁻¹`** for every `P` accepted by `is_on_curve`, every `Q` accepted by
    `in_subgroup` -/
theorem pairing_neg_left_all (p : Aff Fq) (q : Aff Fq2) (hp : p.isOnCurve g1Codec.b = true)
    (hq : Aff.inSubgroup g2Codec.b q = true) (e : Fq12) (h : pairing p q = some e) :
    pairing p.neg q = some e⁻¹ := by
  cases hpi : p.infinity with
  | true =>
    rw [C11.pairing_identity p q (Or.inl hpi)] at h
    rw [neg_infinite_g1 p hpi, C11.pairing_identity p q (Or.inl hpi), ← Option.some.inj h, inv_one]
  | false =>
    cases hqi : q.infinity with
    | true =>
      rw [C11.pairing_identity p q (Or.inr hqi)] at h
      rw [C11.pairing_identity p.neg q (Or.inr hqi), ← Option.some.inj h, inv_one]
    | false => exact pairing_neg_left p q hp hpi hq hqi e h

/-- **`e(P, -Q) = e(P, Q)⁻¹`**, likewise -/
theorem pairing_neg_right_all (p : Aff Fq) (q : Aff Fq2) (hp : p.isOnCurve g1Codec.b = true)
    (hq : Aff.inSubgroup g2Codec.b q = true) (e : Fq12) (h : pairing p q = some e) :
    pairing p q.neg = some e⁻¹ := by
  cases hqi : q.infinity with
  | true =>
    rw [C11.pairing_identity p q (Or.inr hqi)] at h
    rw [neg_infinite_g2 q hqi, C11.pairing_identity p q (Or.inr hqi), ← Option.some.inj h, inv_one]
  | false =>
    cases hpi : p.infinity with
    | true =>
      rw [C11.pairing_identity p q (Or.inl hpi)] at h
      rw [C11.pairing_identity p q.neg (Or.inl hpi), ← Option.some.inj h, inv_one]
    | false => exact pairing_neg_right p q hp hpi hq hqi e h

/-- **`e(P, -Q) = e(-P, Q)`** -/
theorem pairing_neg_right_eq_neg_left (p : Aff Fq) (q : Aff Fq2)
    (hp : p.isOnCurve g1Codec.b = true) (hq : Aff.inSubgroup g2Codec.b q = true) :
    pairing p q.neg = pairing p.neg q := by
  obtain ⟨e, -, he⟩ := pairing_some p q hp hq
  rw [pairing_neg_left_all p q hp hq e he, pairing_neg_right_all p q hp hq e he]

/-- **`e(-P, -Q) = e(P, Q)`** -/
theorem pairing_neg_neg (p : Aff Fq) (q : Aff Fq2) (hp : p.isOnCurve g1Codec.b = true)
    (hq : Aff.inSubgroup g2Codec.b q = true) : pairing p.neg q.neg = pairing p q := by
  obtain ⟨e, -, he⟩ := pairing_some p q hp hq
  rw [pairing_neg_right_all p.neg q (neg_isOnCurve p hp) hq e⁻¹
    (pairing_neg_left_all p q hp hq e he), inv_inv, he]

/-- in `Option`, without naming the value: `e(-P, Q) = e(P, Q)⁻¹`, `e(P, -Q) = e(P, Q)⁻¹` -/
theorem pairing_neg_left_map (p : Aff Fq) (q : Aff Fq2) (hp : p.isOnCurve g1Codec.b = true)
    (hq : Aff.inSubgroup g2Codec.b q = true) : pairing p.neg q = (pairing p q).map (·⁻¹) := by
  obtain ⟨e, -, he⟩ := pairing_some p q hp hq
  rw [pairing_neg_left_all p q hp hq e he, he]; rfl

theorem pairing_neg_right_map (p : Aff Fq) (q : Aff Fq2) (hp : p.isOnCurve g1Codec.b = true)
    (hq : Aff.inSubgroup g2Codec.b q = true) : pairing p q.neg = (pairing p q).map (·⁻¹) := by
  obtain ⟨e, -, he⟩ := pairing_some p q hp hq
  rw [pairing_neg_right_all p q hp hq e he, he]; rfl

/-! ## (3): the products used by signature verification -/

/-- **`e(P,Q) · e(-P,Q) = 1`** as a product of two calls of `pairing` -/
theorem pairing_mul_neg_left (p : Aff Fq) (q : Aff Fq2) (hp : p.isOnCurve g1Codec.b = true)
    (hq : Aff.inSubgroup g2Codec.b q = true) : optMul (pairing p q) (pairing p.neg q) = some 1 := by
  obtain ⟨e, he0, he⟩ := pairing_some p q hp hq
  rw [pairing_neg_left_all p q hp hq e he, he, optMul_some, mul_inv_cancel₀ he0]

theorem pairing_mul_neg_right (p : Aff Fq) (q : Aff Fq2) (hp : p.isOnCurve g1Codec.b = true)
    (hq : Aff.inSubgroup g2Codec.b q = true) : optMul (pairing p q) (pairing p q.neg) = some 1 := by
  rw [pairing_neg_right_eq_neg_left p q hp hq]; exact pairing_mul_neg_left p q hp hq

/-- **`pairing_product(P, Q, -P, Q) = 1`** -/
theorem pairingProduct_neg_left (p : Aff Fq) (q : Aff Fq2) (hp : p.isOnCurve g1Codec.b = true)
    (hq : Aff.inSubgroup g2Codec.b q = true) : pairingProduct p q p.neg q = some 1 := by
  rw [C11.pairingProduct_eq_mul]; exact pairing_mul_neg_left p q hp hq

/-- **`pairing_product(P, Q, P, -Q) = 1`** -/
theorem pairingProduct_neg_right (p : Aff Fq) (q : Aff Fq2) (hp : p.isOnCurve g1Codec.b = true)
    (hq : Aff.inSubgroup g2Codec.b q = true) : pairingProduct p q p q.neg = some 1 := by
  rw [C11.pairingProduct_eq_mul]; exact pairing_mul_neg_right p q hp hq

/-- the order of the two pairs is irrelevant -/
theorem pairingProduct_neg_left' (p : Aff Fq) (q : Aff Fq2) (hp : p.isOnCurve g1Codec.b = true)
    (hq : Aff.inSubgroup g2Codec.b q = true) : pairingProduct p.neg q p q = some 1 := by
  rw [C11.pairingProduct_eq_mul, optMul_comm]; exact pairing_mul_neg_left p q hp hq

theorem pairingProduct_neg_right' (p : Aff Fq) (q : Aff Fq2) (hp : p.isOnCurve g1Codec.b = true)
    (hq : Aff.inSubgroup g2Codec.b q = true) : pairingProduct p q.neg p q = some 1 := by
  rw [C11.pairingProduct_eq_mul, optMul_comm]; exact pairing_mul_neg_right p q hp hq

/-- **`pairing_multi_product([P, -P], [Q, Q]) = 1`** -/
theorem pairingMultiProduct_neg_left (p : Aff Fq) (q : Aff Fq2) (hp : p.isOnCurve g1Codec.b = true)
    (hq : Aff.inSubgroup g2Codec.b q = true) : pairingMultiProduct [p, p.neg] [q, q] = some 1 := by
  rw [← C11.pairingProduct_eq_multi]; exact pairingProduct_neg_left p q hp hq

/-- **`pairing_multi_product([P, P], [Q, -Q]) = 1`** -/
theorem pairingMultiProduct_neg_right (p : Aff Fq) (q : Aff Fq2) (hp : p.isOnCurve g1Codec.b = true)
    (hq : Aff.inSubgroup g2Codec.b q = true) : pairingMultiProduct [p, p] [q, q.neg] = some 1 := by
  rw [← C11.pairingProduct_eq_multi]; exact pairingProduct_neg_right p q hp hq

/-- the verification equation: **`e(P₁, Q) = e(P₂, Q)` iff `pairing_product(P₁, Q, -P₂, Q) = 1`**
    (this is how `e(σ, g2) = e(H(m), pk)`-style checks are evaluated with one final exponentiation;
    here for a common second argument, the only case that needs no bilinearity) -/
theorem pairingProduct_eq_one_iff (p₁ p₂ : Aff Fq) (q : Aff Fq2)
    (hp₁ : p₁.isOnCurve g1Codec.b = true) (hp₂ : p₂.isOnCurve g1Codec.b = true)
    (hq : Aff.inSubgroup g2Codec.b q = true) :
    pairingProduct p₁ q p₂.neg q = some 1 ↔ pairing p₁ q = pairing p₂ q := by
  obtain ⟨e₁, h₁0, h₁⟩ := pairing_some p₁ q hp₁ hq
  obtain ⟨e₂, h₂0, h₂⟩ := pairing_some p₂ q hp₂ hq
  rw [C11.pairingProduct_eq_mul, pairing_neg_left_all p₂ q hp₂ hq e₂ h₂, h₁, h₂, optMul_some,
    Option.some.injEq, Option.some.injEq, mul_inv_eq_one₀ h₂0]

/-! ## non-vacuity -/

/-- the hypotheses are satisfiable: the generators of `C11.cancel_instance_*` are finite, on the curve,
    in the subgroup (the model's own checks evaluated by the kernel) -/
example : C11.g1.isOnCurve g1Codec.b = true ∧ C11.g1.infinity = false ∧
    Aff.inSubgroup g2Codec.b C11.g2 = true ∧ C11.g2.infinity = false := by decide +kernel

/-- `Aff.neg` of the generators is the point used in the kernel-evaluated instances of `C11` -/
example : C11.g1.neg = C11.g1neg ∧ C11.g2.neg = C11.g2neg := ⟨rfl, rfl⟩

/-- the general theorem specialises to the kernel-evaluated instance `C11.cancel_instance_g1` -/
example : pairingProduct C11.g1 C11.g2 C11.g1neg C11.g2 = some 1 :=
  pairingProduct_neg_left C11.g1 C11.g2 (by decide +kernel) (by decide +kernel)

end PP.C11Neg
