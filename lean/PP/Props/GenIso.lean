/-
OBLIGATIONS "GenIso": the isogeny evaluation of the hand-written model IS the Rust source.

`PP/Gen/Iso.lean` (namespace `PP.Gen.I`) is REGENERATED from /repo on every run of
/verif/extract/extract.py by /verif/extract/extract_iso.py: `eval_iso` (src/bls12_381/isogeny/mod.rs) and
the two `IsogenyMap::isogeny_map` impls (isogeny/g1.rs, g2.rs) are translated LITERALLY as imperative code
-- the arrays `tmp`, `mapvals`, `zpows` are lists, every read is a bounds-checked `xs[i]?`, every write a
bounds-checked `I.setIdx`, the `split_at_mut` views (`z_squared`/`rest` of `zpows`; `xx`/`yy`/`zz` of `tmp`)
are resolved to shifted indices of the underlying array, the `&mut` references obtained from
`as_tuple_mut` are the fields of `pt`, the four loops are `I.loop`s over the mutated arrays, `usize`
subtraction is checked, and a panic is `none`.  The theorems below state that these regenerated
definitions are equal to the hand-written FUNCTIONAL model (`PP.evalIso`, `PP.iso11`, `PP.iso3` of
`PP/Model/Map.lean`: an `Array` of powers of z² built by a fold, one `List.map` + Horner `foldl` per
polynomial), which all properties about the isogeny (C14, C16, C17 ..) are proved or tested about.  An edit
of the Rust (the power of Z used for one polynomial, a bound of the `zpows` loop, the factor Z² vs Z³ of a
denominator, the Horner order, the tables passed, the recombination ..) changes the generated text, and
the corresponding theorem no longer compiles (or the extractor refuses the new shape), whether or not a
test input exposes it.

Correspondence Rust -> generated -> model:
  isogeny/mod.rs  eval_iso                         -> `I.evalIso`        -> `PP.evalIso` (`isoZpows`, `isoMapval`)
  isogeny/g1.rs   impl IsogenyMap for G1           -> `I.G1.isogenyMap`  -> `PP.iso11`
  isogeny/g2.rs   impl IsogenyMap for G2           -> `I.G2.isogenyMap`  -> `PP.iso3`
The coefficient tables `XNUM XDEN YNUM YDEN` of g1.rs / g2.rs are the lists `Gen.ISO11_*` / `Gen.ISO3_*`
extracted into PP/Gen/Maps.lean; the translator checks that the callers pass exactly `&XNUM[..], &XDEN[..],
&YNUM[..], &YDEN[..]` of their own file, in this order.

`evalIso` is an UNCONDITIONAL characterisation, generic in the coordinate field `F` (only `+ * 0 square`
are used, no ring law): for ALL coefficient slices the generated code either panics -- exactly when a
slice is empty or longer than 16, or `ynum` (`coeffs[2]`, whose length drives the `zpows` loop) is shorter
than 2 -- or returns the model's value.  The model is total (its arrays use `set!` / `getD`), so outside
these lengths it returns a value where the Rust panics; the two callers pass tables of lengths
12 11 16 16 and 4 3 4 4, for which `G1_isogenyMap` / `G2_isogenyMap` show that the Rust never panics.
(`usize` underflow is modelled as a panic, as with overflow checks; without them Rust wraps around, and in
this function each of the three subtractions that can underflow is followed by an index that is then out
of bounds, so the outcome is a panic as well -- that second argument is NOT formalised.)

Primitives that are not in /repo (core / std) and are therefore NOT pinned down by these theorems but taken
as list operations: array repeat expressions `[v; N]` (`List.replicate`), indexing of arrays and slices
(`xs[i]?` / `I.setIdx`, `none` = panic), `split_at_mut` (index shift, lengths from the array types),
`&xs[..n]` (`I.sliceTo`), `lo..hi` (`List.range'`), `len()`.  `as_tuple` / `as_tuple_mut` of the curve macro
are checked textually to be the field tuples.
-/
import PP.Proofs.GenIso

namespace PP.GenIso
open PP PP.Gen PP.GenIsoLemmas

section
variable {F : Type} [Add F] [Mul F] [Zero F] [FieldOps F]

/-- `eval_iso(pt, [xnum, xden, ynum, yden])` is the model's `evalIso` whenever it does not panic; it panics
    exactly for the lengths excluded here -/
theorem evalIso (p : Jac F) (xnum xden ynum yden : List F) :
    I.evalIso p [xnum, xden, ynum, yden] =
      if (1 ≤ xnum.length ∧ xnum.length ≤ 16) ∧ (1 ≤ xden.length ∧ xden.length ≤ 16) ∧
        (2 ≤ ynum.length ∧ ynum.length ≤ 16) ∧ (1 ≤ yden.length ∧ yden.length ≤ 16)
      then some (PP.evalIso xnum xden ynum yden p) else none :=
  evalIso_eq p xnum xden ynum yden

/-- whatever the generated `eval_iso` returns is the model's value -/
theorem evalIso_of_some (p r : Jac F) (xnum xden ynum yden : List F)
    (h : I.evalIso p [xnum, xden, ynum, yden] = some r) : r = PP.evalIso xnum xden ynum yden p :=
  evalIso_of_some_eq p r xnum xden ynum yden h

end

/-- `impl IsogenyMap for G1`: never panics, and is the model's `iso11` -/
theorem G1_isogenyMap : I.G1.isogenyMap = fun p => some (PP.iso11 p) := G1_isogenyMap_eq

/-- `impl IsogenyMap for G2`: never panics, and is the model's `iso3` -/
theorem G2_isogenyMap : I.G2.isogenyMap = fun p => some (PP.iso3 p) := G2_isogenyMap_eq

end PP.GenIso
