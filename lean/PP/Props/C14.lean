/-
PROPERTY C14.  "For every field element u, mapping to the curve returns clear_cofactor(iso(sswu(u))),
and for every pair (u0,u1) the two-element map returns clear_cofactor(iso(sswu(u0)) + iso(sswu(u1)))
with + the group law, in G1 (inputs in Fq) and G2 (inputs in Fq2). This includes u0 = u1, u0 = -u1
(result: identity), distinct inputs whose SSWU images coincide, zero and the SSWU-exceptional inputs;
the result always lies in the order-r subgroup and the call never panics."

Model: `mapToCurveG1/G2`, `map2ToCurveG1/G2` of `PP/Model/Map.lean` (AFTER the `fix:` commit: the
isogeny is applied to each SSWU image and the two images are added on the TARGET curve, where the
`a = 0` Jacobian formulas of `add_assign` are the group law by C01).  The pre-fix code
(`map2ToCurveG1PreFix`, `map2ToCurveG2PreFix`: add on the isogenous curve with the target curve's
formulas, then apply the isogeny) is refuted at the end of the file.

Notation: `b₁ = g1Codec.b = 4`, `b₂ = g2Codec.b = 4(1+u)`; `Jac.abs b P` is the point of Mathlib's
group `(W b).Point` of `y² = x³ + b` denoted by the Jacobian triple `P` (C01); `•` is scalar
multiplication and `+` the group law there; `hEffG1 = 0xd201000000010001`, `hEffG2` the 636-bit RFC
constant (C17).

What is proved, for ALL inputs (no side condition on `u`, `u0`, `u1`):
* `g1_sswu_iso_onCurve`, `g1_sswu_iso_eq_rfc`: `iso11 (osswuG1 u)` is a point of `E₁`; the SSWU
  image is RFC 9380's `map_to_curve_simple_swu(u)` on `E₁'` and the point denoted by its isogeny
  image is the RFC's `iso_map` of it (`isoMapPoint`, rational map, identity on poles);
* `g1_map_eq`, `g1_map2_eq`: the two maps return `[h_eff]·iso(sswu u)` resp.
  `[h_eff]·(iso(sswu u0) + iso(sswu u1))`;  `g1_map2_self`, `g1_map2_same_image`, `g1_map2_neg`,
  `g1_map_zero`: the special cases named in the property;
* the G1 functions are total functions of the model (no `Option`): they never panic; for G2 the
  model returns `Option` (`none` = the `panic!` at the end of `OSSWUMap for G2`) and
  `g2_map_ne_none`, `g2_map2_ne_none` show that `none` is never returned;
* `g1_map_inSub`, `g1_map2_inSub`, `g2_…`: the subgroup clause, UNDER THE EXPLICIT HYPOTHESES of C17
  on the curve groups — `hexp : ∀ g, (hEffG1 * r) • g = 0` for `E₁(Fq)` and
  `hord : ∀ g, (h₂ * r) • g = 0` for `E₂(Fq2)` — which are hypotheses HERE and are PROVED in PP.Props.CurveOrder (hypothesis-free versions `g1_map_inSub'` ... are instantiated there);
* `g1_map2_prefix_wrong`, `g1_map2_prefix_offcurve`, `g1_map2_prefix_not_inSubgroup`, `g2_…`: the
  pre-fix code returned, for `u0 = u1 = 0`, a different result, which is not on the curve (hence not
  in the subgroup); the fixed code passes the same executable test.
-/
import PP.Proofs.Assembly
import PP.Proofs.Subgroup

namespace PP
namespace C14

open C17 (hEffG1 hEffG2)
open PP.Spec (IsSswu)
open Sswu (affX affY)

/-! ## G1 -/

section G1

local notation "b₁" => g1Codec.b

/-- the isogeny image of every SSWU output is a point of the target curve (C15 + C16) -/
theorem g1_sswu_iso_onCurve (u : Fq) : Jac.OnCurve b₁ (iso11 (osswuG1 u)) := isoSswuG1_onCurve u

/-- link with RFC 9380: the SSWU output is `map_to_curve_simple_swu(u)` on `E₁'` (§6.6.2, `Z = 11`),
    and the point denoted by `iso11` of it is the RFC's `iso_map` of these affine coordinates -/
theorem g1_sswu_iso_eq_rfc (u : Fq) :
    IsSswu Zp.sgn0 g1EllpA g1EllpB g1Xi u (affX (osswuG1 u)) (affY (osswuG1 u)) ∧
    Jac.abs b₁ (iso11 (osswuG1 u)) =
      isoMapPoint b₁ Iso.iso11XNum Iso.iso11XDen Iso.iso11YNum Iso.iso11YDen
        (affX (osswuG1 u)) (affY (osswuG1 u)) :=
  ⟨C15.osswuG1_eq_rfc hchain1 u, abs_iso11_eq _ (sswuG1_onE' u).1 (sswuG1_onE' u).2⟩

/-- **C14, G1, one element**: `map_to_curve(u) = [h_eff] iso(sswu(u))`, for every `u` -/
theorem g1_map_eq (u : Fq) :
    Jac.OnCurve b₁ (mapToCurveG1 u) ∧
      Jac.abs b₁ (mapToCurveG1 u) = hEffG1 • Jac.abs b₁ (iso11 (osswuG1 u)) := by
  rw [mapToCurveG1_eq]
  exact g1_clearH _ (isoSswuG1_onCurve u)

/-- **C14, G1, two elements**: `map2_to_curve(u0, u1) = [h_eff] (iso(sswu(u0)) + iso(sswu(u1)))`
    with `+` the group law of `E₁(Fq)`, for EVERY pair `(u0, u1)` -/
theorem g1_map2_eq (u0 u1 : Fq) :
    Jac.OnCurve b₁ (map2ToCurveG1 u0 u1) ∧
      Jac.abs b₁ (map2ToCurveG1 u0 u1) =
        hEffG1 • (Jac.abs b₁ (iso11 (osswuG1 u0)) + Jac.abs b₁ (iso11 (osswuG1 u1))) := by
  have h0 := isoSswuG1_onCurve u0
  have h1 := isoSswuG1_onCurve u1
  have h := g1_clearH _ (C01.add_onCurve h0 h1)
  rw [map2ToCurveG1_eq]
  exact ⟨h.1, by rw [h.2, C01.add_correct h0 h1]⟩

/-- `u0 = u1`: the doubling case of `add_assign`, on the target curve -/
theorem g1_map2_self (u : Fq) :
    Jac.abs b₁ (map2ToCurveG1 u u) = hEffG1 • (2 • Jac.abs b₁ (iso11 (osswuG1 u))) := by
  rw [(g1_map2_eq u u).2, two_nsmul]

/-- distinct inputs whose (isogeny images of the) SSWU images coincide: same as `u0 = u1` -/
theorem g1_map2_same_image (u0 u1 : Fq)
    (h : Jac.abs b₁ (iso11 (osswuG1 u0)) = Jac.abs b₁ (iso11 (osswuG1 u1))) :
    Jac.abs b₁ (map2ToCurveG1 u0 u1) = hEffG1 • (2 • Jac.abs b₁ (iso11 (osswuG1 u0))) := by
  rw [(g1_map2_eq u0 u1).2, ← h, two_nsmul]

/-- `sswu(−u) = −sswu(u)` on `E₁'` for `u ≠ 0`, hence the same for the isogeny images on `E₁` -/
theorem g1_sswu_iso_neg (u : Fq) (hu : u ≠ 0) :
    Jac.abs b₁ (iso11 (osswuG1 (-u))) = -Jac.abs b₁ (iso11 (osswuG1 u)) := isoSswuG1_neg u hu

/-- `u0 = −u1`: the result is the identity (`u ≠ 0`; for `u = 0`, `−u = u` is the case `u0 = u1`) -/
theorem g1_map2_neg (u : Fq) (hu : u ≠ 0) :
    Jac.abs b₁ (map2ToCurveG1 u (-u)) = 0 ∧ (map2ToCurveG1 u (-u)).isZero = true := by
  have h0 : Jac.abs b₁ (map2ToCurveG1 u (-u)) = 0 := by
    rw [(g1_map2_eq u (-u)).2, g1_sswu_iso_neg u hu, add_neg_cancel, smul_zero]
  exact ⟨h0, (C01.isZero_iff (g1_map2_eq u (-u)).1).mpr h0⟩

theorem g1_map2_neg' (u : Fq) (hu : u ≠ 0) :
    Jac.abs b₁ (map2ToCurveG1 (-u) u) = 0 ∧ (map2ToCurveG1 (-u) u).isZero = true := by
  have h0 : Jac.abs b₁ (map2ToCurveG1 (-u) u) = 0 := by
    rw [(g1_map2_eq (-u) u).2, g1_sswu_iso_neg u hu, neg_add_cancel, smul_zero]
  exact ⟨h0, (C01.isZero_iff (g1_map2_eq (-u) u).1).mpr h0⟩

/-- zero and the SSWU-exceptional inputs are instances of `g1_map_eq` / `g1_map2_eq`; their SSWU
    image has `x = B'/(Z·A')` (C15) -/
theorem g1_map_exceptional (u : Fq) (h : g1Xi ^ 2 * u ^ 4 + g1Xi * u ^ 2 = 0) :
    affX (osswuG1 u) = g1EllpB / (g1Xi * g1EllpA) ∧
    Jac.abs b₁ (mapToCurveG1 u) = hEffG1 • Jac.abs b₁ (iso11 (osswuG1 u)) :=
  ⟨C15.osswuG1_exceptional hchain1 u h, (g1_map_eq u).2⟩

theorem g1_map_zero :
    affX (osswuG1 0) = g1EllpB / (g1Xi * g1EllpA) ∧
    Jac.abs b₁ (mapToCurveG1 0) = hEffG1 • Jac.abs b₁ (iso11 (osswuG1 0)) :=
  g1_map_exceptional 0 (by ring)

/-! ### subgroup clause (hypothesis `hexp` of C17: the exponent of `E₁(Fq)` divides `(1 − x)·r`) -/

section sub
variable (hexp : ∀ g : (W b₁).Point, (0xd201000000010001 * Gen.r) • g = 0)
include hexp

theorem g1_map_inSub (u : Fq) : Jac.InSub b₁ (mapToCurveG1 u) :=
  ⟨(g1_map_eq u).1, by
    rw [mapToCurveG1_eq]; exact g1_clearH_killed hexp _ (isoSswuG1_onCurve u)⟩

theorem g1_map2_inSub (u0 u1 : Fq) : Jac.InSub b₁ (map2ToCurveG1 u0 u1) :=
  ⟨(g1_map2_eq u0 u1).1, by
    rw [map2ToCurveG1_eq]
    exact g1_clearH_killed hexp _
      (C01.add_onCurve (isoSswuG1_onCurve u0) (isoSswuG1_onCurve u1))⟩

/-- … and the affine form of the result passes the executable subgroup test of the library -/
theorem g1_map2_inSubgroup (u0 u1 : Fq) :
    ∃ A, (map2ToCurveG1 u0 u1).toAffine = some A ∧ Aff.inSubgroup b₁ A = true :=
  (g1_map2_inSub hexp u0 u1).toAffine_inSubgroup

theorem g1_map_inSubgroup (u : Fq) :
    ∃ A, (mapToCurveG1 u).toAffine = some A ∧ Aff.inSubgroup b₁ A = true :=
  (g1_map_inSub hexp u).toAffine_inSubgroup

end sub

end G1

/-! ## G2 -/

section G2

local notation "b₂" => g2Codec.b

/-- the SSWU map for G2 never reaches its terminal `panic!` (C15) -/
theorem g2_sswu_ne_none (u : Fq2) : osswuG2 u ≠ none := C15.osswuG2_total hcard hchain2 u

/-- never panics, one element -/
theorem g2_map_ne_none (u : Fq2) : mapToCurveG2 u ≠ none := by
  obtain ⟨P, hP, -⟩ := sswuG2_ex u
  rw [mapToCurveG2_eq hP]; exact Option.some_ne_none _

/-- never panics, two elements -/
theorem g2_map2_ne_none (u0 u1 : Fq2) : map2ToCurveG2 u0 u1 ≠ none := by
  obtain ⟨P0, hP0, -⟩ := sswuG2_ex u0
  obtain ⟨P1, hP1, -⟩ := sswuG2_ex u1
  rw [map2ToCurveG2_eq hP0 hP1]; exact Option.some_ne_none _

/-- link with RFC 9380: the SSWU output `P` is `map_to_curve_simple_swu(u)` on `E₂'`
    (`Z = −(2 + I)`), `iso3 P` is a point of `E₂`, namely the RFC's `iso_map` of `P` -/
theorem g2_sswu_iso_eq_rfc (u : Fq2) :
    ∃ P, osswuG2 u = some P ∧
      IsSswu Fq2.sgn0 g2EllpA g2EllpB g2Xi u (affX P) (affY P) ∧
      Jac.OnCurve b₂ (iso3 P) ∧
      Jac.abs b₂ (iso3 P) =
        isoMapPoint b₂ Iso.iso3XNum Iso.iso3XDen Iso.iso3YNum Iso.iso3YDen (affX P) (affY P) := by
  obtain ⟨P, hP, hz, hc⟩ := sswuG2_ex u
  obtain ⟨R, hR, hrfc⟩ := C15.osswuG2_eq_rfc hcard hchain2 u
  obtain rfl : R = P := Option.some.inj (hR.symm.trans hP)
  exact ⟨R, hP, hrfc, iso3_onCurve' R (Or.inr hc), abs_iso3_eq R hz hc⟩

/-- **C14, G2, one element**: `map_to_curve(u) = [h_eff] iso(sswu(u))`, for every `u` -/
theorem g2_map_eq (u : Fq2) :
    ∃ P R, osswuG2 u = some P ∧ mapToCurveG2 u = some R ∧ Jac.OnCurve b₂ (iso3 P) ∧
      Jac.OnCurve b₂ R ∧ Jac.abs b₂ R = hEffG2 • Jac.abs b₂ (iso3 P) := by
  obtain ⟨P, hP, hz, hc⟩ := sswuG2_ex u
  have hon := iso3_onCurve' P (Or.inr hc)
  have h := g2_clearH _ hon
  exact ⟨P, clearHG2 (iso3 P), hP, mapToCurveG2_eq hP, hon, h.1, h.2⟩

/-- **C14, G2, two elements**: `map2_to_curve(u0, u1) = [h_eff] (iso(sswu(u0)) + iso(sswu(u1)))`
    with `+` the group law of `E₂(Fq2)`, for EVERY pair -/
theorem g2_map2_eq (u0 u1 : Fq2) :
    ∃ P0 P1 R, osswuG2 u0 = some P0 ∧ osswuG2 u1 = some P1 ∧ map2ToCurveG2 u0 u1 = some R ∧
      Jac.OnCurve b₂ (iso3 P0) ∧ Jac.OnCurve b₂ (iso3 P1) ∧
      Jac.OnCurve b₂ R ∧
      Jac.abs b₂ R = hEffG2 • (Jac.abs b₂ (iso3 P0) + Jac.abs b₂ (iso3 P1)) := by
  obtain ⟨P0, hP0, hz0, hc0⟩ := sswuG2_ex u0
  obtain ⟨P1, hP1, hz1, hc1⟩ := sswuG2_ex u1
  have h0 := iso3_onCurve' P0 (Or.inr hc0)
  have h1 := iso3_onCurve' P1 (Or.inr hc1)
  have h := g2_clearH _ (C01.add_onCurve h0 h1)
  refine ⟨P0, P1, clearHG2 ((iso3 P0).add (iso3 P1)), hP0, hP1, map2ToCurveG2_eq hP0 hP1,
    h0, h1, h.1, ?_⟩
  rw [h.2, C01.add_correct h0 h1]

/-- `u0 = u1` -/
theorem g2_map2_self (u : Fq2) :
    ∃ P R, osswuG2 u = some P ∧ map2ToCurveG2 u u = some R ∧
      Jac.abs b₂ R = hEffG2 • (2 • Jac.abs b₂ (iso3 P)) := by
  obtain ⟨P0, P1, R, hP0, hP1, hR, -, -, -, habs⟩ := g2_map2_eq u u
  obtain rfl : P0 = P1 := Option.some.inj (hP0.symm.trans hP1)
  exact ⟨P0, R, hP0, hR, by rw [habs, two_nsmul]⟩

/-- `u0 = −u1 ≠ 0`: the result is the identity -/
theorem g2_map2_neg (u : Fq2) (hu : u ≠ 0) :
    ∃ R, map2ToCurveG2 u (-u) = some R ∧ Jac.abs b₂ R = 0 ∧ R.isZero = true := by
  obtain ⟨P0, P1, R, hP0, hP1, hR, -, -, hon, habs⟩ := g2_map2_eq u (-u)
  have h0 : Jac.abs b₂ R = 0 := by
    rw [habs, isoSswuG2_neg u hu hP0 hP1, add_neg_cancel, smul_zero]
  exact ⟨R, hR, h0, (C01.isZero_iff hon).mpr h0⟩

/-- zero and the exceptional inputs: instances of `g2_map_eq`, with `x = B'/(Z·A')` (C15) -/
theorem g2_map_exceptional (u : Fq2) (h : g2Xi ^ 2 * u ^ 4 + g2Xi * u ^ 2 = 0) :
    ∃ P R, osswuG2 u = some P ∧ affX P = g2EllpB / (g2Xi * g2EllpA) ∧ mapToCurveG2 u = some R ∧
      Jac.abs b₂ R = hEffG2 • Jac.abs b₂ (iso3 P) := by
  obtain ⟨P, R, hP, hR, -, -, habs⟩ := g2_map_eq u
  obtain ⟨Q, hQ, hx⟩ := C15.osswuG2_exceptional hcard hchain2 u h
  obtain rfl : Q = P := Option.some.inj (hQ.symm.trans hP)
  exact ⟨Q, R, hP, hx, hR, habs⟩

/-! ### subgroup clause (hypothesis `hord` of C17: `#E₂(Fq2) = h₂·r`) -/

section sub
variable (hord : ∀ g : (W b₂).Point, (Gen.G2_COFACTOR * Gen.r) • g = 0)
include hord

theorem g2_map_inSub (u : Fq2) : ∃ R, mapToCurveG2 u = some R ∧ Jac.InSub b₂ R := by
  obtain ⟨P, R, hP, hR, hon, hRon, -⟩ := g2_map_eq u
  have e : R = clearHG2 (iso3 P) := Option.some.inj (hR.symm.trans (mapToCurveG2_eq hP))
  exact ⟨R, hR, hRon, by rw [e]; exact g2_clearH_killed hord _ hon⟩

theorem g2_map2_inSub (u0 u1 : Fq2) : ∃ R, map2ToCurveG2 u0 u1 = some R ∧ Jac.InSub b₂ R := by
  obtain ⟨P0, P1, R, hP0, hP1, hR, h0, h1, hRon, -⟩ := g2_map2_eq u0 u1
  have e : R = clearHG2 ((iso3 P0).add (iso3 P1)) :=
    Option.some.inj (hR.symm.trans (map2ToCurveG2_eq hP0 hP1))
  exact ⟨R, hR, hRon, by
    rw [e]; exact g2_clearH_killed hord _ (C01.add_onCurve h0 h1)⟩

theorem g2_map2_inSubgroup (u0 u1 : Fq2) :
    ∃ R A, map2ToCurveG2 u0 u1 = some R ∧ R.toAffine = some A ∧ Aff.inSubgroup b₂ A = true := by
  obtain ⟨R, hR, hs⟩ := g2_map2_inSub hord u0 u1
  obtain ⟨A, hA, h⟩ := hs.toAffine_inSubgroup
  exact ⟨R, A, hR, hA, h⟩

end sub

end G2

/-! ## the defect of the pre-fix code (kernel evaluation of the executable model)

Before the fix the two SSWU images, points of the isogenous curve `E'` (`a ≠ 0`), were added with the
target curve's `add_assign`; for `u0 = u1` (more generally, equal SSWU images) this takes the
`a = 0` doubling branch, which is not the doubling of `E'`. -/

section defect
set_option maxRecDepth 100000

/-- the pre-fix code disagrees with the fixed code (i.e. with `g1_map2_eq`) at `u0 = u1 = 0` -/
theorem g1_map2_prefix_wrong :
    ∃ u : Fq, (map2ToCurveG1PreFix u u).toAffine ≠ (map2ToCurveG1 u u).toAffine :=
  ⟨0, by decide +kernel⟩

/-- its result is not even a point of the curve … -/
theorem g1_map2_prefix_offcurve :
    (map2ToCurveG1PreFix 0 0).toAffine.map (Aff.isOnCurve g1Codec.b) = some false := by
  decide +kernel

/-- … so it fails the library's own subgroup test, which the fixed code passes on the same input -/
theorem g1_map2_prefix_not_inSubgroup :
    (map2ToCurveG1PreFix 0 0).toAffine.map (Aff.inSubgroup g1Codec.b) = some false ∧
    (map2ToCurveG1 0 0).toAffine.map (Aff.inSubgroup g1Codec.b) = some true := by
  constructor <;> decide +kernel

theorem g2_map2_prefix_wrong :
    ∃ u : Fq2, (map2ToCurveG2PreFix u u).bind Jac.toAffine ≠ (map2ToCurveG2 u u).bind Jac.toAffine :=
  ⟨0, by decide +kernel⟩

theorem g2_map2_prefix_not_inSubgroup :
    ((map2ToCurveG2PreFix 0 0).bind Jac.toAffine).map (Aff.inSubgroup g2Codec.b) = some false ∧
    ((map2ToCurveG2 0 0).bind Jac.toAffine).map (Aff.inSubgroup g2Codec.b) = some true := by
  constructor <;> decide +kernel

end defect

end C14
end PP
