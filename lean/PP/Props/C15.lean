/-
C15 — "For every t in Fq (G1) or Fq2 (G2) the SWU map returns, without panicking, a point on the
curve y^2=x^3+A'x+B' that is 11-isogenous (G1) or 3-isogenous (G2) to the target curve, equal to
map_to_curve_simple_swu of RFC 9380 with Z=11 resp. Z=-(2+I), I^2=-1: x is the first of
x1=(-B'/A')(1+1/(Z^2t^4+Zt^2)), x2=Zt^2x1 whose curve right-hand side is a square, and y is the
root with sgn0(y)=sgn0(t). The exceptional inputs t=0 and Z^2t^4+Zt^2=0 give x=B'/(ZA')."

Model: `osswuG1 : Fq → Jac Fq`, `osswuG2 : Fq2 → Option (Jac Fq2)` (`none` = `panic!`) of
`PP.Model.Map`.  Spec: `PP.Spec.IsSswu` (`PP/Spec/Sswu.lean`, RFC 9380 §6.6.2 as a relation).
The output is a Jacobian triple `(X, Y, Z)`; its affine coordinates are `affX = X/Z²`, `affY = Y/Z³`.

Hypotheses that remain visible (they are theorems of other modules, to be supplied when assembling):
  * `hchain1 : ∀ a : Fq, chainPm3div4 a = a ^ ((q − 3)/4)`                  (addition chain, G1)
  * `hchain2 : ∀ a : Fq2, chainP2m9div16 a = a ^ ((q² − 9)/16)`             (addition chain, G2)
  * `hcard   : ∀ x : Fq2, x ≠ 0 → x ^ (q² − 1) = 1`                         (`|Fq2| = q²`)
Everything else (constants, roots of unity, etas, square-ness of `g(B'/(ZA'))`, absence of roots of
`x³ + A'x + B'` in `Fq` resp. `Fq2`) is proved here from the extracted constants.
(That `E'` is 11- resp. 3-isogenous to the target curve is the subject of C16.)
-/
import PP.Proofs.SswuG2Fq2

namespace PP.C15

open PP PP.Spec PP.Sswu

/-! ## The constants are the RFC's (§8.8.1, §8.8.2) -/

/-- G1: `Z = 11` -/
theorem g1_Z : g1Xi = Zp.ofNat 11 := g1Xi_eq
/-- G1: `A'` -/
theorem g1_A' : g1EllpA.v =
    0x144698a3b8e9433d693a02c96d4982b0ea985383ee66a8d8e8981aefd881ac98936f8da0e0f97f5cf428082d584c1d :=
  g1EllpA_v
/-- G1: `B'` -/
theorem g1_B' : g1EllpB.v =
    0x12e2908d11688030018b12e8753eee3b2016c1f0f24f4070a0b9c14fcef35ef55a23215a316ceaa5d1cc48e98e172be0 :=
  g1EllpB_v
/-- G2: `Z = −(2 + I)` -/
theorem g2_Z : g2Xi = -(⟨Zp.ofNat 2, Zp.ofNat 1⟩ : Fq2) := g2Xi_eq
/-- G2: `A' = 240·I` -/
theorem g2_A' : g2EllpA = ⟨0, Zp.ofNat 240⟩ := g2EllpA_eq
/-- G2: `B' = 1012·(1 + I)` -/
theorem g2_B' : g2EllpB = ⟨Zp.ofNat 1012, Zp.ofNat 1012⟩ := g2EllpB_eq
/-- `I² = −1` in the model's `Fq2` -/
theorem fq2_I_sq : (⟨0, 1⟩ : Fq2) * ⟨0, 1⟩ = -1 := Fq2.u_mul_u

/-! ## The model's `sgn0` is the RFC's (§4.1) -/

theorem sgn0_fq (a : Fq) :
    Zp.sgn0 a = if sgn0_m1 a.v = 1 then Sgn0.negative else Sgn0.nonNegative := rfl

theorem sgn0_fq2 (a : Fq2) :
    Fq2.sgn0 a = if sgn0_m2 a.c0.v a.c1.v = 1 then Sgn0.negative else Sgn0.nonNegative := by
  unfold Fq2.sgn0 sgn0_m2 Zp.sgn0 Zp.isZero
  by_cases h0 : a.c0.v = 0
  · by_cases h1 : a.c1.v % 2 = 1 <;> simp [h0, h1]
  · by_cases h1 : a.c0.v % 2 = 1 <;> simp [h0, h1]

/-! ## The spec's `x1` is the formula of C15 -/

section SpecFormulas
variable {F : Type} [Field F] [DecidableEq F]

theorem x1_formula (A B Z t : F) (h : Z ^ 2 * t ^ 4 + Z * t ^ 2 ≠ 0) :
    sswuX1 A B Z t = (-B / A) * (1 + 1 / (Z ^ 2 * t ^ 4 + Z * t ^ 2)) := by
  unfold sswuX1 sswuTv1
  rw [if_neg (inv_ne_zero h), one_div]

theorem x1_exceptional (A B Z t : F) (h : Z ^ 2 * t ^ 4 + Z * t ^ 2 = 0) :
    sswuX1 A B Z t = B / (Z * A) := by
  unfold sswuX1 sswuTv1
  rw [if_pos (by rw [h, inv_zero])]

theorem x2_formula (A B Z t : F) : sswuX2 A B Z t = Z * t ^ 2 * sswuX1 A B Z t := rfl

end SpecFormulas

/-! ## G1 -/

section G1
variable (hchain1 : ∀ a : Fq, chainPm3div4 a = a ^ ((Gen.q - 3) / 4))
include hchain1

/-- the output is a finite point of `E₁' : y² = x³ + A'x + B'` -/
theorem osswuG1_onCurve (t : Fq) :
    (osswuG1 t).z ≠ 0 ∧
      (osswuG1 t).y ^ 2 = (osswuG1 t).x ^ 3 + g1EllpA * (osswuG1 t).x * (osswuG1 t).z ^ 4
        + g1EllpB * (osswuG1 t).z ^ 6 := by
  have h := osswuG1_sswuOut hchain1 t
  generalize osswuG1 t = P at h ⊢
  exact ⟨h.z_ne, h.onCurve⟩

/-- `x` is the first of `x1`, `x2` whose `g` is a square -/
theorem osswuG1_x (t : Fq) :
    (IsSquare (sswuG g1EllpA g1EllpB (sswuX1 g1EllpA g1EllpB g1Xi t)) →
      affX (osswuG1 t) = sswuX1 g1EllpA g1EllpB g1Xi t) ∧
    (¬ IsSquare (sswuG g1EllpA g1EllpB (sswuX1 g1EllpA g1EllpB g1Xi t)) →
      affX (osswuG1 t) = sswuX2 g1EllpA g1EllpB g1Xi t) :=
  ⟨(osswuG1_sswuOut hchain1 t).x_of_sq, (osswuG1_sswuOut hchain1 t).x_of_nsq⟩

/-- `y² = g(x)` in affine coordinates -/
theorem osswuG1_y_sq (t : Fq) :
    affY (osswuG1 t) ^ 2 = sswuG g1EllpA g1EllpB (affX (osswuG1 t)) :=
  (osswuG1_sswuOut hchain1 t).y_sq

/-- `y ≠ 0`: `E₁'` has no `Fq`-rational point of order 2 -/
theorem osswuG1_y_ne_zero (t : Fq) : affY (osswuG1 t) ≠ 0 := by
  intro h0
  have := osswuG1_y_sq hchain1 t
  rw [h0] at this
  exact g1_no_root _ (by rw [← this]; ring)

/-- `sgn0(y) = sgn0(t)` -/
theorem osswuG1_sign (t : Fq) : Zp.sgn0 (affY (osswuG1 t)) = Zp.sgn0 t :=
  (osswuG1_sswuOut hchain1 t).sign (osswuG1_y_ne_zero hchain1 t)

/-- exceptional inputs (`t = 0` is one of them): `x = B'/(ZA')` -/
theorem osswuG1_exceptional (t : Fq) (h : g1Xi ^ 2 * t ^ 4 + g1Xi * t ^ 2 = 0) :
    affX (osswuG1 t) = g1EllpB / (g1Xi * g1EllpA) := by
  have hx1 : sswuX1 g1EllpA g1EllpB g1Xi t = g1EllpB / (g1Xi * g1EllpA) := x1_exceptional _ _ _ _ h
  rw [(osswuG1_x hchain1 t).1 (by rw [hx1]; exact g1Exc_isSquare), hx1]

theorem osswuG1_zero : affX (osswuG1 0) = g1EllpB / (g1Xi * g1EllpA) :=
  osswuG1_exceptional hchain1 0 (by ring)

/-- **C15, G1**: the output of `osswuG1 t` is `map_to_curve_simple_swu(t)` of RFC 9380 §6.6.2 for
`E₁'` with `Z = 11`. -/
theorem osswuG1_eq_rfc (t : Fq) :
    IsSswu Zp.sgn0 g1EllpA g1EllpB g1Xi t (affX (osswuG1 t)) (affY (osswuG1 t)) :=
  (osswuG1_sswuOut hchain1 t).isSswu g1_no_root

end G1

/-! ## G2 -/

section G2
variable (hcard : ∀ x : Fq2, x ≠ 0 → x ^ (Gen.q ^ 2 - 1) = 1)
variable (hchain2 : ∀ a : Fq2, chainP2m9div16 a = a ^ ((Gen.q ^ 2 - 9) / 16))
include hcard hchain2

/-- the terminal `panic!` of `OSSWUMap for G2` is unreachable -/
theorem osswuG2_total (t : Fq2) : osswuG2 t ≠ none := by
  obtain ⟨P, hP, _⟩ := osswuG2_sswuOut hcard hchain2 t
  rw [hP]; simp

/-- the output is a finite point of `E₂' : y² = x³ + A'x + B'` -/
theorem osswuG2_onCurve (t : Fq2) :
    ∃ P, osswuG2 t = some P ∧
      P.z ≠ 0 ∧ P.y ^ 2 = P.x ^ 3 + g2EllpA * P.x * P.z ^ 4 + g2EllpB * P.z ^ 6 := by
  obtain ⟨P, hP, h⟩ := osswuG2_sswuOut hcard hchain2 t
  exact ⟨P, hP, h.z_ne, h.onCurve⟩

/-- `x` is the first of `x1`, `x2` whose `g` is a square -/
theorem osswuG2_x (t : Fq2) :
    ∃ P, osswuG2 t = some P ∧
      (IsSquare (sswuG g2EllpA g2EllpB (sswuX1 g2EllpA g2EllpB g2Xi t)) →
        affX P = sswuX1 g2EllpA g2EllpB g2Xi t) ∧
      (¬ IsSquare (sswuG g2EllpA g2EllpB (sswuX1 g2EllpA g2EllpB g2Xi t)) →
        affX P = sswuX2 g2EllpA g2EllpB g2Xi t) := by
  obtain ⟨P, hP, h⟩ := osswuG2_sswuOut hcard hchain2 t
  exact ⟨P, hP, h.x_of_sq, h.x_of_nsq⟩

/-- `y ≠ 0` and `sgn0(y) = sgn0(t)` -/
theorem osswuG2_sign (t : Fq2) :
    ∃ P, osswuG2 t = some P ∧ affY P ≠ 0 ∧ Fq2.sgn0 (affY P) = Fq2.sgn0 t := by
  obtain ⟨P, hP, h⟩ := osswuG2_sswuOut hcard hchain2 t
  have hy : affY P ≠ 0 := by
    intro h0
    have := h.y_sq
    rw [h0] at this
    exact g2_no_root hcard _ (by rw [← this]; ring)
  exact ⟨P, hP, hy, h.sign hy⟩

/-- exceptional inputs (`t = 0` is one of them): `x = B'/(ZA')` -/
theorem osswuG2_exceptional (t : Fq2) (h : g2Xi ^ 2 * t ^ 4 + g2Xi * t ^ 2 = 0) :
    ∃ P, osswuG2 t = some P ∧ affX P = g2EllpB / (g2Xi * g2EllpA) := by
  obtain ⟨P, hP, hx, _⟩ := osswuG2_x hcard hchain2 t
  have hx1 : sswuX1 g2EllpA g2EllpB g2Xi t = g2EllpB / (g2Xi * g2EllpA) := x1_exceptional _ _ _ _ h
  exact ⟨P, hP, by rw [hx (by rw [hx1]; exact g2Exc_isSquare), hx1]⟩

theorem osswuG2_zero : ∃ P, osswuG2 0 = some P ∧ affX P = g2EllpB / (g2Xi * g2EllpA) :=
  osswuG2_exceptional hcard hchain2 0 (by ring)

/-- **C15, G2**: `osswuG2 t` returns, and its output is `map_to_curve_simple_swu(t)` of RFC 9380
§6.6.2 for `E₂'` with `Z = −(2 + I)`. -/
theorem osswuG2_eq_rfc (t : Fq2) :
    ∃ P, osswuG2 t = some P ∧
      IsSswu Fq2.sgn0 g2EllpA g2EllpB g2Xi t (affX P) (affY P) := by
  obtain ⟨P, hP, h⟩ := osswuG2_sswuOut hcard hchain2 t
  exact ⟨P, hP, h.isSswu (g2_no_root hcard)⟩

end G2

/-! ## Non-vacuity: the model evaluated by the kernel -/

instance (A B : Fq) (P : Jac Fq) : Decidable (OnCurveJ A B P) := by
  unfold OnCurveJ; infer_instance
instance (A B : Fq2) (P : Jac Fq2) : Decidable (OnCurveJ A B P) := by
  unfold OnCurveJ; infer_instance

/-- exceptional input `t = 0` -/
example : (osswuG1 0).z ≠ 0 ∧ OnCurveJ g1EllpA g1EllpB (osswuG1 0) := by decide +kernel
/-- `t = 2`: first candidate (`X = x0_num·x0_den`) -/
example : (osswuG1 (Zp.ofNat 2)).z ≠ 0 ∧ OnCurveJ g1EllpA g1EllpB (osswuG1 (Zp.ofNat 2)) ∧
    (osswuG1 (Zp.ofNat 2)).x =
      (osswuHelp (Zp.ofNat 2) g1Xi g1EllpA g1EllpB).x0_num *
        (osswuHelp (Zp.ofNat 2) g1Xi g1EllpA g1EllpB).x0_den := by decide +kernel
/-- `t = 1`: second candidate (`X = x0_num·ξu²·x0_den`, different from the first candidate's) -/
example : (osswuG1 1).z ≠ 0 ∧ OnCurveJ g1EllpA g1EllpB (osswuG1 1) ∧
    (osswuG1 1).x =
      (osswuHelp 1 g1Xi g1EllpA g1EllpB).x0_num * (osswuHelp 1 g1Xi g1EllpA g1EllpB).xi_usq *
        (osswuHelp 1 g1Xi g1EllpA g1EllpB).x0_den ∧
    (osswuG1 1).x ≠
      (osswuHelp 1 g1Xi g1EllpA g1EllpB).x0_num * (osswuHelp 1 g1Xi g1EllpA g1EllpB).x0_den := by
  decide +kernel
/-- the hypothesis `hchain1` holds on a sample (`powMod` is the model's modular exponentiation) -/
example : (chainPm3div4 (Zp.ofNat 5)).v = powMod 5 ((Gen.q - 3) / 4) Gen.q := by decide +kernel
/-- G2, `t = 0` and `t = 1`: returns a point of `E₂'` -/
example : ∃ P, osswuG2 0 = some P ∧ P.z ≠ 0 ∧ OnCurveJ g2EllpA g2EllpB P := by decide +kernel
example : ∃ P, osswuG2 1 = some P ∧ P.z ≠ 0 ∧ OnCurveJ g2EllpA g2EllpB P := by decide +kernel

end PP.C15
