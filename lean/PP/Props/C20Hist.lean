/-
C02 / C20 — HISTORY INDEPENDENCE OF THE wNAF CONTEXT FOR THE WHOLE `Wnaf` API.

"A wNAF context may be reused for any sequence of bases and scalars and still returns what a fresh context
would" (C02); "… no dependence on call history, including sharing wNAF tables across threads" (C20).

`PP.C02.wnaf_reuse` / `PP.C20.wnaf_history_independent` range over histories of PAIRED calls only
(`base(b, n).scalar(k)` or `scalar(k).base(b)`, the language `WnafCall`).  The Rust API (src/wnaf.rs) is finer:

    let mut w = Wnaf::new();
    { let mut v = w.base(b, n);        // Wnaf<usize, &[G], &mut Vec<i64>>: table built once, borrows `w`
      v.scalar(k1); v.scalar(k2); …    // ANY number of scalars on the same table, digit buffer reused
      let mut s = v.shared();          // Wnaf<usize, &[G], Vec<i64>>: same table, OWN (empty) digit buffer
      s.scalar(k3); v.scalar(k4); s.scalar(k5); … }          // used in between, in any order
    { let mut u = w.scalar(k);         // Wnaf<usize, &mut Vec<G>, &[i64]>: digits computed once
      u.base(b1); u.base(b2); …        // ANY number of bases, table buffer reused
      let mut t = u.shared(); t.base(b3); u.base(b4); … }    // own (empty) table buffer

HISTORY LANGUAGE here: a history is a list of SESSIONS on one persistent context; a session is
`base(b, n)` followed by any list of operations on the returned view — `scalar(k)` on the view, `share i`
(slot `i` := `view.shared()`), `copyScalar i k` (`scalar(k)` on the copy in slot `i`; an empty slot is filled by
`shared()` first) — or `scalar(k)` followed by any list of `base(b)`, `share i`, `copyBase i b`.  Copies and the
view are used in any interleaving; any number of copies is alive at the same time; at the end of a session the
borrowed buffer is written back to the context (as in `GenMsm.Wnaf_baseThenScalar`) and the copies are dropped
(their lifetime is bounded by the borrow of the context).

SEMANTICS: the run functions below execute a history with the GENERATED methods of `PP/Gen/Msm.lean`
(`M.Wnaf.ctxBase`, `ctxScalar`, `expScalar`, `expBase`, `baseShared`, `scalarShared`: the line-by-line translation
of src/wnaf.rs, fuel 300 as in `PP.Props.GenMsm`), not with a hand-written model.

THEOREMS
* `runAll_eq_spec` (history independence, exact about panics, NO hypothesis on scalars or points): the list of
  results of any history on ANY (used) context is what FRESH buffers return request by request
  (`fresh b k w = wnaf_exp(wnaf_table([], b, w), wnaf_form([], k, w))`); the right-hand side mentions neither the
  context nor the slots nor the order of the interleaving.
* `runAll_results` : each result `R` of a history satisfies `fresh b k w = some R` for its request.
* `runAll_correct` : for `k < 2^255`, valid points and recommended windows in `2..=22` the history does not panic
  and every result is `[k]B`.
* `fresh_eq_session_new` : `fresh` is literally the one-request session on `Wnaf::new()`.
* `g1_history`, `g2_history` : the same with the window recommendations of G1 / G2 (no hypothesis on windows), on
  `E(Fq)` / `E'(Fq2)`.
* `run_baseScalar`, `run_scalarBase` : the two shapes of the old language `WnafCall` are the one-operation sessions.
-/
import PP.Props.GenMsm
import PP.Props.C02Inst
import PP.Props.C07

set_option linter.unusedSectionVars false
set_option linter.unusedVariables false

namespace PP.C20Hist
open PP PP.Gen PP.GenMsmLemmas

/-- the staged objects `Wnaf<usize, _, _>` of src/wnaf.rs (table, digits, window), as generated -/
abbrev View (F : Type) := M.Wnaf Nat (List (Jac F)) (List Int)

/-- operations on the view returned by `Wnaf::base(b, n)` -/
inductive BaseOp where
  /-- `view.scalar(k)` -/
  | scalar (k : ℕ)
  /-- `slot[i] = view.shared()` -/
  | share (i : ℕ)
  /-- `slot[i].scalar(k)` (an empty slot is first filled with `view.shared()`) -/
  | copyScalar (i : ℕ) (k : ℕ)

/-- operations on the view returned by `Wnaf::scalar(k)` -/
inductive ScalarOp (F : Type) where
  /-- `view.base(b)` -/
  | base (b : Jac F)
  /-- `slot[i] = view.shared()` -/
  | share (i : ℕ)
  /-- `slot[i].base(b)` (an empty slot is first filled with `view.shared()`) -/
  | copyBase (i : ℕ) (b : Jac F)

/-- one borrow of the context -/
inductive Session (F : Type) where
  | base (b : Jac F) (n : ℕ) (ops : List BaseOp)
  | scalar (k : ℕ) (ops : List (ScalarOp F))

/-- the scalar an operation asks a result for, if any -/
def BaseOp.scalar? : BaseOp → Option ℕ
  | .scalar k => some k
  | .share _ => none
  | .copyScalar _ k => some k

/-- the base an operation asks a result for, if any -/
def ScalarOp.base? {F : Type} : ScalarOp F → Option (Jac F)
  | .base b => some b
  | .share _ => none
  | .copyBase _ b => some b

section model
variable {F : Type} [Add F] [Sub F] [Mul F] [Neg F] [Zero F] [One F] [FieldOps F] [DecidableEq F]

/-- what fresh buffers return for base `b`, scalar `k`, window `w` (the expression of `C02.wnaf_mul`) -/
def fresh (b : Jac F) (k w : ℕ) : Option (Jac F) :=
  (wnafForm [] k w).bind fun f => wnafExp (wnafTable [] b w) f

/-- run the operations of a `base` session: the view, the live copies, the operations; returns the final view and
    the results in order -/
def runBaseOps : View F → List (ℕ × View F) → List BaseOp → Option (View F × List (Jac F))
  | v, _, [] => some (v, [])
  | v, sl, .scalar k :: ops =>
    match M.Wnaf.expScalar 300 v (limbsOf 4 k) with
    | none => none
    | some (v', r) =>
      match runBaseOps v' sl ops with
      | none => none
      | some (v'', rs) => some (v'', r :: rs)
  | v, sl, .share i :: ops => runBaseOps v ((i, M.Wnaf.baseShared v) :: sl) ops
  | v, sl, .copyScalar i k :: ops =>
    match M.Wnaf.expScalar 300 ((sl.lookup i).getD (M.Wnaf.baseShared v)) (limbsOf 4 k) with
    | none => none
    | some (s', r) =>
      match runBaseOps v ((i, s') :: sl) ops with
      | none => none
      | some (v'', rs) => some (v'', r :: rs)

/-- run the operations of a `scalar` session -/
def runScalarOps : View F → List (ℕ × View F) → List (ScalarOp F) → Option (View F × List (Jac F))
  | v, _, [] => some (v, [])
  | v, sl, .base b :: ops =>
    match M.Wnaf.expBase v b with
    | none => none
    | some (v', r) =>
      match runScalarOps v' sl ops with
      | none => none
      | some (v'', rs) => some (v'', r :: rs)
  | v, sl, .share i :: ops => runScalarOps v ((i, M.Wnaf.scalarShared v) :: sl) ops
  | v, sl, .copyBase i b :: ops =>
    match M.Wnaf.expBase ((sl.lookup i).getD (M.Wnaf.scalarShared v)) b with
    | none => none
    | some (s', r) =>
      match runScalarOps v ((i, s') :: sl) ops with
      | none => none
      | some (v'', rs) => some (v'', r :: rs)

/-- one session on the context `ctx` (`rn` = `G::recommended_wnaf_for_num_scalars`, `rs` =
    `G::recommended_wnaf_for_scalar`): the context afterwards (the borrowed buffer written back) and the results -/
def Session.run (rn : ℕ → ℕ) (rs : List ℕ → ℕ) (ctx : WnafCtx F) :
    Session F → Option (WnafCtx F × List (Jac F))
  | .base b n ops =>
    match M.Wnaf.ctxBase rn (ofCtx ctx) b n with
    | none => none
    | some (c1, v) =>
      match runBaseOps v [] ops with
      | none => none
      | some (v', out) => some (⟨c1.base, v'.scalar⟩, out)
  | .scalar k ops =>
    match M.Wnaf.ctxScalar 300 rs (ofCtx ctx) (limbsOf 4 k) with
    | none => none
    | some (c1, v) =>
      match runScalarOps v [] ops with
      | none => none
      | some (v', out) => some (⟨v'.base, c1.scalar⟩, out)

/-- a history: sessions threaded through ONE context; `none` if anything panics -/
def runAll (rn : ℕ → ℕ) (rs : List ℕ → ℕ) : WnafCtx F → List (Session F) → Option (WnafCtx F × List (Jac F))
  | ctx, [] => some (ctx, [])
  | ctx, s :: ss =>
    match s.run rn rs ctx with
    | none => none
    | some (c, out) =>
      match runAll rn rs c ss with
      | none => none
      | some (c', outs) => some (c', out ++ outs)

/-- the requests `(base, scalar, window)` of a session, one per result, in order -/
def Session.requests (rn : ℕ → ℕ) (rs : List ℕ → ℕ) : Session F → List (Jac F × ℕ × ℕ)
  | .base b n ops => (ops.filterMap BaseOp.scalar?).map fun k => (b, k, rn n)
  | .scalar k ops => (ops.filterMap ScalarOp.base?).map fun b => (b, k, rs (limbsOf 4 k))

/-- what FRESH buffers return for the requests of a session (a `scalar` session computes its digit string once,
    which may fail on its own) -/
def Session.spec (rn : ℕ → ℕ) (rs : List ℕ → ℕ) : Session F → Option (List (Jac F))
  | .base b n ops => (ops.filterMap BaseOp.scalar?).mapM fun k => fresh b k (rn n)
  | .scalar k ops =>
    (wnafForm [] k (rs (limbsOf 4 k))).bind fun _ =>
      (ops.filterMap ScalarOp.base?).mapM fun b => fresh b k (rs (limbsOf 4 k))

/-! ### the two refill routines ignore the buffers: one step -/

/-- `wnaf_table` truncates the buffer first (`PP.wnafTable_old` at the model's own type classes) -/
theorem wnafTable_nil (old : List (Jac F)) (b : Jac F) (w : ℕ) : wnafTable old b w = wnafTable [] b w := by
  simp [wnafTable]

theorem scalar?_cons_scalar (k : ℕ) (ops : List BaseOp) :
    (BaseOp.scalar k :: ops).filterMap BaseOp.scalar? = k :: ops.filterMap BaseOp.scalar? := rfl
theorem scalar?_cons_share (i : ℕ) (ops : List BaseOp) :
    (BaseOp.share i :: ops).filterMap BaseOp.scalar? = ops.filterMap BaseOp.scalar? := rfl
theorem scalar?_cons_copy (i k : ℕ) (ops : List BaseOp) :
    (BaseOp.copyScalar i k :: ops).filterMap BaseOp.scalar? = k :: ops.filterMap BaseOp.scalar? := rfl
theorem base?_cons_base (b : Jac F) (ops : List (ScalarOp F)) :
    (ScalarOp.base b :: ops).filterMap ScalarOp.base? = b :: ops.filterMap ScalarOp.base? := rfl
theorem base?_cons_share (i : ℕ) (ops : List (ScalarOp F)) :
    (ScalarOp.share i :: ops).filterMap ScalarOp.base? = ops.filterMap ScalarOp.base? := rfl
theorem base?_cons_copy (i : ℕ) (b : Jac F) (ops : List (ScalarOp F)) :
    (ScalarOp.copyBase i b :: ops).filterMap ScalarOp.base? = b :: ops.filterMap ScalarOp.base? := rfl

theorem expScalar_view (T : List (Jac F)) (w : ℕ) (v : View F) (hb : v.base = T) (hw : v.window_size = w)
    (k : ℕ) :
    M.Wnaf.expScalar 300 v (limbsOf 4 k)
      = (wnafForm [] k w).bind fun sc => (wnafExp T sc).map fun r => ((⟨T, sc, w⟩ : View F), r) := by
  rw [GenMsm.Wnaf_expScalar, wnafForm_old, hb, hw]

theorem expBase_view (S : List Int) (w : ℕ) (hw1 : 1 ≤ w) (v : View F) (hs : v.scalar = S)
    (hw : v.window_size = w) (b : Jac F) :
    M.Wnaf.expBase v b
      = (wnafExp (wnafTable [] b w) S).map fun r => ((⟨wnafTable [] b w, S, w⟩ : View F), r) := by
  rw [GenMsm.Wnaf_expBase v b (by rw [hw]; exact hw1), wnafTable_nil, hs, hw]

/-! ### sessions -/

theorem runBaseOps_spec (T : List (Jac F)) (w : ℕ) :
    ∀ (ops : List BaseOp) (v : View F) (sl : List (ℕ × View F)),
      v.base = T → v.window_size = w → (∀ p ∈ sl, p.2.base = T ∧ p.2.window_size = w) →
      (runBaseOps v sl ops).map Prod.snd
        = (ops.filterMap BaseOp.scalar?).mapM fun k => (wnafForm [] k w).bind fun f => wnafExp T f := by
  intro ops
  induction ops with
  | nil => intro v sl _ _ _; rfl
  | cons op ops ih =>
    intro v sl hb hw hsl
    cases op with
    | scalar k =>
      rw [runBaseOps, expScalar_view T w v hb hw k, scalar?_cons_scalar, List.mapM_cons]
      cases hf : wnafForm [] k w with
      | none => rfl
      | some sc =>
        cases he : wnafExp T sc with
        | none => simp [he]
        | some r =>
          have := ih ⟨T, sc, w⟩ sl rfl rfl hsl
          simp only [Option.bind_some, Option.map_some, he]
          rw [← this]
          cases runBaseOps (⟨T, sc, w⟩ : View F) sl ops with
          | none => rfl
          | some p => rfl
    | share i =>
      rw [runBaseOps, scalar?_cons_share]
      refine ih v _ hb hw ?_
      intro p hp
      rcases List.mem_cons.mp hp with rfl | hp
      · exact ⟨hb, hw⟩
      · exact hsl p hp
    | copyScalar i k =>
      have hc : ((sl.lookup i).getD (M.Wnaf.baseShared v)).base = T ∧
          ((sl.lookup i).getD (M.Wnaf.baseShared v)).window_size = w := by
        cases hl : sl.lookup i with
        | none => exact ⟨hb, hw⟩
        | some s =>
          have hm : (i, s) ∈ sl := by
            clear hsl ih
            induction sl with
            | nil => cases hl
            | cons q sl ihs =>
              obtain ⟨j, t⟩ := q
              by_cases hij : i = j
              · subst hij
                simp only [List.lookup_cons_self] at hl
                cases hl
                exact List.mem_cons_self ..
              · rw [List.lookup_cons, show (i == j) = false from by simpa using hij] at hl
                exact List.mem_cons_of_mem _ (ihs hl)
          exact hsl _ hm
      rw [runBaseOps, expScalar_view T w _ hc.1 hc.2 k, scalar?_cons_copy, List.mapM_cons]
      cases hf : wnafForm [] k w with
      | none => rfl
      | some sc =>
        cases he : wnafExp T sc with
        | none => simp [he]
        | some r =>
          have := ih v ((i, (⟨T, sc, w⟩ : View F)) :: sl) hb hw (by
            intro p hp
            rcases List.mem_cons.mp hp with rfl | hp
            · exact ⟨rfl, rfl⟩
            · exact hsl p hp)
          simp only [Option.bind_some, Option.map_some, he]
          rw [← this]
          cases runBaseOps v ((i, (⟨T, sc, w⟩ : View F)) :: sl) ops with
          | none => rfl
          | some p => rfl

theorem runScalarOps_spec (S : List Int) (w : ℕ) (hw1 : 1 ≤ w) :
    ∀ (ops : List (ScalarOp F)) (v : View F) (sl : List (ℕ × View F)),
      v.scalar = S → v.window_size = w → (∀ p ∈ sl, p.2.scalar = S ∧ p.2.window_size = w) →
      (runScalarOps v sl ops).map Prod.snd
        = (ops.filterMap ScalarOp.base?).mapM fun b => wnafExp (wnafTable [] b w) S := by
  intro ops
  induction ops with
  | nil => intro v sl _ _ _; rfl
  | cons op ops ih =>
    intro v sl hs hw hsl
    cases op with
    | base b =>
      rw [runScalarOps, expBase_view S w hw1 v hs hw b, base?_cons_base, List.mapM_cons]
      cases he : wnafExp (wnafTable [] b w) S with
      | none => rfl
      | some r =>
        have := ih ⟨wnafTable [] b w, S, w⟩ sl rfl rfl hsl
        simp only [Option.map_some]
        rw [← this]
        cases runScalarOps (⟨wnafTable [] b w, S, w⟩ : View F) sl ops with
        | none => rfl
        | some p => rfl
    | share i =>
      rw [runScalarOps, base?_cons_share]
      refine ih v _ hs hw ?_
      intro p hp
      rcases List.mem_cons.mp hp with rfl | hp
      · exact ⟨hs, hw⟩
      · exact hsl p hp
    | copyBase i b =>
      have hc : ((sl.lookup i).getD (M.Wnaf.scalarShared v)).scalar = S ∧
          ((sl.lookup i).getD (M.Wnaf.scalarShared v)).window_size = w := by
        cases hl : sl.lookup i with
        | none => exact ⟨hs, hw⟩
        | some s =>
          have hm : (i, s) ∈ sl := by
            clear hsl ih
            induction sl with
            | nil => cases hl
            | cons q sl ihs =>
              obtain ⟨j, t⟩ := q
              by_cases hij : i = j
              · subst hij
                simp only [List.lookup_cons_self] at hl
                cases hl
                exact List.mem_cons_self ..
              · rw [List.lookup_cons, show (i == j) = false from by simpa using hij] at hl
                exact List.mem_cons_of_mem _ (ihs hl)
          exact hsl _ hm
      rw [runScalarOps, expBase_view S w hw1 _ hc.1 hc.2 b, base?_cons_copy, List.mapM_cons]
      cases he : wnafExp (wnafTable [] b w) S with
      | none => rfl
      | some r =>
        have := ih v ((i, (⟨wnafTable [] b w, S, w⟩ : View F)) :: sl) hs hw (by
          intro p hp
          rcases List.mem_cons.mp hp with rfl | hp
          · exact ⟨rfl, rfl⟩
          · exact hsl p hp)
        simp only [Option.map_some]
        rw [← this]
        cases runScalarOps v ((i, (⟨wnafTable [] b w, S, w⟩ : View F)) :: sl) ops with
        | none => rfl
        | some p => rfl

/-- **one session on any (used) context returns what fresh buffers return**, exactly (panics included) -/
theorem Session.run_eq_spec (rn : ℕ → ℕ) (rs : List ℕ → ℕ) (hrn : ∀ n, 1 ≤ rn n)
    (hrs : ∀ k, 1 ≤ rs (limbsOf 4 k)) (ctx : WnafCtx F) (s : Session F) :
    (s.run rn rs ctx).map Prod.snd = s.spec rn rs := by
  cases s with
  | base b n ops =>
    rw [Session.run, GenMsm.Wnaf_ctxBase rn ctx b n (hrn n), Session.spec]
    have := runBaseOps_spec (wnafTable ctx.base b (rn n)) (rn n) ops
      (⟨wnafTable ctx.base b (rn n), ctx.scalar, rn n⟩ : View F) [] rfl rfl (by intro p hp; cases hp)
    simp only [fresh]
    rw [wnafTable_nil] at this ⊢
    rw [← this]
    cases runBaseOps (⟨wnafTable [] b (rn n), ctx.scalar, rn n⟩ : View F) [] ops with
    | none => rfl
    | some p => rfl
  | scalar k ops =>
    rw [Session.run, GenMsm.Wnaf_ctxScalar rs ctx k, Session.spec, wnafForm_old]
    cases hf : wnafForm [] k (rs (limbsOf 4 k)) with
    | none => rfl
    | some sc =>
      have := runScalarOps_spec sc (rs (limbsOf 4 k)) (hrs k) ops
        (⟨ctx.base, sc, rs (limbsOf 4 k)⟩ : View F) [] rfl rfl (by intro p hp; cases hp)
      simp only [Option.map_some, Option.bind_some, fresh, hf]
      rw [← this]
      cases runScalarOps (⟨ctx.base, sc, rs (limbsOf 4 k)⟩ : View F) [] ops with
      | none => rfl
      | some p => rfl

/-- **HISTORY INDEPENDENCE for the whole `Wnaf` API**: the results of ANY history of sessions threaded through one
    context, started on ANY (used) context, are — request by request, and exactly, panics included — what fresh
    buffers return.  The right-hand side does not mention the context, the copies, or the interleaving. -/
theorem runAll_eq_spec (rn : ℕ → ℕ) (rs : List ℕ → ℕ) (hrn : ∀ n, 1 ≤ rn n)
    (hrs : ∀ k, 1 ≤ rs (limbsOf 4 k)) (ctx : WnafCtx F) (hist : List (Session F)) :
    (runAll rn rs ctx hist).map Prod.snd = (hist.mapM (Session.spec rn rs)).map List.flatten := by
  induction hist generalizing ctx with
  | nil => rfl
  | cons s ss ih =>
    rw [runAll, List.mapM_cons, ← Session.run_eq_spec rn rs hrn hrs ctx s]
    cases hr : s.run rn rs ctx with
    | none => rfl
    | some p =>
      obtain ⟨c, out⟩ := p
      have := ih c
      cases hm : ss.mapM (Session.spec rn rs) with
      | none =>
        rw [hm] at this
        cases hA : runAll rn rs c ss with
        | none => simp [hA]
        | some q => rw [hA] at this; cases this
      | some l =>
        rw [hm] at this
        cases hA : runAll rn rs c ss with
        | none => rw [hA] at this; cases this
        | some q =>
          rw [hA] at this
          obtain ⟨c', outs⟩ := q
          simp only [Option.map_some, Option.some.injEq] at this
          subst this
          simp [hA]

/-- two different pasts cannot change the results of a history -/
theorem runAll_two_contexts (rn : ℕ → ℕ) (rs : List ℕ → ℕ) (hrn : ∀ n, 1 ≤ rn n)
    (hrs : ∀ k, 1 ≤ rs (limbsOf 4 k)) (ctx₁ ctx₂ : WnafCtx F) (hist : List (Session F)) :
    (runAll rn rs ctx₁ hist).map Prod.snd = (runAll rn rs ctx₂ hist).map Prod.snd := by
  rw [runAll_eq_spec rn rs hrn hrs, runAll_eq_spec rn rs hrn hrs]

/-- a history after any other history on the same context = the history on `Wnaf::new()` -/
theorem runAll_after (rn : ℕ → ℕ) (rs : List ℕ → ℕ) (hrn : ∀ n, 1 ≤ rn n)
    (hrs : ∀ k, 1 ≤ rs (limbsOf 4 k)) (ctx ctx' : WnafCtx F) (past hist : List (Session F))
    (out : List (Jac F)) (h : runAll rn rs ctx past = some (ctx', out)) :
    (runAll rn rs ctx' hist).map Prod.snd = (runAll rn rs WnafCtx.new hist).map Prod.snd :=
  runAll_two_contexts rn rs hrn hrs ctx' WnafCtx.new hist

/-! ### result by result -/

theorem mapM_some_forall₂ {α β : Type} (f : α → Option β) :
    ∀ (l : List α) (out : List β), l.mapM f = some out → List.Forall₂ (fun a r => f a = some r) l out := by
  intro l
  induction l with
  | nil => intro out h; simp at h; subst h; exact .nil
  | cons a l ih =>
    intro out h
    rw [List.mapM_cons] at h
    cases ha : f a with
    | none => rw [ha] at h; cases h
    | some r =>
      cases hl : l.mapM f with
      | none => rw [ha, hl] at h; cases h
      | some rs' =>
        rw [ha, hl] at h
        cases h
        exact .cons ha (ih rs' hl)

theorem forall₂_mapM_some {α β : Type} (f : α → Option β) (P : α → β → Prop) :
    ∀ (l : List α), (∀ a ∈ l, ∃ r, f a = some r ∧ P a r) →
      ∃ out, l.mapM f = some out ∧ List.Forall₂ P l out := by
  intro l
  induction l with
  | nil => intro _; exact ⟨[], rfl, .nil⟩
  | cons a l ih =>
    intro h
    obtain ⟨r, hr, hp⟩ := h a (List.mem_cons_self ..)
    obtain ⟨out, ho, hf⟩ := ih (fun a' ha' => h a' (List.mem_cons_of_mem _ ha'))
    exact ⟨r :: out, by rw [List.mapM_cons, hr, ho]; rfl, .cons hp hf⟩

theorem Session.spec_results (rn : ℕ → ℕ) (rs : List ℕ → ℕ) (s : Session F) (out : List (Jac F))
    (h : s.spec rn rs = some out) :
    List.Forall₂ (fun q R => fresh q.1 q.2.1 q.2.2 = some R) (s.requests rn rs) out := by
  cases s with
  | base b n ops =>
    rw [Session.spec] at h
    rw [Session.requests, List.forall₂_map_left_iff]
    exact mapM_some_forall₂ _ _ _ h
  | scalar k ops =>
    rw [Session.spec] at h
    cases hf : wnafForm [] k (rs (limbsOf 4 k)) with
    | none => rw [hf] at h; cases h
    | some sc =>
      rw [hf, Option.bind_some] at h
      rw [Session.requests, List.forall₂_map_left_iff]
      exact mapM_some_forall₂ _ _ _ h

theorem spec_results_all (rn : ℕ → ℕ) (rs : List ℕ → ℕ) :
    ∀ (hist : List (Session F)) (os : List (List (Jac F))), hist.mapM (Session.spec rn rs) = some os →
      List.Forall₂ (fun q R => fresh q.1 q.2.1 q.2.2 = some R) (hist.flatMap (Session.requests rn rs))
        os.flatten := by
  intro hist
  induction hist with
  | nil => intro os h; simp at h; subst h; exact .nil
  | cons s ss ih =>
    intro os h
    rw [List.mapM_cons] at h
    cases hs : s.spec rn rs with
    | none => rw [hs] at h; cases h
    | some o =>
      cases hss : ss.mapM (Session.spec rn rs) with
      | none => rw [hs, hss] at h; cases h
      | some os' =>
        rw [hs, hss] at h
        cases h
        rw [List.flatMap_cons, List.flatten_cons]
        exact List.rel_append (Session.spec_results rn rs s o hs) (ih os' hss)

/-- **every result in any history is what fresh buffers return for its request** (`(b, k, w)` = the base and the
    scalar the operation was called with, and the window `G::recommended_wnaf_for_…` chose for the session) -/
theorem runAll_results (rn : ℕ → ℕ) (rs : List ℕ → ℕ) (hrn : ∀ n, 1 ≤ rn n)
    (hrs : ∀ k, 1 ≤ rs (limbsOf 4 k)) (ctx ctx' : WnafCtx F) (hist : List (Session F)) (out : List (Jac F))
    (h : runAll rn rs ctx hist = some (ctx', out)) :
    List.Forall₂ (fun q R => fresh q.1 q.2.1 q.2.2 = some R) (hist.flatMap (Session.requests rn rs)) out := by
  have h' := runAll_eq_spec rn rs hrn hrs ctx hist
  rw [h, Option.map_some] at h'
  cases hm : hist.mapM (Session.spec rn rs) with
  | none => rw [hm] at h'; cases h'
  | some os =>
    rw [hm, Option.map_some, Option.some.injEq] at h'
    have e : out = os.flatten := h'
    subst e
    exact spec_results_all rn rs hist os hm

/-- `fresh` IS the one-request session on `Wnaf::new()` (either staging order) -/
theorem fresh_eq_session_new (rn : ℕ → ℕ) (rs : List ℕ → ℕ) (hrn : ∀ n, 1 ≤ rn n)
    (hrs : ∀ k, 1 ≤ rs (limbsOf 4 k)) (b : Jac F) (n k : ℕ) :
    ((Session.base b n [.scalar k]).run rn rs WnafCtx.new).map Prod.snd = (fresh b k (rn n)).map ([·]) ∧
    ((Session.scalar k [.base b]).run rn rs WnafCtx.new).map Prod.snd
      = (fresh b k (rs (limbsOf 4 k))).map ([·]) := by
  constructor
  · rw [Session.run_eq_spec rn rs hrn hrs, Session.spec, scalar?_cons_scalar, List.filterMap_nil,
      List.mapM_cons, List.mapM_nil]
    cases fresh b k (rn n) <;> rfl
  · rw [Session.run_eq_spec rn rs hrn hrs, Session.spec, base?_cons_base, List.filterMap_nil,
      List.mapM_cons, List.mapM_nil]
    unfold fresh
    cases h1 : wnafForm [] k (rs (limbsOf 4 k)) with
    | none => rfl
    | some sc => cases h2 : wnafExp (wnafTable [] b (rs (limbsOf 4 k))) sc <;> simp [h2]

/-! ### the old history language `WnafCall` is the one-operation fragment -/

theorem run_baseScalar (rc : WnafRec) (rs : List ℕ → ℕ) (ctx : WnafCtx F) (b : Jac F) (n k : ℕ)
    (hw : 1 ≤ recommendForNumScalars rc.tbl rc.base n) :
    (Session.base b n [.scalar k]).run (recommendForNumScalars rc.tbl rc.base) rs ctx
      = (ctx.baseThenScalar rc b n k).map fun p => (p.2, [p.1]) := by
  rw [← GenMsm.Wnaf_baseThenScalar rc ctx b n k hw, Session.run]
  cases M.Wnaf.ctxBase (recommendForNumScalars rc.tbl rc.base) (ofCtx ctx) b n with
  | none => rfl
  | some p =>
    obtain ⟨c1, v⟩ := p
    simp only [runBaseOps]
    cases M.Wnaf.expScalar 300 v (limbsOf 4 k) with
    | none => rfl
    | some q => rfl

theorem run_scalarBase (rc : WnafRec) (rn : ℕ → ℕ) (rs : List ℕ → ℕ) (ctx : WnafCtx F) (k : ℕ) (b : Jac F)
    (hrs : rs (limbsOf 4 k) = recommendForScalar rc.ladder rc.dflt (k % 2 ^ 256))
    (hw : 1 ≤ recommendForScalar rc.ladder rc.dflt (k % 2 ^ 256)) :
    (Session.scalar k [.base b]).run rn rs ctx
      = (ctx.scalarThenBase rc k b).map fun p => (p.2, [p.1]) := by
  rw [← GenMsm.Wnaf_scalarThenBase rc rs ctx k b hrs hw, Session.run]
  cases M.Wnaf.ctxScalar 300 rs (ofCtx ctx) (limbsOf 4 k) with
  | none => rfl
  | some p =>
    obtain ⟨c1, v⟩ := p
    simp only [runScalarOps]
    cases M.Wnaf.expBase v b with
    | none => rfl
    | some q => rfl

end model

/-! ## correctness of every result: `[k]B` -/

section correct
variable {F : Type} [Field F] [DecidableEq F] [FieldOps F] {G : Type} [AddCommGroup G] (M' : GroupModel F G)

/-- the scalars and points a session is called with are in the ranges of C02 -/
def Session.InRange : Session F → Prop
  | .base b _ ops => M'.ValidJ b ∧ ∀ k ∈ ops.filterMap BaseOp.scalar?, k < 2 ^ 255
  | .scalar k ops => k < 2 ^ 255 ∧ ∀ b ∈ ops.filterMap ScalarOp.base?, M'.ValidJ b

theorem fresh_correct (b : Jac F) (hb : M'.ValidJ b) (k w : ℕ) (hw2 : 2 ≤ w) (hw : w ≤ 22) (hk : k < 2 ^ 255) :
    ∃ R, fresh b k w = some R ∧ M'.ValidJ R ∧ M'.absJ R = k • M'.absJ b :=
  C02.wnaf_mul M' b hb k w hw2 hw hk

theorem Session.spec_correct (rn : ℕ → ℕ) (rs : List ℕ → ℕ) (hrn : ∀ n, 2 ≤ rn n ∧ rn n ≤ 22)
    (hrs : ∀ k, 2 ≤ rs (limbsOf 4 k) ∧ rs (limbsOf 4 k) ≤ 22) (s : Session F) (hs : s.InRange M') :
    ∃ out, s.spec rn rs = some out ∧
      List.Forall₂ (fun q R => fresh q.1 q.2.1 q.2.2 = some R ∧ M'.ValidJ R ∧ M'.absJ R = q.2.1 • M'.absJ q.1)
        (s.requests rn rs) out := by
  cases s with
  | base b n ops =>
    obtain ⟨hb, hk⟩ := hs
    obtain ⟨out, ho, hf⟩ := forall₂_mapM_some (fun k => fresh b k (rn n))
      (fun k R => fresh b k (rn n) = some R ∧ M'.ValidJ R ∧ M'.absJ R = k • M'.absJ b)
      (ops.filterMap BaseOp.scalar?) (fun k hkm => by
        obtain ⟨R, h1, h2, h3⟩ := fresh_correct M' b hb k (rn n) (hrn n).1 (hrn n).2 (hk k hkm)
        exact ⟨R, h1, h1, h2, h3⟩)
    exact ⟨out, ho, by rw [Session.requests, List.forall₂_map_left_iff]; exact hf⟩
  | scalar k ops =>
    obtain ⟨hk, hb⟩ := hs
    obtain ⟨ds, hds, -, -⟩ := C02.wnaf_form k (rs (limbsOf 4 k)) (hrs k).1 (hrs k).2 hk
    obtain ⟨out, ho, hf⟩ := forall₂_mapM_some (fun b => fresh b k (rs (limbsOf 4 k)))
      (fun b R => fresh b k (rs (limbsOf 4 k)) = some R ∧ M'.ValidJ R ∧ M'.absJ R = k • M'.absJ b)
      (ops.filterMap ScalarOp.base?) (fun b hbm => by
        obtain ⟨R, h1, h2, h3⟩ :=
          fresh_correct M' b (hb b hbm) k (rs (limbsOf 4 k)) (hrs k).1 (hrs k).2 hk
        exact ⟨R, h1, h1, h2, h3⟩)
    exact ⟨out, by rw [Session.spec, hds, Option.bind_some]; exact ho,
      by rw [Session.requests, List.forall₂_map_left_iff]; exact hf⟩

/-- **any history in the ranges of C02** (every scalar `< 2^255`, every base a valid point, recommended windows in
    `2..=22`), started on any used context: no panic, and EVERY result — of the view or of a `shared()` copy, in
    any interleaving — is what fresh buffers return and denotes `[k]B` -/
theorem runAll_correct (rn : ℕ → ℕ) (rs : List ℕ → ℕ) (hrn : ∀ n, 2 ≤ rn n ∧ rn n ≤ 22)
    (hrs : ∀ k, 2 ≤ rs (limbsOf 4 k) ∧ rs (limbsOf 4 k) ≤ 22) (ctx : WnafCtx F) (hist : List (Session F))
    (hh : ∀ s ∈ hist, s.InRange M') :
    ∃ ctx' out, runAll rn rs ctx hist = some (ctx', out) ∧
      List.Forall₂ (fun q R => fresh q.1 q.2.1 q.2.2 = some R ∧ M'.ValidJ R ∧ M'.absJ R = q.2.1 • M'.absJ q.1)
        (hist.flatMap (Session.requests rn rs)) out := by
  have hrn1 : ∀ n, 1 ≤ rn n := fun n => by have := (hrn n).1; omega
  have hrs1 : ∀ k, 1 ≤ rs (limbsOf 4 k) := fun k => by have := (hrs k).1; omega
  have key : ∃ out, (hist.mapM (Session.spec rn rs)).map List.flatten = some out ∧
      List.Forall₂ (fun q R => fresh q.1 q.2.1 q.2.2 = some R ∧ M'.ValidJ R ∧ M'.absJ R = q.2.1 • M'.absJ q.1)
        (hist.flatMap (Session.requests rn rs)) out := by
    induction hist with
    | nil => exact ⟨[], rfl, .nil⟩
    | cons s ss ih =>
      obtain ⟨o, ho, hf⟩ := Session.spec_correct M' rn rs hrn hrs s (hh s (List.mem_cons_self ..))
      obtain ⟨os, hos, hfs⟩ := ih (fun s' hs' => hh s' (List.mem_cons_of_mem _ hs'))
      refine ⟨o ++ os, ?_, by rw [List.flatMap_cons]; exact List.rel_append hf hfs⟩
      rw [List.mapM_cons, ho]
      cases hm : ss.mapM (Session.spec rn rs) with
      | none => rw [hm] at hos; cases hos
      | some l =>
        rw [hm, Option.map_some, Option.some.injEq] at hos
        subst hos
        rfl
  obtain ⟨out, ho, hf⟩ := key
  rw [← runAll_eq_spec rn rs hrn1 hrs1 ctx hist] at ho
  cases hr : runAll rn rs ctx hist with
  | none => rw [hr] at ho; cases ho
  | some p =>
    obtain ⟨c, o⟩ := p
    rw [hr, Option.map_some, Option.some.injEq] at ho
    subst ho
    exact ⟨c, _, rfl, hf⟩

end correct

/-! ## G1 and G2: the library's own window recommendations, the curves `E(Fq)`, `E'(Fq2)` -/

/-- `G1::recommended_wnaf_for_num_scalars` / `G1::recommended_wnaf_for_scalar`, as generated -/
abbrev rnG1 : ℕ → ℕ := M.Jac.recommendedWnafForNumScalars M.G1.empiricalRecommendedWnafForNumScalars
abbrev rsG1 : List ℕ → ℕ := M.Jac.recommendedWnafForScalar M.G1.empiricalRecommendedWnafForScalar
abbrev rnG2 : ℕ → ℕ := M.Jac.recommendedWnafForNumScalars M.G2.empiricalRecommendedWnafForNumScalars
abbrev rsG2 : List ℕ → ℕ := M.Jac.recommendedWnafForScalar M.G2.empiricalRecommendedWnafForScalar

theorem rnG1_range (n : ℕ) : 2 ≤ rnG1 n ∧ rnG1 n ≤ 22 := by
  rw [rnG1, GenMsm.Jac_recommendedWnafForNumScalars, GenMsm.G1_empiricalRecommendedWnafForNumScalars]
  exact (recommendForNumScalars_range' n).1

theorem rnG2_range (n : ℕ) : 2 ≤ rnG2 n ∧ rnG2 n ≤ 22 := by
  rw [rnG2, GenMsm.Jac_recommendedWnafForNumScalars, GenMsm.G2_empiricalRecommendedWnafForNumScalars]
  exact (recommendForNumScalars_range' n).2

theorem rsG1_range (k : ℕ) : 2 ≤ rsG1 (limbsOf 4 k) ∧ rsG1 (limbsOf 4 k) ≤ 22 := by
  rw [rsG1, GenMsm.Jac_recommendedWnafForScalar, GenMsm.G1_empiricalRecommendedWnafForScalar]
  exact (recommendForScalar_range (k % 2 ^ 256)).1

theorem rsG2_range (k : ℕ) : 2 ≤ rsG2 (limbsOf 4 k) ∧ rsG2 (limbsOf 4 k) ≤ 22 := by
  rw [rsG2, GenMsm.Jac_recommendedWnafForScalar, GenMsm.G2_empiricalRecommendedWnafForScalar]
  exact (recommendForScalar_range (k % 2 ^ 256)).2

/-- the ranges of C02 on a curve: bases on the curve, scalars below `2^255` -/
def Session.InRangeCurve {F : Type} [Field F] [DecidableEq F] [FieldOps F] (b : F) : Session F → Prop
  | .base P _ ops => Jac.OnCurve b P ∧ ∀ k ∈ ops.filterMap BaseOp.scalar?, k < 2 ^ 255
  | .scalar k ops => k < 2 ^ 255 ∧ ∀ P ∈ ops.filterMap ScalarOp.base?, Jac.OnCurve b P

section curves
variable {F : Type} [Field F] [DecidableEq F] [FieldOps F] [LawfulFieldOps F] (b : F) [ShortW b]

theorem inRangeCurve_iff (s : Session F) : s.InRangeCurve b ↔ s.InRange (curveModel b) := by
  cases s <;> rfl

/-- any curve `y² = x³ + b`, any recommendation functions with values in `2..=22` -/
theorem curve_history (rn : ℕ → ℕ) (rs : List ℕ → ℕ) (hrn : ∀ n, 2 ≤ rn n ∧ rn n ≤ 22)
    (hrs : ∀ k, 2 ≤ rs (limbsOf 4 k) ∧ rs (limbsOf 4 k) ≤ 22) (ctx : WnafCtx F) (hist : List (Session F))
    (hh : ∀ s ∈ hist, s.InRangeCurve b) :
    ∃ ctx' out, runAll rn rs ctx hist = some (ctx', out) ∧
      List.Forall₂ (fun q R => fresh q.1 q.2.1 q.2.2 = some R ∧ Jac.OnCurve b R ∧
          Jac.abs b R = q.2.1 • Jac.abs b q.1)
        (hist.flatMap (Session.requests rn rs)) out :=
  runAll_correct (curveModel b) rn rs hrn hrs ctx hist (fun s hs => (inRangeCurve_iff b s).mp (hh s hs))

end curves

/-- **G1**: any history of `Wnaf` sessions (views, `shared()` copies, any interleaving) on any used context, bases on
    `E(Fq)`, scalars `< 2^255`, windows chosen by the library: no panic, every result is what a fresh context
    returns and is `[k]B` -/
theorem g1_history (ctx : WnafCtx Fq) (hist : List (Session Fq)) (hh : ∀ s ∈ hist, s.InRangeCurve g1Codec.b) :
    ∃ ctx' out, runAll rnG1 rsG1 ctx hist = some (ctx', out) ∧
      List.Forall₂ (fun q R => fresh q.1 q.2.1 q.2.2 = some R ∧ Jac.OnCurve g1Codec.b R ∧
          Jac.abs g1Codec.b R = q.2.1 • Jac.abs g1Codec.b q.1)
        (hist.flatMap (Session.requests rnG1 rsG1)) out :=
  curve_history g1Codec.b rnG1 rsG1 rnG1_range rsG1_range ctx hist hh

/-- **G2** -/
theorem g2_history (ctx : WnafCtx Fq2) (hist : List (Session Fq2)) (hh : ∀ s ∈ hist, s.InRangeCurve g2Codec.b) :
    ∃ ctx' out, runAll rnG2 rsG2 ctx hist = some (ctx', out) ∧
      List.Forall₂ (fun q R => fresh q.1 q.2.1 q.2.2 = some R ∧ Jac.OnCurve g2Codec.b R ∧
          Jac.abs g2Codec.b R = q.2.1 • Jac.abs g2Codec.b q.1)
        (hist.flatMap (Session.requests rnG2 rsG2)) out :=
  curve_history g2Codec.b rnG2 rsG2 rnG2_range rsG2_range ctx hist hh

/-- history independence for G1 / G2 without any hypothesis on scalars or points -/
theorem g1_history_independent (ctx : WnafCtx Fq) (hist : List (Session Fq)) :
    (runAll rnG1 rsG1 ctx hist).map Prod.snd = (hist.mapM (Session.spec rnG1 rsG1)).map List.flatten :=
  runAll_eq_spec rnG1 rsG1 (fun n => by have := (rnG1_range n).1; omega)
    (fun k => by have := (rsG1_range k).1; omega) ctx hist

theorem g2_history_independent (ctx : WnafCtx Fq2) (hist : List (Session Fq2)) :
    (runAll rnG2 rsG2 ctx hist).map Prod.snd = (hist.mapM (Session.spec rnG2 rsG2)).map List.flatten :=
  runAll_eq_spec rnG2 rsG2 (fun n => by have := (rnG2_range n).1; omega)
    (fun k => by have := (rsG2_range k).1; omega) ctx hist

/-! ## non-vacuity -/

theorem forall₂_right {α β : Type} {P : α → β → Prop} {Q : β → Prop} (h : ∀ a r, P a r → Q r) :
    ∀ {l : List α} {out : List β}, List.Forall₂ P l out → ∀ r ∈ out, Q r := by
  intro l out hf
  induction hf with
  | nil => intro r hr; cases hr
  | cons hp _ ih =>
    intro r hr
    rcases List.mem_cons.mp hr with rfl | hr
    · exact h _ _ hp
    · exact ih r hr

/-- a history that is NOT expressible in the old language: one table, three scalars on the view and two on two
    `shared()` copies (one of them created implicitly), interleaved; then one digit string, one base on the view
    and one on a copy — started on a context with junk in both buffers.  The hypotheses of `g1_history` hold for
    it (the base is the G1 generator), so it returns 7 results, each a curve point denoting `[k]g`. -/
example : ∃ ctx' out,
    runAll rnG1 rsG1 (⟨[Jac.zero, Jac.zero], [1, -3, 7]⟩ : WnafCtx Fq)
      [.base C07.g1Generator.toJac 3 [.scalar 5, .share 0, .copyScalar 0 7, .scalar 11, .copyScalar 1 2, .scalar 0],
       .scalar 9 [.base C07.g1Generator.toJac, .share 2, .copyBase 2 C07.g1Generator.toJac]]
      = some (ctx', out) ∧ out.length = 7 ∧
      ∀ R ∈ out, Jac.OnCurve g1Codec.b R := by
  have hg : Jac.OnCurve g1Codec.b C07.g1Generator.toJac := C07.g1Generator_toJac_inSub.1
  obtain ⟨ctx', out, h, hf⟩ := g1_history (⟨[Jac.zero, Jac.zero], [1, -3, 7]⟩ : WnafCtx Fq)
    [.base C07.g1Generator.toJac 3 [.scalar 5, .share 0, .copyScalar 0 7, .scalar 11, .copyScalar 1 2, .scalar 0],
     .scalar 9 [.base C07.g1Generator.toJac, .share 2, .copyBase 2 C07.g1Generator.toJac]]
    (by
      intro s hs
      simp only [List.mem_cons, List.mem_nil_iff, or_false] at hs
      rcases hs with rfl | rfl
      · refine ⟨hg, ?_⟩
        intro k hk
        simp only [List.filterMap_cons, BaseOp.scalar?, List.filterMap_nil, List.mem_cons, List.mem_nil_iff,
          or_false] at hk
        rcases hk with rfl | rfl | rfl | rfl | rfl <;> decide
      · refine ⟨by decide, ?_⟩
        intro P hP
        simp only [List.filterMap_cons, ScalarOp.base?, List.filterMap_nil, List.mem_cons, List.mem_nil_iff,
          or_false] at hP
        rcases hP with rfl | rfl <;> exact hg)
  refine ⟨ctx', out, h, ?_, ?_⟩
  · have := hf.length_eq
    rw [← this]
    rfl
  · exact forall₂_right (fun q R h => h.2.1) hf

end PP.C20Hist
