/-
PROPERTY C03, LINEARITY OF THE PAIRING IN ITS FIRST ARGUMENT, for ALL inputs:

    e(P₁ + P₂, Q) = e(P₁, Q) · e(P₂, Q),        e([k]P, Q) = e(P, Q)^k   (k ∈ ℕ, ℤ)

for all `P₁, P₂, P ∈ E(Fq)` (accepted by the model's `is_on_curve`; NO subgroup assumption; the identity
allowed) and all `Q ∈ G2` (accepted by the model's `in_subgroup`; the identity allowed).  `pairing` is the
model function of `PP/Model/Pairing.lean` (`none` = a panic of the Rust code: it never occurs here),
`+`, `[k]` refer to Mathlib's group `(W g1Codec.b).Point` through `Aff.abs`, and - through the C01/C02
correctness theorems - to the model's own `add_assign_mixed`, `add_assign`, `mul`.

Everything is proved (axioms `propext`, `Classical.choice`, `Quot.sound`); no `_partial` statement.

HOW IT IS PROVED (elementary, no divisor theory; files `PP/Proofs/BilinP1.lean` … `BilinP3.lean`,
`BilinPFrob.lean`).  By `C03Lines`, `pairing P Q = conj(f)^E`, `f = textbookMiller P Q` the product of the
tangent/chord lines `l_T`, `l_{T,Q}` of `E(Fq12)` at the untwisted multiples of `Q`, evaluated at `P`,
`E = 3(q¹²-1)/r`.  Write `pw x = x^E`, let `m` be the line through `P₁, P₂, -P₃` (`P₃ = P₁ + P₂`; slope in
`Fq`; tangent if `P₁ = P₂`), `g(R) = m(R)` for `R ∈ E(Fq12)`, `ε(T) = pw g(ψT)`.

1. RECIPROCITY OF TWO LINES (`line_reciprocity`; Vieta for the cubic `x³ + b - (λx + ν)²`):
   `l(A') l(B') l(-C') = - m(A) m(B) m(-C)` for lines `l ∋ A, B, -C`, `m ∋ A', B', -C'`.
   Hence `l_T(P₁) l_T(P₂) l_T(-P₃) = - g(ψT)² g(-ψ(2T))` and the same for chords.
2. `l_T(-P) = -conj l_T(P)` (C11Neg), `g(-ψT) = conj g(ψT)`, `pw(conj x) = (pw x)⁻¹`, `pw(-1) = 1`:
   `pw l_T(P₁) · pw l_T(P₂) / pw l_T(P₃) = ε(T)²/ε(2T)`, resp. `ε(T) ε(Q)/ε(T+Q)`.
3. ZERO BOOKKEEPING = induction over the Miller loop (`loop_invariant`):
   `pw f(P₁) · pw f(P₂) / pw f(P₃) = ε(Q)^k / ε([k]Q)` after the bits of `k`; at the end `k = n = |x|`.
4. FROBENIUS (`frobenius_on_G2`): the twisted Frobenius `Φ(x,y) = (conj x/γ², conj y/γ³)` is an
   endomorphism of `E'(Fq2)` (Mathlib group) and `[n]Q = -Φ(Q)` on `G2`; `ψ∘Φ = π∘ψ` and `m` has
   coefficients in `Fq`, so `ε([n]Q) = ε(Q)^(-q)`.
5. `r ∣ n + q`, `ε(Q)^r = 1`: the quotient in 3. is `1`.
No vertical line is needed: the verticals of the textbook plan all cancel against conjugates.
-/
import PP.Proofs.BilinP3

namespace PP.C03LinP

open PP Ate Miller Lines NegPair BilinP WeierstrassCurve.Affine

local notation "b₁" => g1Codec.b
local notation "b₂" => g2Codec.b

/-! ## intermediate results -/

/-- **reciprocity of two lines** on `y² = x³ + b` over any field: if the line of slope `l` through `A`
    meets the curve in `A`, `B`, `-(A+B)` and the line of slope `m` through `A'` in `A'`, `B'`,
    `-(A'+B')` (`LineZeros`: `B` on the line + Vieta), then
    `l(A') l(B') l(-(A'+B')) = - m(A) m(B) m(-(A+B))` -/
theorem line_reciprocity {K : Type} [Field K] {b l m : K} {A B A' B' : K × K}
    (h : LineZeros b l A B) (h' : LineZeros b m A' B') :
    lineAt l A A' * lineAt l A B' * lineAt l A (ngp (sumOfSlope m A' B')) =
      -(lineAt m A' A * lineAt m A' B * lineAt m A' (ngp (sumOfSlope l A B))) :=
  BilinP.line_reciprocity h h'

/-- tangents and chords satisfy `LineZeros` -/
theorem lineZeros_tangent {K : Type} [Field K] {b : K} {A : K × K} (h2 : (2 : K) ≠ 0)
    (hA : A.2 ^ 2 = A.1 ^ 3 + b) (hy : A.2 ≠ 0) : LineZeros b (tangentSlope A) A A :=
  BilinP.lineZeros_tangent h2 hA hy

theorem lineZeros_chord {K : Type} [Field K] {b : K} {A B : K × K} (hA : A.2 ^ 2 = A.1 ^ 3 + b)
    (hB : B.2 ^ 2 = B.1 ^ 3 + b) (hx : A.1 ≠ B.1) : LineZeros b (chordSlope A B) A B :=
  BilinP.lineZeros_chord hA hB hx

/-- **Frobenius on `G2`**: the twisted Frobenius `Φ = frobHom`,
    `(x, y) ↦ (conj x / γ², conj y / γ³)`, `γ = ξ^((q-1)/6)`, is an endomorphism of `E'(Fq2)` and
    `[|x|] S = -Φ(S)` for every `S` killed by `r` (i.e. `Φ = [q] = [x]` on `G2`) -/
theorem frobenius_on_G2 (S : (W b₂).Point) (hS : Gen.r • S = 0) : Gen.BLS_X • S = -frobHom S :=
  frob_eq_neg_nsmul S hS

theorem frobenius_coordinates {x y : Fq2} (h : (W b₂).Nonsingular x y) :
    frobHom (Point.some x y h) =
      Point.some (dInv ^ 2 * Fq2.conj x) (dInv ^ 3 * Fq2.conj y) (tw_nonsingular twFrob h) :=
  frobHom_some h

/-- `ψ ∘ Φ = π ∘ ψ`: `Φ` is the Frobenius of `E(Fq12)` seen on the twist -/
theorem untwist_frobenius (T : Fq2 × Fq2) :
    untwist (dInv ^ 2 * Fq2.conj T.1, dInv ^ 3 * Fq2.conj T.2) =
      ((untwist T).1 ^ Gen.q, (untwist T).2 ^ Gen.q) :=
  untwist_frob T

/-- **the invariant of the Miller loop** (the bookkeeping of zeros): with `pw x = x^(3(q¹²-1)/r)`,
    `ε(T) = pw (m(ψT))`, `m` the line through `P₁`, `P₂`, if
    `pw F₁ · pw F₂ / pw F₃ = ε(Q)^k / ε(T)` with `T = [k]Q` then the same holds after any list of bits
    (as long as `4K < r` for the final `K`) -/
theorem loop_invariant (lam : Fq) (P₁ P₂ : Fq × Fq) (hL : LineZeros (4 : Fq) lam P₁ P₂)
    (Q : Fq2 × Fq2) (S : (W b₂).Point) (hS0 : S ≠ 0) (hSr : Gen.r • S = 0) (hQ : Repr Q S)
    (bs : List Bool) (T : Fq2 × Fq2) (k : ℕ) (F₁ F₂ F₃ : Fq12) (hk : 1 ≤ k)
    (hlt : 4 * val k bs < Gen.r) (hT : Repr T (k • S))
    (h : pw F₁ * pw F₂ * (pw F₃)⁻¹ = eps lam P₁ Q ^ k * (eps lam P₁ T)⁻¹) :
    pw (bs.foldl (millerStep P₁ Q) (F₁, T)).1 * pw (bs.foldl (millerStep P₂ Q) (F₂, T)).1 *
        (pw (bs.foldl (millerStep (sumOfSlope lam P₁ P₂) Q) (F₃, T)).1)⁻¹ =
      eps lam P₁ Q ^ val k bs * (eps lam P₁ (pointLoop Q bs T))⁻¹ ∧
    Repr (pointLoop Q bs T) (val k bs • S) :=
  loop_inv lam P₁ P₂ hL Q S hS0 hSr hQ bs T k F₁ F₂ F₃ hk hlt hT h

/-- **the textbook reduced ate pairing is additive in `P`**: `P₁`, `P₂` on a line of slope `lam ∈ Fq`
    (chord or tangent of `E : y² = x³ + 4`), `P₃ = P₁ + P₂` the reflected third point, `Q ∈ G2` -/
theorem reducedAte_add (lam : Fq) (P₁ P₂ : Fq × Fq) (hL : LineZeros (4 : Fq) lam P₁ P₂)
    (hy₃ : (sumOfSlope lam P₁ P₂).2 ≠ 0) (q : Aff Fq2) (hq : Aff.InSub b₂ q)
    (hqi : q.infinity = false) :
    reducedAte (sumOfSlope lam P₁ P₂) (q.x, q.y) =
      reducedAte P₁ (q.x, q.y) * reducedAte P₂ (q.x, q.y) :=
  BilinP.reducedAte_add lam P₁ P₂ hL hy₃ q hq hqi

/-! ## the pairing of the model -/

/-- **`e(P₁ + P₂, Q) = e(P₁, Q) · e(P₂, Q)`** for all `P₁, P₂ ∈ E(Fq)`, `Q ∈ G2`: if `p₃` denotes the sum
    of `p₁` and `p₂` in the group of points, the three calls return `e₁`, `e₂`, `e₁ · e₂` -/
theorem pairing_add_left (p₁ p₂ p₃ : Aff Fq) (q : Aff Fq2) (hp₁ : p₁.isOnCurve b₁ = true)
    (hp₂ : p₂.isOnCurve b₁ = true) (hp₃ : p₃.isOnCurve b₁ = true)
    (hq : Aff.inSubgroup b₂ q = true)
    (hsum : Aff.abs b₁ p₃ = Aff.abs b₁ p₁ + Aff.abs b₁ p₂) :
    ∃ e₁ e₂ : Fq12, e₁ ≠ 0 ∧ e₂ ≠ 0 ∧ pairing p₁ q = some e₁ ∧ pairing p₂ q = some e₂ ∧
      pairing p₃ q = some (e₁ * e₂) :=
  pairing_add p₁ p₂ p₃ q hp₁ hp₂ hp₃ hq hsum

/-- the same in `Option`, without naming the values -/
theorem pairing_add_left_opt (p₁ p₂ p₃ : Aff Fq) (q : Aff Fq2) (hp₁ : p₁.isOnCurve b₁ = true)
    (hp₂ : p₂.isOnCurve b₁ = true) (hp₃ : p₃.isOnCurve b₁ = true)
    (hq : Aff.inSubgroup b₂ q = true)
    (hsum : Aff.abs b₁ p₃ = Aff.abs b₁ p₁ + Aff.abs b₁ p₂) :
    pairing p₃ q = optMul (pairing p₁ q) (pairing p₂ q) := by
  obtain ⟨e₁, e₂, -, -, h₁, h₂, h₃⟩ := pairing_add p₁ p₂ p₃ q hp₁ hp₂ hp₃ hq hsum
  rw [h₁, h₂, h₃, optMul_some]

/-- with the model's mixed addition `add_assign_mixed` followed by `into_affine`:
    **`pairing (p₁ + p₂) q = pairing p₁ q · pairing p₂ q`** -/
theorem pairing_addMixed_left (p₁ p₂ : Aff Fq) (q : Aff Fq2) (hp₁ : p₁.isOnCurve b₁ = true)
    (hp₂ : p₂.isOnCurve b₁ = true) (hq : Aff.inSubgroup b₂ q = true) :
    ∃ p₃, (p₁.toJac.addMixed p₂).toAffine = some p₃ ∧ p₃.isOnCurve b₁ = true ∧
      pairing p₃ q = optMul (pairing p₁ q) (pairing p₂ q) := by
  have hc₁ := (Aff.isOnCurve_iff _ p₁).mp hp₁
  have hc₂ := (Aff.isOnCurve_iff _ p₂).mp hp₂
  obtain ⟨hJ, hJa⟩ := Aff.toJac_spec hc₁
  obtain ⟨hS, hSa⟩ := Jac.addMixed_spec hJ hc₂
  obtain ⟨p₃, h₃, hc₃, ha₃⟩ := Jac.toAffine_spec hS
  have hp₃ := (Aff.isOnCurve_iff _ p₃).mpr hc₃
  exact ⟨p₃, h₃, hp₃, pairing_add_left_opt p₁ p₂ p₃ q hp₁ hp₂ hp₃ hq (by rw [ha₃, hSa, hJa])⟩

/-- with the model's projective addition `add_assign` -/
theorem pairing_jacAdd_left (p₁ p₂ : Aff Fq) (q : Aff Fq2) (hp₁ : p₁.isOnCurve b₁ = true)
    (hp₂ : p₂.isOnCurve b₁ = true) (hq : Aff.inSubgroup b₂ q = true) :
    ∃ p₃, (p₁.toJac.add p₂.toJac).toAffine = some p₃ ∧ p₃.isOnCurve b₁ = true ∧
      pairing p₃ q = optMul (pairing p₁ q) (pairing p₂ q) := by
  have hc₁ := (Aff.isOnCurve_iff _ p₁).mp hp₁
  have hc₂ := (Aff.isOnCurve_iff _ p₂).mp hp₂
  obtain ⟨hJ₁, hJa₁⟩ := Aff.toJac_spec hc₁
  obtain ⟨hJ₂, hJa₂⟩ := Aff.toJac_spec hc₂
  obtain ⟨hS, hSa⟩ := Jac.add_spec hJ₁ hJ₂
  obtain ⟨p₃, h₃, hc₃, ha₃⟩ := Jac.toAffine_spec hS
  have hp₃ := (Aff.isOnCurve_iff _ p₃).mpr hc₃
  exact ⟨p₃, h₃, hp₃,
    pairing_add_left_opt p₁ p₂ p₃ q hp₁ hp₂ hp₃ hq (by rw [ha₃, hSa, hJa₁, hJa₂])⟩

/-- **`e([k]P, Q) = e(P, Q)^k`**, `k : ℕ`: if `pk` denotes `k • p` in the group of points -/
theorem pairing_nsmul_left (p pk : Aff Fq) (q : Aff Fq2) (k : ℕ) (hp : p.isOnCurve b₁ = true)
    (hpk : pk.isOnCurve b₁ = true) (hq : Aff.inSubgroup b₂ q = true)
    (hk : Aff.abs b₁ pk = k • Aff.abs b₁ p) :
    ∃ e : Fq12, e ≠ 0 ∧ pairing p q = some e ∧ pairing pk q = some (e ^ k) := by
  obtain ⟨e, he0, he⟩ := C11Neg.pairing_some p q hp hq
  exact ⟨e, he0, he, pairing_nsmul p q hp hq e he k pk hpk hk⟩

/-- **`e([z]P, Q) = e(P, Q)^z`**, `z : ℤ` -/
theorem pairing_zsmul_left (p pz : Aff Fq) (q : Aff Fq2) (z : ℤ) (hp : p.isOnCurve b₁ = true)
    (hpz : pz.isOnCurve b₁ = true) (hq : Aff.inSubgroup b₂ q = true)
    (hz : Aff.abs b₁ pz = z • Aff.abs b₁ p) :
    ∃ e : Fq12, e ≠ 0 ∧ pairing p q = some e ∧ pairing pz q = some (e ^ z) := by
  obtain ⟨e, he0, he⟩ := C11Neg.pairing_some p q hp hq
  exact ⟨e, he0, he, pairing_zsmul p q hp hq e he z pz hpz hz⟩

/-- with the model's scalar multiplication `mul` (4-limb scalar, i.e. `a mod 2^256`) followed by
    `into_affine`: **`pairing (p.mul a) q = (pairing p q)^a`** -/
theorem pairing_mul_left_mod (p : Aff Fq) (q : Aff Fq2) (a : ℕ) (hp : p.isOnCurve b₁ = true)
    (hq : Aff.inSubgroup b₂ q = true) :
    ∃ pa, (p.mul a).toAffine = some pa ∧ pa.isOnCurve b₁ = true ∧
      pairing pa q = (pairing p q).map (· ^ (a % 2 ^ 256)) := by
  have hc := (Aff.isOnCurve_iff _ p).mp hp
  obtain ⟨hJ, hJa⟩ := Aff.mul_spec (b := b₁) hc a
  obtain ⟨pa, h₁, hca, haa⟩ := Jac.toAffine_spec hJ
  have hpa := (Aff.isOnCurve_iff _ pa).mpr hca
  obtain ⟨e, -, he, hk⟩ := pairing_nsmul_left p pa q (a % 2 ^ 256) hp hpa hq (by rw [haa, hJa])
  exact ⟨pa, h₁, hpa, by rw [hk, he]; rfl⟩

/-- **`pairing (p.mul a) q = (pairing p q)^a`** for every 256-bit scalar `a` -/
theorem pairing_mul_left (p : Aff Fq) (q : Aff Fq2) (a : ℕ) (ha : a < 2 ^ 256)
    (hp : p.isOnCurve b₁ = true) (hq : Aff.inSubgroup b₂ q = true) :
    ∃ pa, (p.mul a).toAffine = some pa ∧ pa.isOnCurve b₁ = true ∧
      pairing pa q = (pairing p q).map (· ^ a) := by
  have h := pairing_mul_left_mod p q a hp hq
  rwa [Nat.mod_eq_of_lt ha] at h

/-- the values are `r`-th roots of unity, so the exponent only matters modulo `r` (`C12`) -/
theorem pairing_pow_r (p : Aff Fq) (q : Aff Fq2) (e : Fq12) (h : pairing p q = some e) :
    e ^ Gen.r = 1 := by
  rw [C03.pairing_eq_fe_miller] at h
  cases hm : millerLoop [(p, G2Prepared.fromAffine q)] with
  | none => rw [hm] at h; cases h
  | some m => rw [hm, Option.bind_some] at h; exact FinalExp.fe_pow_r h

/-! ## non-vacuity -/

/-- the hypotheses are satisfiable and the conclusion is not trivial: for the generators,
    `e([2]g1, g2) = e(g1, g2)²` with `e(g1, g2) ≠ 1` the RELIC value of `C03.pairing_generators` -/
example : ∃ p₃, (C03.g1Generator.toJac.addMixed C03.g1Generator).toAffine = some p₃ ∧
    pairing p₃ C03.g2Generator = some (C03.relicValue * C03.relicValue) := by
  obtain ⟨p₃, h₃, -, h⟩ := pairing_addMixed_left C03.g1Generator C03.g1Generator C03.g2Generator
    ((Aff.isOnCurve_iff _ _).mpr C07.g1Generator_inSub.1)
    ((Aff.isOnCurve_iff _ _).mpr C07.g1Generator_inSub.1) C07.g2Generator_inSubgroup
  rw [C03.pairing_generators, optMul_some] at h
  exact ⟨p₃, h₃, h⟩

end PP.C03LinP
