/-
GENERATED CODE = HAND MODEL, for the derive output of `Fq` / `Fr` / `FqRepr` / `FrRepr`.

Objects.
* `PP.Gen.D.*` (PP/Gen/Derive.lean): one Lean definition per Rust function of the `#[derive(PrimeField)]`
  output other than the unrolled multiplication, translated on every run from the macro-expanded crate by
  extract/extract_derive.py (one `let` per Rust statement; conventions in the header of that file), plus
  `Field::pow` translated from the sources of the `ff` crate.  Primitives taken as given (their Rust text
  is checked by the extractor): `ff::adc`, `ff::sbb`, `BitIterator`; `u64::leading_zeros`; the loop
  combinators.  `mul_assign` / `square` / `mont_reduce` are the IR programs of PP/Gen/MontProg.lean run by
  the interpreter of PP/Model/MontLimb.lean (PP/Props/C08Limb.lean).
* `PP.Mont.*` (PP/Model/Mont.lean): the hand-written model -- limb lists for the repr type, integers
  (raw Montgomery values) for the field type -- about which PP/Props/C08.lean proves "arithmetic mod p".
* `Limbs n a` : `a` has `n` limbs, each `< 2^64`; `limbsToNat` / `limbsOf n` : value of / limbs of.

Statements: for the repr type `D.R.f a = Mont.f a` (equality of limb lists); for the field type
`D.F.f a = limbsOf n (Mont.f P (limbsToNat a))`, for ALL well-formed limb lists (also unreduced values).
Loops: a generated function with a `while` takes `fuel` (`none` = not finished after `fuel` tests of the
loop condition, the convention of the model's `invLoop`); `inverse` is proved equal to the model's with the
model's own fuel, and `PP.Props.C08.inverse_ok` (fuel adequacy) is then applied.  `legendre` / `sqrt` are
compared with the canonical-level model (`PP.Fq.sqrt`, `PP.Fr.sqrtFuel`) through `toFq` / `toFr`.

NOT covered: that rustc compiles the expanded source faithfully; Rust's overflow checks on `u32`/`usize`
arithmetic (listed in the header of PP/Gen/Derive.lean; the one place where this matters is
`m - i - 1` in `Fr::sqrt`, where the model returns `none` on underflow and the theorem goes through the
model's proof that this never happens); functions listed as NOT TRANSLATED in PP/Gen/Derive.lean.
-/
import PP.Proofs.GenDerive

set_option exponentiation.threshold 2048

namespace PP.GenDerive
open PP PP.Gen PP.Mont PP.Limbs PP.C08Limb PP.Props.C08

/-- `Ordering` as the model's `-1 / 0 / 1` is injective, so `ordToInt (cmp ..) = Mont.cmp ..` determines `cmp` -/
theorem ordToInt_inj {x y : Ordering} (h : ordToInt x = ordToInt y) : x = y := ordToInt_injective h

/-- the primitives are the model's -/
theorem prim_adc {a b c : Nat} (ha : a < 2 ^ 64) (hb : b < 2 ^ 64) (hc : c < 2 ^ 64) :
    D.adc a b c = Mont.adc a b c := adc_eq ha hb hc
theorem prim_sbb (a b c : Nat) : D.sbb a b c = Mont.sbb a b c := sbb_eq a b c
theorem prim_leading_zeros (w : Nat) : D.leading_zeros w = Mont.leadingZeros64 w := rfl

/-! ## 1. `FqRepr` = `[u64; 6]` and `Fq` -/

section fq
variable {a b : List Nat}

/-! ### constants -/

theorem fq_consts :
    D.Fq.MODULUS = limbsOf 6 Gen.fq_MODULUS ∧ D.Fq.R = limbsOf 6 Gen.fq_R ∧
    D.Fq.R2 = limbsOf 6 Gen.fq_R2 ∧ D.Fq.INV = Gen.fq_INV ∧
    D.Fq.GENERATOR = limbsOf 6 Gen.fq_GENERATOR ∧ D.Fq.ROOT_OF_UNITY = limbsOf 6 Gen.fq_ROOT_OF_UNITY ∧
    D.Fq.S = Gen.fq_S ∧ D.Fq.MODULUS_BITS = Gen.fq_MODULUS_BITS ∧
    D.Fq.REPR_SHAVE_BITS = Gen.fq_REPR_SHAVE_BITS ∧
    D.Fq.PrimeField_NUM_BITS = Gen.fq_MODULUS_BITS ∧ D.Fq.PrimeField_CAPACITY = Gen.fq_MODULUS_BITS - 1 ∧
    D.Fq.PrimeField_S = Gen.fq_S := by decide +kernel

/-! ### `FqRepr` (limb lists; `Mont.*` of PP/Model/Mont.lean) -/

/-- `Default`: all limbs zero -/
theorem fqrepr_default : D.FqRepr.default = limbsOf 6 0 := by decide
/-- derived `PartialEq`: equality of the limb arrays -/
theorem fqrepr_eq (a b : List Nat) : D.FqRepr.eq a b = (a == b) := FqRepr_eq a b
/-- `From<u64>` (the expression of `Mont.reprOp "from_u64"`) -/
theorem fqrepr_from_u64 {v : Nat} (hv : v < 2 ^ 64) :
    D.FqRepr.from_u64 v = (v % Mont.W64) :: List.replicate (6 - 1) 0 := by
  rw [FqRepr_from_u64, Mont.W64, Nat.mod_eq_of_lt hv]
/-- `Ord::cmp`, for ALL lists -/
theorem fqrepr_cmp (a b : List Nat) : ordToInt (D.FqRepr.cmp a b) = Mont.cmp a b := FqRepr_cmp a b
theorem fqrepr_partial_cmp (a b : List Nat) : D.FqRepr.partial_cmp a b = some (D.FqRepr.cmp a b) := rfl
theorem fqrepr_is_odd (a : List Nat) : D.FqRepr.is_odd a = Mont.isOdd a := FqRepr_is_odd a
theorem fqrepr_is_even (a : List Nat) : D.FqRepr.is_even a = !Mont.isOdd a := FqRepr_is_even a
theorem fqrepr_is_zero (a : List Nat) : D.FqRepr.is_zero a = Mont.isZero a := FqRepr_is_zero a
theorem fqrepr_div2 (a : List Nat) : D.FqRepr.div2 a = Mont.div2 a := FqRepr_div2 a
theorem fqrepr_mul2 (a : List Nat) : D.FqRepr.mul2 a = Mont.mul2 a := FqRepr_mul2 a
/-- `shr(n)`: the `while n >= 64` loop needs `n / 64 + 1` tests of its condition -/
theorem fqrepr_shr (fuel n : Nat) (hl : a.length = 6) (hf : n / 64 < fuel) :
    D.FqRepr.shr fuel a n = some (Mont.shr a n) := FqRepr_shr fuel a n hl hf
theorem fqrepr_shl (fuel n : Nat) (hl : a.length = 6) (hf : n / 64 < fuel) :
    D.FqRepr.shl fuel a n = some (Mont.shl a n) := FqRepr_shl fuel a n hl hf
theorem fqrepr_num_bits (hl : a.length = 6) : D.FqRepr.num_bits a = Mont.numBits a := FqRepr_num_bits a hl
theorem fqrepr_add_nocarry (ha : Limbs 6 a) (hb : Limbs 6 b) :
    D.FqRepr.add_nocarry a b = Mont.addNocarry a b 0 := FqRepr_add_nocarry a b ha hb
theorem fqrepr_sub_noborrow (hl : a.length = b.length) :
    D.FqRepr.sub_noborrow a b = Mont.subNoborrow a b 0 := FqRepr_sub_noborrow a b hl

/-! ### `Fq` (value level: `limbsToNat` of the argument, `limbsOf 6` of the model's result) -/

theorem fq_eq (a b : List Nat) : D.Fq.eq a b = (a == b) := rfl
theorem fq_is_valid (ha : Limbs 6 a) : D.Fq.is_valid a = decide (limbsToNat a < fqP.p) := Fq_is_valid a ha
theorem fq_reduce (ha : Limbs 6 a) : D.Fq.reduce a = limbsOf 6 (Mont.reduce fqP (limbsToNat a)) :=
  eq_limbsOf (Fq_reduce_spec a ha).1 (Fq_reduce_spec a ha).2
/-- the unrolled multiplication (PP/Gen/MontProg.lean; proved in PP/Props/C08Limb.lean) -/
theorem fq_mul_assign (ha : Limbs 6 a) (hb : Limbs 6 b) :
    D.Fq.mul_assign a b = limbsOf 6 (Mont.mul fqP (limbsToNat a) (limbsToNat b)) :=
  eq_limbsOf (Fq_mul_assign_spec a b ha hb).1 (Fq_mul_assign_spec a b ha hb).2
theorem fq_square (ha : Limbs 6 a) : D.Fq.square a = limbsOf 6 (Mont.square fqP (limbsToNat a)) :=
  eq_limbsOf (Fq_square_spec a ha).1 (Fq_square_spec a ha).2
theorem fq_mont_reduce (s : List Nat) {rs : List Nat} (hrs : Limbs 12 rs) :
    D.Fq.mont_reduce s rs = limbsOf 6 (Mont.montReduce fqP (limbsToNat rs)) :=
  eq_limbsOf (runMontReduce_limbs fqP _ hrs.2) (fq_mont_reduce_limb_eq rs hrs)
theorem fq_zero : D.Fq.zero = limbsOf 6 0 := Fq_zero
theorem fq_one : D.Fq.one = limbsOf 6 fqP.R := Fq_one
theorem fq_is_zero (a : List Nat) : D.Fq.is_zero a = decide (limbsToNat a = 0) := Fq_is_zero a
theorem fq_add_assign (ha : Limbs 6 a) (hb : Limbs 6 b) :
    D.Fq.add_assign a b = limbsOf 6 (Mont.add fqP (limbsToNat a) (limbsToNat b)) :=
  eq_limbsOf (Fq_add_assign_spec a b ha hb).1 (Fq_add_assign_spec a b ha hb).2
theorem fq_double (ha : Limbs 6 a) : D.Fq.double a = limbsOf 6 (Mont.double fqP (limbsToNat a)) :=
  eq_limbsOf (Fq_double_spec a ha).1 (Fq_double_spec a ha).2
theorem fq_sub_assign (ha : Limbs 6 a) (hb : Limbs 6 b) :
    D.Fq.sub_assign a b = limbsOf 6 (Mont.sub fqP (limbsToNat a) (limbsToNat b)) :=
  eq_limbsOf (Fq_sub_assign_spec a b ha hb).1 (Fq_sub_assign_spec a b ha hb).2
theorem fq_negate (ha : Limbs 6 a) : D.Fq.negate a = limbsOf 6 (Mont.neg fqP (limbsToNat a)) :=
  eq_limbsOf (Fq_negate_spec a ha).1 (Fq_negate_spec a ha).2
/-- `from_repr`: `Err(..)` is `none` -/
theorem fq_from_repr (ha : Limbs 6 a) :
    D.Fq.from_repr a = (Mont.fromRepr fqP (limbsToNat a)).map (limbsOf 6) := Fq_from_repr a ha
theorem fq_into_repr (ha : Limbs 6 a) :
    D.Fq.into_repr a = limbsOf 6 (Mont.intoRepr fqP (limbsToNat a)) :=
  eq_limbsOf (Fq_into_repr_spec a ha).1 (Fq_into_repr_spec a ha).2
theorem fq_char : D.Fq.char = limbsOf 6 fqP.p := Fq_char
theorem fq_multiplicative_generator : D.Fq.multiplicative_generator = limbsOf 6 Gen.fq_GENERATOR :=
  Fq_generator_consts.1
theorem fq_root_of_unity : D.Fq.root_of_unity = limbsOf 6 Gen.fq_ROOT_OF_UNITY :=
  Fq_generator_consts.2.1
/-- `Ord for Fq` compares `into_repr()` -/
theorem fq_cmp (ha : Limbs 6 a) (hb : Limbs 6 b) :
    D.Fq.cmp a b = compare (Mont.intoRepr fqP (limbsToNat a)) (Mont.intoRepr fqP (limbsToNat b)) :=
  Fq_cmp a b ha hb
theorem fq_partial_cmp (a b : List Nat) : D.Fq.partial_cmp a b = some (D.Fq.cmp a b) := rfl
theorem fqrepr_from_fe (a : List Nat) : D.FqRepr.from_fe a = D.Fq.into_repr a := rfl
theorem fq_frobenius_map (a : List Nat) (k : Nat) : D.Fq.frobenius_map a k = a := rfl
/-- `Field::pow` (ff crate), exponent = ANY list of limbs -/
theorem fq_pow (e : List Nat) (ha : Limbs 6 a) :
    D.Fq.pow a e = limbsOf 6 (Mont.pow fqP (limbsToNat a) e) :=
  eq_limbsOf (Fq_pow_spec a e ha).1 (Fq_pow_spec a e ha).2

/-- `inverse`, any outer fuel, inner loops with fuel `≥ 64·6`: the model's main loop with the same fuel
    (`none` = out of fuel), for ALL well-formed inputs (also unreduced ones) -/
theorem fq_inverse_fuel (fuel : Nat) (hf : 64 * 6 ≤ fuel) (ha : Limbs 6 a) :
    D.Fq.inverse fuel a =
      if limbsToNat a = 0 then some none
      else (Mont.invLoop fqP fuel (limbsToNat a) fqP.p fqP.R2 0).map (fun x => some (limbsOf 6 x)) :=
  Fq_inverse_invLoop fuel hf a ha

/-- `inverse` with the model's fuel `2·64·6 + 2` IS the model's `inverse` (outer `none` = out of fuel;
    by `PP.Props.C08.inverse_ok` that does not happen for reduced inputs and a prime modulus) -/
theorem fq_inverse (ha : Limbs 6 a) :
    D.Fq.inverse (2 * 64 * 6 + 2) a =
      (Mont.inverse fqP (limbsToNat a)).map (fun o => o.map (limbsOf 6)) := Fq_inverse_eq a ha

/-- … hence, for a prime modulus and a reduced input: never out of fuel, `None` exactly for zero, otherwise
    the Montgomery form of the modular inverse -/
theorem fq_inverse_total (hp : Nat.Prime fqP.p) (ha : Limbs 6 a) (hlt : limbsToNat a < fqP.p) :
    (limbsToNat a = 0 → D.Fq.inverse (2 * 64 * 6 + 2) a = some none) ∧
    (limbsToNat a ≠ 0 → ∃ x, D.Fq.inverse (2 * 64 * 6 + 2) a = some (some (limbsOf 6 x)) ∧ x < fqP.p ∧
      dec fqP (limbsToNat a) * dec fqP x % fqP.p = 1) := by
  rw [fq_inverse ha]
  refine ⟨fun h0 => ?_, fun h0 => ?_⟩
  · rw [(inverse_none_iff fqP _).2 h0]; rfl
  · obtain ⟨x, hx, hxl, hxv⟩ := inverse_ok fqP_wf hlt hp h0
    exact ⟨x, by rw [hx]; rfl, hxl, hxv⟩

/-- `legendre` against the canonical-level model (reduced input) -/
theorem fq_legendre (ha : Limbs 6 a) (hlt : limbsToNat a < Gen.q) :
    D.Fq.legendre a = PP.Fq.legendre (toFq (limbsToNat a)) :=
  Fq_legendre_eq a ha (by rw [fqP_p]; exact hlt)

/-- every operation returns `6` limbs `< 2^64` -/
theorem fq_closed (ha : Limbs 6 a) (hb : Limbs 6 b) :
    Limbs 6 (D.FqRepr.add_nocarry a b) ∧ Limbs 6 (D.FqRepr.sub_noborrow a b) ∧ Limbs 6 (D.FqRepr.div2 a) ∧
    Limbs 6 (D.FqRepr.mul2 a) ∧ Limbs 6 (D.Fq.reduce a) ∧ Limbs 6 (D.Fq.add_assign a b) ∧
    Limbs 6 (D.Fq.sub_assign a b) ∧ Limbs 6 (D.Fq.double a) ∧ Limbs 6 (D.Fq.negate a) ∧
    Limbs 6 (D.Fq.mul_assign a b) ∧ Limbs 6 (D.Fq.square a) ∧ Limbs 6 (D.Fq.into_repr a) ∧
    (∀ e, Limbs 6 (D.Fq.pow a e)) :=
  ⟨(FqRepr_add_nocarry_spec a b ha hb).1, (FqRepr_sub_noborrow_spec a b ha hb).1, (FqRepr_div2_spec a ha).1,
    (FqRepr_mul2_spec a ha).1, (Fq_reduce_spec a ha).1, (Fq_add_assign_spec a b ha hb).1,
    (Fq_sub_assign_spec a b ha hb).1, (Fq_double_spec a ha).1, (Fq_negate_spec a ha).1,
    (Fq_mul_assign_spec a b ha hb).1, (Fq_square_spec a ha).1, (Fq_into_repr_spec a ha).1,
    fun e => (Fq_pow_spec a e ha).1⟩

end fq

/-! ## 2. `FrRepr` = `[u64; 4]` and `Fr` -/

section fr
variable {a b : List Nat}

/-! ### constants -/

theorem fr_consts :
    D.Fr.MODULUS = limbsOf 4 Gen.fr_MODULUS ∧ D.Fr.R = limbsOf 4 Gen.fr_R ∧
    D.Fr.R2 = limbsOf 4 Gen.fr_R2 ∧ D.Fr.INV = Gen.fr_INV ∧
    D.Fr.GENERATOR = limbsOf 4 Gen.fr_GENERATOR ∧ D.Fr.ROOT_OF_UNITY = limbsOf 4 Gen.fr_ROOT_OF_UNITY ∧
    D.Fr.S = Gen.fr_S ∧ D.Fr.MODULUS_BITS = Gen.fr_MODULUS_BITS ∧
    D.Fr.REPR_SHAVE_BITS = Gen.fr_REPR_SHAVE_BITS ∧
    D.Fr.PrimeField_NUM_BITS = Gen.fr_MODULUS_BITS ∧ D.Fr.PrimeField_CAPACITY = Gen.fr_MODULUS_BITS - 1 ∧
    D.Fr.PrimeField_S = Gen.fr_S := by decide +kernel

/-! ### `FrRepr` (limb lists; `Mont.*` of PP/Model/Mont.lean) -/

/-- `Default`: all limbs zero -/
theorem frrepr_default : D.FrRepr.default = limbsOf 4 0 := by decide
/-- derived `PartialEq`: equality of the limb arrays -/
theorem frrepr_eq (a b : List Nat) : D.FrRepr.eq a b = (a == b) := FrRepr_eq a b
/-- `From<u64>` (the expression of `Mont.reprOp "from_u64"`) -/
theorem frrepr_from_u64 {v : Nat} (hv : v < 2 ^ 64) :
    D.FrRepr.from_u64 v = (v % Mont.W64) :: List.replicate (4 - 1) 0 := by
  rw [FrRepr_from_u64, Mont.W64, Nat.mod_eq_of_lt hv]
/-- `Ord::cmp`, for ALL lists -/
theorem frrepr_cmp (a b : List Nat) : ordToInt (D.FrRepr.cmp a b) = Mont.cmp a b := FrRepr_cmp a b
theorem frrepr_partial_cmp (a b : List Nat) : D.FrRepr.partial_cmp a b = some (D.FrRepr.cmp a b) := rfl
theorem frrepr_is_odd (a : List Nat) : D.FrRepr.is_odd a = Mont.isOdd a := FrRepr_is_odd a
theorem frrepr_is_even (a : List Nat) : D.FrRepr.is_even a = !Mont.isOdd a := FrRepr_is_even a
theorem frrepr_is_zero (a : List Nat) : D.FrRepr.is_zero a = Mont.isZero a := FrRepr_is_zero a
theorem frrepr_div2 (a : List Nat) : D.FrRepr.div2 a = Mont.div2 a := FrRepr_div2 a
theorem frrepr_mul2 (a : List Nat) : D.FrRepr.mul2 a = Mont.mul2 a := FrRepr_mul2 a
/-- `shr(n)`: the `while n >= 64` loop needs `n / 64 + 1` tests of its condition -/
theorem frrepr_shr (fuel n : Nat) (hl : a.length = 4) (hf : n / 64 < fuel) :
    D.FrRepr.shr fuel a n = some (Mont.shr a n) := FrRepr_shr fuel a n hl hf
theorem frrepr_shl (fuel n : Nat) (hl : a.length = 4) (hf : n / 64 < fuel) :
    D.FrRepr.shl fuel a n = some (Mont.shl a n) := FrRepr_shl fuel a n hl hf
theorem frrepr_num_bits (hl : a.length = 4) : D.FrRepr.num_bits a = Mont.numBits a := FrRepr_num_bits a hl
theorem frrepr_add_nocarry (ha : Limbs 4 a) (hb : Limbs 4 b) :
    D.FrRepr.add_nocarry a b = Mont.addNocarry a b 0 := FrRepr_add_nocarry a b ha hb
theorem frrepr_sub_noborrow (hl : a.length = b.length) :
    D.FrRepr.sub_noborrow a b = Mont.subNoborrow a b 0 := FrRepr_sub_noborrow a b hl

/-! ### `Fr` (value level: `limbsToNat` of the argument, `limbsOf 4` of the model's result) -/

theorem fr_eq (a b : List Nat) : D.Fr.eq a b = (a == b) := rfl
theorem fr_is_valid (ha : Limbs 4 a) : D.Fr.is_valid a = decide (limbsToNat a < frP.p) := Fr_is_valid a ha
theorem fr_reduce (ha : Limbs 4 a) : D.Fr.reduce a = limbsOf 4 (Mont.reduce frP (limbsToNat a)) :=
  eq_limbsOf (Fr_reduce_spec a ha).1 (Fr_reduce_spec a ha).2
/-- the unrolled multiplication (PP/Gen/MontProg.lean; proved in PP/Props/C08Limb.lean) -/
theorem fr_mul_assign (ha : Limbs 4 a) (hb : Limbs 4 b) :
    D.Fr.mul_assign a b = limbsOf 4 (Mont.mul frP (limbsToNat a) (limbsToNat b)) :=
  eq_limbsOf (Fr_mul_assign_spec a b ha hb).1 (Fr_mul_assign_spec a b ha hb).2
theorem fr_square (ha : Limbs 4 a) : D.Fr.square a = limbsOf 4 (Mont.square frP (limbsToNat a)) :=
  eq_limbsOf (Fr_square_spec a ha).1 (Fr_square_spec a ha).2
theorem fr_mont_reduce (s : List Nat) {rs : List Nat} (hrs : Limbs 8 rs) :
    D.Fr.mont_reduce s rs = limbsOf 4 (Mont.montReduce frP (limbsToNat rs)) :=
  eq_limbsOf (runMontReduce_limbs frP _ hrs.2) (fr_mont_reduce_limb_eq rs hrs)
theorem fr_zero : D.Fr.zero = limbsOf 4 0 := Fr_zero
theorem fr_one : D.Fr.one = limbsOf 4 frP.R := Fr_one
theorem fr_is_zero (a : List Nat) : D.Fr.is_zero a = decide (limbsToNat a = 0) := Fr_is_zero a
theorem fr_add_assign (ha : Limbs 4 a) (hb : Limbs 4 b) :
    D.Fr.add_assign a b = limbsOf 4 (Mont.add frP (limbsToNat a) (limbsToNat b)) :=
  eq_limbsOf (Fr_add_assign_spec a b ha hb).1 (Fr_add_assign_spec a b ha hb).2
theorem fr_double (ha : Limbs 4 a) : D.Fr.double a = limbsOf 4 (Mont.double frP (limbsToNat a)) :=
  eq_limbsOf (Fr_double_spec a ha).1 (Fr_double_spec a ha).2
theorem fr_sub_assign (ha : Limbs 4 a) (hb : Limbs 4 b) :
    D.Fr.sub_assign a b = limbsOf 4 (Mont.sub frP (limbsToNat a) (limbsToNat b)) :=
  eq_limbsOf (Fr_sub_assign_spec a b ha hb).1 (Fr_sub_assign_spec a b ha hb).2
theorem fr_negate (ha : Limbs 4 a) : D.Fr.negate a = limbsOf 4 (Mont.neg frP (limbsToNat a)) :=
  eq_limbsOf (Fr_negate_spec a ha).1 (Fr_negate_spec a ha).2
/-- `from_repr`: `Err(..)` is `none` -/
theorem fr_from_repr (ha : Limbs 4 a) :
    D.Fr.from_repr a = (Mont.fromRepr frP (limbsToNat a)).map (limbsOf 4) := Fr_from_repr a ha
theorem fr_into_repr (ha : Limbs 4 a) :
    D.Fr.into_repr a = limbsOf 4 (Mont.intoRepr frP (limbsToNat a)) :=
  eq_limbsOf (Fr_into_repr_spec a ha).1 (Fr_into_repr_spec a ha).2
theorem fr_char : D.Fr.char = limbsOf 4 frP.p := Fr_char
theorem fr_multiplicative_generator : D.Fr.multiplicative_generator = limbsOf 4 Gen.fr_GENERATOR :=
  Fr_generator_consts.1
theorem fr_root_of_unity : D.Fr.root_of_unity = limbsOf 4 Gen.fr_ROOT_OF_UNITY :=
  Fr_generator_consts.2.1
/-- `Ord for Fr` compares `into_repr()` -/
theorem fr_cmp (ha : Limbs 4 a) (hb : Limbs 4 b) :
    D.Fr.cmp a b = compare (Mont.intoRepr frP (limbsToNat a)) (Mont.intoRepr frP (limbsToNat b)) :=
  Fr_cmp a b ha hb
theorem fr_partial_cmp (a b : List Nat) : D.Fr.partial_cmp a b = some (D.Fr.cmp a b) := rfl
theorem frrepr_from_fe (a : List Nat) : D.FrRepr.from_fe a = D.Fr.into_repr a := rfl
theorem fr_frobenius_map (a : List Nat) (k : Nat) : D.Fr.frobenius_map a k = a := rfl
/-- `Field::pow` (ff crate), exponent = ANY list of limbs -/
theorem fr_pow (e : List Nat) (ha : Limbs 4 a) :
    D.Fr.pow a e = limbsOf 4 (Mont.pow frP (limbsToNat a) e) :=
  eq_limbsOf (Fr_pow_spec a e ha).1 (Fr_pow_spec a e ha).2

/-- `inverse`, any outer fuel, inner loops with fuel `≥ 64·4`: the model's main loop with the same fuel
    (`none` = out of fuel), for ALL well-formed inputs (also unreduced ones) -/
theorem fr_inverse_fuel (fuel : Nat) (hf : 64 * 4 ≤ fuel) (ha : Limbs 4 a) :
    D.Fr.inverse fuel a =
      if limbsToNat a = 0 then some none
      else (Mont.invLoop frP fuel (limbsToNat a) frP.p frP.R2 0).map (fun x => some (limbsOf 4 x)) :=
  Fr_inverse_invLoop fuel hf a ha

/-- `inverse` with the model's fuel `2·64·4 + 2` IS the model's `inverse` (outer `none` = out of fuel;
    by `PP.Props.C08.inverse_ok` that does not happen for reduced inputs and a prime modulus) -/
theorem fr_inverse (ha : Limbs 4 a) :
    D.Fr.inverse (2 * 64 * 4 + 2) a =
      (Mont.inverse frP (limbsToNat a)).map (fun o => o.map (limbsOf 4)) := Fr_inverse_eq a ha

/-- … hence, for a prime modulus and a reduced input: never out of fuel, `None` exactly for zero, otherwise
    the Montgomery form of the modular inverse -/
theorem fr_inverse_total (hp : Nat.Prime frP.p) (ha : Limbs 4 a) (hlt : limbsToNat a < frP.p) :
    (limbsToNat a = 0 → D.Fr.inverse (2 * 64 * 4 + 2) a = some none) ∧
    (limbsToNat a ≠ 0 → ∃ x, D.Fr.inverse (2 * 64 * 4 + 2) a = some (some (limbsOf 4 x)) ∧ x < frP.p ∧
      dec frP (limbsToNat a) * dec frP x % frP.p = 1) := by
  rw [fr_inverse ha]
  refine ⟨fun h0 => ?_, fun h0 => ?_⟩
  · rw [(inverse_none_iff frP _).2 h0]; rfl
  · obtain ⟨x, hx, hxl, hxv⟩ := inverse_ok frP_wf hlt hp h0
    exact ⟨x, by rw [hx]; rfl, hxl, hxv⟩

/-- `legendre` against the canonical-level model (reduced input) -/
theorem fr_legendre (ha : Limbs 4 a) (hlt : limbsToNat a < Gen.r) :
    D.Fr.legendre a = PP.Fr.legendre (toFr (limbsToNat a)) :=
  Fr_legendre_eq a ha (by rw [frP_p]; exact hlt)

/-- every operation returns `4` limbs `< 2^64` -/
theorem fr_closed (ha : Limbs 4 a) (hb : Limbs 4 b) :
    Limbs 4 (D.FrRepr.add_nocarry a b) ∧ Limbs 4 (D.FrRepr.sub_noborrow a b) ∧ Limbs 4 (D.FrRepr.div2 a) ∧
    Limbs 4 (D.FrRepr.mul2 a) ∧ Limbs 4 (D.Fr.reduce a) ∧ Limbs 4 (D.Fr.add_assign a b) ∧
    Limbs 4 (D.Fr.sub_assign a b) ∧ Limbs 4 (D.Fr.double a) ∧ Limbs 4 (D.Fr.negate a) ∧
    Limbs 4 (D.Fr.mul_assign a b) ∧ Limbs 4 (D.Fr.square a) ∧ Limbs 4 (D.Fr.into_repr a) ∧
    (∀ e, Limbs 4 (D.Fr.pow a e)) :=
  ⟨(FrRepr_add_nocarry_spec a b ha hb).1, (FrRepr_sub_noborrow_spec a b ha hb).1, (FrRepr_div2_spec a ha).1,
    (FrRepr_mul2_spec a ha).1, (Fr_reduce_spec a ha).1, (Fr_add_assign_spec a b ha hb).1,
    (Fr_sub_assign_spec a b ha hb).1, (Fr_double_spec a ha).1, (Fr_negate_spec a ha).1,
    (Fr_mul_assign_spec a b ha hb).1, (Fr_square_spec a ha).1, (Fr_into_repr_spec a ha).1,
    fun e => (Fr_pow_spec a e ha).1⟩

end fr

/-! ## 3. `sqrt` -/

/-- `Fq::sqrt` against the canonical-level model; the result is again reduced -/
theorem fq_sqrt {a : List Nat} (ha : Limbs 6 a) (hlt : limbsToNat a < Gen.q) :
    (D.Fq.sqrt a).map (fun x => toFq (limbsToNat x)) = PP.Fq.sqrt (toFq (limbsToNat a)) ∧
    (∀ x, D.Fq.sqrt a = some x → Limbs 6 x ∧ limbsToNat x < Gen.q) := Fq_sqrt_eq a ha hlt

/-- `Fr::sqrt` (Tonelli–Shanks) with the model's fuel `S + 1 = 33` for both loops against the
    canonical-level model `Fr.sqrtFuel` (which never returns `none`: `PP.Fr.sqrtFuel_ne_none`) -/
theorem fr_sqrt {a : List Nat} (ha : Limbs 4 a) (hlt : limbsToNat a < Gen.r) :
    (D.Fr.sqrt (Gen.fr_S + 1) a).map (fun o => o.map (fun x => toFr (limbsToNat x))) =
      PP.Fr.sqrtFuel (toFr (limbsToNat a)) ∧
    (∀ x, D.Fr.sqrt (Gen.fr_S + 1) a = some (some x) → Limbs 4 x ∧ limbsToNat x < Gen.r) :=
  Fr_sqrt_eq_aux (Gen.fr_S + 1) rfl a ha hlt

/-- … in particular `Fr::sqrt` terminates within that fuel on every reduced input -/
theorem fr_sqrt_terminates {a : List Nat} (ha : Limbs 4 a) (hlt : limbsToNat a < Gen.r) :
    D.Fr.sqrt (Gen.fr_S + 1) a ≠ none := by
  intro h
  have := (fr_sqrt ha hlt).1
  rw [h] at this
  exact PP.Fr.sqrtFuel_ne_none _ this.symm

/-! ## 3b. `Field::random` (rejection sampling from an RNG; `nextU64` = `RngCore::next_u64` as a function of the
RNG state, assumed only to return 64-bit words) -/

theorem fq_random {Rng : Type} {nextU64 : Rng → Rng × Nat} (h : ∀ s, (nextU64 s).2 < 2 ^ 64) (fuel : Nat) (rng : Rng) :
    D.Fq.random nextU64 fuel rng = randomSpec nextU64 6 61 fqP.p fuel rng := Fq_random_eq h fuel rng

theorem fr_random {Rng : Type} {nextU64 : Rng → Rng × Nat} (h : ∀ s, (nextU64 s).2 < 2 ^ 64) (fuel : Nat) (rng : Rng) :
    D.Fr.random nextU64 fuel rng = randomSpec nextU64 4 63 frP.p fuel rng := Fr_random_eq h fuel rng

/-- for EVERY RNG, whatever `Fq::random` returns is a well-formed limb list with value `< q`: a valid element -/
theorem fq_random_valid {Rng : Type} {nextU64 : Rng → Rng × Nat} (h : ∀ s, (nextU64 s).2 < 2 ^ 64) (fuel : Nat)
    (rng rng' : Rng) (x : List Nat) (hx : D.Fq.random nextU64 fuel rng = some (rng', x)) :
    Limbs 6 x ∧ limbsToNat x < fqP.p ∧ D.Fq.is_valid x = true := by
  rw [Fq_random_eq h] at hx
  have := randomSpec_sound h 6 61 fqP.p fuel rng rng' x hx
  exact ⟨this.1, this.2, by rw [Fq_is_valid x this.1]; exact decide_eq_true this.2⟩

theorem fr_random_valid {Rng : Type} {nextU64 : Rng → Rng × Nat} (h : ∀ s, (nextU64 s).2 < 2 ^ 64) (fuel : Nat)
    (rng rng' : Rng) (x : List Nat) (hx : D.Fr.random nextU64 fuel rng = some (rng', x)) :
    Limbs 4 x ∧ limbsToNat x < frP.p ∧ D.Fr.is_valid x = true := by
  rw [Fr_random_eq h] at hx
  have := randomSpec_sound h 4 63 frP.p fuel rng rng' x hx
  exact ⟨this.1, this.2, by rw [Fr_is_valid x this.1]; exact decide_eq_true this.2⟩

/-- a counter RNG: the first attempt succeeds for `Fq`; an all-ones RNG never succeeds (every candidate is
    `2^381 - 1 > q`), so the fuel is really needed -/
example : D.Fq.random (fun s : Nat => (s + 1, s % 2 ^ 64)) 1 0 = some (6, [0, 1, 2, 3, 4, 5]) ∧
    D.Fq.random (fun s : Nat => (s + 1, 2 ^ 64 - 1)) 3 0 = none ∧
    D.Fr.random (fun s : Nat => (s + 1, if s < 4 then 2 ^ 64 - 1 else s)) 2 0 = some (8, [4, 5, 6, 7]) := by
  decide +kernel

/-! ## 4. concrete runs in the kernel (non-vacuity; the generated code is executable) -/

example : D.Fq.add_assign (limbsOf 6 (Gen.q - 1)) (limbsOf 6 5) = limbsOf 6 4 := by decide +kernel
example : D.Fq.negate (limbsOf 6 3) = limbsOf 6 (Gen.q - 3) ∧ D.Fq.negate (limbsOf 6 0) = limbsOf 6 0 := by
  decide +kernel
example : D.FqRepr.shr 7 (limbsOf 6 Gen.q) 129 = some (limbsOf 6 (Gen.q / 2 ^ 129)) ∧
    D.FrRepr.shl 7 (limbsOf 4 Gen.r) 70 = some (limbsOf 4 (Gen.r * 2 ^ 70 % 2 ^ 256)) ∧
    D.FqRepr.num_bits (limbsOf 6 Gen.q) = 381 ∧ D.FrRepr.num_bits (limbsOf 4 Gen.r) = 255 ∧
    D.FqRepr.cmp (limbsOf 6 Gen.q) (limbsOf 6 Gen.fq_R) = Ordering.gt := by decide +kernel
example : D.Fq.inverse (2 * 64 * 6 + 2) (limbsOf 6 1) = some (some (limbsOf 6 Gen.fq_R2)) ∧
    D.Fq.inverse (2 * 64 * 6 + 2) (limbsOf 6 0) = some none ∧
    D.Fr.inverse 3 (limbsOf 4 6) = none := by
  decide +kernel

end PP.GenDerive
