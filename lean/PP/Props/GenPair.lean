/-
OBLIGATIONS "GenPair": the pairing DRIVER of the hand-written model IS the Rust source.

`PP/Gen/Pair.lean` (namespace `PP.Gen.P`) is REGENERATED from /repo on every run of
/verif/extract/extract.py by /verif/extract/extract_pair.py: one Lean definition per Rust function, one
line per Rust statement.  The filter of identity pairs, the loop over the bits of `BLS_X >> 1` with
`found_one`, the coefficient iterators (`coeffs.next().unwrap()`), the order of `ell` rounds and
squarings, the final `ell` round, the conjugation, the preparation loop of `G2Prepared::from_affine`
and the way `pairing_multi_product` pairs its two slices are translated literally.  Each theorem below
states that such a regenerated definition is equal (as a function) to the hand-written model function
(`PP/Model/Pairing.lean`) that all other properties (C03, C11, C20 ..) are proved or tested about.  An
edit of one of these Rust functions changes the generated text, and the corresponding theorem no longer
compiles (or the extractor refuses the new shape), whether or not a test input exposes it.

Correspondence Rust -> generated -> model:
  ec/g1.rs   G1Prepared::{is_zero, from_affine}                 -> `.infinity`, the identity (newtype)
  mod.rs     G2Prepared::{is_zero, from_affine}                 -> `.infinity`, `PP.G2Prepared.fromAffine` (`prepareLoop`)
  ec/mod.rs  CurveAffine::prepare (macro, G1Affine / G2Affine)  -> the identity, `PP.G2Prepared.fromAffine`
  mod.rs     Bls12::miller_loop                                 -> `PP.millerLoop` (`millerLoopBits`, `ellAll`)
  lib.rs     Engine::{pairing, pairing_product, pairing_multi_product} (default methods, Self = Bls12)
                                                                -> `PP.pairing`, `PP.pairingProduct`, `PP.pairingMultiProduct`
  ec/g1.rs, ec/g2.rs  perform_pairing;  ec/mod.rs  CurveAffine::pairing_with (macro)
                                                                -> `PP.pairing` (arguments swapped for G2Affine)
(`ell`, `doubling_step`, `addition_step`, `final_exponentiation` are in Props/GenArith.lean.)

Differences of representation that are visible in the statements: `G1Prepared` is a newtype of
`G1Affine`, both are `Aff Fq` (so `from_affine` / `prepare` for G1 are the identity function);
a function that can PANIC is `Option`-valued in the generated code and in the model, `none` = panic
(`miller_loop`: a coefficient iterator runs dry, which `G2Prepared::from_affine` never produces;
`pairing*`: `final_exponentiation` of zero; `pairing_multi_product`: `q` shorter than `p`, an index out
of bounds -- while a LONGER `q` is silently truncated, as in the model).

Primitives that are not in /repo (std, ff crate) and are therefore NOT pinned down by these theorems but
taken as list operations: `Vec::push` (`++ [x]`), `slice::Iter::next` (head / tail), `Iterator::map` +
`collect` (`List.map`), `v[i]` (`v[i]?`, `none` = panic), `0..n` (`List.range`), `BitIterator::new`
(`bitsMSB`), `Option::unwrap`.
-/
import PP.Proofs.GenPair

namespace PP.GenPair
open PP PP.Gen PP.GenPairLemmas

/-! ## `G1Prepared`, `G2Prepared`, `CurveAffine::prepare` -/
theorem G1Prepared_isZero : P.G1Prepared.isZero = fun p => p.infinity := G1Prepared_isZero_eq
theorem G1Prepared_fromAffine : P.G1Prepared.fromAffine = fun p => p := G1Prepared_fromAffine_eq
theorem G2Prepared_isZero : P.G2Prepared.isZero = fun q => q.infinity := G2Prepared_isZero_eq
theorem G2Prepared_fromAffine : P.G2Prepared.fromAffine = PP.G2Prepared.fromAffine := G2Prepared_fromAffine_eq
theorem G1Affine_prepare : P.G1Affine.prepare = fun p => p := G1Affine_prepare_eq
theorem G2Affine_prepare : P.G2Affine.prepare = PP.G2Prepared.fromAffine := G2Affine_prepare_eq

/-! ## `Bls12::miller_loop` -/
theorem millerLoop : P.millerLoop = PP.millerLoop := millerLoop_eq

/-! ## default methods of `trait Engine` (Self = Bls12) -/
theorem pairing : P.pairing = PP.pairing := pairing_eq
theorem pairingProduct : P.pairingProduct = PP.pairingProduct := pairingProduct_eq
theorem pairingMultiProduct : P.pairingMultiProduct = PP.pairingMultiProduct := pairingMultiProduct_eq

/-! ## `perform_pairing`, `CurveAffine::pairing_with` -/
theorem G1Affine_performPairing : P.G1Affine.performPairing = PP.pairing := G1Affine_performPairing_eq
theorem G2Affine_performPairing : P.G2Affine.performPairing = fun q p => PP.pairing p q := G2Affine_performPairing_eq
theorem G1Affine_pairingWith : P.G1Affine.pairingWith = PP.pairing := G1Affine_pairingWith_eq
theorem G2Affine_pairingWith : P.G2Affine.pairingWith = fun q p => PP.pairing p q := G2Affine_pairingWith_eq

end PP.GenPair
