/-
C03 / C11 — BILINEARITY and NON-DEGENERACY of the pairing, unconditionally.

Combination of the two linearity results, each proved for all inputs without divisor theory:
* `PP.C03LinP` (linearity in the G1 argument): line–line reciprocity on explicit points, the Miller-loop
  invariant `pw F₁ · pw F₂ / pw F₃ = ε(Q)^k / ε([k]Q)`, the twisted Frobenius `π = [q]` on G2, `r ∣ |x| + q`;
* `PP.C03LinQ` (linearity in the G2 argument): Mathlib's coordinate ring of the curve over Fq12 — the ideal of a
  line is the product of the maximal ideals of its three zeros, units of the coordinate ring are constants,
  so the quotient of Miller functions has a constant value `c` with `c⁴ = 1`, killed by the final exponentiation.

Statements are about the MODEL's `pairing` (proved equal to the translation of the Rust code, `PP.GenPair`).
-/
import PP.Props.C03LinP
import PP.Props.C03LinQ

namespace PP.C03Bilinear
open PP

local notation "b₁" => g1Codec.b
local notation "b₂" => g2Codec.b

/-- linearity in the first argument in the shape `C03LinQ` asks for -/
theorem leftLinear : C03LinQ.LeftLinear := by
  intro p p' q a hp hp' hq ha
  have hpc : p.isOnCurve b₁ = true :=
    (Aff.isOnCurve_iff _ p).mpr ((Aff.inSubgroup_iff_inSub p).mp hp).1
  have hpc' : p'.isOnCurve b₁ = true :=
    (Aff.isOnCurve_iff _ p').mpr ((Aff.inSubgroup_iff_inSub p').mp hp').1
  obtain ⟨e, _, he, he'⟩ := C03LinP.pairing_nsmul_left p p' q a hpc hpc' hq ha
  rw [he, he']; rfl

/-- **bilinearity**: for `P ∈ G1`, `Q ∈ G2` and all `a b : ℕ`, if `P'` denotes `[a]P` and `Q'` denotes `[b]Q`
    then `e(P', Q') = e(P, Q)^(a·b)` (identities allowed everywhere; the pairing never fails on these inputs) -/
theorem bilinear (p p' : Aff Fq) (q q' : Aff Fq2) (a b : ℕ)
    (hp : Aff.inSubgroup b₁ p = true) (hp' : Aff.inSubgroup b₁ p' = true)
    (hq : Aff.inSubgroup b₂ q = true) (hq' : Aff.inSubgroup b₂ q' = true)
    (ha : Aff.abs b₁ p' = a • Aff.abs b₁ p) (hb : Aff.abs b₂ q' = b • Aff.abs b₂ q) :
    pairing p' q' = (pairing p q).map (· ^ (a * b)) :=
  C03LinQ.bilinear_of_left leftLinear p p' q q' a b hp hp' hq hq' ha hb

/-- **non-degeneracy**: on `G1 × G2`, `e(P, Q) = 1` exactly when `P` or `Q` is the point at infinity -/
theorem nondegenerate (p : Aff Fq) (q : Aff Fq2)
    (hp : Aff.inSubgroup b₁ p = true) (hq : Aff.inSubgroup b₂ q = true) :
    pairing p q = some 1 ↔ p.infinity = true ∨ q.infinity = true :=
  C03LinQ.nondegenerate_of_left leftLinear p q hp hq

/-- bilinearity with the model's own scalar multiplications (`CurveAffine::mul` on both sides), scalars `< 2^256` -/
theorem bilinear_mul (p : Aff Fq) (q : Aff Fq2) (a b : ℕ) (ha : a < 2 ^ 256) (hb : b < 2 ^ 256)
    (hp : Aff.inSubgroup b₁ p = true) (hq : Aff.inSubgroup b₂ q = true) :
    ∃ pa qb, (p.mul a).toAffine = some pa ∧ (q.mul b).toAffine = some qb ∧
      pairing pa qb = (pairing p q).map (· ^ (a * b)) := by
  have hpc : p.isOnCurve b₁ = true :=
    (Aff.isOnCurve_iff _ p).mpr ((Aff.inSubgroup_iff_inSub p).mp hp).1
  obtain ⟨pa, hpa, hpac, _⟩ := C03LinP.pairing_mul_left p q a ha hpc hq
  obtain ⟨qb, hqb, hqbs, he⟩ := C03LinQ.pairing_mul pa q b hb hpac hq
  obtain ⟨pa', hpa', _, he'⟩ := C03LinP.pairing_mul_left p q a ha hpc hq
  have : pa' = pa := Option.some.inj (hpa'.symm.trans hpa)
  subst this
  refine ⟨pa', qb, hpa, hqb, ?_⟩
  rw [he, he']
  cases pairing p q with
  | none => rfl
  | some e => simp [pow_mul]

/-- **the exponent clause of C11**: if `Pᵢ` denotes `[aᵢ]P` and `Qᵢ` denotes `[bᵢ]Q` (`P ∈ G1`, `Q ∈ G2`), the product of
    pairings computed by ONE Miller loop and one final exponentiation is `e(P, Q)^(Σ aᵢ bᵢ)`; in particular it is `1`
    when the exponent sum vanishes modulo `r` (`pairing_pow_r`) -/
theorem multiProduct_exponent (p : Aff Fq) (q : Aff Fq2)
    (hp : Aff.inSubgroup b₁ p = true) (hq : Aff.inSubgroup b₂ q = true)
    (ts : List (Aff Fq × Aff Fq2 × ℕ × ℕ))
    (h : ∀ t ∈ ts, Aff.inSubgroup b₁ t.1 = true ∧ Aff.inSubgroup b₂ t.2.1 = true ∧
      Aff.abs b₁ t.1 = t.2.2.1 • Aff.abs b₁ p ∧ Aff.abs b₂ t.2.1 = t.2.2.2 • Aff.abs b₂ q) :
    pairingMultiProduct (ts.map (·.1)) (ts.map (·.2.1)) =
      (pairing p q).map (· ^ (ts.map (fun t => t.2.2.1 * t.2.2.2)).sum) := by
  have hpc : p.isOnCurve b₁ = true :=
    (Aff.isOnCurve_iff _ p).mpr ((Aff.inSubgroup_iff_inSub p).mp hp).1
  obtain ⟨e, _, he⟩ := C11Neg.pairing_some p q hpc hq
  rw [C11.pairingMultiProduct_eq_prod _ _ (by simp), he]
  induction ts with
  | nil => simp [Miller.optProd]
  | cons t ts ih =>
    obtain ⟨h1, h2, h3, h4⟩ := h t (List.mem_cons_self ..)
    have ih' := ih (fun t' ht' => h t' (List.mem_cons_of_mem _ ht'))
    have hb := bilinear p t.1 q t.2.1 t.2.2.1 t.2.2.2 hp h1 hq h2 h3 h4
    rw [he] at hb
    have hc : Miller.optProd (List.zipWith pairing ((t :: ts).map (·.1)) ((t :: ts).map (·.2.1))) =
        Miller.optMul (pairing t.1 t.2.1)
          (Miller.optProd (List.zipWith pairing (ts.map (·.1)) (ts.map (·.2.1)))) := rfl
    rw [hc, ih', hb]
    simp [Miller.optMul, pow_add]

end PP.C03Bilinear
