/-
OBLIGATIONS "GenEnc": the byte-level encoding layer of the hand-written model IS the Rust source.

`PP/Gen/Enc.lean` (namespace `PP.Gen.E`) is REGENERATED from /repo on every run of
/verif/extract/extract.py by /verif/extract/extract_enc.py: one Lean definition per Rust function, one
line per Rust statement; the flag manipulations (`copy[0] & (1 << 7) != 0`, `copy[0] &= 0x1f`,
`res.0[0] |= 1 << 5`, `(buf[0] & 0x80) == 0x80`), the order of the checks, the slice bounds of the
coordinate reads / writes and the error kinds are translated literally.  Each theorem below states that
such a regenerated definition is equal to the hand-written model function that all other properties
(C17, C18 ..) are proved about.  An edit of one of these Rust functions changes the generated text, and
the corresponding theorem no longer compiles (or the extractor refuses the new shape).

Correspondence Rust -> generated -> model (PP/Model/Enc.lean):
  ec/g1.rs, ec/g2.rs   impl EncodedPoint for G?Uncompressed / G?Compressed:
      into_affine_unchecked   -> `decodeUncompressedUnchecked` / `decodeCompressedUnchecked`
      into_affine             -> `decodeUncompressed` / `decodeCompressed`   (on-curve, subgroup checks)
      from_affine             -> `encodeUncompressed` / `encodeCompressed`
      size, empty             -> `cc.size` (`2 * cc.size`), the all-zero array
      G?Affine::get_coeff_b   -> `cc.b`                                       at `g1Codec` / `g2Codec`
  serdes.rs   impl SerDes for Fr, Fq12     -> `serFr deserFr serFq12 deserFq12`
              impl SerDes for G?Affine, G? -> `serAffine deserAffine`, `serJac deserJac`

Differences of representation that are visible in the statements:
  * a generated function that can PANIC (`unwrap`, callee) is `Option`-valued, `none` = panic: `= some (..)`
    also says that the Rust code does not panic; the hypothesis `bs.length = N` is the Rust type `[u8; N]`
    of `self` (for other lengths the model answers `badLength`, outside the Rust domain);
  * a sink `W: Write` is the list of bytes written so far: `serialize a w c = .ok (w ++ model)`; for the
    projective types the model's `none` (= `into_affine` panicked) is `.error SerErr.panic`;
  * a reader `R: Read` is the list of bytes still to be read; `deserialize` returns the value and the rest,
    exactly like the model;
  * the `_compressed` flag of `Fr` / `Fq12` is ignored by the Rust code: the model functions do not take it.

Primitives that are not in /repo (ff crate, derive macro, std::io) and are therefore NOT pinned down by
these theorems but taken from the model: `FqRepr::read_be / write_be` (big-endian, `beToNat` / `beBytes`),
`Fq::from_repr` (range check `< q`), `into_repr` (`.v`), `Read::read_exact` (`readExact`), the `Write`
impls of `Vec<u8>` and `&mut [u8]` (`E.vecWrite`, `E.SliceWriter`), `Ord for Fq` (`compare _.v _.v`),
`Fr::char()` (`Gen.r`); trivial wrappers (`as_ref`, `as_mut`, `into_projective`, `into_affine` of the
curve macro) are checked textually by the extractor.
-/
import PP.Proofs.GenEnc

namespace PP.GenEnc
open PP PP.Gen PP.GenEncLemmas

/-! ## ec/g1.rs -/
theorem G1Affine_getCoeffB : E.G1Affine.getCoeffB = g1Codec.b := G1Affine_getCoeffB_eq
theorem G1Uncompressed_size : E.G1Uncompressed.size = 2 * g1Codec.size := G1Uncompressed_size_eq
theorem G1Uncompressed_empty : E.G1Uncompressed.empty = List.replicate (2 * g1Codec.size) 0 := G1Uncompressed_empty_eq
theorem G1Compressed_size : E.G1Compressed.size = g1Codec.size := G1Compressed_size_eq
theorem G1Compressed_empty : E.G1Compressed.empty = List.replicate g1Codec.size 0 := G1Compressed_empty_eq
theorem G1Uncompressed_intoAffineUnchecked (bs : Bytes) (h : bs.length = 96) :
    E.G1Uncompressed.intoAffineUnchecked bs = some (decodeUncompressedUnchecked g1Codec bs) :=
  G1Uncompressed_intoAffineUnchecked_eq bs h
theorem G1Uncompressed_intoAffine (bs : Bytes) (h : bs.length = 96) :
    E.G1Uncompressed.intoAffine bs = some (decodeUncompressed g1Codec bs) := G1Uncompressed_intoAffine_eq bs h
theorem G1Uncompressed_fromAffine (a : Aff Fq) :
    E.G1Uncompressed.fromAffine a = some (encodeUncompressed g1Codec a) := G1Uncompressed_fromAffine_eq a
theorem G1Compressed_intoAffineUnchecked (bs : Bytes) (h : bs.length = 48) :
    E.G1Compressed.intoAffineUnchecked bs = some (decodeCompressedUnchecked g1Codec bs) :=
  G1Compressed_intoAffineUnchecked_eq bs h
theorem G1Compressed_intoAffine (bs : Bytes) (h : bs.length = 48) :
    E.G1Compressed.intoAffine bs = some (decodeCompressed g1Codec bs) := G1Compressed_intoAffine_eq bs h
theorem G1Compressed_fromAffine (a : Aff Fq) :
    E.G1Compressed.fromAffine a = some (encodeCompressed g1Codec a) := G1Compressed_fromAffine_eq a

/-! ## ec/g2.rs -/
theorem G2Affine_getCoeffB : E.G2Affine.getCoeffB = g2Codec.b := G2Affine_getCoeffB_eq
theorem G2Uncompressed_size : E.G2Uncompressed.size = 2 * g2Codec.size := G2Uncompressed_size_eq
theorem G2Uncompressed_empty : E.G2Uncompressed.empty = List.replicate (2 * g2Codec.size) 0 := G2Uncompressed_empty_eq
theorem G2Compressed_size : E.G2Compressed.size = g2Codec.size := G2Compressed_size_eq
theorem G2Compressed_empty : E.G2Compressed.empty = List.replicate g2Codec.size 0 := G2Compressed_empty_eq
theorem G2Uncompressed_intoAffineUnchecked (bs : Bytes) (h : bs.length = 192) :
    E.G2Uncompressed.intoAffineUnchecked bs = some (decodeUncompressedUnchecked g2Codec bs) :=
  G2Uncompressed_intoAffineUnchecked_eq bs h
theorem G2Uncompressed_intoAffine (bs : Bytes) (h : bs.length = 192) :
    E.G2Uncompressed.intoAffine bs = some (decodeUncompressed g2Codec bs) := G2Uncompressed_intoAffine_eq bs h
theorem G2Uncompressed_fromAffine (a : Aff Fq2) :
    E.G2Uncompressed.fromAffine a = some (encodeUncompressed g2Codec a) := G2Uncompressed_fromAffine_eq a
theorem G2Compressed_intoAffineUnchecked (bs : Bytes) (h : bs.length = 96) :
    E.G2Compressed.intoAffineUnchecked bs = some (decodeCompressedUnchecked g2Codec bs) :=
  G2Compressed_intoAffineUnchecked_eq bs h
theorem G2Compressed_intoAffine (bs : Bytes) (h : bs.length = 96) :
    E.G2Compressed.intoAffine bs = some (decodeCompressed g2Codec bs) := G2Compressed_intoAffine_eq bs h
theorem G2Compressed_fromAffine (a : Aff Fq2) :
    E.G2Compressed.fromAffine a = some (encodeCompressed g2Codec a) := G2Compressed_fromAffine_eq a

/-! ## serdes.rs -/
theorem Fr_serialize (a : Fr) (w : Bytes) (c : Bool) : E.Fr.serialize a w c = .ok (w ++ serFr a) := Fr_serialize_eq a w c
theorem Fr_deserialize (rd : Bytes) (c : Bool) : E.Fr.deserialize rd c = deserFr rd := Fr_deserialize_eq rd c
theorem Fq12_serialize (a : Fq12) (w : Bytes) (c : Bool) : E.Fq12.serialize a w c = .ok (w ++ serFq12 a) :=
  Fq12_serialize_eq a w c
theorem Fq12_deserialize (rd : Bytes) (c : Bool) : E.Fq12.deserialize rd c = deserFq12 rd := Fq12_deserialize_eq rd c
theorem G1Affine_serialize (a : Aff Fq) (w : Bytes) (c : Bool) :
    E.G1Affine.serialize a w c = .ok (w ++ serAffine g1Codec a c) := G1Affine_serialize_eq a w c
theorem G1Affine_deserialize (rd : Bytes) (c : Bool) : E.G1Affine.deserialize rd c = deserAffine g1Codec rd c :=
  G1Affine_deserialize_eq rd c
theorem G2Affine_serialize (a : Aff Fq2) (w : Bytes) (c : Bool) :
    E.G2Affine.serialize a w c = .ok (w ++ serAffine g2Codec a c) := G2Affine_serialize_eq a w c
theorem G2Affine_deserialize (rd : Bytes) (c : Bool) : E.G2Affine.deserialize rd c = deserAffine g2Codec rd c :=
  G2Affine_deserialize_eq rd c
theorem G1_serialize (p : Jac Fq) (w : Bytes) (c : Bool) :
    E.G1.serialize p w c = match serJac g1Codec p c with
      | none => .error SerErr.panic
      | some bs => .ok (w ++ bs) := G1_serialize_eq p w c
theorem G1_deserialize (rd : Bytes) (c : Bool) : E.G1.deserialize rd c = deserJac g1Codec rd c := G1_deserialize_eq rd c
theorem G2_serialize (p : Jac Fq2) (w : Bytes) (c : Bool) :
    E.G2.serialize p w c = match serJac g2Codec p c with
      | none => .error SerErr.panic
      | some bs => .ok (w ++ bs) := G2_serialize_eq p w c
theorem G2_deserialize (rd : Bytes) (c : Bool) : E.G2.deserialize rd c = deserJac g2Codec rd c := G2_deserialize_eq rd c

end PP.GenEnc
