/-
C04 — "For every byte string of the right length, checked decoding of a compressed or uncompressed G1/G2
encoding returns without panicking; it succeeds if and only if the flag bits are consistent with the
form, every coordinate is a reduced field element, the point satisfies the curve equation (or,
compressed, a square root exists and the sort flag selects it) and the point lies in the order-r
subgroup, and it then returns exactly that point. Each rejection reports the first failed validation in
the order form flag, infinity/sort flags, coordinate range, curve membership, subgroup membership. The
unchecked variant applies the same flag and range validation (and, for compressed input, the same
square-root step) but omits the curve-equation and subgroup tests."

Model: `decodeCompressed`, `decodeUncompressed`, `decode…Unchecked` (PP.Model.Enc).  Spec:
`ZCash.validate` / `firstFailure` / `Accepts` (PP.Spec.ZCash) for the curve description
`cc.curve C = ⟨C, cc.b, SqrtOps.lt, Aff.inSubgroup cc.b⟩`: the subgroup test is the MODEL's own predicate
(its meaning `r • P = 0` is C07's), the curve equation is `y·y = x·x·x + b`, the square root is specified
by existence (`ZCash.root?`, characterised below).

Totality ("without panicking"): the model functions are total Lean functions into `Except DecodeErr _`;
their only extra outcome `badLength` occurs exactly for inputs of the wrong length (`…_badLength`).

Generic theorems are for any field `F` with lawful ops and any codec `cc` implementing a lawful
coordinate format `C` (`Codec.Lawful`); `…_g1` are the instances for `g1Codec` (needing only
`LawfulSqrtOps Fq`, provided by C18); `…_g2` are the instances for `g2Codec` — `g2Codec_lawful` is proved
outright, the field structure of `Fq2` and its lawful `sqrt`/`lt` are instance arguments (Tower2 / C18).
-/
import PP.Proofs.Encoding

set_option linter.unusedSectionVars false

namespace PP.C04
open ZCash (Coord Form Flags Selected root? validate firstFailure Accepts)

section generic
variable {F : Type} [Field F] [DecidableEq F] [FieldOps F] [LawfulFieldOps F] [SqrtOps F] [LawfulSqrtOps F]
variable {cc : Codec F} {C : Coord F}

/-! ### the decoders are the ordered validation -/

theorem decodeUncompressed_eq_validate (L : cc.Lawful C) (bs : Bytes) (hl : bs.length = 2 * cc.size) :
    decodeUncompressed cc bs = validate (cc.curve C) .uncompressed true bs :=
  decodeUncompressed_eq L bs hl

theorem decodeCompressed_eq_validate (L : cc.Lawful C) (bs : Bytes) (hl : bs.length = cc.size) :
    decodeCompressed cc bs = validate (cc.curve C) .compressed true bs :=
  decodeCompressed_eq L bs hl

theorem decodeUncompressedUnchecked_eq_validate (L : cc.Lawful C) (bs : Bytes) (hl : bs.length = 2 * cc.size) :
    decodeUncompressedUnchecked cc bs = validate (cc.curve C) .uncompressed false bs :=
  decodeUncompressedUnchecked_eq L bs hl

theorem decodeCompressedUnchecked_eq_validate (L : cc.Lawful C) (bs : Bytes) (hl : bs.length = cc.size) :
    decodeCompressedUnchecked cc bs = validate (cc.curve C) .compressed false bs :=
  decodeCompressedUnchecked_eq L bs hl

/-! ### success iff accepted, and then exactly that point; failure = first failed validation -/

theorem decodeUncompressed_ok_iff (L : cc.Lawful C) (bs : Bytes) (hl : bs.length = 2 * cc.size) (A : Aff F) :
    decodeUncompressed cc bs = .ok A ↔ Accepts (cc.curve C) .uncompressed true bs A := by
  rw [decodeUncompressed_eq L bs hl]; rfl

theorem decodeCompressed_ok_iff (L : cc.Lawful C) (bs : Bytes) (hl : bs.length = cc.size) (A : Aff F) :
    decodeCompressed cc bs = .ok A ↔ Accepts (cc.curve C) .compressed true bs A := by
  rw [decodeCompressed_eq L bs hl]; rfl

theorem decodeUncompressedUnchecked_ok_iff (L : cc.Lawful C) (bs : Bytes) (hl : bs.length = 2 * cc.size)
    (A : Aff F) :
    decodeUncompressedUnchecked cc bs = .ok A ↔ Accepts (cc.curve C) .uncompressed false bs A := by
  rw [decodeUncompressedUnchecked_eq L bs hl]; rfl

theorem decodeCompressedUnchecked_ok_iff (L : cc.Lawful C) (bs : Bytes) (hl : bs.length = cc.size) (A : Aff F) :
    decodeCompressedUnchecked cc bs = .ok A ↔ Accepts (cc.curve C) .compressed false bs A := by
  rw [decodeCompressedUnchecked_eq L bs hl]; rfl

theorem firstFailure_eq_some_iff (K : ZCash.Curve F) (form : Form) (checked : Bool) (bs : Bytes) (e : DecodeErr) :
    firstFailure K form checked bs = some e ↔ validate K form checked bs = .error e := by
  unfold firstFailure
  cases validate K form checked bs with
  | error e' => simp
  | ok a => simp

theorem firstFailure_eq_none_iff (K : ZCash.Curve F) (form : Form) (checked : Bool) (bs : Bytes) :
    firstFailure K form checked bs = none ↔ ∃ A, Accepts K form checked bs A := by
  unfold firstFailure Accepts
  cases validate K form checked bs with
  | error e' => simp
  | ok a => simp

theorem decodeUncompressed_error_iff (L : cc.Lawful C) (bs : Bytes) (hl : bs.length = 2 * cc.size)
    (e : DecodeErr) :
    decodeUncompressed cc bs = .error e ↔ firstFailure (cc.curve C) .uncompressed true bs = some e := by
  rw [decodeUncompressed_eq L bs hl, firstFailure_eq_some_iff]

theorem decodeCompressed_error_iff (L : cc.Lawful C) (bs : Bytes) (hl : bs.length = cc.size) (e : DecodeErr) :
    decodeCompressed cc bs = .error e ↔ firstFailure (cc.curve C) .compressed true bs = some e := by
  rw [decodeCompressed_eq L bs hl, firstFailure_eq_some_iff]

theorem decodeUncompressedUnchecked_error_iff (L : cc.Lawful C) (bs : Bytes) (hl : bs.length = 2 * cc.size)
    (e : DecodeErr) :
    decodeUncompressedUnchecked cc bs = .error e ↔
      firstFailure (cc.curve C) .uncompressed false bs = some e := by
  rw [decodeUncompressedUnchecked_eq L bs hl, firstFailure_eq_some_iff]

theorem decodeCompressedUnchecked_error_iff (L : cc.Lawful C) (bs : Bytes) (hl : bs.length = cc.size)
    (e : DecodeErr) :
    decodeCompressedUnchecked cc bs = .error e ↔ firstFailure (cc.curve C) .compressed false bs = some e := by
  rw [decodeCompressedUnchecked_eq L bs hl, firstFailure_eq_some_iff]

/-! ### acceptance spelled out -/

/-- uncompressed: `c = 0`; either `i = 1` and the string is the identity encoding (result `⟨0,1,∞⟩`), or
`i = s = 0`, both coordinates are reduced, `y² = x³ + b`, the point is in the subgroup (result `(x, y)`) -/
theorem decodeUncompressed_ok_iff_explicit (L : cc.Lawful C) (bs : Bytes) (hl : bs.length = 2 * cc.size)
    (A : Aff F) :
    decodeUncompressed cc bs = .ok A ↔
      (ZCash.flags bs).c = false ∧
      (((ZCash.flags bs).i = true ∧ bs = ZCash.identityBytes C .uncompressed ∧ A = ⟨0, 1, true⟩) ∨
       ((ZCash.flags bs).i = false ∧ (ZCash.flags bs).s = false ∧
         C.rangeFailure "x" ((ZCash.clearFlags bs).take C.size) = none ∧
         C.rangeFailure "y" ((ZCash.clearFlags bs).drop C.size) = none ∧
         A = ⟨C.value ((ZCash.clearFlags bs).take C.size), C.value ((ZCash.clearFlags bs).drop C.size), false⟩ ∧
         A.y * A.y = A.x * A.x * A.x + cc.b ∧ Aff.inSubgroup cc.b A = true)) := by
  rw [decodeUncompressed_eq L bs hl]
  exact validate_uncompressed_ok_iff (cc.curve C) bs A

/-- compressed: `c = 1`; either `i = 1` and the string is the identity encoding, or `i = 0`, `x` is reduced,
`x³ + b` has a square root `y`, `y` is the one selected by the sort flag, the point is in the subgroup -/
theorem decodeCompressed_ok_iff_explicit (L : cc.Lawful C) (bs : Bytes) (hl : bs.length = cc.size) (A : Aff F) :
    decodeCompressed cc bs = .ok A ↔
      (ZCash.flags bs).c = true ∧
      (((ZCash.flags bs).i = true ∧ bs = ZCash.identityBytes C .compressed ∧ A = ⟨0, 1, true⟩) ∨
       ((ZCash.flags bs).i = false ∧
         C.rangeFailure "x" ((ZCash.clearFlags bs).take C.size) = none ∧
         ∃ y : F, y * y = A.x * A.x * A.x + cc.b ∧
           Selected (SqrtOps.lt : F → F → Bool) (ZCash.flags bs).s y ∧
           A = ⟨C.value ((ZCash.clearFlags bs).take C.size), y, false⟩ ∧
           Aff.inSubgroup cc.b A = true)) := by
  rw [decodeCompressed_eq L bs hl]
  exact validate_compressed_ok_iff cc C bs A

/-! ### the unchecked variants -/

/-- spec level: checked = unchecked, then (finite points only) the curve equation in uncompressed form,
then the subgroup test -/
theorem validate_checked_of_unchecked (K : ZCash.Curve F) (form : Form) (bs : Bytes) :
    validate K form true bs =
      match validate K form false bs with
      | .error e => .error e
      | .ok A =>
        if A.infinity = true then .ok A
        else if form = .uncompressed ∧ A.y * A.y ≠ A.x * A.x * A.x + K.b then .error .notOnCurve
        else if K.inSubgroup A = false then .error .notInSubgroup
        else .ok A :=
  validate_checked_eq K form bs

/-- model level (by definition of the model, mirroring `into_affine` = `into_affine_unchecked` + tests) -/
theorem decodeUncompressed_of_unchecked (bs : Bytes) :
    decodeUncompressed cc bs =
      match decodeUncompressedUnchecked cc bs with
      | .error e => .error e
      | .ok a =>
        if !a.isOnCurve cc.b then .error .notOnCurve
        else if !a.inSubgroup cc.b then .error .notInSubgroup
        else .ok a := rfl

theorem decodeCompressed_of_unchecked (bs : Bytes) :
    decodeCompressed cc bs =
      match decodeCompressedUnchecked cc bs with
      | .error e => .error e
      | .ok a => if !a.inSubgroup cc.b then .error .notInSubgroup else .ok a := rfl

/-- the unchecked uncompressed decoder never reports a curve or subgroup failure -/
theorem decodeUncompressedUnchecked_error_class (bs : Bytes) (e : DecodeErr)
    (h : decodeUncompressedUnchecked cc bs = .error e) : e ≠ .notOnCurve ∧ e ≠ .notInSubgroup :=
  decodeUncompressedUnchecked_error bs e h

/-- what the unchecked compressed decoder returns satisfies the curve equation (the square-root step stays) -/
theorem decodeCompressedUnchecked_isOnCurve (bs : Bytes) (A : Aff F)
    (h : decodeCompressedUnchecked cc bs = .ok A) : Aff.isOnCurve cc.b A = true :=
  decodeCompressedUnchecked_onCurve bs A h

/-! ### totality: `badLength` is the wrong-length outcome and nothing else -/

theorem decodeUncompressed_badLength_iff (bs : Bytes) :
    decodeUncompressed cc bs = .error .badLength ↔ bs.length ≠ 2 * cc.size := decodeUncompressed_badLength bs
theorem decodeCompressed_badLength_iff (bs : Bytes) :
    decodeCompressed cc bs = .error .badLength ↔ bs.length ≠ cc.size := decodeCompressed_badLength bs
theorem decodeUncompressedUnchecked_badLength_iff (bs : Bytes) :
    decodeUncompressedUnchecked cc bs = .error .badLength ↔ bs.length ≠ 2 * cc.size :=
  decodeUncompressedUnchecked_badLength bs
theorem decodeCompressedUnchecked_badLength_iff (bs : Bytes) :
    decodeCompressedUnchecked cc bs = .error .badLength ↔ bs.length ≠ cc.size :=
  decodeCompressedUnchecked_badLength bs

/-! ### the curve-level ingredients -/

theorem isOnCurve_iff (b : F) (A : Aff F) :
    Aff.isOnCurve b A = true ↔ A.infinity = true ∨ A.y * A.y = A.x * A.x * A.x + b := Aff.isOnCurve_iff_eq b A

/-- `get_point_from_x`: returns `(x, y)` for the root `y` of `x³ + b` selected by `greatest`
(`Selected g y`: `g → ¬ y < −y`, `¬g → ¬ −y < y`; for `y = 0 = −y` both hold and `(x, 0)` is returned
whatever `greatest` is) -/
theorem getPointFromX_eq_some_iff (b x : F) (g : Bool) (A : Aff F) :
    Aff.getPointFromX b x g = some A ↔
      ∃ y, y * y = x * x * x + b ∧ A = ⟨x, y, false⟩ ∧ Selected (SqrtOps.lt : F → F → Bool) g y :=
  Aff.getPointFromX_eq_some_iff b x g A

theorem getPointFromX_eq_none_iff (b x : F) (g : Bool) :
    Aff.getPointFromX b x g = none ↔ ¬ IsSquare (x * x * x + b) := Aff.getPointFromX_eq_none_iff b x g

/-- `Selected` in terms of the strict order: for `y ≠ −y`, the flag says whether `y` is the larger root -/
theorem selected_iff_of_ne (g : Bool) (y : F) (hy : -y ≠ y) :
    Selected (SqrtOps.lt : F → F → Bool) g y ↔ (SqrtOps.lt (-y) y = g) := by
  cases g
  · simp [Selected]
  · simp only [Selected, if_true]
    constructor
    · intro h
      rcases LawfulSqrtOps.lt_total (-y) y hy with ht | ht
      · exact ht
      · rw [h] at ht; cases ht
    · intro h; exact LawfulSqrtOps.lt_asymm _ _ h

/-- the spec's square-root step is well defined: `root?` returns THE selected root … -/
theorem root?_eq_some_iff (a : F) (s : Bool) (y : F) :
    root? (SqrtOps.lt : F → F → Bool) a s = some y ↔ y * y = a ∧ Selected (SqrtOps.lt : F → F → Bool) s y :=
  PP.root?_eq_some_iff a s y

/-- … and fails exactly on non-squares -/
theorem root?_eq_none_iff (a : F) (s : Bool) :
    root? (SqrtOps.lt : F → F → Bool) a s = none ↔ ¬ IsSquare a := PP.root?_eq_none_iff a s

/-- the identity record passes the model's curve and subgroup tests (so step (2) may accept it outright) -/
theorem identity_valid (b : F) :
    Aff.isOnCurve b (Aff.zero : Aff F) = true ∧ Aff.inSubgroup b (Aff.zero : Aff F) = true :=
  ⟨Aff.isOnCurve_zero b, Aff.inSubgroup_zero b⟩

end generic

/-! ### precedence, step by step (direct readings of `validate`) -/
section precedence
variable {F : Type} [Add F] [Mul F] [Neg F] [Zero F] [One F] [DecidableEq F]
variable (K : ZCash.Curve F) (form : Form) (checked : Bool) (bs : Bytes)

/-- (1) a wrong form flag is reported whatever else is wrong -/
theorem step1 (h : (ZCash.flags bs).c ≠ form.isCompressed) :
    firstFailure K form checked bs = some .compressionMode := by
  unfold firstFailure validate; simp [h]

/-- (2) `i` set but other bits set: reported before range, curve, subgroup -/
theorem step2_infinity (h1 : (ZCash.flags bs).c = form.isCompressed) (hi : (ZCash.flags bs).i = true)
    (h : bs ≠ ZCash.identityBytes K.coord form) :
    firstFailure K form checked bs = some .unexpectedInfo := by
  unfold firstFailure validate; simp [h1, hi, h]

/-- (2) sort flag on an uncompressed string -/
theorem step2_sort (h1 : (ZCash.flags bs).c = false) (hi : (ZCash.flags bs).i = false)
    (hs : (ZCash.flags bs).s = true) :
    firstFailure K .uncompressed checked bs = some .unexpectedInfo := by
  unfold firstFailure validate; simp [h1, hi, hs, Form.isCompressed]

/-- (3) a non-reduced `x` is reported before `y`, curve, subgroup -/
theorem step3_x (h1 : (ZCash.flags bs).c = form.isCompressed) (hi : (ZCash.flags bs).i = false)
    (hs : form = .uncompressed → (ZCash.flags bs).s = false) (e : String)
    (hx : K.coord.rangeFailure "x" ((ZCash.clearFlags bs).take K.coord.size) = some e) :
    firstFailure K form checked bs = some (.coord e) := by
  unfold firstFailure validate
  cases form
  · simp [h1, hi, hx]
  · simp [h1, hi, hs rfl, hx]

/-- (3) a non-reduced `y` (uncompressed) is reported before curve, subgroup -/
theorem step3_y (h1 : (ZCash.flags bs).c = false) (hi : (ZCash.flags bs).i = false)
    (hs : (ZCash.flags bs).s = false)
    (hx : K.coord.rangeFailure "x" ((ZCash.clearFlags bs).take K.coord.size) = none) (e : String)
    (hy : K.coord.rangeFailure "y" ((ZCash.clearFlags bs).drop K.coord.size) = some e) :
    firstFailure K .uncompressed checked bs = some (.coord e) := by
  unfold firstFailure validate
  simp [h1, hi, hs, hx, hy, Form.isCompressed]

/-- (4) uncompressed, checked: the curve equation is tested before the subgroup -/
theorem step4_uncompressed (h1 : (ZCash.flags bs).c = false) (hi : (ZCash.flags bs).i = false)
    (hs : (ZCash.flags bs).s = false)
    (hx : K.coord.rangeFailure "x" ((ZCash.clearFlags bs).take K.coord.size) = none)
    (hy : K.coord.rangeFailure "y" ((ZCash.clearFlags bs).drop K.coord.size) = none)
    (hc : K.coord.value ((ZCash.clearFlags bs).drop K.coord.size) *
            K.coord.value ((ZCash.clearFlags bs).drop K.coord.size) ≠
          K.coord.value ((ZCash.clearFlags bs).take K.coord.size) *
            K.coord.value ((ZCash.clearFlags bs).take K.coord.size) *
            K.coord.value ((ZCash.clearFlags bs).take K.coord.size) + K.b) :
    firstFailure K .uncompressed true bs = some .notOnCurve := by
  unfold firstFailure validate
  simp [h1, hi, hs, hx, hy, hc, Form.isCompressed]

/-- (4) compressed (checked or not): no selected square root -/
theorem step4_compressed (h1 : (ZCash.flags bs).c = true) (hi : (ZCash.flags bs).i = false)
    (hx : K.coord.rangeFailure "x" ((ZCash.clearFlags bs).take K.coord.size) = none)
    (hr : root? K.lt (K.coord.value ((ZCash.clearFlags bs).take K.coord.size) *
            K.coord.value ((ZCash.clearFlags bs).take K.coord.size) *
            K.coord.value ((ZCash.clearFlags bs).take K.coord.size) + K.b) (ZCash.flags bs).s = none) :
    firstFailure K .compressed checked bs = some .notOnCurve := by
  unfold firstFailure validate
  simp [h1, hi, hx, hr, Form.isCompressed]

/-- (5) `notInSubgroup` is reported only when every other step has passed -/
theorem step5 (A : Aff F) (h : validate K form false bs = .ok A) (hf : A.infinity = false)
    (hc : form = .uncompressed → A.y * A.y = A.x * A.x * A.x + K.b) (hsub : K.inSubgroup A = false) :
    firstFailure K form true bs = some .notInSubgroup := by
  unfold firstFailure
  rw [validate_checked_eq, h]
  simp only [hf, Bool.false_eq_true, if_false, hsub, if_true]
  cases form
  · simp
  · simp [hc rfl]

end precedence

/-! ### G1 -/
section g1
variable [LawfulSqrtOps Fq]

theorem decodeUncompressed_g1 (bs : Bytes) (hl : bs.length = 96) :
    decodeUncompressed g1Codec bs = validate (g1Codec.curve ZCash.fqCoord) .uncompressed true bs :=
  decodeUncompressed_eq g1Codec_lawful bs hl

theorem decodeCompressed_g1 (bs : Bytes) (hl : bs.length = 48) :
    decodeCompressed g1Codec bs = validate (g1Codec.curve ZCash.fqCoord) .compressed true bs :=
  decodeCompressed_eq g1Codec_lawful bs hl

theorem decodeUncompressedUnchecked_g1 (bs : Bytes) (hl : bs.length = 96) :
    decodeUncompressedUnchecked g1Codec bs = validate (g1Codec.curve ZCash.fqCoord) .uncompressed false bs :=
  decodeUncompressedUnchecked_eq g1Codec_lawful bs hl

theorem decodeCompressedUnchecked_g1 (bs : Bytes) (hl : bs.length = 48) :
    decodeCompressedUnchecked g1Codec bs = validate (g1Codec.curve ZCash.fqCoord) .compressed false bs :=
  decodeCompressedUnchecked_eq g1Codec_lawful bs hl

end g1

/-! ### G2 (field structure and lawful `sqrt`/`lt` of `Fq2` as instance arguments) -/
section g2
/- The model's own notation instances on `Fq2` are switched off inside this section, so that `+ * - 0 1`
in the statements below are those of the `Field Fq2` instance argument (with the instance of
PP.Proofs.Tower2, which is built on the model's operations, they are the model's again, by `rfl`). -/
attribute [-instance] Fq2.instAdd Fq2.instSub Fq2.instMul Fq2.instNeg Fq2.instZero Fq2.instOne
variable [Field Fq2] [LawfulFieldOps Fq2] [LawfulSqrtOps Fq2]

theorem decodeUncompressed_g2 (bs : Bytes) (hl : bs.length = 192) :
    decodeUncompressed g2Codec bs = validate (g2Codec.curve ZCash.fq2Coord) .uncompressed true bs :=
  decodeUncompressed_eq g2Codec_lawful bs hl

theorem decodeCompressed_g2 (bs : Bytes) (hl : bs.length = 96) :
    decodeCompressed g2Codec bs = validate (g2Codec.curve ZCash.fq2Coord) .compressed true bs :=
  decodeCompressed_eq g2Codec_lawful bs hl

theorem decodeUncompressedUnchecked_g2 (bs : Bytes) (hl : bs.length = 192) :
    decodeUncompressedUnchecked g2Codec bs = validate (g2Codec.curve ZCash.fq2Coord) .uncompressed false bs :=
  decodeUncompressedUnchecked_eq g2Codec_lawful bs hl

theorem decodeCompressedUnchecked_g2 (bs : Bytes) (hl : bs.length = 96) :
    decodeCompressedUnchecked g2Codec bs = validate (g2Codec.curve ZCash.fq2Coord) .compressed false bs :=
  decodeCompressedUnchecked_eq g2Codec_lawful bs hl

end g2

/-! ### non-vacuity: concrete evaluations (kernel, `decide +kernel`) -/
namespace Examples

/-- outcomes as comparable data -/
def outcome {F : Type} (r : Except DecodeErr (Aff F)) : Option DecodeErr × Option (Aff F) :=
  match r with
  | .ok a => (none, some a)
  | .error e => (some e, none)

/-- the G1 generator of the Rust source and its standard ZCash compressed encoding `97f1d3a7…c6bb` -/
def gen1 : Aff Fq := ⟨Fq.ofMont Gen.G1_GENERATOR_X, Fq.ofMont Gen.G1_GENERATOR_Y, false⟩
def gen1Bytes : Bytes := [
   0x97, 0xf1, 0xd3, 0xa7, 0x31, 0x97, 0xd7, 0x94, 0x26, 0x95, 0x63, 0x8c, 0x4f, 0xa9, 0xac, 0x0f, 0xc3, 0x68, 0x8c, 0x4f, 0x97, 0x74, 0xb9, 0x05,
   0xa1, 0x4e, 0x3a, 0x3f, 0x17, 0x1b, 0xac, 0x58, 0x6c, 0x55, 0xe8, 0x3f, 0xf9, 0x7a, 0x1a, 0xef, 0xfb, 0x3a, 0xf0, 0x0a, 0xdb, 0x22, 0xc6, 0xbb]

/-- the G2 generator and its standard ZCash compressed encoding `93e02b60…bdb8` -/
def gen2 : Aff Fq2 :=
  ⟨⟨Fq.ofMont Gen.G2_GENERATOR_X_C0, Fq.ofMont Gen.G2_GENERATOR_X_C1⟩,
   ⟨Fq.ofMont Gen.G2_GENERATOR_Y_C0, Fq.ofMont Gen.G2_GENERATOR_Y_C1⟩, false⟩
def gen2Bytes : Bytes := [
   0x93, 0xe0, 0x2b, 0x60, 0x52, 0x71, 0x9f, 0x60, 0x7d, 0xac, 0xd3, 0xa0, 0x88, 0x27, 0x4f, 0x65, 0x59, 0x6b, 0xd0, 0xd0, 0x99, 0x20, 0xb6, 0x1a,
   0xb5, 0xda, 0x61, 0xbb, 0xdc, 0x7f, 0x50, 0x49, 0x33, 0x4c, 0xf1, 0x12, 0x13, 0x94, 0x5d, 0x57, 0xe5, 0xac, 0x7d, 0x05, 0x5d, 0x04, 0x2b, 0x7e,
   0x02, 0x4a, 0xa2, 0xb2, 0xf0, 0x8f, 0x0a, 0x91, 0x26, 0x08, 0x05, 0x27, 0x2d, 0xc5, 0x10, 0x51, 0xc6, 0xe4, 0x7a, 0xd4, 0xfa, 0x40, 0x3b, 0x02,
   0xb4, 0x51, 0x0b, 0x64, 0x7a, 0xe3, 0xd1, 0x77, 0x0b, 0xac, 0x03, 0x26, 0xa8, 0x05, 0xbb, 0xef, 0xd4, 0x80, 0x56, 0xc8, 0xc1, 0x21, 0xbd, 0xb8]

-- every outcome class occurs (G1, compressed, 48 bytes)
example : outcome (decodeCompressed g1Codec gen1Bytes) = (none, some gen1) := by decide +kernel
example : outcome (decodeCompressed g1Codec (0xc0 :: List.replicate 47 0)) = (none, some Aff.zero) := by
  decide +kernel
example : outcome (decodeCompressed g1Codec (List.replicate 48 0)) = (some .compressionMode, none) := by
  decide +kernel
example : outcome (decodeCompressed g1Codec (0xe0 :: List.replicate 47 0)) = (some .unexpectedInfo, none) := by
  decide +kernel
example : outcome (decodeCompressed g1Codec (0xc0 :: List.replicate 46 0 ++ [1])) = (some .unexpectedInfo, none) := by
  decide +kernel
example : outcome (decodeCompressed g1Codec (0x9f :: List.replicate 47 0xff)) =
    (some (.coord "x coordinate"), none) := by decide +kernel
example : outcome (decodeCompressed g1Codec (0x80 :: List.replicate 46 0 ++ [1])) = (some .notOnCurve, none) := by
  decide +kernel
-- `x = 0`: `(0, ±2)` is on the curve but not in the subgroup
example : outcome (decodeCompressed g1Codec (0x80 :: List.replicate 47 0)) = (some .notInSubgroup, none) := by
  decide +kernel
example : (outcome (decodeCompressedUnchecked g1Codec (0x80 :: List.replicate 47 0))).1 = none := by
  decide +kernel
-- uncompressed, 96 bytes
example : outcome (decodeUncompressed g1Codec (0x40 :: List.replicate 95 0)) = (none, some Aff.zero) := by
  decide +kernel
example : outcome (decodeUncompressed g1Codec (0x60 :: List.replicate 95 0)) = (some .unexpectedInfo, none) := by
  decide +kernel
example : outcome (decodeUncompressed g1Codec (0x20 :: List.replicate 95 0)) = (some .unexpectedInfo, none) := by
  decide +kernel
example : outcome (decodeUncompressed g1Codec (0x80 :: List.replicate 95 0)) = (some .compressionMode, none) := by
  decide +kernel
example : outcome (decodeUncompressed g1Codec (List.replicate 96 0)) = (some .notOnCurve, none) := by
  decide +kernel
example : outcome (decodeUncompressed g1Codec (List.replicate 48 0 ++ 0x1f :: List.replicate 47 0xff)) =
    (some (.coord "y coordinate"), none) := by decide +kernel
example : outcome (decodeUncompressed g1Codec (List.replicate 95 0)) = (some .badLength, none) := by
  decide +kernel
-- G2: the generator decodes; with both components of `x` out of range, `c0` is reported (wire order c1, c0)
example : outcome (decodeCompressed g2Codec gen2Bytes) = (none, some gen2) := by decide +kernel
example : outcome (decodeCompressed g2Codec (0x9f :: List.replicate 95 0xff)) =
    (some (.coord "x coordinate (c0)"), none) := by decide +kernel
example : outcome (decodeCompressed g2Codec (0x9f :: List.replicate 47 0xff ++ List.replicate 48 0)) =
    (some (.coord "x coordinate (c1)"), none) := by decide +kernel
example : outcome (decodeCompressed g2Codec (0xc0 :: List.replicate 95 0)) = (none, some Aff.zero) := by
  decide +kernel

-- the hypotheses of the G1 theorems are satisfiable, and the spec's flags see what the model sees
example [LawfulSqrtOps Fq] : ZCash.Accepts (g1Codec.curve ZCash.fqCoord) .compressed true gen1Bytes gen1 := by
  unfold ZCash.Accepts
  rw [← decodeCompressed_g1 gen1Bytes (by decide)]
  have : outcome (decodeCompressed g1Codec gen1Bytes) = (none, some gen1) := by decide +kernel
  cases h : decodeCompressed g1Codec gen1Bytes with
  | error e => rw [h] at this; exact absurd (congrArg Prod.fst this) (by simp [outcome])
  | ok a => rw [h] at this; exact congrArg Except.ok (Option.some.inj (congrArg Prod.snd this))
example : ZCash.flags gen1Bytes = ⟨true, false, false⟩ := by decide +kernel
example : ZCash.flags gen2Bytes = ⟨true, false, false⟩ := by decide +kernel

end Examples

end PP.C04
