/-
C17, INSTANTIATED.  `clear_h` for G1 (`clearHG1 : Jac Fq → Jac Fq`) and G2 (`clearHG2 : Jac Fq2 →
Jac Fq2`, literally at the type `Fq2` of the model's tower) with the `GroupModel` interface of
`PP/Props/C17.lean` discharged by the C01 instances `g1Model`, `g2Model`: on EVERY point of the
curve (not only of the order-`r` subgroup) cofactor clearing is multiplication by `h_eff` in
Mathlib's group `(W b).Point`; it is additive and maps the identity to the identity.

The subgroup clauses keep the hypotheses of C17, with the same names: `hexp` (the exponent of
`E(Fq)` divides `(1 − x)·r`) and `hord` (`#E'(Fq2) = h₂·r`).  They are hypotheses in this file and
are PROVED in PP.Props.CurveOrder (without point counting: trivial bound + negative trace + explicit generators).
-/
import PP.Proofs.Assembly
import PP.Proofs.Subgroup

namespace PP.C17Inst

open PP C17

local notation "b₁" => g1Codec.b
local notation "b₂" => g2Codec.b

/-! ## G1 -/

/-- **C17, G1**: `clear_h(P) = [0xd201000000010001] P` for every point `P` of `E(Fq)` -/
theorem g1_clearH (P : Jac Fq) (hP : Jac.OnCurve b₁ P) :
    Jac.OnCurve b₁ (clearHG1 P) ∧ Jac.abs b₁ (clearHG1 P) = hEffG1 • Jac.abs b₁ P :=
  PP.g1_clearH P hP

/-- additive -/
theorem g1_clearH_add (P Q : Jac Fq) (hP : Jac.OnCurve b₁ P) (hQ : Jac.OnCurve b₁ Q) :
    Jac.abs b₁ (clearHG1 (P.add Q)) = Jac.abs b₁ (clearHG1 P) + Jac.abs b₁ (clearHG1 Q) :=
  C17.clearH_G1_add g1Model P Q hP hQ

/-- identity to identity -/
theorem g1_clearH_zero :
    Jac.OnCurve b₁ (clearHG1 Jac.zero) ∧ Jac.abs b₁ (clearHG1 Jac.zero) = 0 ∧
      (clearHG1 Jac.zero).isZero = true :=
  C17.clearH_G1_zero g1Model

/-- any triple with `z = 0` (any representation of the identity) goes to the identity -/
theorem g1_clearH_isZero (P : Jac Fq) (h : P.isZero = true) : (clearHG1 P).isZero = true := by
  have hz : P.z = 0 := (Iso.jac_isZero_iff P).mp h
  have hP : Jac.OnCurve b₁ P := Or.inl hz
  obtain ⟨hon, habs⟩ := g1_clearH P hP
  exact (C01.isZero_iff hon).mpr (by rw [habs, Jac.abs_of_z_eq_zero hz, smul_zero])

/-- subgroup clause, hypothesis `hexp` -/
theorem g1_clearH_inSub (hexp : ∀ g : (W b₁).Point, (0xd201000000010001 * Gen.r) • g = 0)
    (P : Jac Fq) (hP : Jac.OnCurve b₁ P) : Jac.InSub b₁ (clearHG1 P) :=
  ⟨(g1_clearH P hP).1, g1_clearH_killed hexp P hP⟩

/-- on a point that is already in the subgroup no hypothesis is needed -/
theorem g1_clearH_inSub_of_inSub (P : Jac Fq) (hP : Jac.InSub b₁ P) : Jac.InSub b₁ (clearHG1 P) :=
  ⟨(g1_clearH P hP.1).1, by rw [(g1_clearH P hP.1).2]; exact killed_nsmul hP.2 _⟩

/-! ## G2 -/

/-- **C17, G2**: `clear_h(P) = [h_eff] P` (`h_eff = 3(x²−1)h₂`, the 636-bit RFC 9380 constant) for
    every point `P` of `E'(Fq2)` -/
theorem g2_clearH (P : Jac Fq2) (hP : Jac.OnCurve b₂ P) :
    Jac.OnCurve b₂ (clearHG2 P) ∧ Jac.abs b₂ (clearHG2 P) = hEffG2 • Jac.abs b₂ P :=
  PP.g2_clearH P hP

/-- additive -/
theorem g2_clearH_add (P Q : Jac Fq2) (hP : Jac.OnCurve b₂ P) (hQ : Jac.OnCurve b₂ Q) :
    Jac.abs b₂ (clearHG2 (P.add Q)) = Jac.abs b₂ (clearHG2 P) + Jac.abs b₂ (clearHG2 Q) :=
  C17.clearH_G2_add g2Model P Q hP hQ

/-- identity to identity -/
theorem g2_clearH_zero :
    Jac.OnCurve b₂ (clearHG2 Jac.zero) ∧ Jac.abs b₂ (clearHG2 Jac.zero) = 0 ∧
      (clearHG2 Jac.zero).isZero = true :=
  C17.clearH_G2_zero g2Model

theorem g2_clearH_isZero (P : Jac Fq2) (h : P.isZero = true) : (clearHG2 P).isZero = true := by
  have hz : P.z = 0 := (Iso.jac_isZero_iff P).mp h
  have hP : Jac.OnCurve b₂ P := Or.inl hz
  obtain ⟨hon, habs⟩ := g2_clearH P hP
  exact (C01.isZero_iff hon).mpr (by rw [habs, Jac.abs_of_z_eq_zero hz, smul_zero])

/-- subgroup clause, hypothesis `hord` -/
theorem g2_clearH_inSub (hord : ∀ g : (W b₂).Point, (Gen.G2_COFACTOR * Gen.r) • g = 0)
    (P : Jac Fq2) (hP : Jac.OnCurve b₂ P) : Jac.InSub b₂ (clearHG2 P) :=
  ⟨(g2_clearH P hP).1, g2_clearH_killed hord P hP⟩

theorem g2_clearH_inSub_of_inSub (P : Jac Fq2) (hP : Jac.InSub b₂ P) : Jac.InSub b₂ (clearHG2 P) :=
  ⟨(g2_clearH P hP.1).1, by rw [(g2_clearH P hP.1).2]; exact killed_nsmul hP.2 _⟩

/-- the constants -/
theorem hEffG1_val : hEffG1 = Gen.BLS_X + 1 := C17.hEffG1_eq
theorem hEffG2_val : hEffG2 = 3 * (Gen.BLS_X ^ 2 - 1) * Gen.G2_COFACTOR := C17.hEffG2_eq

end PP.C17Inst
