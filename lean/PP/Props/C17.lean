/-
C17.  "For every point P of the full curve group - not only of the order-r subgroup - cofactor
clearing returns [h_eff]P with h_eff = 0xd201000000010001 for G1 and the 636-bit RFC 9380 constant
3(x^2-1)h2 for G2, and the result lies in the order-r subgroup.  It is therefore additive and maps
the identity to the identity."

Everything is relative to a `GroupModel` (the C01 theorems: the Jacobian formulas of the model,
including the doubling / cancellation / identity branches met on low-order points, implement the
group law on every valid point).  The exponents are obtained by running the model's own chain
interpreter on the EXTRACTED programs over ℤ inside the kernel (`PP.Proofs.Chains`).

What is a hypothesis, visibly, in the subgroup clauses: the group order / exponent of the curve
(`#E'(Fq2) = h2 · r`, resp. `exp E(Fq) ∣ (1 − x) · r`), which is a hypothesis HERE and is PROVED in PP.Props.CurveOrder (`g1_exponent`, `g2_order`).
-/
import PP.Proofs.Chains

namespace PP
namespace C17

open Chains

/-- G1 effective cofactor `1 − x`. -/
abbrev hEffG1 : ℕ := 0xd201000000010001

/-- G2 effective cofactor (RFC 9380 §8.8.2), 636 bits. -/
abbrev hEffG2 : ℕ :=
  0xbc69f08f2ee75b3584c6a0ea91b352888e2a8e9145ad7689986ff031508ffe1329c2f178731db956d82bf015d1212b02ec0ec69d7477c1ae954cbc06689f6a359894c0adebbf6b4e8020005aaa95551

/-- the G2 constant is `3 (x² − 1) h₂` with `x`, `h₂` the constants extracted from the Rust source -/
theorem hEffG2_eq : hEffG2 = 3 * (Gen.BLS_X ^ 2 - 1) * Gen.G2_COFACTOR := h_eff_g2_eq

theorem hEffG2_bits : 2 ^ 635 ≤ hEffG2 ∧ hEffG2 < 2 ^ 636 := by decide +kernel

/-- the G1 constant is `|x| + 1 = 1 − x` -/
theorem hEffG1_eq : hEffG1 = Gen.BLS_X + 1 := h_eff_g1_eq

section generic
variable {F : Type} [Field F] [DecidableEq F] [FieldOps F] {G : Type} [AddCommGroup G]

/-- G1-style clearing `chain_z(P) + P`, over any group model: multiplication by `1 − x` on EVERY
valid point. -/
theorem clearH_G1_generic (M : GroupModel F G) (P : Jac F) (hP : M.ValidJ P) :
    M.ValidJ ((chainZ P).add P) ∧ M.absJ ((chainZ P).add P) = hEffG1 • M.absJ P := by
  obtain ⟨hv, ha⟩ := chainZ_smul M P hP
  refine ⟨M.add_valid _ _ hv hP, ?_⟩
  rw [M.add_abs _ _ hv hP, ha, ← succ_nsmul]

/-- G2-style clearing `chain_h2_eff(P)`, over any group model (`clearHG2` is this function at
`F := Fq2`): multiplication by `h_eff` on EVERY valid point. -/
theorem clearH_G2 (M : GroupModel F G) (P : Jac F) (hP : M.ValidJ P) :
    M.ValidJ (chainH2Eff P) ∧ M.absJ (chainH2Eff P) = hEffG2 • M.absJ P :=
  chainH2Eff_smul M P hP

/-- additivity of G2 clearing -/
theorem clearH_G2_add (M : GroupModel F G) (P Q : Jac F) (hP : M.ValidJ P) (hQ : M.ValidJ Q) :
    M.absJ (chainH2Eff (P.add Q)) = M.absJ (chainH2Eff P) + M.absJ (chainH2Eff Q) := by
  rw [(clearH_G2 M _ (M.add_valid P Q hP hQ)).2, (clearH_G2 M P hP).2, (clearH_G2 M Q hQ).2,
    M.add_abs P Q hP hQ, smul_add]

/-- G2 clearing maps the identity to the identity -/
theorem clearH_G2_zero (M : GroupModel F G) :
    M.ValidJ (chainH2Eff (Jac.zero : Jac F)) ∧ M.absJ (chainH2Eff (Jac.zero : Jac F)) = 0 ∧
      (chainH2Eff (Jac.zero : Jac F)).isZero = true := by
  obtain ⟨hv, ha⟩ := clearH_G2 M Jac.zero M.zero_valid
  have h0 : M.absJ (chainH2Eff (Jac.zero : Jac F)) = 0 := by rw [ha, M.zero_abs, smul_zero]
  exact ⟨hv, h0, (M.isZero_iff _ hv).2 h0⟩

/-- `h₂ ∣ h_eff` -/
theorem h2_dvd_heff : Gen.G2_COFACTOR ∣ hEffG2 :=
  ⟨3 * (Gen.BLS_X ^ 2 - 1), by decide +kernel⟩

/-- Subgroup clause for G2, from the curve order `#E'(Fq2) = h₂ · r` (HYPOTHESIS `hord`): the
cleared point is killed by `r`. -/
theorem clearH_G2_in_subgroup (M : GroupModel F G)
    (hord : ∀ g : G, (Gen.G2_COFACTOR * Gen.r) • g = 0) (P : Jac F) (hP : M.ValidJ P) :
    Gen.r • M.absJ (chainH2Eff P) = 0 := by
  obtain ⟨k, hk⟩ := h2_dvd_heff
  rw [(clearH_G2 M P hP).2, hk, mul_smul, ← mul_smul, mul_comm Gen.r]
  exact hord _

end generic

/-! ### G1, at the type where `clearHG1` lives -/

section g1
variable {G : Type} [AddCommGroup G]

/-- **C17 for G1**: `clear_h` is `P ↦ [0xd201000000010001] P` on every valid point of the curve. -/
theorem clearH_G1 (M : GroupModel Fq G) (P : Jac Fq) (hP : M.ValidJ P) :
    M.ValidJ (clearHG1 P) ∧ M.absJ (clearHG1 P) = (0xd201000000010001 : ℕ) • M.absJ P :=
  clearH_G1_generic M P hP

/-- additivity of G1 clearing -/
theorem clearH_G1_add (M : GroupModel Fq G) (P Q : Jac Fq) (hP : M.ValidJ P) (hQ : M.ValidJ Q) :
    M.absJ (clearHG1 (P.add Q)) = M.absJ (clearHG1 P) + M.absJ (clearHG1 Q) := by
  rw [(clearH_G1 M _ (M.add_valid P Q hP hQ)).2, (clearH_G1 M P hP).2, (clearH_G1 M Q hQ).2,
    M.add_abs P Q hP hQ, smul_add]

/-- G1 clearing maps the identity to the identity -/
theorem clearH_G1_zero (M : GroupModel Fq G) :
    M.ValidJ (clearHG1 Jac.zero) ∧ M.absJ (clearHG1 Jac.zero) = 0 ∧
      (clearHG1 Jac.zero).isZero = true := by
  obtain ⟨hv, ha⟩ := clearH_G1 M Jac.zero M.zero_valid
  have h0 : M.absJ (clearHG1 Jac.zero) = 0 := by rw [ha, M.zero_abs, smul_zero]
  exact ⟨hv, h0, (M.isZero_iff _ hv).2 h0⟩

/-- `1 − x` is NOT a multiple of the G1 cofactor `h₁ = (x − 1)² / 3`: the G1 subgroup clause does
not follow from the group order `h₁ · r` alone; it needs the exponent of the (non-cyclic) cofactor
part, i.e. `exp E(Fq) ∣ (1 − x) · r`. -/
theorem h1_not_dvd_heff : ¬ Gen.G1_COFACTOR ∣ hEffG1 := by
  intro h
  have hle := Nat.le_of_dvd (by decide) h
  exact absurd hle (by decide +kernel)

/-- Subgroup clause for G1, from the HYPOTHESIS `hexp` that the exponent of the curve group divides
`(1 − x) · r`. -/
theorem clearH_G1_in_subgroup_of (M : GroupModel Fq G)
    (hexp : ∀ g : G, (0xd201000000010001 * Gen.r) • g = 0) (P : Jac Fq) (hP : M.ValidJ P) :
    Gen.r • M.absJ (clearHG1 P) = 0 := by
  rw [(clearH_G1 M P hP).2, ← mul_smul, mul_comm]
  exact hexp _

end g1

/-! ### C15 support: the two field chains compute the stated powers -/

theorem chain_pm3div4 (a : Fq) : chainPm3div4 a = a ^ ((Gen.q - 3) / 4) := chainPm3div4_eq a

theorem chain_p2m9div16 {F : Type} [Field F] [FieldOps F] [LawfulFieldOps F] [Inhabited F] (a : F) :
    chainFn0 fieldChainOps Gen.CHAIN_P2M9DIV16 a = a ^ ((Gen.q ^ 2 - 9) / 16) :=
  chainP2m9div16_generic a

/-! ### non-vacuity: the exponent functions evaluate on the extracted chains -/

example : natExp [(0, 1, 0), (1, 1, 3), (2, 1, 0)] = 9 := by decide
example : intExp0 Gen.CHAIN_Z = 0xd201000000010000 := by decide +kernel
example : intExp Gen.CHAIN_Z Gen.CHAIN_H2_EFF = (hEffG2 : ℤ) := by decide +kernel
example : natExpO Gen.CHAIN_PM3DIV4 = some ((Gen.q - 3) / 4) := by decide +kernel

end C17
end PP
