/-
C16 — the isogenies E' → E (degree 11, G1) and E2' → E2 (degree 3, G2) of the hash-to-curve pipeline.

Model: `PP.evalIso`, `PP.iso11`, `PP.iso3` in PP/Model/Map.lean (mirror of `eval_iso`,
src/bls12_381/isogeny/mod.rs) with the coefficient tables extracted from isogeny/g1.rs, g2.rs.
Spec: the rational map `(x, y) ↦ (XN(x)/XD(x), y·YN(x)/YD(x))` given by these tables
(`IsoPoly.evalP` is polynomial evaluation, constant term first).  The text of RFC 9380 appendix E is
not available offline: the tables are tied to it by the structural theorems below (they define an
isogeny-shaped map from `E'` to `E` of the right degrees) and by the repository's own known-answer
vectors, which the model reproduces (`example`s at the end).

What is proved, for every input triple (every projective representation):
* `isoZpows_spec`, `isoMapval_spec`, `isoMapval_affine` — the table of powers of `z` and the four
  homogenised Horner evaluations;
* `iso11_affine` / `iso3_affine` — on a finite point that is not a pole, the output is finite and
  its affine coordinates are the image of the affine input under the rational map;
* `iso11_identity`, `iso11_kernel`, `iso11_isZero_iff` (and `iso3_…`) — the identity and the kernel
  points (the poles of the map) are sent to the identity, and nothing else is;
* `iso11_isZero_iff_ker` (and `iso3_…`) — the poles are the roots of the kernel polynomial `K`
  (`XD = K²`, `YD = K³`; degree 5 with five rational roots for G1, `K = x + 6 − 6u` for G2);
* `iso11_neg` (and `iso3_…`) — compatibility with the model's `negate`;
* `iso11_homogeneous` (and `iso3_…`) — representation independence: rescaling the input by `l`
  rescales the output by an explicit power of `l`;
* `iso11_onCurve` / `iso3_onCurve` — points of `E'` are sent to points of `E`, from the polynomial
  identity `(x³+A'x+B')·YN²·XD³ = (XN³+b·XD³)·YD²` checked by the kernel on the coefficient lists
  (`Iso.iso11_ident`, `Iso.iso3_ident`).

Carried by theorems elsewhere (PP.Props.C16Hom.iso3_hom, PP.Props.C16Hom11.iso11_hom), not in this file: the homomorphism law `iso (P + Q) = iso P + iso Q` (with `+` the group
law of `E'`, which has `a ≠ 0`).  The general fact (a non-constant morphism of elliptic curves
preserving the identity is a homomorphism) is not in Mathlib; both laws are proved by direct algebraic
certificates (degree-11 map: evaluation of the chord identity on a 56 x 56 grid in the kernel).

The `iso3` theorems take the field structure of `Fq2` as an instance argument together with
`Iso.Fq2FieldAgrees` (its `+ * 0 1 -` are the model's; `⟨rfl, rfl, rfl, rfl, rfl⟩` for a structure built
on the model's operations), because `Field Fq2` is established in another module.
-/
import PP.Proofs.Iso

namespace PP
namespace C16
open IsoPoly Iso

/-! ## the evaluation procedure, any field -/

section generic
variable {F : Type} [Field F] [FieldOps F] [LawfulFieldOps F]

/-- every entry of the `zpows` table that the code reads (`j ≤ n - 2`, `n = coeffs[2].len() ≤ 16`)
    is `z^(2(j+1))` -/
theorem isoZpows_spec (z : F) (n j : Nat) (hj : j < 15) (h : j + 2 ≤ n ∨ j ≤ 1) :
    (isoZpows z n).getD j 0 = z ^ (2 * (j + 1)) :=
  Iso.isoZpows_spec z n j hj h

/-- one map value: `Σ_{j ≤ d} cs[j]·xʲ·z^(2(d−j))`, `d = cs.length − 1` -/
theorem isoMapval_spec (z x : F) (n : Nat) (cs : List F) (hn : cs.length ≤ n) (h16 : cs.length ≤ 16) :
    isoMapval (isoZpows z n) x cs =
      ∑ j ∈ Finset.range cs.length, cs.getD j 0 * x ^ j * z ^ (2 * (cs.length - 1 - j)) := by
  rw [Iso.isoMapval_spec z x n cs hn h16, hEval_eq_sum]
  exact Finset.sum_congr rfl (fun j _ => by rw [pow_mul])

/-- for `z ≠ 0` it is `z^(2d)` times the value of the polynomial at the affine abscissa -/
theorem isoMapval_affine (z x : F) (hz : z ≠ 0) (n : Nat) (cs : List F) (hn : cs.length ≤ n)
    (h16 : cs.length ≤ 16) :
    isoMapval (isoZpows z n) x cs = z ^ (2 * (cs.length - 1)) * evalP cs (x / z ^ 2) := by
  rw [Iso.isoMapval_spec z x n cs hn h16, hEval_eq_evalP cs x (pow_ne_zero 2 hz), pow_mul]

end generic

/-! ## G1: `iso11`, from `E' : y² = x³ + A'x + B'` to `E : y² = x³ + 4` over `Fq` -/

/-- the target coefficient is 4 -/
theorem g1_b : g1Codec.b = 4 := by decide +kernel

/-- the rational map: a finite point that is not a pole goes to the finite point
    `(XN(x)/XD(x), y·YN(x)/YD(x))`, `(x, y) = (X/Z², Y/Z³)` -/
theorem iso11_affine (p : Jac Fq) (hz : p.z ≠ 0)
    (hxd : evalP iso11XDen (p.x / p.z ^ 2) ≠ 0) (hyd : evalP iso11YDen (p.x / p.z ^ 2) ≠ 0) :
    (iso11 p).z ≠ 0 ∧
    (iso11 p).x / (iso11 p).z ^ 2 =
      evalP iso11XNum (p.x / p.z ^ 2) / evalP iso11XDen (p.x / p.z ^ 2) ∧
    (iso11 p).y / (iso11 p).z ^ 3 =
      (p.y / p.z ^ 3) * evalP iso11YNum (p.x / p.z ^ 2) / evalP iso11YDen (p.x / p.z ^ 2) :=
  iso_affine iso11_shape p hz hxd hyd

/-- the identity goes to the identity -/
theorem iso11_identity (p : Jac Fq) (h : p.isZero = true) : (iso11 p).isZero = true := by
  rw [jac_isZero_iff] at h ⊢
  exact iso_identity p h

/-- kernel points (the poles of the rational map) go to the identity -/
theorem iso11_kernel (p : Jac Fq) (hz : p.isZero = false)
    (h : evalP iso11XDen (p.x / p.z ^ 2) = 0 ∨ evalP iso11YDen (p.x / p.z ^ 2) = 0) :
    (iso11 p).isZero = true := by
  rw [jac_isZero_iff]
  refine iso_kernel iso11_shape p ?_ h
  intro h0
  rw [(jac_isZero_iff p).mpr h0] at hz
  exact Bool.noConfusion hz

/-- … and nothing else does -/
theorem iso11_isZero_iff (p : Jac Fq) :
    (iso11 p).isZero = true ↔
      p.isZero = true ∨ evalP iso11XDen (p.x / p.z ^ 2) = 0 ∨ evalP iso11YDen (p.x / p.z ^ 2) = 0 := by
  rw [jac_isZero_iff, jac_isZero_iff]
  exact iso_z_eq_zero_iff iso11_shape p

/-- the poles are the roots of the kernel polynomial `K` (`XD = K²`, `YD = K³`) -/
theorem iso11_isZero_iff_ker (p : Jac Fq) :
    (iso11 p).isZero = true ↔ p.isZero = true ∨ evalP iso11Ker (p.x / p.z ^ 2) = 0 := by
  rw [iso11_isZero_iff, pole_iff iso11_xden_ker iso11_yden_ker]

/-- compatibility with negation (the model's `negate`, all cases) -/
theorem iso11_neg (p : Jac Fq) : iso11 p.neg = (iso11 p).neg :=
  iso_neg iso11_shape p

/-- representation independence: `(l²X, l³Y, lZ) ↦ (μ²X₃, μ³Y₃, μZ₃)` with `μ = l^55` -/
theorem iso11_homogeneous (p : Jac Fq) (l : Fq) :
    iso11 ⟨l ^ 2 * p.x, l ^ 3 * p.y, l * p.z⟩ =
      ⟨(l ^ 55) ^ 2 * (iso11 p).x, (l ^ 55) ^ 3 * (iso11 p).y, l ^ 55 * (iso11 p).z⟩ := by
  have e : 2 * iso11XDen.length + 2 * iso11YNum.length + 1 = 55 := by
    obtain ⟨_, h2, h3, _⟩ := iso11_lengths
    rw [h2, h3]
  have h := iso_homogeneous iso11_shape p l
  rw [e] at h
  exact h

/-- … hence the same point: same finiteness, same affine coordinates -/
theorem iso11_homogeneous_affine (p : Jac Fq) (l : Fq) (hl : l ≠ 0) :
    ((iso11 ⟨l ^ 2 * p.x, l ^ 3 * p.y, l * p.z⟩).z = 0 ↔ (iso11 p).z = 0) ∧
    (iso11 ⟨l ^ 2 * p.x, l ^ 3 * p.y, l * p.z⟩).x / (iso11 ⟨l ^ 2 * p.x, l ^ 3 * p.y, l * p.z⟩).z ^ 2 =
      (iso11 p).x / (iso11 p).z ^ 2 ∧
    (iso11 ⟨l ^ 2 * p.x, l ^ 3 * p.y, l * p.z⟩).y / (iso11 ⟨l ^ 2 * p.x, l ^ 3 * p.y, l * p.z⟩).z ^ 3 =
      (iso11 p).y / (iso11 p).z ^ 3 :=
  iso_homogeneous_affine iso11_shape p l hl

/-- points of `E'` (any representative; any `z = 0` triple is the identity) go to points of `E` -/
theorem iso11_onCurve (p : Jac Fq)
    (hp : p.z = 0 ∨ p.y ^ 2 = p.x ^ 3 + g1EllpA * p.x * p.z ^ 4 + g1EllpB * p.z ^ 6) :
    (iso11 p).y ^ 2 = (iso11 p).x ^ 3 + g1Codec.b * (iso11 p).z ^ 6 :=
  iso_onCurve iso11_shape _ _ _ iso11_ident.eval p hp

/-! ## G2: `iso3`, from `E2' : y² = x³ + 240u·x + 1012(1+u)` to `E2 : y² = x³ + 4(1+u)` over `Fq2` -/

/-- the curve constants: `A' = 240u`, `B' = 1012(1+u)`, `b = 4(1+u)` -/
theorem g2_consts : g2EllpA = ⟨0, Zp.ofNat 240⟩ ∧ g2EllpB = ⟨Zp.ofNat 1012, Zp.ofNat 1012⟩ ∧
    g2Codec.b = ⟨Zp.ofNat 4, Zp.ofNat 4⟩ := by decide +kernel

section g2
variable [fld : Field Fq2] [LawfulFieldOps Fq2]

theorem iso3_affine (ag : Fq2FieldAgrees fld) (p : Jac Fq2) (hz : p.z ≠ 0)
    (hxd : evalP iso3XDen (p.x / p.z ^ 2) ≠ 0) (hyd : evalP iso3YDen (p.x / p.z ^ 2) ≠ 0) :
    (iso3 p).z ≠ 0 ∧
    (iso3 p).x / (iso3 p).z ^ 2 =
      evalP iso3XNum (p.x / p.z ^ 2) / evalP iso3XDen (p.x / p.z ^ 2) ∧
    (iso3 p).y / (iso3 p).z ^ 3 =
      (p.y / p.z ^ 3) * evalP iso3YNum (p.x / p.z ^ 2) / evalP iso3YDen (p.x / p.z ^ 2) := by
  rw [iso3_eq]
  fq2_align ag
  exact iso_affine iso3_shape p hz hxd hyd

theorem iso3_identity (ag : Fq2FieldAgrees fld) (p : Jac Fq2) (h : p.isZero = true) :
    (iso3 p).isZero = true := by
  rw [iso3_eq]
  fq2_align ag
  rw [jac_isZero_iff] at h ⊢
  exact iso_identity p h

theorem iso3_kernel (ag : Fq2FieldAgrees fld) (p : Jac Fq2) (hz : p.isZero = false)
    (h : evalP iso3XDen (p.x / p.z ^ 2) = 0 ∨ evalP iso3YDen (p.x / p.z ^ 2) = 0) :
    (iso3 p).isZero = true := by
  rw [iso3_eq]
  fq2_align ag
  rw [jac_isZero_iff]
  have hz' := mt (jac_isZero_iff p).mpr (by rw [hz]; exact Bool.false_ne_true)
  exact iso_kernel iso3_shape p hz' h

theorem iso3_isZero_iff (ag : Fq2FieldAgrees fld) (p : Jac Fq2) :
    (iso3 p).isZero = true ↔
      p.isZero = true ∨ evalP iso3XDen (p.x / p.z ^ 2) = 0 ∨ evalP iso3YDen (p.x / p.z ^ 2) = 0 := by
  rw [iso3_eq]
  fq2_align ag
  rw [jac_isZero_iff, jac_isZero_iff]
  exact iso_z_eq_zero_iff iso3_shape p

theorem iso3_isZero_iff_ker (ag : Fq2FieldAgrees fld) (p : Jac Fq2) :
    (iso3 p).isZero = true ↔ p.isZero = true ∨ evalP iso3Ker (p.x / p.z ^ 2) = 0 := by
  have hx := iso3_xden_ker
  have hy := iso3_yden_ker
  rw [iso3_isZero_iff ag]
  fq2_align ag
  rw [pole_iff hx hy]

theorem iso3_neg (ag : Fq2FieldAgrees fld) (p : Jac Fq2) : iso3 p.neg = (iso3 p).neg := by
  simp only [iso3_eq]
  fq2_align ag
  exact iso_neg iso3_shape p

/-- representation independence: `(l²X, l³Y, lZ) ↦ (μ²X₃, μ³Y₃, μZ₃)` with `μ = l^15` -/
theorem iso3_homogeneous (ag : Fq2FieldAgrees fld) (p : Jac Fq2) (l : Fq2) :
    iso3 ⟨l ^ 2 * p.x, l ^ 3 * p.y, l * p.z⟩ =
      ⟨(l ^ 15) ^ 2 * (iso3 p).x, (l ^ 15) ^ 3 * (iso3 p).y, l ^ 15 * (iso3 p).z⟩ := by
  have e : 2 * iso3XDen.length + 2 * iso3YNum.length + 1 = 15 := by
    obtain ⟨_, h2, h3, _⟩ := iso3_lengths
    rw [h2, h3]
  simp only [iso3_eq]
  fq2_align ag
  have h := iso_homogeneous iso3_shape p l
  rw [e] at h
  exact h

theorem iso3_homogeneous_affine (ag : Fq2FieldAgrees fld) (p : Jac Fq2) (l : Fq2) (hl : l ≠ 0) :
    ((iso3 ⟨l ^ 2 * p.x, l ^ 3 * p.y, l * p.z⟩).z = 0 ↔ (iso3 p).z = 0) ∧
    (iso3 ⟨l ^ 2 * p.x, l ^ 3 * p.y, l * p.z⟩).x / (iso3 ⟨l ^ 2 * p.x, l ^ 3 * p.y, l * p.z⟩).z ^ 2 =
      (iso3 p).x / (iso3 p).z ^ 2 ∧
    (iso3 ⟨l ^ 2 * p.x, l ^ 3 * p.y, l * p.z⟩).y / (iso3 ⟨l ^ 2 * p.x, l ^ 3 * p.y, l * p.z⟩).z ^ 3 =
      (iso3 p).y / (iso3 p).z ^ 3 := by
  simp only [iso3_eq]
  fq2_align ag
  exact iso_homogeneous_affine iso3_shape p l hl

theorem iso3_onCurve (ag : Fq2FieldAgrees fld) (p : Jac Fq2)
    (hp : p.z = 0 ∨ p.y ^ 2 = p.x ^ 3 + g2EllpA * p.x * p.z ^ 4 + g2EllpB * p.z ^ 6) :
    (iso3 p).y ^ 2 = (iso3 p).x ^ 3 + g2Codec.b * (iso3 p).z ^ 6 := by
  have hid := iso3_ident
  rw [iso3_eq]
  fq2_align ag
  exact iso_onCurve iso3_shape _ _ _ hid.eval p hp

end g2

/-! ## non-vacuity and known answers (kernel computation on the executable model) -/

/-- an SSWU output is a finite point of `E'`; its image is a finite point of `E` -/
example : (osswuG1 0).z ≠ 0 ∧
    (osswuG1 0).y ^ 2 = (osswuG1 0).x ^ 3 + g1EllpA * (osswuG1 0).x * (osswuG1 0).z ^ 4
      + g1EllpB * (osswuG1 0).z ^ 6 := by decide +kernel
example : (iso11 (osswuG1 0)).z ≠ 0 ∧
    (iso11 (osswuG1 0)).y ^ 2 = (iso11 (osswuG1 0)).x ^ 3 + 4 * (iso11 (osswuG1 0)).z ^ 6 := by
  decide +kernel

/-- a rational kernel point of the 11-isogeny: on `E'`, finite, sent to the identity -/
example :
    let k : Jac Fq := ⟨Zp.ofNat 0x140d41735b10ce710727cd9356905701a2b866b803baa468948b7f423ddcc560c9a8f1cd5f8ed4297c37464fb8bfe4a7,
      Zp.ofNat 0xdf4b0aa4097bb74ca3d1ed53ee02a7f26cc3caeed5ea50b84886a1e987a6fd65359b2845b348d5f4fac4a7611e9d869, 1⟩
    k.y ^ 2 = k.x ^ 3 + g1EllpA * k.x * k.z ^ 4 + g1EllpB * k.z ^ 6 ∧ k.isZero = false ∧
      evalP iso11XDen (k.x / k.z ^ 2) = 0 ∧ (iso11 k).isZero = true := by decide +kernel

/-- same over `Fq2`, written with the model's `*` and `+` only -/
example : ∃ p, osswuG2 0 = some p ∧ p.isZero = false ∧
    p.y * p.y = p.x * p.x * p.x + g2EllpA * p.x * (p.z * p.z * (p.z * p.z))
      + g2EllpB * (p.z * p.z * p.z * (p.z * p.z * p.z)) ∧
    (iso3 p).isZero = false ∧
    (iso3 p).y * (iso3 p).y = (iso3 p).x * (iso3 p).x * (iso3 p).x
      + g2Codec.b * ((iso3 p).z * (iso3 p).z * (iso3 p).z * ((iso3 p).z * (iso3 p).z * (iso3 p).z)) :=
  ⟨(osswuG2 0).getD default, by decide +kernel⟩

/-! the six known-answer vectors of src/bls12_381/isogeny/tests.rs (`Fq::from_repr` limbs read as
    canonical integers), reproduced by the model -/

example : iso11 ⟨0, 0, 0⟩ = ⟨0, 0, 0⟩ := by decide +kernel
example : iso11 ⟨1, 1, 1⟩ =
    ⟨Zp.ofNat 0x10fc4a3ba5f48e079661fcf22bedfddb9e9c31f30a607c8bcaab8cc9ec4893f21c5429e2f4b8bc35b129fab9bef88edd,
     Zp.ofNat 0x11eab1145b95cb9f538ebef63fb145be43e2d5f172257d50c8890dd0987b134f1533c0f27b46c02faf52c5fbd490f370,
     Zp.ofNat 0x12514e630a486abb5f3cc0ed1bd3f0eec75152c6f387d070678c5bf3ad4090b4620b0af2483ad30f7441c43513e11f49⟩ := by decide +kernel
example : iso11
    ⟨Zp.ofNat 0x1789051238d025e347ff3364428c59b3c40dc338ca2852312365b1fb1c8a73bfa384a7ab165def35f6adc4118ae592ab,
     Zp.ofNat 0x88cb5712bf819248e76c82bd4a29d210459ed10f1f8abb106f6ff472fa7276e03f604e47bc51aa91a635634e9cced27,
     Zp.ofNat 0x64bb4b501466b2af9698f57510273fbbdc3405df9ff0a3b683295bcaed54202aced7fec7a63fe650416411fe2e97d06⟩ =
    ⟨Zp.ofNat 0xf34c6cea2fc01990db61b8544450f539ddcd540391389ad2d1aff4e4ae283791771cef34519b6f2a51741657e71601d,
     Zp.ofNat 0x19284e38020f60721d32499c9f462716f1c66e0e000b567372ef2afff097ad4fd3a592a3ffc2c77cd1d70b485ea22464,
     Zp.ofNat 0x16f4243bf7230576c27121d0eb3d5efcb6602e02d0d7ac4d47f7edb38429108ab7f34ad188fdc105583946b46d152c9f⟩ := by decide +kernel
example : iso3 ⟨0, 0, 0⟩ = ⟨0, 0, 0⟩ := by decide +kernel
example : iso3 ⟨1, 1, 1⟩ =
    ⟨⟨Zp.ofNat 0x1439b899baf1b35b8fc02d1bfb73bf5231b21e4af64b0e94de7b4e7d31a614c6c285c71b6d7a38e357c6555579807bca, Zp.ofNat 0xe725f493c63801cd464b281b39bd1ccfeecf110f9110a6a55c5ca596c9b3369665f8e3829a071c6f58daaab358a307b⟩,
     ⟨Zp.ofNat 0x4d0ca6dbecbd55ef176e62b3bde9b4454f9a5b05305ae2371ec98c879891123221fda12b88ad097a72f3db7cb8405a4, Zp.ofNat 0x124c9ad43b6cf79bfbf7043de3811ad0761b0f37a1e26286b0e977c69aa274524e79097a56dc4bd9e1b3626ab65e39a9⟩,
     ⟨Zp.ofNat 0x1a0111ea397fe69a4b1ba7b6434bacd764774b84f38512bf6730d2a0f6b0f6241eabfffeb153ffffb9fefffffffebb2a, Zp.ofNat 0x65b2⟩⟩ := by decide +kernel
example : iso3
    ⟨⟨Zp.ofNat 0x530990b2b3e9a8a3f3f7d07e4c40a9389b3941228dae354d52d2a45caca6edac4c8890b30d528eb0018c03388164247, Zp.ofNat 0x117d0dba9f17843987933ab312f66f88f974e31a71e5fe1f11c92e91687441add6a6501c1871b9066b90db064d0030e9⟩,
     ⟨Zp.ofNat 0x11b94175e3be4de8967de59661e37bb50c7d97874f6f026da9c3c810a96f8ca7ad55ed81ecc390ff6dee4915e87b601a, Zp.ofNat 0x35eea1ab1a2a087f8c75b4c8b66c965e8722180e02d081817cf622d5607fbca41b7f7263e23c28e53563b5cfa722ba8⟩,
     ⟨Zp.ofNat 0x189add484077dd45c41aa271acd3a3a14d197aa97c5317f553bf87ae6e302bd362d7bae1a74336dc71f8d78673dbfa39, Zp.ofNat 0xe613ba7c4916c20b36b52b4a869619396b99fa5eb4f47c8c15f3a4db5bc86a73a5d62187b0133109a214bfcea21674f⟩⟩ =
    ⟨⟨Zp.ofNat 0x181403b14aa1932755213880b7ed140d678934e396004f81db71788e6d1c651237932278669819e7f119e132b7ebd22c, Zp.ofNat 0x13f21dc8a4dfcc1a8b649eeb97f5676ef6b6f9af2f2fc2582e8422b082fc8c69bdaab7e27633f5d2daac25bd8310aef3⟩,
     ⟨Zp.ofNat 0x9cab53c88c263bd95d5421d9c9465de6a2ce7736962cd7c3b97d6bb83c22918d9ef23f135188a36be1f08d76520ec2a, Zp.ofNat 0x6299d091ec0ed1197df98a239aa957d669c0d885b42452ac53c7316655326ea0b182f682ab747433e6a004356660064⟩,
     ⟨Zp.ofNat 0x644ae14e9341fb121d7ae073e479fd2d6e07a3e0ca5733f88193c7dd6189374c00a671fa8fc185e518e02aaa358acd, Zp.ofNat 0x14474088f5b1d2e341def4997b2fc93f82d08553b1dacca2491857011bcac282de7d5d396f73c2369bed7fa96e783e15⟩⟩ := by decide +kernel

end C16
end PP
