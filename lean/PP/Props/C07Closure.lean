/-
PROPERTY C07, CLOSURE OF THE SAFE API — the statements that `PP/Props/C07.lean` left to the reader as
compositions (`inSub_of_inSubgroup`, `smul_result_inSub`, `msm_result_inSub` + C02 / C10 / C04 / C19),
stated and proved per source of points:

  "Every point handed out by the safe public API - generators, random sampling, results of arithmetic,
   scalar and multi-scalar multiplication on valid points, successfully decoded or deserialized points,
   hash and map outputs - satisfies the curve equation and is annihilated by r."

The invariant is `Jac.InSub b P := Jac.OnCurve b P ∧ r • Jac.abs b P = 0` (projective) and
`Aff.InSub b A := Aff.OnCurve b A ∧ r • Aff.abs b A = 0` (affine), as in C07.

Part 1 (RANDOM SAMPLING).  `CurveProjective::random` is translated to `R.Jac.random`, proved equal to
  `randomSpec` (`PP/Proofs/GenRest.lean`: a loop over attempts; `fuel` bounds their number, the RNG is an
  arbitrary function).  WHENEVER the loop returns a point — any fuel, any RNG — the point is the cofactor
  multiple of a candidate of `get_point_from_x`, is NOT the identity, is on the curve and is killed by `r`.
  A candidate whose cofactor multiple is the identity (and an `x` without a point) is skipped: the loop
  continues with the next RNG state.  The result does not depend on the bound `fuel` once it is reached.
Part 2 (SCALAR MULTIPLICATION).  `mul_bits`, `mul`, `mul_assign`, `mul_precomp_3`, `mul_precomp_256` with the
  library's tables (every 256-bit `k`), wNAF with any window `2..=22` and both staging orders (`k < 2^255`).
Part 3 (MULTI-SCALAR MULTIPLICATION).  `sum_of_products`, `sum_of_products_pippinger` with an explicit
  window `1..=20`, `sum_of_products_precomp_256` with the library's tables.
Part 4 (DECODED / DESERIALIZED POINTS).  The CHECKED decoders `into_affine` (compressed and uncompressed)
  and `SerDes::deserialize` (affine and projective, both flags).  The UNCHECKED decoders
  `into_affine_unchecked` are outside the invariant by design (they are how off-subgroup points enter); what
  holds for them is stated: the compressed one returns curve points, and each checked decoder is the
  unchecked one followed by the tests.
Part 5 (BATCH NORMALISATION, CONVERSIONS) and Part 6 (HASH / MAP OUTPUTS, GENERATORS): re-exports.

Generic statements are over any field `F` with lawful model operations and any `b` with `ShortW b`; the
sections G1 / G2 instantiate them at `g1Codec.b = 4` over `Fq` and `g2Codec.b = 4(1+u)` over `Fq2`, with
the curve orders of `PP.Props.CurveOrder` (no hypothesis about the group order is left).
-/
import PP.Props.CurveOrder
import PP.Props.C02Inst
import PP.Props.C10Inst
import PP.Props.C19Inst
import PP.Props.GenRest

set_option linter.unusedSectionVars false
set_option linter.unusedVariables false

namespace PP.C07Closure

open PP PP.Gen PP.GenRestLemmas WeierstrassCurve.Affine

/-! ## Part 1: random sampling -/

section random_generic
variable {F : Type} [Field F] [DecidableEq F] [FieldOps F] [LawfulFieldOps F] [SqrtOps F]
variable {b : F} [ShortW b] {Rng : Type}
variable (baseRandom : Rng → Rng × F) (nextU32 : Rng → Rng × Nat) (cof : Aff F → Jac F)

/-- one attempt that finds no point (`get_point_from_x` returned `None`): the loop goes on with the RNG
    state left by the two draws -/
theorem randomSpec_retry_none (fuel : ℕ) (rng : Rng)
    (h : Aff.getPointFromX b (baseRandom rng).2 ((nextU32 (baseRandom rng).1).2 % 2 != 0) = none) :
    randomSpec baseRandom nextU32 b cof (fuel + 1) rng
      = randomSpec baseRandom nextU32 b cof fuel (nextU32 (baseRandom rng).1).1 := by
  rw [randomSpec]; simp only [h]

/-- **the identity is never returned**: one attempt whose candidate has the identity as its cofactor
    multiple (`if !p.is_zero() { return p; }` fails): the loop goes on -/
theorem randomSpec_retry_identity (fuel : ℕ) (rng : Rng) {p : Aff F}
    (h : Aff.getPointFromX b (baseRandom rng).2 ((nextU32 (baseRandom rng).1).2 % 2 != 0) = some p)
    (hz : (cof p).isZero = true) :
    randomSpec baseRandom nextU32 b cof (fuel + 1) rng
      = randomSpec baseRandom nextU32 b cof fuel (nextU32 (baseRandom rng).1).1 := by
  rw [randomSpec]; simp only [h, hz, if_true]

/-- one attempt whose candidate has a non-identity cofactor multiple: that multiple is returned, with the
    RNG state left by the two draws -/
theorem randomSpec_accept (fuel : ℕ) (rng : Rng) {p : Aff F}
    (h : Aff.getPointFromX b (baseRandom rng).2 ((nextU32 (baseRandom rng).1).2 % 2 != 0) = some p)
    (hz : (cof p).isZero = false) :
    randomSpec baseRandom nextU32 b cof (fuel + 1) rng = some ((nextU32 (baseRandom rng).1).1, cof p) := by
  rw [randomSpec]; simp only [h, hz]; rfl

/-- whatever the loop returns is `cof p` for a candidate `p` of `get_point_from_x`, and is not the
    identity record (`is_zero()` is false) -/
theorem randomSpec_some_candidate :
    ∀ (fuel : ℕ) (rng rng' : Rng) (P : Jac F),
      randomSpec baseRandom nextU32 b cof fuel rng = some (rng', P) →
        ∃ x greatest p, Aff.getPointFromX b x greatest = some p ∧ P = cof p ∧ P.isZero = false := by
  intro fuel
  induction fuel with
  | zero => intro rng rng' P h; simp [randomSpec] at h
  | succ n ih =>
    intro rng rng' P h
    cases hgp : Aff.getPointFromX b (baseRandom rng).2 ((nextU32 (baseRandom rng).1).2 % 2 != 0) with
    | none => rw [randomSpec_retry_none _ _ _ _ _ hgp] at h; exact ih _ _ _ h
    | some p =>
      cases hz : (cof p).isZero with
      | true => rw [randomSpec_retry_identity _ _ _ _ _ hgp hz] at h; exact ih _ _ _ h
      | false =>
        rw [randomSpec_accept _ _ _ _ _ hgp hz] at h
        obtain ⟨-, rfl⟩ := Prod.mk.inj (Option.some.inj h)
        exact ⟨_, _, p, hgp, rfl, hz⟩

/-- the bound on the number of attempts does not influence the result: once a point is returned with
    `fuel` attempts allowed, the same point and RNG state are returned with any larger bound (the Rust
    loop is unbounded) -/
theorem randomSpec_fuel_mono :
    ∀ (fuel : ℕ) (rng : Rng) (res : Rng × Jac F),
      randomSpec baseRandom nextU32 b cof fuel rng = some res →
        ∀ n, randomSpec baseRandom nextU32 b cof (fuel + n) rng = some res := by
  intro fuel
  induction fuel with
  | zero => intro rng res h; simp [randomSpec] at h
  | succ m ih =>
    intro rng res h n
    have e : m + 1 + n = (m + n) + 1 := by omega
    rw [e]
    cases hgp : Aff.getPointFromX b (baseRandom rng).2 ((nextU32 (baseRandom rng).1).2 % 2 != 0) with
    | none =>
      rw [randomSpec_retry_none _ _ _ _ _ hgp] at h ⊢; exact ih _ _ h n
    | some p =>
      cases hz : (cof p).isZero with
      | true => rw [randomSpec_retry_identity _ _ _ _ _ hgp hz] at h ⊢; exact ih _ _ h n
      | false => rw [randomSpec_accept _ _ _ _ _ hgp hz] at h ⊢; exact h

/-- **random sampling, any curve**: if the cofactor scaling sends every candidate into the subgroup, then
    whatever the loop returns — any bound, any RNG — is on the curve, killed by `r`, and is not the
    identity (neither as a record, `z ≠ 0`, nor as a group element) -/
theorem randomSpec_inSub
    (hcof : ∀ x greatest p, Aff.getPointFromX b x greatest = some p → Jac.InSub b (cof p))
    {fuel : ℕ} {rng rng' : Rng} {P : Jac F}
    (h : randomSpec baseRandom nextU32 b cof fuel rng = some (rng', P)) :
    Jac.InSub b P ∧ P.isZero = false ∧ Jac.abs b P ≠ 0 := by
  obtain ⟨x, g, p, hp, rfl, hz⟩ := randomSpec_some_candidate baseRandom nextU32 cof fuel rng rng' P h
  have hs := hcof x g p hp
  refine ⟨hs, hz, ?_⟩
  rw [Ne, ← C01.isZero_iff hs.1, hz]
  exact Bool.false_ne_true

end random_generic

/-- the non-identity points of the subgroup have order exactly `r` -/
theorem addOrderOf_of_inSub {F : Type} [Field F] [DecidableEq F] [FieldOps F] [LawfulFieldOps F]
    {b : F} [ShortW b] {P : Jac F} (h : Jac.InSub b P) (hne : Jac.abs b P ≠ 0) :
    addOrderOf (Jac.abs b P) = Gen.r :=
  addOrderOf_eq_of_prime Primes.r_prime h.2 hne

/-! ## Parts 2, 3, 5 on any curve `y² = x³ + b` -/

section generic
variable {F : Type} [Field F] [DecidableEq F] [FieldOps F] [LawfulFieldOps F] {b : F} [ShortW b]

/-- affine analogue of `C07.smul_result_inSub` -/
theorem aff_smul_result_inSub {A E : Aff F} {k : ℕ} (hA : Aff.InSub b A) (hE : Aff.OnCurve b E)
    (habs : Aff.abs b E = k • Aff.abs b A) : Aff.InSub b E :=
  ⟨hE, by rw [habs]; exact killed_nsmul hA.2 k⟩

/-! ### Part 2: scalar multiplication -/

/-- `mul_bits`, any bit string (re-export of `C07.mulBits_inSub`) -/
theorem mulBits_inSub {A : Aff F} (h : Aff.InSub b A) (bits : List Bool) : Jac.InSub b (A.mulBits bits) :=
  C07.mulBits_inSub h bits

/-- `CurveAffine::mul`, any scalar -/
theorem affMul_inSub {A : Aff F} (h : Aff.InSub b A) (k : ℕ) : Jac.InSub b (A.mul k) := C07.affMul_inSub h k

/-- `CurveProjective::mul_assign`, any scalar -/
theorem mulAssign_inSub {P : Jac F} (h : Jac.InSub b P) (k : ℕ) : Jac.InSub b (P.mulAssign k) :=
  C07.mulAssign_inSub h k

/-- the three table entries of `precomp_3` of a subgroup point are subgroup points -/
theorem precomp3_table_inSub {A : Aff F} (hA : Aff.InSub b A) :
    ∃ a1 a2 a3, A.precomp3 = some [a1, a2, a3] ∧ Aff.InSub b a1 ∧ Aff.InSub b a2 ∧ Aff.InSub b a3 := by
  obtain ⟨a1, a2, a3, hp, ⟨h1, e1⟩, ⟨h2, e2⟩, ⟨h3, e3⟩⟩ := C02Inst.curve_precomp3_table b A hA.1
  exact ⟨a1, a2, a3, hp, aff_smul_result_inSub hA h1 e1, aff_smul_result_inSub hA h2 e2,
    aff_smul_result_inSub hA h3 e3⟩

/-- `mul_precomp_3` with the table of `precomp_3`, every 256-bit `k`: no panic, result in the subgroup -/
theorem precomp3_mul_inSub {A : Aff F} (hA : Aff.InSub b A) (k : ℕ) (hk : k < 2 ^ 256) :
    ∃ pre, A.precomp3 = some pre ∧ ∃ R, A.mulPrecomp3 k pre = some R ∧ Jac.InSub b R := by
  obtain ⟨pre, hp, R, hR, hon, habs⟩ := C02Inst.curve_precomp3_mul b A hA.1 k hk
  exact ⟨pre, hp, R, hR, ⟨hon, by rw [habs]; exact killed_nsmul hA.2 k⟩⟩

/-- the 256 table entries of `precomp_256` of a subgroup point are subgroup points -/
theorem precomp256_table_inSub {A : Aff F} (hA : Aff.InSub b A) :
    ∃ pre, A.precomp256 = some pre ∧ pre.length = 256 ∧ ∀ e ∈ pre, Aff.InSub b e := by
  obtain ⟨pre, hp, hl, hent⟩ := C02Inst.curve_precomp256_table b A hA.1
  refine ⟨pre, hp, hl, fun e he => ?_⟩
  obtain ⟨i, hi, rfl⟩ := List.getElem_of_mem he
  obtain ⟨e', he', hon, habs⟩ := hent i (hl ▸ hi)
  rw [List.getElem?_eq_getElem hi] at he'
  obtain rfl := Option.some.inj he'
  exact aff_smul_result_inSub hA hon habs

/-- `mul_precomp_256` with the table of `precomp_256`, every 256-bit `k` -/
theorem precomp256_mul_inSub {A : Aff F} (hA : Aff.InSub b A) (k : ℕ) (hk : k < 2 ^ 256) :
    ∃ pre, A.precomp256 = some pre ∧ ∃ R, A.mulPrecomp256 k pre.toArray = some R ∧ Jac.InSub b R := by
  obtain ⟨pre, hp, R, hR, hon, habs⟩ := C02Inst.curve_precomp256_mul b A hA.1 k hk
  exact ⟨pre, hp, R, hR, ⟨hon, by rw [habs]; exact killed_nsmul hA.2 k⟩⟩

/-- windowed NAF (`wnaf_table`, `wnaf_form`, `wnaf_exp`), any window `2..=22`, `k < 2^255` -/
theorem wnaf_mul_inSub {P : Jac F} (hP : Jac.InSub b P) (k w : ℕ) (hw2 : 2 ≤ w) (hw : w ≤ 22)
    (hk : k < 2 ^ 255) :
    ∃ R, (do let f ← wnafForm [] k w; wnafExp (wnafTable [] P w) f) = some R ∧ Jac.InSub b R := by
  obtain ⟨R, hR, hon, habs⟩ := C02Inst.curve_wnaf_mul b P hP.1 k w hw2 hw hk
  exact ⟨R, hR, C07.smul_result_inSub hP hon habs⟩

/-- the staged API, order `base(P, n).scalar(k)`, on any (used) context -/
theorem wnaf_base_then_scalar_inSub (rc : WnafRec) (hrc : rc = g1Rec ∨ rc = g2Rec) (ctx : WnafCtx F)
    {P : Jac F} (hP : Jac.InSub b P) (n k : ℕ) (hk : k < 2 ^ 255) :
    ∃ R ctx', WnafCtx.baseThenScalar rc ctx P n k = some (R, ctx') ∧ Jac.InSub b R := by
  obtain ⟨R, ctx', hR, hon, habs⟩ := C02Inst.curve_wnaf_base_then_scalar b rc hrc ctx P hP.1 n k hk
  exact ⟨R, ctx', hR, C07.smul_result_inSub hP hon habs⟩

/-- the staged API, order `scalar(k).base(P)`, on any (used) context -/
theorem wnaf_scalar_then_base_inSub (rc : WnafRec) (hrc : rc = g1Rec ∨ rc = g2Rec) (ctx : WnafCtx F)
    {P : Jac F} (hP : Jac.InSub b P) (k : ℕ) (hk : k < 2 ^ 255) :
    ∃ R ctx', WnafCtx.scalarThenBase rc ctx k P = some (R, ctx') ∧ Jac.InSub b R := by
  obtain ⟨R, ctx', hR, hon, habs⟩ := C02Inst.curve_wnaf_scalar_then_base b rc hrc ctx P hP.1 k hk
  exact ⟨R, ctx', hR, C07.smul_result_inSub hP hon habs⟩

/-! ### Part 3: multi-scalar multiplication -/

/-- `sum_of_products` (default entry; re-export of `C10Inst.curve_sum_of_products_inSub`) -/
theorem sum_of_products_inSub (points : List (Aff F)) (ks : List ℕ) (hk : ∀ k ∈ ks, k < 2 ^ 255)
    (hP : ∀ P ∈ points, Aff.InSub b P) : ∃ R, sumOfProducts points ks = some R ∧ Jac.InSub b R :=
  C10Inst.curve_sum_of_products_inSub b points ks hk hP

/-- `sum_of_products_pippinger` with an explicit window `1..=20` -/
theorem pippinger_inSub (points : List (Aff F)) (ks : List ℕ) (w : ℕ) (hw1 : 1 ≤ w) (hw : w ≤ 20)
    (hk : ∀ k ∈ ks, k < 2 ^ 255) (hP : ∀ P ∈ points, Aff.InSub b P) :
    ∃ R, sumOfProductsPippinger points ks w = some R ∧ Jac.InSub b R := by
  obtain ⟨R, hR, hon, habs⟩ := C10Inst.curve_pippinger b points ks w hw1 hw hk (fun P hm => (hP P hm).1)
  exact ⟨R, hR, C07.msm_result_inSub hP hon habs⟩

/-- `sum_of_products_precomp_256` with the tables of `precomp_256`, every 256-bit scalar -/
theorem sum_of_products_precomp256_inSub (points : List (Aff F)) (ks : List ℕ)
    (hk : ∀ k ∈ ks, k < 2 ^ 256) (hP : ∀ P ∈ points, Aff.InSub b P) :
    ∃ tables, points.mapM Aff.precomp256 = some tables ∧
      ∃ R, sumOfProductsPrecomp256 points ks tables.flatten.toArray = some R ∧ Jac.InSub b R := by
  obtain ⟨tables, ht, R, hR, hon, habs⟩ :=
    C10Inst.curve_sum_of_products_precomp256 b points ks hk (fun P hm => (hP P hm).1)
  exact ⟨tables, ht, R, hR, C07.msm_result_inSub hP hon habs⟩

/-! ### Part 5: batch normalisation and conversions (re-exports of C07) -/

/-- `batch_normalization` never panics on subgroup points and returns subgroup points -/
theorem batchNormalize_inSub (v : List (Jac F)) (hv : ∀ P ∈ v, Jac.InSub b P) :
    ∃ out, Jac.batchNormalize v = some out ∧ out.length = v.length ∧ ∀ Q ∈ out, Jac.InSub b Q :=
  C07.batchNormalize_inSub v hv

/-- the translated `batch_normalization` of `ec/mod.rs` -/
theorem batchNormalization_inSub (v : List (Jac F)) (hv : ∀ P ∈ v, Jac.InSub b P) :
    ∃ out, R.Jac.batchNormalization v = some out ∧ out.length = v.length ∧ ∀ Q ∈ out, Jac.InSub b Q := by
  rw [GenRest.Jac_batchNormalization]; exact C07.batchNormalize_inSub v hv

theorem toAffine_inSub {P : Jac F} (h : Jac.InSub b P) :
    ∃ A, P.toAffine = some A ∧ Aff.InSub b A ∧ Aff.abs b A = Jac.abs b P ∧ Aff.inSubgroup b A = true :=
  C07.toAffine_inSub h

theorem toJac_inSub {A : Aff F} (h : Aff.InSub b A) : Jac.InSub b A.toJac := C07.toJac_inSub h

end generic

/-! ## Part 4: decoded and deserialized points, any codec -/

section decode
variable {F : Type} [Field F] [DecidableEq F] [FieldOps F] [LawfulFieldOps F] [SqrtOps F]
variable {cc : Codec F}

/-- `$compressed::into_affine` returns a point only after `in_subgroup` answered `true` -/
theorem decodeCompressed_inSubgroup {bs : Bytes} {A : Aff F} (h : decodeCompressed cc bs = .ok A) :
    Aff.inSubgroup cc.b A = true := by
  unfold decodeCompressed at h
  cases hu : decodeCompressedUnchecked cc bs with
  | error e => rw [hu] at h; cases h
  | ok a =>
    rw [hu] at h
    cases hs : a.inSubgroup cc.b with
    | false => simp [hs] at h
    | true => simp [hs] at h; cases h; exact hs

/-- `$uncompressed::into_affine` returns a point only after `is_on_curve` and `in_subgroup` answered
    `true` -/
theorem decodeUncompressed_inSubgroup {bs : Bytes} {A : Aff F} (h : decodeUncompressed cc bs = .ok A) :
    Aff.inSubgroup cc.b A = true := by
  unfold decodeUncompressed at h
  cases hu : decodeUncompressedUnchecked cc bs with
  | error e => rw [hu] at h; cases h
  | ok a =>
    rw [hu] at h
    cases ho : a.isOnCurve cc.b with
    | false => simp [ho] at h
    | true =>
      cases hs : a.inSubgroup cc.b with
      | false => simp [ho, hs] at h
      | true => simp [ho, hs] at h; cases h; exact hs

/-- `SerDes::deserialize` of the affine types returns only what a checked decoder returned -/
theorem deserAffine_inSubgroup {rd rest : Bytes} {c : Bool} {A : Aff F}
    (h : deserAffine cc rd c = .ok (A, rest)) : Aff.inSubgroup cc.b A = true := by
  unfold deserAffine at h
  split at h
  · cases h
  · split at h
    · cases h
    · split at h
      · split at h
        · cases h
        · rename_i a hd
          cases h
          exact decodeCompressed_inSubgroup hd
      · split at h
        · cases h
        · split at h
          · cases h
          · rename_i a hd
            cases h
            exact decodeUncompressed_inSubgroup hd

variable [ShortW cc.b]

/-- **a successfully decoded compressed point** is on the curve and killed by `r` (any input bytes) -/
theorem decodeCompressed_inSub {bs : Bytes} {A : Aff F} (h : decodeCompressed cc bs = .ok A) :
    Aff.InSub cc.b A :=
  C07.inSub_of_inSubgroup (decodeCompressed_inSubgroup h)

/-- **a successfully decoded uncompressed point** is on the curve and killed by `r` -/
theorem decodeUncompressed_inSub {bs : Bytes} {A : Aff F} (h : decodeUncompressed cc bs = .ok A) :
    Aff.InSub cc.b A :=
  C07.inSub_of_inSubgroup (decodeUncompressed_inSubgroup h)

/-- **a successfully deserialized affine point** (either flag, any trailing data) -/
theorem deserAffine_inSub {rd rest : Bytes} {c : Bool} {A : Aff F}
    (h : deserAffine cc rd c = .ok (A, rest)) : Aff.InSub cc.b A :=
  C07.inSub_of_inSubgroup (deserAffine_inSubgroup h)

/-- **a successfully deserialized projective point** -/
theorem deserJac_inSub {rd rest : Bytes} {c : Bool} {P : Jac F}
    (h : deserJac cc rd c = .ok (P, rest)) : Jac.InSub cc.b P := by
  unfold deserJac at h
  cases hd : deserAffine cc rd c with
  | error e => rw [hd] at h; cases h
  | ok ar =>
    obtain ⟨A, rest'⟩ := ar
    rw [hd] at h
    cases h
    exact (deserAffine_inSub hd).toJac

/-- the UNCHECKED compressed decoder (`into_affine_unchecked`, not part of the invariant): what it returns
    is a curve point, with no statement about the subgroup -/
theorem decodeCompressedUnchecked_onCurve [LawfulSqrtOps F] {bs : Bytes} {A : Aff F}
    (h : decodeCompressedUnchecked cc bs = .ok A) : Aff.OnCurve cc.b A :=
  (C01.isOnCurve_iff A).mp (PP.decodeCompressedUnchecked_onCurve bs A h)

end decode

local notation "b₁" => g1Codec.b
local notation "b₂" => g2Codec.b
local notation "cofG1" =>
  (fun p : Aff Fq => PP.Aff.mulBits p (bitsMSB (limbsOf Gen.G1_COFACTOR_LIMBS Gen.G1_COFACTOR)))
local notation "cofG2" =>
  (fun p : Aff Fq2 => PP.Aff.mulBits p (bitsMSB (limbsOf Gen.G2_COFACTOR_LIMBS Gen.G2_COFACTOR)))

/-- **`G1::random`** (the translated Rust loop `R.Jac.random` at the associated items of G1, any bound on
    the attempts, any RNG `fqRandom`, `nextU32`): a returned point satisfies `y² = x³ + 4` (projectively),
    is killed by `r`, is not the identity, and has order exactly `r` -/
theorem g1_random_inSub {Rng : Type} (fuel : ℕ) (fqRandom : Rng → Rng × Fq) (nextU32 : Rng → Rng × Nat)
    (rng rng' : Rng) (P : Jac Fq)
    (h : R.Jac.random fuel fqRandom nextU32 E.G1Affine.getCoeffB R.G1Affine.scaleByCofactor rng
          = some (rng', P)) :
    Jac.InSub b₁ P ∧ P.isZero = false ∧ Jac.abs b₁ P ≠ 0 ∧ addOrderOf (Jac.abs b₁ P) = Gen.r := by
  rw [GenRest.G1_random] at h
  obtain ⟨hs, hz, hne⟩ := randomSpec_inSub fqRandom nextU32 cofG1
    (fun x g p hp => (CurveOrder.g1_random_candidate_inSub' hp).2) h
  exact ⟨hs, hz, hne, addOrderOf_of_inSub hs hne⟩

/-- **`G2::random`** (`$basefield::random` is the translated `Fq2::random`) -/
theorem g2_random_inSub {Rng : Type} (fuel : ℕ) (fqRandom : Rng → Rng × Fq) (nextU32 : Rng → Rng × Nat)
    (rng rng' : Rng) (P : Jac Fq2)
    (h : R.Jac.random fuel (R.Fq2.random fqRandom) nextU32 E.G2Affine.getCoeffB R.G2Affine.scaleByCofactor rng
          = some (rng', P)) :
    Jac.InSub b₂ P ∧ P.isZero = false ∧ Jac.abs b₂ P ≠ 0 ∧ addOrderOf (Jac.abs b₂ P) = Gen.r := by
  rw [GenRest.G2_random] at h
  obtain ⟨hs, hz, hne⟩ := randomSpec_inSub (R.Fq2.random fqRandom) nextU32 cofG2
    (fun x g p hp => (CurveOrder.g2_random_candidate_inSub' hp).2) h
  exact ⟨hs, hz, hne, addOrderOf_of_inSub hs hne⟩

/-- `G1::random` retries on the identity: an attempt whose candidate is killed by the cofactor does not
    return (the loop continues with the next RNG state) -/
theorem g1_random_retry_identity {Rng : Type} (fuel : ℕ) (fqRandom : Rng → Rng × Fq)
    (nextU32 : Rng → Rng × Nat) (rng : Rng) {p : Aff Fq}
    (h : Aff.getPointFromX b₁ (fqRandom rng).2 ((nextU32 (fqRandom rng).1).2 % 2 != 0) = some p)
    (hz : (cofG1 p).isZero = true) :
    R.Jac.random (fuel + 1) fqRandom nextU32 E.G1Affine.getCoeffB R.G1Affine.scaleByCofactor rng
      = R.Jac.random fuel fqRandom nextU32 E.G1Affine.getCoeffB R.G1Affine.scaleByCofactor
          (nextU32 (fqRandom rng).1).1 := by
  rw [GenRest.G1_random, GenRest.G1_random]
  exact randomSpec_retry_identity fqRandom nextU32 cofG1 fuel rng h hz

theorem g2_random_retry_identity {Rng : Type} (fuel : ℕ) (fqRandom : Rng → Rng × Fq)
    (nextU32 : Rng → Rng × Nat) (rng : Rng) {p : Aff Fq2}
    (h : Aff.getPointFromX b₂ (R.Fq2.random fqRandom rng).2
          ((nextU32 (R.Fq2.random fqRandom rng).1).2 % 2 != 0) = some p)
    (hz : (cofG2 p).isZero = true) :
    R.Jac.random (fuel + 1) (R.Fq2.random fqRandom) nextU32 E.G2Affine.getCoeffB R.G2Affine.scaleByCofactor rng
      = R.Jac.random fuel (R.Fq2.random fqRandom) nextU32 E.G2Affine.getCoeffB R.G2Affine.scaleByCofactor
          (nextU32 (R.Fq2.random fqRandom rng).1).1 := by
  rw [GenRest.G2_random, GenRest.G2_random]
  exact randomSpec_retry_identity (R.Fq2.random fqRandom) nextU32 cofG2 fuel rng h hz

/-! ## G1: Parts 2 – 5 instantiated at `g1Codec.b = 4` over `Fq` -/

section g1

theorem g1_mulBits_inSub {A : Aff Fq} (h : Aff.InSub b₁ A) (bits : List Bool) :
    Jac.InSub b₁ (A.mulBits bits) := mulBits_inSub h bits

theorem g1_affMul_inSub {A : Aff Fq} (h : Aff.InSub b₁ A) (k : ℕ) : Jac.InSub b₁ (A.mul k) :=
  affMul_inSub h k

theorem g1_mulAssign_inSub {P : Jac Fq} (h : Jac.InSub b₁ P) (k : ℕ) : Jac.InSub b₁ (P.mulAssign k) :=
  mulAssign_inSub h k

theorem g1_precomp3_mul_inSub {A : Aff Fq} (hA : Aff.InSub b₁ A) (k : ℕ) (hk : k < 2 ^ 256) :
    ∃ pre, A.precomp3 = some pre ∧ ∃ R, A.mulPrecomp3 k pre = some R ∧ Jac.InSub b₁ R :=
  precomp3_mul_inSub hA k hk

theorem g1_precomp256_mul_inSub {A : Aff Fq} (hA : Aff.InSub b₁ A) (k : ℕ) (hk : k < 2 ^ 256) :
    ∃ pre, A.precomp256 = some pre ∧ ∃ R, A.mulPrecomp256 k pre.toArray = some R ∧ Jac.InSub b₁ R :=
  precomp256_mul_inSub hA k hk

theorem g1_wnaf_mul_inSub {P : Jac Fq} (hP : Jac.InSub b₁ P) (k w : ℕ) (hw2 : 2 ≤ w) (hw : w ≤ 22)
    (hk : k < 2 ^ 255) :
    ∃ R, (do let f ← wnafForm [] k w; wnafExp (wnafTable [] P w) f) = some R ∧ Jac.InSub b₁ R :=
  wnaf_mul_inSub hP k w hw2 hw hk

/-- `Wnaf::new().base(P, n).scalar(k)` with the window tables of G1 (`g1Rec`), on any used context -/
theorem g1_wnaf_base_then_scalar_inSub (ctx : WnafCtx Fq) {P : Jac Fq} (hP : Jac.InSub b₁ P) (n k : ℕ)
    (hk : k < 2 ^ 255) :
    ∃ R ctx', WnafCtx.baseThenScalar g1Rec ctx P n k = some (R, ctx') ∧ Jac.InSub b₁ R :=
  wnaf_base_then_scalar_inSub g1Rec (Or.inl rfl) ctx hP n k hk

/-- `Wnaf::new().scalar(k).base(P)` with the window tables of G1, on any used context -/
theorem g1_wnaf_scalar_then_base_inSub (ctx : WnafCtx Fq) {P : Jac Fq} (hP : Jac.InSub b₁ P) (k : ℕ)
    (hk : k < 2 ^ 255) :
    ∃ R ctx', WnafCtx.scalarThenBase g1Rec ctx k P = some (R, ctx') ∧ Jac.InSub b₁ R :=
  wnaf_scalar_then_base_inSub g1Rec (Or.inl rfl) ctx hP k hk

theorem g1_sum_of_products_inSub (points : List (Aff Fq)) (ks : List ℕ) (hk : ∀ k ∈ ks, k < 2 ^ 255)
    (hP : ∀ P ∈ points, Aff.InSub b₁ P) : ∃ R, sumOfProducts points ks = some R ∧ Jac.InSub b₁ R :=
  sum_of_products_inSub points ks hk hP

theorem g1_pippinger_inSub (points : List (Aff Fq)) (ks : List ℕ) (w : ℕ) (hw1 : 1 ≤ w) (hw : w ≤ 20)
    (hk : ∀ k ∈ ks, k < 2 ^ 255) (hP : ∀ P ∈ points, Aff.InSub b₁ P) :
    ∃ R, sumOfProductsPippinger points ks w = some R ∧ Jac.InSub b₁ R :=
  pippinger_inSub points ks w hw1 hw hk hP

theorem g1_sum_of_products_precomp256_inSub (points : List (Aff Fq)) (ks : List ℕ)
    (hk : ∀ k ∈ ks, k < 2 ^ 256) (hP : ∀ P ∈ points, Aff.InSub b₁ P) :
    ∃ tables, points.mapM Aff.precomp256 = some tables ∧
      ∃ R, sumOfProductsPrecomp256 points ks tables.flatten.toArray = some R ∧ Jac.InSub b₁ R :=
  sum_of_products_precomp256_inSub points ks hk hP

theorem g1_batchNormalize_inSub (v : List (Jac Fq)) (hv : ∀ P ∈ v, Jac.InSub b₁ P) :
    ∃ out, Jac.batchNormalize v = some out ∧ out.length = v.length ∧ ∀ Q ∈ out, Jac.InSub b₁ Q :=
  batchNormalize_inSub v hv

/-- `G1Compressed::into_affine`: any input bytes; if a point is returned it is in G1 -/
theorem g1_decodeCompressed_inSub {bs : Bytes} {A : Aff Fq} (h : decodeCompressed g1Codec bs = .ok A) :
    Aff.InSub b₁ A := decodeCompressed_inSub h

/-- `G1Uncompressed::into_affine` -/
theorem g1_decodeUncompressed_inSub {bs : Bytes} {A : Aff Fq} (h : decodeUncompressed g1Codec bs = .ok A) :
    Aff.InSub b₁ A := decodeUncompressed_inSub h

/-- `G1Affine::deserialize`, either compression flag, any reader contents -/
theorem g1_deserAffine_inSub {rd rest : Bytes} {c : Bool} {A : Aff Fq}
    (h : deserAffine g1Codec rd c = .ok (A, rest)) : Aff.InSub b₁ A := deserAffine_inSub h

/-- `G1::deserialize` -/
theorem g1_deserJac_inSub {rd rest : Bytes} {c : Bool} {P : Jac Fq}
    (h : deserJac g1Codec rd c = .ok (P, rest)) : Jac.InSub b₁ P := deserJac_inSub h

end g1

/-! ## G2: Parts 2 – 5 instantiated at `g2Codec.b = 4(1+u)` over `Fq2` -/

section g2

theorem g2_mulBits_inSub {A : Aff Fq2} (h : Aff.InSub b₂ A) (bits : List Bool) :
    Jac.InSub b₂ (A.mulBits bits) := mulBits_inSub h bits

theorem g2_affMul_inSub {A : Aff Fq2} (h : Aff.InSub b₂ A) (k : ℕ) : Jac.InSub b₂ (A.mul k) :=
  affMul_inSub h k

theorem g2_mulAssign_inSub {P : Jac Fq2} (h : Jac.InSub b₂ P) (k : ℕ) : Jac.InSub b₂ (P.mulAssign k) :=
  mulAssign_inSub h k

theorem g2_precomp3_mul_inSub {A : Aff Fq2} (hA : Aff.InSub b₂ A) (k : ℕ) (hk : k < 2 ^ 256) :
    ∃ pre, A.precomp3 = some pre ∧ ∃ R, A.mulPrecomp3 k pre = some R ∧ Jac.InSub b₂ R :=
  precomp3_mul_inSub hA k hk

theorem g2_precomp256_mul_inSub {A : Aff Fq2} (hA : Aff.InSub b₂ A) (k : ℕ) (hk : k < 2 ^ 256) :
    ∃ pre, A.precomp256 = some pre ∧ ∃ R, A.mulPrecomp256 k pre.toArray = some R ∧ Jac.InSub b₂ R :=
  precomp256_mul_inSub hA k hk

theorem g2_wnaf_mul_inSub {P : Jac Fq2} (hP : Jac.InSub b₂ P) (k w : ℕ) (hw2 : 2 ≤ w) (hw : w ≤ 22)
    (hk : k < 2 ^ 255) :
    ∃ R, (do let f ← wnafForm [] k w; wnafExp (wnafTable [] P w) f) = some R ∧ Jac.InSub b₂ R :=
  wnaf_mul_inSub hP k w hw2 hw hk

/-- `Wnaf::new().base(P, n).scalar(k)` with the window tables of G2 (`g2Rec`), on any used context -/
theorem g2_wnaf_base_then_scalar_inSub (ctx : WnafCtx Fq2) {P : Jac Fq2} (hP : Jac.InSub b₂ P) (n k : ℕ)
    (hk : k < 2 ^ 255) :
    ∃ R ctx', WnafCtx.baseThenScalar g2Rec ctx P n k = some (R, ctx') ∧ Jac.InSub b₂ R :=
  wnaf_base_then_scalar_inSub g2Rec (Or.inr rfl) ctx hP n k hk

/-- `Wnaf::new().scalar(k).base(P)` with the window tables of G2, on any used context -/
theorem g2_wnaf_scalar_then_base_inSub (ctx : WnafCtx Fq2) {P : Jac Fq2} (hP : Jac.InSub b₂ P) (k : ℕ)
    (hk : k < 2 ^ 255) :
    ∃ R ctx', WnafCtx.scalarThenBase g2Rec ctx k P = some (R, ctx') ∧ Jac.InSub b₂ R :=
  wnaf_scalar_then_base_inSub g2Rec (Or.inr rfl) ctx hP k hk

theorem g2_sum_of_products_inSub (points : List (Aff Fq2)) (ks : List ℕ) (hk : ∀ k ∈ ks, k < 2 ^ 255)
    (hP : ∀ P ∈ points, Aff.InSub b₂ P) : ∃ R, sumOfProducts points ks = some R ∧ Jac.InSub b₂ R :=
  sum_of_products_inSub points ks hk hP

theorem g2_pippinger_inSub (points : List (Aff Fq2)) (ks : List ℕ) (w : ℕ) (hw1 : 1 ≤ w) (hw : w ≤ 20)
    (hk : ∀ k ∈ ks, k < 2 ^ 255) (hP : ∀ P ∈ points, Aff.InSub b₂ P) :
    ∃ R, sumOfProductsPippinger points ks w = some R ∧ Jac.InSub b₂ R :=
  pippinger_inSub points ks w hw1 hw hk hP

theorem g2_sum_of_products_precomp256_inSub (points : List (Aff Fq2)) (ks : List ℕ)
    (hk : ∀ k ∈ ks, k < 2 ^ 256) (hP : ∀ P ∈ points, Aff.InSub b₂ P) :
    ∃ tables, points.mapM Aff.precomp256 = some tables ∧
      ∃ R, sumOfProductsPrecomp256 points ks tables.flatten.toArray = some R ∧ Jac.InSub b₂ R :=
  sum_of_products_precomp256_inSub points ks hk hP

theorem g2_batchNormalize_inSub (v : List (Jac Fq2)) (hv : ∀ P ∈ v, Jac.InSub b₂ P) :
    ∃ out, Jac.batchNormalize v = some out ∧ out.length = v.length ∧ ∀ Q ∈ out, Jac.InSub b₂ Q :=
  batchNormalize_inSub v hv

/-- `G2Compressed::into_affine`: any input bytes; if a point is returned it is in G2 -/
theorem g2_decodeCompressed_inSub {bs : Bytes} {A : Aff Fq2} (h : decodeCompressed g2Codec bs = .ok A) :
    Aff.InSub b₂ A := decodeCompressed_inSub h

/-- `G2Uncompressed::into_affine` -/
theorem g2_decodeUncompressed_inSub {bs : Bytes} {A : Aff Fq2} (h : decodeUncompressed g2Codec bs = .ok A) :
    Aff.InSub b₂ A := decodeUncompressed_inSub h

/-- `G2Affine::deserialize`, either compression flag, any reader contents -/
theorem g2_deserAffine_inSub {rd rest : Bytes} {c : Bool} {A : Aff Fq2}
    (h : deserAffine g2Codec rd c = .ok (A, rest)) : Aff.InSub b₂ A := deserAffine_inSub h

/-- `G2::deserialize` -/
theorem g2_deserJac_inSub {rd rest : Bytes} {c : Bool} {P : Jac Fq2}
    (h : deserJac g2Codec rd c = .ok (P, rest)) : Jac.InSub b₂ P := deserJac_inSub h

end g2

/-! ## Part 6: hash / map outputs and generators (re-exports of `PP.Props.CurveOrder`, `PP.Props.C07`) -/

section outputs
variable (expand : Bytes → Bytes → Nat → Option Bytes) (msg dst : Bytes)

theorem hashToCurveG1_inSub {P : Jac Fq} (h : hashToCurveG1 expand msg dst = some P) : Jac.InSub b₁ P :=
  CurveOrder.hashToCurveG1_inSub' expand msg dst h

theorem encodeToCurveG1_inSub {P : Jac Fq} (h : encodeToCurveG1 expand msg dst = some P) : Jac.InSub b₁ P :=
  CurveOrder.encodeToCurveG1_inSub' expand msg dst h

theorem hashToCurveG2_inSub {P : Jac Fq2} (h : hashToCurveG2 expand msg dst = some P) : Jac.InSub b₂ P :=
  CurveOrder.hashToCurveG2_inSub' expand msg dst h

theorem encodeToCurveG2_inSub {P : Jac Fq2} (h : encodeToCurveG2 expand msg dst = some P) : Jac.InSub b₂ P :=
  CurveOrder.encodeToCurveG2_inSub' expand msg dst h

theorem mapToCurveG1_inSub (u : Fq) : Jac.InSub b₁ (mapToCurveG1 u) := CurveOrder.g1_map_inSub' u

theorem map2ToCurveG1_inSub (u0 u1 : Fq) : Jac.InSub b₁ (map2ToCurveG1 u0 u1) :=
  CurveOrder.g1_map2_inSub' u0 u1

theorem mapToCurveG2_inSub (u : Fq2) : ∃ R, mapToCurveG2 u = some R ∧ Jac.InSub b₂ R :=
  CurveOrder.g2_map_inSub' u

theorem map2ToCurveG2_inSub (u0 u1 : Fq2) : ∃ R, map2ToCurveG2 u0 u1 = some R ∧ Jac.InSub b₂ R :=
  CurveOrder.g2_map2_inSub' u0 u1

theorem clearHG1_inSub (P : Jac Fq) (hP : Jac.OnCurve b₁ P) : Jac.InSub b₁ (clearHG1 P) :=
  CurveOrder.g1_clearH_inSub' P hP

theorem clearHG2_inSub (P : Jac Fq2) (hP : Jac.OnCurve b₂ P) : Jac.InSub b₂ (clearHG2 P) :=
  CurveOrder.g2_clearH_inSub' P hP

theorem g1Generator_inSub : Aff.InSub b₁ C07.g1Generator := C07.g1Generator_inSub

theorem g2Generator_inSub : Aff.InSub b₂ C07.g2Generator := C07.g2Generator_inSub

/-- the translated `G1Affine::get_generator()` / `G1::one()` -/
theorem G1Affine_getGenerator_inSub : Aff.InSub b₁ R.G1Affine.getGenerator := by
  rw [GenRest.G1Affine_getGenerator]; exact C07.g1Generator_inSub

theorem G2Affine_getGenerator_inSub : Aff.InSub b₂ R.G2Affine.getGenerator := by
  rw [GenRest.G2Affine_getGenerator]; exact C07.g2Generator_inSub

theorem G1_one_inSub : Jac.InSub b₁ (R.Jac.one R.G1Affine.getGenerator) := by
  rw [GenRest.Jac_one]; exact G1Affine_getGenerator_inSub.toJac

theorem G2_one_inSub : Jac.InSub b₂ (R.Jac.one R.G2Affine.getGenerator) := by
  rw [GenRest.Jac_one]; exact G2Affine_getGenerator_inSub.toJac

end outputs

/-! ## non-vacuity -/

/-- the deserialization theorem applies to a real, non-identity point: the serialized G1 generator is
    read back, and the theorem says that what was read is in the subgroup -/
example : ∃ A rest, deserAffine g1Codec (serAffine g1Codec C07.g1Generator true ++ [7]) true = .ok (A, rest) ∧
    A.infinity = false ∧ Aff.InSub b₁ A :=
  have h := C19Inst.deserAffine_serAffine_g1 C07.g1Generator true [7] (fun hi => by cases hi)
    C07.g1Generator_inSubgroup
  ⟨_, _, h, rfl, g1_deserAffine_inSub h⟩

/-- the sampling loop does return points: with the constant stream `x = 5`, sign bit `0`, the first
    attempt of `randomSpec` at the G1 parameters succeeds (kernel evaluation of the square root and of the
    cofactor multiplication), and `randomSpec_inSub` applies to it -/
example : ∃ P, randomSpec (fun n : ℕ => (n + 1, (5 : Fq))) (fun n => (n, 0)) b₁ cofG1 1 0 = some (1, P) ∧
    Jac.InSub b₁ P ∧ Jac.abs b₁ P ≠ 0 := by
  have hs : (randomSpec (fun n : ℕ => (n + 1, (5 : Fq))) (fun n => (n, 0)) b₁ cofG1 1 0).isSome = true := by
    decide +kernel
  obtain ⟨⟨n, P⟩, hP⟩ := Option.isSome_iff_exists.mp hs
  have hn : n = 1 := by
    have : (randomSpec (fun n : ℕ => (n + 1, (5 : Fq))) (fun n => (n, 0)) b₁ cofG1 1 0).map Prod.fst = some 1 := by
      decide +kernel
    rw [hP] at this
    exact Option.some.inj this
  subst hn
  obtain ⟨h1, -, h3⟩ := randomSpec_inSub _ _ cofG1
    (fun x g p hp => (CurveOrder.g1_random_candidate_inSub' hp).2) hP
  exact ⟨P, hP, h1, h3⟩

end PP.C07Closure
