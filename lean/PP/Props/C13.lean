/-
C13.  "For every message, every tag of at most 255 bytes and every requested length within the RFC
limits, the XMD expansion (any Merkle-Damgard hash, in particular SHA-256 and SHA-512) and the XOF
expansion (SHAKE128/256) output exactly the bytes RFC 9380 section 5.3 defines, and requests beyond
255 output blocks abort instead of returning bytes.  Field hashing splits those bytes into
consecutive blocks and reduces each as a big-endian integer modulo the field order: 64 bytes per Fq
element, 48 per Fr element, and two Fq blocks (real part first) per Fq2 element, for any element
count."

Specification: `PP/Spec/Rfc9380.lean` (RFC 9380 §5.3.1, §5.3.2, §5.2 transcribed; `none` = ABORT).
Model: section "hash_to_field.rs" of `PP/Model/Map.lean`.

What the code does NOT check (and the RFC does): `len_in_bytes ≤ 65535` and `len(DST) ≤ 255`.  The
Rust silently truncates `len_in_bytes >> 8` and `dst.len()` to one byte where the RFC aborts, so
those two bounds appear as hypotheses below (for SHA-256/SHA-512, `ell ≤ 255` already forces
`len_in_bytes ≤ 255·64 = 16320`, see `expandXmd_sha256_eq_rfc`; for a generic hash with a huge
output size it does not).  `0 < H.outSize` excludes a division by zero (a panic in Rust).
-/
import PP.Proofs.Expand
import PP.Spec.Hash

namespace PP
namespace C13
open Expand

variable (H : XmdHash) (xof : Bytes → Nat → Bytes) (msg dst : Bytes) (len count : Nat)

/-! ## expand_message_xmd -/

/-- The XMD model IS RFC 9380 §5.3.1, for every hash, message, tag ≤ 255 bytes and length ≤ 65535:
same bytes when the RFC returns bytes, abort (`none`) exactly when the RFC aborts. -/
theorem expandXmd_eq_rfc (hout : 0 < H.outSize) (hdst : dst.length ≤ 255) (hlen : len ≤ 65535) :
    expandMessageXmd H msg dst len
      = Rfc.expand_message_xmd H.hash H.outSize H.blockSize msg dst len :=
  expandXmd_eq H msg dst len hout hdst hlen

/-- … and within `ell = ceil(len / b_in_bytes) ≤ 255` neither aborts: the model returns `some` of the
RFC's bytes. -/
theorem expandXmd_eq_rfc_some (hout : 0 < H.outSize) (hdst : dst.length ≤ 255) (hlen : len ≤ 65535)
    (hell : Rfc.ceilDiv len H.outSize ≤ 255) :
    ∃ bytes, Rfc.expand_message_xmd H.hash H.outSize H.blockSize msg dst len = some bytes ∧
      expandMessageXmd H msg dst len = some bytes := by
  rw [expandXmd_eq_rfc H msg dst len hout hdst hlen]
  have hc : ¬ (Rfc.ceilDiv len H.outSize > 255 ∨ len > 65535 ∨ dst.length > 255) := by omega
  exact ⟨_, by unfold Rfc.expand_message_xmd; simp only [if_neg hc]; rfl, by
    unfold Rfc.expand_message_xmd; simp only [if_neg hc]⟩

/-- the returned string has exactly the requested length (hash with `outSize`-byte digests) -/
theorem expandXmd_length (hout : 0 < H.outSize) (hH : ∀ x, (H.hash x).length = H.outSize)
    (hdst : dst.length ≤ 255) (hlen : len ≤ 65535) (bytes : Bytes)
    (h : expandMessageXmd H msg dst len = some bytes) : bytes.length = len := by
  rw [expandXmd_eq_rfc H msg dst len hout hdst hlen] at h
  exact rfc_xmd_length H.hash H.outSize H.blockSize hout hH msg dst len bytes h

/-- The model aborts (Rust: `panic!("ell was too big")`) exactly when more than 255 output blocks
are requested; no hypothesis on `msg`, `dst`, `len`.  (`ceil` written as in the Rust; for
`outSize > 0` it is `Rfc.ceilDiv`, see `Expand.ceilDiv_eq`.) -/
theorem expandXmd_panics_iff :
    expandMessageXmd H msg dst len = none ↔ (len + H.outSize - 1) / H.outSize > 255 :=
  expandXmd_none_iff H msg dst len

theorem expandXmd_panics_iff_ceil (hout : 0 < H.outSize) :
    expandMessageXmd H msg dst len = none ↔ Rfc.ceilDiv len H.outSize > 255 := by
  rw [ceilDiv_eq _ _ hout]; exact expandXmd_none_iff H msg dst len

/-- SHA-256 / SHA-512 as the driver instantiates them -/
def sha256H : XmdHash := ⟨32, 64, Hash.sha256⟩
def sha512H : XmdHash := ⟨64, 128, Hash.sha512⟩

/-- for SHA-256 the only length condition is the RFC's `ell ≤ 255`, i.e. `len ≤ 8160`; beyond it
both sides abort, so there is no length hypothesis at all -/
theorem expandXmd_sha256_eq_rfc (hdst : dst.length ≤ 255) :
    expandMessageXmd sha256H msg dst len = Rfc.expand_message_xmd Hash.sha256 32 64 msg dst len := by
  by_cases hlen : len ≤ 65535
  · exact expandXmd_eq_rfc sha256H msg dst len (by decide) hdst hlen
  · have h1 : expandMessageXmd sha256H msg dst len = none :=
      (expandXmd_panics_iff sha256H msg dst len).mpr (by show (len + 32 - 1) / 32 > 255; omega)
    have hc : Rfc.ceilDiv len 32 > 255 ∨ len > 65535 ∨ dst.length > 255 := by omega
    rw [h1]; unfold Rfc.expand_message_xmd; simp only [if_pos hc]

theorem expandXmd_sha512_eq_rfc (hdst : dst.length ≤ 255) :
    expandMessageXmd sha512H msg dst len = Rfc.expand_message_xmd Hash.sha512 64 128 msg dst len := by
  by_cases hlen : len ≤ 65535
  · exact expandXmd_eq_rfc sha512H msg dst len (by decide) hdst hlen
  · have h1 : expandMessageXmd sha512H msg dst len = none :=
      (expandXmd_panics_iff sha512H msg dst len).mpr (by show (len + 64 - 1) / 64 > 255; omega)
    have hc : Rfc.ceilDiv len 64 > 255 ∨ len > 65535 ∨ dst.length > 255 := by omega
    rw [h1]; unfold Rfc.expand_message_xmd; simp only [if_pos hc]

/-! ## expand_message_xof -/

/-- The XOF model returns the bytes of RFC 9380 §5.3.2 (which does not abort in this range), for
every XOF, in particular `Hash.shake128`, `Hash.shake256`. -/
theorem expandXof_eq_rfc (hdst : dst.length ≤ 255) (hlen : len ≤ 65535) :
    Rfc.expand_message_xof xof msg dst len = some (expandMessageXof xof msg dst len) :=
  expandXof_eq xof msg dst len hdst hlen

/-! ## from_okm / from_ro: a block is reduced as a big-endian integer modulo the field order -/

/-- `Fq::from_okm` never hits an `unwrap` and returns `OS2IP(okm) mod q` -/
theorem fromOkm_fq (okm : Bytes) (h : okm.length = 64) :
    Fq.fromOkm okm = some (Zp.ofNat (Rfc.OS2IP okm)) := Expand.fromOkm_fq okm h

theorem fromOkm_fq_v (okm : Bytes) (h : okm.length = 64) :
    (Fq.fromOkm okm).map (·.v) = some (Rfc.OS2IP okm % Gen.q) := by
  rw [fromOkm_fq okm h]; rfl

/-- `Fr::from_okm` never hits an `unwrap` and returns `OS2IP(okm) mod r` -/
theorem fromOkm_fr (okm : Bytes) (h : okm.length = 48) :
    Fr.fromOkm okm = some (Zp.ofNat (Rfc.OS2IP okm)) := Expand.fromOkm_fr okm h

theorem fromOkm_fr_v (okm : Bytes) (h : okm.length = 48) :
    (Fr.fromOkm okm).map (·.v) = some (Rfc.OS2IP okm % Gen.r) := by
  rw [fromOkm_fr okm h]; rfl

/-- `Fq2::from_ro`: two 64-byte blocks, real part (`c0`) first -/
theorem fromRo_fq2 (okm : Bytes) (h : okm.length = 128) :
    Fq2.fromRo okm
      = some ⟨Zp.ofNat (Rfc.OS2IP (okm.take 64)), Zp.ofNat (Rfc.OS2IP (okm.drop 64))⟩ :=
  Expand.fromRo_fq2 okm h

/-- the model's big-endian decoder is the RFC's `OS2IP` -/
theorem beToNat_eq_OS2IP (bs : Bytes) : beToNat bs = Rfc.OS2IP bs := Expand.beToNat_eq_OS2IP bs

/-! ## hash_to_field, for every element count

`expand` is any expander (abort = `none`) whose successful outputs are at least as long as
requested.  `Zp.coords x = [x.v]`, `Fq2.coords x = [x.c0.v, x.c1.v]` are the canonical integers, the
RFC's `u_i = (e_0, …, e_(m-1))`.  Since the spec is `some _` whenever `expand` is, equality with the
spec also says that the model does not abort on its own. -/

variable (expand : Bytes → Bytes → Nat → Option Bytes)

/-- Fq: `m = 1`, `L = 64` -/
theorem hashToField_fq_eq_rfc
    (hl : ∀ bytes, expand msg dst (count * 64) = some bytes → count * 64 ≤ bytes.length) :
    (hashToField expand 64 Fq.fromOkm msg dst count).map (List.map Zp.coords)
      = Rfc.hash_to_field expand Gen.q 1 64 msg dst count :=
  hashToField_fq_rfc expand msg dst count hl

/-- Fr: `m = 1`, `L = 48` -/
theorem hashToField_fr_eq_rfc
    (hl : ∀ bytes, expand msg dst (count * 48) = some bytes → count * 48 ≤ bytes.length) :
    (hashToField expand 48 Fr.fromOkm msg dst count).map (List.map Zp.coords)
      = Rfc.hash_to_field expand Gen.r 1 48 msg dst count :=
  hashToField_fr_rfc expand msg dst count hl

/-- Fq2: `m = 2`, `L = 64` (the code uses one 128-byte block per element) -/
theorem hashToField_fq2_eq_rfc
    (hl : ∀ bytes, expand msg dst (count * 128) = some bytes → count * 128 ≤ bytes.length) :
    (hashToField expand 128 Fq2.fromRo msg dst count).map (List.map Fq2.coords)
      = Rfc.hash_to_field expand Gen.q 2 64 msg dst count :=
  hashToField_fq2_rfc expand msg dst count hl

/-- explicit forms: the `i`-th element is the reduction of the `i`-th block -/
theorem hashToField_fq_explicit (bytes : Bytes) (h : expand msg dst (count * 64) = some bytes)
    (hl : bytes.length = count * 64) :
    hashToField expand 64 Fq.fromOkm msg dst count
      = some ((List.range count).map fun i => Zp.ofNat (Rfc.OS2IP (Rfc.substr bytes (i * 64) 64))) :=
  hashToField_eq expand 64 Fq.fromOkm _ Expand.fromOkm_fq msg dst count bytes h (le_of_eq hl.symm)

theorem hashToField_fr_explicit (bytes : Bytes) (h : expand msg dst (count * 48) = some bytes)
    (hl : bytes.length = count * 48) :
    hashToField expand 48 Fr.fromOkm msg dst count
      = some ((List.range count).map fun i => Zp.ofNat (Rfc.OS2IP (Rfc.substr bytes (i * 48) 48))) :=
  hashToField_eq expand 48 Fr.fromOkm _ Expand.fromOkm_fr msg dst count bytes h (le_of_eq hl.symm)

theorem hashToField_fq2_explicit (bytes : Bytes) (h : expand msg dst (count * 128) = some bytes)
    (hl : bytes.length = count * 128) :
    hashToField expand 128 Fq2.fromRo msg dst count
      = some ((List.range count).map fun i =>
          (⟨Zp.ofNat (Rfc.OS2IP (Rfc.substr bytes (i * 128) 64)),
            Zp.ofNat (Rfc.OS2IP (Rfc.substr bytes (i * 128 + 64) 64))⟩ : Fq2)) := by
  rw [hashToField_eq expand 128 Fq2.fromRo _ Expand.fromRo_fq2 msg dst count bytes h
    (le_of_eq hl.symm)]
  simp only [substr_take, substr_drop]

/-! ### end to end: the model's `hash_to_field` over the model's expanders is the RFC's
`hash_to_field` over the RFC's expanders (`hH`/`hX`: the hash/XOF outputs have the nominal length) -/

theorem hashToField_xmd_fq_eq_rfc (hout : 0 < H.outSize) (hH : ∀ x, (H.hash x).length = H.outSize)
    (hdst : dst.length ≤ 255) (hlen : count * 64 ≤ 65535) :
    (hashToField (expandMessageXmd H) 64 Fq.fromOkm msg dst count).map (List.map Zp.coords)
      = Rfc.hash_to_field (Rfc.expand_message_xmd H.hash H.outSize H.blockSize) Gen.q 1 64
          msg dst count :=
  (hashToField_fq_rfc _ msg dst count (xmd_len_ok H hout hH msg dst _ hdst hlen)).trans
    (rfc_hash_to_field_congr _ _ _ _ _ _ _ _
      (expandXmd_eq H msg dst _ hout hdst (by simpa using hlen)))

theorem hashToField_xmd_fr_eq_rfc (hout : 0 < H.outSize) (hH : ∀ x, (H.hash x).length = H.outSize)
    (hdst : dst.length ≤ 255) (hlen : count * 48 ≤ 65535) :
    (hashToField (expandMessageXmd H) 48 Fr.fromOkm msg dst count).map (List.map Zp.coords)
      = Rfc.hash_to_field (Rfc.expand_message_xmd H.hash H.outSize H.blockSize) Gen.r 1 48
          msg dst count :=
  (hashToField_fr_rfc _ msg dst count (xmd_len_ok H hout hH msg dst _ hdst hlen)).trans
    (rfc_hash_to_field_congr _ _ _ _ _ _ _ _
      (expandXmd_eq H msg dst _ hout hdst (by simpa using hlen)))

theorem hashToField_xmd_fq2_eq_rfc (hout : 0 < H.outSize) (hH : ∀ x, (H.hash x).length = H.outSize)
    (hdst : dst.length ≤ 255) (hlen : count * 128 ≤ 65535) :
    (hashToField (expandMessageXmd H) 128 Fq2.fromRo msg dst count).map (List.map Fq2.coords)
      = Rfc.hash_to_field (Rfc.expand_message_xmd H.hash H.outSize H.blockSize) Gen.q 2 64
          msg dst count :=
  (hashToField_fq2_rfc _ msg dst count (xmd_len_ok H hout hH msg dst _ hdst hlen)).trans
    (rfc_hash_to_field_congr _ _ _ _ _ _ _ _
      (expandXmd_eq H msg dst _ hout hdst (by omega)))

theorem hashToField_xof_fq_eq_rfc (hX : ∀ m n, (xof m n).length = n)
    (hdst : dst.length ≤ 255) (hlen : count * 64 ≤ 65535) :
    (hashToField (xofExpand xof) 64 Fq.fromOkm msg dst count).map (List.map Zp.coords)
      = Rfc.hash_to_field (Rfc.expand_message_xof xof) Gen.q 1 64 msg dst count :=
  (hashToField_fq_rfc _ msg dst count (xof_len_ok xof hX msg dst _)).trans
    (rfc_hash_to_field_congr _ _ _ _ _ _ _ _
      (expandXof_eq xof msg dst _ hdst (by simpa using hlen)).symm)

theorem hashToField_xof_fr_eq_rfc (hX : ∀ m n, (xof m n).length = n)
    (hdst : dst.length ≤ 255) (hlen : count * 48 ≤ 65535) :
    (hashToField (xofExpand xof) 48 Fr.fromOkm msg dst count).map (List.map Zp.coords)
      = Rfc.hash_to_field (Rfc.expand_message_xof xof) Gen.r 1 48 msg dst count :=
  (hashToField_fr_rfc _ msg dst count (xof_len_ok xof hX msg dst _)).trans
    (rfc_hash_to_field_congr _ _ _ _ _ _ _ _
      (expandXof_eq xof msg dst _ hdst (by simpa using hlen)).symm)

theorem hashToField_xof_fq2_eq_rfc (hX : ∀ m n, (xof m n).length = n)
    (hdst : dst.length ≤ 255) (hlen : count * 128 ≤ 65535) :
    (hashToField (xofExpand xof) 128 Fq2.fromRo msg dst count).map (List.map Fq2.coords)
      = Rfc.hash_to_field (Rfc.expand_message_xof xof) Gen.q 2 64 msg dst count :=
  (hashToField_fq2_rfc _ msg dst count (xof_len_ok xof hX msg dst _)).trans
    (rfc_hash_to_field_congr _ _ _ _ _ _ _ _
      (expandXof_eq xof msg dst _ hdst (by omega)).symm)

/-! ## non-vacuity: a toy 2-byte hash, evaluated -/

/-- toy "hash": two polynomial checksums, 2-byte output, 3-byte block -/
def toyH : XmdHash :=
  ⟨2, 3, fun bs => [bs.foldl (fun a b => a * 31 + b) 7, bs.foldl (fun a b => a * 5 + b + 1) 3]⟩
def toyXof : Bytes → Nat → Bytes := fun bs n => (List.range n).map fun i => bs.foldl (· + ·) (UInt8.ofNat i)

-- 5 bytes = 3 blocks, the last one truncated; model and RFC agree on concrete bytes
example : expandMessageXmd toyH [1, 2, 3] [9, 8] 5 = some [213, 119, 174, 128, 37] := by decide +kernel
example : Rfc.expand_message_xmd toyH.hash 2 3 [1, 2, 3] [9, 8] 5 = some [213, 119, 174, 128, 37] := by
  decide +kernel
-- `len = 0` returns the empty string, `255 * outSize` is still served, `255 * outSize + 1` panics
example : expandMessageXmd toyH [1, 2, 3] [9, 8] 0 = some [] := by decide +kernel
example : (expandMessageXmd toyH [1] [2] (255 * 2)).isSome = true := by decide +kernel
example : expandMessageXmd toyH msg dst (255 * 2 + 1) = none :=
  (expandXmd_panics_iff toyH msg dst _).mpr (by decide)
example : expandMessageXmd toyH msg dst (256 * 2) = none :=
  (expandXmd_panics_iff toyH msg dst _).mpr (by decide)
example : expandMessageXof toyXof [1, 2] [3] 4 = [11, 12, 13, 14] := by decide +kernel
example : Rfc.expand_message_xof toyXof [1, 2] [3] 4 = some [11, 12, 13, 14] := by decide +kernel
-- the hypotheses `dst.length ≤ 255`, `len ≤ 65535` are needed: beyond them the code returns
-- bytes where the RFC aborts
example : (expandMessageXmd toyH [] (List.replicate 256 0) 1).isSome = true
    ∧ Rfc.expand_message_xmd toyH.hash 2 3 [] (List.replicate 256 0) 1 = none := by decide +kernel
-- hash_to_field with two Fr elements out of 96 bytes
example : hashToField (xofExpand toyXof) 48 Fr.fromOkm [1] [2] 2
    = some [Zp.ofNat (Rfc.OS2IP ((List.range 48).map fun i => UInt8.ofNat (i + 100))),
            Zp.ofNat (Rfc.OS2IP ((List.range 48).map fun i => UInt8.ofNat (i + 148)))] := by
  decide +kernel

end C13
end PP
