/-
CURVE ORDERS.  The last explicit hypotheses of the development — the orders / exponents of the two
curve groups — PROVED, with no hypothesis and no axiom beyond `propext`, `Classical.choice`,
`Quot.sound`.

    E  : y² = x³ + 4        over Fq    (`W b₁`, `b₁ = g1Codec.b`),   h₁ = G1_COFACTOR
    E' : y² = x³ + 4(1 + u) over Fq2   (`W b₂`, `b₂ = g2Codec.b`),   h₂ = G2_COFACTOR

STATUS: G1 complete; G2 complete.  Nothing is left as a hypothesis.

* `g1_card     : #E(Fq)   = h₁·r`,          `g2_card  : #E'(Fq2) = h₂·r`
* `g1_exponent : ((1 - x)·r) • g = 0` for all `g ∈ E(Fq)` (the shape of `hexp` in C17/C14/C06)
* `g1_order    : (h₁·r) • g = 0`,           `g2_order : (h₂·r) • g = 0`  (the shape of `hord`)
* `g2_exponent : (h₂·r/299) • g = 0`
* `g1_structure`, `g2_structure`: `E(Fq) = ⟨P⟩ ⊕ ⟨P₂⟩ ≅ Z/((1-x)r) × Z/((1-x)/3)` and
  `E'(Fq2) = ⟨P⟩ ⊕ ⟨P₂⟩ ≅ Z/(h₂r/299) × Z/299`, with explicit generators.
* at the end: the hypothesis-free versions of every theorem of C17Inst, C07, C14, C06 that used to
  take `hexp` / `hord`.

Method (no point counting, no Hasse bound):
1. `#E(F) ≤ 2·#F + 1` (`PP/Proofs/CurveOrderBound.lean`), and both traces are negative, so
   `2·h·r > 2·#F + 1`: a subgroup of order `h·r` is the whole group (Lagrange).
2. a point `P` of order `B` (`B • P = 0`, `(B/p) • P ≠ 0` for the primes `p ∣ B`; kernel
   evaluations of the model's double-and-add, transported by the C01/C02/C07 theorems).
3. the second generator is `P₂ = ω((B/A) • P)`, `ω(x, y) = (βx, y)`, `β² + β + 1 = 0`
   (`PP/Proofs/CurveOrderOmega.lean`: `ω` is additive, `ω² + ω + 1 = 0`).  `⟨P⟩ ∩ ⟨P₂⟩ = 0`: at a
   prime `p ∣ A`, `ω Y = m • Y` (`Y = (B/p) • P`) forces `p ∣ m² + m + 1`; impossible for
   `p ≡ 2 (mod 3)`, two explicit residues to refute by computation for `p ≡ 1 (mod 3)`
   (`PP/Proofs/CurveOrderGroup.lean`).
4. primes: `r` (C-F1), `3, 11, 10177, 859267, 52437899` (G1); `13, 23, 2713, 11953, 262069` and the
   448-bit `c` (Pratt certificate with 24 nodes, `PP/Proofs/CurveOrderPrimes.lean`) (G2).

Build times: CurveOrderGroup 4 s, CurveOrderBound 7 s, CurveOrderOmega 9 s, CurveOrderCompute 3 s,
CurveOrderPrimes 5 s, CurveOrderG1 15 s, CurveOrderG2 30 s, this file < 10 s.
-/
import PP.Proofs.CurveOrderG2
import PP.Props.C17Inst
import PP.Props.C07
import PP.Props.C14
import PP.Props.C06

namespace PP.CurveOrder

open PP WeierstrassCurve.Affine

local notation "b₁" => g1Codec.b
local notation "b₂" => g2Codec.b

/-! ## G1 -/

/-- **`#E(Fq) = h₁ · r`** -/
theorem g1_card : Nat.card (W b₁).Point = Gen.G1_COFACTOR * Gen.r :=
  G1.card_and_exponent.1.trans G1.AB_eq

/-- **the exponent of `E(Fq)` divides `(1 - x) · r`** (hypothesis `hexp` of C17, C14, C06) -/
theorem g1_exponent : ∀ g : (W b₁).Point, (0xd201000000010001 * Gen.r) • g = 0 :=
  G1.card_and_exponent.2

/-- **`h₁ · r` kills `E(Fq)`** (hypothesis `hord` of C07) -/
theorem g1_order : ∀ g : (W b₁).Point, (Gen.G1_COFACTOR * Gen.r) • g = 0 := by
  intro g
  rw [← G1.AB_eq, mul_nsmul, G1.card_and_exponent.2]

/-- **the structure of `E(Fq)`**: with `A = (1 - x)/3 = 11·10177·859267·52437899` and
    `B = (1 - x)·r`, the point `P = (5, y)` has order `B`, `P₂ = ω((B/A)·P)` has order `A`, every
    point is `i·P + j·P₂`, and there are `A·B` points: `E(Fq) = ⟨P⟩ ⊕ ⟨P₂⟩ ≅ Z/B × Z/A`. -/
theorem g1_structure :
    Nat.card (W b₁).Point = G1.A * G1.B ∧ (∀ g : (W b₁).Point, G1.B • g = 0) ∧
      addOrderOf G1.P = G1.B ∧ addOrderOf G1.P₂ = G1.A ∧
      ∀ g : (W b₁).Point, ∃ i j : ℤ, g = i • G1.P + j • G1.P₂ :=
  G1.structure_thm

theorem g1_A_eq : G1.A = 11 * 10177 * 859267 * 52437899 := by decide +kernel
theorem g1_B_eq : G1.B = 0xd201000000010001 * Gen.r := rfl
theorem g1_AB_eq : G1.A * G1.B = Gen.G1_COFACTOR * Gen.r := G1.AB_eq

/-- the trivial bound used instead of Hasse, on any `y² = x³ + b` over a finite field -/
theorem card_le {F : Type} [Field F] [Finite F] (b : F) [ShortW b] :
    Nat.card (W b).Point ≤ 2 * Nat.card F + 1 :=
  card_point_le b

/-! ## G2 -/

/-- **`#E'(Fq2) = h₂ · r`** -/
theorem g2_card : Nat.card (W b₂).Point = Gen.G2_COFACTOR * Gen.r :=
  G2.card_and_exponent.1.trans G2.AB_eq

/-- **the exponent of `E'(Fq2)` divides `h₂ · r / 299`** -/
theorem g2_exponent : ∀ g : (W b₂).Point, (Gen.G2_COFACTOR * Gen.r / 299) • g = 0 := by
  intro g
  have e : Gen.G2_COFACTOR * Gen.r / 299 = G2.B := by decide +kernel
  rw [e]; exact G2.card_and_exponent.2 g

/-- **`h₂ · r` kills `E'(Fq2)`** (hypothesis `hord` of C17, C14, C06, C07) -/
theorem g2_order : ∀ g : (W b₂).Point, (Gen.G2_COFACTOR * Gen.r) • g = 0 := by
  intro g
  rw [← G2.AB_eq, mul_nsmul, G2.card_and_exponent.2]

/-- **the structure of `E'(Fq2)`**: `A = 13·23`, `B = h₂·r/299`; `P = (u, y)` has order `B`,
    `P₂ = ω((B/A)·P)` has order `A`, every point is `i·P + j·P₂`:
    `E'(Fq2) = ⟨P⟩ ⊕ ⟨P₂⟩ ≅ Z/B × Z/A`. -/
theorem g2_structure :
    Nat.card (W b₂).Point = G2.A * G2.B ∧ (∀ g : (W b₂).Point, G2.B • g = 0) ∧
      addOrderOf G2.P = G2.B ∧ addOrderOf G2.P₂ = G2.A ∧
      ∀ g : (W b₂).Point, ∃ i j : ℤ, g = i • G2.P + j • G2.P₂ :=
  G2.structure_thm

theorem g2_A_eq : G2.A = 13 * 23 := rfl
theorem g2_AB_eq : G2.A * G2.B = Gen.G2_COFACTOR * Gen.r := G2.AB_eq

/-- the factorisation of the G2 cofactor, with `c` the 448-bit prime of
    `PP/Proofs/CurveOrderPrimes.lean` -/
theorem g2_cofactor_factor :
    Gen.G2_COFACTOR = 13 ^ 2 * 23 ^ 2 * 2713 * 11953 * 262069 * Primes.c ∧ Nat.Prime Primes.c :=
  ⟨by decide +kernel, Primes.c_prime⟩

/-- the factorisation of the G1 cofactor -/
theorem g1_cofactor_factor :
    Gen.G1_COFACTOR = 3 * (11 * 10177 * 859267 * 52437899) ^ 2 := by decide +kernel

/-! ## the conditional theorems of C17, C07, C14, C06, now without hypothesis -/

section unconditional

/-! ### C17: `clear_h` lands in the order-`r` subgroup, for EVERY point of the curve -/

theorem g1_clearH_inSub' (P : Jac Fq) (hP : Jac.OnCurve b₁ P) : Jac.InSub b₁ (clearHG1 P) :=
  C17Inst.g1_clearH_inSub g1_exponent P hP

theorem g2_clearH_inSub' (P : Jac Fq2) (hP : Jac.OnCurve b₂ P) : Jac.InSub b₂ (clearHG2 P) :=
  C17Inst.g2_clearH_inSub g2_order P hP

theorem g1_clearH_killed' (P : Jac Fq) (hP : Jac.OnCurve b₁ P) :
    Gen.r • Jac.abs b₁ (clearHG1 P) = 0 :=
  (g1_clearH_inSub' P hP).2

theorem g2_clearH_killed' (P : Jac Fq2) (hP : Jac.OnCurve b₂ P) :
    Gen.r • Jac.abs b₂ (clearHG2 P) = 0 :=
  (g2_clearH_inSub' P hP).2

/-! ### C07: `scale_by_cofactor`, `random` -/

theorem g1_scaleByCofactor_inSub' {A : Aff Fq} (hA : Aff.OnCurve b₁ A) :
    Jac.InSub b₁ (A.mulBits (bitsMSB (limbsOf Gen.G1_COFACTOR_LIMBS Gen.G1_COFACTOR))) :=
  C07.g1_scaleByCofactor_inSub hA g1_order

theorem g2_scaleByCofactor_inSub' {A : Aff Fq2} (hA : Aff.OnCurve b₂ A) :
    Jac.InSub b₂ (A.mulBits (bitsMSB (limbsOf Gen.G2_COFACTOR_LIMBS Gen.G2_COFACTOR))) :=
  C07.g2_scaleByCofactor_inSub hA g2_order

/-- one round of `G1::random`: the candidate is on the curve and its cofactor multiple is in the
    subgroup -/
theorem g1_random_candidate_inSub' [SqrtOps Fq] [LawfulSqrtOps Fq] {x : Fq} {greatest : Bool}
    {p : Aff Fq} (h : Aff.getPointFromX b₁ x greatest = some p) :
    Aff.OnCurve b₁ p ∧
      Jac.InSub b₁ (p.mulBits (bitsMSB (limbsOf Gen.G1_COFACTOR_LIMBS Gen.G1_COFACTOR))) :=
  C07.random_candidate_inSub h g1_cofactor_lt g1_order

/-- one round of `G2::random` -/
theorem g2_random_candidate_inSub' [SqrtOps Fq2] [LawfulSqrtOps Fq2] {x : Fq2} {greatest : Bool}
    {p : Aff Fq2} (h : Aff.getPointFromX b₂ x greatest = some p) :
    Aff.OnCurve b₂ p ∧
      Jac.InSub b₂ (p.mulBits (bitsMSB (limbsOf Gen.G2_COFACTOR_LIMBS Gen.G2_COFACTOR))) :=
  C07.random_candidate_inSub h g2_cofactor_lt g2_order

/-! ### C14: the outputs of `map_to_curve` are in the subgroup -/

theorem g1_map_inSub' (u : Fq) : Jac.InSub b₁ (mapToCurveG1 u) :=
  C14.g1_map_inSub g1_exponent u

theorem g1_map2_inSub' (u0 u1 : Fq) : Jac.InSub b₁ (map2ToCurveG1 u0 u1) :=
  C14.g1_map2_inSub g1_exponent u0 u1

theorem g1_map_inSubgroup' (u : Fq) :
    ∃ A, (mapToCurveG1 u).toAffine = some A ∧ Aff.inSubgroup b₁ A = true :=
  C14.g1_map_inSubgroup g1_exponent u

theorem g1_map2_inSubgroup' (u0 u1 : Fq) :
    ∃ A, (map2ToCurveG1 u0 u1).toAffine = some A ∧ Aff.inSubgroup b₁ A = true :=
  C14.g1_map2_inSubgroup g1_exponent u0 u1

theorem g2_map_inSub' (u : Fq2) : ∃ R, mapToCurveG2 u = some R ∧ Jac.InSub b₂ R :=
  C14.g2_map_inSub g2_order u

theorem g2_map2_inSub' (u0 u1 : Fq2) : ∃ R, map2ToCurveG2 u0 u1 = some R ∧ Jac.InSub b₂ R :=
  C14.g2_map2_inSub g2_order u0 u1

theorem g2_map2_inSubgroup' (u0 u1 : Fq2) :
    ∃ R A, map2ToCurveG2 u0 u1 = some R ∧ R.toAffine = some A ∧ Aff.inSubgroup b₂ A = true :=
  C14.g2_map2_inSubgroup g2_order u0 u1

/-! ### C06: the outputs of `hash_to_curve` / `encode_to_curve` are in the subgroup -/

variable (expand : Bytes → Bytes → Nat → Option Bytes) (msg dst : Bytes)

theorem hashToCurveG1_inSub' {P : Jac Fq} (h : hashToCurveG1 expand msg dst = some P) :
    Jac.InSub b₁ P :=
  C06.hashToCurveG1_inSub expand msg dst g1_exponent h

theorem encodeToCurveG1_inSub' {P : Jac Fq} (h : encodeToCurveG1 expand msg dst = some P) :
    Jac.InSub b₁ P :=
  C06.encodeToCurveG1_inSub expand msg dst g1_exponent h

theorem hashToCurveG2_inSub' {P : Jac Fq2} (h : hashToCurveG2 expand msg dst = some P) :
    Jac.InSub b₂ P :=
  C06.hashToCurveG2_inSub expand msg dst g2_order h

theorem encodeToCurveG2_inSub' {P : Jac Fq2} (h : encodeToCurveG2 expand msg dst = some P) :
    Jac.InSub b₂ P :=
  C06.encodeToCurveG2_inSub expand msg dst g2_order h

end unconditional

end PP.CurveOrder
