/-
PROPERTY C18.  "For every element a of Fq, Fr or Fq2, the square-root routine returns some b with
b^2=a whenever a is a square and reports failure otherwise, and the Legendre symbol is zero /
residue / non-residue exactly according to Euler's criterion (for Fq2: of the norm). sgn0 is the
parity of the canonical integer (for Fq2: of the first non-zero coefficient, real part first), the
order on Fq is that of canonical integers and on Fq2 lexicographic with the u-coefficient most
significant, so for every y != 0 exactly one of y, -y is the larger and sgn0(-y) != sgn0(y) in Fq."

Status: everything is proved unconditionally for `Fq`, `Fr` and for the sign / order / Legendre
part of `Fq2`.  The `Fq2.sqrt` statements (`fq2_sqrt_*_of`) carry the explicit hypothesis
`Fq2Sqrt.FieldHyp` (a `Field Fq2` on the model's operations, `x^(q²-1) = 1`,
`frobeniusMap x 1 = x^q`), which the tower proofs discharge.
-/
import PP.Proofs.Sqrt
import PP.Proofs.SqrtFr
import PP.Proofs.SqrtFq2

namespace PP
namespace C18

/-! ## Fq -/

/-- `Fq::sqrt`: a returned value is a square root. -/
theorem fq_sqrt_sound (a b : Fq) (h : Fq.sqrt a = some b) : b * b = a := Fq.sqrt_sound a b h

/-- `Fq::sqrt` reports failure exactly on non-squares. -/
theorem fq_sqrt_none_iff (a : Fq) : Fq.sqrt a = none ↔ ¬ IsSquare a := Fq.sqrt_none_iff a

/-- `Fq::sqrt` returns a root of every square (including `0`). -/
theorem fq_sqrt_complete (a : Fq) (h : IsSquare a) : ∃ b, Fq.sqrt a = some b ∧ b * b = a :=
  Fq.sqrt_complete a h

/-- `Fq::legendre` computes `a^((q-1)/2)` and classifies it (Euler's criterion, formula). -/
theorem fq_legendre_formula (a : Fq) : Fq.legendre a =
    if a ^ ((Gen.q - 1) / 2) = 0 then .zero
    else if a ^ ((Gen.q - 1) / 2) = 1 then .residue else .nonResidue := Fq.legendre_eq a

/-- `Fq::legendre` is zero / residue / non-residue exactly as `a` is `0` / a non-zero square /
    a non-square. -/
theorem fq_legendre (a : Fq) :
    (Fq.legendre a = .zero ↔ a = 0) ∧ (Fq.legendre a = .residue ↔ a ≠ 0 ∧ IsSquare a) ∧
    (Fq.legendre a = .nonResidue ↔ ¬ IsSquare a) :=
  ⟨Fq.legendre_zero_iff a, Fq.legendre_residue_iff a, Fq.legendre_nonResidue_iff a⟩

/-! ## Fr -/

/-- The fuel of the model of `Fr::sqrt` is never exhausted: the Rust `while`/`loop` loops terminate
    on every input and `m - i - 1` never underflows. -/
theorem fr_sqrt_terminates (a : Fr) : Fr.sqrtFuel a ≠ none := Fr.sqrtFuel_ne_none a

theorem fr_sqrtFuel_sound (a b : Fr) (h : Fr.sqrtFuel a = some (some b)) : b * b = a :=
  Fr.sqrtFuel_sound a b h

theorem fr_sqrtFuel_none_iff (a : Fr) : Fr.sqrtFuel a = some none ↔ ¬ IsSquare a :=
  Fr.sqrtFuel_none_iff a

/-- `Fr::sqrt` (Tonelli–Shanks): a returned value is a square root. -/
theorem fr_sqrt_sound (a b : Fr) (h : Fr.sqrt a = some b) : b * b = a := Fr.sqrt_sound a b h

/-- `Fr::sqrt` reports failure exactly on non-squares. -/
theorem fr_sqrt_none_iff (a : Fr) : Fr.sqrt a = none ↔ ¬ IsSquare a := Fr.sqrt_none_iff a

theorem fr_sqrt_complete (a : Fr) (h : IsSquare a) : ∃ b, Fr.sqrt a = some b ∧ b * b = a :=
  Fr.sqrt_complete a h

theorem fr_legendre_formula (a : Fr) : Fr.legendre a =
    if a ^ ((Gen.r - 1) / 2) = 0 then .zero
    else if a ^ ((Gen.r - 1) / 2) = 1 then .residue else .nonResidue := Fr.legendre_eq a

theorem fr_legendre (a : Fr) :
    (Fr.legendre a = .zero ↔ a = 0) ∧ (Fr.legendre a = .residue ↔ a ≠ 0 ∧ IsSquare a) ∧
    (Fr.legendre a = .nonResidue ↔ ¬ IsSquare a) :=
  ⟨Fr.legendre_zero_iff a, Fr.legendre_residue_iff a, Fr.legendre_nonResidue_iff a⟩

/-- the Tonelli–Shanks constant has multiplicative order exactly `2^S = 2^32` -/
theorem fr_root_of_unity_order :
    (Fr.ofMont Gen.fr_ROOT_OF_UNITY) ^ (2 ^ 32) = 1 ∧ (Fr.ofMont Gen.fr_ROOT_OF_UNITY) ^ (2 ^ 31) ≠ 1 :=
  ⟨Fr.root_pow_full, Fr.root_pow_half_ne_one⟩

/-! ## sign and order on the prime fields (`Fq`; the same lemmas hold for `Fr`) -/

/-- `sgn0` is the parity of the canonical integer. -/
theorem sgn0_fq (a : Fq) : Zp.sgn0 a = .negative ↔ a.v % 2 = 1 := Zp.sgn0_negative_iff a

/-- `Ord for Fq` is `<` on canonical integers … -/
theorem lt_fq (a b : Fq) : Zp.lt a b = true ↔ a.v < b.v := Zp.lt_iff a b

/-- … hence a strict total order. -/
theorem lt_fq_strict_total :
    (∀ a : Fq, Zp.lt a a = false) ∧
    (∀ a b : Fq, Zp.lt a b = true → Zp.lt b a = false) ∧
    (∀ a b c : Fq, Zp.lt a b = true → Zp.lt b c = true → Zp.lt a c = true) ∧
    (∀ a b : Fq, a ≠ b → Zp.lt a b = true ∨ Zp.lt b a = true) :=
  ⟨Zp.lt_irrefl, Zp.lt_asymm, Zp.lt_trans, Zp.lt_total⟩

/-- for `y ≠ 0`, `y ≠ -y` and exactly one of `y`, `-y` is the larger -/
theorem neg_order (y : Fq) (hy : y ≠ 0) :
    y ≠ -y ∧ (Zp.lt y (-y) = true ↔ Zp.lt (-y) y = false) :=
  ⟨Fq.ne_neg_self y hy, Fq.neg_order y hy⟩

theorem neg_order_xor (y : Fq) (hy : y ≠ 0) :
    (Zp.lt y (-y) = true ∧ Zp.lt (-y) y = false) ∨ (Zp.lt (-y) y = true ∧ Zp.lt y (-y) = false) :=
  Zp.neg_order_xor Fq.q_odd y hy

/-- `sgn0(-y) ≠ sgn0(y)` for `y ≠ 0` in `Fq` -/
theorem sgn0_neg (y : Fq) (hy : y ≠ 0) : Zp.sgn0 (-y) ≠ Zp.sgn0 y := Fq.sgn0_neg y hy

theorem sgn0_neg_fr (y : Fr) (hy : y ≠ 0) : Zp.sgn0 (-y) ≠ Zp.sgn0 y := Fr.sgn0_neg y hy

/-! ## Fq2: sign, order, Legendre symbol (unconditional) -/

/-- `sgn0` on `Fq2`: of the first non-zero coefficient, real part first. -/
theorem sgn0_fq2 (a : Fq2) :
    Fq2.sgn0 a = if a.c0 = 0 then Zp.sgn0 a.c1 else Zp.sgn0 a.c0 := Fq2Sqrt.sgn0_eq a

/-- `Ord for Fq2` is lexicographic with the `u`-coefficient most significant … -/
theorem lt_fq2 (a b : Fq2) :
    Fq2.lt a b = true ↔ a.c1.v < b.c1.v ∨ (a.c1.v = b.c1.v ∧ a.c0.v < b.c0.v) :=
  Fq2Sqrt.lt_iff a b

/-- … hence a strict total order. -/
theorem lt_fq2_strict_total :
    (∀ a : Fq2, Fq2.lt a a = false) ∧
    (∀ a b : Fq2, Fq2.lt a b = true → Fq2.lt b a = false) ∧
    (∀ a b c : Fq2, Fq2.lt a b = true → Fq2.lt b c = true → Fq2.lt a c = true) ∧
    (∀ a b : Fq2, a ≠ b → Fq2.lt a b = true ∨ Fq2.lt b a = true) :=
  ⟨Fq2Sqrt.lt_irrefl, Fq2Sqrt.lt_asymm, Fq2Sqrt.lt_trans, Fq2Sqrt.lt_total⟩

/-- for `y ≠ 0` in `Fq2` (componentwise negation) exactly one of `y`, `-y` is the larger -/
theorem neg_order_fq2 (y : Fq2) (hy : y ≠ 0) :
    (Fq2.lt y (-y) = true ∧ Fq2.lt (-y) y = false) ∨
    (Fq2.lt (-y) y = true ∧ Fq2.lt y (-y) = false) := Fq2Sqrt.neg_order_fq2 y hy

/-- `Fq2::legendre` is the Legendre symbol of the norm, i.e. Euler's criterion applied to the norm. -/
theorem fq2_legendre (a : Fq2) :
    Fq2.legendre a = Fq.legendre (Fq2.norm a) ∧
    Fq2.norm a = a.c1 * a.c1 + a.c0 * a.c0 ∧
    (Fq2.legendre a = .zero ↔ a = 0) ∧
    (Fq2.legendre a = .residue ↔ a ≠ 0 ∧ IsSquare (Fq2.norm a)) ∧
    (Fq2.legendre a = .nonResidue ↔ ¬ IsSquare (Fq2.norm a)) :=
  ⟨rfl, rfl, Fq2Sqrt.legendre_zero_iff a, Fq2Sqrt.legendre_residue_iff a,
    Fq2Sqrt.legendre_nonResidue_iff a⟩

/-! ## Fq2: square root, under the explicit hypotheses `Fq2Sqrt.FieldHyp` -/

section
-- as in `PP.Proofs.SqrtFq2`: switch the model's notation instances off locally, so that `b * b`
-- and `IsSquare` below are those of the hypothesised `Field Fq2` (which `FieldHyp` equates with
-- the model's operations)
attribute [-instance] Fq2.instMul Fq2.instOne Fq2.instZero Fq2.instAdd Fq2.instNeg Fq2.instSub
  Fq2.instInhabited
variable [Field Fq2]

/-- `Fq2::sqrt` (Algorithm 9): a returned value is a square root. -/
theorem fq2_sqrt_sound_of (H : Fq2Sqrt.FieldHyp) (a b : Fq2) (h : Fq2.sqrt a = some b) :
    b * b = a := Fq2Sqrt.fq2_sqrt_sound_of H a b h

/-- `Fq2::sqrt` reports failure exactly on non-squares. -/
theorem fq2_sqrt_none_iff_of (H : Fq2Sqrt.FieldHyp) (a : Fq2) :
    Fq2.sqrt a = none ↔ ¬ IsSquare a := Fq2Sqrt.fq2_sqrt_none_iff_of H a

/-- `Fq2::sqrt` returns a root of every square. -/
theorem fq2_sqrt_complete_of (H : Fq2Sqrt.FieldHyp) (a : Fq2) (h : IsSquare a) :
    ∃ b, Fq2.sqrt a = some b ∧ b * b = a := Fq2Sqrt.fq2_sqrt_complete_of H a h

end

/-! ## the interface instances consumed by the decoders -/

example : LawfulSqrtOps Fq := inferInstance
example : LawfulSqrtOps Fr := inferInstance

/-! ## non-vacuity: the routines on concrete inputs (kernel evaluation of the model) -/

example : Fq.sqrt (Zp.ofNat 4) = some (Zp.ofNat (Gen.q - 2)) := by decide +kernel
example : Fq.sqrt 0 = some 0 := by decide +kernel
example : Fq.sqrt (Zp.ofNat 2) = none := by decide +kernel
example : Fq.legendre (Zp.ofNat 2) = .nonResidue := by decide +kernel
example : Fq.legendre (Zp.ofNat 4) = .residue := by decide +kernel
example : Fq.legendre 0 = .zero := by decide +kernel
example : Fr.sqrtFuel (Zp.ofNat 4) = some (some (Zp.ofNat (Gen.r - 2))) := by decide +kernel
example : Fr.sqrt (Zp.ofNat 7) = none := by decide +kernel
example : Fr.legendre (Zp.ofNat 5) = .nonResidue := by decide +kernel
/-- an input on which the Tonelli–Shanks outer loop actually iterates -/
example : Fr.sqrt (Fr.ofMont Gen.fr_ROOT_OF_UNITY * Fr.ofMont Gen.fr_ROOT_OF_UNITY)
    = some (Fr.ofMont Gen.fr_ROOT_OF_UNITY) := by decide +kernel
example : Fq2.sqrt ⟨Zp.ofNat 3, Zp.ofNat 4⟩ = some ⟨Zp.ofNat 2, 1⟩ := by decide +kernel
example : Fq2.sqrt ⟨1, 1⟩ = none := by decide +kernel
example : (Fq2.sqrt ⟨0, 1⟩).isSome = true := by decide +kernel
example : Fq2.legendre ⟨1, 1⟩ = .nonResidue := by decide +kernel
example : Fq2.sgn0 ⟨0, 1⟩ = .negative := by decide +kernel
example : Fq2.lt ⟨Zp.ofNat 5, 1⟩ ⟨0, Zp.ofNat 2⟩ = true := by decide +kernel
example : Zp.sgn0 (-(1 : Fq)) = .nonNegative ∧ Zp.sgn0 (1 : Fq) = .negative := by decide +kernel

end C18
end PP
