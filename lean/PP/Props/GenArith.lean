/-
OBLIGATIONS "GenArith": the straight-line arithmetic of the hand-written model IS the Rust source.

`PP/Gen/Arith.lean` (namespace `PP.Gen.A`) is REGENERATED from /repo on every run of
/verif/extract/extract.py by /verif/extract/extract_arith.py: one Lean definition per Rust function,
one `let` per Rust statement.  Each theorem below states that such a regenerated definition is equal
(as a function) to the hand-written model definition that all other properties are proved about.
A change of the MEANING of one of these Rust functions makes the corresponding theorem fail (or the
extractor refuses the new shape), whether or not a test input exposes it.  A rewrite that preserves the
meaning does not, for the functions over the concrete fields: the proofs (`gen_eq`,
PP/Proofs/GenArithTactic.lean) compare the two sides up to `let`s / projections first and, if that
fails, extensionally up to the commutative-ring laws of `Fq` (core solver `grobner`).  The functions
that are generic in the coefficient field are stated over bare notation classes (no laws); for those
only the syntactic comparison is possible, and the law-assuming versions are the additional
`_of_ring` / `_Fq` / `_Fq2` theorems below.

Correspondence Rust -> generated -> model:
  fq2.rs   mul_by_nonresidue norm zero one is_zero square double negate add_assign sub_assign mul_assign
           inverse frobenius_map, SqrtField::{legendre, sqrt}, Signum0::sgn0, Ord::cmp -> `PP.Fq2.*`
  fq.rs    Signum0::sgn0                                                             -> `Zp.sgn0`
  signum.rs  BitXor for Sgn0Result, Signum0::negate_if (default method)              -> `PP.Sgn0.xor`, `PP.negateIf`
  fq6.rs   mul_by_nonresidue mul_by_1 mul_by_01 zero one is_zero double negate add_assign sub_assign
           frobenius_map square mul_assign inverse                                   -> `PP.Fq6.*`
  fq12.rs  conjugate mul_by_014 zero one is_zero double negate add_assign sub_assign frobenius_map
           square mul_assign inverse                                                 -> `PP.Fq12.*`
  ec/mod.rs (macro `curve_impl!`, generic in the coefficient field)
           $affine: zero is_zero negate is_on_curve, From<$affine> for $projective, mul_bits, mul,
           get_point_from_x, is_in_correct_subgroup_assuming_on_curve                -> `PP.Aff.*`
           $projective: zero is_zero is_normalized PartialEq::eq double add_assign add_assign_mixed
           negate, From<$projective> for $affine, mul_assign                         -> `PP.Jac.*`
  lib.rs   CurveProjective::{sub_assign, sub_assign_mixed} (default methods)         -> `PP.Jac.sub`, `PP.Jac.subMixed`
  ec/g1.rs, ec/g2.rs  SubgroupCheck::in_subgroup                                     -> `PP.Aff.inSubgroup`
  osswu_map/mod.rs  osswu_help                                                       -> `PP.osswuHelp`
  osswu_map/g1.rs, g2.rs  OSSWUMap::osswu_map                                        -> `PP.osswuG1`, `PP.osswuG2`
  cofactor.rs  ClearH::clear_h for G1, G2                                            -> `PP.clearHG1`, `PP.clearHG2`
  map_to_curve.rs  map_to_curve, map2_to_curve (generic over the traits)             -> `PP.mapToCurveG1` ... `PP.map2ToCurveG2`
  mod.rs   doubling_step addition_step ell exp_by_x final_exponentiation             -> `PP.doublingStep` ...

Differences of representation that are visible in the statements: `$affine::is_zero` is inlined in
the model (`.infinity`); the `u64` argument of `exp_by_x` is a `UInt64` in the generated code and a
`Nat` (reduced mod 2^64 inside) in the model; `Ord for Fq2` returns an `Ordering` where the model
only has the derived `<` (`Fq2.lt`); associated constants of the macro (`get_coeff_b()`,
`$scalarfield::char()`) are leading parameters of the generated definitions, instantiated in the
statements (`Gen.r`); `map_to_curve` / `map2_to_curve` are generic over traits, their generated
definitions take the trait methods as parameters (`osswu_map` Option-valued: `none` = panic) and the
statements instantiate them with the generated methods of G1 / G2 and, for `isogeny_map`
(`eval_iso`, NOT translated), with the model's `iso11` / `iso3`.

Primitives of the base field that are derive-generated (not in /repo) and therefore taken from the
model: `Fq::sqrt`, `Fq::legendre` (`SqrtOps`), `Fq::cmp` (`compare` of the canonical integers),
`into_repr().0[0] & 1 == 1` (translated as `v % 2 = 1`), `BitIterator::new(repr)` (`bitsMSB (limbsOf 4 ·)`).
The addition chains called by `osswu_map` and `clear_h` are extracted separately (PP/Gen/Chains.lean)
and enter as the model's `chainPm3div4`, `chainP2m9div16`, `chainZ`, `chainH2Eff`.
-/
import PP.Proofs.GenArith

namespace PP.GenArith
open PP PP.Gen PP.GenArithLemmas


/-! ## Fq2 (src/bls12_381/fq2.rs) -/
theorem Fq2_mulByNonresidue : A.Fq2.mulByNonresidue = PP.Fq2.mulByNonresidue := Fq2_mulByNonresidue_eq
theorem Fq2_norm : A.Fq2.norm = PP.Fq2.norm := Fq2_norm_eq
theorem Fq2_zero : A.Fq2.zero = (0 : Fq2) := Fq2_zero_eq
theorem Fq2_one : A.Fq2.one = (1 : Fq2) := Fq2_one_eq
theorem Fq2_isZero : A.Fq2.isZero = PP.Fq2.isZero := Fq2_isZero_eq
theorem Fq2_square : A.Fq2.square = PP.Fq2.square := Fq2_square_eq
theorem Fq2_double : A.Fq2.double = PP.Fq2.double := Fq2_double_eq
theorem Fq2_neg : A.Fq2.neg = PP.Fq2.neg := Fq2_neg_eq
theorem Fq2_add : A.Fq2.add = PP.Fq2.add := Fq2_add_eq
theorem Fq2_sub : A.Fq2.sub = PP.Fq2.sub := Fq2_sub_eq
theorem Fq2_mul : A.Fq2.mul = PP.Fq2.mul := Fq2_mul_eq
theorem Fq2_inverse : A.Fq2.inverse = PP.Fq2.inverse := Fq2_inverse_eq
theorem Fq2_frobeniusMap : A.Fq2.frobeniusMap = PP.Fq2.frobeniusMap := Fq2_frobeniusMap_eq
theorem Fq2_legendre : A.Fq2.legendre = PP.Fq2.legendre := Fq2_legendre_eq
theorem Fq2_sqrt : A.Fq2.sqrt = PP.Fq2.sqrt := Fq2_sqrt_eq
theorem Fq2_sgn0 : A.Fq2.sgn0 = PP.Fq2.sgn0 := Fq2_sgn0_eq
theorem Fq2_cmp (a b : Fq2) : PP.Fq2.lt a b = decide (A.Fq2.cmp a b = Ordering.lt) := Fq2_cmp_lt a b

/-! ## `Signum0` (src/bls12_381/fq.rs, src/signum.rs) -/
theorem Fq_sgn0 : A.Fq.sgn0 = (Zp.sgn0 : Fq → Sgn0) := Fq_sgn0_eq
theorem Sgn0_xor : A.Sgn0.xor = PP.Sgn0.xor := Sgn0_xor_eq
theorem negateIf {F : Type} [Neg F] : (A.negateIf : F → Sgn0 → F) = PP.negateIf := negateIf_eq

/-! ## Fq6 (src/bls12_381/fq6.rs) -/
theorem Fq6_mulByNonresidue : A.Fq6.mulByNonresidue = PP.Fq6.mulByNonresidue := Fq6_mulByNonresidue_eq
theorem Fq6_mulBy1 : A.Fq6.mulBy1 = PP.Fq6.mulBy1 := Fq6_mulBy1_eq
theorem Fq6_mulBy01 : A.Fq6.mulBy01 = PP.Fq6.mulBy01 := Fq6_mulBy01_eq
theorem Fq6_zero : A.Fq6.zero = (0 : Fq6) := Fq6_zero_eq
theorem Fq6_one : A.Fq6.one = (1 : Fq6) := Fq6_one_eq
theorem Fq6_isZero : A.Fq6.isZero = PP.Fq6.isZero := Fq6_isZero_eq
theorem Fq6_double : A.Fq6.double = PP.Fq6.double := Fq6_double_eq
theorem Fq6_neg : A.Fq6.neg = PP.Fq6.neg := Fq6_neg_eq
theorem Fq6_add : A.Fq6.add = PP.Fq6.add := Fq6_add_eq
theorem Fq6_sub : A.Fq6.sub = PP.Fq6.sub := Fq6_sub_eq
theorem Fq6_frobeniusMap : A.Fq6.frobeniusMap = PP.Fq6.frobeniusMap := Fq6_frobeniusMap_eq
theorem Fq6_square : A.Fq6.square = PP.Fq6.square := Fq6_square_eq
theorem Fq6_mul : A.Fq6.mul = PP.Fq6.mul := Fq6_mul_eq
theorem Fq6_inverse : A.Fq6.inverse = PP.Fq6.inverse := Fq6_inverse_eq

/-! ## Fq12 (src/bls12_381/fq12.rs) -/
theorem Fq12_conjugate : A.Fq12.conjugate = PP.Fq12.conjugate := Fq12_conjugate_eq
theorem Fq12_mulBy014 : A.Fq12.mulBy014 = PP.Fq12.mulBy014 := Fq12_mulBy014_eq
theorem Fq12_zero : A.Fq12.zero = (0 : Fq12) := Fq12_zero_eq
theorem Fq12_one : A.Fq12.one = (1 : Fq12) := Fq12_one_eq
theorem Fq12_isZero : A.Fq12.isZero = PP.Fq12.isZero := Fq12_isZero_eq
theorem Fq12_double : A.Fq12.double = PP.Fq12.double := Fq12_double_eq
theorem Fq12_neg : A.Fq12.neg = PP.Fq12.neg := Fq12_neg_eq
theorem Fq12_add : A.Fq12.add = PP.Fq12.add := Fq12_add_eq
theorem Fq12_sub : A.Fq12.sub = PP.Fq12.sub := Fq12_sub_eq
theorem Fq12_frobeniusMap : A.Fq12.frobeniusMap = PP.Fq12.frobeniusMap := Fq12_frobeniusMap_eq
theorem Fq12_square : A.Fq12.square = PP.Fq12.square := Fq12_square_eq
theorem Fq12_mul : A.Fq12.mul = PP.Fq12.mul := Fq12_mul_eq
theorem Fq12_inverse : A.Fq12.inverse = PP.Fq12.inverse := Fq12_inverse_eq

/-! ## `curve_impl!` (src/bls12_381/ec/mod.rs), generic in the coefficient field -/

section
set_option linter.unusedSectionVars false
variable {F : Type} [Add F] [Sub F] [Mul F] [Neg F] [Zero F] [One F] [FieldOps F] [DecidableEq F]

theorem Aff_zero : (A.Aff.zero : Aff F) = PP.Aff.zero := Aff_zero_eq
theorem Aff_isZero : (A.Aff.isZero : Aff F → Bool) = fun p => p.infinity := Aff_isZero_eq
theorem Aff_isOnCurve : (A.Aff.isOnCurve : F → Aff F → Bool) = PP.Aff.isOnCurve := Aff_isOnCurve_eq
theorem Jac_zero : (A.Jac.zero : Jac F) = PP.Jac.zero := Jac_zero_eq
theorem Jac_isZero : (A.Jac.isZero : Jac F → Bool) = PP.Jac.isZero := Jac_isZero_eq
theorem Jac_isNormalized : (A.Jac.isNormalized : Jac F → Bool) = PP.Jac.isNormalized := Jac_isNormalized_eq
theorem Jac_beq : (A.Jac.beq : Jac F → Jac F → Bool) = PP.Jac.beq := Jac_beq_eq
theorem Jac_double : (A.Jac.double : Jac F → Jac F) = PP.Jac.double := Jac_double_eq
theorem Jac_add : (A.Jac.add : Jac F → Jac F → Jac F) = PP.Jac.add := Jac_add_eq
theorem Jac_addMixed : (A.Jac.addMixed : Jac F → Aff F → Jac F) = PP.Jac.addMixed := Jac_addMixed_eq
theorem Aff_toJac : (A.Aff.toJac : Aff F → Jac F) = PP.Aff.toJac := Aff_toJac_eq
theorem Jac_toAffine : (A.Jac.toAffine : Jac F → Option (Aff F)) = PP.Jac.toAffine := Jac_toAffine_eq
theorem Aff_neg : (A.Aff.neg : Aff F → Aff F) = PP.Aff.neg := Aff_neg_eq
theorem Jac_neg : (A.Jac.neg : Jac F → Jac F) = PP.Jac.neg := Jac_neg_eq
theorem Aff_mulBits : (A.Aff.mulBits : Aff F → List Bool → Jac F) = PP.Aff.mulBits := Aff_mulBits_eq
theorem Aff_mul : (A.Aff.mul : Aff F → Nat → Jac F) = PP.Aff.mul := Aff_mul_eq
theorem Jac_mulAssign : (A.Jac.mulAssign : Jac F → Nat → Jac F) = PP.Jac.mulAssign := Jac_mulAssign_eq
theorem Aff_getPointFromX [SqrtOps F] :
    (A.Aff.getPointFromX : F → F → Bool → Option (Aff F)) = PP.Aff.getPointFromX := Aff_getPointFromX_eq
theorem Aff_isInCorrectSubgroupAssumingOnCurve :
    (A.Aff.isInCorrectSubgroupAssumingOnCurve Gen.r : Aff F → Bool) = PP.Aff.inSubgroupAssumingOnCurve :=
  Aff_isInCorrectSubgroupAssumingOnCurve_eq
/-- src/lib.rs, default methods of `trait CurveProjective` -/
theorem Jac_sub : (A.Jac.sub : Jac F → Jac F → Jac F) = PP.Jac.sub := Jac_sub_eq
theorem Jac_subMixed : (A.Jac.subMixed : Jac F → Aff F → Jac F) = PP.Jac.subMixed := Jac_subMixed_eq

/-! ## `osswu_help` (src/bls12_381/osswu_map/mod.rs) -/
theorem osswuHelp : (A.osswuHelp : F → F → F → F → OsswuHelp F) = PP.osswuHelp := osswuHelp_eq

end

/-! ## the arithmetic-carrying functions of `curve_impl!` / `osswu_help` over a coefficient ring WITH laws

The theorems of the previous section are over bare notation classes, where only syntactic equality
(up to `let`s and projections) can hold: an algebraically equivalent rewrite of the Rust formulas makes
them fail although the code is still right.  Over a coefficient type with ring laws
(`Lean.Grind.CommRing F`, core class; `PP.GenArithTactic.LawfulSqDbl F`: `sq a = a * a`, `dbl a = a + a`)
the same equalities are proved up to ring identities and survive such rewrites; `_Fq` / `_Fq2` are the
instances for the model's fields with the model's own operations (the statements are literally those of
the previous section at `F := Fq`, `Fq2`). -/

section
open PP.GenArithTactic
set_option linter.unusedSectionVars false
variable {F : Type} [Lean.Grind.CommRing F] [FieldOps F] [LawfulSqDbl F] [DecidableEq F]

theorem Aff_isOnCurve_of_ring : (A.Aff.isOnCurve : F → Aff F → Bool) = PP.Aff.isOnCurve := Aff_isOnCurve_eq_of_ring
theorem Jac_beq_of_ring : (A.Jac.beq : Jac F → Jac F → Bool) = PP.Jac.beq := Jac_beq_eq_of_ring
theorem Jac_double_of_ring : (A.Jac.double : Jac F → Jac F) = PP.Jac.double := Jac_double_eq_of_ring
theorem Jac_add_of_ring : (A.Jac.add : Jac F → Jac F → Jac F) = PP.Jac.add := Jac_add_eq_of_ring
theorem Jac_addMixed_of_ring : (A.Jac.addMixed : Jac F → Aff F → Jac F) = PP.Jac.addMixed := Jac_addMixed_eq_of_ring
theorem Jac_toAffine_of_ring : (A.Jac.toAffine : Jac F → Option (Aff F)) = PP.Jac.toAffine := Jac_toAffine_eq_of_ring
theorem osswuHelp_of_ring : (A.osswuHelp : F → F → F → F → OsswuHelp F) = PP.osswuHelp := osswuHelp_eq_of_ring
theorem Aff_getPointFromX_of_ring [SqrtOps F] :
    (A.Aff.getPointFromX : F → F → Bool → Option (Aff F)) = PP.Aff.getPointFromX := Aff_getPointFromX_eq_of_ring

end

theorem Aff_isOnCurve_Fq : (A.Aff.isOnCurve : Fq → Aff Fq → Bool) = PP.Aff.isOnCurve := Aff_isOnCurve_eq_Fq
theorem Jac_beq_Fq : (A.Jac.beq : Jac Fq → Jac Fq → Bool) = PP.Jac.beq := Jac_beq_eq_Fq
theorem Jac_double_Fq : (A.Jac.double : Jac Fq → Jac Fq) = PP.Jac.double := Jac_double_eq_Fq
theorem Jac_add_Fq : (A.Jac.add : Jac Fq → Jac Fq → Jac Fq) = PP.Jac.add := Jac_add_eq_Fq
theorem Jac_addMixed_Fq : (A.Jac.addMixed : Jac Fq → Aff Fq → Jac Fq) = PP.Jac.addMixed := Jac_addMixed_eq_Fq
theorem Jac_toAffine_Fq : (A.Jac.toAffine : Jac Fq → Option (Aff Fq)) = PP.Jac.toAffine := Jac_toAffine_eq_Fq
theorem osswuHelp_Fq : (A.osswuHelp : Fq → Fq → Fq → Fq → OsswuHelp Fq) = PP.osswuHelp := osswuHelp_eq_Fq
theorem Aff_getPointFromX_Fq :
    (A.Aff.getPointFromX : Fq → Fq → Bool → Option (Aff Fq)) = PP.Aff.getPointFromX := Aff_getPointFromX_eq_Fq

theorem Aff_isOnCurve_Fq2 : (A.Aff.isOnCurve : Fq2 → Aff Fq2 → Bool) = PP.Aff.isOnCurve := Aff_isOnCurve_eq_Fq2
theorem Jac_beq_Fq2 : (A.Jac.beq : Jac Fq2 → Jac Fq2 → Bool) = PP.Jac.beq := Jac_beq_eq_Fq2
theorem Jac_double_Fq2 : (A.Jac.double : Jac Fq2 → Jac Fq2) = PP.Jac.double := Jac_double_eq_Fq2
theorem Jac_add_Fq2 : (A.Jac.add : Jac Fq2 → Jac Fq2 → Jac Fq2) = PP.Jac.add := Jac_add_eq_Fq2
theorem Jac_addMixed_Fq2 : (A.Jac.addMixed : Jac Fq2 → Aff Fq2 → Jac Fq2) = PP.Jac.addMixed := Jac_addMixed_eq_Fq2
theorem Jac_toAffine_Fq2 : (A.Jac.toAffine : Jac Fq2 → Option (Aff Fq2)) = PP.Jac.toAffine := Jac_toAffine_eq_Fq2
theorem osswuHelp_Fq2 : (A.osswuHelp : Fq2 → Fq2 → Fq2 → Fq2 → OsswuHelp Fq2) = PP.osswuHelp := osswuHelp_eq_Fq2
theorem Aff_getPointFromX_Fq2 :
    (A.Aff.getPointFromX : Fq2 → Fq2 → Bool → Option (Aff Fq2)) = PP.Aff.getPointFromX := Aff_getPointFromX_eq_Fq2

/-! ## `SubgroupCheck` (ec/g1.rs, ec/g2.rs), `osswu_map` (osswu_map/g1.rs, g2.rs), `clear_h` (cofactor.rs),
    `map_to_curve` / `map2_to_curve` (src/map_to_curve.rs) -/
theorem G1Affine_inSubgroup (b : Fq) : A.G1Affine.inSubgroup b Gen.r = PP.Aff.inSubgroup b := G1Affine_inSubgroup_eq b
theorem G2Affine_inSubgroup (b : Fq2) : A.G2Affine.inSubgroup b Gen.r = PP.Aff.inSubgroup b := G2Affine_inSubgroup_eq b
theorem G1_osswuMap : A.G1.osswuMap = PP.osswuG1 := G1_osswuMap_eq
theorem G2_osswuMap : A.G2.osswuMap = PP.osswuG2 := G2_osswuMap_eq
theorem G1_clearH : A.G1.clearH = PP.clearHG1 := G1_clearH_eq
theorem G2_clearH : A.G2.clearH = PP.clearHG2 := G2_clearH_eq
theorem mapToCurve_G1 :
    A.mapToCurve (osswu_map := fun u => some (A.G1.osswuMap u)) (isogeny_map := PP.iso11) (clear_h := A.G1.clearH)
      = fun u => some (PP.mapToCurveG1 u) := mapToCurve_G1_eq
theorem map2ToCurve_G1 :
    A.map2ToCurve (osswu_map := fun u => some (A.G1.osswuMap u)) (isogeny_map := PP.iso11)
        (add_assign := A.Jac.add) (clear_h := A.G1.clearH)
      = fun u0 u1 => some (PP.map2ToCurveG1 u0 u1) := map2ToCurve_G1_eq
theorem mapToCurve_G2 :
    A.mapToCurve (osswu_map := A.G2.osswuMap) (isogeny_map := PP.iso3) (clear_h := A.G2.clearH) = PP.mapToCurveG2 :=
  mapToCurve_G2_eq
theorem map2ToCurve_G2 :
    A.map2ToCurve (osswu_map := A.G2.osswuMap) (isogeny_map := PP.iso3) (add_assign := A.Jac.add)
        (clear_h := A.G2.clearH) = PP.map2ToCurveG2 := map2ToCurve_G2_eq

/-! ## pairing (src/bls12_381/mod.rs) -/
theorem doublingStep : A.doublingStep = PP.doublingStep := doublingStep_eq
theorem additionStep : A.additionStep = PP.additionStep := additionStep_eq
theorem ell : A.ell = PP.ell := ell_eq
theorem expByX : A.expByX = fun f x => PP.expByX f x.toNat := expByX_eq
theorem finalExponentiation : A.finalExponentiation = PP.finalExponentiation := finalExponentiation_eq

end PP.GenArith
