/-
C10.  "For every list of affine points and every list of 256-bit-limbed scalars below 2^255, the
default multi-scalar multiplication, the bucket method with any window size from 1 to 20, and the
table-driven variant (with tables built by the library's 256-entry precomputation) all return the
sum of [k_i]P_i over the first min(#points,#scalars) entries.  This holds for empty input, repeated
points, mutually inverse points, identity points and zero scalars, and whatever window the default
entry point's size heuristic selects (always within 1..=16)."

All statements are about the executable model `PP.Model.Mul` and are relative to a `GroupModel M`
(provided by C01).  "The sum of [k_i]P_i over the first min(#points,#scalars) entries" is
`((List.zip points ks).map (fun pk => pk.2 • M.absA pk.1)).sum` (`zip` truncates to the shorter
list); "returns" is `= some R` (no assert failure, no index out of range).
-/
import PP.Proofs.ScalarMul
import PP.Proofs.Pippenger

namespace PP.C10

variable {F : Type} [Field F] [DecidableEq F] [FieldOps F] {G : Type} [AddCommGroup G]
  (M : GroupModel F G)

/-- the expected result -/
def msum (points : List (Aff F)) (ks : List ℕ) : G :=
  ((List.zip points ks).map (fun pk => pk.2 • M.absA pk.1)).sum

/-! ### the three entry points -/

/-- the bucket method, any window `1..=20`, lists of any (also different) lengths -/
theorem pippinger (points : List (Aff F)) (ks : List ℕ) (w : ℕ) (hw1 : 1 ≤ w) (hw : w ≤ 20)
    (hk : ∀ k ∈ ks, k < 2 ^ 255) (hP : ∀ P ∈ points, M.ValidA P) :
    ∃ R, sumOfProductsPippinger points ks w = some R ∧ M.ValidJ R ∧
      M.absJ R = msum M points ks :=
  Pip.pippinger_correct M hw1 hw points ks hk hP

/-- the size heuristic always selects a window in `1..=16` -/
theorem window_range (n : ℕ) : 1 ≤ findPippingerWindow n ∧ findPippingerWindow n ≤ 16 :=
  Pip.findPippingerWindow_range n

/-- the default entry point -/
theorem sum_of_products (points : List (Aff F)) (ks : List ℕ)
    (hk : ∀ k ∈ ks, k < 2 ^ 255) (hP : ∀ P ∈ points, M.ValidA P) :
    ∃ R, sumOfProducts points ks = some R ∧ M.ValidJ R ∧ M.absJ R = msum M points ks :=
  Pip.sumOfProducts_correct M points ks hk hP

/-- the table-driven variant, with `pre` the concatenation of the tables that `precomp_256`
    returns for each point (it never panics on a valid point); here even every `k < 2^256` works -/
theorem sum_of_products_precomp256 (points : List (Aff F)) (ks : List ℕ)
    (hk : ∀ k ∈ ks, k < 2 ^ 256) (hP : ∀ P ∈ points, M.ValidA P) :
    ∃ tables, points.mapM Aff.precomp256 = some tables ∧
      ∃ R, sumOfProductsPrecomp256 points ks tables.flatten.toArray = some R ∧ M.ValidJ R ∧
        M.absJ R = msum M points ks :=
  sumOfProductsPrecomp256_precomp M points ks hP hk

/-- the same for any `pre` that meets the documented layout
    `pre[256 j + i] = (Σ_{b ∈ bits of i} 2^(32 b)) · P_j` -/
theorem sum_of_products_precomp256_of_spec (points : List (Aff F)) (ks : List ℕ)
    (pre : Array (Aff F)) (hk : ∀ k ∈ ks, k < 2 ^ 256)
    (hpre : ∀ j (hj : j < (List.zip points ks).length), ∀ i < 256, ∃ e,
      pre[256 * (0 + j) + i]? = some e ∧ M.ValidA e ∧
        M.absA e = spread 32 8 i • M.absA ((List.zip points ks)[j]).1) :
    ∃ R, sumOfProductsPrecomp256 points ks pre = some R ∧ M.ValidJ R ∧
      M.absJ R = msum M points ks :=
  sumOfProductsPrecomp256_correct_lt M points ks pre hpre hk

/-- all three agree -/
theorem all_agree (points : List (Aff F)) (ks : List ℕ) (w : ℕ) (hw1 : 1 ≤ w) (hw : w ≤ 20)
    (hk : ∀ k ∈ ks, k < 2 ^ 255) (hP : ∀ P ∈ points, M.ValidA P) :
    ∃ R1 R2 R3 tables,
      sumOfProducts points ks = some R1 ∧ sumOfProductsPippinger points ks w = some R2 ∧
      points.mapM Aff.precomp256 = some tables ∧
      sumOfProductsPrecomp256 points ks tables.flatten.toArray = some R3 ∧
      M.absJ R1 = msum M points ks ∧ M.absJ R2 = msum M points ks ∧
      M.absJ R3 = msum M points ks := by
  obtain ⟨R1, h1, -, a1⟩ := sum_of_products M points ks hk hP
  obtain ⟨R2, h2, -, a2⟩ := pippinger M points ks w hw1 hw hk hP
  obtain ⟨tables, ht, R3, h3, -, a3⟩ := sum_of_products_precomp256 M points ks
    (fun k hkm => Nat.lt_trans (hk k hkm) (by decide)) hP
  exact ⟨R1, R2, R3, tables, h1, h2, ht, h3, a1, a2, a3⟩

/-! ### the assert: exactly the scalars with bit 255 set make the bucket method panic -/

theorem pippinger_panics_iff (points : List (Aff F)) (ks : List ℕ) (w : ℕ) (hw1 : 1 ≤ w)
    (hw : w ≤ 20) (hk : ∀ k ∈ ks, k < 2 ^ 256) (hP : ∀ P ∈ points, M.ValidA P) :
    sumOfProductsPippinger points ks w = none ↔ ∃ pk ∈ List.zip points ks, 2 ^ 255 ≤ pk.2 :=
  Pip.pippinger_panics_iff M hw1 hw points ks hk hP

theorem sum_of_products_panics_iff (points : List (Aff F)) (ks : List ℕ)
    (hk : ∀ k ∈ ks, k < 2 ^ 256) (hP : ∀ P ∈ points, M.ValidA P) :
    sumOfProducts points ks = none ↔ ∃ pk ∈ List.zip points ks, 2 ^ 255 ≤ pk.2 :=
  Pip.sumOfProducts_panics_iff M points ks hk hP

/-! ### the special inputs named in the property (all instances of the general theorems) -/

private theorem forall_mem_pair {α : Type} {p : α → Prop} {a b : α} (ha : p a) (hb : p b) :
    ∀ x ∈ [a, b], p x := by
  intro x hx
  simp only [List.mem_cons, List.not_mem_nil, or_false] at hx
  rcases hx with rfl | rfl <;> assumption

/-- empty input (either list empty): the identity -/
theorem empty_points (ks : List ℕ) (hk : ∀ k ∈ ks, k < 2 ^ 255) :
    ∃ R, sumOfProducts ([] : List (Aff F)) ks = some R ∧ M.absJ R = 0 := by
  obtain ⟨R, h, -, a⟩ := sum_of_products M [] ks hk (by simp)
  exact ⟨R, h, by simpa [msum] using a⟩

theorem empty_scalars (points : List (Aff F)) (hP : ∀ P ∈ points, M.ValidA P) :
    ∃ R, sumOfProducts points [] = some R ∧ M.absJ R = 0 := by
  obtain ⟨R, h, -, a⟩ := sum_of_products M points [] (by simp) hP
  exact ⟨R, h, by simpa [msum] using a⟩

/-- a repeated point: `[k₁]A + [k₂]A = [k₁ + k₂]A` -/
theorem repeated_point (A : Aff F) (hA : M.ValidA A) (k1 k2 : ℕ) (h1 : k1 < 2 ^ 255)
    (h2 : k2 < 2 ^ 255) :
    ∃ R, sumOfProducts [A, A] [k1, k2] = some R ∧ M.absJ R = (k1 + k2) • M.absA A := by
  obtain ⟨R, h, -, a⟩ := sum_of_products M [A, A] [k1, k2] (forall_mem_pair h1 h2) (forall_mem_pair hA hA)
  exact ⟨R, h, by rw [a]; simp [msum, add_nsmul]⟩

/-- mutually inverse points with the same scalar cancel -/
theorem inverse_points (A : Aff F) (hA : M.ValidA A) (k : ℕ) (hk : k < 2 ^ 255) :
    ∃ R, sumOfProducts [A, A.neg] [k, k] = some R ∧ M.absJ R = 0 := by
  obtain ⟨R, h, -, a⟩ := sum_of_products M [A, A.neg] [k, k] (forall_mem_pair hk hk)
    (forall_mem_pair hA (M.affNeg_valid A hA))
  exact ⟨R, h, by rw [a]; simp [msum, M.affNeg_abs A hA]⟩

/-- identity points contribute nothing -/
theorem identity_point (A : Aff F) (hA : M.ValidA A) (k1 k2 : ℕ) (h1 : k1 < 2 ^ 255)
    (h2 : k2 < 2 ^ 255) :
    ∃ R, sumOfProducts [Aff.zero, A] [k1, k2] = some R ∧ M.absJ R = k2 • M.absA A := by
  obtain ⟨R, h, -, a⟩ := sum_of_products M [Aff.zero, A] [k1, k2] (forall_mem_pair h1 h2)
    (forall_mem_pair M.affZero_valid hA)
  exact ⟨R, h, by rw [a]; simp [msum, M.affZero_abs]⟩

/-- zero scalars contribute nothing -/
theorem zero_scalar (A B : Aff F) (hA : M.ValidA A) (hB : M.ValidA B) (k : ℕ) (hk : k < 2 ^ 255) :
    ∃ R, sumOfProducts [A, B] [0, k] = some R ∧ M.absJ R = k • M.absA B := by
  obtain ⟨R, h, -, a⟩ := sum_of_products M [A, B] [0, k] (forall_mem_pair (Nat.two_pow_pos 255) hk) (forall_mem_pair hA hB)
  exact ⟨R, h, by rw [a]; simp [msum]⟩

/-! ### the bit slicing of the bucket method (pure `Nat` facts) -/

/-- the bucket index in the window with top bit `bsi` is the `w`-bit (or shorter, at the bottom)
    slice of the scalar; all three branches of the Rust code -/
theorem digit_spec (k bsi w : ℕ) (hw1 : 1 ≤ w) (hw : w ≤ 20) (hb : bsi < 256) :
    pipDigit (limbsOf 4 k) bsi w = (k >>> (bsi + 1 - w)) % 2 ^ (bsi + 1 - (bsi + 1 - w)) :=
  Pip.pipDigit_eq hw1 hw hb

/-- so bucket indexing never fails -/
theorem digit_lt (k bsi w : ℕ) (hw1 : 1 ≤ w) (hw : w ≤ 20) (hb : bsi < 256) :
    pipDigit (limbsOf 4 k) bsi w < 2 ^ w :=
  Pip.pipDigit_lt hw1 hw hb

/-- the windows visited by the loop (`255, 255 - w, …`) tile the scalar -/
theorem digits_cover (k w : ℕ) (hw1 : 1 ≤ w) (hk : k < 2 ^ 256) : Pip.windowsVal k w 257 255 = k :=
  Pip.digits_cover hw1 hk

/-- the `assert!` fires exactly in the first window for scalars with bit 255 set -/
theorem assert_iff (k bsi w : ℕ) (hw1 : 1 ≤ w) (hw : w ≤ 20) (hk : k < 2 ^ 256) :
    pipAssertFails (limbsOf 4 k) bsi w = true ↔ bsi = 255 ∧ 2 ^ 255 ≤ k :=
  Pip.pipAssertFails_iff hw1 hw hk

/-! ### sanity checks on concrete numbers -/

example : pipDigit (limbsOf 4 (2 ^ 254 + 2 ^ 64 + 5)) 255 4 = 4 := by decide +kernel
example : pipDigit (limbsOf 4 (2 ^ 254 + 2 ^ 64 + 5)) 65 5 = 8 := by decide +kernel   -- straddles words 1/0
example : pipDigit (limbsOf 4 (2 ^ 254 + 2 ^ 64 + 5)) 2 5 = 5 := by decide +kernel    -- bottom of word 0
example : pipAssertFails (limbsOf 4 (2 ^ 255)) 255 7 = true := by decide +kernel
example : pipAssertFails (limbsOf 4 (2 ^ 255 - 1)) 255 7 = false := by decide +kernel
example : findPippingerWindow 0 = 1 ∧ findPippingerWindow 1000 = 7 ∧
    findPippingerWindow (10 ^ 9) = 16 := by decide +kernel
example : Pip.windowsVal 0xdeadbeef0123456789 7 257 255 = 0xdeadbeef0123456789 := by decide +kernel

end PP.C10
