/-
C19, INSTANTIATED.  The `_g1` / `_g2` theorems of `PP/Props/C19.lean` (SerDes of curve points) with
the real instances (`LawfulSqrtOps Fq`; the tower's `Field Fq2`, `LawfulFieldOps Fq2`,
`PP.instLawfulSqrtOpsFq2`).  Statements copied verbatim from C19 (generated); each proof is the C19
theorem.  The `Fr` and `Fq12` parts of C19 never had hypotheses.  Nothing is left as a hypothesis.
-/
import PP.Props.C19
import PP.Proofs.AssemblyFq2

set_option linter.unusedSectionVars false

namespace PP.C19Inst
open PP

/-! ## G1 (the `LawfulSqrtOps Fq` instance is `PP.Proofs.Sqrt`'s, C18) -/
section g1

theorem serAffine_length_g1 (A : Aff Fq) (c : Bool) : (serAffine g1Codec A c).length = if c then 48 else 96 :=
  PP.C19.serAffine_length_g1 A c

theorem deserAffine_serAffine_g1 (A : Aff Fq) (c : Bool) (tail : Bytes)
    (hinf : A.infinity = true → A = Aff.zero) (hs : Aff.inSubgroup g1Codec.b A = true) :
    deserAffine g1Codec (serAffine g1Codec A c ++ tail) c = .ok (A, tail) :=
  PP.C19.deserAffine_serAffine_g1 A c tail hinf hs

theorem deserJac_serJac_g1 (P : Jac Fq) (A : Aff Fq) (c : Bool) (tail : Bytes)
    (hA : P.toAffine = some A) (hs : Aff.inSubgroup g1Codec.b A = true) :
    serJac g1Codec P c = some (serAffine g1Codec A c) ∧
      deserJac g1Codec (serAffine g1Codec A c ++ tail) c = .ok (A.toJac, tail) :=
  PP.C19.deserJac_serJac_g1 P A c tail hA hs

theorem deserAffine_ne_panic_g1 (rd : Bytes) (c : Bool) : deserAffine g1Codec rd c ≠ .error .panic :=
  PP.C19.deserAffine_ne_panic_g1 rd c

theorem deserJac_ne_panic_g1 (rd : Bytes) (c : Bool) : deserJac g1Codec rd c ≠ .error .panic :=
  PP.C19.deserJac_ne_panic_g1 rd c

end g1

/-! ## G2, with the tower's `Field Fq2`, `LawfulFieldOps Fq2` and `instLawfulSqrtOpsFq2`

As in the source sections the model's own notation instances on `Fq2` are switched off locally, so
that `+ * - 0 1` in the statements are those of `Fq2.instField` — which are the model's operations
(`Fq2.add_eq`, `Fq2.mul_eq`, … hold by `rfl`). -/
section g2
attribute [-instance] Fq2.instAdd Fq2.instSub Fq2.instMul Fq2.instNeg Fq2.instZero Fq2.instOne

theorem serAffine_length_g2 (A : Aff Fq2) (c : Bool) : (serAffine g2Codec A c).length = if c then 96 else 192 :=
  PP.C19.serAffine_length_g2 A c

theorem deserAffine_serAffine_g2 (A : Aff Fq2) (c : Bool) (tail : Bytes)
    (hinf : A.infinity = true → A = Aff.zero) (hs : Aff.inSubgroup g2Codec.b A = true) :
    deserAffine g2Codec (serAffine g2Codec A c ++ tail) c = .ok (A, tail) :=
  PP.C19.deserAffine_serAffine_g2 A c tail hinf hs

theorem deserJac_serJac_g2 (P : Jac Fq2) (A : Aff Fq2) (c : Bool) (tail : Bytes)
    (hA : P.toAffine = some A) (hs : Aff.inSubgroup g2Codec.b A = true) :
    serJac g2Codec P c = some (serAffine g2Codec A c) ∧
      deserJac g2Codec (serAffine g2Codec A c ++ tail) c = .ok (A.toJac, tail) :=
  PP.C19.deserJac_serJac_g2 P A c tail hA hs

theorem deserAffine_ne_panic_g2 (rd : Bytes) (c : Bool) : deserAffine g2Codec rd c ≠ .error .panic :=
  PP.C19.deserAffine_ne_panic_g2 rd c

theorem deserJac_ne_panic_g2 (rd : Bytes) (c : Bool) : deserJac g2Codec rd c ≠ .error .panic :=
  PP.C19.deserJac_ne_panic_g2 rd c

end g2

end PP.C19Inst
