/-
C02.  "For every point P and every scalar k below 2^255 (every canonical scalar included), plain
projective and affine multiplication, windowed-NAF multiplication in either staging order and with
any window size in the documented range 2..=22, and the two table-driven multiplications (3-entry
and 256-entry precomputation, using tables produced by the library's own precomputation routines)
all return the same point [k]P; the plain and table-driven paths do so for every 256-bit k.  A wNAF
context may be reused for any sequence of bases and scalars and still returns what a fresh context
would.  The recommended window sizes always lie in the documented range 2..=22."

All statements are about the executable model `PP.Model.Curve` / `PP.Model.Mul` and are relative to
a `GroupModel M` (the abstraction of the Jacobian arithmetic into an abelian group, provided by
C01): "the point [k]P" is `k • M.absA A` (resp. `k • M.absJ P`), "returns" is `= some R` (no panic).
-/
import PP.Proofs.ScalarMul
import PP.Proofs.Wnaf

namespace PP.C02

variable {F : Type} [Field F] [DecidableEq F] [FieldOps F] {G : Type} [AddCommGroup G]
  (M : GroupModel F G)

/-! ### plain multiplication, every 256-bit `k` -/

/-- affine `mul` (MSB-first double-and-add with mixed addition) -/
theorem affine_mul (A : Aff F) (hA : M.ValidA A) (k : ℕ) (hk : k < 2 ^ 256) :
    M.ValidJ (A.mul k) ∧ M.absJ (A.mul k) = k • M.absA A :=
  Aff.mul_correct_lt M A hA k hk

/-- `mul_bits` over an arbitrary MSB-first bit sequence (used by the cofactor multiplications) -/
theorem affine_mulBits (A : Aff F) (hA : M.ValidA A) (bits : List Bool) :
    M.ValidJ (A.mulBits bits) ∧ M.absJ (A.mulBits bits) = ofBitsMSB bits • M.absA A :=
  mulBits_correct M A hA bits

/-- projective `mul_assign` (with its `found_one` flag) -/
theorem projective_mul (P : Jac F) (hP : M.ValidJ P) (k : ℕ) (hk : k < 2 ^ 256) :
    M.ValidJ (P.mulAssign k) ∧ M.absJ (P.mulAssign k) = k • M.absJ P :=
  Jac.mulAssign_correct_lt M P hP k hk

/-- without the bound the 4-limb scalar is what is multiplied by: `k mod 2^256` -/
theorem affine_mul_mod (A : Aff F) (hA : M.ValidA A) (k : ℕ) :
    M.absJ (A.mul k) = (k % 2 ^ 256) • M.absA A :=
  (Aff.mul_correct M A hA k).2

/-! ### table-driven multiplication, every 256-bit `k`, tables from the library's own routines -/

/-- `precomp_3` never panics and returns `[2^64·A, 2^128·A, 2^192·A]` -/
theorem precomp3_table (A : Aff F) (hA : M.ValidA A) :
    ∃ a1 a2 a3, A.precomp3 = some [a1, a2, a3] ∧
      (M.ValidA a1 ∧ M.absA a1 = 2 ^ 64 • M.absA A) ∧
      (M.ValidA a2 ∧ M.absA a2 = 2 ^ 128 • M.absA A) ∧
      (M.ValidA a3 ∧ M.absA a3 = 2 ^ 192 • M.absA A) :=
  precomp3_spec M A hA

/-- `mul_precomp_3` with the table of `precomp_3` -/
theorem precomp3_mul (A : Aff F) (hA : M.ValidA A) (k : ℕ) (hk : k < 2 ^ 256) :
    ∃ pre, A.precomp3 = some pre ∧
      ∃ R, A.mulPrecomp3 k pre = some R ∧ M.ValidJ R ∧ M.absJ R = k • M.absA A := by
  obtain ⟨a1, a2, a3, hpre, h1, h2, h3⟩ := precomp3_spec M A hA
  obtain ⟨R, hR, hv, ha⟩ := mulPrecomp3_correct M A hA [a1, a2, a3]
    ⟨a1, a2, a3, rfl, rfl, rfl, h1, h2, h3⟩ k
  exact ⟨_, hpre, R, hR, hv, by rw [ha, Nat.mod_eq_of_lt hk]⟩

/-- `precomp_256` never panics and returns the 256-entry table
    `pre[i] = (Σ_{b ∈ bits of i} 2^(32 b)) · A` (`spread 32 8 i` is that sum) -/
theorem precomp256_table (A : Aff F) (hA : M.ValidA A) :
    ∃ pre, A.precomp256 = some pre ∧ pre.length = 256 ∧
      ∀ i < 256, ∃ e, pre[i]? = some e ∧ M.ValidA e ∧ M.absA e = spread 32 8 i • M.absA A :=
  precomp256_spec M A hA

/-- `mul_precomp_256` with the table of `precomp_256` -/
theorem precomp256_mul (A : Aff F) (hA : M.ValidA A) (k : ℕ) (hk : k < 2 ^ 256) :
    ∃ pre, A.precomp256 = some pre ∧
      ∃ R, A.mulPrecomp256 k pre.toArray = some R ∧ M.ValidJ R ∧ M.absJ R = k • M.absA A := by
  obtain ⟨pre, hpre, hspec⟩ := precomp256_spec M A hA
  obtain ⟨R, hR, hv, ha⟩ := mulPrecomp256_correct M A pre.toArray hspec k
  exact ⟨pre, hpre, R, hR, hv, by rw [ha, Nat.mod_eq_of_lt hk]⟩

/-! ### windowed NAF, `k < 2^255`, any window `2..=22` -/

/-- `wnaf_exp(wnaf_table(P, w), wnaf_form(k, w))`: no panic (the 300-iteration digit loop
    terminates, every table index is in range) and the result is `[k]P` -/
theorem wnaf_mul (P : Jac F) (hP : M.ValidJ P) (k w : ℕ) (hw2 : 2 ≤ w) (hw : w ≤ 22)
    (hk : k < 2 ^ 255) :
    ∃ R, (do let f ← wnafForm [] k w; wnafExp (wnafTable [] P w) f) = some R ∧
      M.ValidJ R ∧ M.absJ R = k • M.absJ P :=
  wnaf_correct M P hP k w hw2 hw hk

/-- the digit string: terminates, represents `k`, digits are zero or odd with `|d| < 2^w` -/
theorem wnaf_form (k w : ℕ) (hw2 : 2 ≤ w) (hw : w ≤ 22) (hk : k < 2 ^ 255) :
    ∃ ds, wnafForm [] k w = some ds ∧ wnafVal ds = k ∧
      ∀ d ∈ ds, d = 0 ∨ (d % 2 = 1 ∧ d.natAbs < 2 ^ w) :=
  wnafForm_spec_lt [] k w (by omega) (by omega) hk

/-- the bound on `k` is needed: near `2^256` the digit loop's 256-bit arithmetic wraps -/
theorem wnaf_form_wraps :
    wnafForm [] (2 ^ 256 - 1) 2 = some [-1] ∧ wnafVal [-1] ≠ ((2 ^ 256 - 1 : ℕ) : ℤ) ∧
      2 ^ 256 - 2 ^ 2 ≤ 2 ^ 256 - 1 :=
  wnafForm_wraps_example

/-- staging order "base then scalar", on any used context, G1 or G2 recommendation tables -/
theorem wnaf_base_then_scalar (rc : WnafRec) (hrc : rc = g1Rec ∨ rc = g2Rec) (ctx : WnafCtx F)
    (b : Jac F) (hb : M.ValidJ b) (n k : ℕ) (hk : k < 2 ^ 255) :
    ∃ R ctx', WnafCtx.baseThenScalar rc ctx b n k = some (R, ctx') ∧
      M.ValidJ R ∧ M.absJ R = k • M.absJ b := by
  rcases hrc with rfl | rfl
  · exact baseThenScalar_correct M _ g1Rec_inRange ctx b hb n k hk
  · exact baseThenScalar_correct M _ g2Rec_inRange ctx b hb n k hk

/-- staging order "scalar then base", on any used context, G1 or G2 recommendation tables -/
theorem wnaf_scalar_then_base (rc : WnafRec) (hrc : rc = g1Rec ∨ rc = g2Rec) (ctx : WnafCtx F)
    (b : Jac F) (hb : M.ValidJ b) (k : ℕ) (hk : k < 2 ^ 255) :
    ∃ R ctx', WnafCtx.scalarThenBase rc ctx k b = some (R, ctx') ∧
      M.ValidJ R ∧ M.absJ R = k • M.absJ b := by
  rcases hrc with rfl | rfl
  · exact scalarThenBase_correct M _ g1Rec_inRange ctx b hb k hk
  · exact scalarThenBase_correct M _ g2Rec_inRange ctx b hb k hk

/-! ### all paths agree -/

/-- for `k < 2^255` every multiplication path returns (without panicking) a valid point that
    represents the same group element `[k]A` -/
theorem all_paths_agree (A : Aff F) (hA : M.ValidA A) (k w : ℕ) (hw2 : 2 ≤ w) (hw : w ≤ 22)
    (hk : k < 2 ^ 255) (rc : WnafRec) (hrc : rc = g1Rec ∨ rc = g2Rec) (ctx : WnafCtx F) (n : ℕ) :
    ∃ pre3 pre256 R3 R256 Rw Rbs Rsb ctx1 ctx2,
      A.precomp3 = some pre3 ∧ A.mulPrecomp3 k pre3 = some R3 ∧
      A.precomp256 = some pre256 ∧ A.mulPrecomp256 k pre256.toArray = some R256 ∧
      (do let f ← wnafForm [] k w; wnafExp (wnafTable [] A.toJac w) f) = some Rw ∧
      WnafCtx.baseThenScalar rc ctx A.toJac n k = some (Rbs, ctx1) ∧
      WnafCtx.scalarThenBase rc ctx k A.toJac = some (Rsb, ctx2) ∧
      M.absJ (A.mul k) = k • M.absA A ∧ M.absJ (A.toJac.mulAssign k) = k • M.absA A ∧
      M.absJ R3 = k • M.absA A ∧ M.absJ R256 = k • M.absA A ∧ M.absJ Rw = k • M.absA A ∧
      M.absJ Rbs = k • M.absA A ∧ M.absJ Rsb = k • M.absA A := by
  have hk' : k < 2 ^ 256 := by omega
  have hJ := M.toJac_valid A hA
  have eJ := M.toJac_abs A hA
  obtain ⟨pre3, h3, R3, hR3, -, a3⟩ := precomp3_mul M A hA k hk'
  obtain ⟨pre256, h256, R256, hR256, -, a256⟩ := precomp256_mul M A hA k hk'
  obtain ⟨Rw, hRw, -, aw⟩ := wnaf_mul M A.toJac hJ k w hw2 hw hk
  obtain ⟨Rbs, ctx1, hbs, -, abs'⟩ := wnaf_base_then_scalar M rc hrc ctx A.toJac hJ n k hk
  obtain ⟨Rsb, ctx2, hsb, -, asb⟩ := wnaf_scalar_then_base M rc hrc ctx A.toJac hJ k hk
  refine ⟨pre3, pre256, R3, R256, Rw, Rbs, Rsb, ctx1, ctx2, h3, hR3, h256, hR256, hRw, hbs, hsb,
    (affine_mul M A hA k hk').2, ?_, a3, a256, ?_, ?_, ?_⟩
  · rw [(projective_mul M A.toJac hJ k hk').2, eJ]
  · rw [aw, eJ]
  · rw [abs', eJ]
  · rw [asb, eJ]

/-! ### context reuse -/

/-- one call on a used context returns exactly what it returns on a fresh context -/
theorem wnaf_call_fresh (rc : WnafRec) (ctx : WnafCtx F) (c : WnafCall F) :
    (c.run rc ctx).map Prod.fst = (c.run rc WnafCtx.new).map Prod.fst := by
  rw [WnafCall.run_ctx]

/-- any sequence of `base(..).scalar(..)` / `scalar(..).base(..)` calls threaded through one reused
    context returns, call by call, what fresh contexts return -/
theorem wnaf_reuse (rc : WnafRec) (ctx : WnafCtx F) (cs : List (WnafCall F)) :
    WnafCall.runAll rc ctx cs = cs.mapM (fun c => (c.run rc WnafCtx.new).map Prod.fst) :=
  WnafCall.runAll_fresh rc ctx cs

/-! ### recommended windows -/

theorem recommended_for_scalar_range (k : ℕ) :
    (2 ≤ recommendForScalar g1Rec.ladder g1Rec.dflt k ∧
      recommendForScalar g1Rec.ladder g1Rec.dflt k ≤ 22) ∧
    (2 ≤ recommendForScalar g2Rec.ladder g2Rec.dflt k ∧
      recommendForScalar g2Rec.ladder g2Rec.dflt k ≤ 22) :=
  recommendForScalar_range k

theorem recommended_for_num_scalars_range (n : ℕ) :
    (2 ≤ recommendForNumScalars g1Rec.tbl g1Rec.base n ∧
      recommendForNumScalars g1Rec.tbl g1Rec.base n ≤ 22) ∧
    (2 ≤ recommendForNumScalars g2Rec.tbl g2Rec.base n ∧
      recommendForNumScalars g2Rec.tbl g2Rec.base n ≤ 22) :=
  recommendForNumScalars_range' n

/-! ### sanity checks of the pure-`Nat` layer on concrete numbers -/

example : ofBitsMSB (bitsMSB (limbsOf 4 0xdeadbeef0123456789abcdef00000000ffffffff)) =
    0xdeadbeef0123456789abcdef00000000ffffffff := by decide +kernel
example : (bitsMSB (limbsOf 4 5)).length = 256 := by decide +kernel
example : wnafForm [] 1000 3 = some [0, 0, 0, -3, 0, 0, 0, 0, 0, 0, 1] := by decide +kernel
example : wnafVal [0, 0, 0, -3, 0, 0, 0, 0, 0, 0, 1] = 1000 := by decide
example : (wnafForm [] (2 ^ 255 - 1) 22).isSome = true := by decide +kernel
example : nibbleAt 1 0 1 1 0 = 13 ∧ spread 64 4 13 = 1 + 2 ^ 128 + 2 ^ 192 := by decide +kernel
example : byteAt (2 ^ 32 + 1) 0 0 (2 ^ 63) 31 = 128 ∧ byteAt (2 ^ 32 + 1) 0 0 0 0 = 3 := by
  decide +kernel
example : recommendForScalar g1Rec.ladder g1Rec.dflt (2 ^ 254) = 4 := by decide +kernel

end PP.C02
