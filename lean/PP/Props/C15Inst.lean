/-
C15, INSTANTIATED.  The theorems of `PP/Props/C15.lean` with their three hypotheses discharged:
`hchain1` by `Chains.chainPm3div4_eq`, `hchain2` by `Chains.chainP2m9div16_generic`, `hcard` by
`Fq2.pow_card_sub_one'` (witnesses `PP.hchain1`, `PP.hchain2`, `PP.hcard` in
`PP/Proofs/Assembly.lean`).  Nothing is left as a hypothesis.
-/
import PP.Proofs.Assembly

namespace PP.C15Inst

open PP PP.Spec PP.Sswu

/-! ## G1 -/

/-- the output is a finite point of `E₁' : y² = x³ + A'x + B'` -/
theorem osswuG1_onCurve (t : Fq) :
    (osswuG1 t).z ≠ 0 ∧
      (osswuG1 t).y ^ 2 = (osswuG1 t).x ^ 3 + g1EllpA * (osswuG1 t).x * (osswuG1 t).z ^ 4
        + g1EllpB * (osswuG1 t).z ^ 6 := C15.osswuG1_onCurve hchain1 t

/-- `x` is the first of `x1`, `x2` whose `g` is a square -/
theorem osswuG1_x (t : Fq) :
    (IsSquare (sswuG g1EllpA g1EllpB (sswuX1 g1EllpA g1EllpB g1Xi t)) →
      affX (osswuG1 t) = sswuX1 g1EllpA g1EllpB g1Xi t) ∧
    (¬ IsSquare (sswuG g1EllpA g1EllpB (sswuX1 g1EllpA g1EllpB g1Xi t)) →
      affX (osswuG1 t) = sswuX2 g1EllpA g1EllpB g1Xi t) := C15.osswuG1_x hchain1 t

theorem osswuG1_y_sq (t : Fq) :
    affY (osswuG1 t) ^ 2 = sswuG g1EllpA g1EllpB (affX (osswuG1 t)) := C15.osswuG1_y_sq hchain1 t

theorem osswuG1_y_ne_zero (t : Fq) : affY (osswuG1 t) ≠ 0 := C15.osswuG1_y_ne_zero hchain1 t

/-- `sgn0(y) = sgn0(t)` -/
theorem osswuG1_sign (t : Fq) : Zp.sgn0 (affY (osswuG1 t)) = Zp.sgn0 t := C15.osswuG1_sign hchain1 t

/-- exceptional inputs: `x = B'/(ZA')` -/
theorem osswuG1_exceptional (t : Fq) (h : g1Xi ^ 2 * t ^ 4 + g1Xi * t ^ 2 = 0) :
    affX (osswuG1 t) = g1EllpB / (g1Xi * g1EllpA) := C15.osswuG1_exceptional hchain1 t h

theorem osswuG1_zero : affX (osswuG1 0) = g1EllpB / (g1Xi * g1EllpA) := C15.osswuG1_zero hchain1

/-- **C15, G1**: `osswuG1 t` is `map_to_curve_simple_swu(t)` of RFC 9380 §6.6.2 (`Z = 11`) -/
theorem osswuG1_eq_rfc (t : Fq) :
    IsSswu Zp.sgn0 g1EllpA g1EllpB g1Xi t (affX (osswuG1 t)) (affY (osswuG1 t)) :=
  C15.osswuG1_eq_rfc hchain1 t

/-- the RFC relation determines the point: the model's output is THE RFC output -/
theorem osswuG1_unique (t x y : Fq) (h : IsSswu Zp.sgn0 g1EllpA g1EllpB g1Xi t x y) :
    x = affX (osswuG1 t) ∧ y = affY (osswuG1 t) :=
  sswu_unique Zp.sgn0 Sswu.Fq.sgn0_neg Sswu.g1_no_root h (osswuG1_eq_rfc t)

/-- `sswu(−t) = −sswu(t)` for `t ≠ 0` -/
theorem osswuG1_neg (t : Fq) (ht : t ≠ 0) :
    affX (osswuG1 (-t)) = affX (osswuG1 t) ∧ affY (osswuG1 (-t)) = -affY (osswuG1 t) :=
  sswuG1_neg_affine t ht

/-! ## G2 -/

/-- the terminal `panic!` of `OSSWUMap for G2` is unreachable -/
theorem osswuG2_total (t : Fq2) : osswuG2 t ≠ none := C15.osswuG2_total hcard hchain2 t

theorem osswuG2_onCurve (t : Fq2) :
    ∃ P, osswuG2 t = some P ∧
      P.z ≠ 0 ∧ P.y ^ 2 = P.x ^ 3 + g2EllpA * P.x * P.z ^ 4 + g2EllpB * P.z ^ 6 :=
  C15.osswuG2_onCurve hcard hchain2 t

theorem osswuG2_x (t : Fq2) :
    ∃ P, osswuG2 t = some P ∧
      (IsSquare (sswuG g2EllpA g2EllpB (sswuX1 g2EllpA g2EllpB g2Xi t)) →
        affX P = sswuX1 g2EllpA g2EllpB g2Xi t) ∧
      (¬ IsSquare (sswuG g2EllpA g2EllpB (sswuX1 g2EllpA g2EllpB g2Xi t)) →
        affX P = sswuX2 g2EllpA g2EllpB g2Xi t) := C15.osswuG2_x hcard hchain2 t

theorem osswuG2_sign (t : Fq2) :
    ∃ P, osswuG2 t = some P ∧ affY P ≠ 0 ∧ Fq2.sgn0 (affY P) = Fq2.sgn0 t :=
  C15.osswuG2_sign hcard hchain2 t

theorem osswuG2_exceptional (t : Fq2) (h : g2Xi ^ 2 * t ^ 4 + g2Xi * t ^ 2 = 0) :
    ∃ P, osswuG2 t = some P ∧ affX P = g2EllpB / (g2Xi * g2EllpA) :=
  C15.osswuG2_exceptional hcard hchain2 t h

theorem osswuG2_zero : ∃ P, osswuG2 0 = some P ∧ affX P = g2EllpB / (g2Xi * g2EllpA) :=
  C15.osswuG2_zero hcard hchain2

/-- **C15, G2**: `osswuG2 t` returns `map_to_curve_simple_swu(t)` of RFC 9380 §6.6.2
    (`Z = −(2 + I)`) -/
theorem osswuG2_eq_rfc (t : Fq2) :
    ∃ P, osswuG2 t = some P ∧ IsSswu Fq2.sgn0 g2EllpA g2EllpB g2Xi t (affX P) (affY P) :=
  C15.osswuG2_eq_rfc hcard hchain2 t

theorem osswuG2_unique (t x y : Fq2) (h : IsSswu Fq2.sgn0 g2EllpA g2EllpB g2Xi t x y) :
    ∃ P, osswuG2 t = some P ∧ x = affX P ∧ y = affY P := by
  obtain ⟨P, hP, hs⟩ := osswuG2_eq_rfc t
  exact ⟨P, hP, sswu_unique Fq2.sgn0 Sswu.Fq2.sgn0_neg (Sswu.g2_no_root hcard) h hs⟩

/-- `E₂'` has no point of order 2 over `Fq2` -/
theorem g2_no_root (x : Fq2) : sswuG g2EllpA g2EllpB x ≠ 0 := Sswu.g2_no_root hcard x

end PP.C15Inst
