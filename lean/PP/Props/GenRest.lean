/-
OBLIGATIONS "GenRest": the functions of /repo with behaviour that the other translators did not cover (see
/verif/notes/COVERAGE.md) ARE what the hand-written model / the driver assume.

`PP/Gen/Rest.lean` (namespace `PP.Gen.R`) is REGENERATED from /repo on every run of /verif/extract/extract.py
by /verif/extract/extract_rest.py: one Lean definition per Rust function, one Lean line per Rust statement.
Each theorem below states that such a regenerated definition is equal to the hand-written model definition
where the model has a counterpart, and otherwise characterises it directly in terms of model functions.  An
edit of one of these Rust functions changes the generated text, and the corresponding theorem no longer
compiles (or the extractor refuses the new shape), whether or not a test input exposes it.

Correspondence Rust -> generated -> model:
  ec/mod.rs (macro `curve_impl!`)
      batch_normalization                  -> `Jac.batchNormalize` (PP/Model/Curve.lean; 3-pass Montgomery trick)
      Default for $affine / $projective    -> `Aff.zero` / `Jac.zero`
      CurveAffine::one / CurveProjective::one
                                           -> the generator `g` (a parameter: `get_generator` is defined per group) /
                                              `Aff.toJac g`; for G1 / G2 the extracted generator coordinates with `z = 1`
      transmute_affine / transmute_projective
                                           -> the constructors `⟨x, y, i⟩` / `⟨x, y, z⟩`
      random                               -> NO model counterpart (the model has no RNG): `randomSpec`
                                              (PP/Proofs/GenRest.lean), a structural recursion over the number of
                                              attempts in terms of the MODEL's `Aff.getPointFromX` and `Jac.isZero`;
                                              the RNG is abstract (`$basefield::random`, `next_u32` are parameters)
  ec/g1.rs, ec/g2.rs
      scale_by_cofactor                    -> NO model function; `Aff.mulBits` on the bits of the extracted constant
                                              `Gen.G1_COFACTOR` / `Gen.G2_COFACTOR` (the expression of the driver)
      get_generator                        -> NO model function; the extracted coordinates `Gen.G1_GENERATOR_X` .. (the
                                              expression of the driver)
  lib.rs (defaults of `trait CurveAffine`, for G1Affine and G2Affine)
      into_compressed / into_uncompressed  -> `encodeCompressed` / `encodeUncompressed` (PP/Model/Enc.lean)
  fq2.rs   PartialOrd::partial_cmp         -> NO model function (the model has `Fq2.lt` only): `some (cmp ..)`, and
                                              `partial_cmp = Some(Less)` iff `Fq2.lt`
  fq2.rs, fq6.rs, fq12.rs  Field::random   -> NO model counterpart: the coefficients are drawn in the order of the
                                              fields of the struct literal (`c0` first), the RNG state threaded through
  fq.rs, fr.rs   transmute                 -> the identity on the limbs (newtypes erased, as in Derive.lean)
  fr.rs    Default for Fr                  -> the limbs of 0 (`D.Fr.zero`, PP/Props/GenDerive.lean)
-/
import PP.Proofs.GenRest

namespace PP.GenRest
open PP PP.Gen PP.GenRestLemmas

section
set_option linter.unusedSectionVars false
variable {F : Type} [Add F] [Sub F] [Mul F] [Neg F] [Zero F] [One F] [FieldOps F] [DecidableEq F]

/-! ## the macro `curve_impl!` (src/bls12_381/ec/mod.rs) -/

theorem transmuteAffine (x y : F) (i : Bool) : R.transmuteAffine x y i = (⟨x, y, i⟩ : Aff F) :=
  transmuteAffine_eq x y i
theorem transmuteProjective (x y z : F) : R.transmuteProjective x y z = (⟨x, y, z⟩ : Jac F) :=
  transmuteProjective_eq x y z
theorem Aff_default : (R.Aff.default : Aff F) = PP.Aff.zero := Aff_default_eq
theorem Jac_default : (R.Jac.default : Jac F) = PP.Jac.zero := Jac_default_eq
theorem Aff_one (g : Aff F) : R.Aff.one g = g := Aff_one_eq g
theorem Jac_one (g : Aff F) : R.Jac.one g = PP.Aff.toJac g := Jac_one_eq g
theorem Jac_batchNormalization (v : List (Jac F)) : R.Jac.batchNormalization v = PP.Jac.batchNormalize v :=
  Jac_batchNormalization_eq v
theorem Jac_random {Rng : Type} [SqrtOps F] (fuel : Nat) (baseRandom : Rng → Rng × F) (nextU32 : Rng → Rng × Nat)
    (b : F) (cof : Aff F → Jac F) (rng : Rng) :
    R.Jac.random fuel baseRandom nextU32 b cof rng = randomSpec baseRandom nextU32 b cof fuel rng :=
  Jac_random_eq fuel baseRandom nextU32 b cof rng

end

/-! ## per group (src/bls12_381/ec/g1.rs, ec/g2.rs) -/

theorem G1Affine_scaleByCofactor (p : Aff Fq) :
    R.G1Affine.scaleByCofactor p = PP.Aff.mulBits p (bitsMSB (limbsOf Gen.G1_COFACTOR_LIMBS Gen.G1_COFACTOR)) :=
  G1Affine_scaleByCofactor_eq p
theorem G2Affine_scaleByCofactor (p : Aff Fq2) :
    R.G2Affine.scaleByCofactor p = PP.Aff.mulBits p (bitsMSB (limbsOf Gen.G2_COFACTOR_LIMBS Gen.G2_COFACTOR)) :=
  G2Affine_scaleByCofactor_eq p
theorem G1Affine_getGenerator :
    R.G1Affine.getGenerator = (⟨Fq.ofMont Gen.G1_GENERATOR_X, Fq.ofMont Gen.G1_GENERATOR_Y, false⟩ : Aff Fq) :=
  G1Affine_getGenerator_eq
theorem G2Affine_getGenerator :
    R.G2Affine.getGenerator
      = (⟨⟨Fq.ofMont Gen.G2_GENERATOR_X_C0, Fq.ofMont Gen.G2_GENERATOR_X_C1⟩,
          ⟨Fq.ofMont Gen.G2_GENERATOR_Y_C0, Fq.ofMont Gen.G2_GENERATOR_Y_C1⟩, false⟩ : Aff Fq2) :=
  G2Affine_getGenerator_eq
/-- `G1::one()`: `CurveProjective::one` of the macro at the generator of ec/g1.rs -/
theorem G1_one :
    R.Jac.one R.G1Affine.getGenerator
      = (⟨Fq.ofMont Gen.G1_GENERATOR_X, Fq.ofMont Gen.G1_GENERATOR_Y, 1⟩ : Jac Fq) := G1_one_eq
/-- `G2::one()` -/
theorem G2_one :
    R.Jac.one R.G2Affine.getGenerator
      = (⟨⟨Fq.ofMont Gen.G2_GENERATOR_X_C0, Fq.ofMont Gen.G2_GENERATOR_X_C1⟩,
          ⟨Fq.ofMont Gen.G2_GENERATOR_Y_C0, Fq.ofMont Gen.G2_GENERATOR_Y_C1⟩, 1⟩ : Jac Fq2) := G2_one_eq
/-- `G1::random(rng)`: the macro's `random` with the associated items of G1 (`get_coeff_b` of Enc.lean,
    `scale_by_cofactor` above; `Fq::random` is derive-generated and stays a parameter) -/
theorem G1_random {Rng : Type} (fuel : Nat) (fqRandom : Rng → Rng × Fq) (nextU32 : Rng → Rng × Nat) (rng : Rng) :
    R.Jac.random fuel fqRandom nextU32 E.G1Affine.getCoeffB R.G1Affine.scaleByCofactor rng
      = randomSpec fqRandom nextU32 g1Codec.b
          (fun p => PP.Aff.mulBits p (bitsMSB (limbsOf Gen.G1_COFACTOR_LIMBS Gen.G1_COFACTOR))) fuel rng :=
  G1_random_eq fuel fqRandom nextU32 rng
/-- `G2::random(rng)`: `$basefield::random` is `Fq2::random` of fq2.rs (translated below) -/
theorem G2_random {Rng : Type} (fuel : Nat) (fqRandom : Rng → Rng × Fq) (nextU32 : Rng → Rng × Nat) (rng : Rng) :
    R.Jac.random fuel (R.Fq2.random fqRandom) nextU32 E.G2Affine.getCoeffB R.G2Affine.scaleByCofactor rng
      = randomSpec (R.Fq2.random fqRandom) nextU32 g2Codec.b
          (fun p => PP.Aff.mulBits p (bitsMSB (limbsOf Gen.G2_COFACTOR_LIMBS Gen.G2_COFACTOR))) fuel rng :=
  G2_random_eq fuel fqRandom nextU32 rng

/-! ## defaults of `trait CurveAffine` (src/lib.rs) -/

theorem G1Affine_intoCompressed (a : Aff Fq) :
    R.G1Affine.intoCompressed a = some (encodeCompressed g1Codec a) := G1Affine_intoCompressed_eq a
theorem G1Affine_intoUncompressed (a : Aff Fq) :
    R.G1Affine.intoUncompressed a = some (encodeUncompressed g1Codec a) := G1Affine_intoUncompressed_eq a
theorem G2Affine_intoCompressed (a : Aff Fq2) :
    R.G2Affine.intoCompressed a = some (encodeCompressed g2Codec a) := G2Affine_intoCompressed_eq a
theorem G2Affine_intoUncompressed (a : Aff Fq2) :
    R.G2Affine.intoUncompressed a = some (encodeUncompressed g2Codec a) := G2Affine_intoUncompressed_eq a

/-! ## towers (src/bls12_381/fq2.rs, fq6.rs, fq12.rs) -/

theorem Fq2_partialCmp (a b : Fq2) : R.Fq2.partialCmp a b = some (A.Fq2.cmp a b) := Fq2_partialCmp_eq a b
theorem Fq2_partialCmp_isLt (a b : Fq2) :
    PP.Fq2.lt a b = decide (R.Fq2.partialCmp a b = some Ordering.lt) := Fq2_partialCmp_lt a b
theorem Fq2_random {Rng : Type} (fqRandom : Rng → Rng × Fq) (rng : Rng) :
    R.Fq2.random fqRandom rng
      = ((fqRandom (fqRandom rng).1).1, (⟨(fqRandom rng).2, (fqRandom (fqRandom rng).1).2⟩ : Fq2)) :=
  Fq2_random_eq fqRandom rng
theorem Fq6_random {Rng : Type} (fqRandom : Rng → Rng × Fq) (rng : Rng) :
    R.Fq6.random fqRandom rng
      = (let r1 := R.Fq2.random fqRandom rng
         let r2 := R.Fq2.random fqRandom r1.1
         let r3 := R.Fq2.random fqRandom r2.1
         (r3.1, (⟨r1.2, r2.2, r3.2⟩ : Fq6))) := Fq6_random_eq fqRandom rng
theorem Fq12_random {Rng : Type} (fqRandom : Rng → Rng × Fq) (rng : Rng) :
    R.Fq12.random fqRandom rng
      = (let r1 := R.Fq6.random fqRandom rng
         let r2 := R.Fq6.random fqRandom r1.1
         (r2.1, (⟨r1.2, r2.2⟩ : Fq12))) := Fq12_random_eq fqRandom rng

/-! ## fq.rs / fr.rs -/

theorem Fq_transmute (r : List Nat) : R.Fq.transmute r = r := Fq_transmute_eq r
theorem Fr_transmute (r : List Nat) : R.Fr.transmute r = r := Fr_transmute_eq r
theorem Fr_default : R.Fr.default = limbsOf 4 0 := Fr_default_eq

end PP.GenRest
