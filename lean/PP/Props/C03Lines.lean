/-
PROPERTY C03, clause "The value is the reduced optimal-ate pairing of BLS12-381 (Miller function for
|x| conjugated, raised to 3(q^12-1)/r), i.e. it agrees with an independent textbook evaluation on every
input".

The textbook evaluation is `PP.Ate.reducedAte` of `PP/Spec/Ate.lean`: double-and-add Miller loop over the
bits of `|x| = Gen.BLS_X` in AFFINE coordinates, `T` updated by the chord-and-tangent formulas of
`E' : y² = x³ + 4(1+u)` over `Fq2`, `f ← f² · l_{ψT,ψT}(P)`, `f ← f · l_{ψT,ψQ}(P)` with the tangent and
chord lines of `E : y² = x³ + 4` through the untwisted points `ψ(x', y') = (x'/w², y'/w³) ∈ E(Fq12)`, slopes
computed in `Fq12`; no vertical lines (denominator elimination); then `conj(f)^(3(q¹²-1)/r)`.

WHAT IS PROVED (all kernel-checked, axioms `propext`, `Classical.choice`, `Quot.sound`):

1. Point tracking.  `doubling_step` doubles every representative of every point of `E'`
   (`doubling_step_point`); `addition_step` adds the affine point outside `r = 0`, `r = ±q`
   (`addition_step_point`); the accumulator of `G2Prepared::from_affine` after a prefix of the bits is a
   representative of `[k]Q`, `k` = the prefix with the leading one restored (`prepared_accumulator`),
   in Mathlib's group `(W g2Codec.b).Point`.
2. Lines.  For EVERY `P`, the dense `Fq12` element by which `ell` multiplies (`Miller.line c p`) is
   `ι(4YZ³) · w³ · l_{ψT,ψT}(P)` for the coefficients of `doubling_step` (`doubling_coeffs_are_tangent`)
   and `ι(4ZH) · w³ · l_{ψT,ψQ}(P)`, `H = x_Q Z² - X`, for those of `addition_step`
   (`addition_coeffs_are_chord`); `T = (X/Z², Y/Z³)`.  The scalars are non-zero elements of `Fq2`; `w³`
   lies in `Fq4` (`(w³)² = 1 + u`); both are sent to `1` by the final exponentiation (`unitish_fe`).
3. Assembly.  `millerLoop [(P, from_affine Q)] = some (conj (c · textbookMiller P Q))` with
   `c = ι a · (w³)ⁿ`, `a ∈ Fq2ˣ` (`miller_loop_is_textbook`).  The model's order of operations
   (`f ← (f · lines)²` per bit, one last `ell` after the loop, over the 62 bits of `|x| >> 1` below the
   leading one) is the textbook order (`f ← f² · lines` over the 63 bits of `|x|` below the leading one):
   `Lines.bitsBelowTop_eq`, `Lines.loops_agree`.
4. `pairing P Q = some (reducedAte P Q)` (`pairing_is_reduced_ate`, `pairing_is_reduced_ate_order_r`,
   `pairing_is_reduced_ate_checked`); consequently the textbook value at the generators is the published
   RELIC value (`reducedAte_generators`).

5. Denominator elimination.  The Miller function WITH the vertical lines, `textbookMillerFull`, differs
   from `textbookMiller` by a non-zero element of `Fq6` when `x_P ≠ 0` (`denominator_elimination`), so
   `reducedAteFull = reducedAte`; for `P ∈ G1`, `Q ∈ G2`: `pairing P Q = some (reducedAteFull P Q)`
   (`pairing_is_reduced_ate_full`).

SIDE CONDITIONS, all explicit: `P`, `Q` finite; `Q` on `E'`; `[j]Q ≠ 0` for `0 < j ≤ |x| + 1` (no
exceptional case of the affine formulas: vertical tangent or chord) - implied by `Q ≠ 0`, `[r]Q = 0`;
`P` on `E` is used only to get `y_P ≠ 0` (`E(Fq)` has no 2-torsion: `-4` is not a cube), which makes
every line value, hence the textbook Miller value, non-zero.  Without it: `pairing_is_reduced_ate_or_none`.

NOT proved IN THIS FILE: bilinearity / non-degeneracy (PROVED in PP/Props/C03Bilinear.lean without divisor theory); that `textbookMiller` is the Miller
function `f_{|x|,ψQ}(P)` in the sense of divisors is the DEFINITION used here (product of line functions),
not a theorem about divisors.
-/
import PP.Proofs.Lines2
import PP.Proofs.Lines3
import PP.Proofs.Lines4
import PP.Props.C03
import PP.Props.C07

namespace PP.C03Lines
open PP Ate Miller Lines

/-! ## 1. point tracking -/

/-- `doubling_step` doubles, for every representative of every point of `E'` (identity included) -/
theorem doubling_step_point (r : Jac Fq2) (hr : Jac.OnCurve g2Codec.b r) :
    Jac.OnCurve g2Codec.b (doublingStep r).1 ∧
      Jac.abs g2Codec.b (doublingStep r).1 = 2 • Jac.abs g2Codec.b r :=
  doublingStep_abs hr

/-- as a triple, the point returned by `doubling_step` is that of `double` -/
theorem doubling_step_eq_double (r : Jac Fq2) (hz : r.z ≠ 0) : (doublingStep r).1 = r.double :=
  doublingStep_eq_double r hz

/-- `addition_step` adds the affine point `q`, outside the exceptional cases `r = 0` and `r = ±q`
    (the latter is `X = x_Q Z²`) -/
theorem addition_step_point (r : Jac Fq2) (q : Aff Fq2) (hr : Jac.OnCurve g2Codec.b r)
    (hq : Aff.OnCurve g2Codec.b q) (hqi : q.infinity = false) (hz : r.z ≠ 0)
    (hx : r.x ≠ q.x * r.z ^ 2) :
    Jac.OnCurve g2Codec.b (additionStep r q).1 ∧
      Jac.abs g2Codec.b (additionStep r q).1 = Jac.abs g2Codec.b r + Aff.abs g2Codec.b q :=
  additionStep_abs hr hq hqi hz hx

/-- **the accumulator of `from_affine` is `[k]Q`**: after the bits `bs` (any list; for the prefixes of
    `blsXBits` these are the prefixes of the binary expansion of `|x|/2` below the leading one) the
    accumulator is a representative of `[k]Q`, `k = Lines.val 1 bs` the integer with binary expansion
    `1 bs`, provided `[j]Q ≠ 0` for `0 < j ≤ k + 1` -/
theorem prepared_accumulator (q : Aff Fq2) (hq : Aff.OnCurve g2Codec.b q) (hqi : q.infinity = false)
    (bs : List Bool)
    (hord : ∀ j : ℕ, 0 < j → j ≤ Lines.val 1 bs + 1 → j • Aff.abs g2Codec.b q ≠ 0) :
    Jac.OnCurve g2Codec.b (prepareLoop q bs q.toJac []).1 ∧
      Jac.abs g2Codec.b (prepareLoop q bs q.toJac []).1 = Lines.val 1 bs • Aff.abs g2Codec.b q :=
  prepareLoop_point hq hqi bs hord

/-- the whole loop of `from_affine` runs up to `[|x|/2]Q` (the last doubling, whose coefficients are
    appended, is not applied to the accumulator) -/
theorem prepared_accumulator_final (q : Aff Fq2) (hq : Aff.OnCurve g2Codec.b q)
    (hqi : q.infinity = false)
    (hord : ∀ j : ℕ, 0 < j → j ≤ Gen.BLS_X / 2 + 1 → j • Aff.abs g2Codec.b q ≠ 0) :
    Jac.abs g2Codec.b (prepareLoop q blsXBits q.toJac []).1 =
      (Gen.BLS_X / 2) • Aff.abs g2Codec.b q := by
  have := prepareLoop_point hq hqi blsXBits (by rw [val_blsXBits]; exact hord)
  rw [val_blsXBits] at this
  exact this.2

/-! ## 2. the coefficients are the tangent and chord lines -/

/-- the affine point `(X/Z², Y/Z³)` of `E'` denoted by the triple -/
abbrev affineOf (r : Jac Fq2) : Fq2 × Fq2 := Lines.aff r

/-- **`doubling_step` returns the tangent line**: for every `P = (x_P, y_P)`, the element by which `ell`
    multiplies is `ι(4YZ³) · w³` times the tangent to `E` at `ψ(T)` evaluated at `P` -/
theorem doubling_coeffs_are_tangent (r : Jac Fq2) (p : Aff Fq) (hy : r.y ≠ 0) (hz : r.z ≠ 0) :
    line (doublingStep r).2 p =
      ι (4 * r.y * r.z ^ 3) * Fq12.w ^ 3 *
        tangentAt (untwist (affineOf r)) (embed (p.x, p.y)) :=
  doublingStep_line r p hy hz

/-- **`addition_step` returns the chord line** through `ψ(T)` and `ψ(Q)`, up to `ι(4ZH) · w³`,
    `H = x_Q Z² - X ≠ 0` -/
theorem addition_coeffs_are_chord (r : Jac Fq2) (q : Aff Fq2) (p : Aff Fq) (hz : r.z ≠ 0)
    (hH : q.x * r.z ^ 2 - r.x ≠ 0) :
    line (additionStep r q).2 p =
      ι (4 * r.z * (q.x * r.z ^ 2 - r.x)) * Fq12.w ^ 3 *
        chordAt (untwist (affineOf r)) (untwist (q.x, q.y)) (embed (p.x, p.y)) :=
  additionStep_line r q p hz hH

/-- `ell` with the coefficients of `doubling_step` -/
theorem ell_doubling (f : Fq12) (r : Jac Fq2) (p : Aff Fq) (hy : r.y ≠ 0) (hz : r.z ≠ 0) :
    ell f (doublingStep r).2 p =
      f * (ι (4 * r.y * r.z ^ 3) * Fq12.w ^ 3 *
        tangentAt (untwist (affineOf r)) (embed (p.x, p.y))) := by
  rw [ell_eq, doubling_coeffs_are_tangent r p hy hz]

/-- the factors `ι a · (w³)ⁿ`, `a ≠ 0`, are sent to `1` by the final exponentiation -/
theorem unitish_fe (a : Fq2) (n : ℕ) (ha : a ≠ 0) :
    finalExponentiation (ι a * (Fq12.w ^ 3) ^ n) = some 1 :=
  Unitish.fe ⟨a, n, ha, rfl⟩

/-- `w³` generates `Fq4` over `Fq2`: `(w³)² = 1 + u` -/
theorem w_cube_sq : (Fq12.w ^ 3) ^ 2 = ι Fq2.xi := by rw [← pow_mul]; exact w_pow_six

/-! ## 3. the Miller loop -/

/-- **the model's Miller loop is the textbook Miller loop**, conjugated, up to a factor
    `c = ι a · (w³)ⁿ` with `a ∈ Fq2ˣ` -/
theorem miller_loop_is_textbook (p : Aff Fq) (q : Aff Fq2) (hp : p.infinity = false)
    (hqi : q.infinity = false) (hq : Aff.OnCurve g2Codec.b q)
    (hord : ∀ j : ℕ, 0 < j → j ≤ Gen.BLS_X + 1 → j • Aff.abs g2Codec.b q ≠ 0) :
    ∃ (a : Fq2) (n : ℕ), a ≠ 0 ∧
      millerLoop [(p, G2Prepared.fromAffine q)] =
        some (Fq12.conjugate (ι a * (Fq12.w ^ 3) ^ n * textbookMiller (p.x, p.y) (q.x, q.y))) := by
  obtain ⟨c, ⟨a, n, ha, rfl⟩, h⟩ := millerLoop_eq_textbook p q hp hqi hq hord
  exact ⟨a, n, ha, h⟩

/-- the same under the purely algebraic hypothesis that the textbook loop meets no vertical tangent or
    chord (`Lines.Regular`); `Q` need not be on the curve -/
theorem miller_loop_is_textbook_of_regular (p : Aff Fq) (q : Aff Fq2) (hp : p.infinity = false)
    (hqi : q.infinity = false)
    (hreg : Regular (q.x, q.y) (bitsBelowTop Gen.BLS_X) (q.x, q.y)) :
    ∃ (a : Fq2) (n : ℕ), a ≠ 0 ∧
      millerLoop [(p, G2Prepared.fromAffine q)] =
        some (Fq12.conjugate (ι a * (Fq12.w ^ 3) ^ n * textbookMiller (p.x, p.y) (q.x, q.y))) := by
  obtain ⟨c, ⟨a, n, ha, rfl⟩, h⟩ := millerLoop_eq_textbook_of_regular p q hp hqi hreg
  exact ⟨a, n, ha, h⟩

/-- the textbook Miller value does not vanish at points with `y_P ≠ 0` -/
theorem textbook_miller_ne_zero (P : Fq × Fq) (Q : Fq2 × Fq2) (hy : P.2 ≠ 0) :
    textbookMiller P Q ≠ 0 := textbookMiller_ne_zero P Q hy

/-! ## 4. the pairing -/

/-- **the pairing is the textbook reduced ate pairing**, or panics exactly when the textbook Miller
    value is `0`; no hypothesis on `P` beyond finiteness -/
theorem pairing_is_reduced_ate_or_none (p : Aff Fq) (q : Aff Fq2) (hp : p.infinity = false)
    (hqi : q.infinity = false) (hq : Aff.OnCurve g2Codec.b q)
    (hord : ∀ j : ℕ, 0 < j → j ≤ Gen.BLS_X + 1 → j • Aff.abs g2Codec.b q ≠ 0) :
    pairing p q =
      if textbookMiller (p.x, p.y) (q.x, q.y) = 0 then none
      else some (reducedAte (p.x, p.y) (q.x, q.y)) := by
  obtain ⟨c, hc, h⟩ := millerLoop_eq_textbook p q hp hqi hq hord
  rw [C03.pairing_eq_fe_miller, h, Option.bind_some]
  exact fe_conjugate_unitish_mul hc _

/-- **C03, agreement with the textbook evaluation**: for finite `P ∈ E(Fq)`, finite `Q ∈ E'(Fq2)` with
    `[j]Q ≠ 0` for `0 < j ≤ |x| + 1`,
    `pairing P Q = conj(f_{|x|,Q}(P)) ^ (3 (q¹² - 1) / r)` -/
theorem pairing_is_reduced_ate (p : Aff Fq) (q : Aff Fq2) (hp : Aff.OnCurve g1Codec.b p)
    (hpi : p.infinity = false) (hq : Aff.OnCurve g2Codec.b q) (hqi : q.infinity = false)
    (hord : ∀ j : ℕ, 0 < j → j ≤ Gen.BLS_X + 1 → j • Aff.abs g2Codec.b q ≠ 0) :
    pairing p q = some (reducedAte (p.x, p.y) (q.x, q.y)) := by
  rw [pairing_is_reduced_ate_or_none p q hpi hqi hq hord,
    if_neg (textbookMiller_ne_zero (p.x, p.y) (q.x, q.y) (g1_y_ne_zero hp hpi))]

/-- unfolded: the value is `conj(textbookMiller P Q) ^ (3 (q¹² - 1) / r)` -/
theorem pairing_is_reduced_ate' (p : Aff Fq) (q : Aff Fq2) (hp : Aff.OnCurve g1Codec.b p)
    (hpi : p.infinity = false) (hq : Aff.OnCurve g2Codec.b q) (hqi : q.infinity = false)
    (hord : ∀ j : ℕ, 0 < j → j ≤ Gen.BLS_X + 1 → j • Aff.abs g2Codec.b q ≠ 0) :
    pairing p q =
      some (Fq12.conjugate (textbookMiller (p.x, p.y) (q.x, q.y)) ^
        (3 * (Gen.q ^ 12 - 1) / Gen.r)) :=
  pairing_is_reduced_ate p q hp hpi hq hqi hord

/-- for `Q` in the subgroup of order `r` of `E'(Fq2)`, `Q ≠ 0` (in particular for `Q ∈ G2`): the
    hypothesis on the multiples holds since `r` is a prime larger than `|x| + 1` -/
theorem pairing_is_reduced_ate_order_r (p : Aff Fq) (q : Aff Fq2) (hp : Aff.OnCurve g1Codec.b p)
    (hpi : p.infinity = false) (hq : Aff.OnCurve g2Codec.b q) (hqi : q.infinity = false)
    (hr : Gen.r • Aff.abs g2Codec.b q = 0) :
    pairing p q = some (reducedAte (p.x, p.y) (q.x, q.y)) := by
  have h0 : Aff.abs g2Codec.b q ≠ 0 := fun h => by
    rw [Aff.abs_eq_zero_iff hq, hqi] at h; cases h
  exact pairing_is_reduced_ate p q hp hpi hq hqi (multiples_ne_zero_of_order_r h0 hr)

/-- the same with the model's own executable checks (`is_on_curve`, `in_subgroup`) as hypotheses -/
theorem pairing_is_reduced_ate_checked (p : Aff Fq) (q : Aff Fq2)
    (hp : p.isOnCurve g1Codec.b = true) (hpi : p.infinity = false)
    (hq : Aff.inSubgroup g2Codec.b q = true) (hqi : q.infinity = false) :
    pairing p q = some (reducedAte (p.x, p.y) (q.x, q.y)) := by
  have hq' := (Aff.inSubgroup_iff_inSub q).mp hq
  exact pairing_is_reduced_ate_order_r p q ((Aff.isOnCurve_iff _ p).mp hp) hpi hq'.1 hqi hq'.2

/-- **the textbook pairing of the generators is the published value** (`C03.pairing_generators`: the
    twelve decimals of `test_pairing_result_against_relic`): the specification `PP.Ate.reducedAte` is
    thereby tied to an external known answer -/
theorem reducedAte_generators :
    reducedAte (C03.g1Generator.x, C03.g1Generator.y) (C03.g2Generator.x, C03.g2Generator.y) =
      C03.relicValue := by
  have h := pairing_is_reduced_ate_order_r C03.g1Generator C03.g2Generator
    C07.g1Generator_inSub.1 rfl C07.g2Generator_inSub.1 rfl C07.g2Generator_killed
  rw [C03.pairing_generators] at h
  exact (Option.some.inj h).symm

/-! ## 5. with the vertical lines (denominator elimination) -/

/-- the Miller function without verticals is the one with verticals times a non-zero element of `Fq6`
    (`x_P ≠ 0`) -/
theorem denominator_elimination (P : Fq × Fq) (Q : Fq2 × Fq2) (hx : P.1 ≠ 0) :
    ∃ a : Fq6, a ≠ 0 ∧ textbookMiller P Q = textbookMillerFull P Q * Fq12.ofFq6 a := by
  obtain ⟨d, ⟨a, ha, rfl⟩, h⟩ := textbookMiller_eq_full P Q hx
  exact ⟨a, ha, h⟩

theorem reduced_ate_full_eq (P : Fq × Fq) (Q : Fq2 × Fq2) (hx : P.1 ≠ 0) :
    reducedAteFull P Q = reducedAte P Q := reducedAteFull_eq P Q hx

/-- **the pairing is the reduced ate pairing computed from the Miller function with tangents, chords
    and verticals**, for `P ∈ G1`, `Q ∈ G2` (the model's own `in_subgroup` checks), both finite -/
theorem pairing_is_reduced_ate_full (p : Aff Fq) (q : Aff Fq2)
    (hp : Aff.inSubgroup g1Codec.b p = true) (hpi : p.infinity = false)
    (hq : Aff.inSubgroup g2Codec.b q = true) (hqi : q.infinity = false) :
    pairing p q = some (reducedAteFull (p.x, p.y) (q.x, q.y)) := by
  have hp' := (Aff.inSubgroup_iff_inSub p).mp hp
  have hq' := (Aff.inSubgroup_iff_inSub q).mp hq
  rw [reducedAteFull_eq _ _ (g1_x_ne_zero hp'.1 hpi hp'.2)]
  exact pairing_is_reduced_ate_order_r p q hp'.1 hpi hq'.1 hqi hq'.2

/-! ## non-vacuity and cross-checks -/

/-- the hypotheses are satisfiable: the generators are finite, on their curves, and `[r]g2 = 0`
    (`C07`: the model's own `in_subgroup` evaluated by the kernel) -/
example : Aff.OnCurve g1Codec.b C03.g1Generator ∧ Aff.OnCurve g2Codec.b C03.g2Generator ∧
    Gen.r • Aff.abs g2Codec.b C03.g2Generator = 0 :=
  ⟨C07.g1Generator_inSub.1, C07.g2Generator_inSub.1, C07.g2Generator_killed⟩

/-- the specification's list of bits, with the leading one restored, is the binary expansion of `|x|` -/
theorem bits_represent_x : Lines.val 1 (bitsBelowTop Gen.BLS_X) = Gen.BLS_X := val_bitsBelowTop

/-- the specification's list of bits: 63 bits, 5 of them set (`|x|` has Hamming weight 6) -/
example : (bitsBelowTop Gen.BLS_X).length = 63 ∧ (bitsBelowTop Gen.BLS_X).count true = 5 := by
  decide +kernel

end PP.C03Lines
