/-
PROPERTY C07.  "Every point handed out by the safe public API - generators, random sampling, results
of arithmetic, scalar and multi-scalar multiplication on valid points, successfully decoded or
deserialized points, hash and map outputs - satisfies the curve equation and is annihilated by r.
The subgroup membership predicate returns true for a coordinate pair exactly when the pair is the
identity or lies on the curve and r times it is the identity; in particular it rejects points of
every order dividing the cofactor, points of twists and off-curve pairs."

Setting: the executable model of `PP/Model/Curve.lean` over an arbitrary field `F` with lawful model
operations and an arbitrary `b` with `ShortW b`; the abstract group is Mathlib's
`(W b).Point` (`W b : y² = x³ + b`) and `Jac.abs b`, `Aff.abs b` are the C01 abstraction maps.
`r = Gen.r` is the extracted scalar-field characteristic (`Fr::char()`), proved prime in
`PP.Proofs.Primes`.  The invariant of the property is

    `Jac.InSub b P  :=  Jac.OnCurve b P ∧ r • Jac.abs b P = 0`        (projective)
    `Aff.InSub b A  :=  Aff.OnCurve b A ∧ r • Aff.abs b A = 0`        (affine)

Part 1: the predicate `in_subgroup` decides `Aff.InSub` on EVERY coordinate record; rejections.
Part 2: the invariant is preserved by every operation of the curve API and by whole programs.
Part 3: the generators of G1 and G2 (kernel-evaluated) satisfy it, and have order exactly `r`.
Part 4: cofactor multiplication / `random`, conditional on the group order (explicit hypothesis).
Part 5: non-vacuity: concrete rejected points of `E(Fq)`.

Points produced by MSM, decoding and hashing are covered through the abstract closure lemmas
`linear_combination_killed`, `msm_result_inSub` (for C10), `inSub_of_inSubgroup` (for the decoders of
C04, which return a point only after `in_subgroup` answered `true`) and
`scaleByCofactor_inSub` (C06/C14/C17).
-/
import PP.Proofs.Subgroup

set_option linter.unusedSectionVars false

namespace PP.C07

open WeierstrassCurve.Affine

section generic
variable {F : Type} [Field F] [DecidableEq F] [FieldOps F] [LawfulFieldOps F]
variable {b : F} [ShortW b]

/-! ## Part 1: the subgroup membership predicate -/

/-- **The predicate, exactly.**  For every coordinate record `(x, y, infinity)` over `F`, on or off
    the curve: `in_subgroup` answers `true` iff the record is the identity (flag set; `x`, `y` are
    then ignored) or `(x, y)` satisfies `y² = x³ + b` and `r` times the point is the identity. -/
theorem inSubgroup_iff (A : Aff F) :
    Aff.inSubgroup b A = true ↔
      A.infinity = true ∨ (A.y ^ 2 = A.x ^ 3 + b ∧ Gen.r • Aff.abs b A = 0) :=
  Aff.inSubgroup_iff A

/-- the same, with "identity or satisfies the equation" folded into `Aff.OnCurve` -/
theorem inSubgroup_iff_onCurve (A : Aff F) :
    Aff.inSubgroup b A = true ↔ Aff.OnCurve b A ∧ Gen.r • Aff.abs b A = 0 :=
  Aff.inSubgroup_iff_onCurve A

/-- the predicate decides the invariant of this property -/
theorem inSubgroup_iff_inSub (A : Aff F) : Aff.inSubgroup b A = true ↔ Aff.InSub b A :=
  Aff.inSubgroup_iff_inSub A

/-- whatever passed `in_subgroup` (e.g. a successfully decoded point) is on the curve and killed
    by `r` -/
theorem inSub_of_inSubgroup {A : Aff F} (h : Aff.inSubgroup b A = true) : Aff.InSub b A :=
  (Aff.inSubgroup_iff_inSub A).mp h

/-- the second half of the check alone, `is_in_correct_subgroup_assuming_on_curve`, on a curve
    point: `self.mul(r).is_zero()` is `r • P = 0` -/
theorem inSubgroupAssumingOnCurve_iff {A : Aff F} (hA : Aff.OnCurve b A) :
    A.inSubgroupAssumingOnCurve = true ↔ Gen.r • Aff.abs b A = 0 :=
  Aff.inSubgroupAssumingOnCurve_iff hA

/-- the identity is accepted whatever its unused coordinates -/
theorem inSubgroup_identity (x y : F) : Aff.inSubgroup b ⟨x, y, true⟩ = true :=
  (inSubgroup_iff _).mpr (Or.inl rfl)

/-- off-curve pairs are rejected -/
theorem inSubgroup_rejects_off_curve {A : Aff F} (hi : A.infinity = false)
    (he : A.y ^ 2 ≠ A.x ^ 3 + b) : Aff.inSubgroup b A = false :=
  Aff.inSubgroup_eq_false_of_not_onCurve hi he

/-- points of any other curve `y² = x³ + b'`, `b' ≠ b` (all twists are of this form) are rejected -/
theorem inSubgroup_rejects_twist {A : Aff F} {b' : F} (hi : A.infinity = false)
    (he : A.y ^ 2 = A.x ^ 3 + b') (hb : b' ≠ b) : Aff.inSubgroup b A = false :=
  Aff.inSubgroup_eq_false_of_twist hi he hb

/-- a non-identity curve point killed by some `n` coprime to `r` is rejected -/
theorem inSubgroup_rejects_coprime_order {A : Aff F} {n : ℕ} (hn : n • Aff.abs b A = 0)
    (hc : Nat.Coprime n Gen.r) (hne : Aff.abs b A ≠ 0) : Aff.inSubgroup b A = false :=
  Aff.inSubgroup_eq_false_of_coprime hn hc hne

/-- G1: every non-identity point whose order divides the cofactor `h₁` is rejected
    (`gcd(h₁, r) = 1` is checked by the kernel on the extracted numbers) -/
theorem inSubgroup_rejects_order_dvd_G1_cofactor {A : Aff F} {n : ℕ}
    (hn : n • Aff.abs b A = 0) (hd : n ∣ Gen.G1_COFACTOR) (hne : Aff.abs b A ≠ 0) :
    Aff.inSubgroup b A = false :=
  Aff.inSubgroup_eq_false_of_dvd_cofactor hn hd g1_cofactor_coprime hne

/-- G2: every non-identity point whose order divides the cofactor `h₂` is rejected -/
theorem inSubgroup_rejects_order_dvd_G2_cofactor {A : Aff F} {n : ℕ}
    (hn : n • Aff.abs b A = 0) (hd : n ∣ Gen.G2_COFACTOR) (hne : Aff.abs b A ≠ 0) :
    Aff.inSubgroup b A = false :=
  Aff.inSubgroup_eq_false_of_dvd_cofactor hn hd g2_cofactor_coprime hne

/-- every accepted non-identity point has order exactly `r` -/
theorem addOrderOf_of_inSubgroup {A : Aff F} (h : Aff.inSubgroup b A = true)
    (hi : A.infinity = false) : addOrderOf (Aff.abs b A) = Gen.r := by
  obtain ⟨hoc, hk⟩ := inSub_of_inSubgroup h
  refine addOrderOf_eq_of_prime Primes.r_prime hk ?_
  rw [Ne, Aff.abs_eq_zero_iff hoc, hi]
  exact Bool.false_ne_true

/-! ## Part 2: results of arithmetic stay on the curve and in the subgroup -/

theorem zero_inSub : Jac.InSub b (Jac.zero : Jac F) := Jac.InSub.zero

theorem affZero_inSub : Aff.InSub b (Aff.zero : Aff F) := Aff.InSub.zero

theorem double_inSub {P : Jac F} (h : Jac.InSub b P) : Jac.InSub b P.double := h.double

theorem add_inSub {P Q : Jac F} (hP : Jac.InSub b P) (hQ : Jac.InSub b Q) :
    Jac.InSub b (P.add Q) := hP.add hQ

theorem sub_inSub {P Q : Jac F} (hP : Jac.InSub b P) (hQ : Jac.InSub b Q) :
    Jac.InSub b (P.sub Q) := hP.sub hQ

theorem neg_inSub {P : Jac F} (h : Jac.InSub b P) : Jac.InSub b P.neg := h.neg

theorem addMixed_inSub {P : Jac F} {A : Aff F} (hP : Jac.InSub b P) (hA : Aff.InSub b A) :
    Jac.InSub b (P.addMixed A) := hP.addMixed hA

theorem subMixed_inSub {P : Jac F} {A : Aff F} (hP : Jac.InSub b P) (hA : Aff.InSub b A) :
    Jac.InSub b (P.subMixed A) := hP.subMixed hA

theorem affNeg_inSub {A : Aff F} (h : Aff.InSub b A) : Aff.InSub b A.neg := h.neg

theorem toJac_inSub {A : Aff F} (h : Aff.InSub b A) : Jac.InSub b A.toJac := h.toJac

/-- projective → affine: no panic, same point, still in the subgroup, and the result passes the
    executable membership test -/
theorem toAffine_inSub {P : Jac F} (h : Jac.InSub b P) :
    ∃ A, P.toAffine = some A ∧ Aff.InSub b A ∧ Aff.abs b A = Jac.abs b P ∧
      Aff.inSubgroup b A = true := by
  obtain ⟨A, hA, hs, habs⟩ := h.toAffine
  exact ⟨A, hA, hs, habs, (Aff.inSubgroup_iff_inSub A).mpr hs⟩

theorem batchNormalize_inSub (v : List (Jac F)) (hv : ∀ P ∈ v, Jac.InSub b P) :
    ∃ out, Jac.batchNormalize v = some out ∧ out.length = v.length ∧ ∀ Q ∈ out, Jac.InSub b Q :=
  Jac.InSub.batchNormalize v hv

/-- affine scalar multiplication (`mul_bits` with any bit string) -/
theorem mulBits_inSub {A : Aff F} (h : Aff.InSub b A) (bits : List Bool) :
    Jac.InSub b (A.mulBits bits) := h.mulBits bits

/-- affine scalar multiplication `CurveAffine::mul` -/
theorem affMul_inSub {A : Aff F} (h : Aff.InSub b A) (k : ℕ) : Jac.InSub b (A.mul k) := h.mul k

/-- projective scalar multiplication `CurveProjective::mul_assign` -/
theorem mulAssign_inSub {P : Jac F} (h : Jac.InSub b P) (k : ℕ) : Jac.InSub b (P.mulAssign k) :=
  h.mulAssign k

/-- the value computed by the affine multiplication, for every curve point (used by the predicate):
    `A.mul k` is `[k mod 2^256] A` -/
theorem affMul_correct {A : Aff F} (hA : Aff.OnCurve b A) (k : ℕ) :
    Jac.OnCurve b (A.mul k) ∧ Jac.abs b (A.mul k) = (k % 2 ^ 256) • Aff.abs b A :=
  Aff.mul_spec hA k

/-- **Every sequence of curve operations** (the register machine of C01: add, sub, double, negate,
    mixed add/sub, affine round trip, batch normalisation, copy) started on subgroup points runs
    without panic and ends on subgroup points. -/
theorem program_inSub (prog : List C01.Instr) {regs : List (Jac F)}
    (h : ∀ P ∈ regs, Jac.InSub b P) :
    ∃ regs', C01.runJ prog regs = some regs' ∧ ∀ P ∈ regs', Jac.InSub b P :=
  C01.runJ_inSub prog h

/-! ### abstract closure: linear combinations (for the scalar / multi-scalar theorems of C02, C10) -/

/-- `r • (Σ kᵢ • gᵢ) = 0` when every `r • gᵢ = 0`, in any abelian group -/
theorem linear_combination_killed {G : Type} [AddCommGroup G] {ι : Type} (s : Finset ι)
    (k : ι → ℕ) (g : ι → G) (h : ∀ i ∈ s, Gen.r • g i = 0) : Gen.r • (∑ i ∈ s, k i • g i) = 0 :=
  killed_finset_sum s k g h

/-- any representative of `k • P` with `P` in the subgroup is in the subgroup -/
theorem smul_result_inSub {P R : Jac F} {k : ℕ} (hP : Jac.InSub b P) (hR : Jac.OnCurve b R)
    (habs : Jac.abs b R = k • Jac.abs b P) : Jac.InSub b R :=
  ⟨hR, by rw [habs]; exact killed_nsmul hP.2 k⟩

/-- a valid result denoting `Σ kᵢ • Pᵢ` (the form in which the MSM theorems of C10 state their
    result) with all `Pᵢ` in the subgroup is in the subgroup -/
theorem msm_result_inSub {points : List (Aff F)} {ks : List ℕ} {R : Jac F}
    (hp : ∀ A ∈ points, Aff.InSub b A) (hR : Jac.OnCurve b R)
    (habs : Jac.abs b R = ((List.zip points ks).map (fun pk => pk.2 • Aff.abs b pk.1)).sum) :
    Jac.InSub b R := by
  refine ⟨hR, ?_⟩
  rw [habs]
  apply killed_list_sum (Aff.abs b)
  intro pk hpk
  exact (hp pk.1 (List.of_mem_zip hpk).1).2

/-! ## Part 4: cofactor multiplication and `random` (conditional on the group order) -/

/-- `scale_by_cofactor` (`mul_bits` over the `n` limbs of `cof`) computes `[cof] A` on every curve
    point … -/
theorem scaleByCofactor_correct {A : Aff F} (hA : Aff.OnCurve b A) {n cof : ℕ}
    (hcof : cof < 2 ^ (64 * n)) :
    Jac.OnCurve b (A.mulBits (bitsMSB (limbsOf n cof))) ∧
      Jac.abs b (A.mulBits (bitsMSB (limbsOf n cof))) = cof • Aff.abs b A :=
  Aff.scaleByCofactor_spec hA hcof

/-- … hence lands in the order-`r` subgroup, PROVIDED `cof * r` kills the group of the curve.
    The group order is an explicit hypothesis HERE; it is PROVED in PP.Props.CurveOrder, which also instantiates the hypothesis-free versions. -/
theorem scaleByCofactor_inSub {A : Aff F} (hA : Aff.OnCurve b A) {n cof : ℕ}
    (hcof : cof < 2 ^ (64 * n)) (hord : ∀ g : (W b).Point, (cof * Gen.r) • g = 0) :
    Jac.InSub b (A.mulBits (bitsMSB (limbsOf n cof))) :=
  Aff.scaleByCofactor_inSub hA hcof hord

/-- `G1Affine::scale_by_cofactor` with the extracted limbs -/
theorem g1_scaleByCofactor_inSub {A : Aff F} (hA : Aff.OnCurve b A)
    (hord : ∀ g : (W b).Point, (Gen.G1_COFACTOR * Gen.r) • g = 0) :
    Jac.InSub b (A.mulBits (bitsMSB (limbsOf Gen.G1_COFACTOR_LIMBS Gen.G1_COFACTOR))) :=
  Aff.scaleByCofactor_inSub hA g1_cofactor_lt hord

/-- `G2Affine::scale_by_cofactor` with the extracted limbs -/
theorem g2_scaleByCofactor_inSub {A : Aff F} (hA : Aff.OnCurve b A)
    (hord : ∀ g : (W b).Point, (Gen.G2_COFACTOR * Gen.r) • g = 0) :
    Jac.InSub b (A.mulBits (bitsMSB (limbsOf Gen.G2_COFACTOR_LIMBS Gen.G2_COFACTOR))) :=
  Aff.scaleByCofactor_inSub hA g2_cofactor_lt hord

/-- one round of `random`: whatever `get_point_from_x` returns is a curve point, and its
    cofactor multiple (the value `random` returns when it is not the identity) is in the subgroup,
    conditionally on the group order -/
theorem random_candidate_inSub [SqrtOps F] [LawfulSqrtOps F] {x : F} {greatest : Bool} {p : Aff F}
    (h : Aff.getPointFromX b x greatest = some p) {n cof : ℕ} (hcof : cof < 2 ^ (64 * n))
    (hord : ∀ g : (W b).Point, (cof * Gen.r) • g = 0) :
    Aff.OnCurve b p ∧ Jac.InSub b (p.mulBits (bitsMSB (limbsOf n cof))) :=
  ⟨(Aff.getPointFromX_spec h).1, Aff.scaleByCofactor_inSub (Aff.getPointFromX_spec h).1 hcof hord⟩

end generic

/-! ## Part 3: the generators -/

/-- `G1Affine::one()` / `get_generator()` -/
def g1Generator : Aff Fq := ⟨Fq.ofMont Gen.G1_GENERATOR_X, Fq.ofMont Gen.G1_GENERATOR_Y, false⟩

/-- `G2Affine::one()` / `get_generator()` -/
def g2Generator : Aff Fq2 :=
  ⟨⟨Fq.ofMont Gen.G2_GENERATOR_X_C0, Fq.ofMont Gen.G2_GENERATOR_X_C1⟩,
   ⟨Fq.ofMont Gen.G2_GENERATOR_Y_C0, Fq.ofMont Gen.G2_GENERATOR_Y_C1⟩, false⟩

/-- the model's `in_subgroup` evaluated by the Lean kernel on the extracted G1 generator
    (a 255-bit double-and-add over `Fq`) -/
theorem g1Generator_inSubgroup : Aff.inSubgroup g1Codec.b g1Generator = true := by decide +kernel

/-- the same with the coefficient written `4` -/
theorem g1Generator_inSubgroup4 : Aff.inSubgroup (4 : Fq) g1Generator = true := by decide +kernel

/-- the model's `in_subgroup` evaluated by the Lean kernel on the extracted G2 generator, on the
    model's own `Fq2` operations -/
theorem g2Generator_inSubgroup : Aff.inSubgroup g2Codec.b g2Generator = true := by decide +kernel

/-- **the G1 generator** satisfies `y² = x³ + 4` and `r • g = 0` -/
theorem g1Generator_inSub : Aff.InSub g1Codec.b g1Generator :=
  inSub_of_inSubgroup g1Generator_inSubgroup

theorem g1Generator_equation : g1Generator.y ^ 2 = g1Generator.x ^ 3 + 4 := by
  have h := g1Generator_inSub.1
  rw [g1Codec_b] at h
  exact h.resolve_left (by decide)

theorem g1Generator_killed : Gen.r • Aff.abs g1Codec.b g1Generator = 0 := g1Generator_inSub.2

/-- it is not the identity, and its order is exactly `r` -/
theorem g1Generator_order : addOrderOf (Aff.abs g1Codec.b g1Generator) = Gen.r :=
  addOrderOf_of_inSubgroup g1Generator_inSubgroup rfl

/-- `G1::one()` (the projective generator `G1Affine::one().into()`) -/
theorem g1Generator_toJac_inSub : Jac.InSub g1Codec.b g1Generator.toJac := g1Generator_inSub.toJac

/-- **the G2 generator** satisfies `y² = x³ + 4(1 + u)` and `r • g = 0` -/
theorem g2Generator_inSub : Aff.InSub g2Codec.b g2Generator :=
  inSub_of_inSubgroup g2Generator_inSubgroup

theorem g2Generator_equation : g2Generator.y ^ 2 = g2Generator.x ^ 3 + g2Codec.b :=
  g2Generator_inSub.1.resolve_left (by decide)

theorem g2Generator_killed : Gen.r • Aff.abs g2Codec.b g2Generator = 0 := g2Generator_inSub.2

theorem g2Generator_order : addOrderOf (Aff.abs g2Codec.b g2Generator) = Gen.r :=
  addOrderOf_of_inSubgroup g2Generator_inSubgroup rfl

theorem g2Generator_toJac_inSub : Jac.InSub g2Codec.b g2Generator.toJac := g2Generator_inSub.toJac

/-- multiples of the generators, as `mul`/`mul_assign` compute them, are in the subgroup -/
theorem g1Generator_mul_inSub (k : ℕ) : Jac.InSub g1Codec.b (g1Generator.mul k) :=
  g1Generator_inSub.mul k

theorem g2Generator_mul_inSub (k : ℕ) : Jac.InSub g2Codec.b (g2Generator.mul k) :=
  g2Generator_inSub.mul k

/-! ## Part 5: non-vacuity — concrete points of `E(Fq) : y² = x³ + 4` that are rejected -/

section nonvacuity

/-- `(0, 2)` is on the curve (`2² = 0 + 4`) … -/
example : Aff.isOnCurve (4 : Fq) ⟨0, 2, false⟩ = true := by decide +kernel

/-- … it is rejected by the executable test (kernel evaluation) … -/
example : Aff.inSubgroup (4 : Fq) ⟨0, 2, false⟩ = false := by decide +kernel

/-- … and the reason is the one the property names: it is a non-identity point of order `3`, and
    `3` divides the G1 cofactor.  (`[3]P` is computed by the model's `mul_bits` on the bits `11`.) -/
theorem order_three_point :
    Aff.OnCurve (4 : Fq) ⟨0, 2, false⟩ ∧ 3 • Aff.abs (4 : Fq) ⟨0, 2, false⟩ = 0 ∧
      Aff.abs (4 : Fq) ⟨0, 2, false⟩ ≠ 0 ∧ 3 ∣ Gen.G1_COFACTOR := by
  have hoc : Aff.OnCurve (4 : Fq) ⟨0, 2, false⟩ := Or.inr (by decide +kernel)
  refine ⟨hoc, ?_, ?_, by decide +kernel⟩
  · have h := Aff.mulBits_spec hoc [true, true]
    have hz : (Aff.mulBits (⟨0, 2, false⟩ : Aff Fq) [true, true]).isZero = true := by decide +kernel
    rw [C01.isZero_iff h.1, h.2] at hz
    exact hz
  · rw [Ne, Aff.abs_eq_zero_iff hoc]
    exact Bool.false_ne_true

/-- so the general rejection theorem applies to it, non-vacuously -/
example : Aff.inSubgroup (4 : Fq) ⟨0, 2, false⟩ = false :=
  inSubgroup_rejects_order_dvd_G1_cofactor order_three_point.2.1 order_three_point.2.2.2
    order_three_point.2.2.1

/-- an off-curve pair: `(1, 1)`, `1 ≠ 1 + 4` -/
example : Aff.inSubgroup (4 : Fq) ⟨1, 1, false⟩ = false :=
  inSubgroup_rejects_off_curve rfl (by decide +kernel)

example : Aff.inSubgroup (4 : Fq) ⟨1, 1, false⟩ = false := by decide +kernel

/-- a point of another curve of the family: `(0, 1)` on `y² = x³ + 1` -/
example : Aff.inSubgroup (4 : Fq) ⟨0, 1, false⟩ = false :=
  inSubgroup_rejects_twist (b' := 1) rfl (by decide +kernel) (by decide +kernel)

/-- the identity with junk coordinates is accepted -/
example : Aff.inSubgroup (4 : Fq) ⟨5, 7, true⟩ = true := inSubgroup_identity 5 7

example : Aff.inSubgroup (4 : Fq) ⟨5, 7, true⟩ = true := by decide +kernel

/-- the invariant is inhabited by a non-identity point: the generator -/
example : Aff.InSub g1Codec.b g1Generator ∧ Aff.abs g1Codec.b g1Generator ≠ 0 :=
  ⟨g1Generator_inSub, by
    rw [Ne, Aff.abs_eq_zero_iff g1Generator_inSub.1]; exact Bool.false_ne_true⟩

end nonvacuity

end PP.C07
