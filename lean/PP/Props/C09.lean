/-
PROPERTY C09.  "For all elements, arithmetic in Fq2=Fq[u]/(u^2+1), Fq6=Fq2[v]/(v^3-(u+1)) and
Fq12=Fq6[w]/(w^2-v) (add, subtract, negate, double, multiply, square, invert, multiply by the
non-residue, norm, conjugation) equals arithmetic in those quotient rings, with inversion failing
only for zero.  The Frobenius map with any power k equals x -> x^(q^k), and the sparse
multiplications used by the pairing equal the dense product with the corresponding sparse operand."

How the statement is rendered.
* `Fq2`, `Fq6`, `Fq12` (model types, `PP/Model/Tower.lean`) carry `CommRing` instances whose
  `0 1 + - * neg` ARE the model functions (`ringOps_*`, all by `rfl`), and, for prime `q`, `Field`
  instances whose `⁻¹` is `(inverse ·).getD 0`.
* These rings are the quotient rings of the property: explicit ring isomorphisms
  `AdjoinRoot (X²+1) ≃+* Fq2`, `AdjoinRoot (X³-ξ) ≃+* Fq6`, `AdjoinRoot (X²-v) ≃+* Fq12` sending the
  adjoined root to `u`/`v`/`w` and constants to constants (`quotient_*`), and, independently of
  primality, the schoolbook description of the product modulo `u²=-1`, `v³=ξ`, `w²=v` (`mul_*`).
* every other model operation is expressed by ring operations (`derived_*`, `inverse_*`,
  `sparse_*`, `frobenius_*`).

The only hypothesis anywhere is `[Fact (Nat.Prime Gen.q)]` (proved in `PP.Proofs.Primes`, which is
not imported here); it is needed exactly for: inversion, the quotient isomorphisms, Frobenius.
-/
import PP.Proofs.Tower

namespace PP.C09
open PP Polynomial

/-- "the `CommRing` structure on `R` has exactly these functions as its operations".  Inside this
    declaration only the `CommRing` instance is in scope, so `+ - * 0 1` below are unambiguously its. -/
structure RingOpsAre (R : Type) [CommRing R] (zero one : R) (add sub mul : R → R → R)
    (neg : R → R) : Prop where
  zero_eq : (0 : R) = zero
  one_eq : (1 : R) = one
  add_eq : ∀ a b : R, a + b = add a b
  sub_eq : ∀ a b : R, a - b = sub a b
  mul_eq : ∀ a b : R, a * b = mul a b
  neg_eq : ∀ a : R, -a = neg a

/-- "the `Field` structure on `F` has this function as its inverse" -/
def FieldInvIs (F : Type) [Field F] (inv : F → F) : Prop := ∀ a : F, a⁻¹ = inv a

/-! ## 1. ring structure on the model's own operations -/

theorem ringOps_Fq2 : RingOpsAre Fq2 ⟨0, 0⟩ ⟨1, 0⟩ Fq2.add Fq2.sub Fq2.mul Fq2.neg :=
  ⟨rfl, rfl, fun _ _ => rfl, fun _ _ => rfl, fun _ _ => rfl, fun _ => rfl⟩

theorem ringOps_Fq6 : RingOpsAre Fq6 ⟨0, 0, 0⟩ ⟨1, 0, 0⟩ Fq6.add Fq6.sub Fq6.mul Fq6.neg :=
  ⟨rfl, rfl, fun _ _ => rfl, fun _ _ => rfl, fun _ _ => rfl, fun _ => rfl⟩

theorem ringOps_Fq12 : RingOpsAre Fq12 ⟨0, 0⟩ ⟨1, 0⟩ Fq12.add Fq12.sub Fq12.mul Fq12.neg :=
  ⟨rfl, rfl, fun _ _ => rfl, fun _ _ => rfl, fun _ _ => rfl, fun _ => rfl⟩

/-! ## 2. these rings are the quotient rings: schoolbook products and generator relations -/

/-- `Fq2 = Fq[u]/(u²+1)`: product of `a0 + a1 u` and `b0 + b1 u` reduced by `u² = -1` -/
theorem mul_Fq2 (a b : Fq2) :
    Fq2.mul a b = ⟨a.c0 * b.c0 - a.c1 * b.c1, a.c0 * b.c1 + a.c1 * b.c0⟩ :=
  Fq2.ext (Fq2.mul_c0 a b) (Fq2.mul_c1 a b)

/-- `Fq6 = Fq2[v]/(v³-ξ)`, `ξ = 1 + u`: schoolbook product reduced by `v³ = ξ` -/
theorem mul_Fq6 (a b : Fq6) :
    Fq6.mul a b = ⟨a.c0 * b.c0 + Fq2.xi * (a.c1 * b.c2 + a.c2 * b.c1),
                   a.c0 * b.c1 + a.c1 * b.c0 + Fq2.xi * (a.c2 * b.c2),
                   a.c0 * b.c2 + a.c1 * b.c1 + a.c2 * b.c0⟩ :=
  Fq6.ext (Fq6.mul_c0 a b) (Fq6.mul_c1 a b) (Fq6.mul_c2 a b)

/-- `Fq12 = Fq6[w]/(w²-v)`: schoolbook product reduced by `w² = v` -/
theorem mul_Fq12 (a b : Fq12) :
    Fq12.mul a b = ⟨a.c0 * b.c0 + Fq6.v * (a.c1 * b.c1), a.c0 * b.c1 + a.c1 * b.c0⟩ :=
  Fq12.ext (Fq12.mul_c0 a b) (Fq12.mul_c1 a b)

/-- generators: `u = (0,1)`, `ξ = (1,1) = 1 + u`, `v = (0,1,0)`, `w = (0,1)`, with
    `u² = -1`, `v³ = ξ`, `w² = v`, and every element is the polynomial in the generator with its
    components as coefficients (coefficients embedded by the injective ring maps `ofFq…`) -/
theorem generators :
    Fq2.u * Fq2.u = -1 ∧ Fq2.xi = 1 + Fq2.u ∧
    Fq6.v ^ 3 = Fq6.ofFq2 Fq2.xi ∧ Fq12.w ^ 2 = Fq12.ofFq6 Fq6.v ∧
    (∀ a : Fq2, a = Fq2.ofFq a.c0 + Fq2.ofFq a.c1 * Fq2.u) ∧
    (∀ a : Fq6, a = Fq6.ofFq2 a.c0 + Fq6.ofFq2 a.c1 * Fq6.v + Fq6.ofFq2 a.c2 * Fq6.v ^ 2) ∧
    (∀ a : Fq12, a = Fq12.ofFq6 a.c0 + Fq12.ofFq6 a.c1 * Fq12.w) ∧
    Function.Injective Fq2.ofFq ∧ Function.Injective Fq6.ofFq2 ∧ Function.Injective Fq12.ofFq6 :=
  ⟨Fq2.u_mul_u, Fq2.xi_eq, Fq6.v_pow_three, Fq12.w_pow_two, Fq2.eq_add_mul_u,
   fun a => by rw [pow_two]; exact Fq6.eq_add_mul_v a, Fq12.eq_add_mul_w,
   Fq2.ofFq_injective, Fq6.ofFq2_injective, Fq12.ofFq6_injective⟩

section Prime
variable [Fact (Nat.Prime Gen.q)]

/-- `Fq2` with the model's operations is Mathlib's quotient ring `Fq[X]/(X²+1)`, `X ↦ u` -/
theorem quotient_Fq2 :
    ∃ e : AdjoinRoot (X ^ 2 + 1 : Fq[X]) ≃+* Fq2,
      e (AdjoinRoot.root _) = Fq2.u ∧ ∀ c, e (AdjoinRoot.of _ c) = Fq2.ofFq c :=
  ⟨Fq2.quotEquiv, Fq2.quotEquiv_root, Fq2.quotEquiv_of⟩

/-- `Fq6` with the model's operations is Mathlib's quotient ring `Fq2[X]/(X³-ξ)`, `X ↦ v` -/
theorem quotient_Fq6 :
    ∃ e : AdjoinRoot (X ^ 3 - C Fq2.xi : Fq2[X]) ≃+* Fq6,
      e (AdjoinRoot.root _) = Fq6.v ∧ ∀ c, e (AdjoinRoot.of _ c) = Fq6.ofFq2 c :=
  ⟨Fq6.quotEquiv, Fq6.quotEquiv_root, Fq6.quotEquiv_of⟩

/-- `Fq12` with the model's operations is Mathlib's quotient ring `Fq6[X]/(X²-v)`, `X ↦ w` -/
theorem quotient_Fq12 :
    ∃ e : AdjoinRoot (X ^ 2 - C Fq6.v : Fq6[X]) ≃+* Fq12,
      e (AdjoinRoot.root _) = Fq12.w ∧ ∀ c, e (AdjoinRoot.of _ c) = Fq12.ofFq6 c :=
  ⟨Fq12.quotEquiv, Fq12.quotEquiv_root, Fq12.quotEquiv_of⟩

end Prime

/-! ## 3. double, square, multiplication by the non-residue, norm, conjugation -/

theorem derived_Fq2 (a b : Fq2) :
    Fq2.double a = a + a ∧ Fq2.square a = a * a ∧
    Fq2.mulByNonresidue a = a * Fq2.xi ∧
    Fq2.norm a = a.c0 ^ 2 + a.c1 ^ 2 ∧
    Fq2.ofFq (Fq2.norm a) = a * Fq2.conj a ∧
    Fq2.norm (a * b) = Fq2.norm a * Fq2.norm b ∧
    (sq a = a * a ∧ dbl a = a + a) :=
  ⟨Fq2.double_eq a, Fq2.square_eq a, Fq2.mulByNonresidue_eq a,
   by rw [Fq2.norm_eq]; ring, (Fq2.mul_conj a).symm, Fq2.norm_mul a b, Fq2.sq_eq a, Fq2.dbl_eq a⟩

theorem derived_Fq6 (a : Fq6) :
    Fq6.double a = a + a ∧ Fq6.square a = a * a ∧
    Fq6.mulByNonresidue a = a * Fq6.v ∧
    (sq a = a * a ∧ dbl a = a + a) :=
  ⟨Fq6.double_eq a, Fq6.square_eq a, Fq6.mulByNonresidue_eq a, Fq6.sq_eq a, Fq6.dbl_eq a⟩

theorem derived_Fq12 (a : Fq12) :
    Fq12.double a = a + a ∧ Fq12.square a = a * a ∧ (sq a = a * a ∧ dbl a = a + a) :=
  ⟨Fq12.double_eq a, Fq12.square_eq a, Fq12.sq_eq a, Fq12.dbl_eq a⟩

/-- `conjugate` is the ring automorphism of `Fq12` fixing `Fq6` with `w ↦ -w`,
    i.e. `c0 + c1 w ↦ c0 - c1 w` -/
theorem conjugation_Fq12 :
    (∀ a : Fq12, Fq12.conjugate a = Fq12.ofFq6 a.c0 - Fq12.ofFq6 a.c1 * Fq12.w) ∧
    (∀ a b, Fq12.conjugate (a * b) = Fq12.conjugate a * Fq12.conjugate b) ∧
    (∀ a b, Fq12.conjugate (a + b) = Fq12.conjugate a + Fq12.conjugate b) ∧
    Fq12.conjugate 1 = 1 ∧
    (∀ c, Fq12.conjugate (Fq12.ofFq6 c) = Fq12.ofFq6 c) ∧
    Fq12.conjugate Fq12.w = -Fq12.w ∧
    (∀ a, Fq12.conjugate (Fq12.conjugate a) = a) :=
  ⟨fun a => by
      ext1 <;> simp [Fq12.conjugate_c0, Fq12.conjugate_c1, Fq12.mul_c0, Fq12.mul_c1, Fq12.w],
   Fq12.conjugate_mul, Fq12.conjugate_add, Fq12.conjugate_one, Fq12.conjugate_ofFq6,
   Fq12.conjugate_w, Fq12.conjugate_conjugate⟩

/-! ## 4. inversion: fails exactly for zero, otherwise returns the inverse; field structure -/

section Prime
variable [Fact (Nat.Prime Gen.q)]

theorem inverse_Fq2 (a : Fq2) :
    (Fq2.inverse a = none ↔ a = 0) ∧ (∀ b, Fq2.inverse a = some b → a * b = 1) :=
  ⟨Fq2.inverse_eq_none_iff a, fun _ h => Fq2.inverse_some_mul h⟩

theorem inverse_Fq6 (a : Fq6) :
    (Fq6.inverse a = none ↔ a = 0) ∧ (∀ b, Fq6.inverse a = some b → a * b = 1) :=
  ⟨Fq6.inverse_eq_none_iff a, fun _ h => Fq6.inverse_some_mul h⟩

theorem inverse_Fq12 (a : Fq12) :
    (Fq12.inverse a = none ↔ a = 0) ∧ (∀ b, Fq12.inverse a = some b → a * b = 1) :=
  ⟨Fq12.inverse_eq_none_iff a, fun _ h => Fq12.inverse_some_mul h⟩

/-- the `Field` instances invert with the model's `inverse` -/
theorem fieldInv :
    FieldInvIs Fq2 (fun a => (Fq2.inverse a).getD 0) ∧
    FieldInvIs Fq6 (fun a => (Fq6.inverse a).getD 0) ∧
    FieldInvIs Fq12 (fun a => (Fq12.inverse a).getD 0) :=
  ⟨fun _ => rfl, fun _ => rfl, fun _ => rfl⟩

/-- the interface used by the generic curve theorems -/
example : LawfulFieldOps Fq2 := inferInstance
example : LawfulFieldOps Fq6 := inferInstance
example : LawfulFieldOps Fq12 := inferInstance

/-! ## 5. Frobenius: `frobenius_map(k)` is `x ↦ x^(q^k)` for every `k` -/

theorem frobenius_Fq2 (k : ℕ) (x : Fq2) : Fq2.frobeniusMap x k = x ^ Gen.q ^ k :=
  Fq2.frobenius_spec k x

theorem frobenius_Fq6 (k : ℕ) (x : Fq6) : Fq6.frobeniusMap x k = x ^ Gen.q ^ k :=
  Fq6.frobenius_spec k x

theorem frobenius_Fq12 (k : ℕ) (x : Fq12) : Fq12.frobeniusMap x k = x ^ Gen.q ^ k :=
  Fq12.frobenius_spec k x

/-- the same through the `FieldOps` interface used by the generic code (`Fq` included) -/
theorem frobenius_fieldOps (k : ℕ) :
    (∀ x : Fq, FieldOps.frob x k = x ^ Gen.q ^ k) ∧ (∀ x : Fq2, FieldOps.frob x k = x ^ Gen.q ^ k) ∧
    (∀ x : Fq6, FieldOps.frob x k = x ^ Gen.q ^ k) ∧ (∀ x : Fq12, FieldOps.frob x k = x ^ Gen.q ^ k) :=
  ⟨Fq.frobenius_spec k, Fq2.frobenius_spec k, Fq6.frobenius_spec k, Fq12.frobenius_spec k⟩

/-- the `Fq12` conjugation (the "easy part" of the final exponentiation) is `x ↦ x^(q^6)` -/
theorem conjugate_eq_pow (x : Fq12) : Fq12.conjugate x = x ^ Gen.q ^ 6 :=
  Fq12.conjugate_eq_pow x

end Prime

/-! ## 6. sparse multiplications = dense product with the sparse operand -/

theorem sparse_mulBy1 (a : Fq6) (c1 : Fq2) : Fq6.mulBy1 a c1 = a * ⟨0, c1, 0⟩ :=
  Fq6.mulBy1_eq a c1

theorem sparse_mulBy01 (a : Fq6) (c0 c1 : Fq2) : Fq6.mulBy01 a c0 c1 = a * ⟨c0, c1, 0⟩ :=
  Fq6.mulBy01_eq a c0 c1

theorem sparse_mulBy014 (a : Fq12) (c0 c1 c4 : Fq2) :
    Fq12.mulBy014 a c0 c1 c4 = a * ⟨⟨c0, c1, 0⟩, ⟨0, c4, 0⟩⟩ :=
  Fq12.mulBy014_eq a c0 c1 c4

/-! ## non-vacuity: concrete instances, evaluated by the kernel on the model itself -/

-- zero, generators, elements with zero components, subfield elements
example : Fq2.inverse 0 = none := by decide +kernel
example : Fq6.inverse 0 = none := by decide +kernel
example : Fq12.inverse 0 = none := by decide +kernel
example : Fq2.inverse Fq2.u = some (-Fq2.u) := by decide +kernel
example : Fq2.mul Fq2.u (-Fq2.u) = 1 := by decide +kernel
example : (Fq6.inverse Fq6.v).map (Fq6.mul Fq6.v) = some 1 := by decide +kernel
example : (Fq12.inverse Fq12.w).map (Fq12.mul Fq12.w) = some 1 := by decide +kernel
example : (Fq12.inverse ⟨⟨⟨2, 0⟩, 0, 0⟩, 0⟩).map (Fq12.mul ⟨⟨⟨2, 0⟩, 0, 0⟩, 0⟩) = some 1 := by
  decide +kernel
example : (Fq12.inverse ⟨0, ⟨0, 0, ⟨0, 5⟩⟩⟩).map (Fq12.mul ⟨0, ⟨0, 0, ⟨0, 5⟩⟩⟩) = some 1 := by
  decide +kernel
example : Fq2.mulByNonresidue Fq2.u = ⟨-1, 1⟩ := by decide +kernel
example : Fq6.mulByNonresidue ⟨0, 0, 1⟩ = Fq6.ofFq2 Fq2.xi := by decide +kernel
example : Fq12.mul Fq12.w Fq12.w = Fq12.ofFq6 Fq6.v := by decide +kernel
example : Fq2.norm Fq2.xi = 2 := by decide +kernel
-- Frobenius on the generators: order 2 / 6 / 12, `k` beyond the table length, `conjugate = frob 6`
example : Fq2.frobeniusMap Fq2.u 1 = -Fq2.u := by decide +kernel
example : Fq2.frobeniusMap Fq2.u 7 = -Fq2.u := by decide +kernel
example : Fq6.frobeniusMap Fq6.v 1 ≠ Fq6.v := by decide +kernel
example : Fq6.frobeniusMap Fq6.v 2 ≠ Fq6.v := by decide +kernel
example : Fq6.frobeniusMap Fq6.v 3 ≠ Fq6.v := by decide +kernel
example : Fq6.frobeniusMap Fq6.v 6 = Fq6.v := by decide +kernel
example : Fq12.frobeniusMap Fq12.w 4 ≠ Fq12.w := by decide +kernel
example : Fq12.frobeniusMap Fq12.w 6 = -Fq12.w := by decide +kernel
example : Fq12.frobeniusMap Fq12.w 12 = Fq12.w := by decide +kernel
example : Fq12.frobeniusMap Fq12.w 25 = Fq12.frobeniusMap Fq12.w 1 := by decide +kernel
example : Fq12.frobeniusMap (Fq12.ofFq6 (Fq6.ofFq2 (Fq2.ofFq 3))) 5
    = Fq12.ofFq6 (Fq6.ofFq2 (Fq2.ofFq 3)) := by decide +kernel
-- sparse products on concrete operands (including a zero operand)
example : Fq6.mulBy1 ⟨Fq2.u, 1, Fq2.xi⟩ Fq2.xi = Fq6.mul ⟨Fq2.u, 1, Fq2.xi⟩ ⟨0, Fq2.xi, 0⟩ := by
  decide +kernel
example : Fq12.mulBy014 Fq12.w 0 0 0 = 0 := by decide +kernel
example : Fq12.mulBy014 ⟨Fq6.v, ⟨Fq2.u, 1, Fq2.xi⟩⟩ Fq2.u 1 Fq2.xi
    = Fq12.mul ⟨Fq6.v, ⟨Fq2.u, 1, Fq2.xi⟩⟩ ⟨⟨Fq2.u, 1, 0⟩, ⟨0, Fq2.xi, 0⟩⟩ := by decide +kernel

-- the general theorems instantiated at the generators
section Prime
variable [Fact (Nat.Prime Gen.q)]
example : Fq12.frobeniusMap Fq12.w 1 = Fq12.w ^ Gen.q := by
  simpa using frobenius_Fq12 1 Fq12.w
example : Fq6.frobeniusMap Fq6.v 0 = Fq6.v := by simpa using frobenius_Fq6 0 Fq6.v
example (c : Fq) (hc : c ≠ 0) : Fq2.inverse (Fq2.ofFq c) ≠ none := fun h =>
  hc (Fq2.ofFq_injective (by rw [(inverse_Fq2 _).1.mp h, map_zero]))
end Prime

end PP.C09
