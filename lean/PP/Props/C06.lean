/-
PROPERTY C06.  "For every message and every domain-separation tag of at most 255 bytes, hashing to G1
or G2 in random-oracle or non-uniform mode, with the SHA-2 based or XOF based message expansion,
returns exactly the point defined by RFC 9380 for the suites BLS12381G1/G2_XMD:SHA-256_SSWU_RO_/NU_
and their XOF analogues: hash_to_field, simplified SWU on the isogenous curve, isogeny, point
addition, cofactor clearing with h_eff. The result is always a point of the order-r subgroup and
depends only on (message, tag)."

Model: `hashToCurveG1/G2` (random-oracle mode, two field elements), `encodeToCurveG1/G2`
(non-uniform mode, one element) of `PP/Model/Map.lean`, parametrised by the expander
(`expandMessageXmd H` for a Merkle–Damgård hash `H`, `Expand.xofExpand xof` for an XOF).

Specification (RFC 9380 §3, §6.6.2, §6.6.3, §8.8, appendix E), assembled here from the pieces of the
earlier properties:
* `Rfc.hash_to_field` (§5.2, `PP/Spec/Rfc9380.lean`) with `p = q`, `L = 64`, `m = 1` (G1) or `2` (G2);
* `Spec.IsSswu` (§6.6.2, `PP/Spec/Sswu.lean`) on `E' : y² = x³ + A'x + B'` with `Z = 11` resp.
  `Z = −(2+I)`, and `isoMapPoint` (appendix E: the rational map, identity on its poles):
  `IsMapToCurveG1 u Q`, `IsMapToCurveG2 u Q` — these relations are FUNCTIONAL (`isMapToCurveG1_unique`);
* `hash_to_curve`: `P = h_eff • (Q0 + Q1)`, `encode_to_curve`: `P = h_eff • Q`, in Mathlib's group of
  points of `E : y² = x³ + b` (`IsHashToCurveG1`, `IsEncodeToCurveG1`, … below).

Theorems, for ANY expander `expand` whose successful outputs are at least as long as requested
(`hl`), any message and tag:
* `hashToCurveG1_eq_rfc`, `encodeToCurveG1_eq_rfc`, `hashToCurveG2_eq_rfc`, `encodeToCurveG2_eq_rfc`:
  whenever the RFC's `hash_to_field` over `expand` returns `us`, the model returns `some P`, `P` is on
  the curve, and the point it denotes is the RFC's for the field elements `us` (so in particular the
  model does not abort on its own);  `…_none_iff`: it aborts exactly when the expander does;
* `…_xmd`: the same with the model's XMD expander on the model side and RFC 9380's
  `expand_message_xmd` on the specification side (hash with `outSize`-byte digests, tag ≤ 255 bytes);
  `…_xmd_total`: no abort when `ell ≤ 255` (always true for SHA-256/512, see `…_sha256`);
* `…_xof`: the same for XOFs;
* `…_inSub`: the subgroup clause under the curve-order hypotheses of C17 (`hexp`, `hord`), visible;
* "depends only on (message, tag)": the model's `hashToCurveG1 expand msg dst` is a Lean function of
  `(expand, msg, dst)` — a mathematical function, no hidden state — so this clause holds by
  construction of the model (the faithfulness of the model to the Rust is the subject of the
  differential tests, not of a theorem); on the spec side the relation is functional
  (`isHashToCurveG1_unique`), so the RFC point is determined by `(msg, dst)` too.

NOT proved here (proved in PP.Props.C16Hom and PP.Props.C16Hom11): that `isoMapPoint` is a group homomorphism `E' → E`; the RFC does not need
it to DEFINE the output, and neither do the statements below.  SHA-256's output length (`hH`) is a
hypothesis as in C13.
-/
import PP.Props.C14
import PP.Props.C13

namespace PP
namespace C06

open C17 (hEffG1 hEffG2)
open PP.Spec (IsSswu sswuG)
open Sswu (affX affY)
open Expand

local notation "b₁" => g1Codec.b
local notation "b₂" => g2Codec.b

/-! ## the RFC's `map_to_curve`, `hash_to_curve`, `encode_to_curve` for the two suites -/

/-- §6.6.3 for G1: `Q = iso_map(map_to_curve_simple_swu(u))` -/
def IsMapToCurveG1 (u : Fq) (Q : (W b₁).Point) : Prop :=
  ∃ x y, IsSswu Zp.sgn0 g1EllpA g1EllpB g1Xi u x y ∧
    Q = isoMapPoint b₁ Iso.iso11XNum Iso.iso11XDen Iso.iso11YNum Iso.iso11YDen x y

/-- §6.6.3 for G2 -/
def IsMapToCurveG2 (u : Fq2) (Q : (W b₂).Point) : Prop :=
  ∃ x y, IsSswu Fq2.sgn0 g2EllpA g2EllpB g2Xi u x y ∧
    Q = isoMapPoint b₂ Iso.iso3XNum Iso.iso3XDen Iso.iso3YNum Iso.iso3YDen x y

/-- §3 `hash_to_curve`, steps 2–6, for `u = (u0, u1)` -/
def IsHashToCurveG1 (u0 u1 : Fq) (P : (W b₁).Point) : Prop :=
  ∃ Q0 Q1, IsMapToCurveG1 u0 Q0 ∧ IsMapToCurveG1 u1 Q1 ∧ P = hEffG1 • (Q0 + Q1)

/-- §3 `encode_to_curve`, steps 2–4 -/
def IsEncodeToCurveG1 (u : Fq) (P : (W b₁).Point) : Prop :=
  ∃ Q, IsMapToCurveG1 u Q ∧ P = hEffG1 • Q

def IsHashToCurveG2 (u0 u1 : Fq2) (P : (W b₂).Point) : Prop :=
  ∃ Q0 Q1, IsMapToCurveG2 u0 Q0 ∧ IsMapToCurveG2 u1 Q1 ∧ P = hEffG2 • (Q0 + Q1)

def IsEncodeToCurveG2 (u : Fq2) (P : (W b₂).Point) : Prop :=
  ∃ Q, IsMapToCurveG2 u Q ∧ P = hEffG2 • Q

/-! ### the relations are functional -/

theorem isMapToCurveG1_unique {u : Fq} {Q Q' : (W b₁).Point} (h : IsMapToCurveG1 u Q)
    (h' : IsMapToCurveG1 u Q') : Q = Q' := by
  obtain ⟨x, y, hs, hQ⟩ := h
  obtain ⟨x', y', hs', hQ'⟩ := h'
  obtain ⟨hx, hy⟩ := sswu_unique Zp.sgn0 Sswu.Fq.sgn0_neg Sswu.g1_no_root hs hs'
  rw [hQ, hQ', hx, hy]

theorem isMapToCurveG2_unique {u : Fq2} {Q Q' : (W b₂).Point} (h : IsMapToCurveG2 u Q)
    (h' : IsMapToCurveG2 u Q') : Q = Q' := by
  obtain ⟨x, y, hs, hQ⟩ := h
  obtain ⟨x', y', hs', hQ'⟩ := h'
  obtain ⟨hx, hy⟩ := sswu_unique Fq2.sgn0 Sswu.Fq2.sgn0_neg (Sswu.g2_no_root hcard) hs hs'
  rw [hQ, hQ', hx, hy]

theorem isHashToCurveG1_unique {u0 u1 : Fq} {P P' : (W b₁).Point} (h : IsHashToCurveG1 u0 u1 P)
    (h' : IsHashToCurveG1 u0 u1 P') : P = P' := by
  obtain ⟨Q0, Q1, h0, h1, hP⟩ := h
  obtain ⟨Q0', Q1', h0', h1', hP'⟩ := h'
  rw [hP, hP', isMapToCurveG1_unique h0 h0', isMapToCurveG1_unique h1 h1']

theorem isHashToCurveG2_unique {u0 u1 : Fq2} {P P' : (W b₂).Point} (h : IsHashToCurveG2 u0 u1 P)
    (h' : IsHashToCurveG2 u0 u1 P') : P = P' := by
  obtain ⟨Q0, Q1, h0, h1, hP⟩ := h
  obtain ⟨Q0', Q1', h0', h1', hP'⟩ := h'
  rw [hP, hP', isMapToCurveG2_unique h0 h0', isMapToCurveG2_unique h1 h1']

/-! ## C14 in terms of the RFC relations -/

theorem g1_isMapToCurve (u : Fq) : IsMapToCurveG1 u (Jac.abs b₁ (iso11 (osswuG1 u))) :=
  ⟨_, _, (C14.g1_sswu_iso_eq_rfc u).1, (C14.g1_sswu_iso_eq_rfc u).2⟩

/-- `map2_to_curve` is RFC 9380's `clear_cofactor(map_to_curve(u0) + map_to_curve(u1))` -/
theorem g1_map2_isHashToCurve (u0 u1 : Fq) :
    Jac.OnCurve b₁ (map2ToCurveG1 u0 u1) ∧
      IsHashToCurveG1 u0 u1 (Jac.abs b₁ (map2ToCurveG1 u0 u1)) :=
  ⟨(C14.g1_map2_eq u0 u1).1, _, _, g1_isMapToCurve u0, g1_isMapToCurve u1, (C14.g1_map2_eq u0 u1).2⟩

/-- `map_to_curve` (one element) is RFC 9380's `clear_cofactor(map_to_curve(u))` -/
theorem g1_map_isEncodeToCurve (u : Fq) :
    Jac.OnCurve b₁ (mapToCurveG1 u) ∧ IsEncodeToCurveG1 u (Jac.abs b₁ (mapToCurveG1 u)) :=
  ⟨(C14.g1_map_eq u).1, _, g1_isMapToCurve u, (C14.g1_map_eq u).2⟩

theorem g2_isMapToCurve (u : Fq2) :
    ∃ P, osswuG2 u = some P ∧ IsMapToCurveG2 u (Jac.abs b₂ (iso3 P)) := by
  obtain ⟨P, hP, hs, -, habs⟩ := C14.g2_sswu_iso_eq_rfc u
  exact ⟨P, hP, _, _, hs, habs⟩

theorem g2_map2_isHashToCurve (u0 u1 : Fq2) :
    ∃ R, map2ToCurveG2 u0 u1 = some R ∧ Jac.OnCurve b₂ R ∧
      IsHashToCurveG2 u0 u1 (Jac.abs b₂ R) := by
  obtain ⟨P0, P1, R, hP0, hP1, hR, -, -, hon, habs⟩ := C14.g2_map2_eq u0 u1
  obtain ⟨P0', hP0', hm0⟩ := g2_isMapToCurve u0
  obtain ⟨P1', hP1', hm1⟩ := g2_isMapToCurve u1
  obtain rfl : P0' = P0 := Option.some.inj (hP0'.symm.trans hP0)
  obtain rfl : P1' = P1 := Option.some.inj (hP1'.symm.trans hP1)
  exact ⟨R, hR, hon, _, _, hm0, hm1, habs⟩

theorem g2_map_isEncodeToCurve (u : Fq2) :
    ∃ R, mapToCurveG2 u = some R ∧ Jac.OnCurve b₂ R ∧ IsEncodeToCurveG2 u (Jac.abs b₂ R) := by
  obtain ⟨P, R, hP, hR, -, hon, habs⟩ := C14.g2_map_eq u
  obtain ⟨P', hP', hm⟩ := g2_isMapToCurve u
  obtain rfl : P' = P := Option.some.inj (hP'.symm.trans hP)
  exact ⟨R, hR, hon, _, hm, habs⟩

/-! ## plumbing: from `hash_to_field` to the curve functions -/

theorem rfc_hash_to_field_length {e : Bytes → Bytes → Nat → Option Bytes} {p m L : Nat}
    {msg dst : Bytes} {count : Nat} {us : List (List Nat)}
    (h : Rfc.hash_to_field e p m L msg dst count = some us) : us.length = count := by
  unfold Rfc.hash_to_field at h
  simp only at h
  split at h
  · cases h
  · injection h with h; subst h; simp

theorem rfc_hash_to_field_none_iff (e : Bytes → Bytes → Nat → Option Bytes) (p m L : Nat)
    (msg dst : Bytes) (count : Nat) :
    Rfc.hash_to_field e p m L msg dst count = none ↔ e msg dst (count * m * L) = none := by
  unfold Rfc.hash_to_field
  simp only
  split <;> simp [*]

/-- a list-valued `Option` whose image is `some us` -/
theorem map_eq_some_two {α β : Type} {f : α → β} {o : Option (List α)} {us : List β}
    (h : o.map (List.map f) = some us) (hlen : us.length = 2) :
    ∃ a b, o = some [a, b] ∧ us = [f a, f b] := by
  cases o with
  | none => cases h
  | some l =>
    simp only [Option.map_some, Option.some.injEq] at h
    subst h
    rw [List.length_map, List.length_eq_two] at hlen
    obtain ⟨a, b, rfl⟩ := hlen
    exact ⟨a, b, rfl, rfl⟩

theorem map_eq_some_one {α β : Type} {f : α → β} {o : Option (List α)} {us : List β}
    (h : o.map (List.map f) = some us) (hlen : us.length = 1) :
    ∃ a, o = some [a] ∧ us = [f a] := by
  cases o with
  | none => cases h
  | some l =>
    simp only [Option.map_some, Option.some.injEq] at h
    subst h
    rw [List.length_map, List.length_eq_one_iff] at hlen
    obtain ⟨a, rfl⟩ := hlen
    exact ⟨a, rfl, rfl⟩

theorem splitBlocks_length {T : Type} (L : Nat) (f : Bytes → Option T) (bytes : Bytes) :
    ∀ (n idx : Nat) (l : List T), splitBlocks L f bytes n idx = some l → l.length = n := by
  intro n
  induction n with
  | zero => intro idx l h; simp only [splitBlocks, Option.some.injEq] at h; subst h; rfl
  | succ n ih =>
    intro idx l h
    rw [splitBlocks] at h
    simp only [Option.bind_eq_bind, Option.pure_def] at h
    split at h
    · cases h
    · cases hf : f ((bytes.drop (idx * L)).take L) with
      | none => rw [hf] at h; cases h
      | some e =>
        rw [hf] at h
        cases hr : splitBlocks L f bytes n (idx + 1) with
        | none => rw [hr] at h; cases h
        | some rest =>
          rw [hr] at h
          simp only [Option.bind_some, Option.some.injEq] at h
          subst h
          simp [ih _ _ hr]

/-- `hash_to_field` returns `count` elements (or aborts) -/
theorem hashToField_length {T : Type} {expand : Bytes → Bytes → Nat → Option Bytes} {L : Nat}
    {f : Bytes → Option T} {msg dst : Bytes} {count : Nat} {l : List T}
    (h : hashToField expand L f msg dst count = some l) : l.length = count := by
  unfold hashToField at h
  cases he : expand msg dst (count * L) with
  | none => rw [he] at h; cases h
  | some bytes =>
    rw [he] at h
    exact splitBlocks_length L f bytes count 0 l h

/-- (stated with an abstract `f` so that the kernel never unfolds `map2ToCurveG2`) -/
theorem bind_match2 {α β : Type} (f : α → α → Option β) (a b : α) :
    (do let u ← some [a, b]
        match u with
        | [x, y] => f x y
        | _ => none) = f a b := rfl

theorem bind_match1 {α β : Type} (f : α → Option β) (a : α) :
    (do let u ← some [a]
        match u with
        | [x] => f x
        | _ => none) = f a := rfl

section model_unfold
variable (expand : Bytes → Bytes → Nat → Option Bytes) (msg dst : Bytes)

theorem hashToCurveG1_of_field {u0 u1 : Fq}
    (h : hashToField expand 64 Fq.fromOkm msg dst 2 = some [u0, u1]) :
    hashToCurveG1 expand msg dst = some (map2ToCurveG1 u0 u1) := by
  unfold hashToCurveG1; rw [h]; rfl

theorem encodeToCurveG1_of_field {u : Fq}
    (h : hashToField expand 64 Fq.fromOkm msg dst 1 = some [u]) :
    encodeToCurveG1 expand msg dst = some (mapToCurveG1 u) := by
  unfold encodeToCurveG1; rw [h]; rfl

theorem hashToCurveG2_of_field {u0 u1 : Fq2}
    (h : hashToField expand 128 Fq2.fromRo msg dst 2 = some [u0, u1]) :
    hashToCurveG2 expand msg dst = map2ToCurveG2 u0 u1 := by
  unfold hashToCurveG2; rw [h]; exact bind_match2 map2ToCurveG2 u0 u1

theorem encodeToCurveG2_of_field {u : Fq2}
    (h : hashToField expand 128 Fq2.fromRo msg dst 1 = some [u]) :
    encodeToCurveG2 expand msg dst = mapToCurveG2 u := by
  unfold encodeToCurveG2; rw [h]; exact bind_match1 mapToCurveG2 u

theorem hashToCurveG1_of_none (h : hashToField expand 64 Fq.fromOkm msg dst 2 = none) :
    hashToCurveG1 expand msg dst = none := by
  unfold hashToCurveG1; rw [h]; rfl

theorem encodeToCurveG1_of_none (h : hashToField expand 64 Fq.fromOkm msg dst 1 = none) :
    encodeToCurveG1 expand msg dst = none := by
  unfold encodeToCurveG1; rw [h]; rfl

theorem hashToCurveG2_of_none (h : hashToField expand 128 Fq2.fromRo msg dst 2 = none) :
    hashToCurveG2 expand msg dst = none := by
  unfold hashToCurveG2; rw [h]; rfl

theorem encodeToCurveG2_of_none (h : hashToField expand 128 Fq2.fromRo msg dst 1 = none) :
    encodeToCurveG2 expand msg dst = none := by
  unfold encodeToCurveG2; rw [h]; rfl

end model_unfold

/-! ## C06 for an arbitrary expander -/

section generic
variable (expand : Bytes → Bytes → Nat → Option Bytes) (msg dst : Bytes)

/-- **hash_to_curve, G1 (random-oracle mode)**: if RFC 9380's `hash_to_field(msg, 2)` (over `expand`)
    is `us`, then `us = [(u0), (u1)]`, the model returns a point `P` of the curve, and `P` denotes
    `clear_cofactor(map_to_curve(u0) + map_to_curve(u1))` -/
theorem hashToCurveG1_eq_rfc
    (hl : ∀ bytes, expand msg dst (2 * 64) = some bytes → 2 * 64 ≤ bytes.length)
    {us : List (List Nat)} (hus : Rfc.hash_to_field expand Gen.q 1 64 msg dst 2 = some us) :
    ∃ u0 u1 P, us = [Zp.coords u0, Zp.coords u1] ∧ hashToCurveG1 expand msg dst = some P ∧
      Jac.OnCurve b₁ P ∧ IsHashToCurveG1 u0 u1 (Jac.abs b₁ P) := by
  have h := C13.hashToField_fq_eq_rfc msg dst 2 expand hl
  rw [hus] at h
  obtain ⟨u0, u1, hf, rfl⟩ := map_eq_some_two h (rfc_hash_to_field_length hus)
  exact ⟨u0, u1, _, rfl, hashToCurveG1_of_field expand msg dst hf, g1_map2_isHashToCurve u0 u1⟩

/-- explicit form: the point is `[h_eff](iso(sswu u0) + iso(sswu u1))` -/
theorem hashToCurveG1_eq
    (hl : ∀ bytes, expand msg dst (2 * 64) = some bytes → 2 * 64 ≤ bytes.length)
    {us : List (List Nat)} (hus : Rfc.hash_to_field expand Gen.q 1 64 msg dst 2 = some us) :
    ∃ u0 u1 P, us = [Zp.coords u0, Zp.coords u1] ∧ hashToCurveG1 expand msg dst = some P ∧
      Jac.OnCurve b₁ P ∧
      Jac.abs b₁ P = hEffG1 • (Jac.abs b₁ (iso11 (osswuG1 u0)) + Jac.abs b₁ (iso11 (osswuG1 u1))) := by
  have h := C13.hashToField_fq_eq_rfc msg dst 2 expand hl
  rw [hus] at h
  obtain ⟨u0, u1, hf, rfl⟩ := map_eq_some_two h (rfc_hash_to_field_length hus)
  exact ⟨u0, u1, _, rfl, hashToCurveG1_of_field expand msg dst hf, C14.g1_map2_eq u0 u1⟩

/-- the elements are the reductions of the two 64-byte blocks -/
theorem hashToCurveG1_explicit (bytes : Bytes) (h : expand msg dst (2 * 64) = some bytes)
    (hl : 2 * 64 ≤ bytes.length) :
    hashToCurveG1 expand msg dst =
      some (map2ToCurveG1 (Zp.ofNat (Rfc.OS2IP (Rfc.substr bytes 0 64)))
        (Zp.ofNat (Rfc.OS2IP (Rfc.substr bytes 64 64)))) := by
  apply hashToCurveG1_of_field
  rw [Expand.hashToField_eq expand 64 Fq.fromOkm _ Expand.fromOkm_fq msg dst 2 bytes h hl]
  rfl

/-- the model aborts exactly when the expander does -/
theorem hashToCurveG1_none_iff
    (hl : ∀ bytes, expand msg dst (2 * 64) = some bytes → 2 * 64 ≤ bytes.length) :
    hashToCurveG1 expand msg dst = none ↔ expand msg dst (2 * 64) = none := by
  constructor
  · intro hn
    by_contra hne
    obtain ⟨bytes, hb⟩ := Option.ne_none_iff_exists'.mp hne
    rw [hashToCurveG1_explicit expand msg dst bytes hb (hl _ hb)] at hn
    cases hn
  · intro he
    exact hashToCurveG1_of_none expand msg dst (Expand.hashToField_none _ _ _ _ _ _ he)

/-- **encode_to_curve, G1 (non-uniform mode)** -/
theorem encodeToCurveG1_eq_rfc
    (hl : ∀ bytes, expand msg dst (1 * 64) = some bytes → 1 * 64 ≤ bytes.length)
    {us : List (List Nat)} (hus : Rfc.hash_to_field expand Gen.q 1 64 msg dst 1 = some us) :
    ∃ u P, us = [Zp.coords u] ∧ encodeToCurveG1 expand msg dst = some P ∧
      Jac.OnCurve b₁ P ∧ IsEncodeToCurveG1 u (Jac.abs b₁ P) := by
  have h := C13.hashToField_fq_eq_rfc msg dst 1 expand hl
  rw [hus] at h
  obtain ⟨u, hf, rfl⟩ := map_eq_some_one h (rfc_hash_to_field_length hus)
  exact ⟨u, _, rfl, encodeToCurveG1_of_field expand msg dst hf, g1_map_isEncodeToCurve u⟩

theorem encodeToCurveG1_eq
    (hl : ∀ bytes, expand msg dst (1 * 64) = some bytes → 1 * 64 ≤ bytes.length)
    {us : List (List Nat)} (hus : Rfc.hash_to_field expand Gen.q 1 64 msg dst 1 = some us) :
    ∃ u P, us = [Zp.coords u] ∧ encodeToCurveG1 expand msg dst = some P ∧
      Jac.OnCurve b₁ P ∧ Jac.abs b₁ P = hEffG1 • Jac.abs b₁ (iso11 (osswuG1 u)) := by
  have h := C13.hashToField_fq_eq_rfc msg dst 1 expand hl
  rw [hus] at h
  obtain ⟨u, hf, rfl⟩ := map_eq_some_one h (rfc_hash_to_field_length hus)
  exact ⟨u, _, rfl, encodeToCurveG1_of_field expand msg dst hf, C14.g1_map_eq u⟩

theorem encodeToCurveG1_explicit (bytes : Bytes) (h : expand msg dst (1 * 64) = some bytes)
    (hl : 1 * 64 ≤ bytes.length) :
    encodeToCurveG1 expand msg dst =
      some (mapToCurveG1 (Zp.ofNat (Rfc.OS2IP (Rfc.substr bytes 0 64)))) := by
  apply encodeToCurveG1_of_field
  rw [Expand.hashToField_eq expand 64 Fq.fromOkm _ Expand.fromOkm_fq msg dst 1 bytes h hl]
  rfl

theorem encodeToCurveG1_none_iff
    (hl : ∀ bytes, expand msg dst (1 * 64) = some bytes → 1 * 64 ≤ bytes.length) :
    encodeToCurveG1 expand msg dst = none ↔ expand msg dst (1 * 64) = none := by
  constructor
  · intro hn
    by_contra hne
    obtain ⟨bytes, hb⟩ := Option.ne_none_iff_exists'.mp hne
    rw [encodeToCurveG1_explicit expand msg dst bytes hb (hl _ hb)] at hn
    cases hn
  · intro he
    exact encodeToCurveG1_of_none expand msg dst (Expand.hashToField_none _ _ _ _ _ _ he)

/-- **hash_to_curve, G2 (random-oracle mode)**: elements of `Fq2` from two 64-byte blocks each,
    real part first (`Fq2.coords u = [u.c0.v, u.c1.v]`) -/
theorem hashToCurveG2_eq_rfc
    (hl : ∀ bytes, expand msg dst (2 * 128) = some bytes → 2 * 128 ≤ bytes.length)
    {us : List (List Nat)} (hus : Rfc.hash_to_field expand Gen.q 2 64 msg dst 2 = some us) :
    ∃ u0 u1 P, us = [Fq2.coords u0, Fq2.coords u1] ∧ hashToCurveG2 expand msg dst = some P ∧
      Jac.OnCurve b₂ P ∧ IsHashToCurveG2 u0 u1 (Jac.abs b₂ P) := by
  have h := C13.hashToField_fq2_eq_rfc msg dst 2 expand hl
  rw [hus] at h
  obtain ⟨u0, u1, hf, rfl⟩ := map_eq_some_two h (rfc_hash_to_field_length hus)
  obtain ⟨R, hR, hon, hspec⟩ := g2_map2_isHashToCurve u0 u1
  exact ⟨u0, u1, R, rfl, by rw [hashToCurveG2_of_field expand msg dst hf, hR], hon, hspec⟩

/-- explicit form -/
theorem hashToCurveG2_eq
    (hl : ∀ bytes, expand msg dst (2 * 128) = some bytes → 2 * 128 ≤ bytes.length)
    {us : List (List Nat)} (hus : Rfc.hash_to_field expand Gen.q 2 64 msg dst 2 = some us) :
    ∃ u0 u1 P0 P1 P, us = [Fq2.coords u0, Fq2.coords u1] ∧
      osswuG2 u0 = some P0 ∧ osswuG2 u1 = some P1 ∧ hashToCurveG2 expand msg dst = some P ∧
      Jac.OnCurve b₂ P ∧
      Jac.abs b₂ P = hEffG2 • (Jac.abs b₂ (iso3 P0) + Jac.abs b₂ (iso3 P1)) := by
  have h := C13.hashToField_fq2_eq_rfc msg dst 2 expand hl
  rw [hus] at h
  obtain ⟨u0, u1, hf, rfl⟩ := map_eq_some_two h (rfc_hash_to_field_length hus)
  obtain ⟨P0, P1, R, hP0, hP1, hR, -, -, hon, habs⟩ := C14.g2_map2_eq u0 u1
  exact ⟨u0, u1, P0, P1, R, rfl, hP0, hP1, by rw [hashToCurveG2_of_field expand msg dst hf, hR],
    hon, habs⟩

theorem hashToCurveG2_explicit (bytes : Bytes) (h : expand msg dst (2 * 128) = some bytes)
    (hl : 2 * 128 ≤ bytes.length) :
    hashToCurveG2 expand msg dst =
      map2ToCurveG2
        ⟨Zp.ofNat (Rfc.OS2IP (Rfc.substr bytes 0 64)), Zp.ofNat (Rfc.OS2IP (Rfc.substr bytes 64 64))⟩
        ⟨Zp.ofNat (Rfc.OS2IP (Rfc.substr bytes 128 64)),
          Zp.ofNat (Rfc.OS2IP (Rfc.substr bytes 192 64))⟩ := by
  apply hashToCurveG2_of_field
  rw [Expand.hashToField_eq expand 128 Fq2.fromRo _ Expand.fromRo_fq2 msg dst 2 bytes h hl]
  simp only [Expand.substr_take, Expand.substr_drop]
  rfl

theorem hashToCurveG2_none_iff
    (hl : ∀ bytes, expand msg dst (2 * 128) = some bytes → 2 * 128 ≤ bytes.length) :
    hashToCurveG2 expand msg dst = none ↔ expand msg dst (2 * 128) = none := by
  constructor
  · intro hn
    by_contra hne
    obtain ⟨bytes, hb⟩ := Option.ne_none_iff_exists'.mp hne
    rw [hashToCurveG2_explicit expand msg dst bytes hb (hl _ hb)] at hn
    exact C14.g2_map2_ne_none _ _ hn
  · intro he
    exact hashToCurveG2_of_none expand msg dst (Expand.hashToField_none _ _ _ _ _ _ he)

/-- **encode_to_curve, G2 (non-uniform mode)** -/
theorem encodeToCurveG2_eq_rfc
    (hl : ∀ bytes, expand msg dst (1 * 128) = some bytes → 1 * 128 ≤ bytes.length)
    {us : List (List Nat)} (hus : Rfc.hash_to_field expand Gen.q 2 64 msg dst 1 = some us) :
    ∃ u P, us = [Fq2.coords u] ∧ encodeToCurveG2 expand msg dst = some P ∧
      Jac.OnCurve b₂ P ∧ IsEncodeToCurveG2 u (Jac.abs b₂ P) := by
  have h := C13.hashToField_fq2_eq_rfc msg dst 1 expand hl
  rw [hus] at h
  obtain ⟨u, hf, rfl⟩ := map_eq_some_one h (rfc_hash_to_field_length hus)
  obtain ⟨R, hR, hon, hspec⟩ := g2_map_isEncodeToCurve u
  exact ⟨u, R, rfl, by rw [encodeToCurveG2_of_field expand msg dst hf, hR], hon, hspec⟩

theorem encodeToCurveG2_eq
    (hl : ∀ bytes, expand msg dst (1 * 128) = some bytes → 1 * 128 ≤ bytes.length)
    {us : List (List Nat)} (hus : Rfc.hash_to_field expand Gen.q 2 64 msg dst 1 = some us) :
    ∃ u P0 P, us = [Fq2.coords u] ∧ osswuG2 u = some P0 ∧
      encodeToCurveG2 expand msg dst = some P ∧ Jac.OnCurve b₂ P ∧
      Jac.abs b₂ P = hEffG2 • Jac.abs b₂ (iso3 P0) := by
  have h := C13.hashToField_fq2_eq_rfc msg dst 1 expand hl
  rw [hus] at h
  obtain ⟨u, hf, rfl⟩ := map_eq_some_one h (rfc_hash_to_field_length hus)
  obtain ⟨P0, R, hP0, hR, -, hon, habs⟩ := C14.g2_map_eq u
  exact ⟨u, P0, R, rfl, hP0, by rw [encodeToCurveG2_of_field expand msg dst hf, hR], hon, habs⟩

theorem encodeToCurveG2_explicit (bytes : Bytes) (h : expand msg dst (1 * 128) = some bytes)
    (hl : 1 * 128 ≤ bytes.length) :
    encodeToCurveG2 expand msg dst =
      mapToCurveG2
        ⟨Zp.ofNat (Rfc.OS2IP (Rfc.substr bytes 0 64)), Zp.ofNat (Rfc.OS2IP (Rfc.substr bytes 64 64))⟩ := by
  apply encodeToCurveG2_of_field
  rw [Expand.hashToField_eq expand 128 Fq2.fromRo _ Expand.fromRo_fq2 msg dst 1 bytes h hl]
  simp only [Expand.substr_take, Expand.substr_drop]
  rfl

theorem encodeToCurveG2_none_iff
    (hl : ∀ bytes, expand msg dst (1 * 128) = some bytes → 1 * 128 ≤ bytes.length) :
    encodeToCurveG2 expand msg dst = none ↔ expand msg dst (1 * 128) = none := by
  constructor
  · intro hn
    by_contra hne
    obtain ⟨bytes, hb⟩ := Option.ne_none_iff_exists'.mp hne
    rw [encodeToCurveG2_explicit expand msg dst bytes hb (hl _ hb)] at hn
    exact C14.g2_map_ne_none _ hn
  · intro he
    exact encodeToCurveG2_of_none expand msg dst (Expand.hashToField_none _ _ _ _ _ _ he)

/-! ### subgroup clause, under the curve-order hypotheses of C17 -/

theorem hashToCurveG1_inSub
    (hexp : ∀ g : (W b₁).Point, (0xd201000000010001 * Gen.r) • g = 0)
    {P : Jac Fq} (h : hashToCurveG1 expand msg dst = some P) : Jac.InSub b₁ P := by
  cases hf : hashToField expand 64 Fq.fromOkm msg dst 2 with
  | none => rw [hashToCurveG1_of_none expand msg dst hf] at h; cases h
  | some l =>
    obtain ⟨u0, u1, rfl⟩ := List.length_eq_two.mp (hashToField_length hf)
    rw [hashToCurveG1_of_field expand msg dst hf] at h
    rw [← Option.some.inj h]; exact C14.g1_map2_inSub hexp u0 u1

theorem encodeToCurveG1_inSub
    (hexp : ∀ g : (W b₁).Point, (0xd201000000010001 * Gen.r) • g = 0)
    {P : Jac Fq} (h : encodeToCurveG1 expand msg dst = some P) : Jac.InSub b₁ P := by
  cases hf : hashToField expand 64 Fq.fromOkm msg dst 1 with
  | none => rw [encodeToCurveG1_of_none expand msg dst hf] at h; cases h
  | some l =>
    obtain ⟨u, rfl⟩ := List.length_eq_one_iff.mp (hashToField_length hf)
    rw [encodeToCurveG1_of_field expand msg dst hf] at h
    rw [← Option.some.inj h]; exact C14.g1_map_inSub hexp u

theorem hashToCurveG2_inSub
    (hord : ∀ g : (W b₂).Point, (Gen.G2_COFACTOR * Gen.r) • g = 0)
    {P : Jac Fq2} (h : hashToCurveG2 expand msg dst = some P) : Jac.InSub b₂ P := by
  cases hf : hashToField expand 128 Fq2.fromRo msg dst 2 with
  | none => rw [hashToCurveG2_of_none expand msg dst hf] at h; cases h
  | some l =>
    obtain ⟨u0, u1, rfl⟩ := List.length_eq_two.mp (hashToField_length hf)
    rw [hashToCurveG2_of_field expand msg dst hf] at h
    obtain ⟨R, hR, hs⟩ := C14.g2_map2_inSub hord u0 u1
    rw [hR] at h
    rw [← Option.some.inj h]; exact hs

theorem encodeToCurveG2_inSub
    (hord : ∀ g : (W b₂).Point, (Gen.G2_COFACTOR * Gen.r) • g = 0)
    {P : Jac Fq2} (h : encodeToCurveG2 expand msg dst = some P) : Jac.InSub b₂ P := by
  cases hf : hashToField expand 128 Fq2.fromRo msg dst 1 with
  | none => rw [encodeToCurveG2_of_none expand msg dst hf] at h; cases h
  | some l =>
    obtain ⟨u, rfl⟩ := List.length_eq_one_iff.mp (hashToField_length hf)
    rw [encodeToCurveG2_of_field expand msg dst hf] at h
    obtain ⟨R, hR, hs⟩ := C14.g2_map_inSub hord u
    rw [hR] at h
    rw [← Option.some.inj h]; exact hs

end generic

/-! ## the XMD suites: model's expander vs RFC 9380's `expand_message_xmd`

`H` is any Merkle–Damgård hash with `outSize`-byte digests (`hH`); `BLS12381G1_XMD:SHA-256_SSWU_RO_`
is `H = C13.sha256H`.  The tag is at most 255 bytes (`hdst`; beyond, the Rust truncates the length
byte where the RFC aborts, see C13). -/

set_option linter.unusedSectionVars false

section xmd
variable (H : XmdHash) (msg dst : Bytes)
variable (hout : 0 < H.outSize) (hH : ∀ x, (H.hash x).length = H.outSize) (hdst : dst.length ≤ 255)
include hout hH hdst

/-- on these lengths the two expanders agree, so the two `hash_to_field` do -/
theorem rfc_h2f_xmd (m count : Nat) (hlen : count * m * 64 ≤ 65535) :
    Rfc.hash_to_field (Rfc.expand_message_xmd H.hash H.outSize H.blockSize) Gen.q m 64 msg dst count
      = Rfc.hash_to_field (expandMessageXmd H) Gen.q m 64 msg dst count :=
  Expand.rfc_hash_to_field_congr _ _ _ _ _ _ _ _
    (Expand.expandXmd_eq H msg dst _ hout hdst hlen).symm

/-- `BLS12381G1_XMD:H_SSWU_RO_` -/
theorem hashToCurveG1_xmd {us : List (List Nat)}
    (hus : Rfc.hash_to_field (Rfc.expand_message_xmd H.hash H.outSize H.blockSize) Gen.q 1 64
      msg dst 2 = some us) :
    ∃ u0 u1 P, us = [Zp.coords u0, Zp.coords u1] ∧
      hashToCurveG1 (expandMessageXmd H) msg dst = some P ∧
      Jac.OnCurve b₁ P ∧ IsHashToCurveG1 u0 u1 (Jac.abs b₁ P) := by
  rw [rfc_h2f_xmd H msg dst hout hH hdst 1 2 (by decide)] at hus
  exact hashToCurveG1_eq_rfc _ msg dst
    (Expand.xmd_len_ok H hout hH msg dst _ hdst (by decide)) hus

/-- `BLS12381G1_XMD:H_SSWU_NU_` -/
theorem encodeToCurveG1_xmd {us : List (List Nat)}
    (hus : Rfc.hash_to_field (Rfc.expand_message_xmd H.hash H.outSize H.blockSize) Gen.q 1 64
      msg dst 1 = some us) :
    ∃ u P, us = [Zp.coords u] ∧ encodeToCurveG1 (expandMessageXmd H) msg dst = some P ∧
      Jac.OnCurve b₁ P ∧ IsEncodeToCurveG1 u (Jac.abs b₁ P) := by
  rw [rfc_h2f_xmd H msg dst hout hH hdst 1 1 (by decide)] at hus
  exact encodeToCurveG1_eq_rfc _ msg dst
    (Expand.xmd_len_ok H hout hH msg dst _ hdst (by decide)) hus

/-- `BLS12381G2_XMD:H_SSWU_RO_` -/
theorem hashToCurveG2_xmd {us : List (List Nat)}
    (hus : Rfc.hash_to_field (Rfc.expand_message_xmd H.hash H.outSize H.blockSize) Gen.q 2 64
      msg dst 2 = some us) :
    ∃ u0 u1 P, us = [Fq2.coords u0, Fq2.coords u1] ∧
      hashToCurveG2 (expandMessageXmd H) msg dst = some P ∧
      Jac.OnCurve b₂ P ∧ IsHashToCurveG2 u0 u1 (Jac.abs b₂ P) := by
  rw [rfc_h2f_xmd H msg dst hout hH hdst 2 2 (by decide)] at hus
  exact hashToCurveG2_eq_rfc _ msg dst
    (Expand.xmd_len_ok H hout hH msg dst _ hdst (by decide)) hus

/-- `BLS12381G2_XMD:H_SSWU_NU_` -/
theorem encodeToCurveG2_xmd {us : List (List Nat)}
    (hus : Rfc.hash_to_field (Rfc.expand_message_xmd H.hash H.outSize H.blockSize) Gen.q 2 64
      msg dst 1 = some us) :
    ∃ u P, us = [Fq2.coords u] ∧ encodeToCurveG2 (expandMessageXmd H) msg dst = some P ∧
      Jac.OnCurve b₂ P ∧ IsEncodeToCurveG2 u (Jac.abs b₂ P) := by
  rw [rfc_h2f_xmd H msg dst hout hH hdst 2 1 (by decide)] at hus
  exact encodeToCurveG2_eq_rfc _ msg dst
    (Expand.xmd_len_ok H hout hH msg dst _ hdst (by decide)) hus

/-- the RFC side does not abort when `ell = ceil(len / outSize) ≤ 255` -/
theorem rfc_h2f_xmd_some (m count : Nat) (hlen : count * m * 64 ≤ 65535)
    (hell : Rfc.ceilDiv (count * m * 64) H.outSize ≤ 255) :
    ∃ us, Rfc.hash_to_field (Rfc.expand_message_xmd H.hash H.outSize H.blockSize) Gen.q m 64
      msg dst count = some us := by
  obtain ⟨bytes, hb, -⟩ := C13.expandXmd_eq_rfc_some H msg dst _ hout hdst hlen hell
  unfold Rfc.hash_to_field
  simp only [hb]
  exact ⟨_, rfl⟩

/-- totality, G1 RO: no abort on either side when `ceil(128 / outSize) ≤ 255` -/
theorem hashToCurveG1_xmd_total (hell : Rfc.ceilDiv 128 H.outSize ≤ 255) :
    ∃ u0 u1 P,
      Rfc.hash_to_field (Rfc.expand_message_xmd H.hash H.outSize H.blockSize) Gen.q 1 64
        msg dst 2 = some [Zp.coords u0, Zp.coords u1] ∧
      hashToCurveG1 (expandMessageXmd H) msg dst = some P ∧
      Jac.OnCurve b₁ P ∧ IsHashToCurveG1 u0 u1 (Jac.abs b₁ P) := by
  obtain ⟨us, hus⟩ := rfc_h2f_xmd_some H msg dst hout hH hdst 1 2 (by decide) hell
  obtain ⟨u0, u1, P, rfl, h⟩ := hashToCurveG1_xmd H msg dst hout hH hdst hus
  exact ⟨u0, u1, P, hus, h⟩

theorem encodeToCurveG1_xmd_total (hell : Rfc.ceilDiv 64 H.outSize ≤ 255) :
    ∃ u P,
      Rfc.hash_to_field (Rfc.expand_message_xmd H.hash H.outSize H.blockSize) Gen.q 1 64
        msg dst 1 = some [Zp.coords u] ∧
      encodeToCurveG1 (expandMessageXmd H) msg dst = some P ∧
      Jac.OnCurve b₁ P ∧ IsEncodeToCurveG1 u (Jac.abs b₁ P) := by
  obtain ⟨us, hus⟩ := rfc_h2f_xmd_some H msg dst hout hH hdst 1 1 (by decide) hell
  obtain ⟨u, P, rfl, h⟩ := encodeToCurveG1_xmd H msg dst hout hH hdst hus
  exact ⟨u, P, hus, h⟩

theorem hashToCurveG2_xmd_total (hell : Rfc.ceilDiv 256 H.outSize ≤ 255) :
    ∃ u0 u1 P,
      Rfc.hash_to_field (Rfc.expand_message_xmd H.hash H.outSize H.blockSize) Gen.q 2 64
        msg dst 2 = some [Fq2.coords u0, Fq2.coords u1] ∧
      hashToCurveG2 (expandMessageXmd H) msg dst = some P ∧
      Jac.OnCurve b₂ P ∧ IsHashToCurveG2 u0 u1 (Jac.abs b₂ P) := by
  obtain ⟨us, hus⟩ := rfc_h2f_xmd_some H msg dst hout hH hdst 2 2 (by decide) hell
  obtain ⟨u0, u1, P, rfl, h⟩ := hashToCurveG2_xmd H msg dst hout hH hdst hus
  exact ⟨u0, u1, P, hus, h⟩

theorem encodeToCurveG2_xmd_total (hell : Rfc.ceilDiv 128 H.outSize ≤ 255) :
    ∃ u P,
      Rfc.hash_to_field (Rfc.expand_message_xmd H.hash H.outSize H.blockSize) Gen.q 2 64
        msg dst 1 = some [Fq2.coords u] ∧
      encodeToCurveG2 (expandMessageXmd H) msg dst = some P ∧
      Jac.OnCurve b₂ P ∧ IsEncodeToCurveG2 u (Jac.abs b₂ P) := by
  obtain ⟨us, hus⟩ := rfc_h2f_xmd_some H msg dst hout hH hdst 2 1 (by decide) hell
  obtain ⟨u, P, rfl, h⟩ := encodeToCurveG2_xmd H msg dst hout hH hdst hus
  exact ⟨u, P, hus, h⟩

end xmd

/-! ### SHA-256 (the suites `BLS12381G1_XMD:SHA-256_SSWU_RO_`, `…_NU_`, `BLS12381G2_…`)

`hH256` (the digest is 32 bytes long) is the only fact about SHA-256 that is used. -/

section sha256
variable (msg dst : Bytes) (hH256 : ∀ x, (Hash.sha256 x).length = 32) (hdst : dst.length ≤ 255)
include hH256 hdst

theorem hashToCurveG1_sha256 :
    ∃ u0 u1 P,
      Rfc.hash_to_field (Rfc.expand_message_xmd Hash.sha256 32 64) Gen.q 1 64 msg dst 2
        = some [Zp.coords u0, Zp.coords u1] ∧
      hashToCurveG1 (expandMessageXmd C13.sha256H) msg dst = some P ∧
      Jac.OnCurve b₁ P ∧ IsHashToCurveG1 u0 u1 (Jac.abs b₁ P) :=
  hashToCurveG1_xmd_total C13.sha256H msg dst (by decide) hH256 hdst (by decide)

theorem encodeToCurveG1_sha256 :
    ∃ u P,
      Rfc.hash_to_field (Rfc.expand_message_xmd Hash.sha256 32 64) Gen.q 1 64 msg dst 1
        = some [Zp.coords u] ∧
      encodeToCurveG1 (expandMessageXmd C13.sha256H) msg dst = some P ∧
      Jac.OnCurve b₁ P ∧ IsEncodeToCurveG1 u (Jac.abs b₁ P) :=
  encodeToCurveG1_xmd_total C13.sha256H msg dst (by decide) hH256 hdst (by decide)

theorem hashToCurveG2_sha256 :
    ∃ u0 u1 P,
      Rfc.hash_to_field (Rfc.expand_message_xmd Hash.sha256 32 64) Gen.q 2 64 msg dst 2
        = some [Fq2.coords u0, Fq2.coords u1] ∧
      hashToCurveG2 (expandMessageXmd C13.sha256H) msg dst = some P ∧
      Jac.OnCurve b₂ P ∧ IsHashToCurveG2 u0 u1 (Jac.abs b₂ P) :=
  hashToCurveG2_xmd_total C13.sha256H msg dst (by decide) hH256 hdst (by decide)

theorem encodeToCurveG2_sha256 :
    ∃ u P,
      Rfc.hash_to_field (Rfc.expand_message_xmd Hash.sha256 32 64) Gen.q 2 64 msg dst 1
        = some [Fq2.coords u] ∧
      encodeToCurveG2 (expandMessageXmd C13.sha256H) msg dst = some P ∧
      Jac.OnCurve b₂ P ∧ IsEncodeToCurveG2 u (Jac.abs b₂ P) :=
  encodeToCurveG2_xmd_total C13.sha256H msg dst (by decide) hH256 hdst (by decide)

end sha256

/-! ## the XOF suites (`expand_message_xof`, e.g. SHAKE128/256) — the RFC side never aborts here -/

section xof
variable (xof : Bytes → Nat → Bytes) (msg dst : Bytes)
variable (hX : ∀ m n, (xof m n).length = n) (hdst : dst.length ≤ 255)
include hX hdst

theorem rfc_h2f_xof (m count : Nat) (hlen : count * m * 64 ≤ 65535) :
    Rfc.hash_to_field (Rfc.expand_message_xof xof) Gen.q m 64 msg dst count
      = Rfc.hash_to_field (xofExpand xof) Gen.q m 64 msg dst count :=
  Expand.rfc_hash_to_field_congr _ _ _ _ _ _ _ _ (Expand.expandXof_eq xof msg dst _ hdst hlen)

theorem rfc_h2f_xof_some (m count : Nat) :
    ∃ us, Rfc.hash_to_field (xofExpand xof) Gen.q m 64 msg dst count = some us :=
  ⟨_, rfl⟩

theorem hashToCurveG1_xof :
    ∃ u0 u1 P,
      Rfc.hash_to_field (Rfc.expand_message_xof xof) Gen.q 1 64 msg dst 2
        = some [Zp.coords u0, Zp.coords u1] ∧
      hashToCurveG1 (xofExpand xof) msg dst = some P ∧
      Jac.OnCurve b₁ P ∧ IsHashToCurveG1 u0 u1 (Jac.abs b₁ P) := by
  obtain ⟨us, hus⟩ := rfc_h2f_xof_some xof msg dst hX hdst 1 2
  obtain ⟨u0, u1, P, rfl, h⟩ := hashToCurveG1_eq_rfc _ msg dst (Expand.xof_len_ok xof hX msg dst _) hus
  exact ⟨u0, u1, P, by rw [rfc_h2f_xof xof msg dst hX hdst 1 2 (by decide), hus], h⟩

theorem encodeToCurveG1_xof :
    ∃ u P,
      Rfc.hash_to_field (Rfc.expand_message_xof xof) Gen.q 1 64 msg dst 1 = some [Zp.coords u] ∧
      encodeToCurveG1 (xofExpand xof) msg dst = some P ∧
      Jac.OnCurve b₁ P ∧ IsEncodeToCurveG1 u (Jac.abs b₁ P) := by
  obtain ⟨us, hus⟩ := rfc_h2f_xof_some xof msg dst hX hdst 1 1
  obtain ⟨u, P, rfl, h⟩ := encodeToCurveG1_eq_rfc _ msg dst (Expand.xof_len_ok xof hX msg dst _) hus
  exact ⟨u, P, by rw [rfc_h2f_xof xof msg dst hX hdst 1 1 (by decide), hus], h⟩

theorem hashToCurveG2_xof :
    ∃ u0 u1 P,
      Rfc.hash_to_field (Rfc.expand_message_xof xof) Gen.q 2 64 msg dst 2
        = some [Fq2.coords u0, Fq2.coords u1] ∧
      hashToCurveG2 (xofExpand xof) msg dst = some P ∧
      Jac.OnCurve b₂ P ∧ IsHashToCurveG2 u0 u1 (Jac.abs b₂ P) := by
  obtain ⟨us, hus⟩ := rfc_h2f_xof_some xof msg dst hX hdst 2 2
  obtain ⟨u0, u1, P, rfl, h⟩ := hashToCurveG2_eq_rfc _ msg dst (Expand.xof_len_ok xof hX msg dst _) hus
  exact ⟨u0, u1, P, by rw [rfc_h2f_xof xof msg dst hX hdst 2 2 (by decide), hus], h⟩

theorem encodeToCurveG2_xof :
    ∃ u P,
      Rfc.hash_to_field (Rfc.expand_message_xof xof) Gen.q 2 64 msg dst 1 = some [Fq2.coords u] ∧
      encodeToCurveG2 (xofExpand xof) msg dst = some P ∧
      Jac.OnCurve b₂ P ∧ IsEncodeToCurveG2 u (Jac.abs b₂ P) := by
  obtain ⟨us, hus⟩ := rfc_h2f_xof_some xof msg dst hX hdst 2 1
  obtain ⟨u, P, rfl, h⟩ := encodeToCurveG2_eq_rfc _ msg dst (Expand.xof_len_ok xof hX msg dst _) hus
  exact ⟨u, P, by rw [rfc_h2f_xof xof msg dst hX hdst 2 1 (by decide), hus], h⟩

end xof

end C06
end PP
