/-
PROPERTY C11.  "For every list of (G1,G2) pairs, of any length including zero, final exponentiation of
the joint Miller loop equals the product of the individual pairings; pairs containing the identity
contribute the factor 1 regardless of their position. The two-pair and slice-based product helpers agree
with this for equal-length inputs, so that for P_i=[a_i]g1, Q_i=[b_i]g2 the result is
e(g1,g2)^(sum a_i b_i) - in particular exactly 1 when the exponents cancel. Prepared elements can be
reused across any number of evaluations."

How the statement is rendered.
* `millerLoop : List (Aff Fq × G2Prepared) → Option Fq12`, `finalExponentiation`, `pairing`,
  `pairingProduct`, `pairingMultiProduct` are the model functions of `PP/Model/Pairing.lean`; `none` is a
  panic of the Rust code (`unwrap` of an exhausted coefficient iterator in `miller_loop`, `unwrap` of the
  `None` of `final_exponentiation`, out-of-bounds index `prep_q[i]` in `pairing_multi_product`).
* products are taken in `Option`: `Miller.optMul`, `Miller.optProd` are `none` as soon as one factor is
  `none`, so every equation below also says exactly when the two sides panic.
* `Fq12` carries the `Field` structure of `PP.Proofs.Tower` built on the model's own operations.

WHAT IS PROVED: the product STRUCTURE, for all inputs (no curve/subgroup hypothesis is needed):
joint Miller loop = product of single Miller loops; identity pairs contribute `1` at any position;
the order of the pairs is irrelevant; exactly when the loop panics (a non-identity pair with fewer than
68 coefficients; never for pairs prepared by `G2Prepared::from_affine`, which produces exactly 68);
final exponentiation of the joint loop = product of the individual pairings; the two-pair and the slice
helpers are these products; the slice helper panics when `q` is shorter than `p`.

WHAT IS NOT PROVED IN THIS FILE (update: PROVED in PP/Props/C03Bilinear.lean `multiProduct_exponent` and PP/Props/C03BilinearZ.lean): the clause "for P_i=[a_i]g1, Q_i=[b_i]g2 the result is e(g1,g2)^(Σ a_i b_i)" needs
the BILINEARITY of the pairing, which is proved in PP/Props/C03Bilinear.lean (and exercised
by the differential / oracle test harness as well).  Given bilinearity it would follow at once from
`pairingMultiProduct_eq_prod`.  Two concrete cancelling instances are evaluated by the kernel at the end
of the file (`cancel_instance_*`).
-/
import PP.Proofs.Miller

namespace PP.C11
open PP Miller

/-! ## coefficient counting: the Miller loop never runs out of prepared coefficients -/

/-- the loop runs over 62 bits of `BLS_X >> 1` (those after the leading one), 5 of which are set -/
theorem blsXBits_length : blsXBits.length = 62 := Miller.blsXBits_length
theorem blsXBits_popcount : blsXBits.count true = 5 := Miller.blsXBits_count

/-- `G2Prepared::from_affine` of a finite point has exactly 62 + 5 + 1 = 68 coefficients … -/
theorem prepared_length (q : Aff Fq2) (h : q.infinity = false) :
    (G2Prepared.fromAffine q).coeffs.length = 68 := by
  rw [fromAffine_length q h, coeffCount_eq]

/-- … and of the point at infinity none, with the flag set -/
theorem prepared_infinity (q : Aff Fq2) : (G2Prepared.fromAffine q).infinity = q.infinity :=
  fromAffine_infinity q

theorem prepared_length_infinity (q : Aff Fq2) (h : q.infinity = true) :
    (G2Prepared.fromAffine q).coeffs = [] := fromAffine_length_infinity q h

/-- **exactly when the Miller loop panics**: some pair without identity member carries fewer than 68
    coefficients (the loop consumes exactly 68 per such pair) -/
theorem miller_none_iff (ps : List (Aff Fq × G2Prepared)) :
    millerLoop ps = none ↔
      ∃ pq ∈ ps, pq.1.infinity = false ∧ pq.2.infinity = false ∧ pq.2.coeffs.length < 68 := by
  rw [millerLoop_eq_none_iff, coeffCount_eq]

theorem miller_ne_none_of_length (ps : List (Aff Fq × G2Prepared))
    (h : ∀ pq ∈ ps, pq.1.infinity = false → pq.2.infinity = false → 68 ≤ pq.2.coeffs.length) :
    millerLoop ps ≠ none := by
  rw [Ne, miller_none_iff]
  rintro ⟨pq, hm, h1, h2, h3⟩
  exact absurd (h pq hm h1 h2) (Nat.not_le.mpr h3)

/-- pairs prepared by `from_affine` never make the loop panic -/
theorem miller_prepared_ne_none (ps : List (Aff Fq)) (qs : List (Aff Fq2)) :
    millerLoop (List.zip ps (qs.map G2Prepared.fromAffine)) ≠ none :=
  millerLoop_zip_fromAffine_ne_none ps qs

theorem miller_prepared_single_ne_none (p : Aff Fq) (q : Aff Fq2) :
    millerLoop [(p, G2Prepared.fromAffine q)] ≠ none := by
  rw [millerLoop_single]; exact single_fromAffine_ne_none p q

/-! ## the joint Miller loop is the product of the individual Miller loops -/

/-- length zero: the empty product -/
theorem miller_nil : millerLoop [] = some 1 := millerLoop_nil

/-- a pair with an identity member contributes the factor `1` -/
theorem miller_identity_pair (pq : Aff Fq × G2Prepared)
    (h : pq.1.infinity = true ∨ pq.2.infinity = true) : millerLoop [pq] = some 1 := by
  rw [millerLoop_single, single]
  rcases h with h | h <;> simp [h]

/-- **product structure**, in `Option`, for every list of prepared pairs: the joint loop is the product
    of the single loops and panics exactly when one of them does -/
theorem miller_product_option (ps : List (Aff Fq × G2Prepared)) :
    millerLoop ps = optProd (ps.map fun pq => millerLoop [pq]) := millerLoop_eq_optProd ps

/-- **product structure**: if the individual loops give `m_p` then the joint loop gives `∏ m_p` -/
theorem miller_product (ps : List (Aff Fq × G2Prepared)) (ms : List Fq12)
    (h : List.Forall₂ (fun pq m => millerLoop [pq] = some m) ps ms) :
    millerLoop ps = some ms.prod := by
  rw [miller_product_option]
  have : (ps.map fun pq => millerLoop [pq]) = ms.map some := by
    induction h with
    | nil => rfl
    | cons h _ ih => simp [h, ih]
  rw [this, optProd_map_some]

/-- conversely a successful joint loop is such a product -/
theorem miller_product_converse (ps : List (Aff Fq × G2Prepared)) (f : Fq12)
    (h : millerLoop ps = some f) :
    ∃ ms : List Fq12, List.Forall₂ (fun pq m => millerLoop [pq] = some m) ps ms ∧ f = ms.prod := by
  rw [miller_product_option, optProd_eq_some_iff] at h
  obtain ⟨ms, h1, h2⟩ := h
  refine ⟨ms, ?_, h2⟩
  clear h2
  induction ps generalizing ms with
  | nil =>
    have : ms = [] := by simpa using h1.symm
    subst this; exact List.Forall₂.nil
  | cons pq ps ih =>
    cases ms with
    | nil => simp at h1
    | cons m ms =>
      simp only [List.map_cons, List.cons.injEq] at h1
      exact List.Forall₂.cons h1.1 (ih ms h1.2)

theorem miller_append (l₁ l₂ : List (Aff Fq × G2Prepared)) :
    millerLoop (l₁ ++ l₂) = optMul (millerLoop l₁) (millerLoop l₂) := by
  rw [miller_product_option, List.map_append, optProd_append, ← miller_product_option,
    ← miller_product_option]

/-- a pair with an identity member can be removed **at any position** -/
theorem identity_pair_any_position (l₁ l₂ : List (Aff Fq × G2Prepared)) (pq : Aff Fq × G2Prepared)
    (h : pq.1.infinity = true ∨ pq.2.infinity = true) :
    millerLoop (l₁ ++ pq :: l₂) = millerLoop (l₁ ++ l₂) := by
  rw [miller_append, millerLoop_cons, miller_identity_pair pq h, optMul_one_left, ← miller_append]

/-- the order of the pairs is irrelevant -/
theorem miller_perm {ps ps' : List (Aff Fq × G2Prepared)} (h : ps.Perm ps') :
    millerLoop ps = millerLoop ps' := by
  rw [miller_product_option, miller_product_option]
  exact optProd_perm (h.map _)

/-! ## final exponentiation of the joint Miller loop = product of the individual pairings -/

/-- the final exponentiation of a product is the product of the final exponentiations (`C12.mul`
    iterated), in `Option`: `none` exactly when a factor is `0` -/
theorem fe_product (ms : List Fq12) :
    finalExponentiation ms.prod = optProd (ms.map finalExponentiation) := by
  induction ms with
  | nil => rw [List.prod_nil, List.map_nil, optProd_nil]; exact FinalExp.fe_one
  | cons m ms ih =>
    rw [List.prod_cons, List.map_cons, optProd_cons, ← ih, FinalExp.fe_mul_all]
    cases finalExponentiation m <;> cases finalExponentiation ms.prod <;> rfl

/-- **final exponentiation of the joint Miller loop** of any list of prepared pairs = product of the
    final exponentiations of the individual Miller loops -/
theorem fe_miller_product (ps : List (Aff Fq × G2Prepared)) :
    (millerLoop ps).bind finalExponentiation =
      optProd (ps.map fun pq => (millerLoop [pq]).bind finalExponentiation) := fe_millerLoop ps

/-- `pairing` is the final exponentiation of the one-pair Miller loop on the freshly prepared `q` -/
theorem pairing_eq (p : Aff Fq) (q : Aff Fq2) :
    pairing p q = (millerLoop [(p, G2Prepared.fromAffine q)]).bind finalExponentiation :=
  Miller.pairing_eq p q

/-- `pairing` panics exactly when the Miller value is `0` (the Miller loop itself never panics) -/
theorem pairing_none_iff (p : Aff Fq) (q : Aff Fq2) :
    pairing p q = none ↔ millerLoop [(p, G2Prepared.fromAffine q)] = some 0 := by
  rw [pairing_eq]
  cases h : millerLoop [(p, G2Prepared.fromAffine q)] with
  | none => exact absurd h (miller_prepared_single_ne_none p q)
  | some m => simp [FinalExp.fe_none_iff]

/-- **the slice-based helper** `pairing_multi_product(p, q)` with `p.len() ≤ q.len()` (in particular for
    equal lengths, including zero) is the product of the individual pairings `e(p_i, q_i)`; surplus
    entries of `q` are ignored as in the Rust code -/
theorem pairingMultiProduct_eq_prod (ps : List (Aff Fq)) (qs : List (Aff Fq2))
    (h : ps.length ≤ qs.length) :
    pairingMultiProduct ps qs = optProd (List.zipWith pairing ps qs) := by
  rw [pairingMultiProduct_eq ps qs (Nat.not_lt.mpr h), fe_millerLoop]
  congr 1
  clear h
  induction ps generalizing qs with
  | nil => rfl
  | cons p ps ih =>
    cases qs with
    | nil => rfl
    | cons q qs => simp only [List.map_cons, List.zip_cons_cons, List.zipWith_cons_cons, ih]; rfl

/-- in terms of results -/
theorem pairingMultiProduct_some (ps : List (Aff Fq)) (qs : List (Aff Fq2)) (es : List Fq12)
    (hlen : ps.length = qs.length) (h : List.zipWith pairing ps qs = es.map some) :
    pairingMultiProduct ps qs = some es.prod := by
  rw [pairingMultiProduct_eq_prod ps qs hlen.le, h, optProd_map_some]

/-- it panics exactly when one of the individual pairings would (a zero Miller value) -/
theorem pairingMultiProduct_none_iff (ps : List (Aff Fq)) (qs : List (Aff Fq2))
    (h : ps.length ≤ qs.length) :
    pairingMultiProduct ps qs = none ↔ none ∈ List.zipWith pairing ps qs := by
  rw [pairingMultiProduct_eq_prod ps qs h, optProd_eq_none_iff]

/-- the explicit guard of the model = the out-of-bounds index `prep_q[i]` of the Rust code -/
theorem pairingMultiProduct_short (ps : List (Aff Fq)) (qs : List (Aff Fq2))
    (h : qs.length < ps.length) : pairingMultiProduct ps qs = none := by
  unfold pairingMultiProduct; rw [if_pos h]

/-- length zero -/
theorem pairingMultiProduct_nil (qs : List (Aff Fq2)) : pairingMultiProduct [] qs = some 1 := by
  rw [pairingMultiProduct_eq_prod [] qs (Nat.zero_le _)]; rfl

/-- **the two-pair helper** `pairing_product(p1, q1, p2, q2) = e(p1,q1) · e(p2,q2)` -/
theorem pairingProduct_eq_mul (p1 : Aff Fq) (q1 : Aff Fq2) (p2 : Aff Fq) (q2 : Aff Fq2) :
    pairingProduct p1 q1 p2 q2 = optMul (pairing p1 q1) (pairing p2 q2) := by
  rw [pairingProduct_eq, fe_millerLoop]
  simp only [List.map_cons, List.map_nil, optProd_cons, optProd_nil, optMul_one_right]
  rfl

theorem pairingProduct_some (p1 : Aff Fq) (q1 : Aff Fq2) (p2 : Aff Fq) (q2 : Aff Fq2)
    (e1 e2 : Fq12) (h1 : pairing p1 q1 = some e1) (h2 : pairing p2 q2 = some e2) :
    pairingProduct p1 q1 p2 q2 = some (e1 * e2) := by
  rw [pairingProduct_eq_mul, h1, h2]; rfl

/-- the helpers agree with each other -/
theorem pairingProduct_eq_multi (p1 : Aff Fq) (q1 : Aff Fq2) (p2 : Aff Fq) (q2 : Aff Fq2) :
    pairingProduct p1 q1 p2 q2 = pairingMultiProduct [p1, p2] [q1, q2] := by
  rw [pairingProduct_eq_mul, pairingMultiProduct_eq_prod _ _ (le_refl _)]
  simp [optMul_one_right]

theorem pairing_eq_multi (p : Aff Fq) (q : Aff Fq2) :
    pairing p q = pairingMultiProduct [p] [q] := by
  rw [pairingMultiProduct_eq_prod _ _ (le_refl _)]
  simp [optMul_one_right]

/-- a pair with an identity member has pairing `1` … -/
theorem pairing_identity (p : Aff Fq) (q : Aff Fq2) (h : p.infinity = true ∨ q.infinity = true) :
    pairing p q = some 1 := by
  rw [pairing_eq, miller_identity_pair _ (by rw [prepared_infinity]; exact h), Option.bind_some]
  exact FinalExp.fe_one

/-- … hence can be removed from the slice-based product **at any position** -/
theorem pairingMultiProduct_identity_any_position (ps₁ ps₂ : List (Aff Fq)) (qs₁ qs₂ : List (Aff Fq2))
    (p : Aff Fq) (q : Aff Fq2) (h₁ : ps₁.length = qs₁.length) (h₂ : ps₂.length ≤ qs₂.length)
    (h : p.infinity = true ∨ q.infinity = true) :
    pairingMultiProduct (ps₁ ++ p :: ps₂) (qs₁ ++ q :: qs₂) =
      pairingMultiProduct (ps₁ ++ ps₂) (qs₁ ++ qs₂) := by
  rw [pairingMultiProduct_eq_prod _ _ (by simp [h₁]; omega),
    pairingMultiProduct_eq_prod _ _ (by simp [h₁]; omega),
    List.zipWith_append h₁, List.zipWith_append h₁, optProd_append, optProd_append,
    List.zipWith_cons_cons, optProd_cons, pairing_identity p q h, optMul_one_left]

/-! ## reuse of prepared elements

`G2Prepared.fromAffine` is a function and `millerLoop` receives the prepared value by value (the Rust
code takes `&G2Prepared` and creates a fresh `coeffs.iter()` for every pair of every call), so nothing is
consumed: any number of evaluations with the same prepared element see the same coefficients.  In the
pure model this is `rfl`; the one non-trivial instance is the reuse of one prepared element several
times inside the SAME call, which is the product of the individual evaluations: -/

theorem prepared_reuse_across_calls (prep : G2Prepared) (p : Aff Fq) :
    millerLoop [(p, prep)] = millerLoop [(p, prep)] := rfl

theorem prepared_reuse_same_call (prep : G2Prepared) (pts : List (Aff Fq)) :
    millerLoop (pts.map fun p => (p, prep)) = optProd (pts.map fun p => millerLoop [(p, prep)]) := by
  rw [miller_product_option, List.map_map]; rfl

/-! ## kernel-evaluated instances of the cancellation clause (NOT the general statement)

`e(g1,g2) · e(-g1,g2) = 1` and `e(g1,g2) · e(g1,-g2) = 1`, through both helpers. -/

def g1 : Aff Fq := ⟨Fq.ofMont Gen.G1_GENERATOR_X, Fq.ofMont Gen.G1_GENERATOR_Y, false⟩
def g2 : Aff Fq2 :=
  ⟨⟨Fq.ofMont Gen.G2_GENERATOR_X_C0, Fq.ofMont Gen.G2_GENERATOR_X_C1⟩,
   ⟨Fq.ofMont Gen.G2_GENERATOR_Y_C0, Fq.ofMont Gen.G2_GENERATOR_Y_C1⟩, false⟩
/-- `-g1`, `-g2` (`y ↦ -y`) -/
def g1neg : Aff Fq := ⟨g1.x, -g1.y, false⟩
def g2neg : Aff Fq2 := ⟨g2.x, -g2.y, false⟩

theorem cancel_instance_g1 : pairingProduct g1 g2 g1neg g2 = some 1 := by decide +kernel
theorem cancel_instance_g2 : pairingMultiProduct [g1, g1] [g2, g2neg] = some 1 := by decide +kernel

end PP.C11
