/-
PROPERTY C08, limb level.  The UNROLLED `mul_assign`, `square` and `mont_reduce` that the `ff_derive`
proc-macro generates for `Fq` (6 limbs) and `Fr` (4 limbs) compute exactly the integer-level
word-by-word REDC model `PP.Mont.mul / square / montReduce` (about which `PP.Props.C08` proves
"multiplication modulo p") -- for ALL `u64` limb values, not only reduced inputs.

Objects.
* `Gen.FQ_MUL_PROG`, `Gen.FQ_SQUARE_PROG`, `Gen.FQ_MONT_REDUCE_PROG` (and `FR_…`): the bodies of the
  three functions, read from the macro-EXPANDED crate by `extract/extract_mont.py`, one IR instruction
  per Rust statement (`PP/Gen/MontProg.lean`; the Rust statement is printed next to each instruction).
* `MontLimb.runMul / runSquare / runMontReduce` (`PP/Model/MontLimb.lean`): the interpreter -- a register
  file of `u64` locals, `ff::adc` / `ff::mac_with_carry` in `u128`, `wrapping_mul`, `<<`, `>>`, `|`,
  the call of `mont_reduce` with parameter passing, and `reduce` = compare with `MODULUS` (derived
  `Ord`, `Mont.cmp`) and `sub_noborrow`.
* `limbsToNat` : little-endian value of a limb list.

Proof route.  (1) The six extracted instruction lists are LITERALLY the output of the Lean generators
`genMulProg n`, `genSquareProg n`, `genMontReduceProg n` for `n = 6, 4` (kernel-checked equality of
lists, section 1).  (2) For every `n` (`n ≥ 2` for `square`) and every well-formed parameter set the
interpretation of the generated program equals the integer-level function (section 2; induction over
rows / rounds, `PP/Proofs/MontLimb*.lean`).  The only facts about the constants that are used:
`INV·p ≡ −1 (mod 2^64)` and `p < 2^(64 n)` (both part of `Params.WF`, proved for the extracted constants
in `Mont.fqP_wf`, `Mont.frP_wf`).

Not covered here: that rustc/LLVM compile the expanded source faithfully; the meaning of the IR
instructions is the interpreter's (for `adc`/`mac_with_carry` the extractor checks that the `ff` crate
source has the expected bodies).
-/
import PP.Proofs.MontLimb3

set_option exponentiation.threshold 2048

namespace PP.C08Limb
open PP PP.Mont PP.MontLimb PP.Limbs

/-- a list of exactly `n` limbs, each a `u64` -/
def Limbs (n : Nat) (a : List Nat) : Prop := a.length = n ∧ ∀ l ∈ a, l < 2 ^ 64

/-! ## 1. the extracted programs are the generator's output (syntactic, kernel-checked) -/

theorem fq_mul_prog : Gen.FQ_MUL_PROG = genMulProg 6 := fq_mul_prog_eq
theorem fq_square_prog : Gen.FQ_SQUARE_PROG = genSquareProg 6 := fq_square_prog_eq
theorem fq_mont_reduce_prog : Gen.FQ_MONT_REDUCE_PROG = genMontReduceProg 6 := fq_mont_reduce_prog_eq
theorem fr_mul_prog : Gen.FR_MUL_PROG = genMulProg 4 := fr_mul_prog_eq
theorem fr_square_prog : Gen.FR_SQUARE_PROG = genSquareProg 4 := fr_square_prog_eq
theorem fr_mont_reduce_prog : Gen.FR_MONT_REDUCE_PROG = genMontReduceProg 4 := fr_mont_reduce_prog_eq
/-- `mont_reduce` takes `2n` words -/
theorem mont_reduce_nparams : Gen.FQ_MONT_REDUCE_NPARAMS = 2 * 6 ∧ Gen.FR_MONT_REDUCE_NPARAMS = 2 * 4 :=
  ⟨rfl, rfl⟩

/-! ## 2. generic in the limb count: the generated code computes the integer-level model -/

/-- `mul_assign` for `n = P.limbs` limbs, all `u64` limb values -/
theorem gen_mul_eq {P : Params} (h : P.WF) {a b : List Nat} (ha : Limbs P.limbs a) (hb : Limbs P.limbs b) :
    limbsToNat (runMul P (genMulProg P.limbs) (genMontReduceProg P.limbs) a b)
      = Mont.mul P (limbsToNat a) (limbsToNat b) :=
  genMul_correct h ha.2 hb.2 ha.1 hb.1

/-- `square` for `n = P.limbs ≥ 2` limbs, all `u64` limb values -/
theorem gen_square_eq {P : Params} (h : P.WF) (hn : 2 ≤ P.limbs) {a : List Nat} (ha : Limbs P.limbs a) :
    limbsToNat (runSquare P (genSquareProg P.limbs) (genMontReduceProg P.limbs) a)
      = Mont.square P (limbsToNat a) :=
  genSquare_correct h hn ha.2 ha.1

/-- `mont_reduce` for `n = P.limbs` limbs, all `2n` `u64` argument values -/
theorem gen_mont_reduce_eq {P : Params} (h : P.WF) {rs : List Nat} (hrs : Limbs (2 * P.limbs) rs) :
    limbsToNat (runMontReduce P (genMontReduceProg P.limbs) rs) = Mont.montReduce P (limbsToNat rs) :=
  genMontReduce_correct h hrs.2 hrs.1

/-- the result of any of the three functions is again `P.limbs` `u64` limbs -/
theorem run_limbs (P : Params) (prog mr : List Instr) {a b : List Nat} (ha : Limbs P.limbs a)
    (hb : ∀ l ∈ b, l < 2 ^ 64) : Limbs P.limbs (runMul P prog mr a b) :=
  ⟨out_length P _, out_ok P (run_ok P mr prog (initState_ok ha.2 hb))⟩

/-- `square` runs in the same machine as `mul_assign` (with no `other`) -/
theorem runSquare_eq (P : Params) (prog mr : List Instr) (a : List Nat) :
    runSquare P prog mr a = runMul P prog mr a [] := rfl

/-! ## 3. `Fq` -/

/-- `Fq::mul_assign`: the extracted limb program computes `Mont.mul fqP` -/
theorem fq_mul_limb_eq (a b : List Nat) (ha : Limbs 6 a) (hb : Limbs 6 b) :
    limbsToNat (runMul fqP Gen.FQ_MUL_PROG Gen.FQ_MONT_REDUCE_PROG a b)
      = Mont.mul fqP (limbsToNat a) (limbsToNat b) := by
  rw [fq_mul_prog, fq_mont_reduce_prog]
  exact gen_mul_eq fqP_wf ha hb

/-- `Fq::square` -/
theorem fq_square_limb_eq (a : List Nat) (ha : Limbs 6 a) :
    limbsToNat (runSquare fqP Gen.FQ_SQUARE_PROG Gen.FQ_MONT_REDUCE_PROG a)
      = Mont.square fqP (limbsToNat a) := by
  rw [fq_square_prog, fq_mont_reduce_prog]
  exact gen_square_eq fqP_wf (by decide) ha

/-- `Fq::mont_reduce(r0, …, r11)` -/
theorem fq_mont_reduce_limb_eq (rs : List Nat) (hrs : Limbs 12 rs) :
    limbsToNat (runMontReduce fqP Gen.FQ_MONT_REDUCE_PROG rs) = Mont.montReduce fqP (limbsToNat rs) := by
  rw [fq_mont_reduce_prog]
  exact gen_mont_reduce_eq fqP_wf hrs

/-! ## 4. `Fr` -/

/-- `Fr::mul_assign` -/
theorem fr_mul_limb_eq (a b : List Nat) (ha : Limbs 4 a) (hb : Limbs 4 b) :
    limbsToNat (runMul frP Gen.FR_MUL_PROG Gen.FR_MONT_REDUCE_PROG a b)
      = Mont.mul frP (limbsToNat a) (limbsToNat b) := by
  rw [fr_mul_prog, fr_mont_reduce_prog]
  exact gen_mul_eq frP_wf ha hb

/-- `Fr::square` -/
theorem fr_square_limb_eq (a : List Nat) (ha : Limbs 4 a) :
    limbsToNat (runSquare frP Gen.FR_SQUARE_PROG Gen.FR_MONT_REDUCE_PROG a)
      = Mont.square frP (limbsToNat a) := by
  rw [fr_square_prog, fr_mont_reduce_prog]
  exact gen_square_eq frP_wf (by decide) ha

/-- `Fr::mont_reduce(r0, …, r7)` -/
theorem fr_mont_reduce_limb_eq (rs : List Nat) (hrs : Limbs 8 rs) :
    limbsToNat (runMontReduce frP Gen.FR_MONT_REDUCE_PROG rs) = Mont.montReduce frP (limbsToNat rs) := by
  rw [fr_mont_reduce_prog]
  exact gen_mont_reduce_eq frP_wf hrs

/-! ## 5. the executable entry points used by the differential tests, on raw values -/

theorem limbs_limbsOf (n x : Nat) : Limbs n (limbsOf n x) := ⟨limbsOf_length n x, limbsOf_ok n x⟩

theorem mulFq_eq (a b : Nat) : mulFq a b = Mont.mul fqP (a % 2 ^ 384) (b % 2 ^ 384) := by
  unfold mulFq
  rw [fq_mul_limb_eq _ _ (limbs_limbsOf 6 a) (limbs_limbsOf 6 b), limbsToNat_limbsOf, limbsToNat_limbsOf]
theorem squareFq_eq (a : Nat) : squareFq a = Mont.square fqP (a % 2 ^ 384) := by
  unfold squareFq
  rw [fq_square_limb_eq _ (limbs_limbsOf 6 a), limbsToNat_limbsOf]
theorem montReduceFq_eq (t : Nat) : montReduceFq t = Mont.montReduce fqP (t % 2 ^ 768) := by
  unfold montReduceFq
  rw [fq_mont_reduce_limb_eq _ (limbs_limbsOf 12 t), limbsToNat_limbsOf]
theorem mulFr_eq (a b : Nat) : mulFr a b = Mont.mul frP (a % 2 ^ 256) (b % 2 ^ 256) := by
  unfold mulFr
  rw [fr_mul_limb_eq _ _ (limbs_limbsOf 4 a) (limbs_limbsOf 4 b), limbsToNat_limbsOf, limbsToNat_limbsOf]
theorem squareFr_eq (a : Nat) : squareFr a = Mont.square frP (a % 2 ^ 256) := by
  unfold squareFr
  rw [fr_square_limb_eq _ (limbs_limbsOf 4 a), limbsToNat_limbsOf]
theorem montReduceFr_eq (t : Nat) : montReduceFr t = Mont.montReduce frP (t % 2 ^ 512) := by
  unfold montReduceFr
  rw [fr_mont_reduce_limb_eq _ (limbs_limbsOf 8 t), limbsToNat_limbsOf]

/-! ## 6. hence: the limb-level code multiplies modulo `p`

For reduced raw inputs `a, b < p` (the invariant every `Fq`/`Fr` value satisfies) the limb program's
result is reduced and is the Montgomery product: `result · 2^(64n) ≡ a·b (mod p)`, i.e.
`dec result = dec a · dec b mod p` for the decoding `dec x = x·2^(-64n) mod p` of `PP.Props.C08`. -/

theorem fq_mul_limb_spec {a b : Nat} (ha : a < fqP.p) (hb : b < fqP.p) :
    mulFq a b < fqP.p ∧ mulFq a b * 2 ^ 384 % fqP.p = a * b % fqP.p ∧
      dec fqP (mulFq a b) = dec fqP a * dec fqP b % fqP.p := by
  have hW : fqP.p < 2 ^ 384 := fqP_wf.p_lt_W
  have e : mulFq a b = Mont.mul fqP a b := by
    rw [mulFq_eq, Nat.mod_eq_of_lt (lt_trans ha hW), Nat.mod_eq_of_lt (lt_trans hb hW)]
  rw [e]
  exact ⟨(mul_spec fqP_wf ha hb).1, (mul_spec fqP_wf ha hb).2, dec_mul fqP_wf ha hb⟩

theorem fq_square_limb_spec {a : Nat} (ha : a < fqP.p) :
    squareFq a < fqP.p ∧ squareFq a * 2 ^ 384 % fqP.p = a * a % fqP.p ∧
      dec fqP (squareFq a) = dec fqP a * dec fqP a % fqP.p := by
  have hW : fqP.p < 2 ^ 384 := fqP_wf.p_lt_W
  have e : squareFq a = Mont.square fqP a := by
    rw [squareFq_eq, Nat.mod_eq_of_lt (lt_trans ha hW)]
  rw [e]
  exact ⟨(square_spec fqP_wf ha).1, (square_spec fqP_wf ha).2, dec_square fqP_wf ha⟩

theorem fr_mul_limb_spec {a b : Nat} (ha : a < frP.p) (hb : b < frP.p) :
    mulFr a b < frP.p ∧ mulFr a b * 2 ^ 256 % frP.p = a * b % frP.p ∧
      dec frP (mulFr a b) = dec frP a * dec frP b % frP.p := by
  have hW : frP.p < 2 ^ 256 := frP_wf.p_lt_W
  have e : mulFr a b = Mont.mul frP a b := by
    rw [mulFr_eq, Nat.mod_eq_of_lt (lt_trans ha hW), Nat.mod_eq_of_lt (lt_trans hb hW)]
  rw [e]
  exact ⟨(mul_spec frP_wf ha hb).1, (mul_spec frP_wf ha hb).2, dec_mul frP_wf ha hb⟩

theorem fr_square_limb_spec {a : Nat} (ha : a < frP.p) :
    squareFr a < frP.p ∧ squareFr a * 2 ^ 256 % frP.p = a * a % frP.p ∧
      dec frP (squareFr a) = dec frP a * dec frP a % frP.p := by
  have hW : frP.p < 2 ^ 256 := frP_wf.p_lt_W
  have e : squareFr a = Mont.square frP a := by
    rw [squareFr_eq, Nat.mod_eq_of_lt (lt_trans ha hW)]
  rw [e]
  exact ⟨(square_spec frP_wf ha).1, (square_spec frP_wf ha).2, dec_square frP_wf ha⟩

/-! ## 7. concrete runs of the interpreter in the kernel (sanity of the executable path) -/

example : mulFq Gen.fq_R2 Gen.fq_R2 = Mont.mul fqP Gen.fq_R2 Gen.fq_R2 := by decide +kernel
example : mulFq (2 ^ 384 - 1) (2 ^ 384 - 1) = Mont.mul fqP (2 ^ 384 - 1) (2 ^ 384 - 1) := by decide +kernel
example : mulFq (Gen.fq_MODULUS - 1) Gen.fq_R = Gen.fq_MODULUS - 1 := by decide +kernel
example : squareFq (Gen.fq_MODULUS - 1) = Mont.square fqP (Gen.fq_MODULUS - 1) := by decide +kernel
example : squareFq (2 ^ 384 - 1) = Mont.square fqP (2 ^ 384 - 1) := by decide +kernel
example : montReduceFq (2 ^ 768 - 1) = Mont.montReduce fqP (2 ^ 768 - 1) := by decide +kernel
example : mulFr Gen.fr_R2 Gen.fr_R2 = Mont.mul frP Gen.fr_R2 Gen.fr_R2 := by decide +kernel
example : mulFr (2 ^ 256 - 1) (2 ^ 256 - 1) = Mont.mul frP (2 ^ 256 - 1) (2 ^ 256 - 1) := by decide +kernel
example : squareFr (Gen.fr_MODULUS - 1) = Mont.square frP (Gen.fr_MODULUS - 1) := by decide +kernel
example : squareFr (2 ^ 256 - 1) = Mont.square frP (2 ^ 256 - 1) := by decide +kernel
example : montReduceFr (2 ^ 512 - 1) = Mont.montReduce frP (2 ^ 512 - 1) := by decide +kernel

end PP.C08Limb
