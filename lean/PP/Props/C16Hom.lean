/-
C16, the clause that was only tested: THE HOMOMORPHISM LAW OF THE 3-ISOGENY `E₂' → E₂` used for
hashing to G2 (RFC 9380 appendix E.3, `isogeny/g2.rs`).

Objects.
* `E2'` : the isogenous curve `y² = x³ + 240u·x + 1012(1+u)` over `Fq2` as a Mathlib
  `WeierstrassCurve.Affine` (coefficients `g2EllpA`, `g2EllpB` of the model, see `C16.g2_consts`),
  `E2'.Point` its group of points with Mathlib's chord-and-tangent law (an `a₄ ≠ 0` curve);
* `(W b₂).Point`, `b₂ = g2Codec.b = 4(1+u)` : the group of points of the target curve (C01);
* `iso3Pt : E2'.Point → (W b₂).Point` : the RFC's `iso_map` — `O ↦ O` and
  `(x, y) ↦ isoMapPoint b₂ XN XD YN YD x y` (rational map of the extracted coefficient tables, identity
  on poles; the same function that `C16Inst.abs_iso3` / `C14.g2_sswu_iso_eq_rfc` use);
* `absE2' p` : the point of `E₂'` denoted by a Jacobian triple; `OnE2' p` : the triple is on `E₂'`.

Theorems (no hypothesis left; axioms: `propext`, `Classical.choice`, `Quot.sound`).
* `iso3_hom`           : `iso3Pt (P + Q) = iso3Pt P + iso3Pt Q` for ALL points `P, Q` of `E₂'(Fq2)`
                         (identity, opposite points, doubling, 2-torsion — there is none — included);
* `iso3_neg`, `iso3_ker_trivial`, `iso3Hom`, `iso3Hom_injective` : it is odd, and no rational point
                         except `O` is sent to `O` (the kernel `{O, (−6+6u, ±√(4(1+u)))}` is not rational);
* `abs_iso3`           : the MODEL's `iso3` computes `iso3Pt` on every Jacobian representative of every
                         point of `E₂'` (any `z = 0` triple is the identity);
* `iso3_add`, `iso3_add_model` : hence for Jacobian triples `p, q, r` on `E₂'` with `r` denoting the
                         sum of the points denoted by `p` and `q` (group law of `E₂'`), `iso3 r` denotes
                         the sum (group law of `E₂`) of the points denoted by `iso3 p`, `iso3 q`, which is
                         also what the model's `Jac.add` (the `a = 0` formulas, correct on `E₂` by C01)
                         returns on `iso3 p`, `iso3 q`;  `iso3_add_exists` : such an `r` always exists;
* `g2_map2_eq_iso_of_sum` : the (post-fix) `map2_to_curve(u0, u1)` equals
                         `[h_eff] · iso_map(sswu(u0) +_{E₂'} sswu(u1))`: adding before or after the
                         isogeny gives the same point, PROVIDED the sum before the isogeny is the group
                         law of `E₂'` (the pre-fix code used the `a = 0` formulas there, see C14).

The model has no addition on `E₂'` (after the `fix:` commit the Rust code never adds there), so the
law is stated with Mathlib's group law on `E2'.Point`, and at the level of the model through `absE2'`.

Method (`PP/Proofs/IsoHomAlg.lean`, `IsoHom.lean`, `IsoHomInst.lean`): with `s = −1 + u` one has
`A' = −120s²`, `B' = 506s³`, `b = 2s³`, kernel abscissa `6s`, and in `ξ = x − 6s` the map is
`(N(ξ)/(9ξ²), −y·M(ξ)/(27ξ³))` with `N, M` cubic with small integer coefficients in `s` (all checked
on the extracted tables by the kernel).  For ANY field and `s` with `2s³` a non-square and no
2-torsion on the target, the map is shown additive up to sign from two `ring`-checked identities
(chord and tangent abscissae) and `ξ(P₁+P₂)·ξ(P₁−P₂)·(ξ₁−ξ₂)² = G(ξ₁,ξ₂)` (the images of two points
with different abscissae have different abscissae, because `P₁ ± P₂` are rational and the kernel is
not); additivity up to sign, oddness and the absence of 2-torsion give additivity.

NOT covered IN THIS FILE (PROVED in PP/Props/C16Hom11.lean): the degree-11 isogeny `E₁' → E₁` of G1 (its kernel IS rational and the identities are
far larger; handled there by grid evaluation in the kernel and translation invariance under the kernel).
-/
import PP.Proofs.IsoHomInst
import PP.Props.C14
import PP.Props.C16Inst

namespace PP
namespace C16Hom

open WeierstrassCurve.Affine IsoPoly Iso
open IsoHom (E2' iso3Pt absE2' OnE2')
open C17 (hEffG2)

local notation "b₂" => g2Codec.b

/-- the isogenous curve is `y² = x³ + g2EllpA·x + g2EllpB` (`a₁ = a₂ = a₃ = 0`) -/
theorem E2'_coeffs : E2' = ⟨0, 0, 0, g2EllpA, g2EllpB⟩ := rfl

/-- `iso3Pt` is the RFC's `iso_map`: identity to identity, an affine point to `isoMapPoint …` -/
theorem iso3Pt_spec :
    iso3Pt 0 = 0 ∧ ∀ (x y : Fq2) (h : E2'.Nonsingular x y),
      iso3Pt (Point.some x y h) = isoMapPoint b₂ iso3XNum iso3XDen iso3YNum iso3YDen x y :=
  ⟨rfl, fun _ _ _ => rfl⟩

/-- on `E₂'(Fq2)` the rational map has no pole: the image of an affine point is the affine point
    `(XN(x)/XD(x), y·YN(x)/YD(x))` -/
theorem iso3Pt_affine (x y : Fq2) (h : E2'.Nonsingular x y) :
    evalP iso3XDen x ≠ 0 ∧ evalP iso3YDen x ≠ 0 ∧
    ∃ h' : (W b₂).Nonsingular (evalP iso3XNum x / evalP iso3XDen x)
        (y * evalP iso3YNum x / evalP iso3YDen x),
      iso3Pt (Point.some x y h) = Point.some _ _ h' := by
  have hk := IsoHom.no_ker IsoHom.hyp_s2 (IsoHom.E2'_to_src h)
  obtain ⟨h', e⟩ := IsoHom.iso3Pt_some_eq h
  refine ⟨by rw [IsoHom.evalP_xden]; exact pow_ne_zero 2 hk,
    by rw [IsoHom.evalP_yden]; exact pow_ne_zero 3 hk, ?_⟩
  have h'' := h'
  rw [← IsoHom.xmap_eq x hk, ← IsoHom.ymap_eq x y hk] at h''
  refine ⟨h'', ?_⟩
  rw [e, PP.Point.some_eq_some]
  exact ⟨(IsoHom.xmap_eq x hk).symm, (IsoHom.ymap_eq x y hk).symm⟩

/-- **C16, homomorphism law (G2)**: the 3-isogeny is additive on `E₂'(Fq2)` -/
theorem iso3_hom (P Q : E2'.Point) : iso3Pt (P + Q) = iso3Pt P + iso3Pt Q := IsoHom.iso3Pt_add P Q

theorem iso3_neg (P : E2'.Point) : iso3Pt (-P) = -iso3Pt P := IsoHom.iso3Pt_neg P

/-- the kernel has no rational point except the identity -/
theorem iso3_ker_trivial (P : E2'.Point) : iso3Pt P = 0 ↔ P = 0 := IsoHom.iso3Pt_eq_zero_iff P

/-- the isogeny as a homomorphism of Mathlib's groups of points, injective on `E₂'(Fq2)` -/
noncomputable def iso3Hom : E2'.Point →+ (W b₂).Point := IsoHom.iso3Hom

theorem iso3Hom_apply (P : E2'.Point) : iso3Hom P = iso3Pt P := rfl

theorem iso3Hom_injective : Function.Injective iso3Hom := IsoHom.iso3Hom_injective

/-! ## the model -/

/-- the model's `iso3` computes `iso3Pt` on every Jacobian representative of every point of `E₂'` -/
theorem abs_iso3 (p : Jac Fq2) (hp : OnE2' p) : Jac.abs b₂ (iso3 p) = iso3Pt (absE2' p) :=
  IsoHom.abs_iso3_eq_iso3Pt p hp

/-- **the law on Jacobian representatives**: if `r` denotes the sum in `E₂'` of the points denoted
    by `p` and `q`, then `iso3 r` denotes the sum in `E₂` of the points denoted by `iso3 p`, `iso3 q` -/
theorem iso3_add (p q r : Jac Fq2) (hp : OnE2' p) (hq : OnE2' q) (hr : OnE2' r)
    (hsum : absE2' r = absE2' p + absE2' q) :
    Jac.abs b₂ (iso3 r) = Jac.abs b₂ (iso3 p) + Jac.abs b₂ (iso3 q) := by
  rw [abs_iso3 r hr, abs_iso3 p hp, abs_iso3 q hq, hsum, iso3_hom]

/-- … which is the point denoted by the model's `add_assign` (target-curve formulas) of the images -/
theorem iso3_add_model (p q r : Jac Fq2) (hp : OnE2' p) (hq : OnE2' q) (hr : OnE2' r)
    (hsum : absE2' r = absE2' p + absE2' q) :
    Jac.abs b₂ (iso3 r) = Jac.abs b₂ ((iso3 p).add (iso3 q)) := by
  rw [iso3_add p q r hp hq hr hsum, C01.add_correct (iso3_onCurve' p hp) (iso3_onCurve' q hq)]

/-- non-vacuity of `iso3_add`: a representative of the sum always exists -/
theorem iso3_add_exists (p q : Jac Fq2) (hp : OnE2' p) (hq : OnE2' q) :
    ∃ r, OnE2' r ∧ absE2' r = absE2' p + absE2' q ∧
      Jac.abs b₂ (iso3 r) = Jac.abs b₂ (iso3 p) + Jac.abs b₂ (iso3 q) := by
  obtain ⟨r, hr, e⟩ := IsoHom.absE2'_surjective (absE2' p + absE2' q)
  exact ⟨r, hr, e, iso3_add p q r hp hq hr e⟩

/-- `map2_to_curve(u0, u1) = [h_eff]·iso_map(sswu(u0) + sswu(u1))`, the sum being the group law of
    `E₂'`: isogeny-then-add (the code after the fix, and the RFC) is add-then-isogeny -/
theorem g2_map2_eq_iso_of_sum (u0 u1 : Fq2) :
    ∃ P0 P1 R, osswuG2 u0 = some P0 ∧ osswuG2 u1 = some P1 ∧ map2ToCurveG2 u0 u1 = some R ∧
      OnE2' P0 ∧ OnE2' P1 ∧ Jac.OnCurve b₂ R ∧
      Jac.abs b₂ R = hEffG2 • iso3Pt (absE2' P0 + absE2' P1) := by
  obtain ⟨P0, P1, R, h0, h1, hR, -, -, hon, habs⟩ := C14.g2_map2_eq u0 u1
  obtain ⟨Q0, hQ0, hz0, hc0⟩ := sswuG2_ex u0
  obtain ⟨Q1, hQ1, hz1, hc1⟩ := sswuG2_ex u1
  obtain rfl : Q0 = P0 := Option.some.inj (hQ0.symm.trans h0)
  obtain rfl : Q1 = P1 := Option.some.inj (hQ1.symm.trans h1)
  have hp0 : OnE2' Q0 := Or.inr hc0
  have hp1 : OnE2' Q1 := Or.inr hc1
  refine ⟨Q0, Q1, R, h0, h1, hR, hp0, hp1, hon, ?_⟩
  rw [habs, abs_iso3 Q0 hp0, abs_iso3 Q1 hp1, iso3_hom]

end C16Hom
end PP
