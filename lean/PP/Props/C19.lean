/-
C19 — "For every scalar, target-group element and G1/G2 point (projective or affine), writing to a byte
stream and reading back with the same compression flag returns the original value, produces exactly 32,
576, 48/96 or 96/192 bytes, and for points the bytes are those of the point encoding. Reading consumes
exactly that many bytes on success, never panics, and returns an error - not a value - for truncated
input, a compression flag that contradicts the data, non-reduced field values, and every point encoding
the checked decoders reject."

Model: `serFr/deserFr`, `serFq12/deserFq12`, `serAffine/deserAffine`, `serJac/deserJac` over a byte-list
reader returning the value and the unread rest (PP.Model.Enc).  `…_ok_iff` are the strongest statements:
a value comes back EXACTLY when the input starts with the canonical serialisation of that value (points:
exactly when the checked decoder of C04 accepts the prefix), and the rest is exactly what follows it.
For points the validity hypotheses are those of C05 (`hinf`, subgroup membership per the model predicate).
Projective points: the value read back is `into_projective (into_affine P)`; that this is the same group
element as `P` is C01's `GroupModel` (`deserJac_serJac_abs`).
-/
import PP.Proofs.Serdes

set_option linter.unusedSectionVars false

namespace PP.C19

/-! ### scalars (`Fr`, 32 bytes) -/

theorem serFr_length (a : Fr) : (serFr a).length = 32 := PP.serFr_length a

theorem deserFr_serFr (a : Fr) (tail : Bytes) : deserFr (serFr a ++ tail) = .ok (a, tail) := PP.deserFr_serFr a tail

theorem deserFr_ok_iff (rd : Bytes) (a : Fr) (rest : Bytes) :
    deserFr rd = .ok (a, rest) ↔ rd = serFr a ++ rest := PP.deserFr_ok_iff rd a rest

theorem deserFr_truncated (rd : Bytes) (h : rd.length < 32) : deserFr rd = .error .eof := PP.deserFr_eof rd h

theorem deserFr_nonreduced (rd : Bytes) (h : 32 ≤ rd.length) (hr : ¬ beToNat (rd.take 32) < Gen.r) :
    deserFr rd = .error .notInField := PP.deserFr_notInField rd h hr

theorem deserFr_ne_panic (rd : Bytes) : deserFr rd ≠ .error .panic := PP.deserFr_ne_panic rd

/-! ### target group (`Fq12`, 576 bytes = twelve 48-byte coefficients) -/

theorem serFq12_length (a : Fq12) : (serFq12 a).length = 576 := PP.serFq12_length a

theorem deserFq12_serFq12 (a : Fq12) (tail : Bytes) : deserFq12 (serFq12 a ++ tail) = .ok (a, tail) :=
  PP.deserFq12_serFq12 a tail

theorem deserFq12_ok_iff (rd : Bytes) (a : Fq12) (rest : Bytes) :
    deserFq12 rd = .ok (a, rest) ↔ rd = serFq12 a ++ rest := PP.deserFq12_ok_iff rd a rest

/-- truncation of a valid stream at EVERY prefix length -/
theorem deserFq12_truncated (a : Fq12) (k : Nat) (hk : k < 576) :
    deserFq12 ((serFq12 a).take k) = .error .eof := PP.deserFq12_truncated a k hk

/-- any input shorter than 576 bytes: an error (`eof`, or `notInField` if an earlier complete coefficient
is not reduced — the reader checks each coefficient before reading the next) -/
theorem deserFq12_short (rd : Bytes) (h : rd.length < 576) :
    deserFq12 rd = .error .eof ∨ deserFq12 rd = .error .notInField := PP.deserFq12_short rd h

/-- a non-reduced coefficient after fewer than twelve valid ones -/
theorem deserFq12_nonreduced (as : List Fq) (bad tail : Bytes) (hn : as.length < 12)
    (hb : bad.length = 48) (hbad : ¬ beToNat bad < Gen.q) :
    deserFq12 ((as.map Fq.toBytes).flatten ++ (bad ++ tail)) = .error .notInField :=
  PP.deserFq12_notInField as bad tail hn hb hbad

theorem deserFq12_error (rd : Bytes) (e : SerErr) (h : deserFq12 rd = .error e) : e = .eof ∨ e = .notInField :=
  PP.deserFq12_error rd e h

/-- the `panic` arm of the model (`.ok _ => .error .panic`) is unreachable -/
theorem deserFq12_ne_panic (rd : Bytes) : deserFq12 rd ≠ .error .panic := PP.deserFq12_ne_panic rd

/-! ### points -/
section points
variable {F : Type} [Field F] [DecidableEq F] [FieldOps F] [LawfulFieldOps F] [SqrtOps F] [LawfulSqrtOps F]
variable {cc : Codec F} {C : ZCash.Coord F}

/-- the bytes are those of the point encoding (C05) -/
theorem serAffine_eq_encode (A : Aff F) (c : Bool) :
    serAffine cc A c = if c then encodeCompressed cc A else encodeUncompressed cc A := rfl

theorem serAffine_eq_zcash (L : cc.Lawful C) (A : Aff F) (c : Bool) :
    serAffine cc A c = ZCash.encode (cc.curve C) (if c then .compressed else .uncompressed) A := by
  cases c
  · exact encodeUncompressed_eq L A
  · exact encodeCompressed_eq L A

theorem serAffine_length (L : cc.Lawful C) (A : Aff F) (c : Bool) :
    (serAffine cc A c).length = if c then cc.size else 2 * cc.size := PP.serAffine_length L A c

/-- projective and affine forms coincide: `serialize` of a projective point is that of `into_affine` -/
theorem serJac_eq (p : Jac F) (c : Bool) : serJac cc p c = p.toAffine.map (fun a => serAffine cc a c) := rfl

theorem deserJac_eq (rd : Bytes) (c : Bool) :
    deserJac cc rd c = (deserAffine cc rd c).map (fun p => (p.1.toJac, p.2)) := PP.deserJac_eq rd c

/-- round trip, exact consumption, any trailing data -/
theorem deserAffine_serAffine (L : cc.Lawful C) (A : Aff F) (c : Bool) (tail : Bytes)
    (hinf : A.infinity = true → A = Aff.zero) (hs : Aff.inSubgroup cc.b A = true) :
    deserAffine cc (serAffine cc A c ++ tail) c = .ok (A, tail) := PP.deserAffine_serAffine L A c tail hinf hs

theorem deserJac_serJac (L : cc.Lawful C) (P : Jac F) (A : Aff F) (c : Bool) (tail : Bytes)
    (hA : P.toAffine = some A) (hs : Aff.inSubgroup cc.b A = true) :
    serJac cc P c = some (serAffine cc A c) ∧
      deserJac cc (serAffine cc A c ++ tail) c = .ok (A.toJac, tail) := PP.deserJac_serJac L P A c tail hA hs

/-- with the group abstraction of C01: what is read back is the ORIGINAL group element -/
theorem deserJac_serJac_abs {G : Type} [AddCommGroup G] (GM : GroupModel F G) (L : cc.Lawful C)
    (P : Jac F) (c : Bool) (tail : Bytes) (hP : GM.ValidJ P)
    (hs : ∀ A, P.toAffine = some A → Aff.inSubgroup cc.b A = true) :
    ∃ bytes Q, serJac cc P c = some bytes ∧ deserJac cc (bytes ++ tail) c = .ok (Q, tail) ∧
      GM.ValidJ Q ∧ GM.absJ Q = GM.absJ P := PP.deserJac_serJac_abs GM L P c tail hP hs

/-- a value is returned exactly when the checked decoder accepts the prefix; exactly that prefix is consumed -/
theorem deserAffine_compressed_ok_iff (L : cc.Lawful C) (rd : Bytes) (A : Aff F) (rest : Bytes) :
    deserAffine cc rd true = .ok (A, rest) ↔
      cc.size ≤ rd.length ∧ decodeCompressed cc (rd.take cc.size) = .ok A ∧ rest = rd.drop cc.size :=
  deserAffine_ok_iff_c L rd A rest

theorem deserAffine_uncompressed_ok_iff (L : cc.Lawful C) (rd : Bytes) (A : Aff F) (rest : Bytes) :
    deserAffine cc rd false = .ok (A, rest) ↔
      2 * cc.size ≤ rd.length ∧ decodeUncompressed cc (rd.take (2 * cc.size)) = .ok A ∧
        rest = rd.drop (2 * cc.size) := deserAffine_ok_iff_u L rd A rest

theorem deserJac_ok_iff (rd : Bytes) (c : Bool) (P : Jac F) (rest : Bytes) :
    deserJac cc rd c = .ok (P, rest) ↔ ∃ A, deserAffine cc rd c = .ok (A, rest) ∧ P = A.toJac :=
  PP.deserJac_ok_iff rd c P rest

/-- truncated input, first read -/
theorem deserAffine_truncated (rd : Bytes) (c : Bool) (h : rd.length < cc.size) :
    deserAffine cc rd c = .error .eof := deserAffine_eof rd c h

/-- truncated input, second read of the uncompressed form -/
theorem deserAffine_truncated2 (L : cc.Lawful C) (rd : Bytes) (h1 : cc.size ≤ rd.length)
    (h2 : rd.length < 2 * cc.size) (h7 : rd.headD 0 &&& 0x80 = 0) :
    deserAffine cc rd false = .error .eof := deserAffine_eof2 L rd h1 h2 h7

/-- a compression flag that contradicts bit 7 of the data -/
theorem deserAffine_flag_mismatch (L : cc.Lawful C) (rd : Bytes) (c : Bool) (h : cc.size ≤ rd.length)
    (hflag : decide (rd.headD 0 &&& 0x80 ≠ 0) ≠ c) : deserAffine cc rd c = .error .compressness :=
  deserAffine_compressness L rd c h hflag

/-- everything the checked decoders reject is rejected (with the decoder's reason) -/
theorem deserAffine_decode_error_compressed (L : cc.Lawful C) (rd : Bytes) (h : cc.size ≤ rd.length)
    (h7 : rd.headD 0 &&& 0x80 ≠ 0) (e : DecodeErr) (he : decodeCompressed cc (rd.take cc.size) = .error e) :
    deserAffine cc rd true = .error (.decode e) := deserAffine_decode_error_c L rd h h7 e he

theorem deserAffine_decode_error_uncompressed (L : cc.Lawful C) (rd : Bytes) (h : 2 * cc.size ≤ rd.length)
    (h7 : rd.headD 0 &&& 0x80 = 0) (e : DecodeErr)
    (he : decodeUncompressed cc (rd.take (2 * cc.size)) = .error e) :
    deserAffine cc rd false = .error (.decode e) := deserAffine_decode_error_u L rd h h7 e he

theorem deserJac_error_iff (rd : Bytes) (c : Bool) (e : SerErr) :
    deserJac cc rd c = .error e ↔ deserAffine cc rd c = .error e := PP.deserJac_error_iff rd c e

/-- the only errors are `eof`, `compressness`, `decode _`; in particular never `panic` -/
theorem deserAffine_error (L : cc.Lawful C) (rd : Bytes) (c : Bool) (e : SerErr)
    (h : deserAffine cc rd c = .error e) : e = .eof ∨ e = .compressness ∨ ∃ d, e = .decode d :=
  PP.deserAffine_error L rd c e h

theorem deserAffine_ne_panic (L : cc.Lawful C) (rd : Bytes) (c : Bool) : deserAffine cc rd c ≠ .error .panic :=
  PP.deserAffine_ne_panic L rd c

theorem deserJac_ne_panic (L : cc.Lawful C) (rd : Bytes) (c : Bool) : deserJac cc rd c ≠ .error .panic :=
  PP.deserJac_ne_panic L rd c

end points

/-! ### G1: 48 / 96 bytes -/
section g1
variable [LawfulSqrtOps Fq]

theorem serAffine_length_g1 (A : Aff Fq) (c : Bool) : (serAffine g1Codec A c).length = if c then 48 else 96 :=
  PP.serAffine_length g1Codec_lawful A c

theorem deserAffine_serAffine_g1 (A : Aff Fq) (c : Bool) (tail : Bytes)
    (hinf : A.infinity = true → A = Aff.zero) (hs : Aff.inSubgroup g1Codec.b A = true) :
    deserAffine g1Codec (serAffine g1Codec A c ++ tail) c = .ok (A, tail) :=
  PP.deserAffine_serAffine g1Codec_lawful A c tail hinf hs

theorem deserJac_serJac_g1 (P : Jac Fq) (A : Aff Fq) (c : Bool) (tail : Bytes)
    (hA : P.toAffine = some A) (hs : Aff.inSubgroup g1Codec.b A = true) :
    serJac g1Codec P c = some (serAffine g1Codec A c) ∧
      deserJac g1Codec (serAffine g1Codec A c ++ tail) c = .ok (A.toJac, tail) :=
  PP.deserJac_serJac g1Codec_lawful P A c tail hA hs

theorem deserAffine_ne_panic_g1 (rd : Bytes) (c : Bool) : deserAffine g1Codec rd c ≠ .error .panic :=
  PP.deserAffine_ne_panic g1Codec_lawful rd c

theorem deserJac_ne_panic_g1 (rd : Bytes) (c : Bool) : deserJac g1Codec rd c ≠ .error .panic :=
  PP.deserJac_ne_panic g1Codec_lawful rd c

end g1

/-! ### G2: 96 / 192 bytes (field structure and lawful `sqrt`/`lt` of `Fq2` as instance arguments) -/
section g2
/- see the remark in `PP.Props.C04`, section g2 -/
attribute [-instance] Fq2.instAdd Fq2.instSub Fq2.instMul Fq2.instNeg Fq2.instZero Fq2.instOne
variable [Field Fq2] [LawfulFieldOps Fq2] [LawfulSqrtOps Fq2]

theorem serAffine_length_g2 (A : Aff Fq2) (c : Bool) : (serAffine g2Codec A c).length = if c then 96 else 192 :=
  PP.serAffine_length g2Codec_lawful A c

theorem deserAffine_serAffine_g2 (A : Aff Fq2) (c : Bool) (tail : Bytes)
    (hinf : A.infinity = true → A = Aff.zero) (hs : Aff.inSubgroup g2Codec.b A = true) :
    deserAffine g2Codec (serAffine g2Codec A c ++ tail) c = .ok (A, tail) :=
  PP.deserAffine_serAffine g2Codec_lawful A c tail hinf hs

theorem deserJac_serJac_g2 (P : Jac Fq2) (A : Aff Fq2) (c : Bool) (tail : Bytes)
    (hA : P.toAffine = some A) (hs : Aff.inSubgroup g2Codec.b A = true) :
    serJac g2Codec P c = some (serAffine g2Codec A c) ∧
      deserJac g2Codec (serAffine g2Codec A c ++ tail) c = .ok (A.toJac, tail) :=
  PP.deserJac_serJac g2Codec_lawful P A c tail hA hs

theorem deserAffine_ne_panic_g2 (rd : Bytes) (c : Bool) : deserAffine g2Codec rd c ≠ .error .panic :=
  PP.deserAffine_ne_panic g2Codec_lawful rd c

theorem deserJac_ne_panic_g2 (rd : Bytes) (c : Bool) : deserJac g2Codec rd c ≠ .error .panic :=
  PP.deserJac_ne_panic g2Codec_lawful rd c

end g2

/-! ### non-vacuity: concrete evaluations (kernel, `decide +kernel`) -/
namespace Examples

def outcome {α : Type} (r : Except SerErr (α × Bytes)) : Option SerErr × Option (α × Bytes) :=
  match r with
  | .ok a => (none, some a)
  | .error e => (some e, none)

def gen1 : Aff Fq := ⟨Fq.ofMont Gen.G1_GENERATOR_X, Fq.ofMont Gen.G1_GENERATOR_Y, false⟩

example : outcome (deserFr (List.replicate 31 0 ++ [5, 0xaa])) = (none, some (Zp.ofNat 5, [0xaa])) := by
  decide +kernel
example : outcome (deserFr (List.replicate 31 0)) = (some .eof, none) := by decide +kernel
example : outcome (deserFr (List.replicate 32 0xff)) = (some .notInField, none) := by decide +kernel
example : (outcome (deserFq12 (List.replicate 575 0))).1 = some .eof := by decide +kernel
example : (outcome (deserFq12 (List.replicate 576 0 ++ [7]))).2.map (·.2) = some [7] := by decide +kernel
example : (outcome (deserFq12 (List.replicate 48 0 ++ List.replicate 48 0xff))).1 = some .notInField := by
  decide +kernel
-- points: each error class
example : (outcome (deserAffine g1Codec (List.replicate 47 0) true)).1 = some .eof := by decide +kernel
example : (outcome (deserAffine g1Codec (List.replicate 95 0) false)).1 = some .eof := by decide +kernel
example : (outcome (deserAffine g1Codec (List.replicate 48 0) true)).1 = some .compressness := by decide +kernel
example : (outcome (deserAffine g1Codec (0xc0 :: List.replicate 95 0) false)).1 = some .compressness := by
  decide +kernel
example : (outcome (deserAffine g1Codec (0x80 :: List.replicate 47 0) true)).1 =
    some (.decode .notInSubgroup) := by decide +kernel
example : (outcome (deserAffine g1Codec (List.replicate 96 0) false)).1 = some (.decode .notOnCurve) := by
  decide +kernel
example : outcome (deserAffine g1Codec (0xc0 :: List.replicate 47 0 ++ [1, 2, 3]) true) =
    (none, some (Aff.zero, [1, 2, 3])) := by decide +kernel
example : outcome (deserAffine g1Codec (serAffine g1Codec gen1 false ++ [9]) false) = (none, some (gen1, [9])) := by
  decide +kernel
-- the hypotheses of the round-trip theorem are satisfiable
example [LawfulSqrtOps Fq] (c : Bool) (tail : Bytes) :
    deserAffine g1Codec (serAffine g1Codec gen1 c ++ tail) c = .ok (gen1, tail) :=
  deserAffine_serAffine_g1 gen1 c tail (fun h => nomatch h) (by decide +kernel)

end Examples

end PP.C19
