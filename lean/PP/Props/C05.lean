/-
C05 — "For every point of G1/G2, identity included, both encodings have the fixed length (48/96 and
96/192 bytes), are byte-for-byte the big-endian ZCash BLS12-381 format (c1 before c0 for Fq2,
compression, infinity and sort flags in the top three bits, sort flag set iff y is the lexicographically
larger root), and decode back to the same point. Encoding is injective and is the only accepted
preimage: whenever a byte string decodes to a point, re-encoding that point reproduces the byte string."

Model: `encodeCompressed`, `encodeUncompressed` (PP.Model.Enc).  Spec: `ZCash.encode` (PP.Spec.ZCash).

Two side conditions are kept VISIBLE in the statements:
* `hinf : A.infinity = true → A = Aff.zero` in `decode_encode` / injectivity: every affine record flagged
  `infinity` (whatever its `x`, `y`) encodes to the identity string, which decodes to the record
  `Aff.zero = ⟨0, 1, true⟩` exactly;
* `hy : A.infinity = false → −A.y ≠ A.y` in the compressed `encode_decode`: for `y = 0` the decoder does not
  look at the sort flag, so `x`-bytes with the sort flag set decode to `(x, 0)` but the encoder clears the
  flag.  No such point exists on a curve without 2-torsion; this is PROVED for G1 (`x³ + 4` has no root in
  `Fq`), so the G1 statements carry no side condition; for G2 it is an explicit hypothesis.
-/
import PP.Proofs.Encoding

set_option linter.unusedSectionVars false

namespace PP.C05
open ZCash (Coord Form Flags Selected)

section generic
variable {F : Type} [Field F] [DecidableEq F] [FieldOps F] [LawfulFieldOps F] [SqrtOps F] [LawfulSqrtOps F]
variable {cc : Codec F} {C : Coord F}

/-! ### byte for byte the ZCash format, fixed lengths -/

theorem encodeCompressed_eq_zcash (L : cc.Lawful C) (A : Aff F) :
    encodeCompressed cc A = ZCash.encode (cc.curve C) .compressed A := encodeCompressed_eq L A

theorem encodeUncompressed_eq_zcash (L : cc.Lawful C) (A : Aff F) :
    encodeUncompressed cc A = ZCash.encode (cc.curve C) .uncompressed A := encodeUncompressed_eq L A

theorem encodeCompressed_length (L : cc.Lawful C) (A : Aff F) : (encodeCompressed cc A).length = cc.size :=
  PP.encodeCompressed_length L A

theorem encodeUncompressed_length (L : cc.Lawful C) (A : Aff F) :
    (encodeUncompressed cc A).length = 2 * cc.size := PP.encodeUncompressed_length L A

/-! ### decode ∘ encode -/

theorem decodeCompressed_encodeCompressed (L : cc.Lawful C) (A : Aff F)
    (hinf : A.infinity = true → A = Aff.zero) (hs : Aff.inSubgroup cc.b A = true) :
    decodeCompressed cc (encodeCompressed cc A) = .ok A := decodeCompressed_encode L A hinf hs

theorem decodeUncompressed_encodeUncompressed (L : cc.Lawful C) (A : Aff F)
    (hinf : A.infinity = true → A = Aff.zero)
    (hc : Aff.isOnCurve cc.b A = true) (hs : Aff.inSubgroup cc.b A = true) :
    decodeUncompressed cc (encodeUncompressed cc A) = .ok A := decodeUncompressed_encode L A hinf hc hs

/-- unchecked, compressed: the curve equation is needed (`y` is recomputed), the subgroup is not -/
theorem decodeCompressedUnchecked_encodeCompressed (L : cc.Lawful C) (A : Aff F)
    (hinf : A.infinity = true → A = Aff.zero) (hc : Aff.isOnCurve cc.b A = true) :
    decodeCompressedUnchecked cc (encodeCompressed cc A) = .ok A := decodeCompressedUnchecked_encode L A hinf hc

/-- unchecked, uncompressed: ANY pair of field elements round-trips -/
theorem decodeUncompressedUnchecked_encodeUncompressed (L : cc.Lawful C) (A : Aff F)
    (hinf : A.infinity = true → A = Aff.zero) :
    decodeUncompressedUnchecked cc (encodeUncompressed cc A) = .ok A := decodeUncompressedUnchecked_encode L A hinf

/-! ### encode ∘ decode: the encoding is the only accepted preimage -/

theorem encodeUncompressed_of_decodeUncompressed (L : cc.Lawful C) (bs : Bytes) (A : Aff F)
    (h : decodeUncompressed cc bs = .ok A) : encodeUncompressed cc A = bs := encode_decodeUncompressed L bs A h

theorem encodeUncompressed_of_decodeUncompressedUnchecked (L : cc.Lawful C) (bs : Bytes) (A : Aff F)
    (h : decodeUncompressedUnchecked cc bs = .ok A) : encodeUncompressed cc A = bs :=
  encode_decodeUncompressedUnchecked L bs A h

theorem encodeCompressed_of_decodeCompressed (L : cc.Lawful C) (bs : Bytes) (A : Aff F)
    (h : decodeCompressed cc bs = .ok A) (hy : A.infinity = false → -A.y ≠ A.y) :
    encodeCompressed cc A = bs := encode_decodeCompressed L bs A h hy

theorem encodeCompressed_of_decodeCompressedUnchecked (L : cc.Lawful C) (bs : Bytes) (A : Aff F)
    (h : decodeCompressedUnchecked cc bs = .ok A) (hy : A.infinity = false → -A.y ≠ A.y) :
    encodeCompressed cc A = bs := encode_decodeCompressedUnchecked L bs A h hy

/-- on a curve without a point of order two, in odd characteristic, no side condition on the point -/
theorem encodeCompressed_of_decodeCompressed' (L : cc.Lawful C) (h2 : (2 : F) ≠ 0)
    (hno2 : ∀ x : F, x * x * x + cc.b ≠ 0) (bs : Bytes) (A : Aff F)
    (h : decodeCompressedUnchecked cc bs = .ok A) : encodeCompressed cc A = bs :=
  encode_decodeCompressedUnchecked L bs A h (fun hf =>
    neg_ne_self_of_ne_zero h2 _ (y_ne_zero_of_onCurve hno2 A (decodeCompressedUnchecked_onCurve bs A h) hf))

/-! ### injectivity -/

theorem encodeUncompressed_injective (L : cc.Lawful C) (A B : Aff F)
    (hA : A.infinity = true → A = Aff.zero) (hB : B.infinity = true → B = Aff.zero)
    (h : encodeUncompressed cc A = encodeUncompressed cc B) : A = B :=
  PP.encodeUncompressed_injective L A B hA hB h

theorem encodeCompressed_injective (L : cc.Lawful C) (A B : Aff F)
    (hA : A.infinity = true → A = Aff.zero) (hB : B.infinity = true → B = Aff.zero)
    (hcA : Aff.isOnCurve cc.b A = true) (hcB : Aff.isOnCurve cc.b B = true)
    (h : encodeCompressed cc A = encodeCompressed cc B) : A = B :=
  PP.encodeCompressed_injective L A B hA hB hcA hcB h

/-- without the normal-form hypothesis injectivity FAILS: two different records, one string -/
theorem encode_infinity_not_injective (A : Aff F) (hA : A.infinity = true) :
    encodeCompressed cc A = encodeCompressed cc (Aff.zero : Aff F) ∧
    encodeUncompressed cc A = encodeUncompressed cc (Aff.zero : Aff F) := by
  unfold encodeCompressed encodeUncompressed
  simp [hA, Aff.zero]

end generic

/-! ### the format, read back from the spec (flags in the top three bits, coordinates untouched) -/
section readback
variable {F : Type} [Neg F]

/-- the flags of an encoding are `c` = form, `i` = infinity, `s` = (compressed, finite, `−y < y`) -/
theorem flags_encode (K : ZCash.Curve F) (hK : K.coord.Lawful) (form : Form) (A : Aff F) :
    ZCash.flags (ZCash.encode K form A) =
      ⟨form.isCompressed, A.infinity, form.isCompressed && !A.infinity && K.lt (-A.y) A.y⟩ :=
  PP.flags_encode K hK form A

/-- clearing the three flag bits of a finite point's encoding gives back the big-endian coordinates -/
theorem clearFlags_encode (K : ZCash.Curve F) (hK : K.coord.Lawful) (form : Form) (A : Aff F)
    (hf : A.infinity = false) :
    ZCash.clearFlags (ZCash.encode K form A) =
      match form with
      | .compressed => K.coord.bytes A.x
      | .uncompressed => K.coord.bytes A.x ++ K.coord.bytes A.y :=
  PP.clearFlags_encode K hK form A hf

/-- the identity is `0x40 ||| (c ? 0x80 : 0)` followed by zeros -/
theorem encode_identity (K : ZCash.Curve F) (form : Form) (A : Aff F) (hA : A.infinity = true) (n : Nat)
    (hn : form.length K.coord = n + 1) :
    ZCash.encode K form A = (if form.isCompressed then 0xc0 else 0x40) :: List.replicate n 0 := by
  unfold ZCash.encode; rw [if_pos hA]; exact identityBytes_eq K.coord form n hn

/-- the coordinate bytes: 48-byte big-endian for `Fq`; `c1` before `c0` for `Fq2` -/
theorem fqCoord_bytes_eq (a : Fq) : ZCash.fqCoord.bytes a = ZCash.I2OSP a.v 48 := rfl
theorem fq2Coord_bytes_eq (a : Fq2) : ZCash.fq2Coord.bytes a = ZCash.I2OSP a.c1.v 48 ++ ZCash.I2OSP a.c0.v 48 := rfl
theorem fqCoord_lawful : ZCash.fqCoord.Lawful := PP.fqCoord_lawful
theorem fq2Coord_lawful : ZCash.fq2Coord.Lawful := PP.fq2Coord_lawful

end readback

/-! ### G1 (48 / 96 bytes; no side condition on `y`) -/
section g1
variable [LawfulSqrtOps Fq]

theorem encodeCompressed_length_g1 (A : Aff Fq) : (encodeCompressed g1Codec A).length = 48 :=
  PP.encodeCompressed_length g1Codec_lawful A
theorem encodeUncompressed_length_g1 (A : Aff Fq) : (encodeUncompressed g1Codec A).length = 96 :=
  PP.encodeUncompressed_length g1Codec_lawful A

theorem encodeCompressed_eq_zcash_g1 (A : Aff Fq) :
    encodeCompressed g1Codec A = ZCash.encode (g1Codec.curve ZCash.fqCoord) .compressed A :=
  encodeCompressed_eq g1Codec_lawful A
theorem encodeUncompressed_eq_zcash_g1 (A : Aff Fq) :
    encodeUncompressed g1Codec A = ZCash.encode (g1Codec.curve ZCash.fqCoord) .uncompressed A :=
  encodeUncompressed_eq g1Codec_lawful A

theorem decode_encode_compressed_g1 (A : Aff Fq) (hinf : A.infinity = true → A = Aff.zero)
    (hs : Aff.inSubgroup g1Codec.b A = true) :
    decodeCompressed g1Codec (encodeCompressed g1Codec A) = .ok A :=
  decodeCompressed_encode g1Codec_lawful A hinf hs

theorem decode_encode_uncompressed_g1 (A : Aff Fq) (hinf : A.infinity = true → A = Aff.zero)
    (hs : Aff.inSubgroup g1Codec.b A = true) :
    decodeUncompressed g1Codec (encodeUncompressed g1Codec A) = .ok A :=
  decodeUncompressed_encode g1Codec_lawful A hinf (Aff.isOnCurve_of_inSubgroup _ _ hs) hs

theorem encode_decode_compressed_g1 (bs : Bytes) (A : Aff Fq) (h : decodeCompressed g1Codec bs = .ok A) :
    encodeCompressed g1Codec A = bs :=
  encodeCompressed_of_decodeCompressed' g1Codec_lawful fq_two_ne_zero g1_no_two_torsion bs A
    ((PP.decodeCompressed_ok_iff bs A).mp h).1

theorem encode_decode_compressedUnchecked_g1 (bs : Bytes) (A : Aff Fq)
    (h : decodeCompressedUnchecked g1Codec bs = .ok A) : encodeCompressed g1Codec A = bs :=
  encodeCompressed_of_decodeCompressed' g1Codec_lawful fq_two_ne_zero g1_no_two_torsion bs A h

theorem encode_decode_uncompressed_g1 (bs : Bytes) (A : Aff Fq) (h : decodeUncompressed g1Codec bs = .ok A) :
    encodeUncompressed g1Codec A = bs := encode_decodeUncompressed g1Codec_lawful bs A h

theorem encodeCompressed_injective_g1 (A B : Aff Fq)
    (hA : A.infinity = true → A = Aff.zero) (hB : B.infinity = true → B = Aff.zero)
    (hcA : Aff.isOnCurve g1Codec.b A = true) (hcB : Aff.isOnCurve g1Codec.b B = true)
    (h : encodeCompressed g1Codec A = encodeCompressed g1Codec B) : A = B :=
  PP.encodeCompressed_injective g1Codec_lawful A B hA hB hcA hcB h

theorem encodeUncompressed_injective_g1 (A B : Aff Fq)
    (hA : A.infinity = true → A = Aff.zero) (hB : B.infinity = true → B = Aff.zero)
    (h : encodeUncompressed g1Codec A = encodeUncompressed g1Codec B) : A = B :=
  PP.encodeUncompressed_injective g1Codec_lawful A B hA hB h

end g1

/-! ### G2 (96 / 192 bytes; field structure and lawful `sqrt`/`lt` of `Fq2` as instance arguments) -/
section g2
/- see the remark in `PP.Props.C04`, section g2 -/
attribute [-instance] Fq2.instAdd Fq2.instSub Fq2.instMul Fq2.instNeg Fq2.instZero Fq2.instOne
variable [Field Fq2] [LawfulFieldOps Fq2] [LawfulSqrtOps Fq2]

theorem encodeCompressed_length_g2 (A : Aff Fq2) : (encodeCompressed g2Codec A).length = 96 :=
  PP.encodeCompressed_length g2Codec_lawful A
theorem encodeUncompressed_length_g2 (A : Aff Fq2) : (encodeUncompressed g2Codec A).length = 192 :=
  PP.encodeUncompressed_length g2Codec_lawful A

theorem encodeCompressed_eq_zcash_g2 (A : Aff Fq2) :
    encodeCompressed g2Codec A = ZCash.encode (g2Codec.curve ZCash.fq2Coord) .compressed A :=
  encodeCompressed_eq g2Codec_lawful A
theorem encodeUncompressed_eq_zcash_g2 (A : Aff Fq2) :
    encodeUncompressed g2Codec A = ZCash.encode (g2Codec.curve ZCash.fq2Coord) .uncompressed A :=
  encodeUncompressed_eq g2Codec_lawful A

theorem decode_encode_compressed_g2 (A : Aff Fq2) (hinf : A.infinity = true → A = Aff.zero)
    (hs : Aff.inSubgroup g2Codec.b A = true) :
    decodeCompressed g2Codec (encodeCompressed g2Codec A) = .ok A :=
  decodeCompressed_encode g2Codec_lawful A hinf hs

theorem decode_encode_uncompressed_g2 (A : Aff Fq2) (hinf : A.infinity = true → A = Aff.zero)
    (hs : Aff.inSubgroup g2Codec.b A = true) :
    decodeUncompressed g2Codec (encodeUncompressed g2Codec A) = .ok A :=
  decodeUncompressed_encode g2Codec_lawful A hinf (Aff.isOnCurve_of_inSubgroup _ _ hs) hs

/-- PARTIAL for G2: the absence of 2-torsion on the twist (`x³ + 4(1+u)` has no root in `Fq2`) and
`2 ≠ 0` are hypotheses here (true, but their proof needs the field `Fq2`) -/
theorem encode_decode_compressed_g2_partial (h2 : (2 : Fq2) ≠ 0)
    (hno2 : ∀ x : Fq2, x * x * x + g2Codec.b ≠ 0) (bs : Bytes) (A : Aff Fq2)
    (h : decodeCompressed g2Codec bs = .ok A) : encodeCompressed g2Codec A = bs :=
  encodeCompressed_of_decodeCompressed' g2Codec_lawful h2 hno2 bs A ((PP.decodeCompressed_ok_iff bs A).mp h).1

/-- full strength for G2 with the side condition on the decoded point itself -/
theorem encode_decode_compressed_g2 (bs : Bytes) (A : Aff Fq2)
    (h : decodeCompressed g2Codec bs = .ok A) (hy : A.infinity = false → -A.y ≠ A.y) :
    encodeCompressed g2Codec A = bs := encode_decodeCompressed g2Codec_lawful bs A h hy

theorem encode_decode_uncompressed_g2 (bs : Bytes) (A : Aff Fq2) (h : decodeUncompressed g2Codec bs = .ok A) :
    encodeUncompressed g2Codec A = bs := encode_decodeUncompressed g2Codec_lawful bs A h

theorem encodeCompressed_injective_g2 (A B : Aff Fq2)
    (hA : A.infinity = true → A = Aff.zero) (hB : B.infinity = true → B = Aff.zero)
    (hcA : Aff.isOnCurve g2Codec.b A = true) (hcB : Aff.isOnCurve g2Codec.b B = true)
    (h : encodeCompressed g2Codec A = encodeCompressed g2Codec B) : A = B :=
  PP.encodeCompressed_injective g2Codec_lawful A B hA hB hcA hcB h

theorem encodeUncompressed_injective_g2 (A B : Aff Fq2)
    (hA : A.infinity = true → A = Aff.zero) (hB : B.infinity = true → B = Aff.zero)
    (h : encodeUncompressed g2Codec A = encodeUncompressed g2Codec B) : A = B :=
  PP.encodeUncompressed_injective g2Codec_lawful A B hA hB h

end g2

/-! ### non-vacuity: concrete evaluations (kernel, `decide +kernel`) -/
namespace Examples

/-- outcomes as comparable data -/
def outcome {F : Type} (r : Except DecodeErr (Aff F)) : Option DecodeErr × Option (Aff F) :=
  match r with
  | .ok a => (none, some a)
  | .error e => (some e, none)

/-- the G1 generator of the Rust source and its standard ZCash compressed encoding `97f1d3a7…c6bb` -/
def gen1 : Aff Fq := ⟨Fq.ofMont Gen.G1_GENERATOR_X, Fq.ofMont Gen.G1_GENERATOR_Y, false⟩
def gen1Bytes : Bytes := [
   0x97, 0xf1, 0xd3, 0xa7, 0x31, 0x97, 0xd7, 0x94, 0x26, 0x95, 0x63, 0x8c, 0x4f, 0xa9, 0xac, 0x0f, 0xc3, 0x68, 0x8c, 0x4f, 0x97, 0x74, 0xb9, 0x05,
   0xa1, 0x4e, 0x3a, 0x3f, 0x17, 0x1b, 0xac, 0x58, 0x6c, 0x55, 0xe8, 0x3f, 0xf9, 0x7a, 0x1a, 0xef, 0xfb, 0x3a, 0xf0, 0x0a, 0xdb, 0x22, 0xc6, 0xbb]

/-- the G2 generator and its standard ZCash compressed encoding `93e02b60…bdb8` -/
def gen2 : Aff Fq2 :=
  ⟨⟨Fq.ofMont Gen.G2_GENERATOR_X_C0, Fq.ofMont Gen.G2_GENERATOR_X_C1⟩,
   ⟨Fq.ofMont Gen.G2_GENERATOR_Y_C0, Fq.ofMont Gen.G2_GENERATOR_Y_C1⟩, false⟩
def gen2Bytes : Bytes := [
   0x93, 0xe0, 0x2b, 0x60, 0x52, 0x71, 0x9f, 0x60, 0x7d, 0xac, 0xd3, 0xa0, 0x88, 0x27, 0x4f, 0x65, 0x59, 0x6b, 0xd0, 0xd0, 0x99, 0x20, 0xb6, 0x1a,
   0xb5, 0xda, 0x61, 0xbb, 0xdc, 0x7f, 0x50, 0x49, 0x33, 0x4c, 0xf1, 0x12, 0x13, 0x94, 0x5d, 0x57, 0xe5, 0xac, 0x7d, 0x05, 0x5d, 0x04, 0x2b, 0x7e,
   0x02, 0x4a, 0xa2, 0xb2, 0xf0, 0x8f, 0x0a, 0x91, 0x26, 0x08, 0x05, 0x27, 0x2d, 0xc5, 0x10, 0x51, 0xc6, 0xe4, 0x7a, 0xd4, 0xfa, 0x40, 0x3b, 0x02,
   0xb4, 0x51, 0x0b, 0x64, 0x7a, 0xe3, 0xd1, 0x77, 0x0b, 0xac, 0x03, 0x26, 0xa8, 0x05, 0xbb, 0xef, 0xd4, 0x80, 0x56, 0xc8, 0xc1, 0x21, 0xbd, 0xb8]

-- model and spec both produce the standard encodings of the generators
example : encodeCompressed g1Codec gen1 = gen1Bytes := by decide +kernel
example : encodeCompressed g2Codec gen2 = gen2Bytes := by decide +kernel
example : ZCash.encode (g1Codec.curve ZCash.fqCoord) .compressed gen1 = gen1Bytes := by decide +kernel
example : ZCash.encode (g2Codec.curve ZCash.fq2Coord) .compressed gen2 = gen2Bytes := by decide +kernel
example : (encodeUncompressed g1Codec gen1).take 48 = 0x17 :: gen1Bytes.drop 1 := by decide +kernel
-- the negated generator: same `x` bytes, sort flag set
example : encodeCompressed g1Codec gen1.neg = 0xb7 :: gen1Bytes.drop 1 := by decide +kernel
-- identity
example : encodeCompressed g1Codec (Aff.zero : Aff Fq) = 0xc0 :: List.replicate 47 0 := by decide +kernel
example : encodeUncompressed g1Codec (Aff.zero : Aff Fq) = 0x40 :: List.replicate 95 0 := by decide +kernel
example : encodeCompressed g2Codec (Aff.zero : Aff Fq2) = 0xc0 :: List.replicate 95 0 := by decide +kernel
example : encodeUncompressed g2Codec (Aff.zero : Aff Fq2) = 0x40 :: List.replicate 191 0 := by decide +kernel

-- the hypotheses of the round-trip theorems are satisfiable (generator: finite, in the subgroup)
example [LawfulSqrtOps Fq] : decodeCompressed g1Codec (encodeCompressed g1Codec gen1) = .ok gen1 :=
  decode_encode_compressed_g1 gen1 (fun h => nomatch h) (by decide +kernel)
example [LawfulSqrtOps Fq] : decodeUncompressed g1Codec (encodeUncompressed g1Codec gen1) = .ok gen1 :=
  decode_encode_uncompressed_g1 gen1 (fun h => nomatch h) (by decide +kernel)
example [LawfulSqrtOps Fq] : decodeCompressed g1Codec (encodeCompressed g1Codec Aff.zero) = .ok Aff.zero :=
  decode_encode_compressed_g1 Aff.zero (fun _ => rfl) (by decide +kernel)

end Examples

end PP.C05
