/-
HashLen.  "The reference hash functions return digests of the nominal length for every input:
SHA-256 returns 32 bytes, SHA-512 returns 64 bytes, and SHAKE128 / SHAKE256 return exactly the
number of bytes requested."

With these four facts the output-length hypotheses (`hH`, `hH256`, `hX`) of the C13 and C06
theorems are discharged for the concrete hashes of `PP/Spec/Hash.lean`; the corollaries below are
those theorems instantiated at SHA-256, SHA-512, SHAKE128 and SHAKE256, with no hypothesis about
the hash left.  Proofs: `PP/Proofs/HashLen.lean`.
-/
import PP.Proofs.HashLen
import PP.Props.C13
import PP.Props.C06

namespace PP
namespace HashLen
open Expand

/-! ## the four length facts -/

theorem sha256_length (m : List UInt8) : (Hash.sha256 m).length = 32 := Hash.sha256_length m

theorem sha512_length (m : List UInt8) : (Hash.sha512 m).length = 64 := Hash.sha512_length m

theorem shake128_length (m : List UInt8) (n : Nat) : (Hash.shake128 m n).length = n :=
  Hash.shake128_length m n

theorem shake256_length (m : List UInt8) (n : Nat) : (Hash.shake256 m n).length = n :=
  Hash.shake256_length m n

/-- the sponge itself, for any byte rate that is a positive multiple of 8 -/
theorem keccakSponge_length (rate : Nat) (suffix : UInt8) (msg : List UInt8) (outLen : Nat)
    (hr : 8 ∣ rate) (h0 : 0 < rate) :
    (Hash.keccakSponge rate suffix msg outLen).length = outLen :=
  Hash.keccakSponge_length rate suffix msg outLen hr h0

/-- the `hH` hypothesis of C13/C06 for the two driver instantiations -/
theorem sha256H_length (x : Bytes) : (C13.sha256H.hash x).length = C13.sha256H.outSize :=
  Hash.sha256_length x

theorem sha512H_length (x : Bytes) : (C13.sha512H.hash x).length = C13.sha512H.outSize :=
  Hash.sha512_length x

variable (msg dst : Bytes) (len count : Nat)

/-! ## C13 without hash hypotheses -/

/-- `expand_message_xmd` over SHA-256 returns exactly the requested number of bytes -/
theorem expandXmd_sha256_length (hdst : dst.length ≤ 255) (hlen : len ≤ 65535) (bytes : Bytes)
    (h : expandMessageXmd C13.sha256H msg dst len = some bytes) : bytes.length = len :=
  C13.expandXmd_length C13.sha256H msg dst len (by decide) sha256H_length hdst hlen bytes h

theorem expandXmd_sha512_length (hdst : dst.length ≤ 255) (hlen : len ≤ 65535) (bytes : Bytes)
    (h : expandMessageXmd C13.sha512H msg dst len = some bytes) : bytes.length = len :=
  C13.expandXmd_length C13.sha512H msg dst len (by decide) sha512H_length hdst hlen bytes h

theorem hashToField_sha256_fq_eq_rfc (hdst : dst.length ≤ 255) (hlen : count * 64 ≤ 65535) :
    (hashToField (expandMessageXmd C13.sha256H) 64 Fq.fromOkm msg dst count).map
        (List.map Zp.coords)
      = Rfc.hash_to_field (Rfc.expand_message_xmd Hash.sha256 32 64) Gen.q 1 64 msg dst count :=
  C13.hashToField_xmd_fq_eq_rfc C13.sha256H msg dst count (by decide) sha256H_length hdst hlen

theorem hashToField_sha256_fr_eq_rfc (hdst : dst.length ≤ 255) (hlen : count * 48 ≤ 65535) :
    (hashToField (expandMessageXmd C13.sha256H) 48 Fr.fromOkm msg dst count).map
        (List.map Zp.coords)
      = Rfc.hash_to_field (Rfc.expand_message_xmd Hash.sha256 32 64) Gen.r 1 48 msg dst count :=
  C13.hashToField_xmd_fr_eq_rfc C13.sha256H msg dst count (by decide) sha256H_length hdst hlen

theorem hashToField_sha256_fq2_eq_rfc (hdst : dst.length ≤ 255) (hlen : count * 128 ≤ 65535) :
    (hashToField (expandMessageXmd C13.sha256H) 128 Fq2.fromRo msg dst count).map
        (List.map Fq2.coords)
      = Rfc.hash_to_field (Rfc.expand_message_xmd Hash.sha256 32 64) Gen.q 2 64 msg dst count :=
  C13.hashToField_xmd_fq2_eq_rfc C13.sha256H msg dst count (by decide) sha256H_length hdst hlen

theorem hashToField_sha512_fq_eq_rfc (hdst : dst.length ≤ 255) (hlen : count * 64 ≤ 65535) :
    (hashToField (expandMessageXmd C13.sha512H) 64 Fq.fromOkm msg dst count).map
        (List.map Zp.coords)
      = Rfc.hash_to_field (Rfc.expand_message_xmd Hash.sha512 64 128) Gen.q 1 64 msg dst count :=
  C13.hashToField_xmd_fq_eq_rfc C13.sha512H msg dst count (by decide) sha512H_length hdst hlen

theorem hashToField_sha512_fr_eq_rfc (hdst : dst.length ≤ 255) (hlen : count * 48 ≤ 65535) :
    (hashToField (expandMessageXmd C13.sha512H) 48 Fr.fromOkm msg dst count).map
        (List.map Zp.coords)
      = Rfc.hash_to_field (Rfc.expand_message_xmd Hash.sha512 64 128) Gen.r 1 48 msg dst count :=
  C13.hashToField_xmd_fr_eq_rfc C13.sha512H msg dst count (by decide) sha512H_length hdst hlen

theorem hashToField_sha512_fq2_eq_rfc (hdst : dst.length ≤ 255) (hlen : count * 128 ≤ 65535) :
    (hashToField (expandMessageXmd C13.sha512H) 128 Fq2.fromRo msg dst count).map
        (List.map Fq2.coords)
      = Rfc.hash_to_field (Rfc.expand_message_xmd Hash.sha512 64 128) Gen.q 2 64 msg dst count :=
  C13.hashToField_xmd_fq2_eq_rfc C13.sha512H msg dst count (by decide) sha512H_length hdst hlen

theorem hashToField_shake128_fq_eq_rfc (hdst : dst.length ≤ 255) (hlen : count * 64 ≤ 65535) :
    (hashToField (xofExpand Hash.shake128) 64 Fq.fromOkm msg dst count).map (List.map Zp.coords)
      = Rfc.hash_to_field (Rfc.expand_message_xof Hash.shake128) Gen.q 1 64 msg dst count :=
  C13.hashToField_xof_fq_eq_rfc Hash.shake128 msg dst count shake128_length hdst hlen

theorem hashToField_shake128_fr_eq_rfc (hdst : dst.length ≤ 255) (hlen : count * 48 ≤ 65535) :
    (hashToField (xofExpand Hash.shake128) 48 Fr.fromOkm msg dst count).map (List.map Zp.coords)
      = Rfc.hash_to_field (Rfc.expand_message_xof Hash.shake128) Gen.r 1 48 msg dst count :=
  C13.hashToField_xof_fr_eq_rfc Hash.shake128 msg dst count shake128_length hdst hlen

theorem hashToField_shake128_fq2_eq_rfc (hdst : dst.length ≤ 255) (hlen : count * 128 ≤ 65535) :
    (hashToField (xofExpand Hash.shake128) 128 Fq2.fromRo msg dst count).map (List.map Fq2.coords)
      = Rfc.hash_to_field (Rfc.expand_message_xof Hash.shake128) Gen.q 2 64 msg dst count :=
  C13.hashToField_xof_fq2_eq_rfc Hash.shake128 msg dst count shake128_length hdst hlen

theorem hashToField_shake256_fq_eq_rfc (hdst : dst.length ≤ 255) (hlen : count * 64 ≤ 65535) :
    (hashToField (xofExpand Hash.shake256) 64 Fq.fromOkm msg dst count).map (List.map Zp.coords)
      = Rfc.hash_to_field (Rfc.expand_message_xof Hash.shake256) Gen.q 1 64 msg dst count :=
  C13.hashToField_xof_fq_eq_rfc Hash.shake256 msg dst count shake256_length hdst hlen

theorem hashToField_shake256_fr_eq_rfc (hdst : dst.length ≤ 255) (hlen : count * 48 ≤ 65535) :
    (hashToField (xofExpand Hash.shake256) 48 Fr.fromOkm msg dst count).map (List.map Zp.coords)
      = Rfc.hash_to_field (Rfc.expand_message_xof Hash.shake256) Gen.r 1 48 msg dst count :=
  C13.hashToField_xof_fr_eq_rfc Hash.shake256 msg dst count shake256_length hdst hlen

theorem hashToField_shake256_fq2_eq_rfc (hdst : dst.length ≤ 255) (hlen : count * 128 ≤ 65535) :
    (hashToField (xofExpand Hash.shake256) 128 Fq2.fromRo msg dst count).map (List.map Fq2.coords)
      = Rfc.hash_to_field (Rfc.expand_message_xof Hash.shake256) Gen.q 2 64 msg dst count :=
  C13.hashToField_xof_fq2_eq_rfc Hash.shake256 msg dst count shake256_length hdst hlen

/-! ## C06 without hash hypotheses

The suites `BLS12381G1_XMD:SHA-256_SSWU_RO_`, `…_NU_`, `BLS12381G2_XMD:SHA-256_SSWU_RO_`, `…_NU_`:
the only remaining hypothesis is the tag length (`hdst`, see C13 for why it is needed). -/

open C06

local notation "b₁" => g1Codec.b
local notation "b₂" => g2Codec.b

theorem hashToCurveG1_sha256 (hdst : dst.length ≤ 255) :
    ∃ u0 u1 P,
      Rfc.hash_to_field (Rfc.expand_message_xmd Hash.sha256 32 64) Gen.q 1 64 msg dst 2
        = some [Zp.coords u0, Zp.coords u1] ∧
      hashToCurveG1 (expandMessageXmd C13.sha256H) msg dst = some P ∧
      Jac.OnCurve b₁ P ∧ IsHashToCurveG1 u0 u1 (Jac.abs b₁ P) :=
  C06.hashToCurveG1_sha256 msg dst sha256_length hdst

theorem encodeToCurveG1_sha256 (hdst : dst.length ≤ 255) :
    ∃ u P,
      Rfc.hash_to_field (Rfc.expand_message_xmd Hash.sha256 32 64) Gen.q 1 64 msg dst 1
        = some [Zp.coords u] ∧
      encodeToCurveG1 (expandMessageXmd C13.sha256H) msg dst = some P ∧
      Jac.OnCurve b₁ P ∧ IsEncodeToCurveG1 u (Jac.abs b₁ P) :=
  C06.encodeToCurveG1_sha256 msg dst sha256_length hdst

theorem hashToCurveG2_sha256 (hdst : dst.length ≤ 255) :
    ∃ u0 u1 P,
      Rfc.hash_to_field (Rfc.expand_message_xmd Hash.sha256 32 64) Gen.q 2 64 msg dst 2
        = some [Fq2.coords u0, Fq2.coords u1] ∧
      hashToCurveG2 (expandMessageXmd C13.sha256H) msg dst = some P ∧
      Jac.OnCurve b₂ P ∧ IsHashToCurveG2 u0 u1 (Jac.abs b₂ P) :=
  C06.hashToCurveG2_sha256 msg dst sha256_length hdst

theorem encodeToCurveG2_sha256 (hdst : dst.length ≤ 255) :
    ∃ u P,
      Rfc.hash_to_field (Rfc.expand_message_xmd Hash.sha256 32 64) Gen.q 2 64 msg dst 1
        = some [Fq2.coords u] ∧
      encodeToCurveG2 (expandMessageXmd C13.sha256H) msg dst = some P ∧
      Jac.OnCurve b₂ P ∧ IsEncodeToCurveG2 u (Jac.abs b₂ P) :=
  C06.encodeToCurveG2_sha256 msg dst sha256_length hdst

/-! ### the same four suites over SHA-512 (`ell = ceil(len / 64) ≤ 255` holds for 64/128/256 bytes) -/

theorem hashToCurveG1_sha512 (hdst : dst.length ≤ 255) :
    ∃ u0 u1 P,
      Rfc.hash_to_field (Rfc.expand_message_xmd Hash.sha512 64 128) Gen.q 1 64 msg dst 2
        = some [Zp.coords u0, Zp.coords u1] ∧
      hashToCurveG1 (expandMessageXmd C13.sha512H) msg dst = some P ∧
      Jac.OnCurve b₁ P ∧ IsHashToCurveG1 u0 u1 (Jac.abs b₁ P) :=
  C06.hashToCurveG1_xmd_total C13.sha512H msg dst (by decide) sha512H_length hdst (by decide)

theorem encodeToCurveG1_sha512 (hdst : dst.length ≤ 255) :
    ∃ u P,
      Rfc.hash_to_field (Rfc.expand_message_xmd Hash.sha512 64 128) Gen.q 1 64 msg dst 1
        = some [Zp.coords u] ∧
      encodeToCurveG1 (expandMessageXmd C13.sha512H) msg dst = some P ∧
      Jac.OnCurve b₁ P ∧ IsEncodeToCurveG1 u (Jac.abs b₁ P) :=
  C06.encodeToCurveG1_xmd_total C13.sha512H msg dst (by decide) sha512H_length hdst (by decide)

theorem hashToCurveG2_sha512 (hdst : dst.length ≤ 255) :
    ∃ u0 u1 P,
      Rfc.hash_to_field (Rfc.expand_message_xmd Hash.sha512 64 128) Gen.q 2 64 msg dst 2
        = some [Fq2.coords u0, Fq2.coords u1] ∧
      hashToCurveG2 (expandMessageXmd C13.sha512H) msg dst = some P ∧
      Jac.OnCurve b₂ P ∧ IsHashToCurveG2 u0 u1 (Jac.abs b₂ P) :=
  C06.hashToCurveG2_xmd_total C13.sha512H msg dst (by decide) sha512H_length hdst (by decide)

theorem encodeToCurveG2_sha512 (hdst : dst.length ≤ 255) :
    ∃ u P,
      Rfc.hash_to_field (Rfc.expand_message_xmd Hash.sha512 64 128) Gen.q 2 64 msg dst 1
        = some [Fq2.coords u] ∧
      encodeToCurveG2 (expandMessageXmd C13.sha512H) msg dst = some P ∧
      Jac.OnCurve b₂ P ∧ IsEncodeToCurveG2 u (Jac.abs b₂ P) :=
  C06.encodeToCurveG2_xmd_total C13.sha512H msg dst (by decide) sha512H_length hdst (by decide)

/-! ### the XOF suites over SHAKE128 / SHAKE256 -/

theorem hashToCurveG1_shake128 (hdst : dst.length ≤ 255) :
    ∃ u0 u1 P,
      Rfc.hash_to_field (Rfc.expand_message_xof Hash.shake128) Gen.q 1 64 msg dst 2
        = some [Zp.coords u0, Zp.coords u1] ∧
      hashToCurveG1 (xofExpand Hash.shake128) msg dst = some P ∧
      Jac.OnCurve b₁ P ∧ IsHashToCurveG1 u0 u1 (Jac.abs b₁ P) :=
  C06.hashToCurveG1_xof Hash.shake128 msg dst shake128_length hdst

theorem encodeToCurveG1_shake128 (hdst : dst.length ≤ 255) :
    ∃ u P,
      Rfc.hash_to_field (Rfc.expand_message_xof Hash.shake128) Gen.q 1 64 msg dst 1
        = some [Zp.coords u] ∧
      encodeToCurveG1 (xofExpand Hash.shake128) msg dst = some P ∧
      Jac.OnCurve b₁ P ∧ IsEncodeToCurveG1 u (Jac.abs b₁ P) :=
  C06.encodeToCurveG1_xof Hash.shake128 msg dst shake128_length hdst

theorem hashToCurveG2_shake128 (hdst : dst.length ≤ 255) :
    ∃ u0 u1 P,
      Rfc.hash_to_field (Rfc.expand_message_xof Hash.shake128) Gen.q 2 64 msg dst 2
        = some [Fq2.coords u0, Fq2.coords u1] ∧
      hashToCurveG2 (xofExpand Hash.shake128) msg dst = some P ∧
      Jac.OnCurve b₂ P ∧ IsHashToCurveG2 u0 u1 (Jac.abs b₂ P) :=
  C06.hashToCurveG2_xof Hash.shake128 msg dst shake128_length hdst

theorem encodeToCurveG2_shake128 (hdst : dst.length ≤ 255) :
    ∃ u P,
      Rfc.hash_to_field (Rfc.expand_message_xof Hash.shake128) Gen.q 2 64 msg dst 1
        = some [Fq2.coords u] ∧
      encodeToCurveG2 (xofExpand Hash.shake128) msg dst = some P ∧
      Jac.OnCurve b₂ P ∧ IsEncodeToCurveG2 u (Jac.abs b₂ P) :=
  C06.encodeToCurveG2_xof Hash.shake128 msg dst shake128_length hdst

theorem hashToCurveG1_shake256 (hdst : dst.length ≤ 255) :
    ∃ u0 u1 P,
      Rfc.hash_to_field (Rfc.expand_message_xof Hash.shake256) Gen.q 1 64 msg dst 2
        = some [Zp.coords u0, Zp.coords u1] ∧
      hashToCurveG1 (xofExpand Hash.shake256) msg dst = some P ∧
      Jac.OnCurve b₁ P ∧ IsHashToCurveG1 u0 u1 (Jac.abs b₁ P) :=
  C06.hashToCurveG1_xof Hash.shake256 msg dst shake256_length hdst

theorem encodeToCurveG1_shake256 (hdst : dst.length ≤ 255) :
    ∃ u P,
      Rfc.hash_to_field (Rfc.expand_message_xof Hash.shake256) Gen.q 1 64 msg dst 1
        = some [Zp.coords u] ∧
      encodeToCurveG1 (xofExpand Hash.shake256) msg dst = some P ∧
      Jac.OnCurve b₁ P ∧ IsEncodeToCurveG1 u (Jac.abs b₁ P) :=
  C06.encodeToCurveG1_xof Hash.shake256 msg dst shake256_length hdst

theorem hashToCurveG2_shake256 (hdst : dst.length ≤ 255) :
    ∃ u0 u1 P,
      Rfc.hash_to_field (Rfc.expand_message_xof Hash.shake256) Gen.q 2 64 msg dst 2
        = some [Fq2.coords u0, Fq2.coords u1] ∧
      hashToCurveG2 (xofExpand Hash.shake256) msg dst = some P ∧
      Jac.OnCurve b₂ P ∧ IsHashToCurveG2 u0 u1 (Jac.abs b₂ P) :=
  C06.hashToCurveG2_xof Hash.shake256 msg dst shake256_length hdst

theorem encodeToCurveG2_shake256 (hdst : dst.length ≤ 255) :
    ∃ u P,
      Rfc.hash_to_field (Rfc.expand_message_xof Hash.shake256) Gen.q 2 64 msg dst 1
        = some [Fq2.coords u] ∧
      encodeToCurveG2 (xofExpand Hash.shake256) msg dst = some P ∧
      Jac.OnCurve b₂ P ∧ IsEncodeToCurveG2 u (Jac.abs b₂ P) :=
  C06.encodeToCurveG2_xof Hash.shake256 msg dst shake256_length hdst

end HashLen
end PP
