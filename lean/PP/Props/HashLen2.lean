/-
HashLen2.  "The truncated SHA-2 reference hashes return digests of the nominal length for every
input: SHA-224 returns 28 bytes, SHA-384 returns 48 bytes."

These are Merkle–Damgard hashes whose block size is not twice the digest size (64/28, 128/48).
With the two length facts the output-length hypothesis `hH` of the C13 theorems is discharged for
them; the corollaries below are those theorems instantiated at SHA-224 and SHA-384 (the `XmdHash`
instances are the ones of `Driver.lean`), with no hypothesis about the hash left.
Proofs: `PP/Proofs/HashLen2.lean`.
-/
import PP.Proofs.HashLen2
import PP.Props.C13

namespace PP
namespace HashLen2
open Expand

/-! ## the two length facts -/

theorem sha224_length (m : List UInt8) : (Hash.sha224 m).length = 28 := Hash.sha224_length m

theorem sha384_length (m : List UInt8) : (Hash.sha384 m).length = 48 := Hash.sha384_length m

/-- SHA-224 / SHA-384 as the driver instantiates them -/
def sha224H : XmdHash := ⟨28, 64, Hash.sha224⟩
def sha384H : XmdHash := ⟨48, 128, Hash.sha384⟩

/-- the `hH` hypothesis of C13 for the two instantiations -/
theorem sha224H_length (x : Bytes) : (sha224H.hash x).length = sha224H.outSize :=
  Hash.sha224_length x

theorem sha384H_length (x : Bytes) : (sha384H.hash x).length = sha384H.outSize :=
  Hash.sha384_length x

variable (msg dst : Bytes) (len count : Nat)

/-! ## expand_message_xmd -/

/-- for SHA-224 the only length condition is the RFC's `ell ≤ 255`, i.e. `len ≤ 7140`; beyond it
both sides abort, so there is no length hypothesis at all -/
theorem expandXmd_sha224_eq_rfc (hdst : dst.length ≤ 255) :
    expandMessageXmd sha224H msg dst len = Rfc.expand_message_xmd Hash.sha224 28 64 msg dst len := by
  by_cases hlen : len ≤ 65535
  · exact C13.expandXmd_eq_rfc sha224H msg dst len (by decide) hdst hlen
  · have h1 : expandMessageXmd sha224H msg dst len = none :=
      (C13.expandXmd_panics_iff sha224H msg dst len).mpr (by show (len + 28 - 1) / 28 > 255; omega)
    have hc : Rfc.ceilDiv len 28 > 255 ∨ len > 65535 ∨ dst.length > 255 := by omega
    rw [h1]; unfold Rfc.expand_message_xmd; simp only [if_pos hc]

/-- for SHA-384: `ell ≤ 255` is `len ≤ 12240` -/
theorem expandXmd_sha384_eq_rfc (hdst : dst.length ≤ 255) :
    expandMessageXmd sha384H msg dst len = Rfc.expand_message_xmd Hash.sha384 48 128 msg dst len := by
  by_cases hlen : len ≤ 65535
  · exact C13.expandXmd_eq_rfc sha384H msg dst len (by decide) hdst hlen
  · have h1 : expandMessageXmd sha384H msg dst len = none :=
      (C13.expandXmd_panics_iff sha384H msg dst len).mpr (by show (len + 48 - 1) / 48 > 255; omega)
    have hc : Rfc.ceilDiv len 48 > 255 ∨ len > 65535 ∨ dst.length > 255 := by omega
    rw [h1]; unfold Rfc.expand_message_xmd; simp only [if_pos hc]

/-- the model aborts exactly when more than 255 digest-sized blocks are requested -/
theorem expandXmd_sha224_panics_iff :
    expandMessageXmd sha224H msg dst len = none ↔ len > 7140 := by
  rw [C13.expandXmd_panics_iff]; show (len + 28 - 1) / 28 > 255 ↔ _; omega

theorem expandXmd_sha384_panics_iff :
    expandMessageXmd sha384H msg dst len = none ↔ len > 12240 := by
  rw [C13.expandXmd_panics_iff]; show (len + 48 - 1) / 48 > 255 ↔ _; omega

/-- `expand_message_xmd` over SHA-224 returns exactly the requested number of bytes (no bound on
`len`: beyond 7140 it returns `none`) -/
theorem expandXmd_sha224_length (hdst : dst.length ≤ 255) (bytes : Bytes)
    (h : expandMessageXmd sha224H msg dst len = some bytes) : bytes.length = len := by
  have hlen : len ≤ 65535 := by
    have : ¬ len > 7140 := fun hc => by
      rw [(expandXmd_sha224_panics_iff msg dst len).mpr hc] at h; cases h
    omega
  exact C13.expandXmd_length sha224H msg dst len (by decide) sha224H_length hdst hlen bytes h

theorem expandXmd_sha384_length (hdst : dst.length ≤ 255) (bytes : Bytes)
    (h : expandMessageXmd sha384H msg dst len = some bytes) : bytes.length = len := by
  have hlen : len ≤ 65535 := by
    have : ¬ len > 12240 := fun hc => by
      rw [(expandXmd_sha384_panics_iff msg dst len).mpr hc] at h; cases h
    omega
  exact C13.expandXmd_length sha384H msg dst len (by decide) sha384H_length hdst hlen bytes h

/-! ## hash_to_field -/

theorem hashToField_sha224_fq_eq_rfc (hdst : dst.length ≤ 255) (hlen : count * 64 ≤ 65535) :
    (hashToField (expandMessageXmd sha224H) 64 Fq.fromOkm msg dst count).map
        (List.map Zp.coords)
      = Rfc.hash_to_field (Rfc.expand_message_xmd Hash.sha224 28 64) Gen.q 1 64 msg dst count :=
  C13.hashToField_xmd_fq_eq_rfc sha224H msg dst count (by decide) sha224H_length hdst hlen

theorem hashToField_sha224_fr_eq_rfc (hdst : dst.length ≤ 255) (hlen : count * 48 ≤ 65535) :
    (hashToField (expandMessageXmd sha224H) 48 Fr.fromOkm msg dst count).map
        (List.map Zp.coords)
      = Rfc.hash_to_field (Rfc.expand_message_xmd Hash.sha224 28 64) Gen.r 1 48 msg dst count :=
  C13.hashToField_xmd_fr_eq_rfc sha224H msg dst count (by decide) sha224H_length hdst hlen

theorem hashToField_sha224_fq2_eq_rfc (hdst : dst.length ≤ 255) (hlen : count * 128 ≤ 65535) :
    (hashToField (expandMessageXmd sha224H) 128 Fq2.fromRo msg dst count).map
        (List.map Fq2.coords)
      = Rfc.hash_to_field (Rfc.expand_message_xmd Hash.sha224 28 64) Gen.q 2 64 msg dst count :=
  C13.hashToField_xmd_fq2_eq_rfc sha224H msg dst count (by decide) sha224H_length hdst hlen

theorem hashToField_sha384_fq_eq_rfc (hdst : dst.length ≤ 255) (hlen : count * 64 ≤ 65535) :
    (hashToField (expandMessageXmd sha384H) 64 Fq.fromOkm msg dst count).map
        (List.map Zp.coords)
      = Rfc.hash_to_field (Rfc.expand_message_xmd Hash.sha384 48 128) Gen.q 1 64 msg dst count :=
  C13.hashToField_xmd_fq_eq_rfc sha384H msg dst count (by decide) sha384H_length hdst hlen

theorem hashToField_sha384_fr_eq_rfc (hdst : dst.length ≤ 255) (hlen : count * 48 ≤ 65535) :
    (hashToField (expandMessageXmd sha384H) 48 Fr.fromOkm msg dst count).map
        (List.map Zp.coords)
      = Rfc.hash_to_field (Rfc.expand_message_xmd Hash.sha384 48 128) Gen.r 1 48 msg dst count :=
  C13.hashToField_xmd_fr_eq_rfc sha384H msg dst count (by decide) sha384H_length hdst hlen

theorem hashToField_sha384_fq2_eq_rfc (hdst : dst.length ≤ 255) (hlen : count * 128 ≤ 65535) :
    (hashToField (expandMessageXmd sha384H) 128 Fq2.fromRo msg dst count).map
        (List.map Fq2.coords)
      = Rfc.hash_to_field (Rfc.expand_message_xmd Hash.sha384 48 128) Gen.q 2 64 msg dst count :=
  C13.hashToField_xmd_fq2_eq_rfc sha384H msg dst count (by decide) sha384H_length hdst hlen

end HashLen2
end PP
