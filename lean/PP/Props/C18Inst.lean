/-
C18, INSTANTIATED.  `Fq2::sqrt` (Algorithm 9 of eprint 2012/685 as implemented in fq2.rs): the
theorems of `PP/Props/C18.lean` were stated under the hypotheses `Fq2Sqrt.FieldHyp` (a `Field Fq2`
agreeing with the model's operations, Fermat's little theorem in `Fq2`, `frobenius_map(1) = (·)^q`).
They are discharged here by the tower proofs (`PP.fq2FieldHyp`): `*`, `IsSquare` below are those of
the `Field Fq2` of `PP/Proofs/Tower2.lean`, whose operations ARE the model's
(`Fq2.mul_eq : Fq2.mul a b = a * b := rfl`, etc.).  Nothing is left as a hypothesis.
-/
import PP.Proofs.Assembly

namespace PP.C18Inst

open PP

/-- a returned value is a square root -/
theorem fq2_sqrt_sound (a b : Fq2) (h : Fq2.sqrt a = some b) : b * b = a :=
  C18.fq2_sqrt_sound_of fq2FieldHyp a b h

/-- … also written with the model's multiplication function -/
theorem fq2_sqrt_sound' (a b : Fq2) (h : Fq2.sqrt a = some b) : Fq2.mul b b = a :=
  fq2_sqrt_sound a b h

/-- failure is reported exactly on non-squares -/
theorem fq2_sqrt_none_iff (a : Fq2) : Fq2.sqrt a = none ↔ ¬ IsSquare a :=
  C18.fq2_sqrt_none_iff_of fq2FieldHyp a

/-- a root of every square is returned -/
theorem fq2_sqrt_complete (a : Fq2) (h : IsSquare a) : ∃ b, Fq2.sqrt a = some b ∧ b * b = a :=
  C18.fq2_sqrt_complete_of fq2FieldHyp a h

/-- the decoder interface -/
example : LawfulSqrtOps Fq := inferInstance
example : LawfulSqrtOps Fr := inferInstance
example : LawfulSqrtOps Fq2 := inferInstance

/-- the interface's `sqrt` on `Fq2` is `Fq2.sqrt` -/
theorem sqrtOps_sqrt_fq2 (a : Fq2) : SqrtOps.sqrt a = Fq2.sqrt a := rfl

/-- `get_point_from_x` on G2 (used by the decoders) through the interface: a returned point is on
    the curve (C07's `random_candidate_inSub` and C04's decoders consume this instance) -/
theorem fq2_sqrtOps_sound (a b : Fq2) (h : SqrtOps.sqrt a = some b) : b * b = a :=
  LawfulSqrtOps.sqrt_sound a b h

end PP.C18Inst
