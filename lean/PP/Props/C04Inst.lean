/-
C04, INSTANTIATED.  The `_g1` / `_g2` theorems of `PP/Props/C04.lean` with their instance arguments
supplied by the real instances: `LawfulSqrtOps Fq` (C18), and for G2 the tower's `Field Fq2`,
`LawfulFieldOps Fq2` (C09) and `LawfulSqrtOps Fq2` (C18 + C09, `PP.instLawfulSqrtOpsFq2`).  Statements
are copied verbatim from C04 (generated); each proof is the C04 theorem.  The generic theorems of C04
(`decode…_ok_iff`, `…_error_iff`, the precedence lemmas `step1 … step5`) apply to both codecs through
`g1Codec_lawful` / `g2Codec_lawful` and these instances.  Nothing is left as a hypothesis.
-/
import PP.Props.C04
import PP.Proofs.AssemblyFq2

set_option linter.unusedSectionVars false

namespace PP.C04Inst
open PP

/-! ## G1 (the `LawfulSqrtOps Fq` instance is `PP.Proofs.Sqrt`'s, C18) -/
section g1

theorem decodeUncompressed_g1 (bs : Bytes) (hl : bs.length = 96) :
    decodeUncompressed g1Codec bs = ZCash.validate (g1Codec.curve ZCash.fqCoord) .uncompressed true bs :=
  PP.C04.decodeUncompressed_g1 bs hl

theorem decodeCompressed_g1 (bs : Bytes) (hl : bs.length = 48) :
    decodeCompressed g1Codec bs = ZCash.validate (g1Codec.curve ZCash.fqCoord) .compressed true bs :=
  PP.C04.decodeCompressed_g1 bs hl

theorem decodeUncompressedUnchecked_g1 (bs : Bytes) (hl : bs.length = 96) :
    decodeUncompressedUnchecked g1Codec bs = ZCash.validate (g1Codec.curve ZCash.fqCoord) .uncompressed false bs :=
  PP.C04.decodeUncompressedUnchecked_g1 bs hl

theorem decodeCompressedUnchecked_g1 (bs : Bytes) (hl : bs.length = 48) :
    decodeCompressedUnchecked g1Codec bs = ZCash.validate (g1Codec.curve ZCash.fqCoord) .compressed false bs :=
  PP.C04.decodeCompressedUnchecked_g1 bs hl

/-- success iff accepted by the ordered ZCash validation, and then exactly that point -/
theorem decodeCompressed_ok_iff_g1 (bs : Bytes) (hl : bs.length = 48) (A : Aff Fq) :
    decodeCompressed g1Codec bs = .ok A ↔
      ZCash.Accepts (g1Codec.curve ZCash.fqCoord) .compressed true bs A :=
  PP.C04.decodeCompressed_ok_iff g1Codec_lawful bs hl A

theorem decodeUncompressed_ok_iff_g1 (bs : Bytes) (hl : bs.length = 96) (A : Aff Fq) :
    decodeUncompressed g1Codec bs = .ok A ↔
      ZCash.Accepts (g1Codec.curve ZCash.fqCoord) .uncompressed true bs A :=
  PP.C04.decodeUncompressed_ok_iff g1Codec_lawful bs hl A


end g1

/-! ## G2, with the tower's `Field Fq2`, `LawfulFieldOps Fq2` and `instLawfulSqrtOpsFq2`

As in the source sections the model's own notation instances on `Fq2` are switched off locally, so
that `+ * - 0 1` in the statements are those of `Fq2.instField` — which are the model's operations
(`Fq2.add_eq`, `Fq2.mul_eq`, … hold by `rfl`). -/
section g2
attribute [-instance] Fq2.instAdd Fq2.instSub Fq2.instMul Fq2.instNeg Fq2.instZero Fq2.instOne

theorem decodeUncompressed_g2 (bs : Bytes) (hl : bs.length = 192) :
    decodeUncompressed g2Codec bs = ZCash.validate (g2Codec.curve ZCash.fq2Coord) .uncompressed true bs :=
  PP.C04.decodeUncompressed_g2 bs hl

theorem decodeCompressed_g2 (bs : Bytes) (hl : bs.length = 96) :
    decodeCompressed g2Codec bs = ZCash.validate (g2Codec.curve ZCash.fq2Coord) .compressed true bs :=
  PP.C04.decodeCompressed_g2 bs hl

theorem decodeUncompressedUnchecked_g2 (bs : Bytes) (hl : bs.length = 192) :
    decodeUncompressedUnchecked g2Codec bs = ZCash.validate (g2Codec.curve ZCash.fq2Coord) .uncompressed false bs :=
  PP.C04.decodeUncompressedUnchecked_g2 bs hl

theorem decodeCompressedUnchecked_g2 (bs : Bytes) (hl : bs.length = 96) :
    decodeCompressedUnchecked g2Codec bs = ZCash.validate (g2Codec.curve ZCash.fq2Coord) .compressed false bs :=
  PP.C04.decodeCompressedUnchecked_g2 bs hl

theorem decodeCompressed_ok_iff_g2 (bs : Bytes) (hl : bs.length = 96) (A : Aff Fq2) :
    decodeCompressed g2Codec bs = .ok A ↔
      ZCash.Accepts (g2Codec.curve ZCash.fq2Coord) .compressed true bs A :=
  PP.C04.decodeCompressed_ok_iff g2Codec_lawful bs hl A

theorem decodeUncompressed_ok_iff_g2 (bs : Bytes) (hl : bs.length = 192) (A : Aff Fq2) :
    decodeUncompressed g2Codec bs = .ok A ↔
      ZCash.Accepts (g2Codec.curve ZCash.fq2Coord) .uncompressed true bs A :=
  PP.C04.decodeUncompressed_ok_iff g2Codec_lawful bs hl A

end g2

end PP.C04Inst
