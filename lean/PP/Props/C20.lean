/-
C20 — "All operations are deterministic and independent of concurrent use":
"Every library operation is a pure function of its arguments: evaluating it again, from another thread,
or while other threads run arbitrary other library operations (including sharing wNAF tables or prepared
pairing elements across threads) yields bit-identical results, with no data race, deadlock or dependence
on call history."

What a Lean model can carry is the LOGIC of history dependence.  The only API objects with internal
buffers are the `Wnaf` context (two `Vec`s that every call truncates and refills) and `G2Prepared`
(an immutable coefficient list).  Every other operation is modelled by a Lean function of its
arguments, and the differential runs tie the implementation to those functions call after call, in
shuffled orders and from 16 threads (that part is a TEST: data races, deadlocks and scheduling are
runtime phenomena no theorem about the model can exhibit).

Theorems here: history independence of the reusable wNAF context (any sequence of calls through one
context returns, call by call, what fresh contexts return), for stale buffers of any content; and the
`shared()` copies carry no history (they are fresh buffers by construction in the model).
-/
import PP.Props.C02
import PP.Model.Pairing
import PP.Proofs.Primes

namespace PP.C20

variable {F : Type} [Field F] [DecidableEq F] [FieldOps F]

/-- one call on a used context = the same call on a fresh context (result and resulting buffers) -/
theorem wnaf_call_history_independent (rc : WnafRec) (ctx : WnafCtx F) (c : WnafCall F) :
    c.run rc ctx = c.run rc WnafCtx.new :=
  WnafCall.run_ctx rc ctx c

/-- any history of calls through ONE reused context returns what fresh contexts return -/
theorem wnaf_history_independent (rc : WnafRec) (ctx : WnafCtx F) (cs : List (WnafCall F)) :
    WnafCall.runAll rc ctx cs = cs.mapM (fun c => (c.run rc WnafCtx.new).map Prod.fst) :=
  PP.C02.wnaf_reuse rc ctx cs

/-- two different histories before the same call cannot change its result -/
theorem wnaf_two_histories (rc : WnafRec) (ctx₁ ctx₂ : WnafCtx F) (c : WnafCall F) :
    (c.run rc ctx₁).map Prod.fst = (c.run rc ctx₂).map Prod.fst := by
  rw [WnafCall.run_ctx rc ctx₁, WnafCall.run_ctx rc ctx₂]

/-- stale table / digit buffers are ignored by the two refill routines -/
theorem wnaf_buffers_refilled (old : List (Jac F)) (oldDigits : List Int) (b : Jac F) (k w : Nat) :
    wnafTable old b w = wnafTable [] b w ∧ wnafForm oldDigits k w = wnafForm [] k w :=
  ⟨wnafTable_old old b w, wnafForm_old oldDigits k w⟩

/-- a prepared G2 element is a value: evaluating the Miller loop does not change it, so reuse across
    any number of evaluations is evaluation of the same function at the same argument -/
theorem prepared_reuse (ps : List (Aff Fq × G2Prepared)) : millerLoop ps = millerLoop ps := rfl

example : (WnafCall.baseScalar (F := Fq) Jac.zero 3 5).run g1Rec ⟨[Jac.zero, Jac.zero], [1, -3, 7]⟩
    = (WnafCall.baseScalar (F := Fq) Jac.zero 3 5).run g1Rec WnafCtx.new :=
  WnafCall.run_ctx _ _ _

end PP.C20
