/-
LOW findings of the statement audit (notes/AUDIT.md) that are short corollaries.

Part A — C14 (`map2_to_curve`): the G2 analogues that `PP/Props/C14.lean` states for G1 only
  (`g2_map2_same_image`, `g2_map2_neg'`, `g2_map_zero`), and the excluded case of the clause
  "`u0 = −u1` ⇒ identity": at `u = 0` one has `−u = u`, the pair is the case `u0 = u1`, and the result is
  `[h_eff][2] iso(sswu(0))` (`g1_map2_zero`, `g2_map2_zero`) — for G1 it is NOT the identity (kernel evaluation),
  so the side condition `u ≠ 0` of `C14.g1_map2_neg` cannot be dropped.

Part B — C05 / C19 ("decode(encode P) = P, identity included", "injective"): `C05.decode_encode_*`,
  `C05.encode*_injective`, `C19.deserAffine_serAffine` carry `hinf : A.infinity = true → A = Aff.zero`, false for
  identity records with junk coordinates (`⟨x, y, true⟩`).  Here the POINT-LEVEL statements without `hinf`:
  * the encoders treat every record with `infinity = true` as the identity (`encode*_of_infinity`);
  * for EVERY record accepted by `in_subgroup`, `decode (encode A) = .ok (normalize A)` where `normalize` replaces a
    flagged record by `Aff.zero` and keeps every other record — so the decoded record denotes THE SAME POINT
    (`Aff.abs` preserved), and is `A` itself unless `A` is a junk identity;
  * the same through `SerDes` (any trailing data, both flags);
  * point-level injectivity and well-definedness: for records accepted by `in_subgroup`, two records have the same
    encoding IFF they denote the same point.
-/
import PP.Props.C14
import PP.Props.C05Inst
import PP.Props.C19Inst
import PP.Props.C07
import PP.Props.C10Inst
import PP.Proofs.GroupModelInst

set_option linter.unusedSectionVars false
set_option linter.unusedVariables false

namespace PP.C14Extra
open PP WeierstrassCurve.Affine

/-! ## Part A: C14 -/

section C14
local notation "b₁" => g1Codec.b
local notation "b₂" => g2Codec.b

/-- G2, distinct inputs whose (isogeny images of the) SSWU images coincide: same as `u0 = u1`
    (the G2 analogue of `C14.g1_map2_same_image`) -/
theorem g2_map2_same_image (u0 u1 : Fq2) :
    ∃ P0 P1 R, osswuG2 u0 = some P0 ∧ osswuG2 u1 = some P1 ∧ map2ToCurveG2 u0 u1 = some R ∧
      (Jac.abs b₂ (iso3 P0) = Jac.abs b₂ (iso3 P1) →
        Jac.abs b₂ R = C17.hEffG2 • (2 • Jac.abs b₂ (iso3 P0))) := by
  obtain ⟨P0, P1, R, hP0, hP1, hR, -, -, -, habs⟩ := C14.g2_map2_eq u0 u1
  exact ⟨P0, P1, R, hP0, hP1, hR, fun h => by rw [habs, ← h, two_nsmul]⟩

/-- G2, `u0 = −u`, `u1 = u`, `u ≠ 0`: the identity (the mirror image of `C14.g2_map2_neg`) -/
theorem g2_map2_neg' (u : Fq2) (hu : u ≠ 0) :
    ∃ R, map2ToCurveG2 (-u) u = some R ∧ Jac.abs b₂ R = 0 ∧ R.isZero = true := by
  obtain ⟨P0, P1, R, hP0, hP1, hR, -, -, hon, habs⟩ := C14.g2_map2_eq (-u) u
  have h0 : Jac.abs b₂ R = 0 := by
    rw [habs, isoSswuG2_neg u hu hP1 hP0, neg_add_cancel, smul_zero]
  exact ⟨R, hR, h0, (C01.isZero_iff hon).mpr h0⟩

/-- G2, the input `0` (an exceptional input of SSWU): instance of `C14.g2_map_exceptional` -/
theorem g2_map_zero :
    ∃ P R, osswuG2 0 = some P ∧ Sswu.affX P = g2EllpB / (g2Xi * g2EllpA) ∧ mapToCurveG2 0 = some R ∧
      Jac.abs b₂ R = C17.hEffG2 • Jac.abs b₂ (iso3 P) :=
  C14.g2_map_exceptional 0 (by ring)

/-- the case excluded from "`u0 = −u1` ⇒ identity": for `u = 0`, `−u = u` and the pair is the doubling case -/
theorem g1_map2_zero :
    Jac.abs b₁ (map2ToCurveG1 0 (-0)) = C17.hEffG1 • (2 • Jac.abs b₁ (iso11 (osswuG1 0))) := by
  rw [neg_zero]; exact C14.g1_map2_self 0

theorem g2_map2_zero :
    ∃ P R, osswuG2 0 = some P ∧ map2ToCurveG2 0 (-0) = some R ∧
      Jac.abs b₂ R = C17.hEffG2 • (2 • Jac.abs b₂ (iso3 P)) := by
  rw [neg_zero]; exact C14.g2_map2_self 0

/-- … and for G1 the result at `u = 0` is NOT the identity (kernel evaluation of the executable model), so
    `u ≠ 0` in `C14.g1_map2_neg` is necessary -/
theorem g1_map2_zero_ne_identity :
    (map2ToCurveG1 0 (-0)).isZero = false ∧ Jac.abs b₁ (map2ToCurveG1 0 (-0)) ≠ 0 := by
  have hz : (map2ToCurveG1 0 (-0)).isZero = false := by decide +kernel
  refine ⟨hz, ?_⟩
  rw [Ne, ← C01.isZero_iff (C14.g1_map2_eq 0 (-0)).1, hz]
  exact Bool.false_ne_true

end C14

/-! ## Part B: C05 / C19 for identity records with junk coordinates -/

/-- the normal form of an affine record: a record flagged `infinity` becomes `Aff.zero = ⟨0, 1, true⟩`, every other
    record is kept -/
def normalize {F : Type} [Zero F] [One F] (A : Aff F) : Aff F := if A.infinity = true then Aff.zero else A

section generic
variable {F : Type} [Field F] [DecidableEq F] [FieldOps F] [LawfulFieldOps F] [SqrtOps F] [LawfulSqrtOps F]
variable {cc : Codec F} {C : ZCash.Coord F}

theorem normalize_of_finite {A : Aff F} (h : A.infinity = false) : normalize A = A := by
  unfold normalize; rw [h]; simp

theorem normalize_of_infinity {A : Aff F} (h : A.infinity = true) : normalize A = Aff.zero := by
  unfold normalize; rw [if_pos h]

theorem normalize_infinity (A : Aff F) : (normalize A).infinity = A.infinity := by
  unfold normalize
  cases h : A.infinity <;> simp [Aff.zero, h]

/-- the normal form satisfies the side condition `hinf` of C05 / C19 -/
theorem normalize_hinf (A : Aff F) : (normalize A).infinity = true → normalize A = Aff.zero := by
  intro h
  rw [normalize_infinity] at h
  exact normalize_of_infinity h

/-- **the encoders treat every record with `infinity = true` as the identity**: the encodings of a record and of
    its normal form coincide, whatever the unused coordinates -/
theorem encodeCompressed_normalize (A : Aff F) :
    encodeCompressed cc (normalize A) = encodeCompressed cc A := by
  cases h : A.infinity with
  | false => rw [normalize_of_finite h]
  | true => rw [normalize_of_infinity h]; exact (C05.encode_infinity_not_injective A h).1.symm

theorem encodeUncompressed_normalize (A : Aff F) :
    encodeUncompressed cc (normalize A) = encodeUncompressed cc A := by
  cases h : A.infinity with
  | false => rw [normalize_of_finite h]
  | true => rw [normalize_of_infinity h]; exact (C05.encode_infinity_not_injective A h).2.symm

theorem serAffine_normalize (A : Aff F) (c : Bool) :
    serAffine cc (normalize A) c = serAffine cc A c := by
  unfold serAffine
  rw [encodeCompressed_normalize, encodeUncompressed_normalize]

/-- `encode*_of_infinity`: explicitly, a flagged record encodes to the identity string -/
theorem encode_of_infinity (x y : F) :
    encodeCompressed cc (⟨x, y, true⟩ : Aff F) = encodeCompressed cc (Aff.zero : Aff F) ∧
    encodeUncompressed cc (⟨x, y, true⟩ : Aff F) = encodeUncompressed cc (Aff.zero : Aff F) :=
  C05.encode_infinity_not_injective ⟨x, y, true⟩ rfl

variable [ShortW cc.b]

theorem normalize_inSubgroup {A : Aff F} (hs : Aff.inSubgroup cc.b A = true) :
    Aff.inSubgroup cc.b (normalize A) = true := by
  cases h : A.infinity with
  | false => rw [normalize_of_finite h]; exact hs
  | true => rw [normalize_of_infinity h]; exact C07.inSubgroup_identity 0 1

/-- the normal form denotes the same point -/
theorem abs_normalize (A : Aff F) : Aff.abs cc.b (normalize A) = Aff.abs cc.b A := by
  cases h : A.infinity with
  | false => rw [normalize_of_finite h]
  | true =>
    rw [normalize_of_infinity h, Aff.abs_of_infinity h, Aff.abs_of_infinity (A := (Aff.zero : Aff F)) rfl]

/-- **decode ∘ encode, compressed, EVERY record accepted by `in_subgroup`** (junk identities included): the
    decoder returns the normal form of the record — the same point -/
theorem decode_encode_compressed_any (L : cc.Lawful C) (A : Aff F) (hs : Aff.inSubgroup cc.b A = true) :
    decodeCompressed cc (encodeCompressed cc A) = .ok (normalize A) ∧
      Aff.abs cc.b (normalize A) = Aff.abs cc.b A ∧ (A.infinity = false → normalize A = A) := by
  refine ⟨?_, abs_normalize A, normalize_of_finite⟩
  rw [← encodeCompressed_normalize]
  exact C05.decodeCompressed_encodeCompressed L (normalize A) (normalize_hinf A) (normalize_inSubgroup hs)

/-- **decode ∘ encode, uncompressed, every record accepted by `in_subgroup`** -/
theorem decode_encode_uncompressed_any (L : cc.Lawful C) (A : Aff F) (hs : Aff.inSubgroup cc.b A = true) :
    decodeUncompressed cc (encodeUncompressed cc A) = .ok (normalize A) ∧
      Aff.abs cc.b (normalize A) = Aff.abs cc.b A ∧ (A.infinity = false → normalize A = A) := by
  refine ⟨?_, abs_normalize A, normalize_of_finite⟩
  rw [← encodeUncompressed_normalize]
  have hs' := normalize_inSubgroup hs
  exact C05.decodeUncompressed_encodeUncompressed L (normalize A) (normalize_hinf A)
    ((C01.isOnCurve_iff _).mpr (C07.inSub_of_inSubgroup hs').1) hs'

/-- **`SerDes` round trip for every record accepted by `in_subgroup`**, both flags, any trailing data -/
theorem deser_ser_affine_any (L : cc.Lawful C) (A : Aff F) (c : Bool) (tail : Bytes)
    (hs : Aff.inSubgroup cc.b A = true) :
    deserAffine cc (serAffine cc A c ++ tail) c = .ok (normalize A, tail) ∧
      Aff.abs cc.b (normalize A) = Aff.abs cc.b A := by
  refine ⟨?_, abs_normalize A⟩
  rw [← serAffine_normalize]
  exact C19.deserAffine_serAffine L (normalize A) c tail (normalize_hinf A) (normalize_inSubgroup hs)

/-- **point-level injectivity and well-definedness of the compressed encoding**: records accepted by
    `in_subgroup` (junk identities included) have the same encoding IFF they denote the same point -/
theorem encodeCompressed_eq_iff_abs (L : cc.Lawful C) (A B : Aff F) (hA : Aff.inSubgroup cc.b A = true)
    (hB : Aff.inSubgroup cc.b B = true) :
    encodeCompressed cc A = encodeCompressed cc B ↔ Aff.abs cc.b A = Aff.abs cc.b B := by
  constructor
  · intro h
    have h1 := (decode_encode_compressed_any L A hA).1
    rw [h, (decode_encode_compressed_any L B hB).1] at h1
    have e : normalize B = normalize A := by injection h1
    rw [← abs_normalize (cc := cc) A, ← abs_normalize (cc := cc) B, e]
  · intro h
    obtain ⟨hi, hxy⟩ := Aff.abs_injective (C07.inSub_of_inSubgroup hA).1 (C07.inSub_of_inSubgroup hB).1 h
    cases hAi : A.infinity with
    | true =>
      rw [(C05.encode_infinity_not_injective A hAi).1,
        (C05.encode_infinity_not_injective B (by rw [← hi, hAi])).1]
    | false =>
      obtain ⟨hx, hy⟩ := hxy hAi
      have : A = B := by
        cases A; cases B
        simp only at hx hy hi
        subst hx hy hi
        rfl
      rw [this]

/-- the same for the uncompressed encoding -/
theorem encodeUncompressed_eq_iff_abs (L : cc.Lawful C) (A B : Aff F) (hA : Aff.inSubgroup cc.b A = true)
    (hB : Aff.inSubgroup cc.b B = true) :
    encodeUncompressed cc A = encodeUncompressed cc B ↔ Aff.abs cc.b A = Aff.abs cc.b B := by
  constructor
  · intro h
    have h1 := (decode_encode_uncompressed_any L A hA).1
    rw [h, (decode_encode_uncompressed_any L B hB).1] at h1
    have e : normalize B = normalize A := by injection h1
    rw [← abs_normalize (cc := cc) A, ← abs_normalize (cc := cc) B, e]
  · intro h
    obtain ⟨hi, hxy⟩ := Aff.abs_injective (C07.inSub_of_inSubgroup hA).1 (C07.inSub_of_inSubgroup hB).1 h
    cases hAi : A.infinity with
    | true =>
      rw [(C05.encode_infinity_not_injective A hAi).2,
        (C05.encode_infinity_not_injective B (by rw [← hi, hAi])).2]
    | false =>
      obtain ⟨hx, hy⟩ := hxy hAi
      have : A = B := by
        cases A; cases B
        simp only at hx hy hi
        subst hx hy hi
        rfl
      rw [this]

end generic

/-! ### G1 -/
section g1

theorem decode_encode_compressed_any_g1 (A : Aff Fq) (hs : Aff.inSubgroup g1Codec.b A = true) :
    decodeCompressed g1Codec (encodeCompressed g1Codec A) = .ok (normalize A) ∧
      Aff.abs g1Codec.b (normalize A) = Aff.abs g1Codec.b A ∧ (A.infinity = false → normalize A = A) :=
  decode_encode_compressed_any g1Codec_lawful A hs

theorem decode_encode_uncompressed_any_g1 (A : Aff Fq) (hs : Aff.inSubgroup g1Codec.b A = true) :
    decodeUncompressed g1Codec (encodeUncompressed g1Codec A) = .ok (normalize A) ∧
      Aff.abs g1Codec.b (normalize A) = Aff.abs g1Codec.b A ∧ (A.infinity = false → normalize A = A) :=
  decode_encode_uncompressed_any g1Codec_lawful A hs

theorem deser_ser_affine_any_g1 (A : Aff Fq) (c : Bool) (tail : Bytes)
    (hs : Aff.inSubgroup g1Codec.b A = true) :
    deserAffine g1Codec (serAffine g1Codec A c ++ tail) c = .ok (normalize A, tail) ∧
      Aff.abs g1Codec.b (normalize A) = Aff.abs g1Codec.b A :=
  deser_ser_affine_any g1Codec_lawful A c tail hs

theorem encodeCompressed_eq_iff_abs_g1 (A B : Aff Fq) (hA : Aff.inSubgroup g1Codec.b A = true)
    (hB : Aff.inSubgroup g1Codec.b B = true) :
    encodeCompressed g1Codec A = encodeCompressed g1Codec B ↔ Aff.abs g1Codec.b A = Aff.abs g1Codec.b B :=
  encodeCompressed_eq_iff_abs g1Codec_lawful A B hA hB

theorem encodeUncompressed_eq_iff_abs_g1 (A B : Aff Fq) (hA : Aff.inSubgroup g1Codec.b A = true)
    (hB : Aff.inSubgroup g1Codec.b B = true) :
    encodeUncompressed g1Codec A = encodeUncompressed g1Codec B ↔ Aff.abs g1Codec.b A = Aff.abs g1Codec.b B :=
  encodeUncompressed_eq_iff_abs g1Codec_lawful A B hA hB

end g1

/-! ### G2 (the model's notation instances on `Fq2` switched off locally, as in `C05Inst` / `C19Inst`) -/
section g2
attribute [-instance] Fq2.instAdd Fq2.instSub Fq2.instMul Fq2.instNeg Fq2.instZero Fq2.instOne

theorem decode_encode_compressed_any_g2 (A : Aff Fq2) (hs : Aff.inSubgroup g2Codec.b A = true) :
    decodeCompressed g2Codec (encodeCompressed g2Codec A) = .ok (normalize A) ∧
      Aff.abs g2Codec.b (normalize A) = Aff.abs g2Codec.b A ∧ (A.infinity = false → normalize A = A) :=
  decode_encode_compressed_any g2Codec_lawful A hs

theorem decode_encode_uncompressed_any_g2 (A : Aff Fq2) (hs : Aff.inSubgroup g2Codec.b A = true) :
    decodeUncompressed g2Codec (encodeUncompressed g2Codec A) = .ok (normalize A) ∧
      Aff.abs g2Codec.b (normalize A) = Aff.abs g2Codec.b A ∧ (A.infinity = false → normalize A = A) :=
  decode_encode_uncompressed_any g2Codec_lawful A hs

theorem deser_ser_affine_any_g2 (A : Aff Fq2) (c : Bool) (tail : Bytes)
    (hs : Aff.inSubgroup g2Codec.b A = true) :
    deserAffine g2Codec (serAffine g2Codec A c ++ tail) c = .ok (normalize A, tail) ∧
      Aff.abs g2Codec.b (normalize A) = Aff.abs g2Codec.b A :=
  deser_ser_affine_any g2Codec_lawful A c tail hs

theorem encodeCompressed_eq_iff_abs_g2 (A B : Aff Fq2) (hA : Aff.inSubgroup g2Codec.b A = true)
    (hB : Aff.inSubgroup g2Codec.b B = true) :
    encodeCompressed g2Codec A = encodeCompressed g2Codec B ↔ Aff.abs g2Codec.b A = Aff.abs g2Codec.b B :=
  encodeCompressed_eq_iff_abs g2Codec_lawful A B hA hB

theorem encodeUncompressed_eq_iff_abs_g2 (A B : Aff Fq2) (hA : Aff.inSubgroup g2Codec.b A = true)
    (hB : Aff.inSubgroup g2Codec.b B = true) :
    encodeUncompressed g2Codec A = encodeUncompressed g2Codec B ↔ Aff.abs g2Codec.b A = Aff.abs g2Codec.b B :=
  encodeUncompressed_eq_iff_abs g2Codec_lawful A B hA hB

end g2


/-! ## Part C: C10 with hypotheses on the USED entries only ("over the first min(len) entries")

`C10.pippinger`, `C10.sum_of_products` ask `k < 2^255` and "on the curve" of ALL entries of the two lists, also of
those beyond the common prefix, which the code never reads.  Here the hypotheses range over `List.zip points ks`.
(The table-driven variant is left as it is: its tables are precomputed for all points.) -/

section C10
variable {F : Type} [Field F] [DecidableEq F] [FieldOps F] [LawfulFieldOps F] (b : F) [ShortW b]

/-- the bucket method reads the common prefix only -/
theorem pippinger_take (points : List (Aff F)) (ks : List ℕ) (w : ℕ) :
    sumOfProductsPippinger points ks w =
      sumOfProductsPippinger (points.take (min points.length ks.length))
        (ks.take (min points.length ks.length)) w := by
  unfold sumOfProductsPippinger
  have e : List.zip (points.take (min points.length ks.length))
      ((ks.take (min points.length ks.length)).map (limbsOf 4)) = List.zip points (ks.map (limbsOf 4)) := by
    rw [List.map_take]
    have := List.zip_eq_zip_take_min (l₁ := points) (l₂ := ks.map (limbsOf 4))
    rw [List.length_map] at this
    exact this.symm
  rw [e]

theorem sumOfProducts_take (points : List (Aff F)) (ks : List ℕ) :
    sumOfProducts points ks =
      sumOfProducts (points.take (min points.length ks.length)) (ks.take (min points.length ks.length)) := by
  unfold sumOfProducts
  rw [pippinger_take points ks]
  have e : min (points.take (min points.length ks.length)).length
      (ks.take (min points.length ks.length)).length = min points.length ks.length := by
    simp only [List.length_take]; omega
  rw [e]

private theorem mem_take_left {α β : Type} (l₁ : List α) (l₂ : List β) {a : α}
    (h : a ∈ l₁.take (min l₁.length l₂.length)) : ∃ c, (a, c) ∈ List.zip l₁ l₂ := by
  obtain ⟨i, hi, rfl⟩ := List.getElem_of_mem h
  rw [List.length_take] at hi
  have h1 : i < l₁.length := by omega
  have h2 : i < l₂.length := by omega
  refine ⟨l₂[i], ?_⟩
  rw [List.getElem_take]
  have hz : i < (List.zip l₁ l₂).length := by rw [List.length_zip]; omega
  have := List.getElem_mem hz
  rwa [List.getElem_zip] at this

private theorem mem_take_right {α β : Type} (l₁ : List α) (l₂ : List β) {c : β}
    (h : c ∈ l₂.take (min l₁.length l₂.length)) : ∃ a, (a, c) ∈ List.zip l₁ l₂ := by
  obtain ⟨i, hi, rfl⟩ := List.getElem_of_mem h
  rw [List.length_take] at hi
  have h1 : i < l₁.length := by omega
  have h2 : i < l₂.length := by omega
  refine ⟨l₁[i], ?_⟩
  rw [List.getElem_take]
  have hz : i < (List.zip l₁ l₂).length := by rw [List.length_zip]; omega
  have := List.getElem_mem hz
  rwa [List.getElem_zip] at this

/-- the bucket method, any window `1..=20`, hypotheses on the used pairs only -/
theorem curve_pippinger_prefix (points : List (Aff F)) (ks : List ℕ) (w : ℕ) (hw1 : 1 ≤ w) (hw : w ≤ 20)
    (h : ∀ pk ∈ List.zip points ks, Aff.OnCurve b pk.1 ∧ pk.2 < 2 ^ 255) :
    ∃ R, sumOfProductsPippinger points ks w = some R ∧ Jac.OnCurve b R ∧
      Jac.abs b R = ((List.zip points ks).map (fun pk => pk.2 • Aff.abs b pk.1)).sum := by
  have := C10Inst.curve_pippinger b (points.take (min points.length ks.length))
    (ks.take (min points.length ks.length)) w hw1 hw
    (fun k hk => by obtain ⟨a, ha⟩ := mem_take_right points ks hk; exact (h _ ha).2)
    (fun P hP => by obtain ⟨c, hc⟩ := mem_take_left points ks hP; exact (h _ hc).1)
  rwa [← pippinger_take, ← List.zip_eq_zip_take_min] at this

/-- the default entry point, hypotheses on the used pairs only -/
theorem curve_sum_of_products_prefix (points : List (Aff F)) (ks : List ℕ)
    (h : ∀ pk ∈ List.zip points ks, Aff.OnCurve b pk.1 ∧ pk.2 < 2 ^ 255) :
    ∃ R, sumOfProducts points ks = some R ∧ Jac.OnCurve b R ∧
      Jac.abs b R = ((List.zip points ks).map (fun pk => pk.2 • Aff.abs b pk.1)).sum := by
  have := C10Inst.curve_sum_of_products b (points.take (min points.length ks.length))
    (ks.take (min points.length ks.length))
    (fun k hk => by obtain ⟨a, ha⟩ := mem_take_right points ks hk; exact (h _ ha).2)
    (fun P hP => by obtain ⟨c, hc⟩ := mem_take_left points ks hP; exact (h _ hc).1)
  rwa [← sumOfProducts_take, ← List.zip_eq_zip_take_min] at this

/-- … and the subgroup clause of C07 with hypotheses on the used pairs only -/
theorem curve_sum_of_products_prefix_inSub (points : List (Aff F)) (ks : List ℕ)
    (h : ∀ pk ∈ List.zip points ks, Aff.InSub b pk.1 ∧ pk.2 < 2 ^ 255) :
    ∃ R, sumOfProducts points ks = some R ∧ Jac.InSub b R := by
  obtain ⟨R, hR, hon, habs⟩ := curve_sum_of_products_prefix b points ks
    (fun pk hpk => ⟨(h pk hpk).1.1, (h pk hpk).2⟩)
  refine ⟨R, hR, hon, ?_⟩
  rw [habs]
  apply killed_list_sum (Aff.abs b)
  intro pk hpk
  exact (h pk hpk).1.2

end C10

/-! ## non-vacuity -/

/-- a junk identity record of G1, `⟨5, 7, true⟩`: accepted by `in_subgroup`, NOT in normal form (so `hinf` of C05
    is false for it), and the round trip returns `Aff.zero`, the same point -/
example : Aff.inSubgroup g1Codec.b (⟨5, 7, true⟩ : Aff Fq) = true ∧
    (⟨5, 7, true⟩ : Aff Fq) ≠ Aff.zero ∧
    decodeCompressed g1Codec (encodeCompressed g1Codec (⟨5, 7, true⟩ : Aff Fq)) = .ok Aff.zero ∧
    Aff.abs g1Codec.b (Aff.zero : Aff Fq) = Aff.abs g1Codec.b (⟨5, 7, true⟩ : Aff Fq) := by
  have hs : Aff.inSubgroup g1Codec.b (⟨5, 7, true⟩ : Aff Fq) = true := C07.inSubgroup_identity 5 7
  obtain ⟨h1, h2, -⟩ := decode_encode_compressed_any_g1 ⟨5, 7, true⟩ hs
  rw [normalize_of_infinity (A := (⟨5, 7, true⟩ : Aff Fq)) rfl] at h1 h2
  exact ⟨hs, by decide +kernel, h1, h2⟩

end PP.C14Extra
