/-
C16, INSTANTIATED.  The `iso3_*` theorems of `PP/Props/C16.lean` take the field structure of `Fq2`
as an instance argument together with an agreement witness `Iso.Fq2FieldAgrees`; here they are
stated with the tower's `Field Fq2` (`PP/Proofs/Tower2.lean`, built on the model's operations) and
the witness `PP.fq2FieldAgrees = ⟨rfl, rfl, rfl, rfl, rfl⟩`.  (The `iso11_*` theorems never had a
hypothesis.)  Added: the statement at the level of denoted points, `abs_iso11`, `abs_iso3`
(`isoMapPoint` is the RFC's `iso_map`: rational map, identity on the poles).

The homomorphism law of the two isogenies is proved in PP/Props/C16Hom.lean and PP/Props/C16Hom11.lean.
-/
import PP.Proofs.Assembly

namespace PP.C16Inst

open PP IsoPoly Iso

theorem iso3_affine (p : Jac Fq2) (hz : p.z ≠ 0)
    (hxd : evalP iso3XDen (p.x / p.z ^ 2) ≠ 0) (hyd : evalP iso3YDen (p.x / p.z ^ 2) ≠ 0) :
    (iso3 p).z ≠ 0 ∧
    (iso3 p).x / (iso3 p).z ^ 2 =
      evalP iso3XNum (p.x / p.z ^ 2) / evalP iso3XDen (p.x / p.z ^ 2) ∧
    (iso3 p).y / (iso3 p).z ^ 3 =
      (p.y / p.z ^ 3) * evalP iso3YNum (p.x / p.z ^ 2) / evalP iso3YDen (p.x / p.z ^ 2) :=
  C16.iso3_affine fq2FieldAgrees p hz hxd hyd

theorem iso3_identity (p : Jac Fq2) (h : p.isZero = true) : (iso3 p).isZero = true :=
  C16.iso3_identity fq2FieldAgrees p h

theorem iso3_kernel (p : Jac Fq2) (hz : p.isZero = false)
    (h : evalP iso3XDen (p.x / p.z ^ 2) = 0 ∨ evalP iso3YDen (p.x / p.z ^ 2) = 0) :
    (iso3 p).isZero = true := C16.iso3_kernel fq2FieldAgrees p hz h

theorem iso3_isZero_iff (p : Jac Fq2) :
    (iso3 p).isZero = true ↔
      p.isZero = true ∨ evalP iso3XDen (p.x / p.z ^ 2) = 0 ∨ evalP iso3YDen (p.x / p.z ^ 2) = 0 :=
  C16.iso3_isZero_iff fq2FieldAgrees p

theorem iso3_isZero_iff_ker (p : Jac Fq2) :
    (iso3 p).isZero = true ↔ p.isZero = true ∨ evalP iso3Ker (p.x / p.z ^ 2) = 0 :=
  C16.iso3_isZero_iff_ker fq2FieldAgrees p

theorem iso3_neg (p : Jac Fq2) : iso3 p.neg = (iso3 p).neg := C16.iso3_neg fq2FieldAgrees p

theorem iso3_homogeneous (p : Jac Fq2) (l : Fq2) :
    iso3 ⟨l ^ 2 * p.x, l ^ 3 * p.y, l * p.z⟩ =
      ⟨(l ^ 15) ^ 2 * (iso3 p).x, (l ^ 15) ^ 3 * (iso3 p).y, l ^ 15 * (iso3 p).z⟩ :=
  C16.iso3_homogeneous fq2FieldAgrees p l

theorem iso3_homogeneous_affine (p : Jac Fq2) (l : Fq2) (hl : l ≠ 0) :
    ((iso3 ⟨l ^ 2 * p.x, l ^ 3 * p.y, l * p.z⟩).z = 0 ↔ (iso3 p).z = 0) ∧
    (iso3 ⟨l ^ 2 * p.x, l ^ 3 * p.y, l * p.z⟩).x / (iso3 ⟨l ^ 2 * p.x, l ^ 3 * p.y, l * p.z⟩).z ^ 2 =
      (iso3 p).x / (iso3 p).z ^ 2 ∧
    (iso3 ⟨l ^ 2 * p.x, l ^ 3 * p.y, l * p.z⟩).y / (iso3 ⟨l ^ 2 * p.x, l ^ 3 * p.y, l * p.z⟩).z ^ 3 =
      (iso3 p).y / (iso3 p).z ^ 3 :=
  C16.iso3_homogeneous_affine fq2FieldAgrees p l hl

theorem iso3_onCurve (p : Jac Fq2)
    (hp : p.z = 0 ∨ p.y ^ 2 = p.x ^ 3 + g2EllpA * p.x * p.z ^ 4 + g2EllpB * p.z ^ 6) :
    (iso3 p).y ^ 2 = (iso3 p).x ^ 3 + g2Codec.b * (iso3 p).z ^ 6 :=
  C16.iso3_onCurve fq2FieldAgrees p hp

/-! ## in terms of the C01 abstraction -/

/-- points of `E₁'` go to points of `E₁` -/
theorem iso11_jac_onCurve (p : Jac Fq)
    (hp : p.z = 0 ∨ p.y ^ 2 = p.x ^ 3 + g1EllpA * p.x * p.z ^ 4 + g1EllpB * p.z ^ 6) :
    Jac.OnCurve g1Codec.b (iso11 p) := iso11_onCurve' p hp

/-- points of `E₂'` go to points of `E₂` -/
theorem iso3_jac_onCurve (p : Jac Fq2)
    (hp : p.z = 0 ∨ p.y ^ 2 = p.x ^ 3 + g2EllpA * p.x * p.z ^ 4 + g2EllpB * p.z ^ 6) :
    Jac.OnCurve g2Codec.b (iso3 p) := iso3_onCurve' p hp

/-- `iso11` computes the RFC's `iso_map` on every finite point of `E₁'` -/
theorem abs_iso11 (p : Jac Fq) (hz : p.z ≠ 0)
    (hp : p.y ^ 2 = p.x ^ 3 + g1EllpA * p.x * p.z ^ 4 + g1EllpB * p.z ^ 6) :
    Jac.abs g1Codec.b (iso11 p) =
      isoMapPoint g1Codec.b iso11XNum iso11XDen iso11YNum iso11YDen (p.x / p.z ^ 2) (p.y / p.z ^ 3) :=
  abs_iso11_eq p hz hp

/-- `iso3` computes the RFC's `iso_map` on every finite point of `E₂'` -/
theorem abs_iso3 (p : Jac Fq2) (hz : p.z ≠ 0)
    (hp : p.y ^ 2 = p.x ^ 3 + g2EllpA * p.x * p.z ^ 4 + g2EllpB * p.z ^ 6) :
    Jac.abs g2Codec.b (iso3 p) =
      isoMapPoint g2Codec.b iso3XNum iso3XDen iso3YNum iso3YDen (p.x / p.z ^ 2) (p.y / p.z ^ 3) :=
  abs_iso3_eq p hz hp

/-- the identity of `E'` goes to the identity of `E` -/
theorem abs_iso11_zero (p : Jac Fq) (hz : p.z = 0) : Jac.abs g1Codec.b (iso11 p) = 0 :=
  Jac.abs_of_z_eq_zero ((jac_isZero_iff _).mp (C16.iso11_identity p ((jac_isZero_iff p).mpr hz)))

theorem abs_iso3_zero (p : Jac Fq2) (hz : p.z = 0) : Jac.abs g2Codec.b (iso3 p) = 0 :=
  Jac.abs_of_z_eq_zero ((jac_isZero_iff _).mp (iso3_identity p ((jac_isZero_iff p).mpr hz)))

/-- compatibility with negation, at the level of points -/
theorem abs_iso11_neg (p : Jac Fq)
    (hp : p.z = 0 ∨ p.y ^ 2 = p.x ^ 3 + g1EllpA * p.x * p.z ^ 4 + g1EllpB * p.z ^ 6) :
    Jac.abs g1Codec.b (iso11 p.neg) = -Jac.abs g1Codec.b (iso11 p) := by
  rw [C16.iso11_neg, C01.neg_correct (iso11_onCurve' p hp)]

theorem abs_iso3_neg (p : Jac Fq2)
    (hp : p.z = 0 ∨ p.y ^ 2 = p.x ^ 3 + g2EllpA * p.x * p.z ^ 4 + g2EllpB * p.z ^ 6) :
    Jac.abs g2Codec.b (iso3 p.neg) = -Jac.abs g2Codec.b (iso3 p) := by
  rw [iso3_neg, C01.neg_correct (iso3_onCurve' p hp)]

end PP.C16Inst
