/-
C02, INSTANTIATED.  The theorems of `PP/Props/C02.lean` are relative to a `GroupModel`; here they are
restated with the interface discharged by the C01 instance (`curveModel b`, `g1Model`, `g2Model` of
`PP/Proofs/GroupModelInst.lean`): "valid" is `Jac.OnCurve b` / `Aff.OnCurve b` (the curve equation,
or the identity), the denoted point is `Jac.abs b` / `Aff.abs b` in Mathlib's group `(W b).Point`
of `y² = x³ + b`.  No hypothesis is left except "the inputs are points of the curve" and the
documented ranges of `k` and `w`.  Generated from one template for (any curve, G1, G2); every proof
is the corresponding C02 theorem at the concrete model.
(`C02.wnaf_form`, `wnaf_form_wraps`, `wnaf_call_fresh`, `wnaf_reuse`, `recommended_for_*` do not
mention the group model: they apply to G1 and G2 as they are.)
-/
import PP.Props.C02
import PP.Proofs.GroupModelInst

namespace PP.C02Inst

open PP

/-! ## any curve `y² = x³ + b` over any field with lawful model operations -/

section generic
variable {F : Type} [Field F] [DecidableEq F] [FieldOps F] [LawfulFieldOps F] (b : F) [ShortW b]

/-- affine `mul`, every 256-bit `k` -/
theorem curve_affine_mul (A : Aff F) (hA : Aff.OnCurve b A) (k : ℕ) (hk : k < 2 ^ 256) :
    Jac.OnCurve b (A.mul k) ∧ Jac.abs b (A.mul k) = k • Aff.abs b A :=
  C02.affine_mul (curveModel b) A hA k hk

/-- `mul_bits` over an arbitrary MSB-first bit string -/
theorem curve_affine_mulBits (A : Aff F) (hA : Aff.OnCurve b A) (bits : List Bool) :
    Jac.OnCurve b (A.mulBits bits) ∧
      Jac.abs b (A.mulBits bits) = ofBitsMSB bits • Aff.abs b A :=
  C02.affine_mulBits (curveModel b) A hA bits

/-- projective `mul_assign`, every 256-bit `k` -/
theorem curve_projective_mul (P : Jac F) (hP : Jac.OnCurve b P) (k : ℕ) (hk : k < 2 ^ 256) :
    Jac.OnCurve b (P.mulAssign k) ∧ Jac.abs b (P.mulAssign k) = k • Jac.abs b P :=
  C02.projective_mul (curveModel b) P hP k hk

/-- without the bound: `k mod 2^256` -/
theorem curve_affine_mul_mod (A : Aff F) (hA : Aff.OnCurve b A) (k : ℕ) :
    Jac.abs b (A.mul k) = (k % 2 ^ 256) • Aff.abs b A :=
  C02.affine_mul_mod (curveModel b) A hA k

/-- `precomp_3` never panics and returns `[2^64·A, 2^128·A, 2^192·A]` -/
theorem curve_precomp3_table (A : Aff F) (hA : Aff.OnCurve b A) :
    ∃ a1 a2 a3, A.precomp3 = some [a1, a2, a3] ∧
      (Aff.OnCurve b a1 ∧ Aff.abs b a1 = 2 ^ 64 • Aff.abs b A) ∧
      (Aff.OnCurve b a2 ∧ Aff.abs b a2 = 2 ^ 128 • Aff.abs b A) ∧
      (Aff.OnCurve b a3 ∧ Aff.abs b a3 = 2 ^ 192 • Aff.abs b A) :=
  C02.precomp3_table (curveModel b) A hA

/-- `mul_precomp_3` with the table of `precomp_3`, every 256-bit `k` -/
theorem curve_precomp3_mul (A : Aff F) (hA : Aff.OnCurve b A) (k : ℕ) (hk : k < 2 ^ 256) :
    ∃ pre, A.precomp3 = some pre ∧
      ∃ R, A.mulPrecomp3 k pre = some R ∧ Jac.OnCurve b R ∧ Jac.abs b R = k • Aff.abs b A :=
  C02.precomp3_mul (curveModel b) A hA k hk

/-- `precomp_256` never panics and returns the documented 256-entry table -/
theorem curve_precomp256_table (A : Aff F) (hA : Aff.OnCurve b A) :
    ∃ pre, A.precomp256 = some pre ∧ pre.length = 256 ∧
      ∀ i < 256, ∃ e, pre[i]? = some e ∧ Aff.OnCurve b e ∧
        Aff.abs b e = spread 32 8 i • Aff.abs b A :=
  C02.precomp256_table (curveModel b) A hA

/-- `mul_precomp_256` with the table of `precomp_256`, every 256-bit `k` -/
theorem curve_precomp256_mul (A : Aff F) (hA : Aff.OnCurve b A) (k : ℕ) (hk : k < 2 ^ 256) :
    ∃ pre, A.precomp256 = some pre ∧
      ∃ R, A.mulPrecomp256 k pre.toArray = some R ∧ Jac.OnCurve b R ∧
        Jac.abs b R = k • Aff.abs b A :=
  C02.precomp256_mul (curveModel b) A hA k hk

/-- windowed NAF, any window `2..=22`, `k < 2^255`: no panic, result `[k]P` -/
theorem curve_wnaf_mul (P : Jac F) (hP : Jac.OnCurve b P) (k w : ℕ) (hw2 : 2 ≤ w) (hw : w ≤ 22)
    (hk : k < 2 ^ 255) :
    ∃ R, (do let f ← wnafForm [] k w; wnafExp (wnafTable [] P w) f) = some R ∧
      Jac.OnCurve b R ∧ Jac.abs b R = k • Jac.abs b P :=
  C02.wnaf_mul (curveModel b) P hP k w hw2 hw hk

/-- staging order "base then scalar", on any used context -/
theorem curve_wnaf_base_then_scalar (rc : WnafRec) (hrc : rc = g1Rec ∨ rc = g2Rec)
    (ctx : WnafCtx F) (P : Jac F) (hP : Jac.OnCurve b P) (n k : ℕ) (hk : k < 2 ^ 255) :
    ∃ R ctx', WnafCtx.baseThenScalar rc ctx P n k = some (R, ctx') ∧
      Jac.OnCurve b R ∧ Jac.abs b R = k • Jac.abs b P :=
  C02.wnaf_base_then_scalar (curveModel b) rc hrc ctx P hP n k hk

/-- staging order "scalar then base", on any used context -/
theorem curve_wnaf_scalar_then_base (rc : WnafRec) (hrc : rc = g1Rec ∨ rc = g2Rec)
    (ctx : WnafCtx F) (P : Jac F) (hP : Jac.OnCurve b P) (k : ℕ) (hk : k < 2 ^ 255) :
    ∃ R ctx', WnafCtx.scalarThenBase rc ctx k P = some (R, ctx') ∧
      Jac.OnCurve b R ∧ Jac.abs b R = k • Jac.abs b P :=
  C02.wnaf_scalar_then_base (curveModel b) rc hrc ctx P hP k hk

/-- for `k < 2^255` every multiplication path returns, without panicking, a representative of the
    same group element `[k]A` -/
theorem curve_all_paths_agree (A : Aff F) (hA : Aff.OnCurve b A) (k w : ℕ) (hw2 : 2 ≤ w)
    (hw : w ≤ 22) (hk : k < 2 ^ 255) (rc : WnafRec) (hrc : rc = g1Rec ∨ rc = g2Rec)
    (ctx : WnafCtx F) (n : ℕ) :
    ∃ pre3 pre256 R3 R256 Rw Rbs Rsb ctx1 ctx2,
      A.precomp3 = some pre3 ∧ A.mulPrecomp3 k pre3 = some R3 ∧
      A.precomp256 = some pre256 ∧ A.mulPrecomp256 k pre256.toArray = some R256 ∧
      (do let f ← wnafForm [] k w; wnafExp (wnafTable [] A.toJac w) f) = some Rw ∧
      WnafCtx.baseThenScalar rc ctx A.toJac n k = some (Rbs, ctx1) ∧
      WnafCtx.scalarThenBase rc ctx k A.toJac = some (Rsb, ctx2) ∧
      Jac.abs b (A.mul k) = k • Aff.abs b A ∧
      Jac.abs b (A.toJac.mulAssign k) = k • Aff.abs b A ∧
      Jac.abs b R3 = k • Aff.abs b A ∧ Jac.abs b R256 = k • Aff.abs b A ∧
      Jac.abs b Rw = k • Aff.abs b A ∧ Jac.abs b Rbs = k • Aff.abs b A ∧
      Jac.abs b Rsb = k • Aff.abs b A :=
  C02.all_paths_agree (curveModel b) A hA k w hw2 hw hk rc hrc ctx n

end generic

/-! ## G1: `E(Fq)`, `y² = x³ + 4` (`g1Codec.b = 4`, `PP.g1Codec_b`) -/

/-- affine `mul`, every 256-bit `k` -/
theorem g1_affine_mul (A : Aff Fq) (hA : Aff.OnCurve g1Codec.b A) (k : ℕ) (hk : k < 2 ^ 256) :
    Jac.OnCurve g1Codec.b (A.mul k) ∧ Jac.abs g1Codec.b (A.mul k) = k • Aff.abs g1Codec.b A :=
  C02.affine_mul g1Model A hA k hk

/-- `mul_bits` over an arbitrary MSB-first bit string -/
theorem g1_affine_mulBits (A : Aff Fq) (hA : Aff.OnCurve g1Codec.b A) (bits : List Bool) :
    Jac.OnCurve g1Codec.b (A.mulBits bits) ∧
      Jac.abs g1Codec.b (A.mulBits bits) = ofBitsMSB bits • Aff.abs g1Codec.b A :=
  C02.affine_mulBits g1Model A hA bits

/-- projective `mul_assign`, every 256-bit `k` -/
theorem g1_projective_mul (P : Jac Fq) (hP : Jac.OnCurve g1Codec.b P) (k : ℕ) (hk : k < 2 ^ 256) :
    Jac.OnCurve g1Codec.b (P.mulAssign k) ∧ Jac.abs g1Codec.b (P.mulAssign k) = k • Jac.abs g1Codec.b P :=
  C02.projective_mul g1Model P hP k hk

/-- without the bound: `k mod 2^256` -/
theorem g1_affine_mul_mod (A : Aff Fq) (hA : Aff.OnCurve g1Codec.b A) (k : ℕ) :
    Jac.abs g1Codec.b (A.mul k) = (k % 2 ^ 256) • Aff.abs g1Codec.b A :=
  C02.affine_mul_mod g1Model A hA k

/-- `precomp_3` never panics and returns `[2^64·A, 2^128·A, 2^192·A]` -/
theorem g1_precomp3_table (A : Aff Fq) (hA : Aff.OnCurve g1Codec.b A) :
    ∃ a1 a2 a3, A.precomp3 = some [a1, a2, a3] ∧
      (Aff.OnCurve g1Codec.b a1 ∧ Aff.abs g1Codec.b a1 = 2 ^ 64 • Aff.abs g1Codec.b A) ∧
      (Aff.OnCurve g1Codec.b a2 ∧ Aff.abs g1Codec.b a2 = 2 ^ 128 • Aff.abs g1Codec.b A) ∧
      (Aff.OnCurve g1Codec.b a3 ∧ Aff.abs g1Codec.b a3 = 2 ^ 192 • Aff.abs g1Codec.b A) :=
  C02.precomp3_table g1Model A hA

/-- `mul_precomp_3` with the table of `precomp_3`, every 256-bit `k` -/
theorem g1_precomp3_mul (A : Aff Fq) (hA : Aff.OnCurve g1Codec.b A) (k : ℕ) (hk : k < 2 ^ 256) :
    ∃ pre, A.precomp3 = some pre ∧
      ∃ R, A.mulPrecomp3 k pre = some R ∧ Jac.OnCurve g1Codec.b R ∧ Jac.abs g1Codec.b R = k • Aff.abs g1Codec.b A :=
  C02.precomp3_mul g1Model A hA k hk

/-- `precomp_256` never panics and returns the documented 256-entry table -/
theorem g1_precomp256_table (A : Aff Fq) (hA : Aff.OnCurve g1Codec.b A) :
    ∃ pre, A.precomp256 = some pre ∧ pre.length = 256 ∧
      ∀ i < 256, ∃ e, pre[i]? = some e ∧ Aff.OnCurve g1Codec.b e ∧
        Aff.abs g1Codec.b e = spread 32 8 i • Aff.abs g1Codec.b A :=
  C02.precomp256_table g1Model A hA

/-- `mul_precomp_256` with the table of `precomp_256`, every 256-bit `k` -/
theorem g1_precomp256_mul (A : Aff Fq) (hA : Aff.OnCurve g1Codec.b A) (k : ℕ) (hk : k < 2 ^ 256) :
    ∃ pre, A.precomp256 = some pre ∧
      ∃ R, A.mulPrecomp256 k pre.toArray = some R ∧ Jac.OnCurve g1Codec.b R ∧
        Jac.abs g1Codec.b R = k • Aff.abs g1Codec.b A :=
  C02.precomp256_mul g1Model A hA k hk

/-- windowed NAF, any window `2..=22`, `k < 2^255`: no panic, result `[k]P` -/
theorem g1_wnaf_mul (P : Jac Fq) (hP : Jac.OnCurve g1Codec.b P) (k w : ℕ) (hw2 : 2 ≤ w) (hw : w ≤ 22)
    (hk : k < 2 ^ 255) :
    ∃ R, (do let f ← wnafForm [] k w; wnafExp (wnafTable [] P w) f) = some R ∧
      Jac.OnCurve g1Codec.b R ∧ Jac.abs g1Codec.b R = k • Jac.abs g1Codec.b P :=
  C02.wnaf_mul g1Model P hP k w hw2 hw hk

/-- staging order "base then scalar", on any used context -/
theorem g1_wnaf_base_then_scalar (rc : WnafRec) (hrc : rc = g1Rec ∨ rc = g2Rec)
    (ctx : WnafCtx Fq) (P : Jac Fq) (hP : Jac.OnCurve g1Codec.b P) (n k : ℕ) (hk : k < 2 ^ 255) :
    ∃ R ctx', WnafCtx.baseThenScalar rc ctx P n k = some (R, ctx') ∧
      Jac.OnCurve g1Codec.b R ∧ Jac.abs g1Codec.b R = k • Jac.abs g1Codec.b P :=
  C02.wnaf_base_then_scalar g1Model rc hrc ctx P hP n k hk

/-- staging order "scalar then base", on any used context -/
theorem g1_wnaf_scalar_then_base (rc : WnafRec) (hrc : rc = g1Rec ∨ rc = g2Rec)
    (ctx : WnafCtx Fq) (P : Jac Fq) (hP : Jac.OnCurve g1Codec.b P) (k : ℕ) (hk : k < 2 ^ 255) :
    ∃ R ctx', WnafCtx.scalarThenBase rc ctx k P = some (R, ctx') ∧
      Jac.OnCurve g1Codec.b R ∧ Jac.abs g1Codec.b R = k • Jac.abs g1Codec.b P :=
  C02.wnaf_scalar_then_base g1Model rc hrc ctx P hP k hk

/-- for `k < 2^255` every multiplication path returns, without panicking, a representative of the
    same group element `[k]A` -/
theorem g1_all_paths_agree (A : Aff Fq) (hA : Aff.OnCurve g1Codec.b A) (k w : ℕ) (hw2 : 2 ≤ w)
    (hw : w ≤ 22) (hk : k < 2 ^ 255) (rc : WnafRec) (hrc : rc = g1Rec ∨ rc = g2Rec)
    (ctx : WnafCtx Fq) (n : ℕ) :
    ∃ pre3 pre256 R3 R256 Rw Rbs Rsb ctx1 ctx2,
      A.precomp3 = some pre3 ∧ A.mulPrecomp3 k pre3 = some R3 ∧
      A.precomp256 = some pre256 ∧ A.mulPrecomp256 k pre256.toArray = some R256 ∧
      (do let f ← wnafForm [] k w; wnafExp (wnafTable [] A.toJac w) f) = some Rw ∧
      WnafCtx.baseThenScalar rc ctx A.toJac n k = some (Rbs, ctx1) ∧
      WnafCtx.scalarThenBase rc ctx k A.toJac = some (Rsb, ctx2) ∧
      Jac.abs g1Codec.b (A.mul k) = k • Aff.abs g1Codec.b A ∧
      Jac.abs g1Codec.b (A.toJac.mulAssign k) = k • Aff.abs g1Codec.b A ∧
      Jac.abs g1Codec.b R3 = k • Aff.abs g1Codec.b A ∧ Jac.abs g1Codec.b R256 = k • Aff.abs g1Codec.b A ∧
      Jac.abs g1Codec.b Rw = k • Aff.abs g1Codec.b A ∧ Jac.abs g1Codec.b Rbs = k • Aff.abs g1Codec.b A ∧
      Jac.abs g1Codec.b Rsb = k • Aff.abs g1Codec.b A :=
  C02.all_paths_agree g1Model A hA k w hw2 hw hk rc hrc ctx n

/-! ## G2: `E'(Fq2)`, `y² = x³ + 4(1+u)` (`g2Codec.b`, `PP.g2Codec_b`) -/

/-- affine `mul`, every 256-bit `k` -/
theorem g2_affine_mul (A : Aff Fq2) (hA : Aff.OnCurve g2Codec.b A) (k : ℕ) (hk : k < 2 ^ 256) :
    Jac.OnCurve g2Codec.b (A.mul k) ∧ Jac.abs g2Codec.b (A.mul k) = k • Aff.abs g2Codec.b A :=
  C02.affine_mul g2Model A hA k hk

/-- `mul_bits` over an arbitrary MSB-first bit string -/
theorem g2_affine_mulBits (A : Aff Fq2) (hA : Aff.OnCurve g2Codec.b A) (bits : List Bool) :
    Jac.OnCurve g2Codec.b (A.mulBits bits) ∧
      Jac.abs g2Codec.b (A.mulBits bits) = ofBitsMSB bits • Aff.abs g2Codec.b A :=
  C02.affine_mulBits g2Model A hA bits

/-- projective `mul_assign`, every 256-bit `k` -/
theorem g2_projective_mul (P : Jac Fq2) (hP : Jac.OnCurve g2Codec.b P) (k : ℕ) (hk : k < 2 ^ 256) :
    Jac.OnCurve g2Codec.b (P.mulAssign k) ∧ Jac.abs g2Codec.b (P.mulAssign k) = k • Jac.abs g2Codec.b P :=
  C02.projective_mul g2Model P hP k hk

/-- without the bound: `k mod 2^256` -/
theorem g2_affine_mul_mod (A : Aff Fq2) (hA : Aff.OnCurve g2Codec.b A) (k : ℕ) :
    Jac.abs g2Codec.b (A.mul k) = (k % 2 ^ 256) • Aff.abs g2Codec.b A :=
  C02.affine_mul_mod g2Model A hA k

/-- `precomp_3` never panics and returns `[2^64·A, 2^128·A, 2^192·A]` -/
theorem g2_precomp3_table (A : Aff Fq2) (hA : Aff.OnCurve g2Codec.b A) :
    ∃ a1 a2 a3, A.precomp3 = some [a1, a2, a3] ∧
      (Aff.OnCurve g2Codec.b a1 ∧ Aff.abs g2Codec.b a1 = 2 ^ 64 • Aff.abs g2Codec.b A) ∧
      (Aff.OnCurve g2Codec.b a2 ∧ Aff.abs g2Codec.b a2 = 2 ^ 128 • Aff.abs g2Codec.b A) ∧
      (Aff.OnCurve g2Codec.b a3 ∧ Aff.abs g2Codec.b a3 = 2 ^ 192 • Aff.abs g2Codec.b A) :=
  C02.precomp3_table g2Model A hA

/-- `mul_precomp_3` with the table of `precomp_3`, every 256-bit `k` -/
theorem g2_precomp3_mul (A : Aff Fq2) (hA : Aff.OnCurve g2Codec.b A) (k : ℕ) (hk : k < 2 ^ 256) :
    ∃ pre, A.precomp3 = some pre ∧
      ∃ R, A.mulPrecomp3 k pre = some R ∧ Jac.OnCurve g2Codec.b R ∧ Jac.abs g2Codec.b R = k • Aff.abs g2Codec.b A :=
  C02.precomp3_mul g2Model A hA k hk

/-- `precomp_256` never panics and returns the documented 256-entry table -/
theorem g2_precomp256_table (A : Aff Fq2) (hA : Aff.OnCurve g2Codec.b A) :
    ∃ pre, A.precomp256 = some pre ∧ pre.length = 256 ∧
      ∀ i < 256, ∃ e, pre[i]? = some e ∧ Aff.OnCurve g2Codec.b e ∧
        Aff.abs g2Codec.b e = spread 32 8 i • Aff.abs g2Codec.b A :=
  C02.precomp256_table g2Model A hA

/-- `mul_precomp_256` with the table of `precomp_256`, every 256-bit `k` -/
theorem g2_precomp256_mul (A : Aff Fq2) (hA : Aff.OnCurve g2Codec.b A) (k : ℕ) (hk : k < 2 ^ 256) :
    ∃ pre, A.precomp256 = some pre ∧
      ∃ R, A.mulPrecomp256 k pre.toArray = some R ∧ Jac.OnCurve g2Codec.b R ∧
        Jac.abs g2Codec.b R = k • Aff.abs g2Codec.b A :=
  C02.precomp256_mul g2Model A hA k hk

/-- windowed NAF, any window `2..=22`, `k < 2^255`: no panic, result `[k]P` -/
theorem g2_wnaf_mul (P : Jac Fq2) (hP : Jac.OnCurve g2Codec.b P) (k w : ℕ) (hw2 : 2 ≤ w) (hw : w ≤ 22)
    (hk : k < 2 ^ 255) :
    ∃ R, (do let f ← wnafForm [] k w; wnafExp (wnafTable [] P w) f) = some R ∧
      Jac.OnCurve g2Codec.b R ∧ Jac.abs g2Codec.b R = k • Jac.abs g2Codec.b P :=
  C02.wnaf_mul g2Model P hP k w hw2 hw hk

/-- staging order "base then scalar", on any used context -/
theorem g2_wnaf_base_then_scalar (rc : WnafRec) (hrc : rc = g1Rec ∨ rc = g2Rec)
    (ctx : WnafCtx Fq2) (P : Jac Fq2) (hP : Jac.OnCurve g2Codec.b P) (n k : ℕ) (hk : k < 2 ^ 255) :
    ∃ R ctx', WnafCtx.baseThenScalar rc ctx P n k = some (R, ctx') ∧
      Jac.OnCurve g2Codec.b R ∧ Jac.abs g2Codec.b R = k • Jac.abs g2Codec.b P :=
  C02.wnaf_base_then_scalar g2Model rc hrc ctx P hP n k hk

/-- staging order "scalar then base", on any used context -/
theorem g2_wnaf_scalar_then_base (rc : WnafRec) (hrc : rc = g1Rec ∨ rc = g2Rec)
    (ctx : WnafCtx Fq2) (P : Jac Fq2) (hP : Jac.OnCurve g2Codec.b P) (k : ℕ) (hk : k < 2 ^ 255) :
    ∃ R ctx', WnafCtx.scalarThenBase rc ctx k P = some (R, ctx') ∧
      Jac.OnCurve g2Codec.b R ∧ Jac.abs g2Codec.b R = k • Jac.abs g2Codec.b P :=
  C02.wnaf_scalar_then_base g2Model rc hrc ctx P hP k hk

/-- for `k < 2^255` every multiplication path returns, without panicking, a representative of the
    same group element `[k]A` -/
theorem g2_all_paths_agree (A : Aff Fq2) (hA : Aff.OnCurve g2Codec.b A) (k w : ℕ) (hw2 : 2 ≤ w)
    (hw : w ≤ 22) (hk : k < 2 ^ 255) (rc : WnafRec) (hrc : rc = g1Rec ∨ rc = g2Rec)
    (ctx : WnafCtx Fq2) (n : ℕ) :
    ∃ pre3 pre256 R3 R256 Rw Rbs Rsb ctx1 ctx2,
      A.precomp3 = some pre3 ∧ A.mulPrecomp3 k pre3 = some R3 ∧
      A.precomp256 = some pre256 ∧ A.mulPrecomp256 k pre256.toArray = some R256 ∧
      (do let f ← wnafForm [] k w; wnafExp (wnafTable [] A.toJac w) f) = some Rw ∧
      WnafCtx.baseThenScalar rc ctx A.toJac n k = some (Rbs, ctx1) ∧
      WnafCtx.scalarThenBase rc ctx k A.toJac = some (Rsb, ctx2) ∧
      Jac.abs g2Codec.b (A.mul k) = k • Aff.abs g2Codec.b A ∧
      Jac.abs g2Codec.b (A.toJac.mulAssign k) = k • Aff.abs g2Codec.b A ∧
      Jac.abs g2Codec.b R3 = k • Aff.abs g2Codec.b A ∧ Jac.abs g2Codec.b R256 = k • Aff.abs g2Codec.b A ∧
      Jac.abs g2Codec.b Rw = k • Aff.abs g2Codec.b A ∧ Jac.abs g2Codec.b Rbs = k • Aff.abs g2Codec.b A ∧
      Jac.abs g2Codec.b Rsb = k • Aff.abs g2Codec.b A :=
  C02.all_paths_agree g2Model A hA k w hw2 hw hk rc hrc ctx n

end PP.C02Inst
