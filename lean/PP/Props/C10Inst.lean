/-
C10, INSTANTIATED.  The theorems of `PP/Props/C10.lean` with the `GroupModel` interface discharged by
the C01 instance (`curveModel b`, `g1Model`, `g2Model`): "valid" is `Aff.OnCurve b` / `Jac.OnCurve b`,
the expected result `Σ [k_i]P_i` is `((zip points ks).map fun pk => pk.2 • Aff.abs b pk.1).sum` in
Mathlib's group `(W b).Point`.  Generated from one template for (any curve, G1, G2); every proof is
the corresponding C10 theorem at the concrete model.  The special inputs of C10 (`empty_points`,
`repeated_point`, `inverse_points`, `identity_point`, `zero_scalar`) are instances of
`…sum_of_products`; the pure-`Nat` facts (`window_range`, `digit_spec`, …) do not mention the model.
-/
import PP.Props.C10
import PP.Props.C07
import PP.Proofs.GroupModelInst

namespace PP.C10Inst

open PP

/-! ## any curve `y² = x³ + b` over any field with lawful model operations -/

section generic
variable {F : Type} [Field F] [DecidableEq F] [FieldOps F] [LawfulFieldOps F] (b : F) [ShortW b]

/-- the bucket method, any window `1..=20`, lists of any (also different) lengths -/
theorem curve_pippinger (points : List (Aff F)) (ks : List ℕ) (w : ℕ) (hw1 : 1 ≤ w) (hw : w ≤ 20)
    (hk : ∀ k ∈ ks, k < 2 ^ 255) (hP : ∀ P ∈ points, Aff.OnCurve b P) :
    ∃ R, sumOfProductsPippinger points ks w = some R ∧ Jac.OnCurve b R ∧
      Jac.abs b R = ((List.zip points ks).map (fun pk => pk.2 • Aff.abs b pk.1)).sum :=
  C10.pippinger (curveModel b) points ks w hw1 hw hk hP

/-- the default entry point (window chosen by the size heuristic) -/
theorem curve_sum_of_products (points : List (Aff F)) (ks : List ℕ)
    (hk : ∀ k ∈ ks, k < 2 ^ 255) (hP : ∀ P ∈ points, Aff.OnCurve b P) :
    ∃ R, sumOfProducts points ks = some R ∧ Jac.OnCurve b R ∧
      Jac.abs b R = ((List.zip points ks).map (fun pk => pk.2 • Aff.abs b pk.1)).sum :=
  C10.sum_of_products (curveModel b) points ks hk hP

/-- the table-driven variant with the tables of `precomp_256`; every `k < 2^256` -/
theorem curve_sum_of_products_precomp256 (points : List (Aff F)) (ks : List ℕ)
    (hk : ∀ k ∈ ks, k < 2 ^ 256) (hP : ∀ P ∈ points, Aff.OnCurve b P) :
    ∃ tables, points.mapM Aff.precomp256 = some tables ∧
      ∃ R, sumOfProductsPrecomp256 points ks tables.flatten.toArray = some R ∧ Jac.OnCurve b R ∧
        Jac.abs b R = ((List.zip points ks).map (fun pk => pk.2 • Aff.abs b pk.1)).sum :=
  C10.sum_of_products_precomp256 (curveModel b) points ks hk hP

/-- all three agree -/
theorem curve_all_agree (points : List (Aff F)) (ks : List ℕ) (w : ℕ) (hw1 : 1 ≤ w) (hw : w ≤ 20)
    (hk : ∀ k ∈ ks, k < 2 ^ 255) (hP : ∀ P ∈ points, Aff.OnCurve b P) :
    ∃ R1 R2 R3 tables,
      sumOfProducts points ks = some R1 ∧ sumOfProductsPippinger points ks w = some R2 ∧
      points.mapM Aff.precomp256 = some tables ∧
      sumOfProductsPrecomp256 points ks tables.flatten.toArray = some R3 ∧
      Jac.abs b R1 = ((List.zip points ks).map (fun pk => pk.2 • Aff.abs b pk.1)).sum ∧
      Jac.abs b R2 = ((List.zip points ks).map (fun pk => pk.2 • Aff.abs b pk.1)).sum ∧
      Jac.abs b R3 = ((List.zip points ks).map (fun pk => pk.2 • Aff.abs b pk.1)).sum :=
  C10.all_agree (curveModel b) points ks w hw1 hw hk hP

/-- exactly the scalars with bit 255 set make the bucket method panic -/
theorem curve_pippinger_panics_iff (points : List (Aff F)) (ks : List ℕ) (w : ℕ) (hw1 : 1 ≤ w)
    (hw : w ≤ 20) (hk : ∀ k ∈ ks, k < 2 ^ 256) (hP : ∀ P ∈ points, Aff.OnCurve b P) :
    sumOfProductsPippinger points ks w = none ↔ ∃ pk ∈ List.zip points ks, 2 ^ 255 ≤ pk.2 :=
  C10.pippinger_panics_iff (curveModel b) points ks w hw1 hw hk hP

theorem curve_sum_of_products_panics_iff (points : List (Aff F)) (ks : List ℕ)
    (hk : ∀ k ∈ ks, k < 2 ^ 256) (hP : ∀ P ∈ points, Aff.OnCurve b P) :
    sumOfProducts points ks = none ↔ ∃ pk ∈ List.zip points ks, 2 ^ 255 ≤ pk.2 :=
  C10.sum_of_products_panics_iff (curveModel b) points ks hk hP

/-- the result of an MSM over subgroup points lies in the subgroup (with C07) -/
theorem curve_sum_of_products_inSub (points : List (Aff F)) (ks : List ℕ)
    (hk : ∀ k ∈ ks, k < 2 ^ 255) (hP : ∀ P ∈ points, Aff.InSub b P) :
    ∃ R, sumOfProducts points ks = some R ∧ Jac.InSub b R := by
  obtain ⟨R, hR, hon, habs⟩ := curve_sum_of_products b points ks hk (fun P hPm => (hP P hPm).1)
  exact ⟨R, hR, C07.msm_result_inSub hP hon habs⟩

end generic

/-! ## G1: `E(Fq)`, `y² = x³ + 4` (`g1Codec.b = 4`, `PP.g1Codec_b`) -/

/-- the bucket method, any window `1..=20`, lists of any (also different) lengths -/
theorem g1_pippinger (points : List (Aff Fq)) (ks : List ℕ) (w : ℕ) (hw1 : 1 ≤ w) (hw : w ≤ 20)
    (hk : ∀ k ∈ ks, k < 2 ^ 255) (hP : ∀ P ∈ points, Aff.OnCurve g1Codec.b P) :
    ∃ R, sumOfProductsPippinger points ks w = some R ∧ Jac.OnCurve g1Codec.b R ∧
      Jac.abs g1Codec.b R = ((List.zip points ks).map (fun pk => pk.2 • Aff.abs g1Codec.b pk.1)).sum :=
  C10.pippinger g1Model points ks w hw1 hw hk hP

/-- the default entry point (window chosen by the size heuristic) -/
theorem g1_sum_of_products (points : List (Aff Fq)) (ks : List ℕ)
    (hk : ∀ k ∈ ks, k < 2 ^ 255) (hP : ∀ P ∈ points, Aff.OnCurve g1Codec.b P) :
    ∃ R, sumOfProducts points ks = some R ∧ Jac.OnCurve g1Codec.b R ∧
      Jac.abs g1Codec.b R = ((List.zip points ks).map (fun pk => pk.2 • Aff.abs g1Codec.b pk.1)).sum :=
  C10.sum_of_products g1Model points ks hk hP

/-- the table-driven variant with the tables of `precomp_256`; every `k < 2^256` -/
theorem g1_sum_of_products_precomp256 (points : List (Aff Fq)) (ks : List ℕ)
    (hk : ∀ k ∈ ks, k < 2 ^ 256) (hP : ∀ P ∈ points, Aff.OnCurve g1Codec.b P) :
    ∃ tables, points.mapM Aff.precomp256 = some tables ∧
      ∃ R, sumOfProductsPrecomp256 points ks tables.flatten.toArray = some R ∧ Jac.OnCurve g1Codec.b R ∧
        Jac.abs g1Codec.b R = ((List.zip points ks).map (fun pk => pk.2 • Aff.abs g1Codec.b pk.1)).sum :=
  C10.sum_of_products_precomp256 g1Model points ks hk hP

/-- all three agree -/
theorem g1_all_agree (points : List (Aff Fq)) (ks : List ℕ) (w : ℕ) (hw1 : 1 ≤ w) (hw : w ≤ 20)
    (hk : ∀ k ∈ ks, k < 2 ^ 255) (hP : ∀ P ∈ points, Aff.OnCurve g1Codec.b P) :
    ∃ R1 R2 R3 tables,
      sumOfProducts points ks = some R1 ∧ sumOfProductsPippinger points ks w = some R2 ∧
      points.mapM Aff.precomp256 = some tables ∧
      sumOfProductsPrecomp256 points ks tables.flatten.toArray = some R3 ∧
      Jac.abs g1Codec.b R1 = ((List.zip points ks).map (fun pk => pk.2 • Aff.abs g1Codec.b pk.1)).sum ∧
      Jac.abs g1Codec.b R2 = ((List.zip points ks).map (fun pk => pk.2 • Aff.abs g1Codec.b pk.1)).sum ∧
      Jac.abs g1Codec.b R3 = ((List.zip points ks).map (fun pk => pk.2 • Aff.abs g1Codec.b pk.1)).sum :=
  C10.all_agree g1Model points ks w hw1 hw hk hP

/-- exactly the scalars with bit 255 set make the bucket method panic -/
theorem g1_pippinger_panics_iff (points : List (Aff Fq)) (ks : List ℕ) (w : ℕ) (hw1 : 1 ≤ w)
    (hw : w ≤ 20) (hk : ∀ k ∈ ks, k < 2 ^ 256) (hP : ∀ P ∈ points, Aff.OnCurve g1Codec.b P) :
    sumOfProductsPippinger points ks w = none ↔ ∃ pk ∈ List.zip points ks, 2 ^ 255 ≤ pk.2 :=
  C10.pippinger_panics_iff g1Model points ks w hw1 hw hk hP

theorem g1_sum_of_products_panics_iff (points : List (Aff Fq)) (ks : List ℕ)
    (hk : ∀ k ∈ ks, k < 2 ^ 256) (hP : ∀ P ∈ points, Aff.OnCurve g1Codec.b P) :
    sumOfProducts points ks = none ↔ ∃ pk ∈ List.zip points ks, 2 ^ 255 ≤ pk.2 :=
  C10.sum_of_products_panics_iff g1Model points ks hk hP

/-- the result of an MSM over subgroup points lies in the subgroup (with C07) -/
theorem g1_sum_of_products_inSub (points : List (Aff Fq)) (ks : List ℕ)
    (hk : ∀ k ∈ ks, k < 2 ^ 255) (hP : ∀ P ∈ points, Aff.InSub g1Codec.b P) :
    ∃ R, sumOfProducts points ks = some R ∧ Jac.InSub g1Codec.b R := by
  obtain ⟨R, hR, hon, habs⟩ := g1_sum_of_products points ks hk (fun P hPm => (hP P hPm).1)
  exact ⟨R, hR, C07.msm_result_inSub hP hon habs⟩

/-! ## G2: `E'(Fq2)`, `y² = x³ + 4(1+u)` (`g2Codec.b`, `PP.g2Codec_b`) -/

/-- the bucket method, any window `1..=20`, lists of any (also different) lengths -/
theorem g2_pippinger (points : List (Aff Fq2)) (ks : List ℕ) (w : ℕ) (hw1 : 1 ≤ w) (hw : w ≤ 20)
    (hk : ∀ k ∈ ks, k < 2 ^ 255) (hP : ∀ P ∈ points, Aff.OnCurve g2Codec.b P) :
    ∃ R, sumOfProductsPippinger points ks w = some R ∧ Jac.OnCurve g2Codec.b R ∧
      Jac.abs g2Codec.b R = ((List.zip points ks).map (fun pk => pk.2 • Aff.abs g2Codec.b pk.1)).sum :=
  C10.pippinger g2Model points ks w hw1 hw hk hP

/-- the default entry point (window chosen by the size heuristic) -/
theorem g2_sum_of_products (points : List (Aff Fq2)) (ks : List ℕ)
    (hk : ∀ k ∈ ks, k < 2 ^ 255) (hP : ∀ P ∈ points, Aff.OnCurve g2Codec.b P) :
    ∃ R, sumOfProducts points ks = some R ∧ Jac.OnCurve g2Codec.b R ∧
      Jac.abs g2Codec.b R = ((List.zip points ks).map (fun pk => pk.2 • Aff.abs g2Codec.b pk.1)).sum :=
  C10.sum_of_products g2Model points ks hk hP

/-- the table-driven variant with the tables of `precomp_256`; every `k < 2^256` -/
theorem g2_sum_of_products_precomp256 (points : List (Aff Fq2)) (ks : List ℕ)
    (hk : ∀ k ∈ ks, k < 2 ^ 256) (hP : ∀ P ∈ points, Aff.OnCurve g2Codec.b P) :
    ∃ tables, points.mapM Aff.precomp256 = some tables ∧
      ∃ R, sumOfProductsPrecomp256 points ks tables.flatten.toArray = some R ∧ Jac.OnCurve g2Codec.b R ∧
        Jac.abs g2Codec.b R = ((List.zip points ks).map (fun pk => pk.2 • Aff.abs g2Codec.b pk.1)).sum :=
  C10.sum_of_products_precomp256 g2Model points ks hk hP

/-- all three agree -/
theorem g2_all_agree (points : List (Aff Fq2)) (ks : List ℕ) (w : ℕ) (hw1 : 1 ≤ w) (hw : w ≤ 20)
    (hk : ∀ k ∈ ks, k < 2 ^ 255) (hP : ∀ P ∈ points, Aff.OnCurve g2Codec.b P) :
    ∃ R1 R2 R3 tables,
      sumOfProducts points ks = some R1 ∧ sumOfProductsPippinger points ks w = some R2 ∧
      points.mapM Aff.precomp256 = some tables ∧
      sumOfProductsPrecomp256 points ks tables.flatten.toArray = some R3 ∧
      Jac.abs g2Codec.b R1 = ((List.zip points ks).map (fun pk => pk.2 • Aff.abs g2Codec.b pk.1)).sum ∧
      Jac.abs g2Codec.b R2 = ((List.zip points ks).map (fun pk => pk.2 • Aff.abs g2Codec.b pk.1)).sum ∧
      Jac.abs g2Codec.b R3 = ((List.zip points ks).map (fun pk => pk.2 • Aff.abs g2Codec.b pk.1)).sum :=
  C10.all_agree g2Model points ks w hw1 hw hk hP

/-- exactly the scalars with bit 255 set make the bucket method panic -/
theorem g2_pippinger_panics_iff (points : List (Aff Fq2)) (ks : List ℕ) (w : ℕ) (hw1 : 1 ≤ w)
    (hw : w ≤ 20) (hk : ∀ k ∈ ks, k < 2 ^ 256) (hP : ∀ P ∈ points, Aff.OnCurve g2Codec.b P) :
    sumOfProductsPippinger points ks w = none ↔ ∃ pk ∈ List.zip points ks, 2 ^ 255 ≤ pk.2 :=
  C10.pippinger_panics_iff g2Model points ks w hw1 hw hk hP

theorem g2_sum_of_products_panics_iff (points : List (Aff Fq2)) (ks : List ℕ)
    (hk : ∀ k ∈ ks, k < 2 ^ 256) (hP : ∀ P ∈ points, Aff.OnCurve g2Codec.b P) :
    sumOfProducts points ks = none ↔ ∃ pk ∈ List.zip points ks, 2 ^ 255 ≤ pk.2 :=
  C10.sum_of_products_panics_iff g2Model points ks hk hP

/-- the result of an MSM over subgroup points lies in the subgroup (with C07) -/
theorem g2_sum_of_products_inSub (points : List (Aff Fq2)) (ks : List ℕ)
    (hk : ∀ k ∈ ks, k < 2 ^ 255) (hP : ∀ P ∈ points, Aff.InSub g2Codec.b P) :
    ∃ R, sumOfProducts points ks = some R ∧ Jac.InSub g2Codec.b R := by
  obtain ⟨R, hR, hon, habs⟩ := g2_sum_of_products points ks hk (fun P hPm => (hP P hPm).1)
  exact ⟨R, hR, C07.msm_result_inSub hP hon habs⟩

end PP.C10Inst
