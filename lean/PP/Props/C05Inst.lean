/-
C05, INSTANTIATED.  The `_g1` / `_g2` theorems of `PP/Props/C05.lean` with the real instances
(`LawfulSqrtOps Fq`; the tower's `Field Fq2`, `LawfulFieldOps Fq2`, `PP.instLawfulSqrtOpsFq2`).
Statements copied verbatim from C05 (generated); each proof is the C05 theorem.

New here: `encode_decode_compressed_g2_full` — the `_partial` theorem of C05 without its two
hypotheses: `(2 : Fq2) ≠ 0` (`fq2_two_ne_zero`) and the absence of 2-torsion on the twist,
`∀ x, x³ + 4(1+u) ≠ 0` (`PP.g2_no_two_torsion`: `−4(1+u)` is not a cube in `Fq2`, by Fermat in `Fq2`
and one kernel-evaluated power).  So for G2, as for G1, re-encoding a successfully decoded compressed
string gives back the string, with no side condition.
-/
import PP.Props.C05
import PP.Proofs.AssemblyFq2

set_option linter.unusedSectionVars false

namespace PP.C05Inst
open PP

/-! ## G1 (the `LawfulSqrtOps Fq` instance is `PP.Proofs.Sqrt`'s, C18) -/
section g1

theorem encodeCompressed_length_g1 (A : Aff Fq) : (encodeCompressed g1Codec A).length = 48 :=
  PP.C05.encodeCompressed_length_g1 A

theorem encodeUncompressed_length_g1 (A : Aff Fq) : (encodeUncompressed g1Codec A).length = 96 :=
  PP.C05.encodeUncompressed_length_g1 A

theorem encodeCompressed_eq_zcash_g1 (A : Aff Fq) :
    encodeCompressed g1Codec A = ZCash.encode (g1Codec.curve ZCash.fqCoord) .compressed A :=
  PP.C05.encodeCompressed_eq_zcash_g1 A

theorem encodeUncompressed_eq_zcash_g1 (A : Aff Fq) :
    encodeUncompressed g1Codec A = ZCash.encode (g1Codec.curve ZCash.fqCoord) .uncompressed A :=
  PP.C05.encodeUncompressed_eq_zcash_g1 A

theorem decode_encode_compressed_g1 (A : Aff Fq) (hinf : A.infinity = true → A = Aff.zero)
    (hs : Aff.inSubgroup g1Codec.b A = true) :
    decodeCompressed g1Codec (encodeCompressed g1Codec A) = .ok A :=
  PP.C05.decode_encode_compressed_g1 A hinf hs

theorem decode_encode_uncompressed_g1 (A : Aff Fq) (hinf : A.infinity = true → A = Aff.zero)
    (hs : Aff.inSubgroup g1Codec.b A = true) :
    decodeUncompressed g1Codec (encodeUncompressed g1Codec A) = .ok A :=
  PP.C05.decode_encode_uncompressed_g1 A hinf hs

theorem encode_decode_compressed_g1 (bs : Bytes) (A : Aff Fq) (h : decodeCompressed g1Codec bs = .ok A) :
    encodeCompressed g1Codec A = bs :=
  PP.C05.encode_decode_compressed_g1 bs A h

theorem encode_decode_compressedUnchecked_g1 (bs : Bytes) (A : Aff Fq)
    (h : decodeCompressedUnchecked g1Codec bs = .ok A) : encodeCompressed g1Codec A = bs :=
  PP.C05.encode_decode_compressedUnchecked_g1 bs A h

theorem encode_decode_uncompressed_g1 (bs : Bytes) (A : Aff Fq) (h : decodeUncompressed g1Codec bs = .ok A) :
    encodeUncompressed g1Codec A = bs :=
  PP.C05.encode_decode_uncompressed_g1 bs A h

theorem encodeCompressed_injective_g1 (A B : Aff Fq)
    (hA : A.infinity = true → A = Aff.zero) (hB : B.infinity = true → B = Aff.zero)
    (hcA : Aff.isOnCurve g1Codec.b A = true) (hcB : Aff.isOnCurve g1Codec.b B = true)
    (h : encodeCompressed g1Codec A = encodeCompressed g1Codec B) : A = B :=
  PP.C05.encodeCompressed_injective_g1 A B hA hB hcA hcB h

theorem encodeUncompressed_injective_g1 (A B : Aff Fq)
    (hA : A.infinity = true → A = Aff.zero) (hB : B.infinity = true → B = Aff.zero)
    (h : encodeUncompressed g1Codec A = encodeUncompressed g1Codec B) : A = B :=
  PP.C05.encodeUncompressed_injective_g1 A B hA hB h

end g1

/-! ## G2, with the tower's `Field Fq2`, `LawfulFieldOps Fq2` and `instLawfulSqrtOpsFq2`

As in the source sections the model's own notation instances on `Fq2` are switched off locally, so
that `+ * - 0 1` in the statements are those of `Fq2.instField` — which are the model's operations
(`Fq2.add_eq`, `Fq2.mul_eq`, … hold by `rfl`). -/
section g2
attribute [-instance] Fq2.instAdd Fq2.instSub Fq2.instMul Fq2.instNeg Fq2.instZero Fq2.instOne

theorem encodeCompressed_length_g2 (A : Aff Fq2) : (encodeCompressed g2Codec A).length = 96 :=
  PP.C05.encodeCompressed_length_g2 A

theorem encodeUncompressed_length_g2 (A : Aff Fq2) : (encodeUncompressed g2Codec A).length = 192 :=
  PP.C05.encodeUncompressed_length_g2 A

theorem encodeCompressed_eq_zcash_g2 (A : Aff Fq2) :
    encodeCompressed g2Codec A = ZCash.encode (g2Codec.curve ZCash.fq2Coord) .compressed A :=
  PP.C05.encodeCompressed_eq_zcash_g2 A

theorem encodeUncompressed_eq_zcash_g2 (A : Aff Fq2) :
    encodeUncompressed g2Codec A = ZCash.encode (g2Codec.curve ZCash.fq2Coord) .uncompressed A :=
  PP.C05.encodeUncompressed_eq_zcash_g2 A

theorem decode_encode_compressed_g2 (A : Aff Fq2) (hinf : A.infinity = true → A = Aff.zero)
    (hs : Aff.inSubgroup g2Codec.b A = true) :
    decodeCompressed g2Codec (encodeCompressed g2Codec A) = .ok A :=
  PP.C05.decode_encode_compressed_g2 A hinf hs

theorem decode_encode_uncompressed_g2 (A : Aff Fq2) (hinf : A.infinity = true → A = Aff.zero)
    (hs : Aff.inSubgroup g2Codec.b A = true) :
    decodeUncompressed g2Codec (encodeUncompressed g2Codec A) = .ok A :=
  PP.C05.decode_encode_uncompressed_g2 A hinf hs

/-- PARTIAL for G2: the absence of 2-torsion on the twist (`x³ + 4(1+u)` has no root in `Fq2`) and
`2 ≠ 0` are hypotheses here (true, but their proof needs the field `Fq2`) -/
theorem encode_decode_compressed_g2_partial (h2 : (2 : Fq2) ≠ 0)
    (hno2 : ∀ x : Fq2, x * x * x + g2Codec.b ≠ 0) (bs : Bytes) (A : Aff Fq2)
    (h : decodeCompressed g2Codec bs = .ok A) : encodeCompressed g2Codec A = bs :=
  PP.C05.encode_decode_compressed_g2_partial h2 hno2 bs A h

/-- full strength for G2 with the side condition on the decoded point itself -/
theorem encode_decode_compressed_g2 (bs : Bytes) (A : Aff Fq2)
    (h : decodeCompressed g2Codec bs = .ok A) (hy : A.infinity = false → -A.y ≠ A.y) :
    encodeCompressed g2Codec A = bs :=
  PP.C05.encode_decode_compressed_g2 bs A h hy

theorem encode_decode_uncompressed_g2 (bs : Bytes) (A : Aff Fq2) (h : decodeUncompressed g2Codec bs = .ok A) :
    encodeUncompressed g2Codec A = bs :=
  PP.C05.encode_decode_uncompressed_g2 bs A h

theorem encodeCompressed_injective_g2 (A B : Aff Fq2)
    (hA : A.infinity = true → A = Aff.zero) (hB : B.infinity = true → B = Aff.zero)
    (hcA : Aff.isOnCurve g2Codec.b A = true) (hcB : Aff.isOnCurve g2Codec.b B = true)
    (h : encodeCompressed g2Codec A = encodeCompressed g2Codec B) : A = B :=
  PP.C05.encodeCompressed_injective_g2 A B hA hB hcA hcB h

theorem encodeUncompressed_injective_g2 (A B : Aff Fq2)
    (hA : A.infinity = true → A = Aff.zero) (hB : B.infinity = true → B = Aff.zero)
    (h : encodeUncompressed g2Codec A = encodeUncompressed g2Codec B) : A = B :=
  PP.C05.encodeUncompressed_injective_g2 A B hA hB h

/-- **full strength for G2**: compressed decoding followed by compressed encoding is the identity on
    accepted strings (no side condition: the twist has no point of order 2) -/
theorem encode_decode_compressed_g2_full (bs : Bytes) (A : Aff Fq2)
    (h : decodeCompressed g2Codec bs = .ok A) : encodeCompressed g2Codec A = bs :=
  PP.C05.encode_decode_compressed_g2_partial fq2_two_ne_zero' g2_no_two_torsion bs A h

/-- the two facts that were hypotheses of the `_partial` theorem -/
theorem fq2_two_ne_zero : (2 : Fq2) ≠ 0 := fq2_two_ne_zero'
theorem g2_no_two_torsion (x : Fq2) : x * x * x + g2Codec.b ≠ 0 := PP.g2_no_two_torsion x

end g2

end PP.C05Inst
