/-
C16, the last clause that was only tested: THE HOMOMORPHISM LAW OF THE 11-ISOGENY `E₁' → E₁` used for
hashing to G1 (RFC 9380 appendix E.2, `isogeny/g1.rs`).  (The 3-isogeny of G2 is `PP.Props.C16Hom`.)

Objects.
* `E1'` : the isogenous curve `y² = x³ + A'x + B'` over `Fq` as a Mathlib `WeierstrassCurve.Affine`
  (coefficients `g1EllpA`, `g1EllpB` of the model), `E1'.Point` its group of points with Mathlib's
  chord-and-tangent law (an `a₄ ≠ 0` curve);
* `(W b₁).Point`, `b₁ = g1Codec.b = 4` : the group of points of the target curve (C01);
* `iso11Pt : E1'.Point → (W b₁).Point` : the RFC's `iso_map` — `O ↦ O` and
  `(x, y) ↦ isoMapPoint b₁ XN XD YN YD x y` (rational map of the extracted coefficient tables, identity
  on the poles; the same function that `C16Inst.abs_iso11` uses);
* `absE1' p` : the point of `E₁'` denoted by a Jacobian triple; `OnE1' p` : the triple is on `E₁'`.

Theorems (no hypothesis left; axioms: `propext`, `Classical.choice`, `Quot.sound`).
* `iso11_hom`          : `iso11Pt (P + Q) = iso11Pt P + iso11Pt Q` for ALL points `P, Q` of `E₁'(Fq)`
                         (identity, opposite points, doubling, kernel points, and the exceptional
                         pairs `P ± Q ∈ ker` included);
* `iso11_neg`, `iso11Hom`;
* the kernel IS rational (unlike G2): `iso11_ker_iff` (`O` and the points with `K(x) = 0`),
  `iso11_ker_points` (`O, ±T, …, ±5T`), `iso11_ker_cyclic`, `iso11_ker_card` (`#ker = 11`),
  `iso11_translate` (`iso11Pt (P + T) = iso11Pt P` for `T` in the kernel);
* `abs_iso11`          : the MODEL's `iso11` computes `iso11Pt` on every Jacobian representative of every
                         point of `E₁'` (any `z = 0` triple is the identity; kernel points go to `O`);
* `iso11_add`, `iso11_add_model`, `iso11_add_exists` : for Jacobian triples `p, q, r` on `E₁'` with `r`
                         denoting the sum of the points denoted by `p` and `q` (group law of `E₁'`),
                         `iso11 r` denotes the sum (group law of `E₁`) of the points denoted by
                         `iso11 p`, `iso11 q`, which is what the model's `Jac.add` returns on them;
* `g1_map2_eq_iso_of_sum` : `map2_to_curve(u0, u1) = [h_eff]·iso_map(sswu(u0) +_{E₁'} sswu(u1))`.

The model has no addition on `E₁'` (the Rust code never adds there), so the law is stated with Mathlib's
group law on `E1'.Point`, and at the level of the model through `absE1'`.

Method.  `PP/Proofs/IsoHom11Eval.lean`: polynomial identities of degree ≤ 55 in each of two variables
(and a formal square root `y₁y₂`) are proved by evaluating an expression tree on a grid inside the
kernel (`decide +kernel`, GMP arithmetic on canonical representatives), the degree bounds being computed
on the same tree and "vanishing on a grid ⇒ zero" proved with Mathlib's `Polynomial`.
`IsoHom11Ast/Chord*/Ids.lean`: the chord identity (56 × 56 grid), the tangent identity, translation by
each kernel point (both coordinates), `K(x(P₁+P₂))·K(x(P₁−P₂)) ∝ XN₁K₂² − XN₂K₁²`.  `IsoHom11.lean`:
additivity up to sign in every case (generic chord, tangent, translation invariance for the kernel,
the exceptional case reduced to these), then oddness + no 2-torsion on `E₁` (`IsoHom.additive_of_weak`).
`IsoHom11Inst.lean`: the kernel is `⟨T⟩ ≅ Z/11`, and the model.
-/
import PP.Proofs.IsoHom11Inst
import PP.Props.C14
import PP.Props.C16Inst

namespace PP
namespace C16Hom11

open WeierstrassCurve.Affine IsoPoly Iso
open IsoHom11 (E1' iso11Pt absE1' OnE1' Tk)
open C17 (hEffG1)

local notation "b₁" => g1Codec.b

/-- the isogenous curve is `y² = x³ + g1EllpA·x + g1EllpB` (`a₁ = a₂ = a₃ = 0`) -/
theorem E1'_coeffs : E1' = ⟨0, 0, 0, g1EllpA, g1EllpB⟩ := rfl

/-- `iso11Pt` is the RFC's `iso_map`: identity to identity, an affine point to `isoMapPoint …` -/
theorem iso11Pt_spec :
    iso11Pt 0 = 0 ∧ ∀ (x y : Fq) (h : E1'.Nonsingular x y),
      iso11Pt (Point.some x y h) = isoMapPoint b₁ iso11XNum iso11XDen iso11YNum iso11YDen x y :=
  ⟨rfl, fun _ _ _ => rfl⟩

/-- outside the kernel the image of an affine point is the affine point
    `(XN(x)/XD(x), y·YN(x)/YD(x))`; the kernel points (`K(x) = 0`, the poles) go to `O` -/
theorem iso11Pt_affine (x y : Fq) (h : E1'.Nonsingular x y) :
    (evalP iso11Ker x = 0 → iso11Pt (Point.some x y h) = 0) ∧
    (evalP iso11Ker x ≠ 0 → evalP iso11XDen x ≠ 0 ∧ evalP iso11YDen x ≠ 0 ∧
      ∃ h' : (W b₁).Nonsingular (evalP iso11XNum x / evalP iso11XDen x)
          (y * evalP iso11YNum x / evalP iso11YDen x),
        iso11Pt (Point.some x y h) = Point.some _ _ h') :=
  ⟨IsoHom11.iso11Pt_of_ker h, fun hk =>
    ⟨by rw [IsoHom11.xden_eq]; exact pow_ne_zero 2 hk, by rw [IsoHom11.yden_eq]; exact pow_ne_zero 3 hk,
      _, IsoHom11.iso11Pt_of_not_ker h hk⟩⟩

/-- **C16, homomorphism law (G1)**: the 11-isogeny is additive on `E₁'(Fq)` -/
theorem iso11_hom (P Q : E1'.Point) : iso11Pt (P + Q) = iso11Pt P + iso11Pt Q :=
  IsoHom11.iso11Pt_add P Q

theorem iso11_neg (P : E1'.Point) : iso11Pt (-P) = -iso11Pt P := IsoHom11.iso11Pt_neg P

/-- the isogeny as a homomorphism of Mathlib's groups of points -/
noncomputable def iso11Hom : E1'.Point →+ (W b₁).Point := IsoHom11.iso11Hom

theorem iso11Hom_apply (P : E1'.Point) : iso11Hom P = iso11Pt P := rfl

/-! ## the kernel -/

/-- the kernel: `O` and the affine points whose abscissa is a zero of the kernel polynomial -/
theorem iso11_ker_iff (P : E1'.Point) :
    iso11Pt P = 0 ↔ P = 0 ∨ ∃ x y h, P = Point.some x y h ∧ evalP iso11Ker x = 0 :=
  IsoHom11.iso11Pt_eq_zero_iff P

/-- the kernel is `{O, ±T, ±2T, ±3T, ±4T, ±5T}`, `kT = (tₖ, sₖ)` -/
theorem iso11_ker_points (P : E1'.Point) :
    iso11Pt P = 0 ↔ P = 0 ∨ ∃ k, (1 ≤ k ∧ k ≤ 5) ∧ (P = Tk k ∨ P = -Tk k) :=
  IsoHom11.iso11Pt_eq_zero_iff_Tk P

/-- `kT = k • T`, and `T` has order 11 -/
theorem iso11_ker_generator :
    (∀ k, 1 ≤ k ∧ k ≤ 5 → k • Tk 1 = Tk k) ∧ addOrderOf (Tk 1) = 11 :=
  ⟨IsoHom11.Tk_nsmul, IsoHom11.addOrderOf_T⟩

/-- the kernel is cyclic, generated by the rational point `T` -/
theorem iso11_ker_cyclic : iso11Hom.ker = AddSubgroup.zmultiples (Tk 1) :=
  IsoHom11.ker_eq_zmultiples

/-- it has 11 elements: the isogeny has degree 11 and all its kernel is rational -/
theorem iso11_ker_card : Nat.card iso11Hom.ker = 11 := IsoHom11.ker_card

/-- translation by a kernel point does not change the image -/
theorem iso11_translate (T P : E1'.Point) (hT : iso11Pt T = 0) : iso11Pt (P + T) = iso11Pt P :=
  IsoHom11.ti T P hT

/-! ## the model -/

/-- the model's `iso11` computes `iso11Pt` on every Jacobian representative of every point of `E₁'` -/
theorem abs_iso11 (p : Jac Fq) (hp : OnE1' p) : Jac.abs b₁ (iso11 p) = iso11Pt (absE1' p) :=
  IsoHom11.abs_iso11_eq_iso11Pt p hp

/-- **the law on Jacobian representatives**: if `r` denotes the sum in `E₁'` of the points denoted
    by `p` and `q`, then `iso11 r` denotes the sum in `E₁` of the points denoted by `iso11 p`, `iso11 q` -/
theorem iso11_add (p q r : Jac Fq) (hp : OnE1' p) (hq : OnE1' q) (hr : OnE1' r)
    (hsum : absE1' r = absE1' p + absE1' q) :
    Jac.abs b₁ (iso11 r) = Jac.abs b₁ (iso11 p) + Jac.abs b₁ (iso11 q) := by
  rw [abs_iso11 r hr, abs_iso11 p hp, abs_iso11 q hq, hsum, iso11_hom]

/-- … which is the point denoted by the model's `add_assign` (target-curve formulas) of the images -/
theorem iso11_add_model (p q r : Jac Fq) (hp : OnE1' p) (hq : OnE1' q) (hr : OnE1' r)
    (hsum : absE1' r = absE1' p + absE1' q) :
    Jac.abs b₁ (iso11 r) = Jac.abs b₁ ((iso11 p).add (iso11 q)) := by
  rw [iso11_add p q r hp hq hr hsum, C01.add_correct (iso11_onCurve' p hp) (iso11_onCurve' q hq)]

/-- non-vacuity of `iso11_add`: a representative of the sum always exists -/
theorem iso11_add_exists (p q : Jac Fq) (hp : OnE1' p) (hq : OnE1' q) :
    ∃ r, OnE1' r ∧ absE1' r = absE1' p + absE1' q ∧
      Jac.abs b₁ (iso11 r) = Jac.abs b₁ (iso11 p) + Jac.abs b₁ (iso11 q) := by
  obtain ⟨r, hr, e⟩ := IsoHom11.absE1'_surjective (absE1' p + absE1' q)
  exact ⟨r, hr, e, iso11_add p q r hp hq hr e⟩

/-- `map2_to_curve(u0, u1) = [h_eff]·iso_map(sswu(u0) + sswu(u1))`, the sum being the group law of
    `E₁'`: isogeny-then-add (the code, and the RFC) is add-then-isogeny -/
theorem g1_map2_eq_iso_of_sum (u0 u1 : Fq) :
    OnE1' (osswuG1 u0) ∧ OnE1' (osswuG1 u1) ∧ Jac.OnCurve b₁ (map2ToCurveG1 u0 u1) ∧
      Jac.abs b₁ (map2ToCurveG1 u0 u1) =
        hEffG1 • iso11Pt (absE1' (osswuG1 u0) + absE1' (osswuG1 u1)) := by
  have hp0 : OnE1' (osswuG1 u0) := Or.inr (sswuG1_onE' u0).2
  have hp1 : OnE1' (osswuG1 u1) := Or.inr (sswuG1_onE' u1).2
  obtain ⟨hon, habs⟩ := C14.g1_map2_eq u0 u1
  refine ⟨hp0, hp1, hon, ?_⟩
  rw [habs, abs_iso11 _ hp0, abs_iso11 _ hp1, iso11_hom]

end C16Hom11
end PP
