/-
C03 / C11 — BILINEARITY FOR INTEGER SCALARS, the exponent modulo `r`, and the CANCELLATION clause of C11.

`PP.C03Bilinear.bilinear` is stated for `a b : ℕ`; the property says "for all INTEGERS a, b".  Here:

* `bilinear_int`         : `P ∈ G1`, `Q ∈ G2`, `P' = [a]P`, `Q' = [b]Q` with `a b : ℤ` ⇒ `e(P', Q') = e(P, Q)^(a·b)`
                           (integer power in the field `Fq12`; the values are non-zero, `bilinear_int_val`)
* `pairing_ne_zero`, `pairing_isUnit` : every value returned by `pairing` (any inputs) is non-zero
* `pairing_zpow_congr`, `pairing_pow_congr` : the exponent only matters modulo `r` (any inputs)
* `pairing_orderOf`, `pairing_zpow_eq_iff`  : for non-identity `P ∈ G1`, `Q ∈ G2` the value has order EXACTLY `r`
                           and `e^m = e^n ↔ m ≡ n (mod r)`: the exponent matters exactly modulo `r`
* `bilinear_int_mod`     : `e([a]P, [b]Q) = e(P, Q)^((a·b) mod r)` with a natural exponent `< r`
* `multiProduct_exponent_int` : C11's exponent clause with integer scalars
* `multiProduct_cancel`, `multiProduct_cancel_int` : **the multi-product is exactly 1 when `Σ aᵢ bᵢ ≡ 0 (mod r)`**
* `multiProduct_eq_one_iff`   : … and, for non-identity base points, ONLY then
* `pairingProduct_cancel`, `pairingProduct_eq_one_iff` : the two-pair helper `pairing_product`
* `pairing_eq_one_iff_smul`   : `e([a]P, [b]Q) = 1 ↔ r ∣ a·b` for non-identity base points

All statements are about the MODEL's `pairing`, `pairingProduct`, `pairingMultiProduct` (equal to the translated
Rust code by `PP.GenPair`).  `none` (= panic) is excluded by the form `= some _` / by `C11Neg.pairing_some`.
-/
import PP.Props.C03Bilinear

namespace PP.C03BilinearZ
open PP

local notation "b₁" => g1Codec.b
local notation "b₂" => g2Codec.b

/-! ## values of the pairing: non-zero, `r`-th roots of unity; the exponent modulo `r` -/

/-- whatever `pairing` returns (ANY coordinate records) is non-zero -/
theorem pairing_ne_zero (p : Aff Fq) (q : Aff Fq2) (e : Fq12) (h : pairing p q = some e) : e ≠ 0 := by
  intro h0
  have h1 := C03LinP.pairing_pow_r p q e h
  rw [h0, zero_pow Primes.r_prime.ne_zero] at h1
  exact zero_ne_one h1

/-- … hence a unit of `Fq12` -/
theorem pairing_isUnit (p : Aff Fq) (q : Aff Fq2) (e : Fq12) (h : pairing p q = some e) : IsUnit e :=
  (pairing_ne_zero p q e h).isUnit

/-- an `r`-th root of unity raised to integers congruent modulo `r` -/
theorem zpow_congr_of_pow_r {e : Fq12} (h1 : e ^ Gen.r = 1) {m n : ℤ} (hmn : m ≡ n [ZMOD Gen.r]) :
    e ^ m = e ^ n := by
  have he0 : e ≠ 0 := by
    intro h0; rw [h0, zero_pow Primes.r_prime.ne_zero] at h1; exact zero_ne_one h1
  obtain ⟨k, hk⟩ := hmn.symm.dvd
  have : m = n + (Gen.r : ℤ) * k := by omega
  rw [this, zpow_add₀ he0, zpow_mul, zpow_natCast, h1, one_zpow, mul_one]

/-- **the exponent only matters modulo `r`** (integer exponents; any inputs for which `pairing` returns) -/
theorem pairing_zpow_congr (p : Aff Fq) (q : Aff Fq2) (e : Fq12) (h : pairing p q = some e) {m n : ℤ}
    (hmn : m ≡ n [ZMOD Gen.r]) : e ^ m = e ^ n :=
  zpow_congr_of_pow_r (C03LinP.pairing_pow_r p q e h) hmn

/-- the same for natural exponents -/
theorem pairing_pow_congr (p : Aff Fq) (q : Aff Fq2) (e : Fq12) (h : pairing p q = some e) {m n : ℕ}
    (hmn : m ≡ n [MOD Gen.r]) : e ^ m = e ^ n := by
  have := pairing_zpow_congr p q e h (Int.natCast_modEq_iff.mpr hmn)
  simpa using this

/-- reduction of the exponent: `e^m = e^(m mod r)` with `m mod r` a natural number `< r` -/
theorem pairing_zpow_emod (p : Aff Fq) (q : Aff Fq2) (e : Fq12) (h : pairing p q = some e) (m : ℤ) :
    e ^ m = e ^ (m % (Gen.r : ℤ)).toNat := by
  have hr : (0 : ℤ) < Gen.r := by exact_mod_cast Primes.r_prime.pos
  rw [← zpow_natCast, Int.toNat_of_nonneg (Int.emod_nonneg _ hr.ne')]
  exact pairing_zpow_congr p q e h (Int.mod_modEq _ _).symm

/-- **the order is exactly `r`** for non-identity `P ∈ G1`, `Q ∈ G2` (non-degeneracy + `r` prime) -/
theorem pairing_orderOf (p : Aff Fq) (q : Aff Fq2) (hp : Aff.inSubgroup b₁ p = true)
    (hq : Aff.inSubgroup b₂ q = true) (hpi : p.infinity = false) (hqi : q.infinity = false) (e : Fq12)
    (h : pairing p q = some e) : orderOf e = Gen.r := by
  have hne : e ≠ 1 := by
    rintro rfl
    rcases (C03Bilinear.nondegenerate p q hp hq).mp h with h' | h'
    · rw [hpi] at h'; cases h'
    · rw [hqi] at h'; cases h'
  rcases (Nat.dvd_prime Primes.r_prime).mp (C03.pairing_orderOf_dvd p q e h) with h1 | h1
  · exact absurd (orderOf_eq_one_iff.mp h1) hne
  · exact h1

/-- … so the exponent matters EXACTLY modulo `r` -/
theorem pairing_zpow_eq_iff (p : Aff Fq) (q : Aff Fq2) (hp : Aff.inSubgroup b₁ p = true)
    (hq : Aff.inSubgroup b₂ q = true) (hpi : p.infinity = false) (hqi : q.infinity = false) (e : Fq12)
    (h : pairing p q = some e) (m n : ℤ) : e ^ m = e ^ n ↔ m ≡ n [ZMOD Gen.r] := by
  refine ⟨fun hmn => ?_, pairing_zpow_congr p q e h⟩
  have he0 := pairing_ne_zero p q e h
  have hord := pairing_orderOf p q hp hq hpi hqi e h
  have hu : (Units.mk0 e he0) ^ m = (Units.mk0 e he0) ^ n := by
    apply Units.ext
    rw [Units.val_zpow_eq_zpow_val, Units.val_zpow_eq_zpow_val]
    exact hmn
  have := zpow_eq_zpow_iff_modEq.mp hu
  rwa [← orderOf_units, Units.val_mk0, hord] at this

theorem pairing_zpow_eq_one_iff (p : Aff Fq) (q : Aff Fq2) (hp : Aff.inSubgroup b₁ p = true)
    (hq : Aff.inSubgroup b₂ q = true) (hpi : p.infinity = false) (hqi : q.infinity = false) (e : Fq12)
    (h : pairing p q = some e) (m : ℤ) : e ^ m = 1 ↔ (Gen.r : ℤ) ∣ m := by
  rw [← zpow_zero e, pairing_zpow_eq_iff p q hp hq hpi hqi e h, Int.modEq_zero_iff_dvd]

/-! ## bilinearity for integer scalars -/

private theorem isOnCurve_of_inSubgroup {p : Aff Fq} (hp : Aff.inSubgroup b₁ p = true) :
    p.isOnCurve b₁ = true :=
  (Aff.isOnCurve_iff _ p).mpr ((Aff.inSubgroup_iff_inSub p).mp hp).1

/-- an integer multiple of a point killed by `n` is the multiple by the reduced natural scalar -/
private theorem zsmul_eq_nsmul_emod' {G : Type} [AddCommGroup G] {g : G} {n : ℕ} (hn : 0 < n)
    (hg : n • g = 0) (a : ℤ) : a • g = (a % (n : ℤ)).toNat • g := by
  have hr : (0 : ℤ) < n := by exact_mod_cast hn
  have h1 : ((a % (n : ℤ)).toNat : ℤ) = a % (n : ℤ) := Int.toNat_of_nonneg (Int.emod_nonneg _ hr.ne')
  rw [← natCast_zsmul, h1]
  conv_lhs => rw [← Int.emod_add_mul_ediv a (n : ℤ)]
  rw [add_zsmul, mul_zsmul', natCast_zsmul, hg, zsmul_zero, add_zero]

private theorem zsmul_eq_nsmul_emod {G : Type} [AddCommGroup G] {g : G} (hg : Gen.r • g = 0) (a : ℤ) :
    a • g = (a % (Gen.r : ℤ)).toNat • g :=
  zsmul_eq_nsmul_emod' Primes.r_prime.pos hg a

/-- **bilinearity, integer scalars** (value form): for `P ∈ G1`, `Q ∈ G2`, all `a b : ℤ`, if `P'` denotes `[a]P` and
    `Q'` denotes `[b]Q` (identities allowed everywhere, junk-coordinate identity records included) then both pairings
    return, the value `e = e(P, Q)` is non-zero, and `e(P', Q') = e^(a·b)` -/
theorem bilinear_int_val (p p' : Aff Fq) (q q' : Aff Fq2) (a b : ℤ)
    (hp : Aff.inSubgroup b₁ p = true) (hp' : Aff.inSubgroup b₁ p' = true)
    (hq : Aff.inSubgroup b₂ q = true) (hq' : Aff.inSubgroup b₂ q' = true)
    (ha : Aff.abs b₁ p' = a • Aff.abs b₁ p) (hb : Aff.abs b₂ q' = b • Aff.abs b₂ q) :
    ∃ e : Fq12, e ≠ 0 ∧ pairing p q = some e ∧ pairing p' q' = some (e ^ (a * b)) := by
  obtain ⟨e, he0, he⟩ := C11Neg.pairing_some p q (isOnCurve_of_inSubgroup hp) hq
  refine ⟨e, he0, he, ?_⟩
  have hkp := ((Aff.inSubgroup_iff_inSub p).mp hp).2
  have hkq := ((Aff.inSubgroup_iff_inSub q).mp hq).2
  have hr : (0 : ℤ) < Gen.r := by exact_mod_cast Primes.r_prime.pos
  have hb' := C03Bilinear.bilinear p p' q q' (a % (Gen.r : ℤ)).toNat (b % (Gen.r : ℤ)).toNat hp hp' hq hq'
    (by rw [ha]; exact zsmul_eq_nsmul_emod hkp a) (by rw [hb]; exact zsmul_eq_nsmul_emod hkq b)
  rw [hb', he, Option.map_some]
  refine congrArg some ?_
  rw [← zpow_natCast]
  apply pairing_zpow_congr p q e he
  rw [Nat.cast_mul, Int.toNat_of_nonneg (Int.emod_nonneg _ hr.ne'),
    Int.toNat_of_nonneg (Int.emod_nonneg _ hr.ne')]
  exact Int.ModEq.mul (Int.mod_modEq _ _) (Int.mod_modEq _ _)

/-- **bilinearity, integer scalars** (in `Option`, the shape of `C03Bilinear.bilinear`):
    `e([a]P, [b]Q) = e(P, Q)^(a·b)` for all `a b : ℤ` -/
theorem bilinear_int (p p' : Aff Fq) (q q' : Aff Fq2) (a b : ℤ)
    (hp : Aff.inSubgroup b₁ p = true) (hp' : Aff.inSubgroup b₁ p' = true)
    (hq : Aff.inSubgroup b₂ q = true) (hq' : Aff.inSubgroup b₂ q' = true)
    (ha : Aff.abs b₁ p' = a • Aff.abs b₁ p) (hb : Aff.abs b₂ q' = b • Aff.abs b₂ q) :
    pairing p' q' = (pairing p q).map (· ^ (a * b)) := by
  obtain ⟨e, -, he, he'⟩ := bilinear_int_val p p' q q' a b hp hp' hq hq' ha hb
  rw [he, he']; rfl

/-- the exponent reduced to a natural number `< r` -/
theorem bilinear_int_mod (p p' : Aff Fq) (q q' : Aff Fq2) (a b : ℤ)
    (hp : Aff.inSubgroup b₁ p = true) (hp' : Aff.inSubgroup b₁ p' = true)
    (hq : Aff.inSubgroup b₂ q = true) (hq' : Aff.inSubgroup b₂ q' = true)
    (ha : Aff.abs b₁ p' = a • Aff.abs b₁ p) (hb : Aff.abs b₂ q' = b • Aff.abs b₂ q) :
    pairing p' q' = (pairing p q).map (· ^ ((a * b) % (Gen.r : ℤ)).toNat) ∧
      ((a * b) % (Gen.r : ℤ)).toNat < Gen.r := by
  obtain ⟨e, -, he, he'⟩ := bilinear_int_val p p' q q' a b hp hp' hq hq' ha hb
  have hr : (0 : ℤ) < Gen.r := by exact_mod_cast Primes.r_prime.pos
  refine ⟨by rw [he, he', pairing_zpow_emod p q e he]; rfl, ?_⟩
  have := Int.emod_lt_of_pos (a * b) hr
  omega

/-- linearity in the second argument alone, integer scalar (the missing companion of
    `C03LinP.pairing_zsmul_left`) -/
theorem pairing_zsmul_right (p : Aff Fq) (q qz : Aff Fq2) (z : ℤ) (hp : Aff.inSubgroup b₁ p = true)
    (hq : Aff.inSubgroup b₂ q = true) (hqz : Aff.inSubgroup b₂ qz = true)
    (hz : Aff.abs b₂ qz = z • Aff.abs b₂ q) :
    ∃ e : Fq12, e ≠ 0 ∧ pairing p q = some e ∧ pairing p qz = some (e ^ z) := by
  have := bilinear_int_val p p q qz 1 z hp hp hq hqz (one_zsmul _).symm hz
  rwa [one_mul] at this

/-- `e([a]P, [b]Q) = 1 ↔ r ∣ a·b` for non-identity `P ∈ G1`, `Q ∈ G2` -/
theorem pairing_eq_one_iff_smul (p p' : Aff Fq) (q q' : Aff Fq2) (a b : ℤ)
    (hp : Aff.inSubgroup b₁ p = true) (hp' : Aff.inSubgroup b₁ p' = true)
    (hq : Aff.inSubgroup b₂ q = true) (hq' : Aff.inSubgroup b₂ q' = true)
    (hpi : p.infinity = false) (hqi : q.infinity = false)
    (ha : Aff.abs b₁ p' = a • Aff.abs b₁ p) (hb : Aff.abs b₂ q' = b • Aff.abs b₂ q) :
    pairing p' q' = some 1 ↔ (Gen.r : ℤ) ∣ a * b := by
  obtain ⟨e, -, he, he'⟩ := bilinear_int_val p p' q q' a b hp hp' hq hq' ha hb
  rw [he', Option.some.injEq, pairing_zpow_eq_one_iff p q hp hq hpi hqi e he]

/-! ## C11: products of pairings, integer scalars, cancellation -/

/-- **the exponent clause of C11 with integer scalars**: if `Pᵢ` denotes `[aᵢ]P` and `Qᵢ` denotes `[bᵢ]Q`
    (`P ∈ G1`, `Q ∈ G2`, `aᵢ bᵢ : ℤ`), the product computed by ONE Miller loop and one final exponentiation is
    `e(P, Q)^(Σ aᵢ bᵢ)` -/
theorem multiProduct_exponent_int (p : Aff Fq) (q : Aff Fq2)
    (hp : Aff.inSubgroup b₁ p = true) (hq : Aff.inSubgroup b₂ q = true)
    (ts : List (Aff Fq × Aff Fq2 × ℤ × ℤ))
    (h : ∀ t ∈ ts, Aff.inSubgroup b₁ t.1 = true ∧ Aff.inSubgroup b₂ t.2.1 = true ∧
      Aff.abs b₁ t.1 = t.2.2.1 • Aff.abs b₁ p ∧ Aff.abs b₂ t.2.1 = t.2.2.2 • Aff.abs b₂ q) :
    pairingMultiProduct (ts.map (·.1)) (ts.map (·.2.1)) =
      (pairing p q).map (· ^ (ts.map (fun t => t.2.2.1 * t.2.2.2)).sum) := by
  obtain ⟨e, he0, he⟩ := C11Neg.pairing_some p q (isOnCurve_of_inSubgroup hp) hq
  rw [C11.pairingMultiProduct_eq_prod _ _ (by simp), he]
  induction ts with
  | nil => simp [Miller.optProd]
  | cons t ts ih =>
    obtain ⟨h1, h2, h3, h4⟩ := h t (List.mem_cons_self ..)
    have ih' := ih (fun t' ht' => h t' (List.mem_cons_of_mem _ ht'))
    have hb := bilinear_int p t.1 q t.2.1 t.2.2.1 t.2.2.2 hp h1 hq h2 h3 h4
    rw [he] at hb
    have hc : Miller.optProd (List.zipWith pairing ((t :: ts).map (·.1)) ((t :: ts).map (·.2.1))) =
        Miller.optMul (pairing t.1 t.2.1)
          (Miller.optProd (List.zipWith pairing (ts.map (·.1)) (ts.map (·.2.1)))) := rfl
    rw [hc, ih', hb]
    simp [Miller.optMul, zpow_add₀ he0]

/-- **C11, cancellation (integers)**: the multi-product is exactly `1` when `Σ aᵢ bᵢ ≡ 0 (mod r)` -/
theorem multiProduct_cancel_int (p : Aff Fq) (q : Aff Fq2)
    (hp : Aff.inSubgroup b₁ p = true) (hq : Aff.inSubgroup b₂ q = true)
    (ts : List (Aff Fq × Aff Fq2 × ℤ × ℤ))
    (h : ∀ t ∈ ts, Aff.inSubgroup b₁ t.1 = true ∧ Aff.inSubgroup b₂ t.2.1 = true ∧
      Aff.abs b₁ t.1 = t.2.2.1 • Aff.abs b₁ p ∧ Aff.abs b₂ t.2.1 = t.2.2.2 • Aff.abs b₂ q)
    (hsum : (ts.map (fun t => t.2.2.1 * t.2.2.2)).sum ≡ 0 [ZMOD Gen.r]) :
    pairingMultiProduct (ts.map (·.1)) (ts.map (·.2.1)) = some 1 := by
  obtain ⟨e, -, he⟩ := C11Neg.pairing_some p q (isOnCurve_of_inSubgroup hp) hq
  rw [multiProduct_exponent_int p q hp hq ts h, he, Option.map_some,
    pairing_zpow_congr p q e he hsum, zpow_zero]

/-- **C11, cancellation** (natural scalars, the setting of `C03Bilinear.multiProduct_exponent`):
    `(Σ aᵢ bᵢ) mod r = 0 ⇒ pairing_multi_product = 1` -/
theorem multiProduct_cancel (p : Aff Fq) (q : Aff Fq2)
    (hp : Aff.inSubgroup b₁ p = true) (hq : Aff.inSubgroup b₂ q = true)
    (ts : List (Aff Fq × Aff Fq2 × ℕ × ℕ))
    (h : ∀ t ∈ ts, Aff.inSubgroup b₁ t.1 = true ∧ Aff.inSubgroup b₂ t.2.1 = true ∧
      Aff.abs b₁ t.1 = t.2.2.1 • Aff.abs b₁ p ∧ Aff.abs b₂ t.2.1 = t.2.2.2 • Aff.abs b₂ q)
    (hsum : (ts.map (fun t => t.2.2.1 * t.2.2.2)).sum % Gen.r = 0) :
    pairingMultiProduct (ts.map (·.1)) (ts.map (·.2.1)) = some 1 := by
  obtain ⟨e, -, he⟩ := C11Neg.pairing_some p q (isOnCurve_of_inSubgroup hp) hq
  rw [C03Bilinear.multiProduct_exponent p q hp hq ts h, he, Option.map_some,
    pairing_pow_congr p q e he (n := 0) ((Nat.modEq_zero_iff_dvd).mpr (Nat.dvd_of_mod_eq_zero hsum)),
    pow_zero]

/-- … and for non-identity base points ONLY then: **the multi-product is `1` exactly when the exponents cancel
    modulo `r`** -/
theorem multiProduct_eq_one_iff (p : Aff Fq) (q : Aff Fq2)
    (hp : Aff.inSubgroup b₁ p = true) (hq : Aff.inSubgroup b₂ q = true)
    (hpi : p.infinity = false) (hqi : q.infinity = false)
    (ts : List (Aff Fq × Aff Fq2 × ℤ × ℤ))
    (h : ∀ t ∈ ts, Aff.inSubgroup b₁ t.1 = true ∧ Aff.inSubgroup b₂ t.2.1 = true ∧
      Aff.abs b₁ t.1 = t.2.2.1 • Aff.abs b₁ p ∧ Aff.abs b₂ t.2.1 = t.2.2.2 • Aff.abs b₂ q) :
    pairingMultiProduct (ts.map (·.1)) (ts.map (·.2.1)) = some 1 ↔
      (ts.map (fun t => t.2.2.1 * t.2.2.2)).sum ≡ 0 [ZMOD Gen.r] := by
  obtain ⟨e, -, he⟩ := C11Neg.pairing_some p q (isOnCurve_of_inSubgroup hp) hq
  rw [multiProduct_exponent_int p q hp hq ts h, he, Option.map_some, Option.some.injEq,
    pairing_zpow_eq_one_iff p q hp hq hpi hqi e he, Int.modEq_zero_iff_dvd]

/-- the two-pair helper `pairing_product(P₁, Q₁, P₂, Q₂)` with `Pᵢ = [aᵢ]P`, `Qᵢ = [bᵢ]Q`:
    value `e(P, Q)^(a₁b₁ + a₂b₂)` -/
theorem pairingProduct_exponent_int (p p1 p2 : Aff Fq) (q q1 q2 : Aff Fq2) (a1 b1 a2 b2 : ℤ)
    (hp : Aff.inSubgroup b₁ p = true) (hq : Aff.inSubgroup b₂ q = true)
    (hp1 : Aff.inSubgroup b₁ p1 = true) (hq1 : Aff.inSubgroup b₂ q1 = true)
    (hp2 : Aff.inSubgroup b₁ p2 = true) (hq2 : Aff.inSubgroup b₂ q2 = true)
    (ha1 : Aff.abs b₁ p1 = a1 • Aff.abs b₁ p) (hb1 : Aff.abs b₂ q1 = b1 • Aff.abs b₂ q)
    (ha2 : Aff.abs b₁ p2 = a2 • Aff.abs b₁ p) (hb2 : Aff.abs b₂ q2 = b2 • Aff.abs b₂ q) :
    pairingProduct p1 q1 p2 q2 = (pairing p q).map (· ^ (a1 * b1 + a2 * b2)) := by
  have := multiProduct_exponent_int p q hp hq [(p1, q1, a1, b1), (p2, q2, a2, b2)] (by
    intro t ht
    simp only [List.mem_cons, List.mem_nil_iff, or_false] at ht
    rcases ht with rfl | rfl
    · exact ⟨hp1, hq1, ha1, hb1⟩
    · exact ⟨hp2, hq2, ha2, hb2⟩)
  rw [C11.pairingProduct_eq_multi]
  simpa using this

/-- `pairing_product` is `1` when `a₁b₁ + a₂b₂ ≡ 0 (mod r)` (e.g. signature verification:
    `e(P, [s]Q) · e(−[s]P, Q) = 1`) -/
theorem pairingProduct_cancel (p p1 p2 : Aff Fq) (q q1 q2 : Aff Fq2) (a1 b1 a2 b2 : ℤ)
    (hp : Aff.inSubgroup b₁ p = true) (hq : Aff.inSubgroup b₂ q = true)
    (hp1 : Aff.inSubgroup b₁ p1 = true) (hq1 : Aff.inSubgroup b₂ q1 = true)
    (hp2 : Aff.inSubgroup b₁ p2 = true) (hq2 : Aff.inSubgroup b₂ q2 = true)
    (ha1 : Aff.abs b₁ p1 = a1 • Aff.abs b₁ p) (hb1 : Aff.abs b₂ q1 = b1 • Aff.abs b₂ q)
    (ha2 : Aff.abs b₁ p2 = a2 • Aff.abs b₁ p) (hb2 : Aff.abs b₂ q2 = b2 • Aff.abs b₂ q)
    (hsum : a1 * b1 + a2 * b2 ≡ 0 [ZMOD Gen.r]) :
    pairingProduct p1 q1 p2 q2 = some 1 := by
  obtain ⟨e, -, he⟩ := C11Neg.pairing_some p q (isOnCurve_of_inSubgroup hp) hq
  rw [pairingProduct_exponent_int p p1 p2 q q1 q2 a1 b1 a2 b2 hp hq hp1 hq1 hp2 hq2 ha1 hb1 ha2 hb2, he,
    Option.map_some, pairing_zpow_congr p q e he hsum, zpow_zero]

/-- … and only then, for non-identity base points -/
theorem pairingProduct_eq_one_iff (p p1 p2 : Aff Fq) (q q1 q2 : Aff Fq2) (a1 b1 a2 b2 : ℤ)
    (hp : Aff.inSubgroup b₁ p = true) (hq : Aff.inSubgroup b₂ q = true)
    (hpi : p.infinity = false) (hqi : q.infinity = false)
    (hp1 : Aff.inSubgroup b₁ p1 = true) (hq1 : Aff.inSubgroup b₂ q1 = true)
    (hp2 : Aff.inSubgroup b₁ p2 = true) (hq2 : Aff.inSubgroup b₂ q2 = true)
    (ha1 : Aff.abs b₁ p1 = a1 • Aff.abs b₁ p) (hb1 : Aff.abs b₂ q1 = b1 • Aff.abs b₂ q)
    (ha2 : Aff.abs b₁ p2 = a2 • Aff.abs b₁ p) (hb2 : Aff.abs b₂ q2 = b2 • Aff.abs b₂ q) :
    pairingProduct p1 q1 p2 q2 = some 1 ↔ a1 * b1 + a2 * b2 ≡ 0 [ZMOD Gen.r] := by
  obtain ⟨e, -, he⟩ := C11Neg.pairing_some p q (isOnCurve_of_inSubgroup hp) hq
  rw [pairingProduct_exponent_int p p1 p2 q q1 q2 a1 b1 a2 b2 hp hq hp1 hq1 hp2 hq2 ha1 hb1 ha2 hb2, he,
    Option.map_some, Option.some.injEq, pairing_zpow_eq_one_iff p q hp hq hpi hqi e he,
    Int.modEq_zero_iff_dvd]

/-! ## non-vacuity -/

/-- the hypotheses are satisfiable with a NEGATIVE scalar and non-identity points: with the generators
    (`C07.g1Generator`, `C07.g2Generator`, in the subgroups by kernel evaluation) and `P₂ = −g1 = [−1]g1`:
    `pairing_product(g1, g2, −g1, g2) = 1` because `1·1 + (−1)·1 = 0`, while
    `pairing_product(g1, g2, g1, g2) ≠ 1` because `1·1 + 1·1 = 2 ≢ 0 (mod r)` -/
example :
    pairingProduct C07.g1Generator C07.g2Generator C07.g1Generator.neg C07.g2Generator = some 1 ∧
    pairingProduct C07.g1Generator C07.g2Generator C07.g1Generator C07.g2Generator ≠ some 1 := by
  have hg1 := C07.g1Generator_inSubgroup
  have hg2 := C07.g2Generator_inSubgroup
  have hn : Aff.inSubgroup b₁ C07.g1Generator.neg = true :=
    (Aff.inSubgroup_iff_inSub _).mpr ((Aff.inSubgroup_iff_inSub _).mp hg1).neg
  have hneg : Aff.abs b₁ C07.g1Generator.neg = (-1 : ℤ) • Aff.abs b₁ C07.g1Generator := by
    rw [C01.affNeg_correct C07.g1Generator_inSub.1, neg_one_zsmul]
  constructor
  · exact pairingProduct_cancel C07.g1Generator C07.g1Generator C07.g1Generator.neg C07.g2Generator
      C07.g2Generator C07.g2Generator 1 1 (-1) 1 hg1 hg2 hg1 hg2 hn hg2 (one_zsmul _).symm (one_zsmul _).symm
      hneg (one_zsmul _).symm (by decide)
  · rw [Ne, pairingProduct_eq_one_iff C07.g1Generator C07.g1Generator C07.g1Generator C07.g2Generator
      C07.g2Generator C07.g2Generator 1 1 1 1 hg1 hg2 rfl rfl hg1 hg2 hg1 hg2 (one_zsmul _).symm
      (one_zsmul _).symm (one_zsmul _).symm (one_zsmul _).symm]
    decide +kernel

end PP.C03BilinearZ
