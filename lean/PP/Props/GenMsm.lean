/-
OBLIGATIONS "GenMsm": the scalar-multiplication tables, the multi-scalar multiplications and the wNAF code of
the hand-written model ARE the Rust source.

`PP/Gen/Msm.lean` (namespace `PP.Gen.M`) is REGENERATED from /repo on every run of /verif/extract/extract.py
by /verif/extract/extract_msm.py: one Lean definition per Rust function, one `let` / `if` / `match` line per
Rust statement.  Each theorem below states that such a regenerated definition is equal to the hand-written
model definition (`PP/Model/Mul.lean`) that the properties C02 / C10 are proved about.  An edit of one of these
Rust functions changes the generated text, and the corresponding theorem no longer compiles (or the extractor
refuses the new shape), whether or not a test input exposes it.

Correspondence Rust -> generated -> model:
  ec/mod.rs (macro `curve_impl!`, `impl CurveAffine for $affine`)
      precomp_3 mul_precomp_3 precomp_256 mul_precomp_256      -> `Aff.precomp3` `Aff.mulPrecomp3` `Aff.precomp256` `Aff.mulPrecomp256`
      find_pippinger_window sum_of_products_pippinger sum_of_products sum_of_products_precomp_256
                                                               -> `findPippingerWindow` `sumOfProductsPippinger` `sumOfProducts` `sumOfProductsPrecomp256`
  ec/mod.rs (`impl CurveProjective for $projective`) recommended_wnaf_for_scalar / _for_num_scalars,
  ec/g1.rs, ec/g2.rs empirical_recommended_wnaf_for_scalar / _for_num_scalars
                                                               -> `recommendForScalar` / `recommendForNumScalars` on the extracted tables
  wnaf.rs  wnaf_table wnaf_form wnaf_exp                       -> `wnafTable` `wnafForm` `wnafExp`
           Wnaf::{new, base, scalar, shared, shared, base, scalar}
                                                               -> `WnafCtx.new`, `WnafCtx.baseThenScalar`, `WnafCtx.scalarThenBase`

Differences of representation that are visible in the statements:
  * buffers: `precomp_3` / `precomp_256` WRITE INTO the caller's slice (`M.setIdx` on the incoming list) where the
    model builds a fresh table; the statements say that for a buffer that is long enough every slot of the table
    is written and the rest of the buffer is unchanged (`t ++ pre.drop n`); a buffer shorter than 3 makes
    `precomp_3` panic (`Aff_precomp3_panics`);
  * `&[Self]` tables are `List`s in the generated code and `Array`s in the model (`pre.toArray`); scalars
    `&[u64; 4]` / `FrRepr` are limb lists in the generated code and the `Nat` they denote in the model
    (`limbsOf 4 k`, `ks.map (limbsOf 4)`);
  * `while` / `loop`: the generated definitions take `fuel`; the statements are at the model's constants (300
    iterations of `wnaf_form`, 257 windows of Pippenger) and, for `wnaf_form` and `precomp_256`, for every fuel
    (`wnafForm_fuel`; `8 ≤ fuel`);
  * usize underflow is a panic in the generated code (`M.usub`): `wnaf_table` with `window = 0` is `none` there
    (`wnafTable_zero`: in Rust `1 << (0 - 1)` panics with overflow checks and asks for 2^63 entries without) while
    the model returns a one-entry table -- the statements about `wnaf_table` and the `Wnaf` context carry
    `1 ≤ window` (true for every recommended window: the G1 / G2 corollaries have no hypothesis);
    `sum_of_products_pippinger` is stated for `window ≤ 64` (`64 - high_order_shift` underflows beyond; the
    property C10 is about `1 ≤ window ≤ 20`, and `find_pippinger_window` returns at most 16);
  * a returned `Wnaf` that borrows `&mut self.scalar` / `&mut self.base` holds the value at that moment; the
    statements `Wnaf_baseThenScalar` / `Wnaf_scalarThenBase` compose the two calls and write the borrowed
    component back (`⟨c1.base, v'.scalar⟩`), which is what the end of the borrow means.

Primitives that are not in /repo and are therefore the generated code of another section: the
`PrimeFieldRepr` operations of `FrRepr` (`is_zero is_odd div2 add_nocarry sub_noborrow from(u64) num_bits`,
Derive.lean, related to the integers by PP/Proofs/GenDerive.lean), the curve operations (Arith.lean).
-/
import PP.Proofs.GenMsm

namespace PP.GenMsm
open PP PP.Gen PP.GenMsmLemmas

section
set_option linter.unusedSectionVars false
variable {F : Type} [Add F] [Sub F] [Mul F] [Neg F] [Zero F] [One F] [FieldOps F] [DecidableEq F]

/-! ## tables (src/bls12_381/ec/mod.rs) -/

theorem Aff_precomp3 (a : Aff F) (pre : List (Aff F)) (h : 3 ≤ pre.length) :
    M.Aff.precomp3 a pre = (a.precomp3).map (fun t => t ++ pre.drop 3) := precomp3_eq a pre h
theorem Aff_precomp3_panics (a : Aff F) (pre : List (Aff F)) (h : pre.length < 3) :
    M.Aff.precomp3 a pre = none := precomp3_short a pre h
theorem Aff_mulPrecomp3 (a : Aff F) (k : Nat) (pre : List (Aff F)) :
    M.Aff.mulPrecomp3 a k pre = a.mulPrecomp3 k pre := mulPrecomp3_eq a k pre
theorem Aff_precomp256 (fuel : Nat) (hfuel : 8 ≤ fuel) (a : Aff F) (pre : List (Aff F)) (h : 256 ≤ pre.length) :
    M.Aff.precomp256 fuel a pre = (a.precomp256).map (fun t => t ++ pre.drop 256) := precomp256_eq fuel hfuel a pre h
theorem Aff_mulPrecomp256 (a : Aff F) (k : Nat) (pre : List (Aff F)) :
    M.Aff.mulPrecomp256 a k pre = a.mulPrecomp256 k pre.toArray := mulPrecomp256_eq a k pre

/-! ## multi-scalar multiplication (src/bls12_381/ec/mod.rs) -/

theorem findPippingerWindow (n : Nat) : M.findPippingerWindow n = some (PP.findPippingerWindow n) :=
  findPippingerWindow_eq n
theorem Aff_sumOfProductsPippinger (points : List (Aff F)) (ks : List Nat) (window : Nat) (hw : window ≤ 64) :
    M.Aff.sumOfProductsPippinger 257 points (ks.map (limbsOf 4)) window
      = PP.sumOfProductsPippinger points ks window := sumOfProductsPippinger_eq points ks window hw
theorem Aff_sumOfProducts (points : List (Aff F)) (ks : List Nat) :
    M.Aff.sumOfProducts 257 points (ks.map (limbsOf 4)) = PP.sumOfProducts points ks := sumOfProducts_eq points ks
theorem Aff_sumOfProductsPrecomp256 (points : List (Aff F)) (ks : List Nat) (pre : List (Aff F)) :
    M.Aff.sumOfProductsPrecomp256 points (ks.map (limbsOf 4)) pre
      = PP.sumOfProductsPrecomp256 points ks pre.toArray := sumOfProductsPrecomp256_eq points ks pre

/-! ## wNAF (src/wnaf.rs) -/

theorem wnafTable (old : List (Jac F)) (base : Jac F) (window : Nat) (hw : 1 ≤ window) :
    M.wnafTable old base window = some (PP.wnafTable old base window) := wnafTable_eq old base window hw
theorem wnafTable_zero (old : List (Jac F)) (base : Jac F) : M.wnafTable old base 0 = none :=
  GenMsmLemmas.wnafTable_zero old base
theorem wnafExp (table : List (Jac F)) (wnaf : List Int) : M.wnafExp table wnaf = PP.wnafExp table wnaf :=
  wnafExp_eq table wnaf

/-! ## the `Wnaf` context (src/wnaf.rs) -/

theorem Wnaf_new : (M.Wnaf.new : M.Wnaf Unit (List (Jac F)) (List Int)) = ofCtx WnafCtx.new := Wnaf_new_eq
theorem Wnaf_ctxBase (rn : Nat → Nat) (ctx : WnafCtx F) (b : Jac F) (n : Nat) (hw : 1 ≤ rn n) :
    M.Wnaf.ctxBase rn (ofCtx ctx) b n
      = some (ofCtx ⟨PP.wnafTable ctx.base b (rn n), ctx.scalar⟩, ⟨PP.wnafTable ctx.base b (rn n), ctx.scalar, rn n⟩) :=
  Wnaf_ctxBase_eq rn ctx b n hw
theorem Wnaf_ctxScalar (rs : List Nat → Nat) (ctx : WnafCtx F) (k : Nat) :
    M.Wnaf.ctxScalar 300 rs (ofCtx ctx) (limbsOf 4 k)
      = (PP.wnafForm ctx.scalar k (rs (limbsOf 4 k))).map (fun sc =>
          (ofCtx ⟨ctx.base, sc⟩, (⟨ctx.base, sc, rs (limbsOf 4 k)⟩ : M.Wnaf Nat (List (Jac F)) (List Int)))) :=
  Wnaf_ctxScalar_eq rs ctx k
theorem Wnaf_baseShared (v : M.Wnaf Nat (List (Jac F)) (List Int)) :
    M.Wnaf.baseShared v = ⟨v.base, [], v.window_size⟩ := Wnaf_baseShared_eq v
theorem Wnaf_scalarShared (v : M.Wnaf Nat (List (Jac F)) (List Int)) :
    M.Wnaf.scalarShared v = ⟨[], v.scalar, v.window_size⟩ := Wnaf_scalarShared_eq v
theorem Wnaf_expBase (v : M.Wnaf Nat (List (Jac F)) (List Int)) (b : Jac F) (hw : 1 ≤ v.window_size) :
    M.Wnaf.expBase v b
      = (PP.wnafExp (PP.wnafTable v.base b v.window_size) v.scalar).map (fun r =>
          ((⟨PP.wnafTable v.base b v.window_size, v.scalar, v.window_size⟩ : M.Wnaf Nat (List (Jac F)) (List Int)), r)) :=
  Wnaf_expBase_eq v b hw
theorem Wnaf_expScalar (v : M.Wnaf Nat (List (Jac F)) (List Int)) (k : Nat) :
    M.Wnaf.expScalar 300 v (limbsOf 4 k)
      = (PP.wnafForm v.scalar k v.window_size).bind (fun sc => (PP.wnafExp v.base sc).map (fun r =>
          ((⟨v.base, sc, v.window_size⟩ : M.Wnaf Nat (List (Jac F)) (List Int)), r))) := Wnaf_expScalar_eq v k

/-- `wnaf.base(b, n).scalar(k)` with any recommendation table -/
theorem Wnaf_baseThenScalar (rc : WnafRec) (ctx : WnafCtx F) (b : Jac F) (n k : Nat)
    (hw : 1 ≤ recommendForNumScalars rc.tbl rc.base n) :
    (match M.Wnaf.ctxBase (recommendForNumScalars rc.tbl rc.base) (ofCtx ctx) b n with
      | none => none
      | some (c1, v) =>
        match M.Wnaf.expScalar 300 v (limbsOf 4 k) with
        | none => none
        | some (v', r) => some (r, (⟨c1.base, v'.scalar⟩ : WnafCtx F)))
      = ctx.baseThenScalar rc b n k := Wnaf_baseThenScalar_eq rc ctx b n k hw

/-- `wnaf.scalar(k).base(b)` with any recommendation function that agrees with the model's ladder -/
theorem Wnaf_scalarThenBase (rc : WnafRec) (rs : List Nat → Nat) (ctx : WnafCtx F) (k : Nat) (b : Jac F)
    (hrs : rs (limbsOf 4 k) = recommendForScalar rc.ladder rc.dflt (k % 2 ^ 256))
    (hw : 1 ≤ recommendForScalar rc.ladder rc.dflt (k % 2 ^ 256)) :
    (match M.Wnaf.ctxScalar 300 rs (ofCtx ctx) (limbsOf 4 k) with
      | none => none
      | some (c1, v) =>
        match M.Wnaf.expBase v b with
        | none => none
        | some (v', r) => some (r, (⟨v'.base, c1.scalar⟩ : WnafCtx F)))
      = ctx.scalarThenBase rc k b := Wnaf_scalarThenBase_eq rc rs ctx k b hrs hw

/-- G1: `G::recommended_wnaf_for_num_scalars` is the generated function of ec/mod.rs applied to the one of ec/g1.rs -/
theorem Wnaf_baseThenScalar_G1 (ctx : WnafCtx F) (b : Jac F) (n k : Nat) :
    (match M.Wnaf.ctxBase (M.Jac.recommendedWnafForNumScalars M.G1.empiricalRecommendedWnafForNumScalars)
        (ofCtx ctx) b n with
      | none => none
      | some (c1, v) =>
        match M.Wnaf.expScalar 300 v (limbsOf 4 k) with
        | none => none
        | some (v', r) => some (r, (⟨c1.base, v'.scalar⟩ : WnafCtx F)))
      = ctx.baseThenScalar g1Rec b n k := GenMsmLemmas.Wnaf_baseThenScalar_G1 ctx b n k
theorem Wnaf_baseThenScalar_G2 (ctx : WnafCtx F) (b : Jac F) (n k : Nat) :
    (match M.Wnaf.ctxBase (M.Jac.recommendedWnafForNumScalars M.G2.empiricalRecommendedWnafForNumScalars)
        (ofCtx ctx) b n with
      | none => none
      | some (c1, v) =>
        match M.Wnaf.expScalar 300 v (limbsOf 4 k) with
        | none => none
        | some (v', r) => some (r, (⟨c1.base, v'.scalar⟩ : WnafCtx F)))
      = ctx.baseThenScalar g2Rec b n k := GenMsmLemmas.Wnaf_baseThenScalar_G2 ctx b n k
theorem Wnaf_scalarThenBase_G1 (ctx : WnafCtx F) (k : Nat) (b : Jac F) :
    (match M.Wnaf.ctxScalar 300 (M.Jac.recommendedWnafForScalar M.G1.empiricalRecommendedWnafForScalar)
        (ofCtx ctx) (limbsOf 4 k) with
      | none => none
      | some (c1, v) =>
        match M.Wnaf.expBase v b with
        | none => none
        | some (v', r) => some (r, (⟨v'.base, c1.scalar⟩ : WnafCtx F)))
      = ctx.scalarThenBase g1Rec k b := GenMsmLemmas.Wnaf_scalarThenBase_G1 ctx k b
theorem Wnaf_scalarThenBase_G2 (ctx : WnafCtx F) (k : Nat) (b : Jac F) :
    (match M.Wnaf.ctxScalar 300 (M.Jac.recommendedWnafForScalar M.G2.empiricalRecommendedWnafForScalar)
        (ofCtx ctx) (limbsOf 4 k) with
      | none => none
      | some (c1, v) =>
        match M.Wnaf.expBase v b with
        | none => none
        | some (v', r) => some (r, (⟨v'.base, c1.scalar⟩ : WnafCtx F)))
      = ctx.scalarThenBase g2Rec k b := GenMsmLemmas.Wnaf_scalarThenBase_G2 ctx k b

end

/-! ## `wnaf_form` (src/wnaf.rs), window recommendations (ec/mod.rs, ec/g1.rs, ec/g2.rs) -/

theorem wnafForm (old : List Int) (c w : Nat) : M.wnafForm 300 old (limbsOf 4 c) w = PP.wnafForm old c w :=
  wnafForm_eq old c w
theorem wnafForm_fuel (fuel : Nat) (old : List Int) (c w : Nat) :
    M.wnafForm fuel old (limbsOf 4 c) w
      = (wnafFormLoop w fuel (c % 2 ^ 256) []).map (fun l => old.take 0 ++ l) := wnafForm_fuel_eq fuel old c w

theorem Jac_recommendedWnafForScalar (emp : List Nat → Nat) (s : List Nat) :
    M.Jac.recommendedWnafForScalar emp s = emp s := Jac_recScalar_eq emp s
theorem Jac_recommendedWnafForNumScalars (emp : Nat → Nat) (n : Nat) :
    M.Jac.recommendedWnafForNumScalars emp n = emp n := Jac_recNum_eq emp n
theorem G1_empiricalRecommendedWnafForScalar (k : Nat) :
    M.G1.empiricalRecommendedWnafForScalar (limbsOf 4 k)
      = recommendForScalar G1_WNAF_SCALAR_LADDER G1_WNAF_SCALAR_DEFAULT (k % 2 ^ 256) := G1_recScalar_eq k
theorem G2_empiricalRecommendedWnafForScalar (k : Nat) :
    M.G2.empiricalRecommendedWnafForScalar (limbsOf 4 k)
      = recommendForScalar G2_WNAF_SCALAR_LADDER G2_WNAF_SCALAR_DEFAULT (k % 2 ^ 256) := G2_recScalar_eq k
theorem G1_empiricalRecommendedWnafForNumScalars (n : Nat) :
    M.G1.empiricalRecommendedWnafForNumScalars n
      = recommendForNumScalars G1_WNAF_RECOMMENDATIONS G1_WNAF_RECOMMEND_BASE n := G1_recNum_eq n
theorem G2_empiricalRecommendedWnafForNumScalars (n : Nat) :
    M.G2.empiricalRecommendedWnafForNumScalars n
      = recommendForNumScalars G2_WNAF_RECOMMENDATIONS G2_WNAF_RECOMMEND_BASE n := G2_recNum_eq n

end PP.GenMsm
