/-
PROPERTY C03.  "For all P in G1, Q in G2 and integers a, b: e([a]P,[b]Q) = e(P,Q)^(ab), e(P,Q) has order
dividing r, equals 1 exactly when P or Q is the identity, and is the same value whichever side initiates
the call. The value is the reduced optimal-ate pairing of BLS12-381 (Miller function for |x| conjugated,
raised to 3(q^12-1)/r), i.e. it agrees with an independent textbook evaluation on every input and with
the published e(g1,g2)."

How the statement is rendered.
* `pairing : Aff Fq → Aff Fq2 → Option Fq12` (`PP/Model/Pairing.lean`) is the model of
  `Engine::pairing(p, q)` = `final_exponentiation(miller_loop([(p.prepare(), q.prepare())])).unwrap()`;
  `none` is a panic.  `Fq12` carries the `Field` structure of `PP.Proofs.Tower` on the model's own
  operations, so `e ^ n` is the power for the model's multiplication.

THIS PROPERTY IS ONLY PARTIALLY PROVED.

PROVED (for ALL inputs, no curve or subgroup hypothesis):
* "order dividing r": `pairing_order`;
* "equals 1 when P or Q is the identity" (the IF direction): `pairing_identity_left/right`;
* "Miller function for |x| conjugated, raised to 3(q^12-1)/r", as far as the shape of the computation
  goes: `pairing_eq_fe_miller`, `pairing_spec`, `pairing_total` (the Miller loop over the 62 bits of
  `|x| >> 1` after the leading one never panics on prepared input, its result is a conjugate
  (`miller_value_is_conjugate`), and the pairing is that value raised to `3(q¹²-1)/r`, a panic occurring
  exactly for the Miller value `0`);
* "the published e(g1,g2)": `pairing_generators` - the model's `pairing` evaluated by the Lean kernel on
  the extracted generators equals the twelve decimal constants of the test
  `test_pairing_result_against_relic` (src/bls12_381/tests/mod.rs), sent by the author of RELIC;
  consequently `e(g1,g2) ≠ 1` and has order exactly `r` (`pairing_generators_ne_one`, `_order`).
* "whichever side initiates the call": nothing to prove at the level of the model - in the Rust code
  `G1Affine::pairing_with(&q)` is `perform_pairing` = `Bls12::pairing(*self, *q)` (ec/g1.rs) and
  `G2Affine::pairing_with(&p)` is `perform_pairing` = `Bls12::pairing(*p, *self)` (ec/g2.rs); both are
  the single model function `pairing p q`.

NOT proved IN THIS FILE (update: all three are PROVED elsewhere — bilinearity and non-degeneracy in PP/Props/C03Bilinear.lean from C03LinP + C03LinQ, agreement with the textbook Miller loop in PP/Props/C03Lines.lean):
* BILINEARITY `e([a]P,[b]Q) = e(P,Q)^(ab)`;
* NON-DEGENERACY, i.e. the ONLY-IF direction of "equals 1 exactly when P or Q is the identity" (for
  P ∈ G1, Q ∈ G2 of order r);
* (NOW PROVED in PP/Props/C03Lines.lean: the Miller loop is the textbook tangent/chord evaluation) agreement of the Miller loop (the line coefficients of `doubling_step`/`addition_step` on the twist,
  evaluated through `ell`) with a textbook definition of the Miller function `f_{|x|,Q}(P)` / the optimal
  ate pairing on every input.
The classical proofs need the theory of divisors / Weil reciprocity on the curve, which Mathlib does not provide (C03LinP / C03LinQ replace it by line reciprocity and by the ideal theory of the coordinate ring); they
are exercised by the differential and oracle test harness instead.  The kernel-checked value at the
generators, together with bilinearity (unproved), would determine the pairing on all of G1 × G2.
-/
import PP.Proofs.Miller

namespace PP.C03
open PP Miller

/-! ## the shape of the computation -/

/-- definitional unfolding: Miller loop on the freshly prepared `q`, then final exponentiation -/
theorem pairing_eq_fe_miller (p : Aff Fq) (q : Aff Fq2) :
    pairing p q = (millerLoop [(p, G2Prepared.fromAffine q)]).bind finalExponentiation :=
  Miller.pairing_eq p q

/-- the Miller loop of a pair prepared by `G2Prepared::from_affine` never panics -/
theorem miller_total (p : Aff Fq) (q : Aff Fq2) :
    ∃ m, millerLoop [(p, G2Prepared.fromAffine q)] = some m := by
  have h : millerLoop [(p, G2Prepared.fromAffine q)] ≠ none := by
    rw [millerLoop_single]; exact single_fromAffine_ne_none p q
  exact Option.ne_none_iff_exists'.mp h

/-- **"raised to 3(q¹²-1)/r"**: the pairing is the Miller value `m` to the power `3(q¹²-1)/r`; it
    panics exactly when `m = 0` -/
theorem pairing_total (p : Aff Fq) (q : Aff Fq2) :
    ∃ m, millerLoop [(p, G2Prepared.fromAffine q)] = some m ∧
      pairing p q = if m = 0 then none else some (m ^ (3 * (Gen.q ^ 12 - 1) / Gen.r)) := by
  obtain ⟨m, hm⟩ := miller_total p q
  refine ⟨m, hm, ?_⟩
  rw [pairing_eq_fe_miller, hm, Option.bind_some]
  split
  · next h => rw [h]; exact FinalExp.fe_zero
  · next h => exact FinalExp.fe_spec h

theorem pairing_spec (p : Aff Fq) (q : Aff Fq2) (e : Fq12) (h : pairing p q = some e) :
    ∃ m, millerLoop [(p, G2Prepared.fromAffine q)] = some m ∧ m ≠ 0 ∧
      e = m ^ (3 * (Gen.q ^ 12 - 1) / Gen.r) := by
  obtain ⟨m, hm, hp⟩ := pairing_total p q
  refine ⟨m, hm, ?_⟩
  rw [h] at hp
  by_cases h0 : m = 0
  · rw [if_pos h0] at hp; exact absurd hp (by simp)
  · rw [if_neg h0] at hp; exact ⟨h0, Option.some.inj hp⟩

theorem pairing_none_iff (p : Aff Fq) (q : Aff Fq2) :
    pairing p q = none ↔ millerLoop [(p, G2Prepared.fromAffine q)] = some 0 := by
  obtain ⟨m, hm, hp⟩ := pairing_total p q
  rw [hp, hm]
  by_cases h0 : m = 0 <;> simp [h0]

/-- **"Miller function for |x| conjugated"**: for finite `p`, `q` the Miller value is the conjugate of
    the value `f` accumulated by the loop `Miller.mlb1` over `blsXBits` (the 62 bits of `|x| >> 1` after
    the leading one: `f ← (f · line)², …`) followed by one last line (`Miller.ell1`) -/
theorem miller_value_is_conjugate (p : Aff Fq) (q : Aff Fq2) (hp : p.infinity = false)
    (hq : q.infinity = false) :
    ∃ f cs, (mlb1 p blsXBits (G2Prepared.fromAffine q).coeffs 1).bind
        (fun x => ell1 p x.2 x.1) = some (f, cs) ∧
      millerLoop [(p, G2Prepared.fromAffine q)] = some f.conjugate := by
  obtain ⟨m, hm⟩ := miller_total p q
  rw [millerLoop_single, single, fromAffine_infinity, hp, hq] at hm
  simp only [Bool.or_self, Bool.false_eq_true, if_false] at hm
  rw [millerLoop_single, single, fromAffine_infinity, hp, hq]
  simp only [Bool.or_self, Bool.false_eq_true, if_false]
  unfold core1 at hm ⊢
  cases h1 : mlb1 p blsXBits (G2Prepared.fromAffine q).coeffs 1 with
  | none => rw [h1] at hm; simp at hm
  | some x =>
    rw [h1, Option.bind_some] at hm
    rw [Option.bind_some, Option.bind_some]
    cases h2 : ell1 p x.2 x.1 with
    | none => rw [h2] at hm; simp at hm
    | some y => exact ⟨y.1, y.2, rfl, rfl⟩

/-! ## identity arguments, order -/

/-- `e(0, Q) = 1` -/
theorem pairing_identity_left (p : Aff Fq) (q : Aff Fq2) (h : p.infinity = true) :
    pairing p q = some 1 := by
  rw [pairing_eq_fe_miller, millerLoop_single, single]
  simp only [h, Bool.true_or, if_true, Option.bind_some]
  exact FinalExp.fe_one

/-- `e(P, 0) = 1` -/
theorem pairing_identity_right (p : Aff Fq) (q : Aff Fq2) (h : q.infinity = true) :
    pairing p q = some 1 := by
  rw [pairing_eq_fe_miller, millerLoop_single, single, fromAffine_infinity]
  simp only [h, Bool.or_true, if_true, Option.bind_some]
  exact FinalExp.fe_one

/-- **`e(P,Q)` has order dividing `r`** -/
theorem pairing_order (p : Aff Fq) (q : Aff Fq2) (e : Fq12) (h : pairing p q = some e) :
    e ^ Gen.r = 1 := by
  obtain ⟨m, hm, -⟩ := pairing_total p q
  rw [pairing_eq_fe_miller, hm, Option.bind_some] at h
  exact FinalExp.fe_pow_r h

theorem pairing_orderOf_dvd (p : Aff Fq) (q : Aff Fq2) (e : Fq12) (h : pairing p q = some e) :
    orderOf e ∣ Gen.r := orderOf_dvd_of_pow_eq_one (pairing_order p q e h)

/-! ## the published value of `e(g1, g2)` -/

/-- `G1Affine::one()` (the same definition as `PP.C07.g1Generator`) -/
def g1Generator : Aff Fq := ⟨Fq.ofMont Gen.G1_GENERATOR_X, Fq.ofMont Gen.G1_GENERATOR_Y, false⟩

/-- `G2Affine::one()` (the same definition as `PP.C07.g2Generator`) -/
def g2Generator : Aff Fq2 :=
  ⟨⟨Fq.ofMont Gen.G2_GENERATOR_X_C0, Fq.ofMont Gen.G2_GENERATOR_X_C1⟩,
   ⟨Fq.ofMont Gen.G2_GENERATOR_Y_C0, Fq.ofMont Gen.G2_GENERATOR_Y_C1⟩, false⟩

/-- the twelve `Fq::from_str` decimals of `test_pairing_result_against_relic`, in the order
    `c0.c0.c0, c0.c0.c1, c0.c1.c0, c0.c1.c1, c0.c2.c0, c0.c2.c1, c1.c0.c0, …, c1.c2.c1` -/
def relic : List Nat := [
  2819105605953691245277803056322684086884703000473961065716485506033588504203831029066448642358042597501014294104502,
  1323968232986996742571315206151405965104242542339680722164220900812303524334628370163366153839984196298685227734799,
  2987335049721312504428602988447616328830341722376962214011674875969052835043875658579425548512925634040144704192135,
  3879723582452552452538684314479081967502111497413076598816163759028842927668327542875108457755966417881797966271311,
  261508182517997003171385743374653339186059518494239543139839025878870012614975302676296704930880982238308326681253,
  231488992246460459663813598342448669854473942105054381511346786719005883340876032043606739070883099647773793170614,
  3993582095516422658773669068931361134188738159766715576187490305611759126554796569868053818105850661142222948198557,
  1074773511698422344502264006159859710502164045911412750831641680783012525555872467108249271286757399121183508900634,
  2727588299083545686739024317998512740561167011046940249988557419323068809019137624943703910267790601287073339193943,
  493643299814437640914745677854369670041080344349607504656543355799077485536288866009245028091988146107059514546594,
  734401332196641441839439105942623141234148957972407782257355060229193854324927417865401895596108124443575283868655,
  2348330098288556420918672502923664952620152483128593484301759394583320358354186482723629999370241674973832318248497]

/-- the canonical representatives (`< q`) of the twelve `Fq` coordinates of an element of `Fq12` -/
def toNats (a : Fq12) : List Nat :=
  [a.c0.c0.c0.v, a.c0.c0.c1.v, a.c0.c1.c0.v, a.c0.c1.c1.v, a.c0.c2.c0.v, a.c0.c2.c1.v,
   a.c1.c0.c0.v, a.c1.c0.c1.v, a.c1.c1.c0.v, a.c1.c1.c1.v, a.c1.c2.c0.v, a.c1.c2.c1.v]

/-- the published element of `Fq12` -/
def relicValue : Fq12 :=
  ⟨⟨⟨Zp.ofNat relic[0], Zp.ofNat relic[1]⟩, ⟨Zp.ofNat relic[2], Zp.ofNat relic[3]⟩,
     ⟨Zp.ofNat relic[4], Zp.ofNat relic[5]⟩⟩,
   ⟨⟨Zp.ofNat relic[6], Zp.ofNat relic[7]⟩, ⟨Zp.ofNat relic[8], Zp.ofNat relic[9]⟩,
     ⟨Zp.ofNat relic[10], Zp.ofNat relic[11]⟩⟩⟩

/-- the published decimals are canonical (`< q`), so `relicValue` has exactly these coordinates -/
theorem relic_canonical : relic.all (· < Gen.q) = true := by decide +kernel
theorem relicValue_toNats : toNats relicValue = relic := by decide +kernel

/-- **known answer**: the model's pairing of the two generators, evaluated by the Lean kernel, has the
    twelve published coordinates … -/
theorem pairing_generators_coordinates :
    (pairing g1Generator g2Generator).map toNats = some relic := by decide +kernel

/-- … i.e. is the published element -/
theorem pairing_generators : pairing g1Generator g2Generator = some relicValue := by
  decide +kernel

/-- at the generators the pairing is not `1` … -/
theorem pairing_generators_ne_one : pairing g1Generator g2Generator ≠ some 1 := by
  rw [pairing_generators]; decide +kernel

theorem relicValue_pow_r : relicValue ^ Gen.r = 1 :=
  pairing_order _ _ _ pairing_generators

/-- … and, `r` being prime, has order exactly `r` -/
theorem pairing_generators_order : orderOf relicValue = Gen.r := by
  have hr : Nat.Prime Gen.r := Fact.out
  have hdvd : orderOf relicValue ∣ Gen.r := orderOf_dvd_of_pow_eq_one relicValue_pow_r
  rcases (Nat.dvd_prime hr).mp hdvd with h | h
  · exfalso
    have h1 : relicValue = 1 := orderOf_eq_one_iff.mp h
    exact pairing_generators_ne_one (by rw [pairing_generators, h1])
  · exact h

end PP.C03
