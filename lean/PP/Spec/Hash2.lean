/-
  PP.Spec.Hash2 — the truncated members of the SHA-2 family (FIPS 180-4 §5.3.2, §5.3.4, §6.3, §6.5):
  SHA-224 (SHA-256 compression, other initial value, 28 output bytes) and SHA-384 (SHA-512 compression, other
  initial value, 48 output bytes).  They are Merkle–Damgard hashes whose block size is NOT twice the digest size
  (64/28, 128/48), which is what `expand_message_xmd`'s `Z_pad` (one full BLOCK of zeros) is sensitive to.
  Core Lean only; validated against Python's hashlib and the `sha2` crate by the correspondence check.
-/
import PP.Spec.Hash

namespace PP.Hash

def H224 : Array UInt32 := #[
  0xc1059ed8, 0x367cd507, 0x3070dd17, 0xf70e5939, 0xffc00b31, 0x68581511, 0x64f98fa7, 0xbefa4fa4]

def sha224 (msg : List UInt8) : List UInt8 := Id.run do
  let m := mdPad msg.toByteArray 64 8
  let mut H := H224
  for i in [0:m.size / 64] do
    H := sha256Block H m (64 * i)
  let mut out := ByteArray.emptyWithCapacity 32
  for x in H do
    out := pushBE out x.toNat 4
  return out.toList.take 28

def H384 : Array UInt64 := #[
  0xcbbb9d5dc1059ed8, 0x629a292a367cd507, 0x9159015a3070dd17, 0x152fecd8f70e5939,
  0x67332667ffc00b31, 0x8eb44a8768581511, 0xdb0c2e0d64f98fa7, 0x47b5481dbefa4fa4]

def sha384 (msg : List UInt8) : List UInt8 := Id.run do
  let m := mdPad msg.toByteArray 128 16
  let mut H := H384
  for i in [0:m.size / 128] do
    H := sha512Block H m (128 * i)
  let mut out := ByteArray.emptyWithCapacity 64
  for x in H do
    out := pushBE out x.toNat 8
  return out.toList.take 48

end PP.Hash
