/-
  PP.Spec.Ate — textbook definition of the (reduced, optimal) ate pairing of BLS12-381, by the
  double-and-add Miller loop with tangent and chord lines in AFFINE coordinates.

  Curves and fields.
  * `E  : y² = x³ + 4`        over `Fq`  (and over `Fq12 ⊇ Fq`),
  * `E' : y² = x³ + 4(1+u)`   over `Fq2` (the sextic twist of M-type used by BLS12-381),
  * tower `Fq2 = Fq[u]/(u²+1)`, `Fq6 = Fq2[v]/(v³-ξ)`, `Fq12 = Fq6[w]/(w²-v)`, `ξ = 1+u`; hence `w⁶ = ξ`.
  * untwist `ψ : E' → E(Fq12)`, `ψ(x', y') = (x'/w², y'/w³)`:
    `(y'/w³)² = y'²/ξ = (x'³ + 4ξ)/ξ = (x'/w²)³ + 4`.

  Miller loop for the positive integer `n = |x| = 0xd201000000010000` (the BLS parameter is `x = -n`),
  `P = (x_P, y_P) ∈ E(Fq)`, `Q ∈ E'(Fq2)`, both finite:

      f ← 1, T ← Q
      for every bit b of n below the leading one, most significant first:
          f ← f² · l_{ψT,ψT}(P);   T ← 2T
          if b:  f ← f · l_{ψT,ψQ}(P);   T ← T + Q
      return f

  where `l_{A,A}` is the tangent to `E` at `A` and `l_{A,B}` the chord through `A`, `B`, both normalised
  as `l(X, Y) = (Y - y_A) - λ (X - x_A)`, `λ` the slope computed IN `Fq12` from the untwisted
  coordinates.  As usual for even embedding degree the vertical lines are omitted (denominator
  elimination: they take values in the proper subfield `Fq6`); the variant with the verticals is
  `textbookMillerFull` / `reducedAteFull` at the end of the file.  `T` is updated by the affine
  chord-and-tangent formulas of `y² = x³ + b` on the twist.

  The reduced pairing is `conj(f)^(3(q¹²-1)/r)`: the conjugation `conj = (·)^(q⁶)` accounts for the sign of
  `x` (it inverts elements of norm 1 over `Fq6`, i.e. after the easy part of the exponentiation), and the
  exponent is three times the usual `(q¹²-1)/r` (the "cubed" hard part, standard for this library family).

  This file does not import the model of the curve or pairing code; only the tower `Fq2/Fq6/Fq12` with
  its `Field` structure (`PP.Proofs.Tower`; the primality of `q`, on which it rests, is `PP.Proofs.Primes`) and
  the extracted constants `Gen.BLS_X`, `Gen.q`, `Gen.r`.
-/
import PP.Proofs.Tower
import PP.Proofs.Primes
import PP.Gen.Curve

namespace PP.Ate

/-! ## affine chord-and-tangent on `y² = x³ + b` (finite points, no exceptional cases) -/

section affine
variable {F : Type} [Field F]

/-- slope of the tangent at `A = (x, y)` to `y² = x³ + b`: `3x² / 2y` -/
def tangentSlope (A : F × F) : F := 3 * A.1 ^ 2 / (2 * A.2)

/-- slope of the chord through `A` and `B` -/
def chordSlope (A B : F × F) : F := (B.2 - A.2) / (B.1 - A.1)

/-- the third point of intersection, reflected: `A + B` for the line of slope `l` through `A`, `B` -/
def sumOfSlope (l : F) (A B : F × F) : F × F :=
  let x3 := l ^ 2 - A.1 - B.1
  (x3, l * (A.1 - x3) - A.2)

/-- `2A` (for `y_A ≠ 0`) -/
def affDouble (A : F × F) : F × F := sumOfSlope (tangentSlope A) A A

/-- `A + B` (for `x_A ≠ x_B`) -/
def affAdd (A B : F × F) : F × F := sumOfSlope (chordSlope A B) A B

/-- the line through `A` with slope `l`, evaluated at `P`: `(y_P - y_A) - l (x_P - x_A)` -/
def lineAt (l : F) (A P : F × F) : F := (P.2 - A.2) - l * (P.1 - A.1)

/-- the tangent at `A`, evaluated at `P` -/
def tangentAt (A P : F × F) : F := lineAt (tangentSlope A) A P

/-- the chord through `A`, `B`, evaluated at `P` -/
def chordAt (A B P : F × F) : F := lineAt (chordSlope A B) A P

end affine

/-! ## the untwist -/

/-- `Fq2 ⊂ Fq12` -/
def ι : Fq2 →+* Fq12 := Fq12.ofFq6.comp Fq6.ofFq2

/-- `Fq ⊂ Fq12` -/
def κ : Fq →+* Fq12 := ι.comp Fq2.ofFq

/-- `ψ : E'(Fq2) → E(Fq12)`, `(x', y') ↦ (x'/w², y'/w³)` -/
def untwist (T : Fq2 × Fq2) : Fq12 × Fq12 := (ι T.1 / Fq12.w ^ 2, ι T.2 / Fq12.w ^ 3)

/-- `E(Fq) ⊂ E(Fq12)` -/
def embed (P : Fq × Fq) : Fq12 × Fq12 := (κ P.1, κ P.2)

/-! ## the Miller loop -/

/-- one iteration: `f ← f² · l_{ψT,ψT}(P)`, `T ← 2T`; if the bit is set `f ← f · l_{ψT,ψQ}(P)`,
    `T ← T + Q` -/
def millerStep (P : Fq × Fq) (Q : Fq2 × Fq2) (s : Fq12 × (Fq2 × Fq2)) (b : Bool) :
    Fq12 × (Fq2 × Fq2) :=
  let f := s.1 ^ 2 * tangentAt (untwist s.2) (embed P)
  let T := affDouble s.2
  if b then (f * chordAt (untwist T) (untwist Q) (embed P), affAdd T Q) else (f, T)

/-- the loop over a list of bits (most significant first), from `f = 1`, `T = Q` -/
def millerBits (P : Fq × Fq) (Q : Fq2 × Fq2) (bits : List Bool) : Fq12 × (Fq2 × Fq2) :=
  bits.foldl (millerStep P Q) (1, Q)

/-- the binary digits of `n` below its leading one, most significant first -/
def bitsBelowTop (n : ℕ) : List Bool := ((List.range (Nat.log2 n)).map n.testBit).reverse

/-- the Miller function `f_{|x|,Q}(P)` (tangents and chords only) -/
def textbookMiller (P : Fq × Fq) (Q : Fq2 × Fq2) : Fq12 := (millerBits P Q (bitsBelowTop Gen.BLS_X)).1

/-! ## the same with the vertical lines

The Miller function with divisor `n(Q) - ([n]Q) - (n-1)(O)` is computed by
`f_{2k} = f_k² · l_{kQ,kQ} / v_{2kQ}`, `f_{2k+1} = f_{2k} · l_{2kQ,Q} / v_{(2k+1)Q}`, `v_A(X, Y) = X - x_A`
the vertical line through `A`.  The verticals take values in `Fq6` at `P ∈ E(Fq)`, so they do not
change the reduced pairing; `textbookMiller` above omits them, `textbookMillerFull` keeps them. -/

/-- the vertical line through `A`, evaluated at `P` -/
def verticalAt {F : Type} [Field F] (A P : F × F) : F := P.1 - A.1

/-- one iteration with verticals -/
def millerStepFull (P : Fq × Fq) (Q : Fq2 × Fq2) (s : Fq12 × (Fq2 × Fq2)) (b : Bool) :
    Fq12 × (Fq2 × Fq2) :=
  let T := affDouble s.2
  let f := s.1 ^ 2 * tangentAt (untwist s.2) (embed P) / verticalAt (untwist T) (embed P)
  if b then
    (f * chordAt (untwist T) (untwist Q) (embed P) / verticalAt (untwist (affAdd T Q)) (embed P),
      affAdd T Q)
  else (f, T)

/-- the Miller function `f_{|x|,Q}(P)` with tangents, chords and verticals -/
def textbookMillerFull (P : Fq × Fq) (Q : Fq2 × Fq2) : Fq12 :=
  ((bitsBelowTop Gen.BLS_X).foldl (millerStepFull P Q) (1, Q)).1

/-- the final exponent `3 (q¹² - 1) / r` -/
def finalExponent : ℕ := 3 * (Gen.q ^ 12 - 1) / Gen.r

/-- the reduced optimal ate pairing of BLS12-381 (for finite `P`, `Q`) -/
def reducedAte (P : Fq × Fq) (Q : Fq2 × Fq2) : Fq12 :=
  (Fq12.conjugate (textbookMiller P Q)) ^ finalExponent

/-- the same from the Miller function with verticals -/
def reducedAteFull (P : Fq × Fq) (Q : Fq2 × Fq2) : Fq12 :=
  (Fq12.conjugate (textbookMillerFull P Q)) ^ finalExponent

end PP.Ate
