/-
  PP.Spec.Sswu — RFC 9380 §6.6.2 "Simplified SWU method", `map_to_curve_simple_swu(u)`, for a
  curve `y² = g(x) = x³ + A·x + B` with `A ≠ 0`, `B ≠ 0` over a field `F` and the constant `Z`:

      1. tv1 = inv0(Z^2 * u^4 + Z * u^2)
      2.  x1 = (-B / A) * (1 + tv1)
      3. If tv1 == 0, set x1 = B / (Z * A)
      4. gx1 = x1^3 + A * x1 + B
      5.  x2 = Z * u^2 * x1
      6. gx2 = x2^3 + A * x2 + B
      7. If is_square(gx1), set x = x1 and y = sqrt(gx1)
      8. Else set x = x2 and y = sqrt(gx2)
      9. If sgn0(u) != sgn0(y), set y = -y
      10. return (x, y)

  The RFC leaves the choice of the square root to `sqrt`; step 9 then normalises the sign.  The
  specification below is therefore a *relation* between `u` and `(x, y)`: `x` is chosen as in steps
  1–8, `y` is a square root of `g(x)`, and `sgn0(y) = sgn0(u)`.  (`sgn0(-y) ≠ sgn0(y)` for `y ≠ 0`, so
  this determines `y` whenever `g(x) ≠ 0`.)  `inv0` is the inverse of a Mathlib `Field`
  (`0⁻¹ = 0`), `is_square` is Mathlib's `IsSquare`.  Does not import the model.
-/
import Mathlib.Algebra.Field.Defs
import Mathlib.Algebra.Group.Even

namespace PP.Spec

variable {F : Type} [Field F] [DecidableEq F]

/-- the curve's right-hand side `g(x) = x³ + A x + B` (steps 4, 6) -/
def sswuG (A B x : F) : F := x ^ 3 + A * x + B

/-- step 1: `tv1 = inv0(Z² u⁴ + Z u²)` -/
def sswuTv1 (Z u : F) : F := (Z ^ 2 * u ^ 4 + Z * u ^ 2)⁻¹

/-- steps 2–3 -/
def sswuX1 (A B Z u : F) : F :=
  if sswuTv1 Z u = 0 then B / (Z * A) else (-B / A) * (1 + sswuTv1 Z u)

/-- step 5 -/
def sswuX2 (A B Z u : F) : F := Z * u ^ 2 * sswuX1 A B Z u

/-- `(x, y)` is an output of `map_to_curve_simple_swu(u)` (for some admissible `sqrt`), where
`sgn0` is the sign function of RFC 9380 §4.1 for the field `F`. -/
def IsSswu {S : Type} (sgn0 : F → S) (A B Z u x y : F) : Prop :=
  (IsSquare (sswuG A B (sswuX1 A B Z u)) → x = sswuX1 A B Z u)        -- step 7
  ∧ (¬ IsSquare (sswuG A B (sswuX1 A B Z u)) → x = sswuX2 A B Z u)    -- step 8
  ∧ y ^ 2 = sswuG A B x                                               -- `y = ± sqrt(g(x))`
  ∧ sgn0 y = sgn0 u                                                   -- step 9

/-- RFC 9380 §4.1 `sgn0` for `m = 1`: the parity of the canonical representative -/
def sgn0_m1 (x : Nat) : Nat := x % 2

/-- RFC 9380 §4.1 `sgn0` for `m = 2` on the canonical representatives `(x_0, x_1)` of `x_0 + x_1·I`:
`sign_0 OR (zero_0 AND sign_1)` -/
def sgn0_m2 (x0 x1 : Nat) : Nat :=
  let sign_0 := x0 % 2
  let zero_0 := x0 == 0
  let sign_1 := x1 % 2
  if sign_0 = 1 ∨ (zero_0 ∧ sign_1 = 1) then 1 else 0

end PP.Spec
