/-
  PP.Spec.Rfc9380 — RFC 9380 "Hashing to Elliptic Curves":
    * §4     I2OSP, OS2IP (RFC 8017 §4.1, §4.2), strxor, substr, ceil(a / b)
    * §5.3.1 expand_message_xmd
    * §5.3.2 expand_message_xof
    * §5.2   hash_to_field
  transcribed step by step from the RFC pseudocode.  Core Lean only, imports nothing (in particular
  not the model), executable.  `none` = the RFC's "ABORT".  Field elements are returned as their
  canonical integers `0 ≤ e_j < p`.
-/

namespace PP.Rfc

abbrev Bytes := List UInt8

/-- `I2OSP(x, xLen)`: the `xLen`-byte big-endian string of `x` (RFC 8017 §4.1).  RFC 8017 outputs
"integer too large" when `x ≥ 256^xLen`; below, every call satisfies `x < 256^xLen` thanks to the
ABORT checks that precede it, so that case is not modelled (the high digits would be dropped). -/
def I2OSP : Nat → Nat → Bytes
  | _, 0 => []
  | x, xLen + 1 => I2OSP (x / 256) xLen ++ [UInt8.ofNat (x % 256)]

/-- `OS2IP(X)`: `x = x_(xLen-1) 256^(xLen-1) + … + x_1 256 + x_0`, first byte most significant
(RFC 8017 §4.2). -/
def OS2IP : Bytes → Nat
  | [] => 0
  | X_1 :: rest => X_1.toNat * 256 ^ rest.length + OS2IP rest

/-- `strxor(str1, str2)`: bytewise XOR (of two strings of equal length). -/
def strxor (str1 str2 : Bytes) : Bytes := List.zipWith (· ^^^ ·) str1 str2

/-- `substr(str, sbegin, slen)` -/
def substr (str : Bytes) (sbegin slen : Nat) : Bytes := (str.drop sbegin).take slen

/-- `ceil(a / b)` for `b > 0` -/
def ceilDiv (a b : Nat) : Nat := if a % b = 0 then a / b else a / b + 1

/-! ## §5.3.1 expand_message_xmd

Parameters: `H` a hash function, `b_in_bytes` its output size in bytes, `s_in_bytes` its input
block size in bytes. -/

/-- steps 7–10: `b_0`, `b_1`, and `b_i = H(strxor(b_0, b_(i - 1)) || I2OSP(i, 1) || DST_prime)` -/
def xmd_b (H : Bytes → Bytes) (msg_prime DST_prime : Bytes) : Nat → Bytes
  | 0 => H msg_prime
  | 1 => H (H msg_prime ++ I2OSP 1 1 ++ DST_prime)
  | i + 2 => H (strxor (H msg_prime) (xmd_b H msg_prime DST_prime (i + 1)) ++ I2OSP (i + 2) 1 ++ DST_prime)

def expand_message_xmd (H : Bytes → Bytes) (b_in_bytes s_in_bytes : Nat)
    (msg DST : Bytes) (len_in_bytes : Nat) : Option Bytes :=
  let ell := ceilDiv len_in_bytes b_in_bytes                                     -- 1
  if ell > 255 ∨ len_in_bytes > 65535 ∨ DST.length > 255 then none else          -- 2  ABORT
  let DST_prime := DST ++ I2OSP DST.length 1                                      -- 3
  let Z_pad := I2OSP 0 s_in_bytes                                                 -- 4
  let l_i_b_str := I2OSP len_in_bytes 2                                           -- 5
  let msg_prime := Z_pad ++ msg ++ l_i_b_str ++ I2OSP 0 1 ++ DST_prime            -- 6
  let b := xmd_b H msg_prime DST_prime                                            -- 7–10
  let uniform_bytes := ((List.range ell).map fun k => b (k + 1)).flatten         -- 11  b_1 || … || b_ell
  some (substr uniform_bytes 0 len_in_bytes)                                      -- 12

/-! ## §5.3.2 expand_message_xof   (`H(m, d)`: an extendable-output function, `d` output bytes) -/

def expand_message_xof (H : Bytes → Nat → Bytes) (msg DST : Bytes) (len_in_bytes : Nat) : Option Bytes :=
  if len_in_bytes > 65535 ∨ DST.length > 255 then none else                      -- 1  ABORT
  let DST_prime := DST ++ I2OSP DST.length 1                                      -- 2
  let msg_prime := msg ++ I2OSP len_in_bytes 2 ++ DST_prime                       -- 3
  let uniform_bytes := H msg_prime len_in_bytes                                   -- 4
  some uniform_bytes                                                              -- 5

/-! ## §5.2 hash_to_field

Parameters: `expand_message` (with its `DST`), the characteristic `p`, the extension degree `m`,
and `L = ceil((ceil(log2(p)) + k) / 8)`.  For BLS12-381 with `k = 128` (RFC 9380 §8.8):
`L = ceil((381 + 128) / 8) = 64` for the base field; `m = 1` for G1 and `m = 2` for G2.
For the scalar field (`ceil(log2(r)) = 255`): `L = ceil((255 + 128) / 8) = 48`. -/

def hash_to_field (expand_message : Bytes → Bytes → Nat → Option Bytes) (p m L : Nat)
    (msg DST : Bytes) (count : Nat) : Option (List (List Nat)) :=
  let len_in_bytes := count * m * L                                               -- 1
  match expand_message msg DST len_in_bytes with                                  -- 2
  | none => none
  | some uniform_bytes =>
    some <| (List.range count).map fun i =>                                       -- 3
      (List.range m).map fun j =>                                                 -- 4
        let elm_offset := L * (j + i * m)                                         -- 5
        let tv := substr uniform_bytes elm_offset L                               -- 6
        OS2IP tv % p                                                              -- 7  e_j
                                                                                  -- 8  u_i = (e_0, …, e_(m-1))
end PP.Rfc
