/-
  PP.Spec.Hash — executable reference implementations of
    * SHA-256, SHA-512          (FIPS 180-4)
    * SHAKE128, SHAKE256        (FIPS 202)
  Core Lean only.  Every definition is total (bounded `for` loops over ranges);
  `a[i]!` is used for indexing and every index is in range by construction.
  Validated byte-for-byte against Python's `hashlib` (see the project notes).
-/

namespace PP.Hash

/-! ## Shared helpers -/

/-- `k` zero bytes appended to `b`. -/
def pushZeros (b : ByteArray) (k : Nat) : ByteArray := Id.run do
  let mut b := b
  for _ in [0:k] do b := b.push 0
  return b

/-- Big-endian encoding of `n` (mod 2^(8k)) in `k` bytes, appended to `b`. -/
def pushBE (b : ByteArray) (n k : Nat) : ByteArray := Id.run do
  let mut b := b
  for i in [0:k] do b := b.push (UInt8.ofNat (n >>> (8 * (k - 1 - i))))
  return b

/-- FIPS 180-4 §5.1 padding: `msg ‖ 0x80 ‖ 0…0 ‖ bitlen`, where the bit length is
big-endian in `lenBytes` bytes and the total length is the least multiple of `block`. -/
def mdPad (msg : ByteArray) (block lenBytes : Nat) : ByteArray :=
  let zeros := (block - (msg.size + 1 + lenBytes) % block) % block
  pushBE (pushZeros (msg.push 0x80) zeros) (8 * msg.size) lenBytes

/-! ## SHA-256 (FIPS 180-4 §4.1.2, §4.2.2, §5.3.3, §6.2) -/

def rotr32 (x n : UInt32) : UInt32 := (x >>> n) ||| (x <<< (32 - n))   -- 0 < n < 32

def ch32  (x y z : UInt32) : UInt32 := (x &&& y) ^^^ (~~~x &&& z)
def maj32 (x y z : UInt32) : UInt32 := (x &&& y) ^^^ (x &&& z) ^^^ (y &&& z)
def bsig0_256 (x : UInt32) : UInt32 := rotr32 x 2  ^^^ rotr32 x 13 ^^^ rotr32 x 22
def bsig1_256 (x : UInt32) : UInt32 := rotr32 x 6  ^^^ rotr32 x 11 ^^^ rotr32 x 25
def ssig0_256 (x : UInt32) : UInt32 := rotr32 x 7  ^^^ rotr32 x 18 ^^^ (x >>> 3)
def ssig1_256 (x : UInt32) : UInt32 := rotr32 x 17 ^^^ rotr32 x 19 ^^^ (x >>> 10)

def K256 : Array UInt32 := #[
  0x428a2f98, 0x71374491, 0xb5c0fbcf, 0xe9b5dba5, 0x3956c25b, 0x59f111f1, 0x923f82a4, 0xab1c5ed5,
  0xd807aa98, 0x12835b01, 0x243185be, 0x550c7dc3, 0x72be5d74, 0x80deb1fe, 0x9bdc06a7, 0xc19bf174,
  0xe49b69c1, 0xefbe4786, 0x0fc19dc6, 0x240ca1cc, 0x2de92c6f, 0x4a7484aa, 0x5cb0a9dc, 0x76f988da,
  0x983e5152, 0xa831c66d, 0xb00327c8, 0xbf597fc7, 0xc6e00bf3, 0xd5a79147, 0x06ca6351, 0x14292967,
  0x27b70a85, 0x2e1b2138, 0x4d2c6dfc, 0x53380d13, 0x650a7354, 0x766a0abb, 0x81c2c92e, 0x92722c85,
  0xa2bfe8a1, 0xa81a664b, 0xc24b8b70, 0xc76c51a3, 0xd192e819, 0xd6990624, 0xf40e3585, 0x106aa070,
  0x19a4c116, 0x1e376c08, 0x2748774c, 0x34b0bcb5, 0x391c0cb3, 0x4ed8aa4a, 0x5b9cca4f, 0x682e6ff3,
  0x748f82ee, 0x78a5636f, 0x84c87814, 0x8cc70208, 0x90befffa, 0xa4506ceb, 0xbef9a3f7, 0xc67178f2]

def H256 : Array UInt32 := #[
  0x6a09e667, 0xbb67ae85, 0x3c6ef372, 0xa54ff53a, 0x510e527f, 0x9b05688c, 0x1f83d9ab, 0x5be0cd19]

/-- Big-endian 32-bit word at byte offset `off`. -/
def be32 (b : ByteArray) (off : Nat) : UInt32 :=
  (b[off]!.toUInt32 <<< 24) ||| (b[off+1]!.toUInt32 <<< 16) |||
  (b[off+2]!.toUInt32 <<< 8) ||| b[off+3]!.toUInt32

/-- One application of the SHA-256 compression function to the 64-byte block at `off`. -/
def sha256Block (H : Array UInt32) (m : ByteArray) (off : Nat) : Array UInt32 := Id.run do
  let mut w : Array UInt32 := Array.mkEmpty 64
  for t in [0:16] do
    w := w.push (be32 m (off + 4 * t))
  for t in [16:64] do
    w := w.push (ssig1_256 w[t-2]! + w[t-7]! + ssig0_256 w[t-15]! + w[t-16]!)
  let mut a := H[0]!; let mut b := H[1]!; let mut c := H[2]!; let mut d := H[3]!
  let mut e := H[4]!; let mut f := H[5]!; let mut g := H[6]!; let mut h := H[7]!
  for t in [0:64] do
    let t1 := h + bsig1_256 e + ch32 e f g + K256[t]! + w[t]!
    let t2 := bsig0_256 a + maj32 a b c
    h := g; g := f; f := e; e := d + t1
    d := c; c := b; b := a; a := t1 + t2
  return #[H[0]! + a, H[1]! + b, H[2]! + c, H[3]! + d, H[4]! + e, H[5]! + f, H[6]! + g, H[7]! + h]

def sha256 (msg : List UInt8) : List UInt8 := Id.run do
  let m := mdPad msg.toByteArray 64 8
  let mut H := H256
  for i in [0:m.size / 64] do
    H := sha256Block H m (64 * i)
  let mut out := ByteArray.emptyWithCapacity 32
  for x in H do
    out := pushBE out x.toNat 4
  return out.toList

/-! ## SHA-512 (FIPS 180-4 §4.1.3, §4.2.3, §5.3.5, §6.4) -/

def rotr64 (x n : UInt64) : UInt64 := (x >>> n) ||| (x <<< (64 - n))   -- 0 < n < 64

def ch64  (x y z : UInt64) : UInt64 := (x &&& y) ^^^ (~~~x &&& z)
def maj64 (x y z : UInt64) : UInt64 := (x &&& y) ^^^ (x &&& z) ^^^ (y &&& z)
def bsig0_512 (x : UInt64) : UInt64 := rotr64 x 28 ^^^ rotr64 x 34 ^^^ rotr64 x 39
def bsig1_512 (x : UInt64) : UInt64 := rotr64 x 14 ^^^ rotr64 x 18 ^^^ rotr64 x 41
def ssig0_512 (x : UInt64) : UInt64 := rotr64 x 1  ^^^ rotr64 x 8  ^^^ (x >>> 7)
def ssig1_512 (x : UInt64) : UInt64 := rotr64 x 19 ^^^ rotr64 x 61 ^^^ (x >>> 6)

def K512 : Array UInt64 := #[
  0x428a2f98d728ae22, 0x7137449123ef65cd, 0xb5c0fbcfec4d3b2f, 0xe9b5dba58189dbbc,
  0x3956c25bf348b538, 0x59f111f1b605d019, 0x923f82a4af194f9b, 0xab1c5ed5da6d8118,
  0xd807aa98a3030242, 0x12835b0145706fbe, 0x243185be4ee4b28c, 0x550c7dc3d5ffb4e2,
  0x72be5d74f27b896f, 0x80deb1fe3b1696b1, 0x9bdc06a725c71235, 0xc19bf174cf692694,
  0xe49b69c19ef14ad2, 0xefbe4786384f25e3, 0x0fc19dc68b8cd5b5, 0x240ca1cc77ac9c65,
  0x2de92c6f592b0275, 0x4a7484aa6ea6e483, 0x5cb0a9dcbd41fbd4, 0x76f988da831153b5,
  0x983e5152ee66dfab, 0xa831c66d2db43210, 0xb00327c898fb213f, 0xbf597fc7beef0ee4,
  0xc6e00bf33da88fc2, 0xd5a79147930aa725, 0x06ca6351e003826f, 0x142929670a0e6e70,
  0x27b70a8546d22ffc, 0x2e1b21385c26c926, 0x4d2c6dfc5ac42aed, 0x53380d139d95b3df,
  0x650a73548baf63de, 0x766a0abb3c77b2a8, 0x81c2c92e47edaee6, 0x92722c851482353b,
  0xa2bfe8a14cf10364, 0xa81a664bbc423001, 0xc24b8b70d0f89791, 0xc76c51a30654be30,
  0xd192e819d6ef5218, 0xd69906245565a910, 0xf40e35855771202a, 0x106aa07032bbd1b8,
  0x19a4c116b8d2d0c8, 0x1e376c085141ab53, 0x2748774cdf8eeb99, 0x34b0bcb5e19b48a8,
  0x391c0cb3c5c95a63, 0x4ed8aa4ae3418acb, 0x5b9cca4f7763e373, 0x682e6ff3d6b2b8a3,
  0x748f82ee5defb2fc, 0x78a5636f43172f60, 0x84c87814a1f0ab72, 0x8cc702081a6439ec,
  0x90befffa23631e28, 0xa4506cebde82bde9, 0xbef9a3f7b2c67915, 0xc67178f2e372532b,
  0xca273eceea26619c, 0xd186b8c721c0c207, 0xeada7dd6cde0eb1e, 0xf57d4f7fee6ed178,
  0x06f067aa72176fba, 0x0a637dc5a2c898a6, 0x113f9804bef90dae, 0x1b710b35131c471b,
  0x28db77f523047d84, 0x32caab7b40c72493, 0x3c9ebe0a15c9bebc, 0x431d67c49c100d4c,
  0x4cc5d4becb3e42b6, 0x597f299cfc657e2a, 0x5fcb6fab3ad6faec, 0x6c44198c4a475817]

def H512 : Array UInt64 := #[
  0x6a09e667f3bcc908, 0xbb67ae8584caa73b, 0x3c6ef372fe94f82b, 0xa54ff53a5f1d36f1,
  0x510e527fade682d1, 0x9b05688c2b3e6c1f, 0x1f83d9abfb41bd6b, 0x5be0cd19137e2179]

/-- Big-endian 64-bit word at byte offset `off`. -/
def be64 (b : ByteArray) (off : Nat) : UInt64 := Id.run do
  let mut x : UInt64 := 0
  for i in [0:8] do x := (x <<< 8) ||| b[off+i]!.toUInt64
  return x

/-- One application of the SHA-512 compression function to the 128-byte block at `off`. -/
def sha512Block (H : Array UInt64) (m : ByteArray) (off : Nat) : Array UInt64 := Id.run do
  let mut w : Array UInt64 := Array.mkEmpty 80
  for t in [0:16] do
    w := w.push (be64 m (off + 8 * t))
  for t in [16:80] do
    w := w.push (ssig1_512 w[t-2]! + w[t-7]! + ssig0_512 w[t-15]! + w[t-16]!)
  let mut a := H[0]!; let mut b := H[1]!; let mut c := H[2]!; let mut d := H[3]!
  let mut e := H[4]!; let mut f := H[5]!; let mut g := H[6]!; let mut h := H[7]!
  for t in [0:80] do
    let t1 := h + bsig1_512 e + ch64 e f g + K512[t]! + w[t]!
    let t2 := bsig0_512 a + maj64 a b c
    h := g; g := f; f := e; e := d + t1
    d := c; c := b; b := a; a := t1 + t2
  return #[H[0]! + a, H[1]! + b, H[2]! + c, H[3]! + d, H[4]! + e, H[5]! + f, H[6]! + g, H[7]! + h]

def sha512 (msg : List UInt8) : List UInt8 := Id.run do
  let m := mdPad msg.toByteArray 128 16
  let mut H := H512
  for i in [0:m.size / 128] do
    H := sha512Block H m (128 * i)
  let mut out := ByteArray.emptyWithCapacity 64
  for x in H do
    out := pushBE out x.toNat 8
  return out.toList

/-! ## Keccak-f[1600] and SHAKE (FIPS 202 §3.2–3.4, §4, §6.2)

The state is 25 lanes of 64 bits; lane `A[x,y]` is stored at index `x + 5*y`. -/

/-- Rotate left; `n % 64 = 0` gives the identity since `UInt64` shifts take the amount mod 64. -/
def rotl64 (x n : UInt64) : UInt64 := (x <<< n) ||| (x >>> (64 - n))

/-- ρ rotation offsets, indexed by `x + 5*y` (FIPS 202 Table 2, reduced mod 64). -/
def rhoOffsets : Array UInt64 := #[
   0,  1, 62, 28, 27,
  36, 44,  6, 55, 20,
   3, 10, 43, 25, 39,
  41, 45, 15, 21,  8,
  18,  2, 61, 56, 14]

/-- ι round constants `RC[0..23]`. -/
def keccakRC : Array UInt64 := #[
  0x0000000000000001, 0x0000000000008082, 0x800000000000808a, 0x8000000080008000,
  0x000000000000808b, 0x0000000080000001, 0x8000000080008081, 0x8000000000008009,
  0x000000000000008a, 0x0000000000000088, 0x0000000080008009, 0x000000008000000a,
  0x000000008000808b, 0x800000000000008b, 0x8000000000008089, 0x8000000000008003,
  0x8000000000008002, 0x8000000000000080, 0x000000000000800a, 0x800000008000000a,
  0x8000000080008081, 0x8000000000008080, 0x0000000080000001, 0x8000000080008008]

/-- One round `ι ∘ χ ∘ π ∘ ρ ∘ θ` with round constant `rc`. -/
def keccakRound (A : Array UInt64) (rc : UInt64) : Array UInt64 := Id.run do
  -- θ : A[x,y] ^= C[x-1] ^ rotl(C[x+1], 1), with C[x] the column parity
  let mut C : Array UInt64 := Array.mkEmpty 5
  for x in [0:5] do
    C := C.push (A[x]! ^^^ A[x+5]! ^^^ A[x+10]! ^^^ A[x+15]! ^^^ A[x+20]!)
  let mut A := A
  for x in [0:5] do
    let d := C[(x+4) % 5]! ^^^ rotl64 C[(x+1) % 5]! 1
    for y in [0:5] do
      A := A.set! (x + 5*y) (A[x + 5*y]! ^^^ d)
  -- ρ and π : B[y, 2x+3y] = rotl(A[x,y], r[x,y])
  let mut B : Array UInt64 := Array.replicate 25 0
  for x in [0:5] do
    for y in [0:5] do
      B := B.set! (y + 5 * ((2*x + 3*y) % 5)) (rotl64 A[x + 5*y]! rhoOffsets[x + 5*y]!)
  -- χ : A[x,y] = B[x,y] ^ (¬B[x+1,y] & B[x+2,y])
  for y in [0:5] do
    for x in [0:5] do
      A := A.set! (x + 5*y) (B[x + 5*y]! ^^^ (~~~B[(x+1) % 5 + 5*y]! &&& B[(x+2) % 5 + 5*y]!))
  -- ι
  return A.set! 0 (A[0]! ^^^ rc)

def keccakF1600 (A : Array UInt64) : Array UInt64 := Id.run do
  let mut A := A
  for rc in keccakRC do
    A := keccakRound A rc
  return A

/-- Little-endian 64-bit word at byte offset `off`. -/
def le64 (b : ByteArray) (off : Nat) : UInt64 := Id.run do
  let mut x : UInt64 := 0
  for i in [0:8] do x := x ||| (b[off+i]!.toUInt64 <<< (8 * i).toUInt64)
  return x

/-- Sponge with Keccak-f[1600], byte rate `rate` (a multiple of 8, < 200), domain-separation
suffix byte `suffix` (message-suffix bits followed by the first `1` of pad10*1, LSB first),
and `outLen` output bytes. -/
def keccakSponge (rate : Nat) (suffix : UInt8) (msg : List UInt8) (outLen : Nat) : List UInt8 :=
  Id.run do
  -- pad: msg ‖ suffix ‖ 0…0 ‖ 0x80 (the two coincide, OR-ed, if only one byte is missing)
  let m0 := msg.toByteArray
  let n := m0.size
  let mut m := pushZeros m0 (rate - n % rate)
  m := m.set! n (m[n]! ||| suffix)
  m := m.set! (m.size - 1) (m[m.size - 1]! ||| 0x80)
  -- absorb
  let mut A : Array UInt64 := Array.replicate 25 0
  for i in [0:m.size / rate] do
    for j in [0:rate / 8] do
      A := A.set! j (A[j]! ^^^ le64 m (rate * i + 8 * j))
    A := keccakF1600 A
  -- squeeze
  let mut out := ByteArray.emptyWithCapacity outLen
  for i in [0:(outLen + rate - 1) / rate] do
    if i > 0 then A := keccakF1600 A
    for j in [0:rate / 8] do
      for k in [0:8] do
        out := out.push (A[j]! >>> (8 * k).toUInt64).toUInt8
  return (out.extract 0 outLen).toList

/-- SHAKE128: capacity 256 bits, rate 168 bytes, suffix bits `1111` then pad10*1. -/
def shake128 (msg : List UInt8) (outLen : Nat) : List UInt8 := keccakSponge 168 0x1F msg outLen

/-- SHAKE256: capacity 512 bits, rate 136 bytes, suffix bits `1111` then pad10*1. -/
def shake256 (msg : List UInt8) (outLen : Nat) : List UInt8 := keccakSponge 136 0x1F msg outLen

end PP.Hash
