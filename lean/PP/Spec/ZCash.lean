/-
  PP.Spec.ZCash — the ZCash BLS12-381 point serialization format ("flags in the top three bits of a
  big-endian field element"), written declaratively:

    * §1  I2OSP / OS2IP (RFC 8017 §4.1, §4.2) and the base-field modulus;
    * §2  how one coordinate (`Fq`, or `Fq2` with `c1` before `c0`) is laid out, range checked and read back;
    * §3  the flag bits `c` (bit 7: compressed form), `i` (bit 6: point at infinity), `s` (bit 5: sort flag);
    * §4  `encode`: the byte string of a point in either form;
    * §5  `validate`: the ORDERED validation of a byte string (form flag; infinity/sort flags; coordinate
          range; curve membership / square root; subgroup membership) returning either the FIRST failed
          step or the decoded point; `firstFailure`, `Accepts` are its two projections.

  Core Lean only (no Mathlib).  From the model this file imports DATA TYPES only (`Bytes`, `Aff`,
  `DecodeErr`, `Fq = Zp q`, `Fq2`, and the constructor `Zp.ofNat n = ⟨n % p, _⟩`); none of the model's
  encoding / decoding functions (`beBytes`, `beToNat`, `maskFirst`, `Codec`, `decode…`, `encode…`,
  `getPointFromX`, `isOnCurve`, …) is used.  The only non-executable ingredient is the square root of
  step (4), which is specified by existence (`root?`, via `Classical.choose`).
-/
import PP.Model.Enc

namespace PP.ZCash

/-! ## §1 integers and byte strings -/

/-- the base-field modulus of BLS12-381 (381 bits) -/
def q : Nat :=
  0x1a0111ea397fe69a4b1ba7b6434bacd764774b84f38512bf6730d2a0f6b0f6241eabfffeb153ffffb9feffffffffaaab

/-- `I2OSP(x, xLen)`: the `xLen`-byte big-endian string of `x` (RFC 8017 §4.1); every use below has
`x < 256^xLen`. -/
def I2OSP : Nat → Nat → Bytes
  | _, 0 => []
  | x, xLen + 1 => I2OSP (x / 256) xLen ++ [UInt8.ofNat (x % 256)]

/-- `OS2IP(X)`: first byte most significant (RFC 8017 §4.2). -/
def OS2IP : Bytes → Nat
  | [] => 0
  | X_1 :: rest => X_1.toNat * 256 ^ rest.length + OS2IP rest

/-! ## §2 one coordinate on the wire -/

/-- The wire format of one coordinate of type `F`. -/
structure Coord (F : Type) where
  /-- number of bytes -/
  size : Nat
  /-- the byte string of a coordinate -/
  bytes : F → Bytes
  /-- range check of a `size`-byte string for the coordinate called `name` ("x"/"y"): `none` if every
      base-field component is reduced (`< q`), else the description of the first offending component,
      in the order in which the components are checked -/
  rangeFailure : String → Bytes → Option String
  /-- the coordinate denoted by a `size`-byte string that passes the range check -/
  value : Bytes → F

/-- `Fq`: 48 bytes, big-endian, value `< q`. -/
def fqCoord : Coord Fq where
  size := 48
  bytes a := I2OSP a.v 48
  rangeFailure name bs := if OS2IP bs < q then none else some (name ++ " coordinate")
  value bs := Zp.ofNat (OS2IP bs)

/-- `Fq2 = c0 + c1·u`: 96 bytes, `c1` BEFORE `c0`, each as for `Fq`.  The range check looks at `c0`
first, then at `c1`. -/
def fq2Coord : Coord Fq2 where
  size := 96
  bytes a := I2OSP a.c1.v 48 ++ I2OSP a.c0.v 48
  rangeFailure name bs :=
    if ¬ OS2IP (bs.drop 48) < q then some (name ++ " coordinate (c0)")
    else if ¬ OS2IP (bs.take 48) < q then some (name ++ " coordinate (c1)")
    else none
  value bs := ⟨Zp.ofNat (OS2IP (bs.drop 48)), Zp.ofNat (OS2IP (bs.take 48))⟩

/-! ## §3 flags -/

/-- the three most significant bits of byte 0 -/
structure Flags where
  /-- bit 7: the string is in compressed form -/
  c : Bool
  /-- bit 6: the point at infinity -/
  i : Bool
  /-- bit 5: sort flag — `y` is the larger of `y`, `−y` (compressed form only) -/
  s : Bool
deriving DecidableEq, Repr

/-- bit `k` of a byte -/
def bit (b : UInt8) (k : Nat) : Bool := b.toNat.testBit k

def flags (bs : Bytes) : Flags :=
  let b0 := bs.headD 0
  ⟨bit b0 7, bit b0 6, bit b0 5⟩

def Flags.toByte (f : Flags) : UInt8 :=
  (if f.c then 0x80 else 0) ||| (if f.i then 0x40 else 0) ||| (if f.s then 0x20 else 0)

/-- or the flags into the top three bits of byte 0 -/
def setFlags (f : Flags) : Bytes → Bytes
  | [] => []
  | b :: rest => (b ||| f.toByte) :: rest

/-- the string with the three flag bits cleared -/
def clearFlags : Bytes → Bytes
  | [] => []
  | b :: rest => (b &&& 0x1f) :: rest

inductive Form
  | compressed
  | uncompressed
deriving DecidableEq, Repr

def Form.isCompressed : Form → Bool
  | .compressed => true
  | .uncompressed => false

variable {F : Type}

/-- 48 / 96 bytes for G1, 96 / 192 bytes for G2 -/
def Form.length (C : Coord F) : Form → Nat
  | .compressed => C.size
  | .uncompressed => 2 * C.size

/-! ## §4 encoding -/

/-- What the format needs to know about the curve `y² = x³ + b` over `F`. -/
structure Curve (F : Type) where
  coord : Coord F
  b : F
  /-- the strict "lexicographic" order on coordinates used by the sort flag -/
  lt : F → F → Bool
  /-- membership in the order-`r` subgroup -/
  inSubgroup : Aff F → Bool

/-- the encoding of the identity: flag byte `0x40 ||| (c ? 0x80 : 0)`, then zeros -/
def identityBytes (C : Coord F) (form : Form) : Bytes :=
  setFlags ⟨form.isCompressed, true, false⟩ (List.replicate (form.length C) 0)

/-- The encoding of an affine record.  A finite point is the big-endian coordinate(s) (`x` only if
compressed, `x` then `y` otherwise) with the flags or-ed into the top three bits; `s = 1` iff the form is
compressed and `y` is the larger of `{y, −y}`, i.e. `−y < y`. -/
def encode [Neg F] (K : Curve F) (form : Form) (A : Aff F) : Bytes :=
  if A.infinity then identityBytes K.coord form
  else
    match form with
    | .compressed => setFlags ⟨true, false, K.lt (-A.y) A.y⟩ (K.coord.bytes A.x)
    | .uncompressed => setFlags ⟨false, false, false⟩ (K.coord.bytes A.x ++ K.coord.bytes A.y)

/-! ## §5 ordered validation -/

/-- `y` is the root designated by the sort flag `s`: not the smaller of `{y, −y}` if `s = 1`, not the
larger if `s = 0`.  (For `y = −y`, i.e. `y = 0`, both hold: the flag is not looked at.) -/
def Selected [Neg F] (lt : F → F → Bool) (s : Bool) (y : F) : Prop :=
  if s then lt y (-y) = false else lt (-y) y = false

open Classical in
/-- "`a` has a square root, and the root selected by `s`" -/
noncomputable def root? [Mul F] [Neg F] (lt : F → F → Bool) (a : F) (s : Bool) : Option F :=
  if h : ∃ y : F, y * y = a ∧ Selected lt s y then some (Classical.choose h) else none

/-- The ordered validation of a byte string `bs` of length `form.length` as an encoding in the given
form; `checked = false` is the "unchecked" variant, which omits the curve-equation test of the
uncompressed form and the subgroup test (the square-root step of the compressed form stays).
Result: the first failed step, or the point.

  (1) the form flag `c` must match the form                                → `compressionMode`
  (2) if `i` is set, all other bits (including `s`) must be zero, i.e. the string is `identityBytes`;
      the result is then the identity record `⟨0, 1, true⟩`;
      if `i` is clear, `s` must be clear in uncompressed form               → `unexpectedInfo`
  (3) each coordinate (flag bits cleared) must be in range, `x` before `y`  → `coord _`
  (4) uncompressed: `y² = x³ + b`; compressed: `x³ + b` has a square root, `y` := the selected one
                                                                            → `notOnCurve`
  (5) the point is in the subgroup                                          → `notInSubgroup` -/
noncomputable def validate [Add F] [Mul F] [Neg F] [Zero F] [One F] [DecidableEq F]
    (K : Curve F) (form : Form) (checked : Bool) (bs : Bytes) : Except DecodeErr (Aff F) :=
  let f := flags bs
  let sz := K.coord.size
  if f.c ≠ form.isCompressed then .error .compressionMode                                   -- (1)
  else if f.i then                                                                           -- (2)
    if bs = identityBytes K.coord form then .ok ⟨0, 1, true⟩ else .error .unexpectedInfo
  else if form = .uncompressed ∧ f.s = true then .error .unexpectedInfo                     -- (2)
  else
    let body := clearFlags bs
    match K.coord.rangeFailure "x" (body.take sz) with                                       -- (3)
    | some e => .error (.coord e)
    | none =>
      let x := K.coord.value (body.take sz)
      match form with
      | .uncompressed =>
        match K.coord.rangeFailure "y" (body.drop sz) with                                   -- (3)
        | some e => .error (.coord e)
        | none =>
          let y := K.coord.value (body.drop sz)
          if checked = true ∧ y * y ≠ x * x * x + K.b then .error .notOnCurve                -- (4)
          else if checked = true ∧ K.inSubgroup ⟨x, y, false⟩ = false then .error .notInSubgroup  -- (5)
          else .ok ⟨x, y, false⟩
      | .compressed =>
        match root? K.lt (x * x * x + K.b) f.s with                                          -- (4)
        | none => .error .notOnCurve
        | some y =>
          if checked = true ∧ K.inSubgroup ⟨x, y, false⟩ = false then .error .notInSubgroup  -- (5)
          else .ok ⟨x, y, false⟩

/-- the first failed validation step, if any -/
noncomputable def firstFailure [Add F] [Mul F] [Neg F] [Zero F] [One F] [DecidableEq F]
    (K : Curve F) (form : Form) (checked : Bool) (bs : Bytes) : Option DecodeErr :=
  match validate K form checked bs with
  | .error e => some e
  | .ok _ => none

/-- `bs` passes every validation step and denotes the point `A` -/
def Accepts [Add F] [Mul F] [Neg F] [Zero F] [One F] [DecidableEq F]
    (K : Curve F) (form : Form) (checked : Bool) (bs : Bytes) (A : Aff F) : Prop :=
  validate K form checked bs = .ok A

end PP.ZCash
