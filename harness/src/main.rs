//! Line-protocol executor for the REAL code of /repo (built with `--cfg pairing_plus_verif`).
//! Same protocol as /verif/lean/Driver.lean: one case per line on stdin, one result per line on
//! stdout.  Every case runs under `catch_unwind`; a panic prints `PANIC`.
#![allow(clippy::many_single_char_names)]

use digest::generic_array::GenericArray;
use ff_zeroize::{Field, LegendreSymbol, PrimeField, PrimeFieldRepr, SqrtField};
use pairing_plus::bls12_381::transmute;
use pairing_plus::bls12_381::verif_hooks::{
    chain_p2m9div16, chain_pm3div4, chain_z, ClearH, IsogenyMap, OSSWUMap,
};
use pairing_plus::bls12_381::{
    Bls12, Fq, Fq12, Fq2, Fq6, FqRepr, Fr, FrRepr, G1Affine, G1Compressed, G1Uncompressed,
    G2Affine, G2Compressed, G2Uncompressed, G1, G2,
};
use pairing_plus::hash_to_curve::HashToCurve;
use pairing_plus::hash_to_field::{hash_to_field, BaseFromRO, ExpandMsg, ExpandMsgXmd, ExpandMsgXof, FromRO};
use pairing_plus::map_to_curve::MapToCurve;
use pairing_plus::serdes::SerDes;
use pairing_plus::signum::{Sgn0Result, Signum0};
use pairing_plus::verif_hooks::{wnaf_exp, wnaf_form, wnaf_table};
use pairing_plus::{CurveAffine, CurveProjective, EncodedPoint, Engine, GroupDecodingError, SubgroupCheck, Wnaf};
use std::io::{self, BufRead, Write};
use std::panic;

type R = Option<String>;

/// a legal `Read` that hands out at most `chunk` bytes per call (short reads), to exercise callers that
/// must use `read_exact`
struct Chunked<'a> {
    data: &'a [u8],
    pos: usize,
    chunk: usize,
}
impl<'a> io::Read for Chunked<'a> {
    fn read(&mut self, buf: &mut [u8]) -> io::Result<usize> {
        let n = buf.len().min(self.chunk).min(self.data.len() - self.pos);
        buf[..n].copy_from_slice(&self.data[self.pos..self.pos + n]);
        self.pos += n;
        Ok(n)
    }
}

// ------------------------------------------------------------------ parsing helpers

fn hexval(c: u8) -> Option<u64> {
    match c {
        b'0'..=b'9' => Some((c - b'0') as u64),
        b'a'..=b'f' => Some((c - b'a' + 10) as u64),
        b'A'..=b'F' => Some((c - b'A' + 10) as u64),
        _ => None,
    }
}

/// hex -> little-endian limbs (exactly `n`); None if it does not fit or is malformed
fn parse_limbs(s: &str, n: usize) -> Option<Vec<u64>> {
    if s.is_empty() {
        return None;
    }
    let mut limbs = vec![0u64; n];
    let bytes = s.as_bytes();
    let mut pos = 0usize; // bit position
    for &c in bytes.iter().rev() {
        let v = hexval(c)?;
        if v != 0 {
            let li = pos / 64;
            if li >= n {
                return None;
            }
            limbs[li] |= v << (pos % 64);
        }
        pos += 4;
    }
    Some(limbs)
}

fn parse_u64(s: &str) -> Option<u64> {
    parse_limbs(s, 1).map(|l| l[0])
}

fn parse_usize(s: &str) -> Option<usize> {
    parse_u64(s).map(|v| v as usize)
}

fn limbs_hex(l: &[u64]) -> String {
    let mut s = String::new();
    let mut started = false;
    for w in l.iter().rev() {
        if started {
            s.push_str(&format!("{:016x}", w));
        } else if *w != 0 {
            s.push_str(&format!("{:x}", w));
            started = true;
        }
    }
    if !started {
        s.push('0');
    }
    s
}

fn parse_bytes(s: &str) -> Option<Vec<u8>> {
    if s == "-" {
        return Some(vec![]);
    }
    let b = s.as_bytes();
    if b.len() % 2 != 0 {
        return None;
    }
    let mut out = Vec::with_capacity(b.len() / 2);
    for i in 0..b.len() / 2 {
        out.push((hexval(b[2 * i])? * 16 + hexval(b[2 * i + 1])?) as u8);
    }
    Some(out)
}

fn show_bytes(b: &[u8]) -> String {
    if b.is_empty() {
        return "-".to_string();
    }
    let mut s = String::with_capacity(b.len() * 2);
    for x in b {
        s.push_str(&format!("{:02x}", x));
    }
    s
}

fn split_list(s: &str) -> Vec<&str> {
    if s == "-" {
        vec![]
    } else {
        s.split(';').collect()
    }
}

fn show_bool(b: bool) -> String {
    if b { "true" } else { "false" }.to_string()
}

// ------------------------------------------------------------------ element codecs

trait Elem: Sized + Copy {
    fn parse(s: &str) -> Option<Self>;
    fn show(&self) -> String;
}

fn repr6(l: &[u64]) -> FqRepr {
    FqRepr([l[0], l[1], l[2], l[3], l[4], l[5]])
}
fn repr4(l: &[u64]) -> FrRepr {
    FrRepr([l[0], l[1], l[2], l[3]])
}

impl Elem for Fq {
    fn parse(s: &str) -> Option<Self> {
        Fq::from_repr(repr6(&parse_limbs(s, 6)?)).ok()
    }
    fn show(&self) -> String {
        // an element whose stored (Montgomery) limbs are not below the modulus is not a field element at all:
        // equality and zero tests on it are wrong even though into_repr() may print a plausible value
        if !(self.verif_raw() < Fq::char()) {
            return format!("NONCANONICAL-RAW:{}", limbs_hex(&self.verif_raw().0));
        }
        limbs_hex(&self.into_repr().0)
    }
}
impl Elem for Fr {
    fn parse(s: &str) -> Option<Self> {
        Fr::from_repr(repr4(&parse_limbs(s, 4)?)).ok()
    }
    fn show(&self) -> String {
        if !(self.verif_raw() < Fr::char()) {
            return format!("NONCANONICAL-RAW:{}", limbs_hex(&self.verif_raw().0));
        }
        limbs_hex(&self.into_repr().0)
    }
}
impl Elem for Fq2 {
    fn parse(s: &str) -> Option<Self> {
        let v: Vec<&str> = s.split(',').collect();
        if v.len() != 2 {
            return None;
        }
        Some(Fq2 { c0: Fq::parse(v[0])?, c1: Fq::parse(v[1])? })
    }
    fn show(&self) -> String {
        format!("{},{}", self.c0.show(), self.c1.show())
    }
}
impl Elem for Fq6 {
    fn parse(s: &str) -> Option<Self> {
        let v: Vec<&str> = s.split(',').collect();
        if v.len() != 6 {
            return None;
        }
        let f = |i: usize| Fq::parse(v[i]);
        Some(Fq6 {
            c0: Fq2 { c0: f(0)?, c1: f(1)? },
            c1: Fq2 { c0: f(2)?, c1: f(3)? },
            c2: Fq2 { c0: f(4)?, c1: f(5)? },
        })
    }
    fn show(&self) -> String {
        format!("{},{},{}", self.c0.show(), self.c1.show(), self.c2.show())
    }
}
impl Elem for Fq12 {
    fn parse(s: &str) -> Option<Self> {
        let v: Vec<&str> = s.split(',').collect();
        if v.len() != 12 {
            return None;
        }
        let a = Fq6::parse(&v[0..6].join(","))?;
        let b = Fq6::parse(&v[6..12].join(","))?;
        Some(Fq12 { c0: a, c1: b })
    }
    fn show(&self) -> String {
        format!("{},{}", self.c0.show(), self.c1.show())
    }
}

fn show_opt<T: Elem>(o: Option<T>) -> String {
    match o {
        Some(a) => a.show(),
        None => "none".to_string(),
    }
}

// ------------------------------------------------------------------ field ops

fn field_op<T: Field + Elem + PartialEq>(op: &str, a: &[&str]) -> R {
    Some(match (op, a.len()) {
        ("add", 2) => { let mut x = T::parse(a[0])?; x.add_assign(&T::parse(a[1])?); x.show() }
        ("sub", 2) => { let mut x = T::parse(a[0])?; x.sub_assign(&T::parse(a[1])?); x.show() }
        ("mul", 2) => { let mut x = T::parse(a[0])?; x.mul_assign(&T::parse(a[1])?); x.show() }
        ("neg", 1) => { let mut x = T::parse(a[0])?; x.negate(); x.show() }
        ("dbl", 1) => { let mut x = T::parse(a[0])?; x.double(); x.show() }
        ("sq", 1) => { let mut x = T::parse(a[0])?; x.square(); x.show() }
        ("inv", 1) => show_opt(T::parse(a[0])?.inverse()),
        ("iszero", 1) => show_bool(T::parse(a[0])?.is_zero()),
        ("eq", 2) => show_bool(T::parse(a[0])? == T::parse(a[1])?),
        ("frob", 2) => { let mut x = T::parse(a[0])?; x.frobenius_map(parse_usize(a[1])?); x.show() }
        ("pow", 2) => {
            let x = T::parse(a[0])?;
            let mut ls = vec![];
            for t in split_list(a[1]) { ls.push(parse_u64(t)?); }
            x.pow(&ls).show()
        }
        _ => return None,
    })
}

fn show_leg(l: LegendreSymbol) -> String {
    match l {
        LegendreSymbol::Zero => "Zero",
        LegendreSymbol::QuadraticResidue => "QuadraticResidue",
        LegendreSymbol::QuadraticNonResidue => "QuadraticNonResidue",
    }.to_string()
}
fn show_sgn(s: Sgn0Result) -> String {
    match s {
        Sgn0Result::NonNegative => "NonNegative",
        Sgn0Result::Negative => "Negative",
    }.to_string()
}

fn sqrt_op<T: SqrtField + Elem + PartialOrd + Ord + Copy>(op: &str, a: &[&str]) -> R {
    Some(match (op, a.len()) {
        ("sqrt", 1) => show_opt(T::parse(a[0])?.sqrt()),
        ("legendre", 1) => show_leg(T::parse(a[0])?.legendre()),
        ("lt", 2) => show_bool(T::parse(a[0])? < T::parse(a[1])?),
        // every comparison entry point: Ord::cmp, PartialOrd::partial_cmp, the four operators, max/min
        ("cmpall", 2) => { let (x, y) = (T::parse(a[0])?, T::parse(a[1])?);
            let o = |c: std::cmp::Ordering| match c { std::cmp::Ordering::Less => -1, std::cmp::Ordering::Equal => 0, std::cmp::Ordering::Greater => 1 };
            format!("{} {} {} {} {} {} {} {}", o(x.cmp(&y)), x.partial_cmp(&y).map(o).unwrap_or(9), show_bool(x < y), show_bool(x <= y), show_bool(x > y), show_bool(x >= y),
                    std::cmp::max(x, y).show(), std::cmp::min(x, y).show()) }
        _ => return None,
    })
}
fn sgn_op<T: Signum0 + Elem>(op: &str, a: &[&str]) -> R {
    Some(match (op, a.len()) {
        ("sgn0", 1) => show_sgn(T::parse(a[0])?.sgn0()),
        ("negif", 2) => { let mut x = T::parse(a[0])?; x.negate_if(if a[1] == "1" { Sgn0Result::Negative } else { Sgn0Result::NonNegative }); x.show() }
        ("sgnxor", 2) => { let f = |t: &str| if t == "1" { Sgn0Result::Negative } else { Sgn0Result::NonNegative }; show_sgn(f(a[0]) ^ f(a[1])) }
        _ => return None,
    })
}

// ------------------------------------------------------------------ groups

fn show_gde(e: &GroupDecodingError) -> String {
    match e {
        GroupDecodingError::NotOnCurve => "NotOnCurve".to_string(),
        GroupDecodingError::NotInSubgroup => "NotInSubgroup".to_string(),
        GroupDecodingError::CoordinateDecodingError(d, _) => format!("CoordinateDecodingError({})", d),
        GroupDecodingError::UnexpectedCompressionMode => "UnexpectedCompressionMode".to_string(),
        GroupDecodingError::UnexpectedInformation => "UnexpectedInformation".to_string(),
    }
}

fn show_ioerr(e: &io::Error) -> String {
    match e.kind() {
        io::ErrorKind::UnexpectedEof => "ERR:eof".to_string(),
        io::ErrorKind::InvalidData => {
            if let Some(inner) = e.get_ref() {
                if let Some(g) = inner.downcast_ref::<GroupDecodingError>() {
                    return format!("ERR:decode:{}", show_gde(g));
                }
                if inner.to_string() == "Invalid compressness" {
                    return "ERR:compressness".to_string();
                }
            }
            format!("ERR:invalid-data:{}", e)
        }
        io::ErrorKind::Other => "ERR:notInField".to_string(),
        k => format!("ERR:io:{:?}", k),
    }
}

macro_rules! group_impl {
    ($modname:ident, $proj:ident, $aff:ident, $base:ident, $comp:ident, $uncomp:ident,
     $tr_proj:path, $tr_aff:path, $csize:expr) => {
        mod $modname {
            use super::*;

            pub fn parse_jac(s: &str) -> Option<$proj> {
                let v: Vec<&str> = s.split('/').collect();
                if v.len() != 3 {
                    return None;
                }
                Some(unsafe { $tr_proj($base::parse(v[0])?, $base::parse(v[1])?, $base::parse(v[2])?) })
            }
            pub fn parse_aff(s: &str) -> Option<$aff> {
                if s == "inf" {
                    return Some($aff::zero());
                }
                let v: Vec<&str> = s.split('/').collect();
                if v.len() != 2 {
                    return None;
                }
                Some(unsafe { $tr_aff($base::parse(v[0])?, $base::parse(v[1])?, false) })
            }
            pub fn show_aff(a: &$aff) -> String {
                if a.is_zero() {
                    // the affine identity is (0, 1, infinity): affine equality is derived field by field, so an identity
                    // record with other coordinates is observably different from zero() although is_zero() holds
                    if *a == <$aff>::zero() { "inf".to_string() } else { let (x, y) = a.as_tuple(); format!("inf-noncanonical:{}/{}", x.show(), y.show()) }
                } else {
                    let (x, y) = a.as_tuple();
                    format!("{}/{}", x.show(), y.show())
                }
            }
            pub fn show_jac(p: &$proj) -> String {
                show_aff(&p.into_affine())
            }
            pub fn show_raw(p: &$proj) -> String {
                let (x, y, z) = p.as_tuple();
                format!("{}/{}/{}", x.show(), y.show(), z.show())
            }
            fn scalar(s: &str) -> Option<FrRepr> {
                Some(repr4(&parse_limbs(s, 4)?))
            }
            fn scalars(s: &str) -> Option<Vec<[u64; 4]>> {
                let mut v = vec![];
                for t in split_list(s) {
                    let l = parse_limbs(t, 4)?;
                    v.push([l[0], l[1], l[2], l[3]]);
                }
                Some(v)
            }
            fn affs(s: &str) -> Option<Vec<$aff>> {
                let mut v = vec![];
                for t in split_list(s) {
                    v.push(parse_aff(t)?);
                }
                Some(v)
            }
            fn show_aff_list(l: &[$aff]) -> String {
                if l.is_empty() {
                    "-".to_string()
                } else {
                    l.iter().map(show_aff).collect::<Vec<_>>().join(";")
                }
            }
            fn show_dec(r: Result<$aff, GroupDecodingError>) -> String {
                match r {
                    Ok(a) => show_aff(&a),
                    Err(e) => format!("ERR:{}", show_gde(&e)),
                }
            }
            fn comp(bs: &[u8]) -> Option<$comp> {
                if bs.len() != $csize { return None; }
                let mut e = $comp::empty();
                e.as_mut().copy_from_slice(bs);
                Some(e)
            }
            fn uncomp(bs: &[u8]) -> Option<$uncomp> {
                if bs.len() != 2 * $csize { return None; }
                let mut e = $uncomp::empty();
                e.as_mut().copy_from_slice(bs);
                Some(e)
            }

            fn run_prog(regs: &mut Vec<$proj>, prog: &[&str]) -> Option<()> {
                for ins in prog {
                    let p: Vec<&str> = ins.split(',').collect();
                    let n = |i: usize| -> Option<usize> { p.get(i)?.parse::<usize>().ok() };
                    match p[0] {
                        "add" => { let (i, j) = (n(1)?, n(2)?); let t = regs[j]; regs[i].add_assign(&t); }
                        "sub" => { let (i, j) = (n(1)?, n(2)?); let t = regs[j]; regs[i].sub_assign(&t); }
                        "dbl" => { let i = n(1)?; regs[i].double(); }
                        "neg" => { let i = n(1)?; regs[i].negate(); }
                        "addm" => { let (i, j) = (n(1)?, n(2)?); let t = regs[j].into_affine(); regs[i].add_assign_mixed(&t); }
                        "subm" => { let (i, j) = (n(1)?, n(2)?); let t = regs[j].into_affine(); regs[i].sub_assign_mixed(&t); }
                        "aff" => { let i = n(1)?; regs[i] = regs[i].into_affine().into_projective(); }
                        "norm" => { $proj::batch_normalization(&mut regs[..]); }
                        "cp" => { let (i, j) = (n(1)?, n(2)?); regs[i] = regs[j]; }
                        _ => return None,
                    }
                }
                Some(())
            }

            pub fn op(op: &str, a: &[&str]) -> R {
                Some(match (op, a.len()) {
                    ("add", 2) => { let mut p = parse_jac(a[0])?; p.add_assign(&parse_jac(a[1])?); show_jac(&p) }
                    ("sub", 2) => { let mut p = parse_jac(a[0])?; p.sub_assign(&parse_jac(a[1])?); show_jac(&p) }
                    ("dbl", 1) => { let mut p = parse_jac(a[0])?; p.double(); show_jac(&p) }
                    ("neg", 1) => { let mut p = parse_jac(a[0])?; p.negate(); show_jac(&p) }
                    ("addm", 2) => { let mut p = parse_jac(a[0])?; p.add_assign_mixed(&parse_aff(a[1])?); show_jac(&p) }
                    ("subm", 2) => { let mut p = parse_jac(a[0])?; p.sub_assign_mixed(&parse_aff(a[1])?); show_jac(&p) }
                    ("eq", 2) => show_bool(parse_jac(a[0])? == parse_jac(a[1])?),
                    ("toaff", 1) => show_jac(&parse_jac(a[0])?),
                    ("tojac", 1) => show_raw(&parse_aff(a[0])?.into_projective()),
                    ("affneg", 1) => { let mut p = parse_aff(a[0])?; p.negate(); show_aff(&p) }
                    ("isnorm", 1) => show_bool(parse_jac(a[0])?.is_normalized()),
                    ("batch", 1) => {
                        let mut v = vec![];
                        for t in split_list(a[0]) { v.push(parse_jac(t)?); }
                        $proj::batch_normalization(&mut v);
                        if v.is_empty() { "-".to_string() } else { v.iter().map(show_raw).collect::<Vec<_>>().join(";") }
                    }
                    ("prog", 2) => {
                        let mut v = vec![];
                        for t in split_list(a[0]) { v.push(parse_jac(t)?); }
                        run_prog(&mut v, &split_list(a[1]))?;
                        v.iter().map(show_jac).collect::<Vec<_>>().join(";")
                    }
                    ("oncurve", 1) => show_bool(parse_aff(a[0])?.verif_is_on_curve()),
                    ("insub", 1) => show_bool(parse_aff(a[0])?.in_subgroup()),
                    ("generator", 0) => show_aff(&$aff::one()),
                    ("frompx", 2) => match $aff::verif_get_point_from_x($base::parse(a[0])?, a[1] == "1") {
                        Some(p) => show_aff(&p),
                        None => "none".to_string(),
                    },
                    ("scalecof", 1) => show_jac(&parse_aff(a[0])?.verif_scale_by_cofactor()),
                    ("mul", 2) => { let mut p = parse_jac(a[0])?; p.mul_assign(scalar(a[1])?); show_jac(&p) }
                    ("affmul", 2) => show_jac(&parse_aff(a[0])?.mul(scalar(a[1])?)),
                    ("pre3", 1) => {
                        let p = parse_aff(a[0])?;
                        let mut pre = vec![$aff::one(); 3] /* caller's buffer holds stale non-identity entries */;
                        p.precomp_3(&mut pre);
                        show_aff_list(&pre)
                    }
                    ("mulpre3", 2) => {
                        let p = parse_aff(a[0])?;
                        let mut pre = vec![$aff::one(); 3] /* caller's buffer holds stale non-identity entries */;
                        p.precomp_3(&mut pre);
                        show_jac(&p.mul_precomp_3(scalar(a[1])?, &pre))
                    }
                    ("pre256", 1) => {
                        let p = parse_aff(a[0])?;
                        let mut pre = vec![$aff::one(); 256] /* stale non-identity entries */;
                        p.precomp_256(&mut pre);
                        show_aff_list(&pre)
                    }
                    ("mulpre256", 2) => {
                        let p = parse_aff(a[0])?;
                        let mut pre = vec![$aff::one(); 256] /* stale non-identity entries */;
                        p.precomp_256(&mut pre);
                        show_jac(&p.mul_precomp_256(scalar(a[1])?, &pre))
                    }
                    ("wnaf", 3) => {
                        let w = parse_usize(a[0])?;
                        let p = parse_jac(a[1])?;
                        let k = scalar(a[2])?;
                        let mut table = vec![];
                        let mut form = vec![];
                        wnaf_form(&mut form, k, w);
                        wnaf_table(&mut table, p, w);
                        show_jac(&wnaf_exp(&table, &form))
                    }
                    ("wnafform", 2) => {
                        let w = parse_usize(a[0])?;
                        let k = scalar(a[1])?;
                        let mut form = vec![];
                        wnaf_form(&mut form, k, w);
                        if form.is_empty() { "-".to_string() } else { form.iter().map(|d| d.to_string()).collect::<Vec<_>>().join(";") }
                    }
                    ("wnaftable", 2) => {
                        let w = parse_usize(a[0])?;
                        let p = parse_jac(a[1])?;
                        let mut table = vec![];
                        wnaf_table(&mut table, p, w);
                        table.iter().map(show_jac).collect::<Vec<_>>().join(";")
                    }
                    // ONE window table (resp. ONE digit string) shared BY REFERENCE between concurrently running threads
                    // (the library's `shared()` API); every thread's result must be what a fresh context gives
                    ("wnafshare_base", 3) => {
                        let b = parse_jac(a[0])?;
                        let n = parse_usize(a[1])?;
                        let ks = scalars(a[2])?;
                        let mut ctx = Wnaf::new();
                        let w = ctx.base(b, n);
                        let outs: Vec<String> = std::thread::scope(|sc| {
                            let hs: Vec<_> = ks.iter().map(|k| { let mut sh = w.shared(); let k = *k; sc.spawn(move || { let r: $proj = sh.scalar(FrRepr(k)); show_jac(&r) }) }).collect();
                            hs.into_iter().map(|h| h.join().unwrap_or_else(|_| "PANIC".to_string())).collect()
                        });
                        outs.join(";")
                    }
                    ("wnafshare_scalar", 2) => {
                        let k = scalar(a[0])?;
                        let mut bs = vec![];
                        for t in split_list(a[1]) { bs.push(parse_jac(t)?); }
                        let mut ctx = Wnaf::new();
                        let w = ctx.scalar(k);
                        let outs: Vec<String> = std::thread::scope(|sc| {
                            let hs: Vec<_> = bs.iter().map(|b| { let mut sh = w.shared(); let b = *b; sc.spawn(move || { let r: $proj = sh.base(b); show_jac(&r) }) }).collect();
                            hs.into_iter().map(|h| h.join().unwrap_or_else(|_| "PANIC".to_string())).collect()
                        });
                        outs.join(";")
                    }
                    ("wnafhist", 1) => {
                        let mut ctx = Wnaf::new();
                        let mut outs = vec![];
                        for ins in split_list(a[0]) {
                            let p: Vec<&str> = ins.split(':').collect();
                            match (p[0], p.len()) {
                                ("bs", 4) => {
                                    let b = parse_jac(p[1])?;
                                    let n = parse_usize(p[2])?;
                                    let k = scalar(p[3])?;
                                    let r: $proj = ctx.base(b, n).scalar(k);
                                    outs.push(show_jac(&r));
                                }
                                ("sb", 3) => {
                                    let k = scalar(p[1])?;
                                    let b = parse_jac(p[2])?;
                                    let r: $proj = ctx.scalar(k).base(b);
                                    outs.push(show_jac(&r));
                                }
                                ("bsh", 4) => {
                                    let b = parse_jac(p[1])?;
                                    let n = parse_usize(p[2])?;
                                    let k = scalar(p[3])?;
                                    let w = ctx.base(b, n);
                                    let mut sh = w.shared();
                                    let r: $proj = sh.scalar(k);
                                    outs.push(show_jac(&r));
                                }
                                ("sbh", 3) => {
                                    let k = scalar(p[1])?;
                                    let b = parse_jac(p[2])?;
                                    let w = ctx.scalar(k);
                                    let mut sh = w.shared();
                                    let r: $proj = sh.base(b);
                                    outs.push(show_jac(&r));
                                }
                                _ => return None,
                            }
                        }
                        if outs.is_empty() { "-".to_string() } else { outs.join(";") }
                    }
                    ("recscalar", 1) => $proj::recommended_wnaf_for_scalar(scalar(a[0])?).to_string(),
                    ("recnum", 1) => $proj::recommended_wnaf_for_num_scalars(parse_usize(a[0])?).to_string(),
                    ("pip", 3) => {
                        let w = parse_usize(a[0])?;
                        let ps = affs(a[1])?;
                        let ks = scalars(a[2])?;
                        let kr: Vec<&[u64; 4]> = ks.iter().collect();
                        show_jac(&$aff::sum_of_products_pippinger(&ps, &kr, w))
                    }
                    ("sop", 2) => {
                        let ps = affs(a[0])?;
                        let ks = scalars(a[1])?;
                        let kr: Vec<&[u64; 4]> = ks.iter().collect();
                        show_jac(&$aff::sum_of_products(&ps, &kr))
                    }
                    ("soppre", 2) => {
                        let ps = affs(a[0])?;
                        let ks = scalars(a[1])?;
                        let kr: Vec<&[u64; 4]> = ks.iter().collect();
                        let mut pre = vec![$aff::one(); 256 * ps.len()] /* stale non-identity entries */;
                        for (i, p) in ps.iter().enumerate() {
                            p.precomp_256(&mut pre[i * 256..(i + 1) * 256]);
                        }
                        show_jac(&$aff::sum_of_products_precomp_256(&ps, &kr, &pre))
                    }
                    // table-driven MSM on a PREFIX of the point list while the scalar list and the table buffer cover all points
                    ("soppre_prefix", 3) => {
                        let n = parse_usize(a[0])?;
                        let ps = affs(a[1])?;
                        let ks = scalars(a[2])?;
                        if n > ps.len() { return None; }
                        let kr: Vec<&[u64; 4]> = ks.iter().collect();
                        let mut pre = vec![$aff::one(); 256 * ps.len()];
                        for (i, p) in ps.iter().enumerate() {
                            p.precomp_256(&mut pre[i * 256..(i + 1) * 256]);
                        }
                        show_jac(&$aff::sum_of_products_precomp_256(&ps[..n], &kr, &pre))
                    }
                    ("findwin", 1) => $aff::find_pippinger_window(parse_usize(a[0])?).to_string(),
                    ("dec_c", 1) => match comp(&parse_bytes(a[0])?) { Some(e) => show_dec(e.into_affine()), None => "ERR:BadLength".to_string() },
                    ("dec_u", 1) => match uncomp(&parse_bytes(a[0])?) { Some(e) => show_dec(e.into_affine()), None => "ERR:BadLength".to_string() },
                    ("dec_cu", 1) => match comp(&parse_bytes(a[0])?) { Some(e) => show_dec(e.into_affine_unchecked()), None => "ERR:BadLength".to_string() },
                    ("dec_uu", 1) => match uncomp(&parse_bytes(a[0])?) { Some(e) => show_dec(e.into_affine_unchecked()), None => "ERR:BadLength".to_string() },
                    ("enc_c", 1) => show_bytes($comp::from_affine(parse_aff(a[0])?).as_ref()),
                    ("enc_u", 1) => show_bytes($uncomp::from_affine(parse_aff(a[0])?).as_ref()),
                    ("intocomp", 1) => show_bytes(parse_aff(a[0])?.into_compressed().as_ref()),
                    ("intouncomp", 1) => show_bytes(parse_aff(a[0])?.into_uncompressed().as_ref()),
                    ("jaczero", 0) => show_raw(&$proj::zero()),
                    ("affzero", 0) => show_aff(&$aff::zero()),
                    ("affiszero", 1) => show_bool(parse_aff(a[0])?.is_zero()),
                    ("jaciszero", 1) => show_bool(parse_jac(a[0])?.is_zero()),
                    ("rnd", 1) => {
                        let words: Vec<u64> = a[0].split(',').map(|w| u64::from_str_radix(w, 16).ok()).collect::<Option<Vec<u64>>>()?;
                        let mut rng = ReplayRng { words, pos: 0, calls: 0 };
                        let p = $proj::random(&mut rng);
                        format!("{} {}", show_jac(&p), rng.calls)
                    }
                    ("random", 1) => {
                        use rand_core::SeedableRng;
                        let l = parse_limbs(a[0], 2)?;
                        let mut seed = [0u8; 16];
                        seed[..8].copy_from_slice(&l[0].to_le_bytes());
                        seed[8..].copy_from_slice(&l[1].to_le_bytes());
                        let mut rng = rand_xorshift::XorShiftRng::from_seed(seed);
                        show_jac(&$proj::random(&mut rng))
                    }
                    ("ser_aff", 2) => {
                        let mut buf = vec![];
                        parse_aff(a[0])?.serialize(&mut buf, a[1] == "1").ok()?;
                        show_bytes(&buf)
                    }
                    ("ser_jac", 2) => {
                        let mut buf = vec![];
                        parse_jac(a[0])?.serialize(&mut buf, a[1] == "1").ok()?;
                        show_bytes(&buf)
                    }
                    ("deser_aff", 2) => {
                        let bs = parse_bytes(a[0])?;
                        let mut rd = &bs[..];
                        match $aff::deserialize(&mut rd, a[1] == "1") {
                            Ok(p) => format!("{} {}", show_aff(&p), bs.len() - rd.len()),
                            Err(e) => show_ioerr(&e),
                        }
                    }
                    ("deser_aff_ch", 3) => {
                        let bs = parse_bytes(a[0])?;
                        let mut rd = Chunked { data: &bs[..], pos: 0, chunk: parse_usize(a[2])?.max(1) };
                        match $aff::deserialize(&mut rd, a[1] == "1") {
                            Ok(p) => format!("{} {}", show_aff(&p), rd.pos),
                            Err(e) => show_ioerr(&e),
                        }
                    }
                    ("deser_jac_ch", 3) => {
                        let bs = parse_bytes(a[0])?;
                        let mut rd = Chunked { data: &bs[..], pos: 0, chunk: parse_usize(a[2])?.max(1) };
                        match $proj::deserialize(&mut rd, a[1] == "1") {
                            Ok(p) => format!("{} {}", show_jac(&p), rd.pos),
                            Err(e) => show_ioerr(&e),
                        }
                    }
                    ("deser_jac", 2) => {
                        let bs = parse_bytes(a[0])?;
                        let mut rd = &bs[..];
                        match $proj::deserialize(&mut rd, a[1] == "1") {
                            Ok(p) => format!("{} {}", show_jac(&p), bs.len() - rd.len()),
                            Err(e) => show_ioerr(&e),
                        }
                    }
                    ("osswu", 1) => show_raw(&$proj::osswu_map(&$base::parse(a[0])?)),
                    ("iso", 1) => { let mut p = parse_jac(a[0])?; p.isogeny_map(); show_jac(&p) }
                    ("clearh", 1) => { let mut p = parse_jac(a[0])?; p.clear_h(); show_jac(&p) }
                    ("map", 1) => show_jac(&<$proj as MapToCurve<$proj>>::map_to_curve(&$base::parse(a[0])?)),
                    ("map2", 2) => show_jac(&<$proj as MapToCurve<$proj>>::map2_to_curve(&$base::parse(a[0])?, &$base::parse(a[1])?)),
                    ("chainz", 1) => { let p = parse_jac(a[0])?; let mut o = p; chain_z(&mut o, &p); show_jac(&o) }
                    _ => return None,
                })
            }

            pub fn h2c<X: ExpandMsg>(mode: &str, m: &[u8], d: &[u8]) -> R {
                Some(match mode {
                    "ro" => show_jac(&<$proj as HashToCurve<X>>::hash_to_curve(m, d)),
                    "nu" => show_jac(&<$proj as HashToCurve<X>>::encode_to_curve(m, d)),
                    _ => return None,
                })
            }
        }
    };
}

group_impl!(g1, G1, G1Affine, Fq, G1Compressed, G1Uncompressed, transmute::g1_projective, transmute::g1_affine, 48);
group_impl!(g2, G2, G2Affine, Fq2, G2Compressed, G2Uncompressed, transmute::g2_projective, transmute::g2_affine, 96);

// ------------------------------------------------------------------ hashing

thread_local! { static FIXED_BYTES: std::cell::RefCell<Vec<u8>> = std::cell::RefCell::new(vec![]); }
/// an expander that returns prescribed uniform bytes (to drive hash_to_curve with chosen field elements)
struct FixedExpander;
impl ExpandMsg for FixedExpander {
    fn expand_message(_msg: &[u8], _dst: &[u8], len_in_bytes: usize) -> Vec<u8> {
        FIXED_BYTES.with(|b| { let v = b.borrow(); assert!(v.len() == len_in_bytes); v.clone() })
    }
}

type Xmd256 = ExpandMsgXmd<sha2::Sha256>;
type Xmd512 = ExpandMsgXmd<sha2::Sha512>;
type Xmd224 = ExpandMsgXmd<sha2::Sha224>;
type Xmd384 = ExpandMsgXmd<sha2::Sha384>;
type Xof128 = ExpandMsgXof<sha3::Shake128>;
type Xof256 = ExpandMsgXof<sha3::Shake256>;

fn show_list<T: Elem>(v: &[T]) -> String {
    if v.is_empty() { "-".to_string() } else { v.iter().map(|e| e.show()).collect::<Vec<_>>().join(";") }
}

fn h2f<T: FromRO + Elem>(x: &str, m: &[u8], d: &[u8], c: usize) -> R {
    Some(match x {
        "xmd256" => show_list(&hash_to_field::<T, Xmd256>(m, d, c)),
        "xmd512" => show_list(&hash_to_field::<T, Xmd512>(m, d, c)),
        "xmd224" => show_list(&hash_to_field::<T, Xmd224>(m, d, c)),
        "xmd384" => show_list(&hash_to_field::<T, Xmd384>(m, d, c)),
        "xof128" => show_list(&hash_to_field::<T, Xof128>(m, d, c)),
        "xof256" => show_list(&hash_to_field::<T, Xof256>(m, d, c)),
        _ => return None,
    })
}

fn hash_op(op: &str, a: &[&str]) -> R {
    use digest::{Digest, ExtendableOutput, Input};
    Some(match (op, a.len()) {
        ("hash", 2) if a[0] == "sha256" => show_bytes(sha2::Sha256::digest(&parse_bytes(a[1])?).as_ref()),
        ("hash", 2) if a[0] == "sha512" => show_bytes(sha2::Sha512::digest(&parse_bytes(a[1])?).as_ref()),
        ("hash", 3) if a[0] == "shake128" => show_bytes(&sha3::Shake128::default().chain(&parse_bytes(a[1])?).vec_result(parse_usize(a[2])?)),
        ("hash", 3) if a[0] == "shake256" => show_bytes(&sha3::Shake256::default().chain(&parse_bytes(a[1])?).vec_result(parse_usize(a[2])?)),
        ("expand", 4) => {
            let m = parse_bytes(a[1])?;
            let d = parse_bytes(a[2])?;
            let l = parse_usize(a[3])?;
            match a[0] {
                "xmd256" => show_bytes(&Xmd256::expand_message(&m, &d, l)),
                "xmd512" => show_bytes(&Xmd512::expand_message(&m, &d, l)),
                "xmd224" => show_bytes(&Xmd224::expand_message(&m, &d, l)),
                "xmd384" => show_bytes(&Xmd384::expand_message(&m, &d, l)),
                "xof128" => show_bytes(&Xof128::expand_message(&m, &d, l)),
                "xof256" => show_bytes(&Xof256::expand_message(&m, &d, l)),
                _ => return None,
            }
        }
        ("h2f", 5) => {
            let m = parse_bytes(a[2])?;
            let d = parse_bytes(a[3])?;
            let c = parse_usize(a[4])?;
            match a[0] {
                "fq" => h2f::<Fq>(a[1], &m, &d, c)?,
                "fr" => h2f::<Fr>(a[1], &m, &d, c)?,
                "fq2" => h2f::<Fq2>(a[1], &m, &d, c)?,
                _ => return None,
            }
        }
        ("okm", 2) => {
            // the same bytes at every alignment 0..7 of an 8-byte aligned buffer: the result may depend on the VALUE only
            let b = parse_bytes(a[1])?;
            let want = match a[0] { "fq" => 64, "fr" => 48, "fq2" => 128, _ => return None };
            if b.len() != want { return None; }
            let mut backing = vec![0u64; (want + 16) / 8 + 2];
            let base = backing.as_mut_ptr() as *mut u8;
            let buf: &mut [u8] = unsafe { std::slice::from_raw_parts_mut(base, backing.len() * 8) };
            let mut outs = vec![];
            for off in 0..8usize {
                for x in buf.iter_mut() { *x = 0xa5; }
                buf[off..off + want].copy_from_slice(&b);
                let sl = &buf[off..off + want];
                outs.push(match a[0] {
                    "fq" => Fq::from_okm(GenericArray::from_slice(sl)).show(),
                    "fr" => Fr::from_okm(GenericArray::from_slice(sl)).show(),
                    _ => Fq2::from_ro(GenericArray::from_slice(sl)).show(),
                });
            }
            if outs.iter().all(|o| *o == outs[0]) { outs[0].clone() } else { format!("ALIGNMENT-DEPENDENT {}", outs.join(" | ")) }
        }
        ("h2cfix", 3) => {
            let bytes = parse_bytes(a[2])?;
            FIXED_BYTES.with(|b| *b.borrow_mut() = bytes);
            match a[0] {
                "g1" => g1::h2c::<FixedExpander>(a[1], &[], &[])?,
                "g2" => g2::h2c::<FixedExpander>(a[1], &[], &[])?,
                _ => return None,
            }
        }
        ("h2c", 5) => {
            let m = parse_bytes(a[3])?;
            let d = parse_bytes(a[4])?;
            match (a[0], a[1]) {
                ("g1", "xmd256") => g1::h2c::<Xmd256>(a[2], &m, &d)?,
                ("g1", "xmd512") => g1::h2c::<Xmd512>(a[2], &m, &d)?,
                ("g1", "xof128") => g1::h2c::<Xof128>(a[2], &m, &d)?,
                ("g1", "xof256") => g1::h2c::<Xof256>(a[2], &m, &d)?,
                ("g2", "xmd256") => g2::h2c::<Xmd256>(a[2], &m, &d)?,
                ("g2", "xmd512") => g2::h2c::<Xmd512>(a[2], &m, &d)?,
                ("g2", "xof128") => g2::h2c::<Xof128>(a[2], &m, &d)?,
                ("g2", "xof256") => g2::h2c::<Xof256>(a[2], &m, &d)?,
                _ => return None,
            }
        }
        _ => return None,
    })
}

// ------------------------------------------------------------------ pairing, scalars, chains

fn misc_op(op: &str, a: &[&str]) -> R {
    Some(match (op, a.len()) {
        ("pairing", 2) => Bls12::pairing(g1::parse_aff(a[0])?, g2::parse_aff(a[1])?).show(),
        // projective inputs, converted with the library's own into_affine (identity representatives with junk X, Y included)
        ("pairjac", 2) => Bls12::pairing(g1::parse_jac(a[0])?.into_affine(), g2::parse_jac(a[1])?.into_affine()).show(),
        ("pairjacprep", 2) => {
            let p = g1::parse_jac(a[0])?.into_affine().prepare();
            let q = g2::parse_jac(a[1])?.into_affine().prepare();
            show_opt(Bls12::final_exponentiation(&Bls12::miller_loop(&[(&p, &q)])))
        }
        // ONE prepared G2 element shared by reference between concurrently running threads, each pairing it with its own P
        ("pairshare", 2) => {
            let mut ps = vec![];
            for t in split_list(a[0]) { ps.push(g1::parse_aff(t)?); }
            let q = g2::parse_aff(a[1])?.prepare();
            let outs: Vec<String> = std::thread::scope(|sc| {
                let hs: Vec<_> = ps.iter().map(|p| { let q = &q; let p = *p; sc.spawn(move || { let pp = p.prepare(); show_opt(Bls12::final_exponentiation(&Bls12::miller_loop(&[(&pp, q)]))) }) }).collect();
                hs.into_iter().map(|h| h.join().unwrap_or_else(|_| "PANIC".to_string())).collect()
            });
            outs.join(";")
        }
        // sustained CONCURRENT preparation of several distinct G2 points (16 threads): every prepared element must be the
        // one a sequential call returns (a process-wide memo with a check-then-use race shows here)
        ("preparestress", 2) => {
            let mut qs = vec![];
            for t in split_list(a[0]) { qs.push(g2::parse_aff(t)?); }
            let iters = parse_usize(a[1])?;
            if qs.is_empty() { return None; }
            let refs: Vec<String> = qs.iter().map(|q| format!("{:?}", q.prepare())).collect();
            // 8 checker threads compare every prepared element with the sequential reference; 8 hammer threads only prepare
            // (alternating points as fast as possible), so that stores to any shared state are frequent
            let stop = std::sync::atomic::AtomicBool::new(false);
            let bad: usize = std::thread::scope(|sc| {
                let hammers: Vec<_> = (0..8usize).map(|t| { let qs = &qs; let stop = &stop; sc.spawn(move || {
                    let mut i = t; let mut acc = 0usize;
                    while !stop.load(std::sync::atomic::Ordering::Relaxed) { acc = acc.wrapping_add(std::hint::black_box(qs[i % qs.len()].prepare()).is_zero() as usize); i += 1; }
                    acc }) }).collect();
                let hs: Vec<_> = (0..8usize).map(|t| { let qs = &qs; let refs = &refs; sc.spawn(move || {
                    let mut bad = 0usize;
                    for i in 0..iters { let j = (t + i) % qs.len(); if format!("{:?}", qs[j].prepare()) != refs[j] { bad += 1; } }
                    bad }) }).collect();
                let r = hs.into_iter().map(|h| h.join().unwrap_or(usize::MAX / 64)).sum();
                stop.store(true, std::sync::atomic::Ordering::Relaxed);
                for h in hammers { let _ = h.join(); }
                r
            });
            if bad == 0 { "ok".to_string() } else { format!("MISMATCH {} prepared elements differ from the sequential result", bad) }
        }
        ("pairwith1", 2) => g1::parse_aff(a[0])?.pairing_with(&g2::parse_aff(a[1])?).show(),
        ("pairwith2", 2) => g2::parse_aff(a[1])?.pairing_with(&g1::parse_aff(a[0])?).show(),
        ("consts", 1) if a[0] == "fq" => format!("{} {} {} {} {} {}", limbs_hex(&Fq::char().0), Fq::NUM_BITS, Fq::CAPACITY, Fq::S, Fq::multiplicative_generator().show(), Fq::root_of_unity().show()),
        ("consts", 1) if a[0] == "fr" => format!("{} {} {} {} {} {}", limbs_hex(&Fr::char().0), Fr::NUM_BITS, Fr::CAPACITY, Fr::S, Fr::multiplicative_generator().show(), Fr::root_of_unity().show()),
        ("miller", 2) => {
            let mut ps = vec![];
            for t in split_list(a[0]) { ps.push(g1::parse_aff(t)?.prepare()); }
            let mut qs = vec![];
            for t in split_list(a[1]) { qs.push(g2::parse_aff(t)?.prepare()); }
            let pairs: Vec<_> = ps.iter().zip(qs.iter()).collect();
            Bls12::miller_loop(&pairs).show()
        }
        // pairs given by index: pair i = (&ps[pi[i]], &qs[qi[i]]) -- the SAME prepared element (same reference) may serve
        // several pairs of one Miller loop ("prepared elements can be reused")
        ("millerref", 4) => {
            let mut ps = vec![];
            for t in split_list(a[0]) { ps.push(g1::parse_aff(t)?.prepare()); }
            let mut qs = vec![];
            for t in split_list(a[1]) { qs.push(g2::parse_aff(t)?.prepare()); }
            let mut pairs = vec![];
            let pis = split_list(a[2]); let qis = split_list(a[3]);
            if pis.len() != qis.len() { return None; }
            for (i, j) in pis.iter().zip(qis.iter()) {
                let (i, j) = (parse_usize(i)?, parse_usize(j)?);
                if i >= ps.len() || j >= qs.len() { return None; }
                pairs.push((&ps[i], &qs[j]));
            }
            let refs: Vec<_> = pairs.iter().map(|(p, q)| (*p, *q)).collect();
            let m1 = Bls12::miller_loop(&refs);
            // evaluate the same list a second time with the same prepared elements
            let m2 = Bls12::miller_loop(&refs);
            if m1 != m2 { return Some(format!("UNSTABLE {} {}", m1.show(), m2.show())); }
            show_opt(Bls12::final_exponentiation(&m1))
        }
        // the pair list handed over as LAZY iterators whose size_hint has lower bound 0 (filter) / is inexact (chain, skip_while)
        ("millerlazy", 2) => {
            let mut ps = vec![];
            for t in split_list(a[0]) { ps.push(g1::parse_aff(t)?.prepare()); }
            let mut qs = vec![];
            for t in split_list(a[1]) { qs.push(g2::parse_aff(t)?.prepare()); }
            let pairs: Vec<_> = ps.iter().zip(qs.iter()).collect();
            let m0 = Bls12::miller_loop(&pairs);
            let m1 = Bls12::miller_loop(pairs.iter().filter(|_| true));
            let m2 = Bls12::miller_loop(pairs.iter().skip_while(|_| false));
            let (l, r) = pairs.split_at(pairs.len() / 2);
            let m3 = Bls12::miller_loop(l.iter().chain(r.iter()));
            if m0 != m1 || m0 != m2 || m0 != m3 { return Some(format!("ITERATOR-DEPENDENT slice={} filter={} skip_while={} chain={}", m0.show(), m1.show(), m2.show(), m3.show())); }
            show_opt(Bls12::final_exponentiation(&m0))
        }
        ("finalexp", 1) => show_opt(Bls12::final_exponentiation(&Fq12::parse(a[0])?)),
        ("pairprod", 4) => Bls12::pairing_product(g1::parse_aff(a[0])?, g2::parse_aff(a[1])?, g1::parse_aff(a[2])?, g2::parse_aff(a[3])?).show(),
        ("pairmulti", 2) => {
            let mut ps = vec![];
            for t in split_list(a[0]) { ps.push(g1::parse_aff(t)?); }
            let mut qs = vec![];
            for t in split_list(a[1]) { qs.push(g2::parse_aff(t)?); }
            Bls12::pairing_multi_product(&ps, &qs).show()
        }
        ("ser_fr", 1) => { let mut buf = vec![]; Fr::parse(a[0])?.serialize(&mut buf, true).ok()?; show_bytes(&buf) }
        ("deser_fr", 1) => {
            let bs = parse_bytes(a[0])?;
            let mut rd = &bs[..];
            match Fr::deserialize(&mut rd, true) {
                Ok(p) => format!("{} {}", p.show(), bs.len() - rd.len()),
                Err(e) => show_ioerr(&e),
            }
        }
        ("deser_fr_ch", 2) => {
            let bs = parse_bytes(a[0])?;
            let mut rd = Chunked { data: &bs[..], pos: 0, chunk: parse_usize(a[1])?.max(1) };
            match Fr::deserialize(&mut rd, true) {
                Ok(p) => format!("{} {}", p.show(), rd.pos),
                Err(e) => show_ioerr(&e),
            }
        }
        ("deser_fq12_ch", 2) => {
            let bs = parse_bytes(a[0])?;
            let mut rd = Chunked { data: &bs[..], pos: 0, chunk: parse_usize(a[1])?.max(1) };
            match Fq12::deserialize(&mut rd, true) {
                Ok(p) => format!("{} {}", p.show(), rd.pos),
                Err(e) => show_ioerr(&e),
            }
        }
        ("ser_fq12", 1) => { let mut buf = vec![]; Fq12::parse(a[0])?.serialize(&mut buf, true).ok()?; show_bytes(&buf) }
        ("deser_fq12", 1) => {
            let bs = parse_bytes(a[0])?;
            let mut rd = &bs[..];
            match Fq12::deserialize(&mut rd, true) {
                Ok(p) => format!("{} {}", p.show(), bs.len() - rd.len()),
                Err(e) => show_ioerr(&e),
            }
        }
        ("chain", 2) if a[0] == "pm3div4" => { let x = Fq::parse(a[1])?; let mut o = x; chain_pm3div4(&mut o, &x); o.show() }
        ("chain", 2) if a[0] == "p2m9div16" => { let x = Fq2::parse(a[1])?; let mut o = x; chain_p2m9div16(&mut o, &x); o.show() }
        ("chain", 3) if a[0] == "z" && a[1] == "g1" => g1::op("chainz", &a[2..])?,
        ("chain", 3) if a[0] == "z" && a[1] == "g2" => g2::op("chainz", &a[2..])?,
        ("chain", 3) if a[0] == "h2eff" && a[1] == "g2" => g2::op("clearh", &a[2..])?,
        _ => return None,
    })
}

// ------------------------------------------------------------------ Montgomery / limb level

/// an RNG that replays a list of words (after the last one: the number of the call, 1-based; an endless stream of zeros
/// would make `CurveProjective::random` loop forever on x = 0) and counts the `next_u64` calls
struct ReplayRng { words: Vec<u64>, pos: usize, calls: usize }
impl rand_core::RngCore for ReplayRng {
    fn next_u64(&mut self) -> u64 {
        self.calls += 1;
        let w = if self.pos < self.words.len() { self.words[self.pos] } else { self.calls as u64 };
        self.pos += 1;
        w
    }
    fn next_u32(&mut self) -> u32 { self.next_u64() as u32 }
    fn fill_bytes(&mut self, dest: &mut [u8]) { for b in dest.iter_mut() { *b = self.next_u64() as u8; } }
    fn try_fill_bytes(&mut self, dest: &mut [u8]) -> Result<(), rand_core::Error> { self.fill_bytes(dest); Ok(()) }
}

/// `Field::random` of Fq / Fr (trait route and concrete-type route) on a replayed word stream
fn rnd_op(f: &str, ws: &str) -> R {
    let words: Vec<u64> = ws.split(',').map(|w| u64::from_str_radix(w, 16).ok()).collect::<Option<Vec<u64>>>()?;
    let mk = || ReplayRng { words: words.clone(), pos: 0, calls: 0 };
    match f {
        "fq" => {
            let mut r1 = mk(); let x = <Fq as Field>::random(&mut r1);
            let mut r2 = mk(); let y = Fq::random(&mut r2);
            both(Some(format!("{} {}", limbs_hex(&x.verif_raw().0), r1.calls)), Some(format!("{} {}", limbs_hex(&y.verif_raw().0), r2.calls)))
        }
        "fr" => {
            let mut r1 = mk(); let x = <Fr as Field>::random(&mut r1);
            let mut r2 = mk(); let y = Fr::random(&mut r2);
            both(Some(format!("{} {}", limbs_hex(&x.verif_raw().0), r1.calls)), Some(format!("{} {}", limbs_hex(&y.verif_raw().0), r2.calls)))
        }
        _ => None,
    }
}

fn mfq_op(op: &str, a: &[&str]) -> R {
    let raw = |s: &str| -> Option<Fq> { Some(unsafe { transmute::fq(repr6(&parse_limbs(s, 6)?)) }) };
    let show = |x: &Fq| limbs_hex(&x.verif_raw().0);
    Some(match (op, a.len()) {
        ("add", 2) => { let mut x = raw(a[0])?; x.add_assign(&raw(a[1])?); show(&x) }
        ("sub", 2) => { let mut x = raw(a[0])?; x.sub_assign(&raw(a[1])?); show(&x) }
        ("mul", 2) => { let mut x = raw(a[0])?; x.mul_assign(&raw(a[1])?); show(&x) }
        ("sq", 1) => { let mut x = raw(a[0])?; x.square(); show(&x) }
        ("dbl", 1) => { let mut x = raw(a[0])?; x.double(); show(&x) }
        ("neg", 1) => { let mut x = raw(a[0])?; x.negate(); show(&x) }
        ("inv", 1) => match raw(a[0])?.inverse() { Some(x) => show(&x), None => "none".to_string() },
        ("fromrepr", 1) => match Fq::from_repr(repr6(&parse_limbs(a[0], 6)?)) { Ok(x) => show(&x), Err(_) => "none".to_string() },
        ("intorepr", 1) => limbs_hex(&raw(a[0])?.into_repr().0),
        ("one", 0) => show(&Fq::one()),
        ("pow", _) if a.len() >= 1 => {
            let x = raw(a[0])?;
            let mut ls = vec![];
            for t in &a[1..] { ls.push(parse_u64(t)?); }
            show(&x.pow(&ls))
        }
        _ => return None,
    })
}

fn mfr_op(op: &str, a: &[&str]) -> R {
    let raw = |s: &str| -> Option<Fr> { Some(unsafe { transmute::fr(repr4(&parse_limbs(s, 4)?)) }) };
    let show = |x: &Fr| limbs_hex(&x.verif_raw().0);
    Some(match (op, a.len()) {
        ("add", 2) => { let mut x = raw(a[0])?; x.add_assign(&raw(a[1])?); show(&x) }
        ("sub", 2) => { let mut x = raw(a[0])?; x.sub_assign(&raw(a[1])?); show(&x) }
        ("mul", 2) => { let mut x = raw(a[0])?; x.mul_assign(&raw(a[1])?); show(&x) }
        ("sq", 1) => { let mut x = raw(a[0])?; x.square(); show(&x) }
        ("dbl", 1) => { let mut x = raw(a[0])?; x.double(); show(&x) }
        ("neg", 1) => { let mut x = raw(a[0])?; x.negate(); show(&x) }
        ("inv", 1) => match raw(a[0])?.inverse() { Some(x) => show(&x), None => "none".to_string() },
        ("fromrepr", 1) => match Fr::from_repr(repr4(&parse_limbs(a[0], 4)?)) { Ok(x) => show(&x), Err(_) => "none".to_string() },
        ("intorepr", 1) => limbs_hex(&raw(a[0])?.into_repr().0),
        ("one", 0) => show(&Fr::one()),
        ("pow", _) if a.len() >= 1 => {
            let x = raw(a[0])?;
            let mut ls = vec![];
            for t in &a[1..] { ls.push(parse_u64(t)?); }
            show(&x.pow(&ls))
        }
        _ => return None,
    })
}

fn repr_op<T: PrimeFieldRepr>(mk: &dyn Fn(&[u64]) -> T, n: usize, op: &str, a: &[&str]) -> R {
    let p = |s: &str| -> Option<T> { Some(mk(&parse_limbs(s, n)?)) };
    let show = |x: &T| limbs_hex(x.as_ref());
    Some(match (op, a.len()) {
        ("add_nocarry", 2) => { let mut x = p(a[0])?; x.add_nocarry(&p(a[1])?); show(&x) }
        ("sub_noborrow", 2) => { let mut x = p(a[0])?; x.sub_noborrow(&p(a[1])?); show(&x) }
        ("shr", 2) => { let mut x = p(a[0])?; x.shr(parse_u64(a[1])? as u32); show(&x) }
        ("shl", 2) => { let mut x = p(a[0])?; x.shl(parse_u64(a[1])? as u32); show(&x) }
        ("div2", 1) => { let mut x = p(a[0])?; x.div2(); show(&x) }
        ("mul2", 1) => { let mut x = p(a[0])?; x.mul2(); show(&x) }
        ("num_bits", 1) => p(a[0])?.num_bits().to_string(),
        ("is_odd", 1) => show_bool(p(a[0])?.is_odd()),
        ("is_zero", 1) => show_bool(p(a[0])?.is_zero()),
        ("cmp", 2) => match p(a[0])?.cmp(&p(a[1])?) {
            std::cmp::Ordering::Less => "-1", std::cmp::Ordering::Equal => "0", std::cmp::Ordering::Greater => "1",
        }.to_string(),
        ("from_u64", 1) => show(&T::from(parse_u64(a[0])?)),
        ("read_be", 1) => { let bs = parse_bytes(a[0])?; let mut x = mk(&vec![0u64; n]); match x.read_be(&bs[..]) { Ok(()) => show(&x), Err(_) => "ERR:eof".to_string() } }
        // two values read back to back from a reader that delivers at most `chunk` bytes per read call: the first read_be must
        // consume exactly its own bytes
        ("read_be2", 2) => { let bs = parse_bytes(a[0])?; let mut rd = Chunked { data: &bs[..], pos: 0, chunk: parse_usize(a[1])?.max(1) };
            let mut x = mk(&vec![0u64; n]); let mut y = mk(&vec![0u64; n]);
            let r1 = x.read_be(&mut rd); let r2 = y.read_be(&mut rd);
            match (r1, r2) { (Ok(()), Ok(())) => format!("{} {} {}", show(&x), show(&y), rd.pos), _ => "ERR:eof".to_string() } }
        ("read_le", 1) => { let bs = parse_bytes(a[0])?; let mut x = mk(&vec![0u64; n]); match x.read_le(&bs[..]) { Ok(()) => show(&x), Err(_) => "ERR:eof".to_string() } }
        ("write_be", 1) => { let mut buf = vec![]; p(a[0])?.write_be(&mut buf).ok()?; show_bytes(&buf) }
        ("write_le", 1) => { let mut buf = vec![]; p(a[0])?.write_le(&mut buf).ok()?; show_bytes(&buf) }
        _ => return None,
    })
}


// ------------------------------------------------------------------ concrete-type routes
// The generic functions above reach every operation through its TRAIT (`T: Field`, `T: PrimeFieldRepr`).  Method-call
// syntax on a CONCRETE type resolves an inherent method first, so an `impl Fq { fn pow .. }` / `impl FrRepr { fn shr .. }`
// added to the library is what library code and users calling `x.shr(n)` on the concrete type get, and the generic route
// never sees it.  The macros below instantiate the same operations on the concrete types; `both` reports a disagreement
// between the two routes as the result of the case (so it differs from the model's and the oracle's answer).
macro_rules! field_op_c { ($name:ident, $t:ty) => { fn $name(op: &str, a: &[&str]) -> R {
    Some(match (op, a.len()) {
        ("add", 2) => { let mut x = <$t>::parse(a[0])?; x.add_assign(&<$t>::parse(a[1])?); x.show() }
        ("sub", 2) => { let mut x = <$t>::parse(a[0])?; x.sub_assign(&<$t>::parse(a[1])?); x.show() }
        ("mul", 2) => { let mut x = <$t>::parse(a[0])?; x.mul_assign(&<$t>::parse(a[1])?); x.show() }
        ("neg", 1) => { let mut x = <$t>::parse(a[0])?; x.negate(); x.show() }
        ("dbl", 1) => { let mut x = <$t>::parse(a[0])?; x.double(); x.show() }
        ("sq", 1) => { let mut x = <$t>::parse(a[0])?; x.square(); x.show() }
        ("inv", 1) => show_opt(<$t>::parse(a[0])?.inverse()),
        ("iszero", 1) => show_bool(<$t>::parse(a[0])?.is_zero()),
        ("eq", 2) => show_bool(<$t>::parse(a[0])? == <$t>::parse(a[1])?),
        ("frob", 2) => { let mut x = <$t>::parse(a[0])?; x.frobenius_map(parse_usize(a[1])?); x.show() }
        ("pow", 2) => {
            let x = <$t>::parse(a[0])?;
            let mut ls = vec![];
            for t in split_list(a[1]) { ls.push(parse_u64(t)?); }
            x.pow(&ls).show()
        }
        _ => return None,
    })
} } }
macro_rules! sqrt_op_c { ($name:ident, $t:ty) => { fn $name(op: &str, a: &[&str]) -> R {
    Some(match (op, a.len()) {
        ("sqrt", 1) => show_opt(<$t>::parse(a[0])?.sqrt()),
        ("legendre", 1) => show_leg(<$t>::parse(a[0])?.legendre()),
        ("lt", 2) => show_bool(<$t>::parse(a[0])? < <$t>::parse(a[1])?),
        // every comparison entry point: Ord::cmp, PartialOrd::partial_cmp, the four operators, max/min
        ("cmpall", 2) => { let (x, y) = (<$t>::parse(a[0])?, <$t>::parse(a[1])?);
            let o = |c: std::cmp::Ordering| match c { std::cmp::Ordering::Less => -1, std::cmp::Ordering::Equal => 0, std::cmp::Ordering::Greater => 1 };
            format!("{} {} {} {} {} {} {} {}", o(x.cmp(&y)), x.partial_cmp(&y).map(o).unwrap_or(9), show_bool(x < y), show_bool(x <= y), show_bool(x > y), show_bool(x >= y),
                    std::cmp::max(x, y).show(), std::cmp::min(x, y).show()) }
        _ => return None,
    })
} } }
macro_rules! sgn_op_c { ($name:ident, $t:ty) => { fn $name(op: &str, a: &[&str]) -> R {
    Some(match (op, a.len()) {
        ("sgn0", 1) => show_sgn(<$t>::parse(a[0])?.sgn0()),
        ("negif", 2) => { let mut x = <$t>::parse(a[0])?; x.negate_if(if a[1] == "1" { Sgn0Result::Negative } else { Sgn0Result::NonNegative }); x.show() }
        ("sgnxor", 2) => { let f = |t: &str| if t == "1" { Sgn0Result::Negative } else { Sgn0Result::NonNegative }; show_sgn(f(a[0]) ^ f(a[1])) }
        _ => return None,
    })
} } }
macro_rules! repr_op_c { ($name:ident, $t:ty) => { fn $name(mk: &dyn Fn(&[u64]) -> $t, n: usize, op: &str, a: &[&str]) -> R {
    let p = |s: &str| -> Option<$t> { Some(mk(&parse_limbs(s, n)?)) };
    let show = |x: &$t| limbs_hex(x.as_ref());
    Some(match (op, a.len()) {
        ("add_nocarry", 2) => { let mut x = p(a[0])?; x.add_nocarry(&p(a[1])?); show(&x) }
        ("sub_noborrow", 2) => { let mut x = p(a[0])?; x.sub_noborrow(&p(a[1])?); show(&x) }
        ("shr", 2) => { let mut x = p(a[0])?; x.shr(parse_u64(a[1])? as u32); show(&x) }
        ("shl", 2) => { let mut x = p(a[0])?; x.shl(parse_u64(a[1])? as u32); show(&x) }
        ("div2", 1) => { let mut x = p(a[0])?; x.div2(); show(&x) }
        ("mul2", 1) => { let mut x = p(a[0])?; x.mul2(); show(&x) }
        ("num_bits", 1) => p(a[0])?.num_bits().to_string(),
        ("is_odd", 1) => show_bool(p(a[0])?.is_odd()),
        ("is_zero", 1) => show_bool(p(a[0])?.is_zero()),
        ("cmp", 2) => match p(a[0])?.cmp(&p(a[1])?) {
            std::cmp::Ordering::Less => "-1", std::cmp::Ordering::Equal => "0", std::cmp::Ordering::Greater => "1",
        }.to_string(),
        ("from_u64", 1) => show(&<$t>::from(parse_u64(a[0])?)),
        ("read_be", 1) => { let bs = parse_bytes(a[0])?; let mut x = mk(&vec![0u64; n]); match x.read_be(&bs[..]) { Ok(()) => show(&x), Err(_) => "ERR:eof".to_string() } }
        // two values read back to back from a reader that delivers at most `chunk` bytes per read call: the first read_be must
        // consume exactly its own bytes
        ("read_be2", 2) => { let bs = parse_bytes(a[0])?; let mut rd = Chunked { data: &bs[..], pos: 0, chunk: parse_usize(a[1])?.max(1) };
            let mut x = mk(&vec![0u64; n]); let mut y = mk(&vec![0u64; n]);
            let r1 = x.read_be(&mut rd); let r2 = y.read_be(&mut rd);
            match (r1, r2) { (Ok(()), Ok(())) => format!("{} {} {}", show(&x), show(&y), rd.pos), _ => "ERR:eof".to_string() } }
        ("read_le", 1) => { let bs = parse_bytes(a[0])?; let mut x = mk(&vec![0u64; n]); match x.read_le(&bs[..]) { Ok(()) => show(&x), Err(_) => "ERR:eof".to_string() } }
        ("write_be", 1) => { let mut buf = vec![]; p(a[0])?.write_be(&mut buf).ok()?; show_bytes(&buf) }
        ("write_le", 1) => { let mut buf = vec![]; p(a[0])?.write_le(&mut buf).ok()?; show_bytes(&buf) }
        _ => return None,
    })
} } }
field_op_c!(field_op_fq, Fq); field_op_c!(field_op_fr, Fr); field_op_c!(field_op_fq2, Fq2); field_op_c!(field_op_fq6, Fq6); field_op_c!(field_op_fq12, Fq12);
sqrt_op_c!(sqrt_op_fq, Fq); sqrt_op_c!(sqrt_op_fr, Fr); sqrt_op_c!(sqrt_op_fq2, Fq2);
sgn_op_c!(sgn_op_fq, Fq); sgn_op_c!(sgn_op_fq2, Fq2);
repr_op_c!(repr_op_fq, FqRepr); repr_op_c!(repr_op_fr, FrRepr);

fn both(tr: R, co: R) -> R {
    match (tr, co) {
        (Some(x), Some(y)) => if x == y { Some(x) } else { Some(format!("ROUTE-MISMATCH trait={} concrete={}", x, y)) },
        (x, None) => x,
        (None, y) => y,
    }
}

// ------------------------------------------------------------------ dispatch

fn run_line(line: &str) -> String {
    let toks: Vec<&str> = line.split(' ').filter(|t| !t.is_empty()).collect();
    if toks.is_empty() {
        return "BAD-CASE".to_string();
    }
    let r: R = match toks[0] {
        "fq" if toks.len() >= 2 => {
            let (op, a) = (toks[1], &toks[2..]);
            if op == "fromrepr" && a.len() == 1 {
                both(parse_limbs(a[0], 6).map(|l| match <Fq as PrimeField>::from_repr(repr6(&l)) { Ok(x) => x.show(), Err(_) => "ERR:NotInField".to_string() }),
                     parse_limbs(a[0], 6).map(|l| match Fq::from_repr(repr6(&l)) { Ok(x) => x.show(), Err(_) => "ERR:NotInField".to_string() }))
            } else {
                both(field_op::<Fq>(op, a).or_else(|| sqrt_op::<Fq>(op, a)).or_else(|| sgn_op::<Fq>(op, a)), field_op_fq(op, a).or_else(|| sqrt_op_fq(op, a)).or_else(|| sgn_op_fq(op, a)))
            }
        }
        "fr" if toks.len() >= 2 => {
            let (op, a) = (toks[1], &toks[2..]);
            if op == "fromrepr" && a.len() == 1 {
                both(parse_limbs(a[0], 4).map(|l| match <Fr as PrimeField>::from_repr(repr4(&l)) { Ok(x) => x.show(), Err(_) => "ERR:NotInField".to_string() }),
                     parse_limbs(a[0], 4).map(|l| match Fr::from_repr(repr4(&l)) { Ok(x) => x.show(), Err(_) => "ERR:NotInField".to_string() }))
            } else {
                both(field_op::<Fr>(op, a).or_else(|| sqrt_op::<Fr>(op, a)), field_op_fr(op, a).or_else(|| sqrt_op_fr(op, a)))
            }
        }
        "fq2" if toks.len() >= 2 => {
            let (op, a) = (toks[1], &toks[2..]);
            match (op, a.len()) {
                ("norm", 1) => Fq2::parse(a[0]).map(|x| x.norm().show()),
                ("nonres", 1) => Fq2::parse(a[0]).map(|mut x| { x.mul_by_nonresidue(); x.show() }),
                _ => both(field_op::<Fq2>(op, a).or_else(|| sqrt_op::<Fq2>(op, a)).or_else(|| sgn_op::<Fq2>(op, a)), field_op_fq2(op, a).or_else(|| sqrt_op_fq2(op, a)).or_else(|| sgn_op_fq2(op, a))),
            }
        }
        "fq6" if toks.len() >= 2 => {
            let (op, a) = (toks[1], &toks[2..]);
            match (op, a.len()) {
                ("nonres", 1) => Fq6::parse(a[0]).map(|mut x| { x.mul_by_nonresidue(); x.show() }),
                ("mulby1", 2) => (|| { let mut x = Fq6::parse(a[0])?; x.mul_by_1(&Fq2::parse(a[1])?); Some(x.show()) })(),
                ("mulby01", 3) => (|| { let mut x = Fq6::parse(a[0])?; x.mul_by_01(&Fq2::parse(a[1])?, &Fq2::parse(a[2])?); Some(x.show()) })(),
                _ => both(field_op::<Fq6>(op, a), field_op_fq6(op, a)),
            }
        }
        "fq12" if toks.len() >= 2 => {
            let (op, a) = (toks[1], &toks[2..]);
            match (op, a.len()) {
                ("conj", 1) => Fq12::parse(a[0]).map(|mut x| { x.conjugate(); x.show() }),
                ("mulby014", 4) => (|| { let mut x = Fq12::parse(a[0])?; x.mul_by_014(&Fq2::parse(a[1])?, &Fq2::parse(a[2])?, &Fq2::parse(a[3])?); Some(x.show()) })(),
                _ => both(field_op::<Fq12>(op, a), field_op_fq12(op, a)),
            }
        }
        "g1" if toks.len() >= 2 => g1::op(toks[1], &toks[2..]),
        "g2" if toks.len() >= 2 => g2::op(toks[1], &toks[2..]),
        "rnd" if toks.len() == 3 => rnd_op(toks[1], toks[2]),
        "mfq" if toks.len() >= 2 => mfq_op(toks[1], &toks[2..]),
        "lfq" if toks.len() >= 2 => mfq_op(toks[1], &toks[2..]),
        "lfr" if toks.len() >= 2 => mfr_op(toks[1], &toks[2..]),
        "mfr" if toks.len() >= 2 => mfr_op(toks[1], &toks[2..]),
        "repr" if toks.len() >= 3 => match toks[1] {
            "6" => both(repr_op::<FqRepr>(&|l| repr6(l), 6, toks[2], &toks[3..]), repr_op_fq(&|l| repr6(l), 6, toks[2], &toks[3..])),
            "4" => both(repr_op::<FrRepr>(&|l| repr4(l), 4, toks[2], &toks[3..]), repr_op_fr(&|l| repr4(l), 4, toks[2], &toks[3..])),
            _ => None,
        },
        op => hash_op(op, &toks[1..]).or_else(|| misc_op(op, &toks[1..])),
    };
    r.unwrap_or_else(|| "BAD-CASE".to_string())
}

fn run_guarded(l: &str) -> String {
    let owned = l.to_string();
    match panic::catch_unwind(move || run_line(&owned)) {
        Ok(s) => s,
        Err(_) => "PANIC".to_string(),
    }
}

fn main() {
    panic::set_hook(Box::new(|_| {}));
    let args: Vec<String> = std::env::args().collect();
    let stdin = io::stdin();
    let stdout = io::stdout();
    let mut out = io::BufWriter::new(stdout.lock());
    if args.len() >= 3 && args[1] == "--threads" {
        // concurrent mode (C20): all lines are read first, then evaluated from N threads,
        // thread t taking lines t, t+N, ...; results are printed in input order.
        let n: usize = args[2].parse().unwrap_or(16);
        let lines: Vec<String> = stdin.lock().lines().filter_map(|l| l.ok()).collect();
        let lines = std::sync::Arc::new(lines);
        let mut handles = vec![];
        for t in 0..n {
            let lines = lines.clone();
            handles.push(std::thread::spawn(move || {
                let mut res = vec![];
                let mut i = t;
                while i < lines.len() {
                    let l = lines[i].trim().to_string();
                    if l.is_empty() || l.starts_with('#') {
                        res.push((i, l));
                    } else {
                        res.push((i, run_guarded(&l)));
                    }
                    std::thread::yield_now();
                    i += n;
                }
                res
            }));
        }
        let mut all: Vec<(usize, String)> = vec![];
        for h in handles {
            all.extend(h.join().unwrap());
        }
        all.sort();
        for (_, s) in all {
            writeln!(out, "{}", s).unwrap();
        }
        out.flush().unwrap();
        return;
    }
    for line in stdin.lock().lines() {
        let line = match line { Ok(l) => l, Err(_) => break };
        let l = line.trim();
        if l.is_empty() || l.starts_with('#') {
            writeln!(out, "{}", l).unwrap();
            continue;
        }
        writeln!(out, "{}", run_guarded(l)).unwrap();
    }
    out.flush().unwrap();
}
